import Verif.Lemmas.TokenRules.Md037Run
import Verif.Model.TokenRules.Md037Spec
/-!
  MD037 — `__process_fixes`:
  * `procFixes037_idx`: the tokens it registers a request for are the tokens of the pending list with consecutive repetitions merged
    (so a token that comes back after another one is requested twice);
  * `procGo037_seg`: on a contiguous group of entries of one token that come in text order and do not overlap, the running
    `current_delta` is right: the request carries the text without those intervals (`cutGo037`);
  * `procFixes037_segs`: a grouped and ordered pending list yields exactly one request per group, with that text;
  * `cutGo037_blankDel`, `cutGo037_length`: cutting blank intervals deletes blanks only.
-/
namespace Verif.Model.TokenRules
open Verif.Model

/-! ## which tokens are requested -/

def curIdx037 : Option (Nat × Str × Int) → List Nat
  | some c => [c.1]
  | none => []

theorem procStart037_fst (cur : Option (Nat × Str × Int)) (p : Pend037) : (procStart037 cur p).1 = p.tidx := by
  unfold procStart037
  split
  · split
    · rename_i h; exact h
    · rfl
  · rfl

theorem procGo037_idx : ∀ (ps : List Pend037) (cur : Option (Nat × Str × Int)),
    (procGo037 cur ps).map (·.idx) = compress037 (curIdx037 cur ++ ps.map (·.tidx)) := by
  intro ps
  induction ps with
  | nil =>
    intro cur
    cases cur with
    | none => rfl
    | some c => obtain ⟨i, txt, d⟩ := c; rfl
  | cons p ps ih =>
    intro cur
    rw [procGo037_cons, List.map_append, ih]
    have h1 : curIdx037 (some (procCut037 (procStart037 cur p) p)) = [p.tidx] := by
      show [(procStart037 cur p).1] = [p.tidx]; rw [procStart037_fst]
    rw [h1]
    cases cur with
    | none => rfl
    | some c =>
      obtain ⟨i, txt, d⟩ := c
      show List.map (·.idx) (if i = p.tidx then [] else [tokenTextReq037 i txt]) ++ _ = compress037 (i :: p.tidx :: ps.map (·.tidx))
      rw [compress037]
      by_cases h : i = p.tidx
      · rw [if_pos h, if_pos h]; rfl
      · rw [if_neg h, if_neg h]; rfl

/-- the tokens `__process_fixes` registers a request for -/
theorem procFixes037_idx (L : List Pend037) : (procFixes037 L).map (·.idx) = compress037 (L.map (·.tidx)) :=
  procGo037_idx L none

theorem mem_compress037 : ∀ (l : List Nat) (x : Nat), x ∈ compress037 l → x ∈ l
  | [], x, h => by simp [compress037] at h
  | [i], x, h => by simpa [compress037] using h
  | i :: j :: l, x, h => by
    rw [compress037] at h
    split at h
    · exact List.mem_cons_of_mem _ (mem_compress037 (j :: l) x h)
    · rcases List.mem_cons.mp h with h | h
      · rw [h]; exact List.mem_cons_self
      · exact List.mem_cons_of_mem _ (mem_compress037 (j :: l) x h)

/-! ## Python slices at the indices `__process_fixes` computes on an ordered group -/

theorem pyTake037_nat (s : Str) (n : Nat) : pyTake037 s (n : Int) = s.take n := by
  unfold pyTake037
  rw [if_neg (by omega)]
  rfl

theorem pyDrop037_nat (s : Str) (n : Nat) : pyDrop037 s (n : Int) = s.drop n := by
  unfold pyDrop037
  rw [if_neg (by omega)]
  rfl

/-- one entry of an ordered group: with `current_text = A ++ txt[pos:]` and `current_delta = pos - len(A)`, cutting `[start, stop)`
    (`pos ≤ start ≤ stop ≤ len(txt)`) gives `A ++ txt[pos:start] ++ txt[stop:]` and `current_delta = stop - len(A ++ txt[pos:start])` -/
theorem procCut037_ordered (i : Nat) (txt A : Str) (pos : Nat) (p : Pend037) (_hA : A.length ≤ pos) (h1 : pos ≤ p.start)
    (h2 : p.start ≤ p.stop) (h3 : p.stop ≤ txt.length) :
    procCut037 (i, A ++ txt.drop pos, (pos : Int) - A.length) p =
      (i, (A ++ (txt.drop pos).take (p.start - pos)) ++ txt.drop p.stop,
        (p.stop : Int) - (A ++ (txt.drop pos).take (p.start - pos)).length) := by
  unfold procCut037
  dsimp only
  have e1 : (p.start : Int) - ((pos : Int) - A.length) = ((A.length + (p.start - pos) : Nat) : Int) := by omega
  have e2 : (p.stop : Int) - ((pos : Int) - A.length) = ((A.length + (p.stop - pos) : Nat) : Int) := by omega
  rw [e1, e2, pyTake037_nat, pyDrop037_nat]
  have t1 : (A ++ txt.drop pos).take (A.length + (p.start - pos)) = A ++ (txt.drop pos).take (p.start - pos) := by
    rw [List.take_append, List.take_of_length_le (by omega), Nat.add_sub_cancel_left]
  have t2 : (A ++ txt.drop pos).drop (A.length + (p.stop - pos)) = txt.drop p.stop := by
    rw [List.drop_append]; simp only [List.drop_drop]
    have : A.length + (p.stop - pos) - A.length = p.stop - pos := by omega
    rw [List.drop_of_length_le (by omega : A.length ≤ A.length + (p.stop - pos)), List.nil_append, this]
    congr 1; omega
  rw [t1, t2]
  have hl : (A ++ (txt.drop pos).take (p.start - pos)).length = A.length + (p.start - pos) := by
    simp only [List.length_append, List.length_take, List.length_drop]; omega
  rw [hl]
  congr 2
  omega

/-- a contiguous group of entries of token `i` in text order, followed by the entries of other tokens -/
theorem procGo037_seg (i : Nat) (txt : Str) : ∀ (seg : List Pend037) (A : Str) (pos : Nat) (rest : List Pend037),
    (∀ p ∈ seg, p.tidx = i ∧ p.stop ≤ txt.length) → Chain037 pos seg → A.length ≤ pos → pos ≤ txt.length →
    (∀ r, rest.head? = some r → r.tidx ≠ i) →
    procGo037 (some (i, A ++ txt.drop pos, (pos : Int) - A.length)) (seg ++ rest) =
      tokenTextReq037 i (A ++ cutGo037 txt pos seg) :: procGo037 none rest := by
  intro seg
  induction seg with
  | nil =>
    intro A pos rest _ _ _ _ hr
    cases rest with
    | nil => rfl
    | cons r rest =>
      have hne : i ≠ r.tidx := fun e => hr r rfl e.symm
      rw [List.nil_append, procGo037_cons, procGo037_cons]
      simp only [procEmit037, procStart037, if_neg hne, cutGo037]
      rfl
  | cons p seg ih =>
    intro A pos rest hs hc hA hpos hr
    obtain ⟨hi, hstop⟩ := hs p List.mem_cons_self
    obtain ⟨c1, c2, c3⟩ := hc
    rw [List.cons_append, procGo037_cons]
    have hst : procStart037 (some (i, A ++ txt.drop pos, (pos : Int) - A.length)) p = (i, A ++ txt.drop pos, (pos : Int) - A.length) := by
      simp only [procStart037, if_pos hi.symm]
    have hem : procEmit037 (some (i, A ++ txt.drop pos, (pos : Int) - A.length)) p = [] := by
      simp only [procEmit037, if_pos hi.symm]
    rw [hst, hem, List.nil_append, procCut037_ordered i txt A pos p hA c1 c2 hstop]
    have hl : (A ++ (txt.drop pos).take (p.start - pos)).length ≤ p.stop := by
      simp only [List.length_append, List.length_take, List.length_drop]; omega
    rw [ih (A ++ (txt.drop pos).take (p.start - pos)) p.stop rest (fun q hq => hs q (List.mem_cons_of_mem _ hq)) c3 hl hstop hr]
    rw [cutGo037, List.append_assoc]

/-- the same, starting a new group (the `if current_token != new_bob.token_to_modify` branch) -/
theorem procGo037_seg_none (i : Nat) (txt : Str) (p : Pend037) (seg rest : List Pend037)
    (hs : ∀ q ∈ p :: seg, q.tidx = i ∧ q.stop ≤ txt.length) (ht : p.text = txt) (hc : Chain037 0 (p :: seg))
    (hr : ∀ r, rest.head? = some r → r.tidx ≠ i) :
    procGo037 none ((p :: seg) ++ rest) = tokenTextReq037 i (cutGo037 txt 0 (p :: seg)) :: procGo037 none rest := by
  have h := procGo037_seg i txt (p :: seg) [] 0 rest hs hc (Nat.le_refl 0) (Nat.zero_le _) hr
  simp only [List.nil_append, List.drop_zero] at h
  rw [← h, List.cons_append, procGo037_cons, procGo037_cons]
  have hi := (hs p List.mem_cons_self).1
  simp only [procEmit037, procStart037, ht, hi]
  rfl

/-! ## a grouped, ordered pending list -/

/-- `L` cut into its groups of consecutive entries of one token -/
inductive Segs037 : List Pend037 → List (Nat × List Pend037) → Prop
  | nil : Segs037 [] []
  | cons (i : Nat) (p : Pend037) (seg rest : List Pend037) (segs : List (Nat × List Pend037)) :
      (∀ q ∈ p :: seg, q.tidx = i) → (∀ r, rest.head? = some r → r.tidx ≠ i) → Segs037 rest segs →
      Segs037 ((p :: seg) ++ rest) ((i, p :: seg) :: segs)

theorem segs037_exists : ∀ (L : List Pend037), ∃ segs, Segs037 L segs
  | [] => ⟨[], .nil⟩
  | p :: L => by
    obtain ⟨segs, h⟩ := segs037_exists L
    cases h with
    | nil => exact ⟨[(p.tidx, [p])], .cons p.tidx p [] [] [] (by intro q hq; simp at hq; rw [hq]) (by intro r hr; cases hr) .nil⟩
    | cons i q seg rest segs' hs hr hrest =>
      by_cases hi : p.tidx = i
      · refine ⟨(i, p :: q :: seg) :: segs', ?_⟩
        have := Segs037.cons i p (q :: seg) rest segs' (by
          intro x hx
          rcases List.mem_cons.mp hx with h | h
          · rw [h]; exact hi
          · exact hs x h) hr hrest
        simpa using this
      · refine ⟨(p.tidx, [p]) :: (i, q :: seg) :: segs', ?_⟩
        have := Segs037.cons p.tidx p [] ((q :: seg) ++ rest) ((i, q :: seg) :: segs') (by intro x hx; simp at hx; rw [hx])
          (by intro r hr'; simp at hr'; rw [← hr']; rw [hs q List.mem_cons_self]; exact fun e => hi e.symm) (.cons i q seg rest segs' hs hr hrest)
        simpa using this

theorem Segs037.mem {L : List Pend037} {segs : List (Nat × List Pend037)} (h : Segs037 L segs) :
    ∀ g ∈ segs, ∀ q ∈ g.2, q ∈ L := by
  induction h with
  | nil => intro g hg; cases hg
  | cons i p seg rest segs' hs hr hrest ih =>
    intro g hg q hq
    rcases List.mem_cons.mp hg with h | h
    · subst h; exact List.mem_append_left _ hq
    · exact List.mem_append_right _ (ih g h q hq)

theorem ordGo037_append : ∀ (a b : List Pend037), ordGo037 (a ++ b) = true → ordGo037 a = true ∧ ordGo037 b = true
  | [], b, h => ⟨rfl, h⟩
  | [x], [], _ => ⟨rfl, rfl⟩
  | [x], y :: b, h => by
    simp only [List.cons_append, List.nil_append, ordGo037, Bool.and_eq_true] at h
    exact ⟨rfl, h.2⟩
  | x :: y :: a, b, h => by
    simp only [List.cons_append, ordGo037, Bool.and_eq_true] at h
    have := ordGo037_append (y :: a) b h.2
    exact ⟨by simp only [ordGo037, Bool.and_eq_true]; exact ⟨h.1, this.1⟩, this.2⟩

/-- within one group, `ordGo037` is a chain -/
theorem chain037_of_ordGo (i : Nat) : ∀ (seg : List Pend037) (pos : Nat), (∀ q ∈ seg, q.tidx = i ∧ q.start ≤ q.stop) →
    ordGo037 seg = true → (∀ q, seg.head? = some q → pos ≤ q.start) → Chain037 pos seg
  | [], _, _, _, _ => trivial
  | [x], pos, hs, _, hp => ⟨hp x rfl, (hs x List.mem_cons_self).2, trivial⟩
  | x :: y :: seg, pos, hs, ho, hp => by
    simp only [ordGo037, Bool.and_eq_true] at ho
    have hx := (hs x List.mem_cons_self).1
    have hy := (hs y (List.mem_cons_of_mem _ List.mem_cons_self)).1
    rw [if_pos (by rw [hx, hy])] at ho
    refine ⟨hp x rfl, (hs x List.mem_cons_self).2, ?_⟩
    exact chain037_of_ordGo i (y :: seg) x.stop (fun q hq => hs q (List.mem_cons_of_mem _ hq)) ho.2
      (by intro q hq; simp at hq; rw [← hq]; simpa using ho.1)

/-- `__process_fixes` on a pending list whose groups are in text order: one request per group, carrying the token's text without the
    group's intervals -/
theorem procFixes037_segs (all : List Tok2) {L : List Pend037} {segs : List (Nat × List Pend037)} (h : Segs037 L segs)
    (ho : ordGo037 L = true) (hL : ∀ p ∈ L, TextAt037 all p.tidx p.text ∧ PGood037 p) :
    ∃ txts : List Str, txts.length = segs.length ∧
      procFixes037 L = (segs.zip txts).map (fun g => tokenTextReq037 g.1.1 (cutGo037 g.2 0 g.1.2)) ∧
      ∀ g ∈ segs.zip txts, TextAt037 all g.1.1 g.2 ∧ Chain037 0 g.1.2 ∧ ∀ q ∈ g.1.2, q.text = g.2 := by
  unfold procFixes037
  induction h with
  | nil => exact ⟨[], rfl, rfl, by intro g hg; cases hg⟩
  | cons i p seg rest segs' hs hr hrest ih =>
    obtain ⟨ho1, ho2⟩ := ordGo037_append (p :: seg) rest ho
    obtain ⟨txts, hlen, heq, hall⟩ := ih ho2 (fun q hq => hL q (List.mem_append_right _ hq))
    have hp := hL p (List.mem_append_left _ List.mem_cons_self)
    have htxt : ∀ q ∈ p :: seg, q.text = p.text := by
      intro q hq
      obtain ⟨t1, ht1, _, e1⟩ := (hL q (List.mem_append_left _ hq)).1
      obtain ⟨t2, ht2, _, e2⟩ := hp.1
      rw [hs q hq, ← hs p List.mem_cons_self, ht2] at ht1
      cases ht1
      rw [← e1, ← e2]
    have hgood : ∀ q ∈ p :: seg, q.tidx = i ∧ q.stop ≤ p.text.length := by
      intro q hq
      have := (hL q (List.mem_append_left _ hq)).2
      exact ⟨hs q hq, by rw [← htxt q hq]; exact this.inside⟩
    have hchain : Chain037 0 (p :: seg) :=
      chain037_of_ordGo i (p :: seg) 0 (fun q hq => ⟨hs q hq, Nat.le_of_lt (hL q (List.mem_append_left _ hq)).2.nonempty⟩) ho1
        (fun _ _ => Nat.zero_le _)
    refine ⟨p.text :: txts, by simp [hlen], ?_, ?_⟩
    · rw [procGo037_seg_none i p.text p seg rest hgood rfl hchain hr, heq]
      rfl
    · intro g hg
      simp only [List.zip_cons_cons, List.mem_cons] at hg
      rcases hg with h | h
      · subst h
        refine ⟨?_, hchain, htxt⟩
        have := hp.1
        rw [hs p List.mem_cons_self] at this
        exact this
      · exact hall g h

theorem Segs037.idx {L : List Pend037} {segs : List (Nat × List Pend037)} (h : Segs037 L segs)
    (all : List Tok2) (ho : ordGo037 L = true) (hL : ∀ p ∈ L, TextAt037 all p.tidx p.text ∧ PGood037 p) :
    segs.map (·.1) = compress037 (L.map (·.tidx)) := by
  obtain ⟨txts, hlen, heq, _⟩ := procFixes037_segs all h ho hL
  rw [← procFixes037_idx, heq, List.map_map]
  have : ∀ (a : List (Nat × List Pend037)) (b : List Str), a.length = b.length →
      List.map ((fun q : FixReq2 => q.idx) ∘ fun g : (Nat × List Pend037) × Str => tokenTextReq037 g.1.1 (cutGo037 g.2 0 g.1.2)) (a.zip b) = a.map (·.1) := by
    intro a
    induction a with
    | nil => intro b _; rfl
    | cons x a ih =>
      intro b hb
      cases b with
      | nil => cases hb
      | cons y b => simp only [List.zip_cons_cons, List.map_cons, List.length_cons, Nat.add_right_cancel_iff] at hb ⊢; rw [ih b hb]; rfl
  exact (this segs txts hlen.symm).symm

/-! ## cutting blank intervals deletes blanks only -/

theorem BlankDel037.refl : ∀ (s : Str), BlankDel037 s s
  | [] => .nil
  | c :: s => .keep c (BlankDel037.refl s)

theorem BlankDel037.append {a a' b b' : Str} (h1 : BlankDel037 a a') (h2 : BlankDel037 b b') : BlankDel037 (a ++ b) (a' ++ b') := by
  induction h1 with
  | nil => exact h2
  | keep c _ ih => exact .keep c ih
  | del c hc _ ih => exact .del c hc ih

theorem BlankDel037.blanks : ∀ (s : Str), (∀ c ∈ s, isBlank037 c = true) → BlankDel037 s []
  | [], _ => .nil
  | c :: s, h => .del c (h c List.mem_cons_self) (BlankDel037.blanks s (fun d hd => h d (List.mem_cons_of_mem _ hd)))

theorem BlankDel037.length {s s' : Str} (h : BlankDel037 s s') : s'.length ≤ s.length := by
  induction h with
  | nil => exact Nat.le_refl 0
  | keep c _ ih => simp only [List.length_cons]; omega
  | del c _ _ ih => simp only [List.length_cons]; omega

/-- the characters that are not blanks are the same, in the same order -/
theorem BlankDel037.filter {s s' : Str} (h : BlankDel037 s s') : s'.filter (fun c => !isBlank037 c) = s.filter (fun c => !isBlank037 c) := by
  induction h with
  | nil => rfl
  | keep c _ ih => simp only [List.filter_cons]; rw [ih]
  | del c hc _ ih => simp only [List.filter_cons, hc, Bool.not_true]; exact ih

theorem drop_split037 (txt : Str) (pos s e : Nat) (h1 : pos ≤ s) (h2 : s ≤ e) (_h3 : e ≤ txt.length) :
    txt.drop pos = (txt.drop pos).take (s - pos) ++ ((txt.drop s).take (e - s) ++ txt.drop e) := by
  have a : txt.drop pos = (txt.drop pos).take (s - pos) ++ (txt.drop pos).drop (s - pos) := (List.take_append_drop _ _).symm
  have b : (txt.drop pos).drop (s - pos) = txt.drop s := by rw [List.drop_drop]; congr 1; omega
  have c : txt.drop s = (txt.drop s).take (e - s) ++ (txt.drop s).drop (e - s) := (List.take_append_drop _ _).symm
  have d : (txt.drop s).drop (e - s) = txt.drop e := by rw [List.drop_drop]; congr 1; omega
  rw [b] at a; rw [d] at c
  rw [← c]; exact a

theorem cutGo037_blankDel (txt : Str) : ∀ (seg : List Pend037) (pos : Nat), Chain037 pos seg →
    (∀ p ∈ seg, p.stop ≤ txt.length ∧ ∀ k, p.start ≤ k → k < p.stop → ∃ c, txt[k]? = some c ∧ isBlank037 c = true) →
    BlankDel037 (txt.drop pos) (cutGo037 txt pos seg) ∧ (cutGo037 txt pos seg).length + cutLen037 seg = txt.length - pos := by
  intro seg
  induction seg with
  | nil => intro pos _ _; exact ⟨BlankDel037.refl _, by simp [cutGo037, cutLen037]⟩
  | cons p seg ih =>
    intro pos hc hs
    obtain ⟨c1, c2, c3⟩ := hc
    obtain ⟨h3, hb⟩ := hs p List.mem_cons_self
    obtain ⟨ih1, ih2⟩ := ih p.stop c3 (fun q hq => hs q (List.mem_cons_of_mem _ hq))
    constructor
    · rw [drop_split037 txt pos p.start p.stop c1 c2 h3, cutGo037]
      refine BlankDel037.append (BlankDel037.refl _) ?_
      have : cutGo037 txt p.stop seg = [] ++ cutGo037 txt p.stop seg := rfl
      rw [this]
      refine BlankDel037.append (BlankDel037.blanks _ ?_) ih1
      intro c hcm
      obtain ⟨k, hget⟩ := List.mem_iff_getElem?.mp hcm
      have hk : k < p.stop - p.start := by
        apply Classical.byContradiction
        intro hn
        rw [List.getElem?_eq_none (by simp only [List.length_take, List.length_drop]; omega)] at hget
        cases hget
      rw [List.getElem?_take, if_pos hk, List.getElem?_drop] at hget
      obtain ⟨c', hc', hbl⟩ := hb (p.start + k) (by omega) (by omega)
      rw [hget] at hc'; cases hc'; exact hbl
    · rw [cutGo037, cutLen037, List.length_append, List.length_take, List.length_drop]
      omega

end Verif.Model.TokenRules
