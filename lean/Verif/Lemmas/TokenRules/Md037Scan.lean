import Verif.Lemmas.TokenRules.Md037Good
import Verif.Model.TokenRules.Md037Spec
/-!
  MD037 — the index loop of `__check_text_token` / `__find_next_eligible_emphasis` (two `str.find` calls, restart at
  `next_index + 1 + found_length`) finds exactly the runs of the one-pass character scanner `eligGo037`, and the scan of a stream is
  the stack discipline `pairsGo037` over those runs, block by block (`specGo037`).
-/
namespace Verif.Model.TokenRules
open Verif.Model

/-! ## `str.find` one character at a time -/

theorem findFrom_step037 (c : Char) : ∀ (s : Str) (n : Nat) (x : Char), s[n]? = some x → x ≠ c →
    Codec.findFrom c s n = Codec.findFrom c s (n + 1)
  | [], _, _, h, _ => by simp at h
  | y :: ys, 0, x, h, hx => by
    simp only [List.getElem?_cons_zero, Option.some.injEq] at h; subst h
    rw [Codec.findFrom, if_neg hx, Codec.findFrom]
  | y :: ys, n + 1, x, h, hx => by
    simp only [List.getElem?_cons_succ] at h
    rw [Codec.findFrom, Codec.findFrom, findFrom_step037 c ys n x h hx]

theorem findFrom_hit037 (c : Char) : ∀ (s : Str) (n : Nat), s[n]? = some c → Codec.findFrom c s n = some n
  | [], _, h => by simp at h
  | y :: ys, 0, h => by
    simp only [List.getElem?_cons_zero, Option.some.injEq] at h; subst h
    rw [Codec.findFrom, if_pos rfl]
  | y :: ys, n + 1, h => by
    simp only [List.getElem?_cons_succ] at h
    rw [Codec.findFrom, findFrom_hit037 c ys n h]; rfl

theorem findFrom_later037 (c x : Char) (s : Str) (n : Nat) (h : s[n]? = some x) (hx : x ≠ c) :
    Codec.findFrom c s n = none ∨ ∃ j, Codec.findFrom c s n = some j ∧ n < j := by
  cases hf : Codec.findFrom c s n with
  | none => exact .inl rfl
  | some j =>
    right
    have := Verif.Lemmas.Codec.findFrom_some_lt c s n j hf
    refine ⟨j, rfl, ?_⟩
    have hne : j ≠ n := by
      intro e; rw [e, h] at this; exact hx (Option.some.inj this.2.2)
    omega

/-- the two `find` calls on a `*` or `_` at the start index pick that index -/
theorem pick037_here (text : Str) (start : Nat) (c : Char) (h : text[start]? = some c) (hc : c = '*' ∨ c = '_') :
    pick037 (Codec.findFrom '*' text start) (Codec.findFrom '_' text start) = some (start, c) := by
  rcases hc with hc | hc
  · subst hc
    rw [findFrom_hit037 '*' text start h]
    rcases findFrom_later037 '_' '*' text start h (by decide) with hu | ⟨j, hu, hj⟩
    · rw [hu]; rfl
    · rw [hu]; simp only [pick037, if_pos hj]
  · subst hc
    rw [findFrom_hit037 '_' text start h]
    rcases findFrom_later037 '*' '_' text start h (by decide) with ha | ⟨j, ha, hj⟩
    · rw [ha]; rfl
    · rw [ha]; simp only [pick037, if_neg (by omega : ¬ j < start)]

theorem findNext037_end (text : Str) (start : Nat) (h : text.length ≤ start) : findNext037 text start = (none, none) := by
  unfold findNext037
  rw [Verif.Lemmas.Codec.findFrom_ge_length '*' text start h, Verif.Lemmas.Codec.findFrom_ge_length '_' text start h]
  rfl

theorem findNext037_skip (text : Str) (start : Nat) (c : Char) (h : text[start]? = some c) (h1 : c ≠ '*') (h2 : c ≠ '_') :
    findNext037 text start = findNext037 text (start + 1) := by
  unfold findNext037
  rw [findFrom_step037 '*' text start c h h1, findFrom_step037 '_' text start c h h2]

def prevAt037 (text : Str) (start : Nat) : Option Char := if start = 0 then none else text[start - 1]?

/-- `__find_next_eligible_emphasis` with a `*` or `_` at the start index: the four outcomes, on the characters around that index -/
theorem findNext037_here (text : Str) (start : Nat) (c : Char) (cs : Str) (hd : text.drop start = c :: cs) (hc : c = '*' ∨ c = '_') :
    findNext037 text start =
      if prevAt037 text start = some Codec.BS then (none, some start)
      else if prevAt037 text start = some Codec.AL ∧ (c :: cs)[runLen037 c (c :: cs)]? = some Codec.AL then (none, some start)
      else if isBlankO037 (prevAt037 text start) || isBlankO037 ((c :: cs)[runLen037 c (c :: cs)]?) then
        (some ⟨c, start, runLen037 c (c :: cs), prevAt037 text start, (c :: cs)[runLen037 c (c :: cs)]?⟩, some start)
      else (none, some start) := by
  have hget : text[start]? = some c := by
    have := congrArg (·[0]?) hd
    simpa [List.getElem?_drop] using this
  have hafter : ∀ k, text[start + k]? = (c :: cs)[k]? := by
    intro k; rw [← hd, List.getElem?_drop]
  unfold findNext037
  rw [pick037_here text start c hget hc]
  simp only [hd, hafter, prevAt037]
  rfl

/-! ## the runs the loop hands to its body -/

def loopList037 (text : Str) : Nat → Nat → List Found037
  | 0, _ => []
  | fuel + 1, start =>
    match findNext037 text start with
    | (_, none) => []
    | (none, some nx) => loopList037 text fuel (nx + 1 + 1)
    | (some f, some nx) => f :: loopList037 text fuel (nx + 1 + f.len)

/-- the body of the loop, run over a list of runs -/
def stepsGo037 (fm : Bool) : St037 → List Report → List Emph037 → Except Err2 (St037 × List Report)
  | s, rs, [] => .ok (s, rs)
  | s, rs, e :: es =>
    match step037 fm s rs e with
    | .error x => .error x
    | .ok (s', rs') => stepsGo037 fm s' rs' es

theorem checkLoop037_eq_steps (fm : Bool) (i : Nat) (text : Str) (line col : Int) :
    ∀ (fuel start : Nat) (s : St037) (rs : List Report), text.length + 1 ≤ fuel + start → 1 ≤ fuel →
      checkLoop037 fm i text line col fuel start s rs =
        stepsGo037 fm s rs ((loopList037 text fuel start).map (mkEmph037 i text line col)) := by
  intro fuel
  induction fuel with
  | zero => intro start s rs _ h; omega
  | succ k ih =>
    intro start s rs hl _
    rw [checkLoop037, loopList037]
    rcases hf : findNext037 text start with ⟨f, nx⟩
    cases nx with
    | none => rfl
    | some nx =>
      have hb := findNext037_next hf
      cases f with
      | none => exact ih (nx + 1 + 1) s rs (by omega) (by omega)
      | some f =>
        dsimp only
        rw [List.map_cons, stepsGo037]
        show (match step037 fm s rs (mkEmph037 i text line col f) with
          | Except.error e => (Except.error e : Except Err2 (St037 × List Report))
          | Except.ok (s', rs') => checkLoop037 fm i text line col k (nx + 1 + f.len) s' rs') = _
        cases step037 fm s rs (mkEmph037 i text line col f) with
        | error e => rfl
        | ok r => exact ih (nx + 1 + f.len) r.1 r.2 (by omega) (by omega)

/-! ## the one-pass scanner -/

/-- stepping over `k` characters -/
theorem eligGo037_skip (text : Str) : ∀ (k pos : Nat) (rest : Str) (prev : Option Char), text.drop pos = rest →
    (k = 0 → prev = prevAt037 text pos) →
    eligGo037 k prev pos rest =
      if pos + k ≤ text.length then eligGo037 0 (prevAt037 text (pos + k)) (pos + k) (text.drop (pos + k)) else [] := by
  intro k
  induction k with
  | zero =>
    intro pos rest prev hd hp
    rw [Nat.add_zero, hp rfl, hd]
    by_cases h : pos ≤ text.length
    · rw [if_pos h]
    · rw [if_neg h]
      have : rest = [] := by rw [← hd]; exact List.drop_eq_nil_of_le (by omega)
      rw [this]; rfl
  | succ k ih =>
    intro pos rest prev hd _
    cases rest with
    | nil =>
      have : text.length ≤ pos := by
        have := congrArg List.length hd; simp only [List.length_drop, List.length_nil] at this; omega
      rw [if_neg (by omega)]; rfl
    | cons c cs =>
      have hget : text[pos]? = some c := by
        have := congrArg (·[0]?) hd
        simpa [List.getElem?_drop] using this
      have hd' : text.drop (pos + 1) = cs := by
        have := congrArg (List.drop 1) hd
        simpa [List.drop_drop, Nat.add_comm] using this
      rw [eligGo037, ih (pos + 1) cs (some c) hd' (fun _ => by simp [prevAt037, hget])]
      have : pos + 1 + k = pos + (k + 1) := by omega
      rw [this]

/-- the loop with enough fuel finds exactly the runs of the one-pass scanner -/
theorem loopList037_eq_elig (text : Str) : ∀ (n : Nat) (rest : Str) (start fuel : Nat), rest.length ≤ n → text.drop start = rest →
    start ≤ text.length → text.length + 1 ≤ fuel + start → 1 ≤ fuel →
    loopList037 text fuel start = eligGo037 0 (prevAt037 text start) start rest := by
  intro n
  induction n with
  | zero =>
    intro rest start fuel hn hd hs hl hf
    have hr : rest = [] := List.length_eq_zero_iff.mp (by omega)
    subst hr
    have hle : text.length ≤ start := by
      have := congrArg List.length hd; simp only [List.length_drop, List.length_nil] at this; omega
    obtain ⟨f, rfl⟩ : ∃ f, fuel = f + 1 := ⟨fuel - 1, by omega⟩
    rw [loopList037, findNext037_end text start hle]; rfl
  | succ n ih =>
    intro rest start fuel hn hd hs hl hf
    obtain ⟨f, rfl⟩ : ∃ f, fuel = f + 1 := ⟨fuel - 1, by omega⟩
    cases rest with
    | nil =>
      have hle : text.length ≤ start := by
        have := congrArg List.length hd; simp only [List.length_drop, List.length_nil] at this; omega
      rw [loopList037, findNext037_end text start hle]; rfl
    | cons c cs =>
      have hget : text[start]? = some c := by
        have := congrArg (·[0]?) hd
        simpa [List.getElem?_drop] using this
      have hlt : start < text.length := by
        have := congrArg List.length hd; simp only [List.length_drop, List.length_cons] at this; omega
      have hd' : text.drop (start + 1) = cs := by
        have := congrArg (List.drop 1) hd
        simpa [List.drop_drop, Nat.add_comm] using this
      have hcs : cs.length ≤ n := by simp only [List.length_cons] at hn; omega
      by_cases hc : c = '*' ∨ c = '_'
      · -- a marker character at the start index
        have hfn := findNext037_here text start c cs hd hc
        have hcont : ∀ κ, 1 ≤ κ → loopList037 text f (start + 1 + κ) = eligGo037 κ (some c) (start + 1) cs := by
          intro κ hκ
          rw [eligGo037_skip text κ (start + 1) cs (some c) hd' (fun h => by omega)]
          by_cases hin : start + 1 + κ ≤ text.length
          · rw [if_pos hin]
            exact ih (text.drop (start + 1 + κ)) (start + 1 + κ) f
              (by simp only [List.length_drop]; have := congrArg List.length hd'; simp only [List.length_drop] at this; omega)
              rfl hin (by omega) (by omega)
          · rw [if_neg hin]
            cases f with
            | zero => rfl
            | succ f' => rw [loopList037, findNext037_end text _ (by omega)]
        rw [loopList037, hfn, eligGo037, if_pos hc]
        by_cases h1 : prevAt037 text start = some Codec.BS
        · rw [if_pos h1, if_pos h1]; exact hcont 1 (Nat.le_refl 1)
        · rw [if_neg h1, if_neg h1]
          by_cases h2 : prevAt037 text start = some Codec.AL ∧ (c :: cs)[runLen037 c (c :: cs)]? = some Codec.AL
          · rw [if_pos h2, if_pos h2]; exact hcont 1 (Nat.le_refl 1)
          · rw [if_neg h2, if_neg h2]
            by_cases h3 : (isBlankO037 (prevAt037 text start) || isBlankO037 ((c :: cs)[runLen037 c (c :: cs)]?)) = true
            · rw [if_pos h3, if_pos h3]
              dsimp only
              rw [hcont (runLen037 c (c :: cs)) (runLen037_pos c (c :: cs) rfl)]
            · rw [if_neg h3, if_neg h3]; exact hcont 1 (Nat.le_refl 1)
      · -- any other character: both `find` calls step over it
        have h1 : c ≠ '*' := fun e => hc (.inl e)
        have h2 : c ≠ '_' := fun e => hc (.inr e)
        have hstep : loopList037 text (f + 1) start = loopList037 text (f + 1) (start + 1) := by
          rw [loopList037, loopList037, findNext037_skip text start c hget h1 h2]
        rw [hstep, ih cs (start + 1) (f + 1) hcs hd' (by omega) (by omega) (by omega), eligGo037, if_neg hc]
        simp [prevAt037, hget]

theorem loopList037_eligibles (text : Str) : loopList037 text (text.length + 1) 0 = eligibles037 text := by
  rw [loopList037_eq_elig text text.length text 0 (text.length + 1) (Nat.le_refl _) rfl (Nat.zero_le _) (by omega) (by omega)]
  rfl

/-! ## scan mode: the loop body is the stack discipline -/

theorem check037_scan (b a : Emph037) :
    check037 false b a =
      match pairReports037 firstCond037 secondCond037 b a with
      | .error x => .error x
      | .ok r => .ok ([], r) := by
  unfold check037 pairReports037
  simp only [Bool.false_eq_true, if_false]
  cases (if firstCond037 b a = true then (report037 b a.len).map (fun r => [r]) else .ok []) with
  | error e => rfl
  | ok r1 =>
    dsimp only
    cases (if secondCond037 b a = true then (report037 a (-1)).map (fun r => [r]) else .ok []) with
    | error e => rfl
    | ok r2 => rfl

theorem stepsGo037_scan : ∀ (es : List Emph037) (s : St037) (rs : List Report),
    stepsGo037 false s rs es =
      match pairsGo037 firstCond037 secondCond037 s.past es with
      | .error x => .error x
      | .ok (st', r) => .ok ({ s with past := st' }, rs ++ r) := by
  intro es
  induction es with
  | nil => intro s rs; simp [stepsGo037, pairsGo037]
  | cons e es ih =>
    intro s rs
    rw [stepsGo037]
    unfold step037
    cases hp : s.past with
    | nil =>
      dsimp only
      rw [ih, pairsGo037]
    | cons b rest =>
      dsimp only
      rw [pairsGo037]
      by_cases hm : b.ch = e.ch ∧ b.len = e.len
      · rw [if_pos hm, if_pos hm, check037_scan]
        cases pairReports037 firstCond037 secondCond037 b e with
        | error x => rfl
        | ok r =>
          dsimp only
          rw [ih]
          dsimp only
          cases pairsGo037 firstCond037 secondCond037 rest es with
          | error x => rfl
          | ok q => simp [List.append_assoc]
      · rw [if_neg hm, if_neg hm]
        dsimp only
        rw [ih]

/-- `__check_text_token` in scan mode -/
theorem checkText037_scan (i : Nat) (text : Str) (line col : Int) (s : St037) :
    checkText037 false i text line col s =
      match pairsGo037 firstCond037 secondCond037 s.past ((eligibles037 text).map (mkEmph037 i text line col)) with
      | .error x => .error x
      | .ok (st', r) => .ok ({ s with past := st' }, r) := by
  unfold checkText037
  rw [checkLoop037_eq_steps false i text line col (text.length + 1) 0 s [] (by omega) (by omega), loopList037_eligibles, stepsGo037_scan]
  cases pairsGo037 firstCond037 secondCond037 s.past ((eligibles037 text).map (mkEmph037 i text line col)) with
  | error x => rfl
  | ok q => simp

/-! ## the stream -/

theorem specGo037_cons (c1 c2 : Emph037 → Emph037 → Bool) (cur : Option (List Emph037)) (i : Nat) (t : Tok2) (ts : List Tok2) :
    specGo037 c1 c2 cur i (t :: ts) =
      if isBlockStart037 t.kind then specGo037 c1 c2 (some []) (i + 1) ts
      else if isBlockEnd037 t.kind then specGo037 c1 c2 none (i + 1) ts
      else
        match cur with
        | some st =>
          if t.kind = .text then
            match pairsGo037 c1 c2 st ((eligibles037 t.text).map (mkEmph037 i t.text t.line t.col)) with
            | .error x => .error x
            | .ok (st', rs) =>
              match specGo037 c1 c2 (some st') (i + 1) ts with
              | .error x => .error x
              | .ok rs' => .ok (rs ++ rs')
          else specGo037 c1 c2 cur (i + 1) ts
        | none => specGo037 c1 c2 none (i + 1) ts := by
  rfl

def cur037 (s : St037) : Option (List Emph037) := if s.block.isSome then some s.past else none

theorem run037_scan (all : List Tok2) : ∀ (ts : List Tok2) (s : St037) (i : Nat),
    (match runFrom2 md037 () false all s i ts with
     | .error x => .error x
     | .ok (_, o) => .ok o.reports) = specGo037 firstCond037 secondCond037 (cur037 s) i ts := by
  intro ts
  induction ts with
  | nil => intro s i; rfl
  | cons t ts ih =>
    intro s i
    rw [runFrom2, specGo037_cons]
    have hn : md037.next () false all s i t = next037 () false all s i t := rfl
    rw [hn]
    unfold next037
    by_cases h1 : isBlockStart037 t.kind = true
    · rw [if_pos h1, if_pos h1]
      dsimp only
      have e := ih { s with block := some i, past := [] } (i + 1)
      rw [show cur037 ({ s with block := some i, past := [] } : St037) = some [] from rfl] at e
      rw [← e]
      cases runFrom2 md037 () false all { s with block := some i, past := [] } (i + 1) ts with
      | error e => rfl
      | ok r => rfl
    · rw [if_neg h1, if_neg h1]
      by_cases h2 : isBlockEnd037 t.kind = true
      · rw [if_pos h2, if_pos h2]
        by_cases h3 : s.pending.isEmpty = true
        · rw [if_pos h3]
          dsimp only
          have e := ih { s with block := none, past := [] } (i + 1)
          rw [show cur037 ({ s with block := none, past := [] } : St037) = none from rfl] at e
          rw [← e]
          cases runFrom2 md037 () false all { s with block := none, past := [] } (i + 1) ts with
          | error e => rfl
          | ok r => rfl
        · rw [if_neg h3]
          dsimp only
          have e := ih { block := none, past := [], pending := [] } (i + 1)
          rw [show cur037 ({ block := none, past := [], pending := [] } : St037) = none from rfl] at e
          rw [← e]
          cases runFrom2 md037 () false all { block := none, past := [], pending := [] } (i + 1) ts with
          | error e => rfl
          | ok r => rfl
      · rw [if_neg h2, if_neg h2]
        by_cases h4 : t.kind = .text ∧ s.block.isSome = true
        · rw [if_pos h4]
          have hc : cur037 s = some s.past := by unfold cur037; rw [if_pos h4.2]
          rw [hc]
          dsimp only
          rw [if_pos h4.1, checkText037_scan]
          cases pairsGo037 firstCond037 secondCond037 s.past ((eligibles037 t.text).map (mkEmph037 i t.text t.line t.col)) with
          | error x => rfl
          | ok q =>
            dsimp only
            have e := ih { s with past := q.1 } (i + 1)
            have hc' : cur037 ({ s with past := q.1 } : St037) = some q.1 := by unfold cur037; rw [if_pos h4.2]
            rw [hc'] at e
            rw [← e]
            cases runFrom2 md037 () false all { s with past := q.1 } (i + 1) ts with
            | error e => rfl
            | ok r => rfl
        · rw [if_neg h4]
          dsimp only
          have hrest : (match cur037 s with
              | some st =>
                if t.kind = .text then
                  match pairsGo037 firstCond037 secondCond037 st ((eligibles037 t.text).map (mkEmph037 i t.text t.line t.col)) with
                  | .error x => .error x
                  | .ok (st', rs) =>
                    match specGo037 firstCond037 secondCond037 (some st') (i + 1) ts with
                    | .error x => .error x
                    | .ok rs' => .ok (rs ++ rs')
                else specGo037 firstCond037 secondCond037 (cur037 s) (i + 1) ts
              | none => specGo037 firstCond037 secondCond037 none (i + 1) ts) =
              specGo037 firstCond037 secondCond037 (cur037 s) (i + 1) ts := by
            unfold cur037
            by_cases hb : s.block.isSome = true
            · rw [if_pos hb]
              dsimp only
              rw [if_neg (fun hk => h4 ⟨hk, hb⟩)]
            · rw [if_neg hb]
          rw [hrest, ← ih s (i + 1)]
          cases runFrom2 md037 () false all s (i + 1) ts with
          | error e => rfl
          | ok r => rfl

/-- the scan of a stream is `specScan037` with the code's two conditions -/
theorem scan037_eq_spec (toks : List Tok2) : scan2 md037 () toks = specScan037 firstCond037 secondCond037 toks := by
  unfold scan2 specScan037
  have := run037_scan toks toks (md037.init ()) 0
  rw [show cur037 (md037.init ()) = none from rfl] at this
  rw [← this]
  cases runFrom2 md037 () false toks (md037.init ()) 0 toks with
  | error e => rfl
  | ok r => rfl

end Verif.Model.TokenRules
