import Verif.Lemmas.TokenRules.Md037Fix
import Verif.Lemmas.TokenRules.Md037Pairs
/-!
  MD037 — small helpers for `Props/TokenRules2/Md037.lean`.
-/
namespace Verif.Model.TokenRules
open Verif.Model

theorem run037_congr (fm : Bool) (all all' : List Tok2) : ∀ (ts ts' : List Tok2) (s : St037) (i : Nat),
    All₂ (fun t t' => t'.kind = t.kind ∧ t'.line = t.line ∧ t'.col = t.col ∧ t'.text = t.text) ts ts' →
    runFrom2 md037 () fm all' s i ts' = runFrom2 md037 () fm all s i ts := by
  intro ts ts' s i h
  induction h generalizing s i with
  | nil => rfl
  | @cons t t' ts ts' hp _ ih =>
    obtain ⟨h1, h2, h3, h4⟩ := hp
    have hn : md037.next () fm all' s i t' = md037.next () fm all s i t := by
      show next037 () fm all' s i t' = next037 () fm all s i t
      unfold next037; simp only [h1, h2, h3, h4]
    rw [runFrom2, runFrom2, hn]
    cases md037.next () fm all s i t with
    | error e => rfl
    | ok r => dsimp only; rw [ih]

theorem All₂.map_right037 {α β γ : Type} {P : α → β → Prop} {Q : α → γ → Prop} (f : β → γ) (hpq : ∀ a b, P a b → Q a (f b)) :
    ∀ {as : List α} {bs : List β}, All₂ P as bs → All₂ Q as (bs.map f)
  | _, _, .nil => .nil
  | _, _, .cons h t => .cons (hpq _ _ h) (All₂.map_right037 f hpq t)

theorem norm_style037 (n : Nat) (t t1 : Tok2) (hT : TextOnly037 t t1) :
    normIdx037 n t1 = { t with text := (normIdx037 n t1).text, startIdx := (normIdx037 n t1).startIdx } ∧
      (t.kind ≠ .text → (normIdx037 n t1).text = t.text) ∧
      ((normIdx037 n t1).startIdx = t.startIdx ∨ ((normIdx037 n t1).startIdx = none ∧ ∃ j, t.startIdx = some j ∧ n ≤ j)) := by
  obtain ⟨h1, h2⟩ := hT
  have hk : t.kind ≠ .text → t1.text = t.text := fun h => by rw [h2 h]
  generalize t1.text = s at h1 hk
  subst h1
  unfold normIdx037
  cases hs : t.startIdx with
  | none => exact ⟨by simp only, hk, .inl (by simp only)⟩
  | some j =>
    by_cases hj : j < n
    · simp only [if_pos hj]
      exact ⟨trivial, hk, .inl trivial⟩
    · simp only [if_neg hj]
      exact ⟨trivial, hk, .inr ⟨trivial, j, rfl, Nat.le_of_not_lt hj⟩⟩

theorem not_blankDel037 {s s' : Str} (h : s'.filter (fun c => !isBlank037 c) ≠ s.filter (fun c => !isBlank037 c)) : ¬ BlankDel037 s s' :=
  fun hb => h hb.filter

theorem pageOK037_conds (p : Emph037 × Emph037) (h : PageOK037 p) :
    firstCond037 p.1 p.2 = pageFirst037 p.1 p.2 ∧ secondCond037 p.1 p.2 = pageSecond037 p.1 p.2 := by
  obtain ⟨h1, h2, h3, h4⟩ := h
  unfold firstCond037 secondCond037 pageFirst037 pageSecond037 surrounded037
  rw [h1, h2]
  constructor
  · cases hb : p.1.after with
    | none => rfl
    | some c =>
      have hc : c ≠ '\t' := fun e => h3 (by rw [hb, e])
      simp [isBlankO037, isBlank037, hc]
  · cases hb : p.2.before with
    | none => rfl
    | some c =>
      have hc : c ≠ '\t' := fun e => h4 (by rw [hb, e])
      simp [isBlankO037, isBlank037, hc]


end Verif.Model.TokenRules
