import Verif.Lemmas.TokenRules.Md030Run
/-!
  MD030 over `Tok2`: invariants of the state along a run over the stream `all` itself —
  every entry of an open level names an earlier token of the stream and carries that token's data; no token is named twice.
  Consequence: every token index occurs in at most one closing (`closings_nodup`).
-/
namespace Verif.Model.TokenRules

/-- the entries of all open levels, innermost level first -/
def liveEnts030 (s : St030f) : List (Nat × Ent030) := (s.stack.map (·.ents)).flatten

def clIdx030 (cl : Fr030f × Tok2) : List Nat := cl.1.ents.map (·.1)

/-- the entry describes the list token of the stream it names (the paragraph count is the rule's own) -/
def EntOk030 (all : List Tok2) (p : Nat × Ent030) : Prop :=
  ∃ t, all[p.1]? = some t ∧ p.2 = { ent030 t.toTok with paras := p.2.paras } ∧ cls030 t.kind ≠ .stop ∧
    (t.kind = .ulist ∨ t.kind = .olist ∨ t.kind = .li)

structure Inv030 (all : List Tok2) (s : St030f) (i : Nat) : Prop where
  lt : ∀ p ∈ liveEnts030 s, p.1 < i
  nodup : ((liveEnts030 s).map (·.1)).Nodup
  data : ∀ p ∈ liveEnts030 s, EntOk030 all p

theorem addLines_ents030 (n : Nat) (st : List Fr030f) : (addLines030 n st).map (·.ents) = st.map (·.ents) := by
  cases st <;> rfl

theorem liveEnts_track030 (s : St030f) (t : Tok2) : liveEnts030 (track030 s t) = liveEnts030 s := by
  unfold liveEnts030 track030
  simp only
  split <;> simp [addLines_ents030]

theorem bumpLastF_idx030 (es : List (Nat × Ent030)) : (bumpLastF030 es).map (·.1) = es.map (·.1) := by
  induction es with
  | nil => rfl
  | cons p ps ih =>
    cases ps with
    | nil => rfl
    | cons q qs =>
      simp only [bumpLastF030, List.map_cons]
      simp only [List.map_cons] at ih
      rw [ih]

theorem bumpLastF_mem030 (es : List (Nat × Ent030)) (p : Nat × Ent030) (h : p ∈ bumpLastF030 es) :
    ∃ q ∈ es, p.1 = q.1 ∧ p.2 = { q.2 with paras := p.2.paras } := by
  induction es with
  | nil => cases h
  | cons a as ih =>
    cases as with
    | nil =>
      simp only [bumpLastF030, List.mem_singleton] at h
      subst h
      exact ⟨a, List.mem_singleton.mpr rfl, rfl, rfl⟩
    | cons b bs =>
      simp only [bumpLastF030, List.mem_cons] at h
      rcases h with h | h
      · subst h; exact ⟨p, List.mem_cons_self, rfl, rfl⟩
      · obtain ⟨q, hq, h1, h2⟩ := ih (by simpa [List.mem_cons] using h)
        exact ⟨q, List.mem_cons_of_mem _ hq, h1, h2⟩

theorem EntOk_entOf030 (all : List Tok2) (i : Nat) (t : Tok2) (h : all[i]? = some t)
    (hk : t.kind = .ulist ∨ t.kind = .olist ∨ t.kind = .li) : EntOk030 all (entOf030 i t) := by
  refine ⟨t, h, rfl, ?_, hk⟩
  rcases hk with hk | hk | hk <;> simp [hk, cls030]

theorem cls_start_kind030 (t : Tok2) (h : cls030 t.kind = .start) : t.kind = .ulist ∨ t.kind = .olist := by
  cases hk : t.kind <;> simp_all [cls030]

theorem cls_item_kind030 (t : Tok2) (h : cls030 t.kind = .item) : t.kind = .li := by
  cases hk : t.kind <;> simp_all [cls030]

theorem cls_stop_kind030 (t : Tok2) (h : cls030 t.kind = .stop) : t.kind = .ulistEnd ∨ t.kind = .olistEnd := by
  cases hk : t.kind <;> simp_all [cls030]

/-- what one step does to the live entries -/
theorem liveEnts_step030 (s s' : St030f) (i : Nat) (t : Tok2) (h : step030f s i t = .ok s') :
    (cls030 t.kind = .start ∧ liveEnts030 s' = entOf030 i t :: liveEnts030 s) ∨
    (cls030 t.kind = .stop ∧ ∃ fr rest, s.stack = fr :: rest ∧ liveEnts030 s = fr.ents ++ liveEnts030 s') ∨
    (cls030 t.kind = .item ∧ ∃ fr rest, s.stack = fr :: rest ∧ liveEnts030 s = fr.ents ++ (rest.map (·.ents)).flatten ∧
        liveEnts030 s' = (fr.ents ++ [entOf030 i t]) ++ (rest.map (·.ents)).flatten) ∨
    (cls030 t.kind = .para ∧ ((s.stack = [] ∧ liveEnts030 s' = liveEnts030 s) ∨
        ∃ fr rest, s.stack = fr :: rest ∧ liveEnts030 s = fr.ents ++ (rest.map (·.ents)).flatten ∧
          liveEnts030 s' = bumpLastF030 fr.ents ++ (rest.map (·.ents)).flatten)) ∨
    (cls030 t.kind = .other ∧ liveEnts030 s' = liveEnts030 s) := by
  cases hc : cls030 t.kind with
  | start =>
    rw [step030f_start s i t hc] at h
    cases h
    left
    refine ⟨rfl, ?_⟩
    rw [liveEnts_track030]
    simp [liveEnts030, listStart030f]
  | stop =>
    rw [step030f_stop s i t hc] at h
    right; left
    refine ⟨rfl, ?_⟩
    cases hs : s.stack with
    | nil => rw [hs] at h; cases h
    | cons fr rest =>
      rw [hs] at h
      cases h
      refine ⟨fr, rest, rfl, ?_⟩
      rw [liveEnts_track030]
      simp [liveEnts030, hs]
  | item =>
    rw [step030f_item s i t hc] at h
    right; right; left
    refine ⟨rfl, ?_⟩
    cases hs : s.stack with
    | nil => rw [hs] at h; cases h
    | cons fr rest =>
      rw [hs] at h
      cases h
      refine ⟨fr, rest, rfl, by simp [liveEnts030, hs], ?_⟩
      rw [liveEnts_track030]
      simp [liveEnts030, newItem030f]
  | para =>
    rw [step030f_para s i t hc] at h
    right; right; right; left
    refine ⟨rfl, ?_⟩
    cases hs : s.stack with
    | nil =>
      rw [hs] at h
      cases h
      left
      exact ⟨rfl, liveEnts_track030 s t⟩
    | cons fr rest =>
      rw [hs] at h
      cases h
      right
      refine ⟨fr, rest, rfl, by simp [liveEnts030, hs], ?_⟩
      rw [liveEnts_track030]
      simp [liveEnts030]
  | other =>
    rw [step030f_other s i t hc] at h
    cases h
    right; right; right; right
    exact ⟨rfl, liveEnts_track030 s t⟩

theorem Inv030.step {all : List Tok2} {s s' : St030f} {i : Nat} {t : Tok2} (hI : Inv030 all s i) (ht : all[i]? = some t)
    (h : step030f s i t = .ok s') : Inv030 all s' (i + 1) := by
  obtain ⟨hlt, hnd, hdata⟩ := hI
  rcases liveEnts_step030 s s' i t h with ⟨hc, hl⟩ | ⟨hc, fr, rest, hs, hl⟩ | ⟨hc, fr, rest, hs, hl, hl'⟩ | ⟨hc, hp⟩ | ⟨hc, hl⟩
  · -- start
    refine ⟨?_, ?_, ?_⟩
    · intro p hp
      rw [hl] at hp
      rcases List.mem_cons.mp hp with hp | hp
      · subst hp; simp [entOf030]
      · exact Nat.lt_succ_of_lt (hlt p hp)
    · rw [hl]
      simp only [List.map_cons, List.nodup_cons]
      refine ⟨?_, hnd⟩
      intro hm
      obtain ⟨p, hp, hpi⟩ := List.mem_map.mp hm
      have := hlt p hp
      simp only [entOf030] at hpi
      omega
    · intro p hp
      rw [hl] at hp
      rcases List.mem_cons.mp hp with hp | hp
      · subst hp
        exact EntOk_entOf030 all i t ht (by rcases cls_start_kind030 t hc with h | h; exact .inl h; exact .inr (.inl h))
      · exact hdata p hp
  · -- stop
    rw [hl] at hlt hnd hdata
    refine ⟨?_, ?_, ?_⟩
    · intro p hp
      exact Nat.lt_succ_of_lt (hlt p (List.mem_append_right _ hp))
    · simp only [List.map_append] at hnd
      exact (List.nodup_append.mp hnd).2.1
    · intro p hp
      exact hdata p (List.mem_append_right _ hp)
  · -- item
    rw [hl] at hlt hnd hdata
    refine ⟨?_, ?_, ?_⟩
    · intro p hp
      rw [hl'] at hp
      simp only [List.mem_append, List.mem_singleton] at hp
      rcases hp with (hp | hp) | hp
      · exact Nat.lt_succ_of_lt (hlt p (List.mem_append_left _ hp))
      · subst hp; simp [entOf030]
      · exact Nat.lt_succ_of_lt (hlt p (List.mem_append_right _ hp))
    · rw [hl']
      simp only [List.map_append, List.map_cons, List.map_nil] at hnd ⊢
      obtain ⟨h1, h2, h3⟩ := List.nodup_append.mp hnd
      refine List.nodup_append.mpr ⟨List.nodup_append.mpr ⟨h1, by simp, ?_⟩, h2, ?_⟩
      · intro a ha b hb
        simp only [List.mem_singleton, entOf030] at hb
        subst hb
        obtain ⟨p, hp, hpa⟩ := List.mem_map.mp ha
        have := hlt p (List.mem_append_left _ hp)
        omega
      · intro a ha b hb
        simp only [List.mem_append, List.mem_singleton, entOf030] at ha
        rcases ha with ha | ha
        · exact h3 a ha b hb
        · subst ha
          obtain ⟨p, hp, hpb⟩ := List.mem_map.mp hb
          have := hlt p (List.mem_append_right _ hp)
          omega
    · intro p hp
      rw [hl'] at hp
      simp only [List.mem_append, List.mem_singleton] at hp
      rcases hp with (hp | hp) | hp
      · exact hdata p (List.mem_append_left _ hp)
      · subst hp
        exact EntOk_entOf030 all i t ht (.inr (.inr (cls_item_kind030 t hc)))
      · exact hdata p (List.mem_append_right _ hp)
  · -- para
    rcases hp with ⟨_, hl⟩ | ⟨fr, rest, hs, hl, hl'⟩
    · rw [← hl] at hlt hnd hdata
      exact ⟨fun p hp => Nat.lt_succ_of_lt (hlt p hp), hnd, hdata⟩
    · rw [hl] at hlt hnd hdata
      refine ⟨?_, ?_, ?_⟩
      · intro p hp
        rw [hl'] at hp
        rcases List.mem_append.mp hp with hp | hp
        · obtain ⟨q, hq, h1, _⟩ := bumpLastF_mem030 _ p hp
          rw [h1]
          exact Nat.lt_succ_of_lt (hlt q (List.mem_append_left _ hq))
        · exact Nat.lt_succ_of_lt (hlt p (List.mem_append_right _ hp))
      · rw [hl']
        simp only [List.map_append, bumpLastF_idx030] at hnd ⊢
        exact hnd
      · intro p hp
        rw [hl'] at hp
        rcases List.mem_append.mp hp with hp | hp
        · obtain ⟨q, hq, h1, h2⟩ := bumpLastF_mem030 _ p hp
          obtain ⟨tq, ha, hb, hc', hd⟩ := hdata q (List.mem_append_left _ hq)
          refine ⟨tq, by rw [h1]; exact ha, ?_, hc', hd⟩
          rw [h2, hb]
        · exact hdata p (List.mem_append_right _ hp)
  · -- other
    rw [← hl] at hlt hnd hdata
    exact ⟨fun p hp => Nat.lt_succ_of_lt (hlt p hp), hnd, hdata⟩

theorem Inv030.init (all : List Tok2) : Inv030 all {} 0 :=
  ⟨(by intro p hp; cases hp), (by simp [liveEnts030]), (by intro p hp; cases hp)⟩

theorem drop_cons_get030 {α : Type} (l : List α) (i : Nat) (t : α) (ts : List α) (h : l.drop i = t :: ts) :
    l[i]? = some t ∧ l.drop (i + 1) = ts := by
  constructor
  · have : (l.drop i)[0]? = some t := by rw [h]; rfl
    simpa [List.getElem?_drop] using this
  · have : (l.drop i).drop 1 = ts := by rw [h]; rfl
    simpa [List.drop_drop, Nat.add_comm] using this

theorem closing030_of_step_error (s : St030f) (i : Nat) (t : Tok2) (e : Err2) (h : step030f s i t = .error e) :
    closing030 s t = [] := by
  unfold closing030
  by_cases hc : cls030 t.kind = .stop
  · rw [step030f_stop s i t hc] at h
    simp only [hc, ↓reduceIte]
    cases hs : s.stack with
    | nil => rfl
    | cons fr rest => rw [hs] at h; cases h
  · simp [hc]

theorem closing030_not_stop (s : St030f) (t : Tok2) (h : cls030 t.kind ≠ .stop) : closing030 s t = [] := by
  simp [closing030, h]

theorem closing030_stop (s : St030f) (t : Tok2) (fr : Fr030f) (rest : List Fr030f) (h : cls030 t.kind = .stop)
    (hs : s.stack = fr :: rest) : closing030 s t = [(fr, t)] := by
  simp [closing030, h, hs]

/-- every token index lies in at most one closing, and the closings' entries describe the stream's tokens -/
theorem closings_facts030 (all : List Tok2) : ∀ (ts : List Tok2) (s : St030f) (i : Nat), Inv030 all s i → all.drop i = ts →
    ((closings030 s i ts).flatMap clIdx030).Nodup ∧
    (∀ k ∈ (closings030 s i ts).flatMap clIdx030, k ∈ (liveEnts030 s).map (·.1) ∨ i ≤ k) ∧
    (∀ cl ∈ closings030 s i ts, ∀ p ∈ cl.1.ents, EntOk030 all p) := by
  intro ts
  induction ts with
  | nil => intro s i _ _; simp [closings030]
  | cons t ts ih =>
    intro s i hI hd
    obtain ⟨ht, hd'⟩ := drop_cons_get030 all i t ts hd
    unfold closings030
    cases hst : step030f s i t with
    | error e =>
      simp [closing030_of_step_error s i t e hst]
    | ok s' =>
      simp only
      have hI' := hI.step ht hst
      obtain ⟨ih1, ih2, ih3⟩ := ih s' (i + 1) hI' hd'
      rcases liveEnts_step030 s s' i t hst with ⟨hc, hl⟩ | ⟨hc, fr, rest, hs, hl⟩ | ⟨hc, fr, rest, hs, hl, hl'⟩ | ⟨hc, hp⟩ | ⟨hc, hl⟩
      · -- start
        rw [closing030_not_stop s t (by rw [hc]; decide), List.nil_append]
        refine ⟨ih1, ?_, ih3⟩
        intro k hk
        rcases ih2 k hk with h | h
        · rw [hl] at h
          simp only [List.map_cons, List.mem_cons, entOf030] at h
          rcases h with h | h
          · right; omega
          · left; exact h
        · right; omega
      · -- stop
        rw [closing030_stop s t fr rest hc hs]
        simp only [List.singleton_append, List.flatMap_cons, List.mem_cons, forall_eq_or_imp]
        have hnd := hI.nodup
        rw [hl] at hnd
        simp only [List.map_append] at hnd
        obtain ⟨n1, n2, n3⟩ := List.nodup_append.mp hnd
        refine ⟨?_, ?_, ?_, ih3⟩
        · refine List.nodup_append.mpr ⟨n1, ih1, ?_⟩
          intro a ha b hb hab
          subst hab
          rcases ih2 a hb with h | h
          · exact n3 a ha a h rfl
          · obtain ⟨p, hp, hpa⟩ := List.mem_map.mp ha
            have := hI.lt p (by rw [hl]; exact List.mem_append_left _ hp)
            omega
        · intro k hk
          rcases List.mem_append.mp hk with hk | hk
          · left
            rw [hl]
            simp only [List.map_append, List.mem_append]
            exact .inl hk
          · rcases ih2 k hk with h | h
            · left
              rw [hl]
              simp only [List.map_append, List.mem_append]
              exact .inr h
            · right; omega
        · intro p hp
          exact hI.data p (by rw [hl]; exact List.mem_append_left _ hp)
      · -- item
        rw [closing030_not_stop s t (by rw [hc]; decide), List.nil_append]
        refine ⟨ih1, ?_, ih3⟩
        intro k hk
        rcases ih2 k hk with h | h
        · rw [hl'] at h
          rw [hl]
          simp only [List.map_append, List.map_cons, List.map_nil, List.mem_append, List.mem_singleton, entOf030] at h ⊢
          rcases h with (h | h) | h
          · left; exact .inl h
          · right; omega
          · left; exact .inr h
        · right; omega
      · -- para
        rw [closing030_not_stop s t (by rw [hc]; decide), List.nil_append]
        refine ⟨ih1, ?_, ih3⟩
        intro k hk
        rcases ih2 k hk with h | h
        · left
          rcases hp with ⟨_, hl⟩ | ⟨fr, rest, hs, hl, hl'⟩
          · rw [← hl]; exact h
          · rw [hl'] at h
            rw [hl]
            simpa only [List.map_append, bumpLastF_idx030] using h
        · right; omega
      · -- other
        rw [closing030_not_stop s t (by rw [hc]; decide), List.nil_append]
        refine ⟨ih1, ?_, ih3⟩
        intro k hk
        rcases ih2 k hk with h | h
        · left; rw [← hl]; exact h
        · right; omega

/-- two closings of one run that share a token index are the same closing -/
theorem flatMap_nodup_unique030 {α β : Type} (f : α → List β) : ∀ (l : List α), (l.flatMap f).Nodup →
    ∀ a ∈ l, ∀ b ∈ l, ∀ x, x ∈ f a → x ∈ f b → a = b := by
  intro l
  induction l with
  | nil => intro _ a ha; cases ha
  | cons c cs ih =>
    intro hnd a ha b hb x hxa hxb
    simp only [List.flatMap_cons] at hnd
    obtain ⟨n1, n2, n3⟩ := List.nodup_append.mp hnd
    rcases List.mem_cons.mp ha with ha' | ha' <;> rcases List.mem_cons.mp hb with hb' | hb'
    · rw [ha', hb']
    · rw [ha'] at hxa
      exact absurd rfl (n3 x hxa x (List.mem_flatMap.mpr ⟨b, hb', hxb⟩))
    · rw [hb'] at hxb
      exact absurd rfl (n3 x hxb x (List.mem_flatMap.mpr ⟨a, ha', hxa⟩))
    · exact ih n2 a ha' b hb' x hxa hxb

theorem flatMap_nodup_each030 {α β : Type} (f : α → List β) : ∀ (l : List α), (l.flatMap f).Nodup → ∀ a ∈ l, (f a).Nodup := by
  intro l
  induction l with
  | nil => intro _ a ha; cases ha
  | cons c cs ih =>
    intro hnd a ha
    simp only [List.flatMap_cons] at hnd
    obtain ⟨n1, n2, _⟩ := List.nodup_append.mp hnd
    rcases List.mem_cons.mp ha with ha | ha
    · rw [ha]; exact n1
    · exact ih n2 a ha

end Verif.Model.TokenRules
