import Verif.Lemmas.TokenRules.MD035
namespace Verif.Model.TokenRules

theorem fenceOf_set (t : Tok) (f : Fence) : fenceOf { t with fenceChar := [f.char] } = f := by
  cases f <;> simp [fenceOf, Fence.char]

theorem modify_fence (t : Tok) (hk : t.kind = .fence) (f : Fence) :
    modify t .fenceCharacter (.str [f.char]) = some { t with fenceChar := [f.char] } := by
  cases f <;> simp [modify, hk, Fence.char]

theorem next048_fix_cases (c : C048) (actual : Option Fence) (i : Nat) (t : Tok) a' rp fx
    (h : next048 c true actual i t = .ok (a', rp, fx)) :
    (fx = [] ∧ rp = [] ∧ ∀ fm, next048 c fm actual i t = .ok (a', [], [])) ∨
    (∃ act, t.kind = .fence ∧ actual = some act ∧ act ≠ fenceOf t ∧ a' = some act ∧ rp = [] ∧
      fx = [⟨i, .fenceCharacter, .str [act.char]⟩]) := by
  unfold next048 at h
  by_cases hk : t.kind = .fence
  · rw [hk] at h
    simp only at h
    by_cases hne : actual.getD (fenceOf t) ≠ fenceOf t
    · rw [if_pos hne] at h
      simp only [↓reduceIte, Except.ok.injEq, Prod.mk.injEq] at h
      obtain ⟨rfl, rfl, rfl⟩ := h
      cases actual with
      | none => simp at hne
      | some act => exact .inr ⟨act, hk, rfl, by simpa using hne, rfl, rfl, rfl⟩
    · rw [if_neg hne] at h
      simp only [Except.ok.injEq, Prod.mk.injEq] at h
      obtain ⟨rfl, rfl, rfl⟩ := h
      refine .inl ⟨rfl, rfl, fun fm => ?_⟩
      unfold next048; rw [hk]; simp only; rw [if_neg hne]
  · have : ∀ fm, next048 c fm actual i t = .ok (actual, [], []) := by
      intro fm; unfold next048; split <;> simp_all
    unfold next048 at this
    rw [this true] at h
    simp only [Except.ok.injEq, Prod.mk.injEq] at h
    obtain ⟨rfl, rfl, rfl⟩ := h
    exact .inl ⟨rfl, rfl, fun fm => by unfold next048; exact this fm⟩

theorem next048_quiet (c : C048) (fm : Bool) (act : Fence) (i : Nat) (u : Tok) (hk : u.kind = .fence) (hf : fenceOf u = act) :
    next048 c fm (some act) i u = .ok (some act, [], []) := by
  unfold next048; rw [hk]; simp [hf]

theorem md048_local : IsLocal md048 := by
  intro c s i t s' rp fx h q hq
  rcases next048_fix_cases c s i t s' rp fx h with ⟨rfl, _⟩ | ⟨_, _, _, _, _, _, rfl⟩
  · simp at hq
  · simp at hq; simp [hq]

theorem md048_step (c : C048) (s : Option Fence) (i : Nat) (t : Tok) s' rp fx t'
    (hn : next048 c true s i t = .ok (s', rp, fx)) (ha : applyGroup t (reqPairs fx) = .ok t') :
    ∀ fm, next048 c fm s i t' = .ok (s', [], []) := by
  rcases next048_fix_cases c s i t s' rp fx hn with ⟨rfl, _, h⟩ | ⟨act, hk, rfl, hne, rfl, _, rfl⟩
  · simp only [List.map_nil, applyGroup_nil, Except.ok.injEq] at ha
    subst ha; exact h
  · simp only [List.map_cons, List.map_nil, applyGroup_single, modify_fence t hk] at ha
    cases ha
    intro fm
    exact next048_quiet c fm act i { t with fenceChar := [act.char] } hk (fenceOf_set t act)

def Style048 (t t' : Tok) : Prop :=
  t' = { t with fenceChar := t'.fenceChar } ∧ (t' ≠ t → t.kind = .fence ∧ ∃ f : Fence, t'.fenceChar = [f.char])

theorem md048_step_style (c : C048) (s : Option Fence) (i : Nat) (t : Tok) s' rp fx t'
    (hn : next048 c true s i t = .ok (s', rp, fx)) (ha : applyGroup t (reqPairs fx) = .ok t') : Style048 t t' := by
  rcases next048_fix_cases c s i t s' rp fx hn with ⟨rfl, _, h⟩ | ⟨act, hk, rfl, hne, rfl, _, rfl⟩
  · simp only [List.map_nil, applyGroup_nil, Except.ok.injEq] at ha
    subst ha; exact ⟨rfl, fun h => absurd rfl h⟩
  · simp only [List.map_cons, List.map_nil, applyGroup_single, modify_fence t hk] at ha
    cases ha
    exact ⟨rfl, fun _ => ⟨hk, act, rfl⟩⟩

theorem md048_step_ok (c : C048) (s : Option Fence) (i : Nat) (t : Tok) :
    ∃ s' rp fx t', next048 c true s i t = .ok (s', rp, fx) ∧ applyGroup t (reqPairs fx) = .ok t' := by
  by_cases hk : t.kind = .fence
  · by_cases hne : s.getD (fenceOf t) ≠ fenceOf t
    · refine ⟨some (s.getD (fenceOf t)), [], [⟨i, .fenceCharacter, .str [(s.getD (fenceOf t)).char]⟩],
        { t with fenceChar := [(s.getD (fenceOf t)).char] }, ?_, ?_⟩
      · unfold next048; rw [hk]; simp only; rw [if_pos hne]; rfl
      · simp only [List.map_cons, List.map_nil, applyGroup_single, modify_fence t hk]
    · exact ⟨_, _, _, t, by unfold next048; rw [hk]; simp only; rw [if_neg hne], by simp [applyGroup_nil]⟩
  · exact ⟨s, [], [], t, by unfold next048; split <;> simp_all, by simp [applyGroup_nil]⟩

theorem md048_runFrom_scan (c : C048) : ∀ (ts : List Tok) (s : Option Fence) (i : Nat),
    ∃ s' rps, runFrom md048 c false s i ts = .ok (s', rps, []) ∧ rps.map rpos' = (spec048Go s ts).map tpos' := by
  intro ts
  induction ts with
  | nil => intro s i; exact ⟨s, [], rfl, rfl⟩
  | cons t ts ih =>
    intro s i
    by_cases hk : t.kind = .fence
    · cases s with
      | none =>
        obtain ⟨s', rps, hr, hrps⟩ := ih (some (fenceOf t)) (i + 1)
        have hn : md048.next c false none i t = .ok (some (fenceOf t), [], []) := by
          show next048 c false none i t = _; unfold next048; rw [hk]; simp
        refine ⟨s', rps, by simpa using runFrom_cons_ok md048 c false _ _ s' i t ts [] [] rps [] hn hr, ?_⟩
        rw [hrps]; simp only [spec048Go]; rw [hk]
      | some w =>
        obtain ⟨s', rps, hr, hrps⟩ := ih (some w) (i + 1)
        by_cases hne : w ≠ fenceOf t
        · have hn : ∃ rp, md048.next c false (some w) i t = .ok (some w, rp, []) ∧ rp.map rpos' = [tpos' t] := by
            refine ⟨[⟨t.line, t.col, some ("Expected: ".toList ++ w.name ++ "; Actual: ".toList ++ (fenceOf t).name)⟩], ?_, rfl⟩
            show next048 c false (some w) i t = _; unfold next048; rw [hk]; simp [hne]
          obtain ⟨rp, hn, hrp⟩ := hn
          refine ⟨s', rp ++ rps, runFrom_cons_ok md048 c false _ _ s' i t ts rp [] rps [] hn hr, ?_⟩
          rw [List.map_append, hrp, hrps]; simp only [spec048Go]; rw [hk]; simp only; rw [if_pos hne]; rfl
        · have hn : md048.next c false (some w) i t = .ok (some w, [], []) := by
            show next048 c false (some w) i t = _; unfold next048; rw [hk]; simp only [Option.getD_some]; rw [if_neg hne]
          refine ⟨s', rps, by simpa using runFrom_cons_ok md048 c false _ _ s' i t ts [] [] rps [] hn hr, ?_⟩
          rw [hrps]; simp only [spec048Go]; rw [hk]; simp only; rw [if_neg hne]; rfl
    · obtain ⟨s', rps, hr, hrps⟩ := ih s (i + 1)
      have hn : md048.next c false s i t = .ok (s, [], []) := by
        show next048 c false s i t = _; unfold next048; split <;> simp_all
      refine ⟨s', rps, by simpa using runFrom_cons_ok md048 c false _ _ s' i t ts [] [] rps [] hn hr, ?_⟩
      rw [hrps]; simp only [spec048Go]

end Verif.Model.TokenRules
