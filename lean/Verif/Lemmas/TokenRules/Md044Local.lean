import Verif.Model.TokenRules.Basic2
import Verif.Lemmas.TokenRules.Basic
/-!
  The one-step simulation lemmas of `Lemmas/TokenRules/Basic.lean`, ported to `Rule2` / `Tok2` for LOCAL rules:
  every field request names the CURRENT token and no replacement record is registered (`IsLocal044`).
  * `fix2_ok_iff044` — the whole-stream `fix2` (collect the requests, `applyFields` in `fix_token_map` order, `reindex`) equals the
    token-by-token `fixFrom044` on streams whose `startIdx` references are in range (`idxOk044`; a dangling reference is normalised to
    `none` by `reindex`: `reindex_dangling044`);
  * `scan2_fix2_nil_of_sim044`, `fix2_idem_of_sim044`, `fix2_forall₂044`, `fix2_ok_of_stream`: each reduces the whole-stream statement to a
    ONE-STEP statement about `next`.  A rule's `next` reads the whole stream (an end token's start token): the step hypotheses
    therefore speak about the two streams `all` (original) and `all'` (fixed).
-/
namespace Verif.Model.TokenRules
variable {Cfg St : Type}

def IsLocal044 (r : Rule2 Cfg St) : Prop :=
  ∀ c all s i t s' o, r.next c true all s i t = .ok (s', o) → o.repls = [] ∧ ∀ q ∈ o.reqs, q.idx = i

abbrev reqPairs044 (fx : List FixReq2) : List (Field2 × Val) := fx.map (fun q => (q.field, q.val))

/-- the fix, token by token -/
def fixFrom044 (r : Rule2 Cfg St) (c : Cfg) (all : List Tok2) : St → Nat → List Tok2 → Except Err2 (List Tok2)
  | _, _, [] => .ok []
  | s, i, t :: ts =>
    match r.next c true all s i t with
    | .error e => .error e
    | .ok (s', o) =>
      match applyGroup2 t (reqPairs044 o.reqs) with
      | .error e => .error e
      | .ok t' =>
        match fixFrom044 r c all s' (i + 1) ts with
        | .error e => .error e
        | .ok ts' => .ok (t' :: ts')

/-- the application half of `fixFrom044`, for a run that is known to succeed -/
def applySteps044 (r : Rule2 Cfg St) (c : Cfg) (all : List Tok2) : St → Nat → List Tok2 → Except Err2 (List Tok2)
  | _, _, [] => .ok []
  | s, i, t :: ts =>
    match r.next c true all s i t with
    | .error _ => .ok []
    | .ok (s', o) =>
      match applyGroup2 t (reqPairs044 o.reqs) with
      | .error e => .error e
      | .ok t' =>
        match applySteps044 r c all s' (i + 1) ts with
        | .error e => .error e
        | .ok ts' => .ok (t' :: ts')

theorem applyGroup2_nil044 (t : Tok2) : applyGroup2 t [] = .ok t := by simp [applyGroup2, hasDup2, modAll2]

theorem applyGroup2_single044 (t : Tok2) (f : Field2) (v : Val) :
    applyGroup2 t [(f, v)] = match modify2 t f v with | some t' => .ok t' | none => .error .badFix := by
  simp only [applyGroup2, List.map, hasDup2, List.contains_nil, Bool.or_self, Bool.false_eq_true, ↓reduceIte, modAll2]
  cases modify2 t f v <;> rfl

theorem out_append_reqs044 (a b : Out) : (a ++ b).reqs = a.reqs ++ b.reqs := rfl
theorem out_append_repls044 (a b : Out) : (a ++ b).repls = a.repls ++ b.repls := rfl
theorem out_append_reports044 (a b : Out) : (a ++ b).reports = a.reports ++ b.reports := rfl

theorem runFrom2_idx044 (r : Rule2 Cfg St) (hl : IsLocal044 r) (c : Cfg) (all : List Tok2) :
    ∀ (ts : List Tok2) (s : St) (i : Nat) s' o, runFrom2 r c true all s i ts = .ok (s', o) →
      o.repls = [] ∧ ∀ q ∈ o.reqs, i ≤ q.idx ∧ q.idx < i + ts.length := by
  intro ts
  induction ts with
  | nil =>
    intro s i s' o h
    simp only [runFrom2, Except.ok.injEq, Prod.mk.injEq] at h
    obtain ⟨_, rfl⟩ := h
    exact ⟨rfl, by intro q hq; cases hq⟩
  | cons t ts ih =>
    intro s i s' o h
    unfold runFrom2 at h
    split at h
    · cases h
    · rename_i s1 o1 hn
      split at h
      · cases h
      · rename_i s2 o2 hr
        simp only [Except.ok.injEq, Prod.mk.injEq] at h
        obtain ⟨_, rfl⟩ := h
        obtain ⟨h1, h2⟩ := hl c all s i t s1 o1 hn
        obtain ⟨h3, h4⟩ := ih s1 (i + 1) s2 o2 hr
        refine ⟨by rw [out_append_repls044, h1, h3]; rfl, ?_⟩
        intro q hq
        rw [out_append_reqs044] at hq
        rcases List.mem_append.mp hq with hq | hq
        · have := h2 q hq; simp only [List.length_cons]; omega
        · have := h4 q hq; simp only [List.length_cons]; omega

theorem groupOf2_append044 (a b : List FixReq2) (j : Nat) : groupOf2 (a ++ b) j = groupOf2 a j ++ groupOf2 b j := by
  simp [groupOf2, List.filter_append]

theorem groupOf2_all_eq044 (a : List FixReq2) (i : Nat) (h : ∀ q ∈ a, q.idx = i) : groupOf2 a i = reqPairs044 a := by
  unfold groupOf2
  rw [List.filter_eq_self.mpr]
  intro q hq; simp [h q hq]

theorem groupOf2_none044 (a : List FixReq2) (j : Nat) (h : ∀ q ∈ a, q.idx ≠ j) : groupOf2 a j = [] := by
  unfold groupOf2
  rw [List.filter_eq_nil_iff.mpr]
  · rfl
  · intro q hq; simp [h q hq]

/-- indices that were seen already are skipped -/
theorem firstOcc_skip044 (seen : List Nat) (a b : List Nat) (h : ∀ x ∈ a, x ∈ seen) : firstOcc seen (a ++ b) = firstOcc seen b := by
  induction a with
  | nil => rfl
  | cons x xs ih =>
    have hx : seen.contains x = true := by simpa using h x List.mem_cons_self
    simp only [List.cons_append, firstOcc, hx, ↓reduceIte]
    exact ih (fun y hy => h y (List.mem_cons_of_mem _ hy))

theorem exceptMap_ok044 {α β : Type} (f : α → β) (x : Except Err2 α) (b : β) :
    Except.map f x = .ok b ↔ ∃ a, x = .ok a ∧ f a = b := by
  cases x with
  | error e => simp [Except.map]
  | ok a => simp [Except.map]

/-- `applyFieldsGo` over the requests of a successful local run = the token-by-token application -/
theorem applyFieldsGo_eq044 (r : Rule2 Cfg St) (hl : IsLocal044 r) (c : Cfg) (all : List Tok2) :
    ∀ (ts : List Tok2) (s : St) (i : Nat) s' o (pre : List Tok2) (seen : List Nat) (Rpre : List FixReq2),
      runFrom2 r c true all s i ts = .ok (s', o) → pre.length = i → (∀ x ∈ seen, x < i) → (∀ q ∈ Rpre, q.idx < i) →
      applyFieldsGo (Rpre ++ o.reqs) (firstOcc seen (o.reqs.map (·.idx))) (pre ++ ts)
        = Except.map (pre ++ ·) (applySteps044 r c all s i ts) := by
  intro ts
  induction ts with
  | nil =>
    intro s i s' o pre seen Rpre h _ _ _
    simp only [runFrom2, Except.ok.injEq, Prod.mk.injEq] at h
    obtain ⟨_, rfl⟩ := h
    simp [firstOcc, applyFieldsGo, applySteps044, Except.map]
  | cons t ts ih =>
    intro s i s' o pre seen Rpre h hpre hseen hR
    unfold runFrom2 at h
    split at h
    · cases h
    · rename_i s1 o1 hn
      split at h
      · cases h
      · rename_i s2 o2 hr
        simp only [Except.ok.injEq, Prod.mk.injEq] at h
        obtain ⟨_, rfl⟩ := h
        obtain ⟨_, h2⟩ := hl c all s i t s1 o1 hn
        obtain ⟨_, h4⟩ := runFrom2_idx044 r hl c all ts s1 (i + 1) s2 o2 hr
        have hgrp : groupOf2 (Rpre ++ (o1 ++ o2).reqs) i = reqPairs044 o1.reqs := by
          rw [out_append_reqs044, groupOf2_append044, groupOf2_append044, groupOf2_none044 Rpre i (fun q hq => by have := hR q hq; omega),
              groupOf2_all_eq044 o1.reqs i h2, groupOf2_none044 o2.reqs i (fun q hq => by have := (h4 q hq).1; omega)]
          simp
        have hassoc : Rpre ++ (o1 ++ o2).reqs = (Rpre ++ o1.reqs) ++ o2.reqs := by rw [out_append_reqs044, List.append_assoc]
        have hR' : ∀ q ∈ Rpre ++ o1.reqs, q.idx < i + 1 := by
          intro q hq
          rcases List.mem_append.mp hq with hq | hq
          · have := hR q hq; omega
          · have := h2 q hq; omega
        unfold applySteps044
        rw [hn]
        simp only
        cases hreq : o1.reqs with
        | nil =>
          -- no request for this token: it is not in the map
          have hfo : firstOcc seen ((o1 ++ o2).reqs.map (·.idx)) = firstOcc seen (o2.reqs.map (·.idx)) := by
            rw [out_append_reqs044, hreq]; rfl
          rw [hfo, hassoc]
          have := ih s1 (i + 1) s2 o2 (pre ++ [t]) seen (Rpre ++ o1.reqs) hr (by simp [hpre])
            (fun x hx => by have := hseen x hx; omega) hR'
          rw [List.append_assoc pre [t] ts, List.singleton_append] at this
          rw [this]
          simp only [List.map_nil, applyGroup2_nil044]
          cases applySteps044 r c all s1 (i + 1) ts <;> simp [Except.map]
        | cons q qs =>
          have hq : q.idx = i := h2 q (by rw [hreq]; exact List.mem_cons_self)
          have hqs : ∀ x ∈ qs.map (·.idx), x ∈ i :: seen := by
            intro x hx
            obtain ⟨q', hq', rfl⟩ := List.mem_map.mp hx
            have := h2 q' (by rw [hreq]; exact List.mem_cons_of_mem _ hq')
            simp [this]
          have hnot : seen.contains i = false := by
            rw [Bool.eq_false_iff]; intro hc
            have := hseen i (by simpa using hc); omega
          have hfo : firstOcc seen ((o1 ++ o2).reqs.map (·.idx)) = i :: firstOcc (i :: seen) (o2.reqs.map (·.idx)) := by
            rw [out_append_reqs044, hreq, List.map_append, List.map_cons, List.cons_append, firstOcc, hq, hnot]
            simp only [Bool.false_eq_true, ↓reduceIte]
            rw [firstOcc_skip044 (i :: seen) _ _ hqs]
          rw [hfo]
          unfold applyFieldsGo
          have hget : (pre ++ t :: ts)[i]? = some t := by
            rw [List.getElem?_append_right (by omega)]; simp [hpre]
          rw [hget]
          simp only
          rw [hgrp, ← hreq]
          cases hag : applyGroup2 t (reqPairs044 o1.reqs) with
          | error e => simp [Except.map]
          | ok t' =>
            simp only
            have hset : (pre ++ t :: ts).set i t' = (pre ++ [t']) ++ ts := by
              rw [List.set_append_right _ _ (by omega)]; simp [hpre]
            rw [hset, hassoc]
            have := ih s1 (i + 1) s2 o2 (pre ++ [t']) (i :: seen) (Rpre ++ o1.reqs) hr (by simp [hpre])
              (fun x hx => by
                rcases List.mem_cons.mp hx with rfl | hx
                · omega
                · have := hseen x hx; omega) hR'
            rw [this]
            cases applySteps044 r c all s1 (i + 1) ts <;> simp [Except.map]

theorem applySteps044_eq_fixFrom044 (r : Rule2 Cfg St) (c : Cfg) (all : List Tok2) :
    ∀ (ts : List Tok2) (s : St) (i : Nat) s' o, runFrom2 r c true all s i ts = .ok (s', o) →
      applySteps044 r c all s i ts = fixFrom044 r c all s i ts := by
  intro ts
  induction ts with
  | nil => intros; rfl
  | cons t ts ih =>
    intro s i s' o h
    unfold runFrom2 at h
    split at h
    · cases h
    · rename_i s1 o1 hn
      split at h
      · cases h
      · rename_i s2 o2 hr
        unfold applySteps044 fixFrom044
        rw [hn]
        simp only
        rw [ih s1 (i + 1) s2 o2 hr]

theorem fixFrom044_ok_runFrom044 (r : Rule2 Cfg St) (c : Cfg) (all : List Tok2) :
    ∀ (ts : List Tok2) (s : St) (i : Nat) x, fixFrom044 r c all s i ts = .ok x →
      ∃ s' o, runFrom2 r c true all s i ts = .ok (s', o) := by
  intro ts
  induction ts with
  | nil => intros; exact ⟨_, _, rfl⟩
  | cons t ts ih =>
    intro s i x h
    unfold fixFrom044 at h
    split at h
    · cases h
    · rename_i s1 o1 hn
      split at h
      · cases h
      · split at h
        · cases h
        · rename_i ts' hr
          obtain ⟨s2, o2, h2⟩ := ih s1 (i + 1) ts' hr
          unfold runFrom2
          rw [hn]; simp only; rw [h2]
          exact ⟨_, _, rfl⟩

theorem fixFrom044_length (r : Rule2 Cfg St) (c : Cfg) (all : List Tok2) :
    ∀ (ts : List Tok2) (s : St) (i : Nat) x, fixFrom044 r c all s i ts = .ok x → x.length = ts.length := by
  intro ts
  induction ts with
  | nil => intro s i x h; simp only [fixFrom044, Except.ok.injEq] at h; subst h; rfl
  | cons t ts ih =>
    intro s i x h
    unfold fixFrom044 at h
    split at h
    · cases h
    · split at h
      · cases h
      · split at h
        · cases h
        · rename_i ts' hr
          cases h
          simp [ih _ _ _ hr]

/-! ## `reindex` without replacement records -/
/-- every `startIdx` reference of the stream is in range -/
def idxOk044 (toks : List Tok2) : Bool :=
  toks.all (fun t => match t.startIdx with | some j => decide (j < toks.length) | none => true)

def normIdx044 (n : Nat) (t : Tok2) : Tok2 :=
  match t.startIdx with
  | some j => { t with startIdx := if j < n then some j else none }
  | none => t

theorem findTag_range044' (j : Nat) : ∀ (m k : Nat),
    findTag j ((List.range' k m).map WTok.orig) = if k ≤ j ∧ j < k + m then some (j - k) else none := by
  intro m
  induction m with
  | zero => intro k; simp [findTag]
  | succ m ih =>
    intro k
    simp only [List.range'_succ, List.map_cons, findTag, WTok.orig.injEq]
    by_cases h : k = j
    · subst h; simp
    · simp only [h, ↓reduceIte, ih (k + 1)]
      by_cases h2 : k + 1 ≤ j ∧ j < k + 1 + m
      · have : k ≤ j ∧ j < k + (m + 1) := by omega
        simp only [h2, and_self, ↓reduceIte, Option.map_some, this, Option.some.injEq]; omega
      · have : ¬ (k ≤ j ∧ j < k + (m + 1)) := by omega
        simp [h2, this]

theorem findTag_range044 (j n : Nat) : findTag j ((List.range n).map WTok.orig) = if j < n then some j else none := by
  rw [List.range_eq_range', findTag_range044' j n 0]; simp

theorem reindex_range044' (ts : List Tok2) (L : List WTok) (f : Nat → Option Nat) (hf : ∀ j, findTag j L = f j) :
    ∀ (m k p : Nat), k + m = ts.length →
      reindex ⟨ts, L⟩ p ((List.range' k m).map WTok.orig)
        = (ts.drop k).map (fun t => match t.startIdx with | some j => { t with startIdx := f j } | none => t) := by
  intro m
  induction m with
  | zero => intro k p h; simp only [List.range'_zero, List.map_nil, reindex]; rw [List.drop_eq_nil_of_le (by omega)]; rfl
  | succ m ih =>
    intro k p h
    have hk : k < ts.length := by omega
    simp only [List.range'_succ, List.map_cons, reindex]
    rw [ih (k + 1) (p + 1) (by omega)]
    have : ts.drop k = ts[k] :: ts.drop (k + 1) := List.drop_eq_getElem_cons hk
    rw [this, List.map_cons, List.getElem?_eq_getElem hk]
    simp only [List.singleton_append, List.cons.injEq, and_true]
    cases hs : ts[k].startIdx with
    | none => rfl
    | some j => simp [hf]

theorem reindex_id044 (ts : List Tok2) :
    reindex ⟨ts, (List.range ts.length).map WTok.orig⟩ 0 ((List.range ts.length).map WTok.orig) = ts.map (normIdx044 ts.length) := by
  have := reindex_range044' ts ((List.range ts.length).map WTok.orig) (fun j => if j < ts.length then some j else none)
    (fun j => findTag_range044 j ts.length) ts.length 0 0 (by simp)
  rw [List.range_eq_range']
  rw [List.range_eq_range'] at this
  rw [this]
  simp only [List.drop_zero]
  apply List.map_congr_left
  intro t _
  unfold normIdx044
  cases t.startIdx <;> rfl

/-- `applyFixes2` without replacement records -/
theorem applyFixes2_norepl044 (toks : List Tok2) (reqs : List FixReq2) :
    applyFixes2 toks reqs [] = Except.map (fun ts => ts.map (normIdx044 ts.length)) (applyFields toks reqs) := by
  unfold applyFixes2
  cases applyFields toks reqs with
  | error e => rfl
  | ok ts => simp only [collide, applyRepls, Except.map]; rw [reindex_id044]

/-- for a local rule the whole-stream fix is the token-by-token fix followed by the normalisation of the references -/
theorem fix2_eq044 (r : Rule2 Cfg St) (hl : IsLocal044 r) (c : Cfg) (toks x : List Tok2) :
    fix2 r c toks = .ok x ↔ ∃ ts', fixFrom044 r c toks (r.init c) 0 toks = .ok ts' ∧ x = ts'.map (normIdx044 toks.length) := by
  unfold fix2 fixOut
  constructor
  · intro h
    split at h
    · cases h
    · rename_i o ho
      split at ho
      · cases ho
      · rename_i s' o' hr
        cases ho
        obtain ⟨hrep, _⟩ := runFrom2_idx044 r hl c toks toks (r.init c) 0 s' o hr
        rw [hrep, applyFixes2_norepl044] at h
        unfold applyFields at h
        have := applyFieldsGo_eq044 r hl c toks toks (r.init c) 0 s' o [] [] [] hr rfl (by simp) (by simp)
        simp only [List.nil_append] at this
        rw [this, applySteps044_eq_fixFrom044 r c toks toks _ 0 s' o hr] at h
        cases hf : fixFrom044 r c toks (r.init c) 0 toks with
        | error e => rw [hf] at h; simp [Except.map] at h
        | ok ts' =>
          rw [hf] at h
          simp only [Except.map, Except.ok.injEq] at h
          refine ⟨ts', rfl, ?_⟩
          rw [← h, fixFrom044_length r c toks toks _ 0 ts' hf]
  · rintro ⟨ts', hf, rfl⟩
    obtain ⟨s', o, hr⟩ := fixFrom044_ok_runFrom044 r c toks toks (r.init c) 0 ts' hf
    rw [hr]
    simp only
    obtain ⟨hrep, _⟩ := runFrom2_idx044 r hl c toks toks (r.init c) 0 s' o hr
    rw [hrep, applyFixes2_norepl044]
    unfold applyFields
    have := applyFieldsGo_eq044 r hl c toks toks (r.init c) 0 s' o [] [] [] hr rfl (by simp) (by simp)
    simp only [List.nil_append] at this
    rw [this, applySteps044_eq_fixFrom044 r c toks toks _ 0 s' o hr, hf]
    simp only [Except.map, Except.ok.injEq]
    rw [fixFrom044_length r c toks toks _ 0 ts' hf]

/-! ## `_modify_token` never touches the kind or the start-token reference -/
theorem modify2_kind_idx044 (t t' : Tok2) (f : Field2) (v : Val) (h : modify2 t f v = some t') :
    t'.startIdx = t.startIdx ∧ t'.kind = t.kind := by
  cases f with
  | base g =>
    simp only [modify2, Option.map_eq_some_iff] at h
    obtain ⟨b, hb, rfl⟩ := h
    refine ⟨rfl, ?_⟩
    show b.kind = t.kind
    unfold modify at hb
    split at hb <;> (try split at hb) <;> (try split at hb) <;>
      first
      | (cases hb; rfl)
      | (simp only [leafMod, listMod, baseMod] at hb; split at hb <;> first | (cases hb; rfl) | (try split at hb) <;> first | (cases hb; rfl) | cases hb)
      | cases hb
  | endWhitespace | linkTitle | preLinkTitle | linkName | linkTitleRaw =>
    simp only [modify2] at h
    split at h <;> first | (cases h; exact ⟨rfl, rfl⟩) | cases h

theorem modAll2_kind_idx044 : ∀ (g : List (Field2 × Val)) (t t' : Tok2), modAll2 t g = .ok t' →
    t'.startIdx = t.startIdx ∧ t'.kind = t.kind := by
  intro g
  induction g with
  | nil => intro t t' h; simp only [modAll2, Except.ok.injEq] at h; subst h; exact ⟨rfl, rfl⟩
  | cons p g ih =>
    intro t t' h
    obtain ⟨f, v⟩ := p
    unfold modAll2 at h
    split at h
    · rename_i t1 hm
      obtain ⟨h1, h2⟩ := modify2_kind_idx044 t t1 f v hm
      obtain ⟨h3, h4⟩ := ih t1 t' h
      exact ⟨h3.trans h1, h4.trans h2⟩
    · cases h

theorem applyGroup2_kind_idx044 (t t' : Tok2) (g : List (Field2 × Val)) (h : applyGroup2 t g = .ok t') :
    t'.startIdx = t.startIdx ∧ t'.kind = t.kind := by
  unfold applyGroup2 at h
  split at h
  · cases h
  · exact modAll2_kind_idx044 g t t' h

/-- what a fix may change, from the one-step statement; `I` is an invariant of the fix-mode state -/
theorem fixFrom044_forall₂ (r : Rule2 Cfg St) (c : Cfg) (all : List Tok2) (I : St → Prop) (P : Tok2 → Tok2 → Prop)
    (hstep : ∀ s i t s' o t', I s → r.next c true all s i t = .ok (s', o) →
      applyGroup2 t (reqPairs044 o.reqs) = .ok t' → P t t' ∧ I s') :
    ∀ (ts : List Tok2) (s : St) (i : Nat) ts', I s → fixFrom044 r c all s i ts = .ok ts' → All₂ P ts ts' := by
  intro ts
  induction ts with
  | nil =>
    intro s i ts' _ h
    simp only [fixFrom044, Except.ok.injEq] at h
    subst h; exact .nil
  | cons t ts ih =>
    intro s i ts' hI h
    unfold fixFrom044 at h
    split at h
    · cases h
    · rename_i s1 o hn
      split at h
      · cases h
      · rename_i t' ha
        split at h
        · cases h
        · rename_i tl hr
          cases h
          obtain ⟨hp, hI'⟩ := hstep s i t s1 o t' hI hn ha
          exact .cons hp (ih s1 (i + 1) tl hI' hr)

theorem fixFrom044_kind_idx (r : Rule2 Cfg St) (c : Cfg) (all : List Tok2) (ts : List Tok2) (s : St) (i : Nat) (ts' : List Tok2)
    (h : fixFrom044 r c all s i ts = .ok ts') : All₂ (fun t t' => t'.startIdx = t.startIdx ∧ t'.kind = t.kind) ts ts' :=
  fixFrom044_forall₂ r c all (fun _ => True) _ (fun _ _ t _ _ t' _ _ ha => ⟨applyGroup2_kind_idx044 t t' _ ha, trivial⟩) ts s i ts' trivial h

theorem all₂_mem_right044 {α β : Type} {P : α → β → Prop} {as : List α} {bs : List β} (h : All₂ P as bs) :
    ∀ b ∈ bs, ∃ a ∈ as, P a b := by
  induction h with
  | nil => intro b hb; cases hb
  | cons hp _ ih =>
    intro b hb
    rcases List.mem_cons.mp hb with rfl | hb
    · exact ⟨_, List.mem_cons_self, hp⟩
    · obtain ⟨a, ha, hpa⟩ := ih b hb
      exact ⟨a, List.mem_cons_of_mem _ ha, hpa⟩

theorem all₂_getElem044 {α β : Type} {P : α → β → Prop} {as : List α} {bs : List β} (h : All₂ P as bs) :
    ∀ (i : Nat), (as[i]? = none ∧ bs[i]? = none) ∨ ∃ a b, as[i]? = some a ∧ bs[i]? = some b ∧ P a b := by
  induction h with
  | nil => intro i; left; simp
  | cons hp _ ih =>
    intro i
    cases i with
    | zero => right; exact ⟨_, _, rfl, rfl, hp⟩
    | succ k => simpa using ih k

theorem idxOk_of_forall₂044 (toks toks' : List Tok2) (h : All₂ (fun t t' => t'.startIdx = t.startIdx ∧ t'.kind = t.kind) toks toks')
    (hi : idxOk044 toks = true) : idxOk044 toks' = true := by
  unfold idxOk044 at hi ⊢
  rw [List.all_eq_true] at hi ⊢
  intro t' ht'
  obtain ⟨t, ht, hs, _⟩ := all₂_mem_right044 h t' ht'
  have := hi t ht
  rw [hs, ← h.length_eq]
  exact this

theorem map_normIdx_id044 (n : Nat) (ts : List Tok2)
    (h : ∀ t ∈ ts, match t.startIdx with | some j => decide (j < n) = true | none => True) : ts.map (normIdx044 n) = ts := by
  induction ts with
  | nil => rfl
  | cons t ts ih =>
    rw [List.map_cons, ih (fun u hu => h u (List.mem_cons_of_mem _ hu))]
    congr 1
    have := h t List.mem_cons_self
    unfold normIdx044
    cases hs : t.startIdx with
    | none => rfl
    | some j =>
      rw [hs] at this
      simp only [decide_eq_true_eq] at this
      simp only [this, ↓reduceIte]
      cases t; simp_all

/-- for a local rule, on a stream whose references are in range, the whole-stream fix is the token-by-token fix -/
theorem fix2_ok_iff044 (r : Rule2 Cfg St) (hl : IsLocal044 r) (c : Cfg) (toks x : List Tok2) (hi : idxOk044 toks = true) :
    fix2 r c toks = .ok x ↔ fixFrom044 r c toks (r.init c) 0 toks = .ok x := by
  rw [fix2_eq044 r hl]
  have key : ∀ ts', fixFrom044 r c toks (r.init c) 0 toks = .ok ts' → ts'.map (normIdx044 toks.length) = ts' := by
    intro ts' hf
    have h2 := fixFrom044_kind_idx r c toks toks _ 0 ts' hf
    have h3 := idxOk_of_forall₂044 toks ts' h2 hi
    apply map_normIdx_id044
    intro t ht
    unfold idxOk044 at h3
    rw [List.all_eq_true] at h3
    have := h3 t ht
    rw [← h2.length_eq] at this
    cases hs : t.startIdx with
    | none => trivial
    | some j => rw [hs] at this; exact this
  constructor
  · rintro ⟨ts', hf, rfl⟩
    rw [key ts' hf]; exact hf
  · intro hf
    exact ⟨x, hf, (key x hf).symm⟩

/-- a dangling reference is normalised away by `reindex` even when the rule requests nothing -/
theorem reindex_dangling044 :
    applyFixes2 [{ kind := .paraEnd, startIdx := some 7 }] [] [] = .ok [{ kind := .paraEnd, startIdx := none }] := by decide

/-! ## the one-step simulations -/
/-- H1: `R` relates the fix-mode state on the original stream `all` with the scan-mode state on the fixed stream `all'` -/
theorem scanFrom2_fixFrom044_nil044 (r : Rule2 Cfg St) (c : Cfg) (all all' : List Tok2) (R : St → St → Prop) (W : Tok2 → Prop)
    (hstep : ∀ s₁ s₂ i t s₁' o t', W t → R s₁ s₂ → r.next c true all s₁ i t = .ok (s₁', o) →
      applyGroup2 t (reqPairs044 o.reqs) = .ok t' →
      ∃ s₂' o', r.next c false all' s₂ i t' = .ok (s₂', o') ∧ o'.reports = [] ∧ R s₁' s₂') :
    ∀ (ts : List Tok2) (s₁ s₂ : St) (i : Nat) ts', (∀ t ∈ ts, W t) → R s₁ s₂ → fixFrom044 r c all s₁ i ts = .ok ts' →
      ∃ s' o, runFrom2 r c false all' s₂ i ts' = .ok (s', o) ∧ o.reports = [] := by
  intro ts
  induction ts with
  | nil =>
    intro s₁ s₂ i ts' _ _ h
    simp only [fixFrom044, Except.ok.injEq] at h
    subst h
    exact ⟨_, _, rfl, rfl⟩
  | cons t ts ih =>
    intro s₁ s₂ i ts' hW hR h
    unfold fixFrom044 at h
    split at h
    · cases h
    · rename_i s1 o hn
      split at h
      · cases h
      · rename_i t' ha
        split at h
        · cases h
        · rename_i tl hr
          cases h
          obtain ⟨s₂', o', hn2, hrep, hR'⟩ := hstep s₁ s₂ i t s1 o t' (hW t List.mem_cons_self) hR hn ha
          obtain ⟨s', os, h2, hrep2⟩ := ih s1 s₂' (i + 1) tl (fun u hu => hW u (List.mem_cons_of_mem _ hu)) hR' hr
          unfold runFrom2
          rw [hn2]; simp only; rw [h2]
          exact ⟨_, _, rfl, by rw [out_append_reports044, hrep, hrep2]; rfl⟩

theorem scan2_fix2_nil_of_sim044 (r : Rule2 Cfg St) (hl : IsLocal044 r) (c : Cfg) (R : St → St → Prop) (W : Tok2 → Prop)
    (toks toks' : List Tok2) (hinit : R (r.init c) (r.init c))
    (hstep : ∀ s₁ s₂ i t s₁' o t', W t → R s₁ s₂ → r.next c true toks s₁ i t = .ok (s₁', o) →
      applyGroup2 t (reqPairs044 o.reqs) = .ok t' →
      ∃ s₂' o', r.next c false toks' s₂ i t' = .ok (s₂', o') ∧ o'.reports = [] ∧ R s₁' s₂')
    (hi : idxOk044 toks = true) (hW : ∀ t ∈ toks, W t) (h : fix2 r c toks = .ok toks') : scan2 r c toks' = .ok [] := by
  rw [fix2_ok_iff044 r hl c toks toks' hi] at h
  obtain ⟨s', o, h2, hrep⟩ := scanFrom2_fixFrom044_nil044 r c toks toks' R W hstep toks _ _ 0 toks' hW hinit h
  unfold scan2; rw [h2]; simp only; rw [hrep]

/-- idempotence from a one-step simulation between the fix-mode runs on the original and on the fixed stream -/
theorem fixFrom044_idem (r : Rule2 Cfg St) (c : Cfg) (all all' : List Tok2) (R : St → St → Prop) (W : Tok2 → Prop)
    (hstep : ∀ s₁ s₂ i t s₁' o t', W t → R s₁ s₂ → r.next c true all s₁ i t = .ok (s₁', o) →
      applyGroup2 t (reqPairs044 o.reqs) = .ok t' →
      ∃ s₂' o', r.next c true all' s₂ i t' = .ok (s₂', o') ∧ applyGroup2 t' (reqPairs044 o'.reqs) = .ok t' ∧ R s₁' s₂') :
    ∀ (ts : List Tok2) (s₁ s₂ : St) (i : Nat) ts', (∀ t ∈ ts, W t) → R s₁ s₂ → fixFrom044 r c all s₁ i ts = .ok ts' →
      fixFrom044 r c all' s₂ i ts' = .ok ts' := by
  intro ts
  induction ts with
  | nil =>
    intro s₁ s₂ i ts' _ _ h
    simp only [fixFrom044, Except.ok.injEq] at h
    subst h; rfl
  | cons t ts ih =>
    intro s₁ s₂ i ts' hW hR h
    unfold fixFrom044 at h
    split at h
    · cases h
    · rename_i s1 o hn
      split at h
      · cases h
      · rename_i t' ha
        split at h
        · cases h
        · rename_i tl hr
          cases h
          obtain ⟨s₂', o', hn2, ha2, hR'⟩ := hstep s₁ s₂ i t s1 o t' (hW t List.mem_cons_self) hR hn ha
          have h2 := ih s1 s₂' (i + 1) tl (fun u hu => hW u (List.mem_cons_of_mem _ hu)) hR' hr
          unfold fixFrom044
          rw [hn2]; simp only; rw [ha2]; simp only; rw [h2]

theorem fix2_idem_of_sim044 (r : Rule2 Cfg St) (hl : IsLocal044 r) (c : Cfg) (R : St → St → Prop) (W : Tok2 → Prop)
    (toks toks' : List Tok2) (hinit : R (r.init c) (r.init c))
    (hstep : ∀ s₁ s₂ i t s₁' o t', W t → R s₁ s₂ → r.next c true toks s₁ i t = .ok (s₁', o) →
      applyGroup2 t (reqPairs044 o.reqs) = .ok t' →
      ∃ s₂' o', r.next c true toks' s₂ i t' = .ok (s₂', o') ∧ applyGroup2 t' (reqPairs044 o'.reqs) = .ok t' ∧ R s₁' s₂')
    (hi : idxOk044 toks = true) (hW : ∀ t ∈ toks, W t) (h : fix2 r c toks = .ok toks') : fix2 r c toks' = .ok toks' := by
  rw [fix2_ok_iff044 r hl c toks toks' hi] at h
  have hi' := idxOk_of_forall₂044 toks toks' (fixFrom044_kind_idx r c toks toks _ 0 toks' h) hi
  rw [fix2_ok_iff044 r hl c toks' toks' hi']
  exact fixFrom044_idem r c toks toks' R W hstep toks _ _ 0 toks' hW hinit h

theorem fix2_forall₂044 (r : Rule2 Cfg St) (hl : IsLocal044 r) (c : Cfg) (I : St → Prop) (P : Tok2 → Tok2 → Prop)
    (toks toks' : List Tok2) (hinit : I (r.init c))
    (hstep : ∀ s i t s' o t', I s → r.next c true toks s i t = .ok (s', o) →
      applyGroup2 t (reqPairs044 o.reqs) = .ok t' → P t t' ∧ I s')
    (hi : idxOk044 toks = true) (h : fix2 r c toks = .ok toks') : All₂ P toks toks' := by
  rw [fix2_ok_iff044 r hl c toks toks' hi] at h
  exact fixFrom044_forall₂ r c toks I P hstep toks _ 0 toks' hinit h

/-- the fix succeeds on every stream whose tokens satisfy `W`, when one step succeeds under `W` and the state invariant `I` -/
theorem fixFrom044_ok (r : Rule2 Cfg St) (c : Cfg) (all : List Tok2) (I : St → Prop) (W : Tok2 → Prop)
    (hstep : ∀ s i t, I s → W t → ∃ s' o t', r.next c true all s i t = .ok (s', o) ∧
      applyGroup2 t (reqPairs044 o.reqs) = .ok t' ∧ I s') :
    ∀ (ts : List Tok2) (s : St) (i : Nat), I s → (∀ t ∈ ts, W t) → ∃ ts', fixFrom044 r c all s i ts = .ok ts' := by
  intro ts
  induction ts with
  | nil => intros; exact ⟨_, rfl⟩
  | cons t ts ih =>
    intro s i hI hW
    obtain ⟨s', o, t', hn, ha, hI'⟩ := hstep s i t hI (hW t (List.mem_cons_self))
    obtain ⟨tl, h2⟩ := ih s' (i + 1) hI' (fun u hu => hW u (List.mem_cons_of_mem _ hu))
    unfold fixFrom044
    rw [hn]; simp only; rw [ha]; simp only; rw [h2]
    exact ⟨_, rfl⟩

theorem fix2_ok_of_wf044 (r : Rule2 Cfg St) (hl : IsLocal044 r) (c : Cfg) (I : St → Prop) (W : Tok2 → Prop) (toks : List Tok2)
    (hinit : I (r.init c))
    (hstep : ∀ s i t, I s → W t → ∃ s' o t', r.next c true toks s i t = .ok (s', o) ∧
      applyGroup2 t (reqPairs044 o.reqs) = .ok t' ∧ I s')
    (hi : idxOk044 toks = true) (hW : ∀ t ∈ toks, W t) : ∃ toks', fix2 r c toks = .ok toks' := by
  obtain ⟨ts', h⟩ := fixFrom044_ok r c toks I W hstep toks _ 0 hinit hW
  exact ⟨ts', (fix2_ok_iff044 r hl c toks ts' hi).mpr h⟩

/-- the scan, from a one-step statement -/
theorem runFrom2_scan_ok044 (r : Rule2 Cfg St) (c : Cfg) (all : List Tok2) (W : Tok2 → Prop)
    (hstep : ∀ s i t, W t → ∃ s' o, r.next c false all s i t = .ok (s', o)) :
    ∀ (ts : List Tok2) (s : St) (i : Nat), (∀ t ∈ ts, W t) → ∃ s' o, runFrom2 r c false all s i ts = .ok (s', o) := by
  intro ts
  induction ts with
  | nil => intros; exact ⟨_, _, rfl⟩
  | cons t ts ih =>
    intro s i hW
    obtain ⟨s', o, hn⟩ := hstep s i t (hW t List.mem_cons_self)
    obtain ⟨s'', os, h2⟩ := ih s' (i + 1) (fun u hu => hW u (List.mem_cons_of_mem _ hu))
    unfold runFrom2
    rw [hn]; simp only; rw [h2]
    exact ⟨_, _, rfl⟩

end Verif.Model.TokenRules
