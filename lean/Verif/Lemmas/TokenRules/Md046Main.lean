import Verif.Lemmas.TokenRules.Md046Conv
/-!
  MD046 — from `fix2` to the relation `Conv046`, and what `Conv046` implies (silent rescans, texts preserved).
-/
namespace Verif.Model.TokenRules

theorem fixOut046_run (c : C046) (toks : List Tok2) (o : Out) (h : fixOut md046 c toks = .ok o) :
    Run046 toks c.style 0 toks o.repls ∧ o.reqs = [] ∧ o.reports = [] := by
  unfold fixOut at h
  split at h
  · cases h
  · rename_i s' o' hr
    cases h
    exact run046_of_ok c toks toks.length toks (Nat.le_refl _) c.style 0 s' o hr

/-- the application of MD046's records never fails: `fix2` fails exactly when the rule's own run fails -/
theorem fix2_046_of_fixOut (c : C046) (toks : List Tok2) (o : Out) (h : fixOut md046 c toks = .ok o) :
    ∃ toks', fix2 md046 c toks = .ok toks' := by
  obtain ⟨hrun, hq, _⟩ := fixOut046_run c toks o h
  have hok := hrun.replsOk
  simp only [Nat.zero_add] at hok
  obtain ⟨out, ho⟩ := applyFixes2_ok toks o.repls hok
  exact ⟨out, by unfold fix2; rw [h]; simp only [hq, ho]⟩

/-- everything the later theorems need about a successful fix -/
theorem fix2_046_inv (c : C046) (toks toks' : List Tok2) (h : fix2 md046 c toks = .ok toks') :
    ∃ rs, fixOut md046 c toks = .ok ⟨[], [], rs⟩ ∧ Run046 toks c.style 0 toks rs ∧ ReplsOk toks.length 0 rs ∧
      applyFixes2 toks [] rs = .ok toks' ∧ Conv046 c.style none 0 toks toks' ∧
      (∀ t ∈ toks', ∀ j, t.startIdx = some j → j < toks'.length) := by
  unfold fix2 at h
  split at h
  · cases h
  · rename_i o ho
    obtain ⟨hrun, hq, hp⟩ := fixOut046_run c toks o ho
    have hok := hrun.replsOk
    simp only [Nat.zero_add] at hok
    rw [hq] at h
    have ho' : o = ⟨[], [], o.repls⟩ := by cases o; simp only at hq hp; rw [hq, hp]
    refine ⟨o.repls, by rw [ho]; exact congrArg _ ho', hrun, hok, h, ?_, applyFixes2_startIdx_lt toks o.repls hok hrun.newEndsOk toks' h⟩
    obtain ⟨w, hw, _, hcore, _, hexact⟩ := applyFixes2_repls toks o.repls hok
    rw [hw] at h
    cases h
    rw [hexact hrun.noNewPragma]
    exact hrun.conv [] rfl rfl w hcore 0

/-! ## rescanning a converted stream -/
theorem mism046_congr (a : Option Sty046) {t t' : Tok2} (h : t'.kind = t.kind) : mism046 a t' = mism046 a t := by
  unfold mism046 isCode046 sty046; rw [h]

theorem step046_congr (a : Option Sty046) {t t' : Tok2} (h : t'.kind = t.kind) : step046 a t' = step046 a t := by
  unfold step046 isCode046 sty046; rw [h]

/-- the run (scan or fix mode) from outside a block registers nothing at all -/
def Quiet046 (c : C046) (fm : Bool) (a : Option Sty046) (l : List Tok2) : Prop :=
  ∀ (all' : List Tok2) (i : Nat), ∃ s', runFrom2 md046 c fm all' ⟨a, none, none, none⟩ i l = .ok (s', {})

theorem Quiet046.cons {c : C046} {fm : Bool} {a : Option Sty046} {t : Tok2} {l : List Tok2} (hm : mism046 a t = false)
    (h : Quiet046 c fm (step046 a t) l) : Quiet046 c fm a (t :: l) := by
  intro all' i
  obtain ⟨s', hs'⟩ := h all' (i + 1)
  refine ⟨s', ?_⟩
  rw [runFrom2_cons_ok046]
  exact ⟨_, _, _, next046_keep c fm all' a none none i t hm, hs', rfl⟩

theorem Quiet046.append_noncode {c : C046} {fm : Bool} {a : Option Sty046} : ∀ (l1 : List Tok2) {l : List Tok2},
    (∀ t ∈ l1, isCode046 t = false) → Quiet046 c fm a l → Quiet046 c fm a (l1 ++ l) := by
  intro l1
  induction l1 with
  | nil => intro l _ h; exact h
  | cons t l1 ih =>
    intro l hnc h
    have ht := hnc t List.mem_cons_self
    have hm : mism046 a t = false := by simp [mism046, ht]
    have hs : step046 a t = a := by simp [step046, ht]
    exact Quiet046.cons hm (by rw [hs]; exact ih (fun u hu => hnc u (List.mem_cons_of_mem _ hu)) h)

/-- the last token of the stream is neither a code block start nor a text token (every parsed stream ends with `end-of-stream`,
    or with the pragma token behind it): no code block is left open at the end -/
def ClosedEnd046 (ts : List Tok2) : Prop := ∀ t, ts.getLast? = some t → isCode046 t = false ∧ t.kind ≠ .text

theorem ClosedEnd046.tail {t : Tok2} {ts : List Tok2} (h : ClosedEnd046 (t :: ts)) : ClosedEnd046 ts := by
  cases ts with
  | nil => intro u hu; simp at hu
  | cons x xs => intro u hu; exact h u (by rw [List.getLast?_cons_cons]; exact hu)

theorem ClosedEnd046.drop : ∀ (l1 : List Tok2) {ts : List Tok2}, ClosedEnd046 (l1 ++ ts) → ClosedEnd046 ts := by
  intro l1
  induction l1 with
  | nil => intro ts h; exact h
  | cons x l1 ih => intro ts h; exact ih (ClosedEnd046.tail h)

theorem isCode046_notEnd {t : Tok2} (h : isCode046 t = true) : t.kind.isEnd = false := by
  rcases isCode046_kind.mp h with hk | hk <;> rw [hk] <;> rfl

theorem isCode046_of_isEnd {t : Tok2} (h : t.kind.isEnd = true) : isCode046 t = false := by
  cases hc : isCode046 t with
  | false => rfl
  | true => rw [isCode046_notEnd hc] at h; cases h

theorem isCode046_text {t : Tok2} (h : t.kind = .text) : isCode046 t = false := by
  simp [isCode046, h]

theorem isCode046_core {t t' : Tok2} (h : core t' = core t) : isCode046 t' = isCode046 t := by
  simp only [isCode046, core_kind h]

theorem All₂.core_noncode : ∀ {l l' : List Tok2}, All₂ (fun x x' => core x' = core x) l l' → (∀ x ∈ l, x.kind = .text) →
    ∀ x' ∈ l', x'.kind = .text := by
  intro l l' h
  induction h with
  | nil => intro _ x' hx'; simp at hx'
  | cons hab _ ih =>
    intro hl x' hx'
    rcases List.mem_cons.mp hx' with rfl | hx'
    · rw [core_kind hab]; exact hl _ List.mem_cons_self
    · exact ih (fun x hx => hl x (List.mem_cons_of_mem _ hx)) x' hx'

/-- rescanning the fixed stream: nothing is reported (scan mode, when no block is left open at the end) and nothing is requested
    (fix mode, always) -/
theorem Conv046.quiet (c : C046) (fm : Bool) {a : Option Sty046} {prev : Option Tok2} {p : Nat} {ts ts' : List Tok2}
    (h : Conv046 a prev p ts ts') : (fm = true ∨ ClosedEnd046 ts) → Quiet046 c fm a ts' := by
  induction h with
  | nil a prev p => intro _ all' i; exact ⟨_, rfl⟩
  | keep a prev p t t' ts ts' hm hc _ ih =>
    intro hcl
    have hk := core_kind hc
    refine Quiet046.cons (by rw [mism046_congr a hk]; exact hm) ?_
    rw [step046_congr a hk]
    exact ih (hcl.imp id ClosedEnd046.tail)
  | block req prev p t e inner inner' ts ts' hm hlen htext hinner he1 he2 _ ih =>
    intro hcl
    have hrest : Quiet046 c fm (some req) ts' :=
      ih (hcl.imp id (fun h => ClosedEnd046.drop (t :: inner ++ [e]) (by simpa using h)))
    apply Quiet046.append_noncode
    · intro u hu; rw [mem_blank046 hu]; rfl
    · have hns : isCode046 (newStart046 req inner.head?) = true := by cases req <;> rfl
      have hsty : sty046 (newStart046 req inner.head?) = req := by cases req <;> rfl
      refine Quiet046.cons (by simp [mism046, hns, hsty]) ?_
      rw [step046_some]
      apply Quiet046.append_noncode
      · intro u hu; exact isCode046_text (All₂.core_noncode hinner htext u hu)
      · have hne : isCode046 (newEnd046 req (p + (blank046 req prev).length)) = false := by cases req <;> rfl
        refine Quiet046.cons (by simp [mism046, hne]) ?_
        rw [step046_some]; exact hrest
  | openTail req prev p t t' inner inner' hm hlen htext hc hinner =>
    intro hcl
    rcases hcl with rfl | hcl
    · -- fix mode: the start token opens a conversion that is never closed; nothing is registered
      intro all' i
      have hm' : mism046 (some req) t' = true := by rw [mism046_congr _ (core_kind hc)]; exact hm
      cases hinner with
      | nil =>
        refine ⟨⟨some req, some i, none, pred046 i⟩, ?_⟩
        rw [runFrom2_cons_ok046]
        refine ⟨⟨some req, some i, none, pred046 i⟩, {}, {}, ?_, rfl, rfl⟩
        show next046 c true all' ⟨some req, none, none, none⟩ i t' = _
        rw [next046_mism c true all' req none none i t' hm']; rfl
      | cons hab hrest =>
        rename_i x x' xs xs'
        cases hrest with
        | nil =>
          have hx' : x'.kind = .text := by rw [core_kind hab]; exact htext x List.mem_cons_self
          refine ⟨⟨some req, some i, some (i + 1), pred046 i⟩, ?_⟩
          rw [runFrom2_cons_ok046]
          refine ⟨⟨some req, some i, none, pred046 i⟩, {}, {}, ?_, ?_, rfl⟩
          · show next046 c true all' ⟨some req, none, none, none⟩ i t' = _
            rw [next046_mism c true all' req none none i t' hm']; rfl
          · rw [runFrom2_cons_ok046]
            exact ⟨⟨some req, some i, some (i + 1), pred046 i⟩, {}, {}, next046_inside_text c true all' (some req) i _ (i + 1) x' hx', rfl, rfl⟩
        | cons _ _ => simp at hlen
    · exfalso
      have hne : t :: inner ≠ [] := by simp
      have hlast := hcl _ (List.getLast?_eq_some_getLast hne)
      have hmem := List.getLast_mem hne
      rcases List.mem_cons.mp hmem with he | he
      · rw [he, (mism046_some hm).choose_spec.2.2] at hlast; cases hlast.1
      · exact hlast.2 (htext _ he)


/-! ## the text tokens -/
/-- kind and text of the text tokens of a stream, in order -/
def texts046 (l : List Tok2) : List (Kind × Str) := (l.filter (fun t => decide (t.kind = .text))).map (fun t => (t.kind, t.text))

theorem texts046_append (l1 l2 : List Tok2) : texts046 (l1 ++ l2) = texts046 l1 ++ texts046 l2 := by
  simp [texts046, List.filter_append]

theorem texts046_cons_of_ne {t : Tok2} (l : List Tok2) (h : t.kind ≠ .text) : texts046 (t :: l) = texts046 l := by
  simp [texts046, h]

theorem texts046_nontext (l : List Tok2) (h : ∀ t ∈ l, t.kind ≠ .text) : texts046 l = [] := by
  induction l with
  | nil => rfl
  | cons t l ih =>
    rw [texts046_cons_of_ne l (h t List.mem_cons_self)]
    exact ih (fun u hu => h u (List.mem_cons_of_mem _ hu))

theorem texts046_core {l l' : List Tok2} (h : All₂ (fun x x' => core x' = core x) l l') : texts046 l' = texts046 l := by
  induction h with
  | nil => rfl
  | @cons a b as bs hab _ ih =>
    have hk := core_kind hab
    have ht := core_text hab
    simp only [texts046, List.filter_cons] at ih ⊢
    by_cases h1 : a.kind = .text
    · have h2 : b.kind = .text := by rw [hk]; exact h1
      simp only [h1, h2, decide_true, ↓reduceIte, List.map_cons, ih, ht]
    · have h2 : ¬ b.kind = .text := by rw [hk]; exact h1
      simp only [h1, h2, decide_false, Bool.false_eq_true, ↓reduceIte, ih]

theorem isCode046_ne_text {t : Tok2} (h : isCode046 t = true) : t.kind ≠ .text := by
  rcases isCode046_kind.mp h with hk | hk <;> rw [hk] <;> decide

theorem isEnd_ne_text046 {t : Tok2} (h : t.kind.isEnd = true) : t.kind ≠ .text := by
  intro e; rw [e] at h; cases h

/-- the fix keeps the text tokens: same number, same order, same text -/
theorem Conv046.texts {a : Option Sty046} {prev : Option Tok2} {p : Nat} {ts ts' : List Tok2} (h : Conv046 a prev p ts ts') :
    texts046 ts' = texts046 ts := by
  induction h with
  | nil => rfl
  | keep a prev p t t' ts ts' _ hc _ ih =>
    have := texts046_core (All₂.cons hc All₂.nil)
    rw [show t' :: ts' = [t'] ++ ts' from rfl, show t :: ts = [t] ++ ts from rfl, texts046_append, texts046_append, this, ih]
  | block req prev p t e inner inner' ts ts' hm _ _ hinner he1 _ _ ih =>
    have h1 : texts046 (blank046 req prev) = [] := texts046_nontext _ (fun u hu => by rw [mem_blank046 hu]; decide)
    have h2 : (newStart046 req inner.head?).kind ≠ .text := by rw [newStart046_kind]; cases req <;> decide
    have h3 : (newEnd046 req (p + (blank046 req prev).length)).kind ≠ .text := by rw [newEnd046_kind]; cases req <;> decide
    rw [texts046_append, h1, texts046_cons_of_ne _ h2, texts046_append, texts046_cons_of_ne _ h3, texts046_core hinner, ih,
      texts046_cons_of_ne _ (isCode046_ne_text (mism046_some hm).choose_spec.2.2), texts046_append,
      texts046_cons_of_ne _ (isEnd_ne_text046 he1)]
    rfl
  | openTail req prev p t t' inner inner' _ _ _ hc hinner =>
    exact texts046_core (All₂.cons hc hinner)


/-! ## no exception on well-formed streams -/
/-- the state of `wf046` and the state of the rule in fix mode agree -/
def Match046 (st : Option (Nat × Bool)) (s : St046) : Prop :=
  (∀ sidx, s.startFix = some sidx → st = some (sidx, s.inner.isSome)) ∧ (s.startFix = none → s.inner = none)

theorem wf046_step (c : C046) (all : List Tok2) (st : Option (Nat × Bool)) (s : St046) (i : Nat) (t : Tok2) (ts : List Tok2)
    (hwf : wf046 st i (t :: ts) = true) (hm : Match046 st s) :
    ∃ s1 o1 st', next046 c true all s i t = .ok (s1, o1) ∧ Match046 st' s1 ∧ wf046 st' (i + 1) ts = true := by
  obtain ⟨a, sf, inn, bef⟩ := s
  cases sf with
  | none =>
    have hinn : inn = none := hm.2 rfl
    subst hinn
    by_cases hmm : mism046 a t = true
    · obtain ⟨req, rfl, _, hc⟩ := mism046_some hmm
      refine ⟨⟨some req, some i, none, pred046 i⟩, {}, some (i, false), ?_, ⟨?_, ?_⟩, ?_⟩
      · rw [next046_mism c true all req none bef i t hmm]; rfl
      · intro sidx h; cases h; rfl
      · intro h; cases h
      · cases st with
        | none =>
          simp only [wf046, isCode046_kind.mp hc, ↓reduceIte] at hwf; exact hwf
        | some q =>
          obtain ⟨sidx, seen⟩ := q
          have h1 := isCode046_notEnd hc
          have h2 := isCode046_ne_text hc
          simp only [wf046, h1, Bool.false_eq_true, ↓reduceIte, h2, decide_false, Bool.false_and] at hwf
    · have hmm' : mism046 a t = false := by simpa using hmm
      have hst' : ∃ st', wf046 st' (i + 1) ts = true := by
        cases st with
        | none =>
          simp only [wf046] at hwf
          split at hwf <;> exact ⟨_, hwf⟩
        | some q =>
          obtain ⟨sidx, seen⟩ := q
          simp only [wf046] at hwf
          split at hwf
          · simp only [Bool.and_eq_true] at hwf; exact ⟨_, hwf.2⟩
          · simp only [Bool.and_eq_true] at hwf; exact ⟨_, hwf.2⟩
      obtain ⟨st', hst'⟩ := hst'
      refine ⟨⟨step046 a t, none, none, bef⟩, {}, st', next046_keep c true all a none bef i t hmm', ⟨?_, fun _ => rfl⟩, hst'⟩
      intro sidx h; cases h
  | some sidx =>
    have hst := hm.1 sidx rfl
    subst hst
    simp only [wf046] at hwf
    split at hwf
    · rename_i he
      simp only [Bool.and_eq_true, decide_eq_true_eq] at hwf
      refine ⟨⟨a, none, none, none⟩, _, none, next046_inside_end c true all a sidx inn bef i t he hwf.1.1 hwf.1.2, ⟨?_, fun _ => rfl⟩, hwf.2⟩
      intro sidx' h; cases h
    · simp only [Bool.and_eq_true, decide_eq_true_eq, Bool.not_eq_eq_eq_not, Bool.not_true] at hwf
      have hinn : inn = none := by cases inn <;> simp_all
      subst hinn
      refine ⟨⟨a, some sidx, some i, bef⟩, {}, some (sidx, true), next046_inside_text c true all a sidx bef i t hwf.1.1, ⟨?_, ?_⟩, hwf.2⟩
      · intro sidx' h; cases h; rfl
      · intro h; cases h

theorem wf046_run (c : C046) (all : List Tok2) : ∀ (ts : List Tok2) (st : Option (Nat × Bool)) (i : Nat) (s : St046),
    wf046 st i ts = true → Match046 st s → ∃ r, runFrom2 md046 c true all s i ts = .ok r := by
  intro ts
  induction ts with
  | nil => intro st i s _ _; exact ⟨_, rfl⟩
  | cons t ts ih =>
    intro st i s hwf hm
    obtain ⟨s1, o1, st', hn, hm', hwf'⟩ := wf046_step c all st s i t ts hwf hm
    obtain ⟨⟨s2, o2⟩, hr⟩ := ih st' (i + 1) s1 hwf' hm'
    exact ⟨(s2, o1 ++ o2), (runFrom2_cons_ok046 md046 c true all s i t ts s2 (o1 ++ o2)).mpr ⟨s1, o1, o2, hn, hr, rfl⟩⟩

theorem fix2_046_ok (c : C046) (toks : List Tok2) (h : wf046 none 0 toks = true) : ∃ toks', fix2 md046 c toks = .ok toks' := by
  obtain ⟨⟨s', o⟩, hr⟩ := wf046_run c toks toks none 0 (init046 c) h ⟨fun _ h => (by cases h), fun _ => rfl⟩
  have : fixOut md046 c toks = .ok o := by
    unfold fixOut
    rw [show md046.init c = init046 c from rfl, hr]
  exact fix2_046_of_fixOut c toks o this


/-! ## line numbers: ONE converted block -/
theorem newEnd046_line (req : Sty046) (k : Nat) : (newEnd046 req k).line = 0 := by cases req <;> rfl
theorem newStart046_line (req : Sty046) (x : Option Tok2) : (newStart046 req x).line = 0 := by cases req <;> rfl

/-- every token MD046 creates has line number 0 -/
theorem fix046_lines (all : List Tok2) (req : Sty046) (i : Nat) (inn bef : Option Nat) (st : List Tok2) :
    (fix046 all ⟨some req, some i, inn, bef⟩).head? >>= RTok.line st = some 0 ∧
    (fix046 all ⟨some req, some i, inn, bef⟩).getLast? >>= RTok.line st = some 0 := by
  rw [fix046_eq]
  constructor
  · unfold blank046
    split
    · rfl
    · simp only [List.map_nil, List.nil_append, List.cons_append, List.head?_cons]
      show some (newStart046 req _).line = some 0
      rw [newStart046_line]
  · rw [List.getLast?_concat]
    show some (newEnd046 req _).line = some 0
    rw [newEnd046_line]

theorem Run046.records {all : List Tok2} {a : Option Sty046} {i : Nat} {ts : List Tok2} {rs : List Repl} (h : Run046 all a i ts rs) :
    ∀ (pfx : List Tok2), all = pfx ++ ts → pfx.length = i → ∀ r ∈ rs,
      ∃ req inn t, r.toks = fix046 all ⟨some req, some r.startIdx, inn, pred046 r.startIdx⟩ ∧
        all[r.startIdx]? = some t ∧ mism046 (some req) t = true := by
  induction h with
  | nil => intro _ _ _ r hr; simp at hr
  | keep a i t ts rs _ _ ih =>
    intro pfx hall hi r hr
    exact ih (pfx ++ [t]) (by rw [hall]; simp) (by simp [hi]) r hr
  | block0 req i t e ts rs hm _ _ _ _ ih =>
    intro pfx hall hi r hr
    rcases List.mem_cons.mp hr with rfl | hr
    · exact ⟨req, none, t, rfl, by have := getElem?_pfx046 hall hi 0; simpa using this, hm⟩
    · exact ih (pfx ++ [t, e]) (by rw [hall]; simp) (by simp [hi]) r hr
  | block1 req i t x e ts rs hm _ _ _ _ _ ih =>
    intro pfx hall hi r hr
    rcases List.mem_cons.mp hr with rfl | hr
    · exact ⟨req, some (i + 1), t, rfl, by have := getElem?_pfx046 hall hi 0; simpa using this, hm⟩
    · exact ih (pfx ++ [t, x, e]) (by rw [hall]; simp) (by simp [hi]) r hr
  | open0 => intro _ _ _ r hr; simp at hr
  | open1 => intro _ _ _ r hr; simp at hr

/-- with ONE converted block: the tokens in front keep their line, every token behind the block is moved by
    `start.line − end.line` — `line_number_delta = (0 − 0 + 1) − (end.line − start.line + 1)` — and NOT by the change in the number of
    lines of the block.  (`adjLine`: a token with line 0 stays at 0.) -/
theorem fix2_046_line_delta (c : C046) (toks toks' : List Tok2) (r : Repl)
    (hout : fixOut md046 c toks = .ok ⟨[], [], [r]⟩) (h : fix2 md046 c toks = .ok toks') :
    ∃ st en, toks[r.startIdx]? = some st ∧ toks[r.endIdx]? = some en ∧ isCode046 st = true ∧
      (∀ (q : Nat) (t : Tok2), q < r.startIdx → toks[q]? = some t → ∃ t', toks'[q]? = some t' ∧ t'.line = t.line) ∧
      (∀ (m : Nat) (t : Tok2), toks[r.endIdx + 1 + m]? = some t →
        ∃ t', toks'[r.startIdx + r.toks.length + m]? = some t' ∧ t'.line = (adjLine (st.line - en.line) t).line) := by
  obtain ⟨hrun, _, _⟩ := fixOut046_run c toks _ hout
  have hok := hrun.replsOk
  simp only [Nat.zero_add] at hok
  obtain ⟨req, inn, st, htoks, hst, hm⟩ := hrun.records [] rfl rfl r List.mem_cons_self
  obtain ⟨a, first, en, l0, ll, out, _, _, hfirst, hnotend, hen, hl0, hll, hap, hbefore, hafter⟩ := applyFixes2_single toks r hok
  have hcode := (mism046_some hm).choose_spec.2.2
  have ha := hnotend st hst (isCode046_notEnd hcode)
  subst ha
  rw [hst] at hfirst
  cases hfirst
  have hlines := fix046_lines toks req r.startIdx inn (pred046 r.startIdx) toks
  rw [← htoks, hl0, hll] at hlines
  simp only [Option.some.injEq] at hlines
  obtain ⟨rfl, rfl⟩ := hlines
  have hfix : fix2 md046 c toks = .ok out := by unfold fix2; rw [hout]; exact hap
  rw [hfix] at h
  cases h
  refine ⟨st, en, hst, hen, hcode, hbefore, ?_⟩
  intro m t ht
  obtain ⟨t', h1, h2⟩ := hafter m t ht
  refine ⟨t', h1, ?_⟩
  rw [h2]
  have e : (0 : Int) - 0 + 1 - (en.line - st.line + 1) = st.line - en.line := by omega
  rw [e]


end Verif.Model.TokenRules
