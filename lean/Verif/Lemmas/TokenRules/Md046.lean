import Verif.Model.TokenRules.Md046Spec
/-!
  MD046 — one-step lemmas for `next046`, the scan (`runFrom2 … false`) as a filter.
-/
namespace Verif.Model.TokenRules

/-! ## `runFrom2`, generic -/
theorem Out.nil_append046 (o : Out) : ({} : Out) ++ o = o := by cases o; rfl

theorem runFrom2_cons_ok046 {Cfg St : Type} (r : Rule2 Cfg St) (c : Cfg) (fm : Bool) (all : List Tok2) (s : St) (i : Nat) (t : Tok2)
    (ts : List Tok2) (s' : St) (o : Out) :
    runFrom2 r c fm all s i (t :: ts) = .ok (s', o) ↔
      ∃ s1 o1 o2, r.next c fm all s i t = .ok (s1, o1) ∧ runFrom2 r c fm all s1 (i + 1) ts = .ok (s', o2) ∧ o = o1 ++ o2 := by
  simp only [runFrom2]
  constructor
  · intro h
    split at h
    · cases h
    · rename_i s1 o1 h1
      split at h
      · cases h
      · rename_i s2 o2 h2
        simp only [Except.ok.injEq, Prod.mk.injEq] at h
        exact ⟨s1, o1, o2, h1, by rw [h2, h.1], h.2.symm⟩
  · rintro ⟨s1, o1, o2, h1, h2, rfl⟩
    rw [h1]; simp only [h2]

/-! ## the state machine, one token -/
/-- the style in force after a token -/
def step046 (a : Option Sty046) (t : Tok2) : Option Sty046 := if isCode046 t then some (a.getD (sty046 t)) else a

/-- a code block start of the wrong style -/
def mism046 (a : Option Sty046) (t : Tok2) : Bool := isCode046 t && decide (a.getD (sty046 t) ≠ sty046 t)

theorem mism046_some {a : Option Sty046} {t : Tok2} (h : mism046 a t = true) : ∃ req, a = some req ∧ req ≠ sty046 t ∧ isCode046 t = true := by
  simp only [mism046, Bool.and_eq_true, decide_eq_true_eq] at h
  cases a with
  | none => exact absurd rfl h.2
  | some r => exact ⟨r, rfl, h.2, h.1⟩

theorem step046_some (req : Sty046) (t : Tok2) : step046 (some req) t = some req := by
  unfold step046; split <;> rfl

theorem isCode046_kind {t : Tok2} : isCode046 t = true ↔ t.kind = .fence ∨ t.kind = .icode := by
  simp only [isCode046, Bool.or_eq_true, decide_eq_true_eq]

/-- `next046` outside a block under conversion, with the `match` on the kind folded into `isCode046` / `sty046` -/
theorem next046_out_eq (c : C046) (fm : Bool) (all : List Tok2) (a : Option Sty046) (inn bef : Option Nat) (i : Nat) (t : Tok2) :
    next046 c fm all ⟨a, none, inn, bef⟩ i t =
      if isCode046 t then
        (if a.getD (sty046 t) ≠ sty046 t then
          (if fm then .ok (⟨some (a.getD (sty046 t)), some i, inn, if i = 0 then none else some (i - 1)⟩, {})
           else .ok (⟨some (a.getD (sty046 t)), none, inn, bef⟩,
             { reports := [⟨t.line, t.col, some (msg046 (a.getD (sty046 t)) (sty046 t))⟩] }))
         else .ok (⟨some (a.getD (sty046 t)), none, inn, bef⟩, {}))
      else .ok (⟨a, none, inn, bef⟩, {}) := by
  unfold next046
  simp only []
  split
  · rename_i hk
    have h1 : isCode046 t = true := isCode046_kind.mpr (.inl hk)
    have h2 : sty046 t = .fenced := by unfold sty046; rw [if_pos hk]
    rw [if_pos h1, h2, if_pos hk]
    rfl
  · rename_i hk
    have h1 : isCode046 t = true := isCode046_kind.mpr (.inr hk)
    have hk' : ¬ t.kind = .fence := by rw [hk]; decide
    have h2 : sty046 t = .indented := by unfold sty046; rw [if_neg hk']
    rw [if_pos h1, h2, if_neg hk']
    rfl
  · rename_i h1 h2
    have : ¬ isCode046 t = true := fun e => by
      rcases isCode046_kind.mp e with e | e
      · exact h1 e
      · exact h2 e
    rw [if_neg this]

/-- outside a block under conversion, no wrong-style start: nothing is reported or requested -/
theorem next046_keep (c : C046) (fm : Bool) (all : List Tok2) (a : Option Sty046) (inn bef : Option Nat) (i : Nat) (t : Tok2)
    (h : mism046 a t = false) :
    next046 c fm all ⟨a, none, inn, bef⟩ i t = .ok (⟨step046 a t, none, inn, bef⟩, {}) := by
  rw [next046_out_eq]
  unfold step046
  by_cases hc : isCode046 t = true
  · have hm : a.getD (sty046 t) = sty046 t := by
      simp only [mism046, hc, Bool.true_and, decide_eq_false_iff_not, Decidable.not_not] at h; exact h
    rw [if_pos hc, if_pos hc, if_neg (by simp [hm])]
  · rw [if_neg hc, if_neg hc]

theorem next046_mism (c : C046) (fm : Bool) (all : List Tok2) (req : Sty046) (inn bef : Option Nat) (i : Nat) (t : Tok2)
    (h : mism046 (some req) t = true) :
    next046 c fm all ⟨some req, none, inn, bef⟩ i t =
      if fm then .ok (⟨some req, some i, inn, if i = 0 then none else some (i - 1)⟩, {})
      else .ok (⟨some req, none, inn, bef⟩, { reports := [report046 (some req) t] }) := by
  obtain ⟨r, hr, hne, hc⟩ := mism046_some h
  cases hr
  rw [next046_out_eq, if_pos hc]
  simp only [Option.getD_some]
  rw [if_pos hne]
  rfl

/-! ## the scan as a filter -/
/-- the reports, following the stream with the style in force -/
def specGo046 : Option Sty046 → List Tok2 → List Report
  | _, [] => []
  | a, t :: ts => (if mism046 a t then [report046 a t] else []) ++ specGo046 (step046 a t) ts

theorem md046_scan_run (c : C046) (all : List Tok2) : ∀ (ts : List Tok2) (a : Option Sty046) (i : Nat),
    ∃ s', runFrom2 md046 c false all ⟨a, none, none, none⟩ i ts = .ok (s', ⟨specGo046 a ts, [], []⟩) := by
  intro ts
  induction ts with
  | nil => intro a i; exact ⟨_, rfl⟩
  | cons t ts ih =>
    intro a i
    obtain ⟨s', hs'⟩ := ih (step046 a t) (i + 1)
    refine ⟨s', ?_⟩
    rw [runFrom2_cons_ok046]
    by_cases hm : mism046 a t = true
    · obtain ⟨req, rfl, _, _⟩ := mism046_some hm
      refine ⟨⟨some req, none, none, none⟩, { reports := [report046 (some req) t] }, ⟨specGo046 (some req) ts, [], []⟩, ?_, ?_, ?_⟩
      · show next046 c false all ⟨some req, none, none, none⟩ i t = _
        rw [next046_mism c false all req none none i t hm]; rfl
      · rw [step046_some] at hs'; exact hs'
      · simp only [specGo046, hm, ↓reduceIte, step046_some]; rfl
    · have hm' : mism046 a t = false := by simpa using hm
      refine ⟨_, _, _, next046_keep c false all a none none i t hm', hs', ?_⟩
      simp only [specGo046, hm', Bool.false_eq_true, ↓reduceIte, List.nil_append]; rfl

/-- the style in force: the given one, else that of the first code block -/
def reqFrom046 (a : Option Sty046) (ts : List Tok2) : Option Sty046 :=
  match a with
  | some s => some s
  | none => firstSty046 ts

theorem specGo046_eq : ∀ (ts : List Tok2) (a : Option Sty046),
    specGo046 a ts = (offending046 (reqFrom046 a ts) ts).map (report046 (reqFrom046 a ts)) := by
  intro ts
  induction ts with
  | nil => intro a; rfl
  | cons t ts ih =>
    intro a
    simp only [specGo046, ih]
    cases a with
    | some s =>
      simp only [step046_some, reqFrom046, offending046, List.filter_cons, mism046, Option.getD_some]
      by_cases hc : isCode046 t = true
      · by_cases hs : s = sty046 t
        · simp [hc, hs]
        · simp [hc, hs]
      · simp [hc]
    | none =>
      by_cases hc : isCode046 t = true
      · have h1 : reqFrom046 none (t :: ts) = some (sty046 t) := by simp [reqFrom046, firstSty046, List.find?, hc]
        have h2 : step046 none t = some (sty046 t) := by simp [step046, hc]
        have h3 : mism046 none t = false := by simp [mism046]
        rw [h1, h2, h3]
        simp only [Bool.false_eq_true, ↓reduceIte, List.nil_append, reqFrom046, offending046, List.filter_cons, ne_eq,
          not_true_eq_false, decide_false, Bool.and_false]
        rfl
      · have hc' : isCode046 t = false := by simpa using hc
        have h1 : reqFrom046 none (t :: ts) = reqFrom046 none ts := by simp [reqFrom046, firstSty046, List.find?, hc']
        have h2 : step046 none t = none := by simp [step046, hc']
        have h3 : mism046 none t = false := by simp [mism046, hc']
        rw [h1, h2, h3]
        simp only [Bool.false_eq_true, ↓reduceIte, List.nil_append, offending046, List.filter_cons, hc', Bool.false_and]

theorem scan2_md046 (c : C046) (toks : List Tok2) : scan2 md046 c toks = .ok (spec046 c toks) := by
  obtain ⟨s', h⟩ := md046_scan_run c toks toks c.style 0
  have : md046.init c = ⟨c.style, none, none, none⟩ := rfl
  unfold scan2
  rw [this, h]
  simp only [specGo046_eq]
  rfl

end Verif.Model.TokenRules
