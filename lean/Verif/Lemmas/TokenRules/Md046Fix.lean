import Verif.Lemmas.TokenRules.Md046
import Verif.Lemmas.TokenRules.ReplLine
/-!
  MD046 — the fix: the fix-mode run block by block (`Run046`), the records it registers (`fix046_eq`, `ReplsOk`), and the stream after
  the fix as an inductive relation with the original stream (`Conv046`).
-/
namespace Verif.Model.TokenRules

/-! ## inside a block under conversion -/
theorem next046_inside_end (c : C046) (fm : Bool) (all : List Tok2) (a : Option Sty046) (sidx : Nat) (inn bef : Option Nat) (i : Nat)
    (t : Tok2) (h1 : t.kind.isEnd = true) (h2 : t.kind ≠ .eos) (h3 : t.startIdx = some sidx) :
    next046 c fm all ⟨a, some sidx, inn, bef⟩ i t =
      .ok (⟨a, none, none, none⟩, { repls := [⟨sidx, i, fix046 all ⟨a, some sidx, inn, bef⟩⟩] }) := by
  unfold next046
  simp only [h1, ↓reduceIte, h2, h3, ne_eq, not_true_eq_false]

theorem next046_inside_text (c : C046) (fm : Bool) (all : List Tok2) (a : Option Sty046) (sidx : Nat) (bef : Option Nat) (i : Nat)
    (t : Tok2) (h1 : t.kind = .text) :
    next046 c fm all ⟨a, some sidx, none, bef⟩ i t = .ok (⟨a, some sidx, some i, bef⟩, {}) := by
  unfold next046
  simp [h1, Kind.isEnd]

theorem next046_inside_inv (c : C046) (fm : Bool) (all : List Tok2) (a : Option Sty046) (sidx : Nat) (inn bef : Option Nat) (i : Nat)
    (t : Tok2) (s'' : St046) (o'' : Out) (h : next046 c fm all ⟨a, some sidx, inn, bef⟩ i t = .ok (s'', o'')) :
    (t.kind.isEnd = true ∧ t.kind ≠ .eos ∧ t.startIdx = some sidx ∧ s'' = ⟨a, none, none, none⟩ ∧
        o'' = { repls := [⟨sidx, i, fix046 all ⟨a, some sidx, inn, bef⟩⟩] }) ∨
    (t.kind.isEnd = false ∧ t.kind = .text ∧ inn = none ∧ s'' = ⟨a, some sidx, some i, bef⟩ ∧ o'' = {}) := by
  unfold next046 at h
  simp only [] at h
  by_cases h1 : t.kind.isEnd = true
  · rw [if_pos h1] at h
    by_cases h2 : t.kind = .eos
    · rw [if_pos h2] at h; cases h
    · rw [if_neg h2] at h
      by_cases h3 : t.startIdx ≠ some sidx
      · rw [if_pos h3] at h; cases h
      · rw [if_neg h3] at h
        simp only [Except.ok.injEq, Prod.mk.injEq] at h
        exact .inl ⟨h1, h2, by simpa using h3, h.1.symm, h.2.symm⟩
  · rw [if_neg h1] at h
    by_cases h2 : t.kind ≠ .text
    · rw [if_pos h2] at h; cases h
    · rw [if_neg h2] at h
      by_cases h3 : inn.isSome = true
      · rw [if_pos h3] at h; cases h
      · rw [if_neg h3] at h
        simp only [Except.ok.injEq, Prod.mk.injEq] at h
        have hinn : inn = none := by cases inn <;> simp_all
        subst hinn
        exact .inr ⟨by simpa using h1, by simpa using h2, rfl, h.1.symm, h.2.symm⟩

/-! ## the fix-mode run, block by block -/
/-- `__token_before_start_fix_token` for a start token at index `i` -/
def pred046 (i : Nat) : Option Nat := if i = 0 then none else some (i - 1)

/-- a successful fix-mode run from outside a block, as a derivation: the stream is a sequence of tokens that are no wrong-style code
    block starts (`keep`) and of blocks `start, text?, end` with a wrong-style start (`block0` / `block1`), each yielding one record;
    a wrong-style start with at most one text token and nothing behind it (`open0` / `open1`) yields nothing -/
inductive Run046 (all : List Tok2) : Option Sty046 → Nat → List Tok2 → List Repl → Prop
  | nil (a : Option Sty046) (i : Nat) : Run046 all a i [] []
  | keep (a : Option Sty046) (i : Nat) (t : Tok2) (ts : List Tok2) (rs : List Repl) :
      mism046 a t = false → Run046 all (step046 a t) (i + 1) ts rs → Run046 all a i (t :: ts) rs
  | block0 (req : Sty046) (i : Nat) (t e : Tok2) (ts : List Tok2) (rs : List Repl) :
      mism046 (some req) t = true → e.kind.isEnd = true → e.kind ≠ .eos → e.startIdx = some i →
      Run046 all (some req) (i + 2) ts rs →
      Run046 all (some req) i (t :: e :: ts) (⟨i, i + 1, fix046 all ⟨some req, some i, none, pred046 i⟩⟩ :: rs)
  | block1 (req : Sty046) (i : Nat) (t x e : Tok2) (ts : List Tok2) (rs : List Repl) :
      mism046 (some req) t = true → x.kind = .text → e.kind.isEnd = true → e.kind ≠ .eos → e.startIdx = some i →
      Run046 all (some req) (i + 3) ts rs →
      Run046 all (some req) i (t :: x :: e :: ts) (⟨i, i + 2, fix046 all ⟨some req, some i, some (i + 1), pred046 i⟩⟩ :: rs)
  | open0 (req : Sty046) (i : Nat) (t : Tok2) : mism046 (some req) t = true → Run046 all (some req) i [t] []
  | open1 (req : Sty046) (i : Nat) (t x : Tok2) : mism046 (some req) t = true → x.kind = .text → Run046 all (some req) i [t, x] []

theorem run046_of_ok (c : C046) (all : List Tok2) : ∀ (n : Nat) (ts : List Tok2), ts.length ≤ n →
    ∀ (a : Option Sty046) (i : Nat) (s' : St046) (o : Out),
      runFrom2 md046 c true all ⟨a, none, none, none⟩ i ts = .ok (s', o) →
      Run046 all a i ts o.repls ∧ o.reqs = [] ∧ o.reports = [] := by
  intro n
  induction n with
  | zero =>
    intro ts hl a i s' o h
    cases ts with
    | nil => simp only [runFrom2, Except.ok.injEq, Prod.mk.injEq] at h; rw [← h.2]; exact ⟨.nil a i, rfl, rfl⟩
    | cons _ _ => simp at hl
  | succ n ih =>
    intro ts hl a i s' o h
    cases ts with
    | nil => simp only [runFrom2, Except.ok.injEq, Prod.mk.injEq] at h; rw [← h.2]; exact ⟨.nil a i, rfl, rfl⟩
    | cons t ts1 =>
      simp only [List.length_cons] at hl
      rw [runFrom2_cons_ok046] at h
      obtain ⟨s1, o1, o2, hn, hr, rfl⟩ := h
      by_cases hm : mism046 a t = true
      · obtain ⟨req, rfl, _, _⟩ := mism046_some hm
        have hn' : next046 c true all ⟨some req, none, none, none⟩ i t = .ok (s1, o1) := hn
        rw [next046_mism c true all req none none i t hm] at hn'
        simp only [↓reduceIte, Except.ok.injEq, Prod.mk.injEq] at hn'
        obtain ⟨rfl, rfl⟩ := hn'
        rw [Out.nil_append046]
        -- the token behind the start token
        cases ts1 with
        | nil =>
          simp only [runFrom2, Except.ok.injEq, Prod.mk.injEq] at hr
          rw [← hr.2]; exact ⟨.open0 req i t hm, rfl, rfl⟩
        | cons e ts2 =>
          rw [runFrom2_cons_ok046] at hr
          obtain ⟨s2, o3, o4, hn2, hr2, rfl⟩ := hr
          rcases next046_inside_inv c true all (some req) i none _ (i + 1) e s2 o3 hn2 with
            ⟨he1, he2, he3, rfl, rfl⟩ | ⟨_, hx, _, rfl, rfl⟩
          · obtain ⟨hrun, hq, hp⟩ := ih ts2 (by simp only [List.length_cons] at hl; omega) (some req) (i + 1 + 1) s' o4 hr2
            refine ⟨?_, ?_, ?_⟩
            · exact .block0 req i t e ts2 _ hm he1 he2 he3 hrun
            · show [] ++ o4.reqs = []; rw [hq]; rfl
            · show [] ++ o4.reports = []; rw [hp]; rfl
          · rw [Out.nil_append046]
            cases ts2 with
            | nil =>
              simp only [runFrom2, Except.ok.injEq, Prod.mk.injEq] at hr2
              rw [← hr2.2]; exact ⟨.open1 req i t e hm hx, rfl, rfl⟩
            | cons e2 ts3 =>
              rw [runFrom2_cons_ok046] at hr2
              obtain ⟨s3, o5, o6, hn3, hr3, rfl⟩ := hr2
              rcases next046_inside_inv c true all (some req) i (some (i + 1)) _ (i + 1 + 1) e2 s3 o5 hn3 with
                ⟨he1, he2, he3, rfl, rfl⟩ | ⟨_, _, hcontra, _, _⟩
              · obtain ⟨hrun, hq, hp⟩ := ih ts3 (by simp only [List.length_cons] at hl; omega) (some req) (i + 1 + 1 + 1) s' o6 hr3
                refine ⟨?_, ?_, ?_⟩
                · exact .block1 req i t e e2 ts3 _ hm hx he1 he2 he3 hrun
                · show [] ++ o6.reqs = []; rw [hq]; rfl
                · show [] ++ o6.reports = []; rw [hp]; rfl
              · cases hcontra
      · have hm' : mism046 a t = false := by simpa using hm
        have hn' : next046 c true all ⟨a, none, none, none⟩ i t = .ok (s1, o1) := hn
        rw [next046_keep c true all a none none i t hm'] at hn'
        simp only [Except.ok.injEq, Prod.mk.injEq] at hn'
        obtain ⟨rfl, rfl⟩ := hn'
        rw [Out.nil_append046]
        obtain ⟨hrun, hq, hp⟩ := ih ts1 (by omega) _ _ _ _ hr
        exact ⟨.keep a i t ts1 _ hm' hrun, hq, hp⟩

/-! ## the replacement list -/
/-- converting to the indented style directly behind a paragraph end: a blank line is put in front -/
def isBlank046 (req : Sty046) (prev : Option Tok2) : Bool :=
  decide (req = .indented) && (match prev with | some b => b.kind == .paraEnd | none => false)

def blank046 (req : Sty046) (prev : Option Tok2) : List Tok2 := if isBlank046 req prev then [newBlank] else []

/-- the new start token: `newFenced` (backtick, count 3, NO info string — the language of a fenced block is lost) / `newIndented`
    (four spaces of `extracted_whitespace`, one `"\n    "` per newline of the inner text — the original leading whitespace is lost) -/
def newStart046 (req : Sty046) (inner : Option Tok2) : Tok2 :=
  match req with
  | .fenced => (newFenced 0).1
  | .indented => (newIndented 0 (inner.map (·.text))).1

/-- the new end token, naming its start token at position `pos` -/
def newEnd046 (req : Sty046) (pos : Nat) : Tok2 :=
  match req with
  | .fenced => (newFenced pos).2
  | .indented => (newIndented pos none).2

theorem fix046_eq (all : List Tok2) (req : Sty046) (i : Nat) (inn bef : Option Nat) :
    fix046 all ⟨some req, some i, inn, bef⟩ =
      (blank046 req (bef.bind (fun j => all[j]?))).map .new ++ [.new (newStart046 req (inn.bind (fun j => all[j]?)))] ++
        inn.toList.map .ref ++ [.new (newEnd046 req (blank046 req (bef.bind (fun j => all[j]?))).length)] := by
  unfold fix046 blank046 isBlank046
  simp only []
  cases bef.bind (fun j => all[j]?) with
  | none => cases req <;> simp [newStart046, newEnd046, newFenced, newIndented]
  | some b =>
    simp only []
    by_cases hpb : (b.kind == Kind.paraEnd) = true
    · cases req <;> simp [hpb, newStart046, newEnd046, newFenced, newIndented]
    · cases req <;> simp [hpb, newStart046, newEnd046, newFenced, newIndented]

end Verif.Model.TokenRules
