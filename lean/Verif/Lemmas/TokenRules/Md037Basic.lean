import Verif.Model.TokenRules.Md037
import Verif.Lemmas.TokenRules.Basic
import Verif.Lemmas.Codec
/-!
  MD037 — basic facts: what `__find_next_eligible_emphasis` returns, and the fuel of the `__check_text_token` loop.
-/
namespace Verif.Model.TokenRules
open Verif.Model

theorem pick037_some {a u : Option Nat} {si : Nat} {ch : Char} (h : pick037 a u = some (si, ch)) :
    (a = some si ∧ ch = '*') ∨ (u = some si ∧ ch = '_') := by
  unfold pick037 at h
  split at h
  · cases h
  · simp only [Option.some.injEq, Prod.mk.injEq] at h; exact .inl ⟨by rw [h.1], h.2.symm⟩
  · simp only [Option.some.injEq, Prod.mk.injEq] at h; exact .inr ⟨by rw [h.1], h.2.symm⟩
  · split at h
    · simp only [Option.some.injEq, Prod.mk.injEq] at h; exact .inl ⟨by rw [h.1], h.2.symm⟩
    · simp only [Option.some.injEq, Prod.mk.injEq] at h; exact .inr ⟨by rw [h.1], h.2.symm⟩

/-- the index `__find_next_eligible_emphasis` returns lies in the text, at or behind the start index, on a `*` or `_` -/
theorem pick037_bounds {text : Str} {start si : Nat} {ch : Char}
    (h : pick037 (Codec.findFrom '*' text start) (Codec.findFrom '_' text start) = some (si, ch)) :
    start ≤ si ∧ si < text.length ∧ text[si]? = some ch ∧ (ch = '*' ∨ ch = '_') := by
  rcases pick037_some h with ⟨ha, hc⟩ | ⟨hu, hc⟩
  · have := Verif.Lemmas.Codec.findFrom_some_lt '*' text start si ha
    exact ⟨this.1, this.2.1, by rw [hc]; exact this.2.2, .inl hc⟩
  · have := Verif.Lemmas.Codec.findFrom_some_lt '_' text start si hu
    exact ⟨this.1, this.2.1, by rw [hc]; exact this.2.2, .inr hc⟩

/-- the shape of every answer of `findNext037` -/
theorem findNext037_cases (text : Str) (start : Nat) :
    findNext037 text start = (none, none) ∨
    ∃ si ch, pick037 (Codec.findFrom '*' text start) (Codec.findFrom '_' text start) = some (si, ch) ∧
      (findNext037 text start = (none, some si) ∨
       findNext037 text start =
         (some ⟨ch, si, runLen037 ch (text.drop si), (if si = 0 then none else text[si - 1]?),
                text[si + runLen037 ch (text.drop si)]?⟩, some si)) := by
  unfold findNext037
  split
  · exact .inl rfl
  · rename_i si ch hp
    refine .inr ⟨si, ch, hp, ?_⟩
    dsimp only
    generalize (if si = 0 then none else text[si - 1]?) = before
    generalize text[si + runLen037 ch (text.drop si)]? = after
    by_cases h1 : before = some Codec.BS
    · exact .inl (if_pos h1)
    · rw [if_neg h1]
      by_cases h2 : before = some Codec.AL ∧ after = some Codec.AL
      · exact .inl (if_pos h2)
      · rw [if_neg h2]
        by_cases h3 : (isBlankO037 before || isBlankO037 after) = true
        · exact .inr (if_pos h3)
        · exact .inl (if_neg h3)

theorem findNext037_next {text : Str} {start nx : Nat} {f : Option Found037} (h : findNext037 text start = (f, some nx)) :
    start ≤ nx ∧ nx < text.length := by
  rcases findNext037_cases text start with h0 | ⟨si, ch, hp, h1 | h1⟩
  · rw [h0] at h; cases h
  · rw [h1] at h; cases h; have := pick037_bounds hp; exact ⟨this.1, this.2.1⟩
  · rw [h1] at h; cases h; have := pick037_bounds hp; exact ⟨this.1, this.2.1⟩

/-- one more unit of fuel changes nothing once `fuel + start > len(text)`: the loop of `__check_text_token` ends -/
theorem checkLoop037_fuel (fm : Bool) (i : Nat) (text : Str) (line col : Int) :
    ∀ (fuel start : Nat) (s : St037) (rs : List Report), text.length + 1 ≤ fuel + start → 1 ≤ fuel →
      checkLoop037 fm i text line col (fuel + 1) start s rs = checkLoop037 fm i text line col fuel start s rs := by
  intro fuel
  induction fuel with
  | zero => intro start s rs _ h; omega
  | succ k ih =>
    intro start s rs hl _
    rw [checkLoop037, checkLoop037]
    rcases hf : findNext037 text start with ⟨f, nx⟩
    cases nx with
    | none => rfl
    | some nx =>
      have hb := findNext037_next hf
      cases f with
      | none => exact ih (nx + 1 + 1) s rs (by omega) (by omega)
      | some f =>
        dsimp only
        cases step037 fm s rs ⟨f.ch, f.start, f.len, f.before, f.after, i, text, line, col⟩ with
        | error e => rfl
        | ok r => exact ih (nx + 1 + f.len) r.1 r.2 (by omega) (by omega)

theorem checkLoop037_fuel_add (fm : Bool) (i : Nat) (text : Str) (line col : Int) (s : St037) (k : Nat) :
    checkLoop037 fm i text line col (text.length + 1 + k) 0 s [] = checkText037 fm i text line col s := by
  induction k with
  | zero => rfl
  | succ k ih => rw [← ih]; exact checkLoop037_fuel fm i text line col (text.length + 1 + k) 0 s [] (by omega) (by omega)

end Verif.Model.TokenRules
