import Verif.Lemmas.TokenRules.Md023Fix
/-!
  `ContainerTokenManager` alone: on a stream whose container tokens are properly nested (`nested023`: a block quote end closes a block
  quote, a list end closes a list, a new list item arrives directly inside a list) none of its methods raises — the `KeyError`s of the two
  dicts, the `IndexError` of `del stack[-1]` and the `assert` of `__manage_leaf_tokens_text` are unreachable (`cmRun023_total`).
  Invariant `CMInv023`: `bq_line_index` has a key for every stack level, `list_adjust_map` one for every level that holds a list,
  `last_leaf_token` is a SetExt heading, a code block or an HTML block.
-/
namespace Verif.Model.TokenRules

/-- the container manager alone over a stream: `premanage_container_tokens` then `manage_container_tokens`, token by token -/
def cmRun023 : CM023 → Nat → List Tok2 → Except Err2 CM023
  | cm, _, [] => .ok cm
  | cm, i, t :: ts =>
    match cmPre023 cm t with
    | .error e => .error e
    | .ok cm1 =>
      match cmPost023 cm1 i t with
      | .error e => .error e
      | .ok cm2 => cmRun023 cm2 (i + 1) ts

/-- may a token of class `k` arrive when the open containers are `st` (`true` = block quote, `false` = list; innermost first)? -/
def nestOk023 (st : List Bool) (k : Kind) : Bool :=
  match k with
  | .bquoteEnd => (match st with | true :: _ => true | _ => false)
  | .ulistEnd | .olistEnd | .li => (match st with | false :: _ => true | _ => false)
  | _ => true

def nestNext023 (st : List Bool) (k : Kind) : List Bool :=
  match k with
  | .bquote => true :: st
  | .ulist | .olist => false :: st
  | .bquoteEnd | .ulistEnd | .olistEnd => st.tail
  | _ => st

/-- proper nesting of the container tokens: a block quote end closes a block quote, a list end closes a list, a new list item arrives
    directly inside a list -/
def nested023 : List Bool → List Tok2 → Bool
  | _, [] => true
  | st, t :: ts => nestOk023 st t.kind && nested023 (nestNext023 st t.kind) ts

def LevelsOk023 (bq lam : List (Nat × Int)) : List Cont023 → Prop
  | [] => True
  | ct :: rest => (dget bq (rest.length + 1)).isSome = true ∧ (ct.isBq = false → (dget lam (rest.length + 1)).isSome = true) ∧
      LevelsOk023 bq lam rest

def LeafOk023 (ll : Option Kind) : Prop := ll = none ∨ ll = some .setext ∨ ll = some .icode ∨ ll = some .html ∨ ll = some .fence

structure CMInv023 (cm : CM023) : Prop where
  levels : LevelsOk023 cm.bq cm.lam cm.stack
  leaf : LeafOk023 cm.lastLeaf

theorem LevelsOk023.mono {bq lam bq' lam' : List (Nat × Int)} (hb : ∀ k, (dget bq k).isSome = true → (dget bq' k).isSome = true)
    (hl : ∀ k, (dget lam k).isSome = true → (dget lam' k).isSome = true) : ∀ (st : List Cont023), LevelsOk023 bq lam st → LevelsOk023 bq' lam' st
  | [], _ => trivial
  | _ :: rest, ⟨h1, h2, h3⟩ => ⟨hb _ h1, fun h => hl _ (h2 h), LevelsOk023.mono hb hl rest h3⟩

theorem dset_isSome (d : List (Nat × Int)) (n k : Nat) (v : Int) (h : (dget d k).isSome = true) : (dget (dset d n v) k).isSome = true := by
  rw [dget_dset]; split <;> simp [h]

theorem LevelsOk023.ddel (bq lam : List (Nat × Int)) (n : Nat) : ∀ (st : List Cont023), st.length < n → LevelsOk023 bq lam st →
    LevelsOk023 (ddel bq n) (ddel lam n) st
  | [], _, _ => trivial
  | ct :: rest, hn, ⟨h1, h2, h3⟩ => by
    have hne : ¬ rest.length + 1 = n := by simp only [List.length_cons] at hn; omega
    refine ⟨by rw [dget_ddel]; simp [hne, h1], fun h => by rw [dget_ddel]; simp [hne, h2 h], ?_⟩
    exact LevelsOk023.ddel bq lam n rest (by simp only [List.length_cons] at hn; omega) h3

theorem bqAdd023_ok (cm : CM023) (d : Int) (hI : CMInv023 cm) (hne : cm.stack ≠ []) :
    ∃ cm', bqAdd023 cm d = .ok cm' ∧ CMInv023 cm' ∧ cm'.stack = cm.stack := by
  obtain ⟨stack, bq, lam, ll⟩ := cm
  cases stack with
  | nil => exact absurd rfl hne
  | cons ct rest =>
    obtain ⟨h1, h2, h3⟩ := hI.levels
    unfold bqAdd023
    simp only [List.length_cons] at h1 ⊢
    cases hd : dget bq (rest.length + 1) with
    | none => rw [hd] at h1; cases h1
    | some v =>
      refine ⟨_, rfl, ⟨?_, hI.leaf⟩, rfl⟩
      exact LevelsOk023.mono (fun k hk => dset_isSome _ _ _ _ hk) (fun _ hk => hk) _ ⟨h1, h2, h3⟩

theorem cmPre023_ok (cm : CM023) (t : Tok2) (hI : CMInv023 cm) : ∃ cm', cmPre023 cm t = .ok cm' ∧ CMInv023 cm' ∧ cm'.stack = cm.stack := by
  unfold cmPre023
  split
  · rename_i hc
    apply bqAdd023_ok cm 1 hI
    intro h0
    rw [h0] at hc
    simp at hc
  · exact ⟨cm, rfl, hI, rfl⟩

theorem leafDelta023_ok (ll : Option Kind) (t : Tok2) (hl : LeafOk023 ll) : ∃ d ll', leafDelta023 ll t = .ok (d, ll') ∧ LeafOk023 ll' := by
  unfold leafDelta023
  split
  · exact ⟨_, _, rfl, hl⟩
  · split
    · rename_i hr
      refine ⟨_, _, rfl, ?_⟩
      unfold isRemember023 at hr
      cases hk : t.kind <;> simp only [hk] at hr <;> first | (cases hr; done) | exact .inr (.inl rfl) | exact .inr (.inr (.inl rfl)) | exact .inr (.inr (.inr (.inl rfl)))
    · split
      · exact ⟨_, _, rfl, .inl rfl⟩
      · split
        · exact ⟨_, _, rfl, .inr (.inr (.inr (.inr rfl)))⟩
        · split
          · exact ⟨_, _, rfl, hl⟩
          · split
            · exact ⟨_, _, rfl, hl⟩
            · split
              · cases hll : ll with
                | none => exact ⟨_, _, rfl, by rw [← hll]; exact hl⟩
                | some l =>
                  simp only
                  have : ∃ d, textDelta023 l t = .ok d := by
                    unfold textDelta023
                    rcases hl with h | h | h | h | h <;> rw [hll] at h <;> first | (cases h; done) | skip
                    all_goals
                      cases h
                      first
                        | (simp only [↓reduceIte]; split <;> exact ⟨_, rfl⟩)
                        | (simp only [reduceCtorEq, ↓reduceIte, or_true, true_or, or_false, false_or]; exact ⟨_, rfl⟩)
                  obtain ⟨d, hd⟩ := this
                  rw [hd]
                  exact ⟨_, _, rfl, by rw [← hll]; exact hl⟩
              · exact ⟨_, _, rfl, hl⟩

theorem cmLeaf023_ok (cm : CM023) (t : Tok2) (hI : CMInv023 cm) (hne : cm.stack ≠ []) :
    ∃ cm', cmLeaf023 cm t = .ok cm' ∧ CMInv023 cm' ∧ cm'.stack = cm.stack := by
  unfold cmLeaf023
  obtain ⟨d, ll', h1, h2⟩ := leafDelta023_ok cm.lastLeaf t hI.leaf
  rw [h1]
  simp only
  exact bqAdd023_ok { cm with lastLeaf := ll' } d ⟨hI.levels, h2⟩ hne

theorem cmPost023_ok (cm : CM023) (i : Nat) (t : Tok2) (hI : CMInv023 cm) (hn : nestOk023 (cm.stack.map (·.isBq)) t.kind = true) :
    ∃ cm', cmPost023 cm i t = .ok cm' ∧ CMInv023 cm' ∧ cm'.stack.map (·.isBq) = nestNext023 (cm.stack.map (·.isBq)) t.kind := by
  obtain ⟨stack, bq, lam, ll⟩ := cm
  have hlev := hI.levels
  simp only at hlev hn
  have hdef : ∃ cm', (if stack.isEmpty then Except.ok (⟨stack, bq, lam, ll⟩ : CM023) else cmLeaf023 ⟨stack, bq, lam, ll⟩ t) = .ok cm' ∧
      CMInv023 cm' ∧ cm'.stack.map (·.isBq) = stack.map (·.isBq) := by
    cases stack with
    | nil => exact ⟨_, rfl, hI, rfl⟩
    | cons ct rest =>
      obtain ⟨cm', h1, h2, h3⟩ := cmLeaf023_ok ⟨ct :: rest, bq, lam, ll⟩ t hI (by simp)
      exact ⟨cm', by simpa using h1, h2, by rw [h3]⟩
  unfold cmPost023 nestNext023
  unfold nestOk023 at hn
  cases hk : t.kind <;> simp only [hk] at hn ⊢
  case bquote =>
    refine ⟨_, rfl, ⟨⟨by rw [dget_dset]; simp, fun h => by simp only [cont023, hk] at h; exact absurd h (by decide), ?_⟩, hI.leaf⟩, by simp only [List.map_cons, cont023, hk]; rfl⟩
    exact LevelsOk023.mono (fun k hk => dset_isSome _ _ _ _ hk) (fun _ hk => hk) _ hlev
  case ulist =>
    refine ⟨_, rfl, ⟨⟨by rw [dget_dset]; simp, fun _ => by rw [dget_dset]; simp, ?_⟩, hI.leaf⟩, by simp only [List.map_cons, cont023, hk]; rfl⟩
    exact LevelsOk023.mono (fun k hk => dset_isSome _ _ _ _ hk) (fun k hk => dset_isSome _ _ _ _ hk) _ hlev
  case olist =>
    refine ⟨_, rfl, ⟨⟨by rw [dget_dset]; simp, fun _ => by rw [dget_dset]; simp, ?_⟩, hI.leaf⟩, by simp only [List.map_cons, cont023, hk]; rfl⟩
    exact LevelsOk023.mono (fun k hk => dset_isSome _ _ _ _ hk) (fun k hk => dset_isSome _ _ _ _ hk) _ hlev
  case bquoteEnd =>
    cases stack with
    | nil => simp at hn
    | cons ct rest =>
      obtain ⟨h1, h2, h3⟩ := hlev
      simp only [List.length_cons]
      cases hd : dget bq (rest.length + 1) with
      | none => rw [hd] at h1; cases h1
      | some v =>
        simp only [popStack023]
        refine ⟨_, rfl, ⟨?_, hI.leaf⟩, by simp⟩
        have := LevelsOk023.ddel bq lam (rest.length + 1) rest (Nat.lt_succ_self _) h3
        exact LevelsOk023.mono (fun _ h => h) (fun k h => by rw [dget_ddel] at h; split at h <;> simp_all) rest this
  case li =>
    cases stack with
    | nil => simp at hn
    | cons ct rest =>
      have hb : ct.isBq = false := by simp only [List.map_cons] at hn; cases h : ct.isBq <;> simp_all
      obtain ⟨h1, h2, h3⟩ := hlev
      simp only [List.length_cons]
      cases hd : dget lam (rest.length + 1) with
      | none => have := h2 hb; rw [hd] at this; cases this
      | some v =>
        refine ⟨_, rfl, ⟨?_, hI.leaf⟩, rfl⟩
        exact LevelsOk023.mono (fun _ hk => hk) (fun k hk => dset_isSome _ _ _ _ hk) _ ⟨h1, h2, h3⟩
  case ulistEnd =>
    cases stack with
    | nil => simp at hn
    | cons ct rest =>
      have hb : ct.isBq = false := by simp only [List.map_cons] at hn; cases h : ct.isBq <;> simp_all
      obtain ⟨h1, h2, h3⟩ := hlev
      simp only [List.length_cons]
      cases hd : dget bq (rest.length + 1) with
      | none => rw [hd] at h1; cases h1
      | some v =>
        cases hd2 : dget lam (rest.length + 1) with
        | none => have := h2 hb; rw [hd2] at this; cases this
        | some v2 =>
          simp only [popStack023]
          exact ⟨_, rfl, ⟨LevelsOk023.ddel bq lam (rest.length + 1) rest (Nat.lt_succ_self _) h3, hI.leaf⟩, by simp⟩
  case olistEnd =>
    cases stack with
    | nil => simp at hn
    | cons ct rest =>
      have hb : ct.isBq = false := by simp only [List.map_cons] at hn; cases h : ct.isBq <;> simp_all
      obtain ⟨h1, h2, h3⟩ := hlev
      simp only [List.length_cons]
      cases hd : dget bq (rest.length + 1) with
      | none => rw [hd] at h1; cases h1
      | some v =>
        cases hd2 : dget lam (rest.length + 1) with
        | none => have := h2 hb; rw [hd2] at this; cases this
        | some v2 =>
          simp only [popStack023]
          exact ⟨_, rfl, ⟨LevelsOk023.ddel bq lam (rest.length + 1) rest (Nat.lt_succ_self _) h3, hI.leaf⟩, by simp⟩
  all_goals exact hdef

/-- `ContainerTokenManager` raises nothing on a properly nested stream -/
theorem cmRun023_ok : ∀ (ts : List Tok2) (cm : CM023) (i : Nat), CMInv023 cm → nested023 (cm.stack.map (·.isBq)) ts = true →
    ∃ cm', cmRun023 cm i ts = .ok cm' := by
  intro ts
  induction ts with
  | nil => intro cm i _ _; exact ⟨cm, rfl⟩
  | cons t ts ih =>
    intro cm i hI hn
    unfold nested023 at hn
    simp only [Bool.and_eq_true] at hn
    obtain ⟨cm1, h1, hI1, hs1⟩ := cmPre023_ok cm t hI
    obtain ⟨cm2, h2, hI2, hs2⟩ := cmPost023_ok cm1 i t hI1 (by rw [hs1]; exact hn.1)
    unfold cmRun023
    rw [h1]
    simp only
    rw [h2]
    simp only
    exact ih cm2 (i + 1) hI2 (by rw [hs2, hs1]; exact hn.2)

theorem cmRun023_total (toks : List Tok2) (h : nested023 [] toks = true) : ∃ cm, cmRun023 {} 0 toks = .ok cm :=
  cmRun023_ok toks {} 0 ⟨trivial, .inl rfl⟩ h

end Verif.Model.TokenRules
