import Verif.Lemmas.TokenRules.Basic
import Verif.Model.TokenRules.Product
/-!
  A token pass with several rules at once.  `Good r c` packages what the per-rule lemmas establish (requests name the current
  token; one step on the fixed token is silent in both modes and keeps a simulation relation; what a step may change);
  `Good.prod` combines two rules whose changes are invisible to each other (`Inert`), so the statement extends to any
  bundle of pairwise inert rules; `Good.h1` / `Good.idem` / `Good.style` read off the whole-stream theorems.
-/
namespace Verif.Model.TokenRules

/-- changes of shape `S` are invisible to the rule: its step is the same on both tokens, in both modes, from every state -/
def Inert {Cfg St : Type} (S : Tok → Tok → Prop) (r : Rule Cfg St) (c : Cfg) : Prop :=
  ∀ fm s i t t', S t t' → r.next c fm s i t' = r.next c fm s i t

structure Good {Cfg St : Type} (r : Rule Cfg St) (c : Cfg) where
  R : St → St → Prop
  S : Tok → Tok → Prop
  loc : IsLocal r
  init : R (r.init c) (r.init c)
  step : ∀ s₁ s₂ i t s₁' rp fx t', R s₁ s₂ → r.next c true s₁ i t = .ok (s₁', rp, fx) →
    applyGroup t (reqPairs fx) = .ok t' →
    S t t' ∧ ∀ fm, ∃ s₂', r.next c fm s₂ i t' = .ok (s₂', [], []) ∧ R s₁' s₂'

variable {Cfg St : Type}

theorem Good.h1 {r : Rule Cfg St} {c : Cfg} (g : Good r c) (toks toks' : List Tok) (h : fix r c toks = .ok toks') :
    scan r c toks' = .ok [] :=
  scan_fix_nil_of_sim r g.loc c g.R g.init
    (fun s₁ s₂ i t s₁' rp fx t' hR hn ha => by
      obtain ⟨s₂', h1, h2⟩ := (g.step s₁ s₂ i t s₁' rp fx t' hR hn ha).2 false
      exact ⟨s₂', [], h1, h2⟩) toks toks' h

theorem Good.idem {r : Rule Cfg St} {c : Cfg} (g : Good r c) (toks toks' : List Tok) (h : fix r c toks = .ok toks') :
    fix r c toks' = .ok toks' :=
  fix_idem_of_sim r g.loc c g.R g.init
    (fun s₁ s₂ i t s₁' rp fx t' hR hn ha => by
      obtain ⟨s₂', h1, h2⟩ := (g.step s₁ s₂ i t s₁' rp fx t' hR hn ha).2 true
      exact ⟨s₂', [], [], h1, applyGroup_nil t', h2⟩) toks toks' h

/-! ## splitting a combined request group -/
theorem contains_append_left (f : Field) : ∀ (a b : List Field), (a ++ b).contains f = false → a.contains f = false := by
  intro a
  induction a with
  | nil => intro _ _; rfl
  | cons x xs ih =>
    intro b h
    simp only [List.cons_append, List.contains_cons, Bool.or_eq_false_iff] at h ⊢
    exact ⟨h.1, ih b h.2⟩

theorem hasDup_append_left : ∀ (a b : List Field), hasDup (a ++ b) = false → hasDup a = false := by
  intro a
  induction a with
  | nil => intro _ _; rfl
  | cons f fs ih =>
    intro b h
    have h' : ((fs ++ b).contains f || hasDup (fs ++ b)) = false := h
    show (fs.contains f || hasDup fs) = false
    rw [Bool.or_eq_false_iff] at h' ⊢
    refine ⟨?_, ih b h'.2⟩
    exact contains_append_left f fs b h'.1

theorem hasDup_append_right : ∀ (a b : List Field), hasDup (a ++ b) = false → hasDup b = false := by
  intro a
  induction a with
  | nil => intro b h; exact h
  | cons f fs ih =>
    intro b h
    have h' : ((fs ++ b).contains f || hasDup (fs ++ b)) = false := h
    rw [Bool.or_eq_false_iff] at h'
    exact ih b h'.2

theorem modAll_append : ∀ (g1 g2 : List (Field × Val)) (t : Tok),
    modAll t (g1 ++ g2) = match modAll t g1 with | .ok t1 => modAll t1 g2 | .error e => .error e := by
  intro g1
  induction g1 with
  | nil => intro g2 t; rfl
  | cons p g1 ih =>
    intro g2 t
    obtain ⟨f, v⟩ := p
    simp only [List.cons_append, modAll]
    cases modify t f v with
    | none => rfl
    | some t' => exact ih g2 t'

theorem applyGroup_append (t t'' : Tok) (g1 g2 : List (Field × Val)) (h : applyGroup t (g1 ++ g2) = .ok t'') :
    ∃ t1, applyGroup t g1 = .ok t1 ∧ applyGroup t1 g2 = .ok t'' := by
  unfold applyGroup at h ⊢
  rw [List.map_append] at h
  cases hd : hasDup (g1.map (·.1) ++ g2.map (·.1)) with
  | true => rw [hd] at h; cases h
  | false =>
    rw [hd] at h
    simp only [Bool.false_eq_true, ↓reduceIte] at h
    rw [hasDup_append_left _ _ hd, hasDup_append_right _ _ hd]
    simp only [Bool.false_eq_true, ↓reduceIte]
    rw [modAll_append] at h
    cases h1 : modAll t g1 with
    | error e => rw [h1] at h; cases h
    | ok t1 => rw [h1] at h; exact ⟨t1, rfl, h⟩

/-! ## two rules in one pass -/
section prod
variable {C1 S1 C2 S2 : Type}

theorem prod_next_ok (r1 : Rule C1 S1) (r2 : Rule C2 S2) (c : C1 × C2) (fm : Bool) (s : S1 × S2) (i : Nat) (t : Tok) s' rp fx
    (h : (r1 ⊗ r2).next c fm s i t = .ok (s', rp, fx)) :
    ∃ rp1 fx1 rp2 fx2, r1.next c.1 fm s.1 i t = .ok (s'.1, rp1, fx1) ∧ r2.next c.2 fm s.2 i t = .ok (s'.2, rp2, fx2) ∧
      rp = rp1 ++ rp2 ∧ fx = fx1 ++ fx2 := by
  simp only [Rule.prod] at h
  cases h1 : r1.next c.1 fm s.1 i t with
  | error e => rw [h1] at h; cases h
  | ok p1 =>
    obtain ⟨s1, rp1, fx1⟩ := p1
    rw [h1] at h
    simp only at h
    cases h2 : r2.next c.2 fm s.2 i t with
    | error e => rw [h2] at h; cases h
    | ok p2 =>
      obtain ⟨s2, rp2, fx2⟩ := p2
      rw [h2] at h
      simp only [Except.ok.injEq, Prod.mk.injEq] at h
      obtain ⟨rfl, rfl, rfl⟩ := h
      exact ⟨rp1, fx1, rp2, fx2, rfl, rfl, rfl, rfl⟩

theorem prod_next_quiet (r1 : Rule C1 S1) (r2 : Rule C2 S2) (c : C1 × C2) (fm : Bool) (s : S1 × S2) (i : Nat) (t : Tok) s1' s2'
    (h1 : r1.next c.1 fm s.1 i t = .ok (s1', [], [])) (h2 : r2.next c.2 fm s.2 i t = .ok (s2', [], [])) :
    (r1 ⊗ r2).next c fm s i t = .ok ((s1', s2'), [], []) := by
  simp only [Rule.prod]; rw [h1]; simp only; rw [h2]; rfl

/-- two rules whose changes are invisible to each other: the bundle is as good as its parts -/
def Good.prod {r1 : Rule C1 S1} {r2 : Rule C2 S2} {c : C1 × C2} (g1 : Good r1 c.1) (g2 : Good r2 c.2)
    (i12 : Inert g1.S r2 c.2) (i21 : Inert g2.S r1 c.1) : Good (r1 ⊗ r2) c where
  R := fun a b => g1.R a.1 b.1 ∧ g2.R a.2 b.2
  S := fun t t' => ∃ tm, g1.S t tm ∧ g2.S tm t'
  loc := by
    intro c s i t s' rp fx h q hq
    obtain ⟨rp1, fx1, rp2, fx2, h1, h2, _, rfl⟩ := prod_next_ok r1 r2 c true s i t s' rp fx h
    rcases List.mem_append.mp hq with hq | hq
    · exact g1.loc c.1 s.1 i t s'.1 rp1 fx1 h1 q hq
    · exact g2.loc c.2 s.2 i t s'.2 rp2 fx2 h2 q hq
  init := ⟨g1.init, g2.init⟩
  step := by
    intro s₁ s₂ i t s₁' rp fx t'' hR hn ha
    obtain ⟨rp1, fx1, rp2, fx2, h1, h2, _, rfl⟩ := prod_next_ok r1 r2 c true s₁ i t s₁' rp fx hn
    simp only [reqPairs, List.map_append] at ha
    obtain ⟨t1, ha1, ha2⟩ := applyGroup_append t t'' _ _ ha
    obtain ⟨hS1, hq1⟩ := g1.step s₁.1 s₂.1 i t s₁'.1 rp1 fx1 t1 hR.1 h1 ha1
    have h2' : r2.next c.2 true s₁.2 i t1 = .ok (s₁'.2, rp2, fx2) := by rw [i12 true s₁.2 i t t1 hS1]; exact h2
    obtain ⟨hS2, hq2⟩ := g2.step s₁.2 s₂.2 i t1 s₁'.2 rp2 fx2 t'' hR.2 h2' ha2
    refine ⟨⟨t1, hS1, hS2⟩, fun fm => ?_⟩
    obtain ⟨a', hn1, hR1⟩ := hq1 fm
    obtain ⟨b', hn2, hR2⟩ := hq2 fm
    have hn1' : r1.next c.1 fm s₂.1 i t'' = .ok (a', [], []) := by rw [i21 fm s₂.1 i t1 t'' hS2]; exact hn1
    exact ⟨(a', b'), prod_next_quiet r1 r2 c fm s₂ i t'' a' b' hn1' hn2, hR1, hR2⟩

theorem Inert.prod_left {Cfg St : Type} {Sa Sb : Tok → Tok → Prop} {r : Rule Cfg St} {c : Cfg} (ha : Inert Sa r c) (hb : Inert Sb r c) :
    Inert (fun t t' => ∃ tm, Sa t tm ∧ Sb tm t') r c := by
  intro fm s i t t' ⟨tm, h1, h2⟩
  rw [hb fm s i tm t' h2, ha fm s i t tm h1]

theorem Inert.prod_right {S : Tok → Tok → Prop} {r1 : Rule C1 S1} {r2 : Rule C2 S2} {c : C1 × C2}
    (h1 : Inert S r1 c.1) (h2 : Inert S r2 c.2) : Inert S (r1 ⊗ r2) c := by
  intro fm s i t t' hS
  simp only [Rule.prod]
  rw [h1 fm s.1 i t t' hS, h2 fm s.2 i t t' hS]

/-- a silent scan of the bundle is a silent scan of each part -/
theorem runFrom_prod_nil (r1 : Rule C1 S1) (r2 : Rule C2 S2) (c : C1 × C2) :
    ∀ (ts : List Tok) (s : S1 × S2) (i : Nat) s' fxs, runFrom (r1 ⊗ r2) c false s i ts = .ok (s', [], fxs) →
      (∃ f1, runFrom r1 c.1 false s.1 i ts = .ok (s'.1, [], f1)) ∧ (∃ f2, runFrom r2 c.2 false s.2 i ts = .ok (s'.2, [], f2)) := by
  intro ts
  induction ts with
  | nil =>
    intro s i s' fxs h
    simp only [runFrom, Except.ok.injEq, Prod.mk.injEq] at h
    obtain ⟨rfl, _⟩ := h
    exact ⟨⟨[], rfl⟩, ⟨[], rfl⟩⟩
  | cons t ts ih =>
    intro s i s' fxs h
    unfold runFrom at h
    split at h
    · cases h
    · rename_i sm rp fx hn
      split at h
      · cases h
      · rename_i s2 rps fxs' hr
        simp only [Except.ok.injEq, Prod.mk.injEq] at h
        obtain ⟨rfl, hrp, _⟩ := h
        obtain ⟨hrp1, hrp2⟩ := List.append_eq_nil_iff.mp hrp
        subst hrp1; subst hrp2
        obtain ⟨rp1, fx1, rp2, fx2, h1, h2, hrp', _⟩ := prod_next_ok r1 r2 c false s i t sm [] fx hn
        obtain ⟨e1, e2⟩ := List.append_eq_nil_iff.mp hrp'.symm
        subst e1; subst e2
        obtain ⟨⟨f1, hr1⟩, ⟨f2, hr2⟩⟩ := ih sm (i + 1) s2 fxs' hr
        constructor
        · exact ⟨fx1 ++ f1, by unfold runFrom; rw [h1]; simp only; rw [hr1]; rfl⟩
        · exact ⟨fx2 ++ f2, by unfold runFrom; rw [h2]; simp only; rw [hr2]; rfl⟩

theorem scan_prod_nil (r1 : Rule C1 S1) (r2 : Rule C2 S2) (c : C1 × C2) (toks : List Tok)
    (h : scan (r1 ⊗ r2) c toks = .ok []) : scan r1 c.1 toks = .ok [] ∧ scan r2 c.2 toks = .ok [] := by
  unfold scan at h
  split at h
  · cases h
  · rename_i s' rps fxs hr
    simp only [Except.ok.injEq] at h
    subst h
    obtain ⟨⟨f1, h1⟩, ⟨f2, h2⟩⟩ := runFrom_prod_nil r1 r2 c toks _ 0 s' fxs hr
    constructor
    · unfold scan; rw [show r1.init c.1 = ((r1 ⊗ r2).init c).1 from rfl, h1]
    · unfold scan; rw [show r2.init c.2 = ((r1 ⊗ r2).init c).2 from rfl, h2]

end prod
end Verif.Model.TokenRules
