import Verif.Lemmas.TokenRules.Md037Good
import Verif.Lemmas.TokenRules.Md037Apply
/-!
  MD037 — the fix-mode run over a stream: it never raises, it registers `token_text` requests only, and its requests are the
  `__process_fixes` images of the pending lists at the block ends (`ReqsFrom037`), each of which holds genuine blank runs
  (`PGood037`) of text tokens of the stream, with token indices between the previous block end and this one.
-/
namespace Verif.Model.TokenRules
open Verif.Model

/-! ## outputs of one step, in either mode -/

theorem procGo037_cons (cur : Option (Nat × Str × Int)) (p : Pend037) (ps : List Pend037) :
    procGo037 cur (p :: ps) = procEmit037 cur p ++ procGo037 (some (procCut037 (procStart037 cur p) p)) ps := by
  cases cur <;> rfl

theorem procEmit037_isText (cur : Option (Nat × Str × Int)) (p : Pend037) : ∀ q ∈ procEmit037 cur p, IsTextReq037 q := by
  intro q hq
  unfold procEmit037 at hq
  split at hq
  · split at hq
    · cases hq
    · simp only [List.mem_singleton] at hq; subst hq; exact ⟨rfl, _, rfl⟩
  · cases hq

theorem procGo037_isText : ∀ (ps : List Pend037) (cur : Option (Nat × Str × Int)), ∀ q ∈ procGo037 cur ps, IsTextReq037 q := by
  intro ps
  induction ps with
  | nil =>
    intro cur q hq
    cases cur with
    | none => simp [procGo037] at hq
    | some c =>
      obtain ⟨i, txt, d⟩ := c
      simp only [procGo037, List.mem_singleton] at hq; subst hq; exact ⟨rfl, txt, rfl⟩
  | cons p ps ih =>
    intro cur q hq
    rw [procGo037_cons] at hq
    rcases List.mem_append.mp hq with h | h
    · exact procEmit037_isText cur p q h
    · exact ih _ q h

theorem next037_out {fm : Bool} {all : List Tok2} {s s' : St037} {i : Nat} {t : Tok2} {o : Out}
    (h : next037 () fm all s i t = .ok (s', o)) : o.repls = [] ∧ ∀ q ∈ o.reqs, IsTextReq037 q := by
  unfold next037 at h
  split at h
  · cases h; exact ⟨rfl, by intro q hq; cases hq⟩
  · split at h
    · split at h
      · cases h; exact ⟨rfl, by intro q hq; cases hq⟩
      · cases h
        refine ⟨rfl, ?_⟩
        intro q hq
        dsimp only at hq
        split at hq
        · exact procGo037_isText _ _ q hq
        · cases hq
    · split at h
      · split at h
        · cases h
        · cases h; exact ⟨rfl, by intro q hq; cases hq⟩
      · cases h; exact ⟨rfl, by intro q hq; cases hq⟩

theorem runFrom2_out037 {Cfg St : Type} (P : Out → Prop) (h0 : P {}) (happ : ∀ a b, P a → P b → P (a ++ b))
    (r : Rule2 Cfg St) (c : Cfg) (fm : Bool) (all : List Tok2)
    (hstep : ∀ s i t s' o, r.next c fm all s i t = .ok (s', o) → P o) :
    ∀ (ts : List Tok2) (s : St) (i : Nat) s' o, runFrom2 r c fm all s i ts = .ok (s', o) → P o := by
  intro ts
  induction ts with
  | nil => intro s i s' o h; simp only [runFrom2, Except.ok.injEq, Prod.mk.injEq] at h; rw [← h.2]; exact h0
  | cons t ts ih =>
    intro s i s' o h
    rw [runFrom2] at h
    split at h
    · cases h
    · rename_i s1 o1 hn
      split at h
      · cases h
      · rename_i s2 os hr
        simp only [Except.ok.injEq, Prod.mk.injEq] at h
        rw [← h.2]
        exact happ _ _ (hstep _ _ _ _ _ hn) (ih _ _ _ _ hr)

theorem Out.append_repls037 (a b : Out) : (a ++ b).repls = a.repls ++ b.repls := rfl
theorem Out.append_reqs037 (a b : Out) : (a ++ b).reqs = a.reqs ++ b.reqs := rfl
theorem Out.append_reports037 (a b : Out) : (a ++ b).reports = a.reports ++ b.reports := rfl

/-- whatever the stream: MD037 registers no replacement records, and field requests for `token_text` only -/
theorem fixOut037_shape (toks : List Tok2) (o : Out) (h : fixOut md037 () toks = .ok o) :
    o.repls = [] ∧ ∀ q ∈ o.reqs, IsTextReq037 q := by
  unfold fixOut at h
  split at h
  · cases h
  · rename_i s' o' hr
    cases h
    exact runFrom2_out037 (fun o => o.repls = [] ∧ ∀ q ∈ o.reqs, IsTextReq037 q) ⟨rfl, by intro q hq; cases hq⟩
      (fun a b ha hb => ⟨by rw [Out.append_repls037, ha.1, hb.1]; rfl,
        by intro q hq; rw [Out.append_reqs037] at hq; rcases List.mem_append.mp hq with h | h; exact ha.2 q h; exact hb.2 q h⟩)
      md037 () true toks (fun s i t s' o hn => next037_out (all := toks) hn) toks _ 0 s' o hr

/-! ## the invariant of the fix-mode run -/

def TextAt037 (all : List Tok2) (j : Nat) (txt : Str) : Prop := ∃ t, all[j]? = some t ∧ t.kind = .text ∧ t.text = txt

structure StInv037 (all : List Tok2) (lo n : Nat) (s : St037) : Prop where
  past : ∀ e ∈ s.past, lo ≤ e.tidx ∧ e.tidx < n ∧ TextAt037 all e.tidx e.text ∧ EGood037 e
  pending : ∀ p ∈ s.pending, lo ≤ p.tidx ∧ p.tidx < n ∧ TextAt037 all p.tidx p.text ∧ PGood037 p

theorem StInv037.mono {all : List Tok2} {lo n m : Nat} {s : St037} (h : StInv037 all lo n s) (hm : n ≤ m) : StInv037 all lo m s :=
  ⟨fun e he => by have := h.past e he; exact ⟨this.1, by omega, this.2.2⟩,
   fun p hp => by have := h.pending p hp; exact ⟨this.1, by omega, this.2.2⟩⟩

theorem firstCond037_after {b a : Emph037} (h : firstCond037 b a = true) : b.after = some ' ' := by
  unfold firstCond037 at h
  simp only [Bool.and_eq_true, beq_iff_eq] at h
  exact h.1.2

theorem secondCond037_before {b a : Emph037} (h : secondCond037 b a = true) : a.before = some ' ' := by
  unfold secondCond037 at h
  simp only [Bool.and_eq_true, beq_iff_eq] at h
  exact h.1.1

/-- the body of the loop in fix mode: no exception, no report, the invariant is kept -/
theorem step037_fix (all : List Tok2) (lo n : Nat) (s : St037) (rs : List Report) (e : Emph037) (hs : StInv037 all lo n s)
    (he : lo ≤ e.tidx ∧ e.tidx < n ∧ TextAt037 all e.tidx e.text ∧ EGood037 e) :
    ∃ s', step037 true s rs e = .ok (s', rs) ∧ s'.block = s.block ∧ StInv037 all lo n s' := by
  unfold step037
  cases hp : s.past with
  | nil =>
    refine ⟨_, rfl, rfl, ⟨?_, hs.pending⟩⟩
    intro x hx
    simp only [List.mem_singleton] at hx; subst hx; exact he
  | cons b rest =>
    dsimp only
    have hb := hs.past b (by rw [hp]; exact List.mem_cons_self)
    have hrest : ∀ x ∈ rest, lo ≤ x.tidx ∧ x.tidx < n ∧ TextAt037 all x.tidx x.text ∧ EGood037 x :=
      fun x hx => hs.past x (by rw [hp]; exact List.mem_cons_of_mem _ hx)
    split
    · -- the pair closes
      refine ⟨{ s with past := rest, pending := s.pending ++ ((if firstCond037 b e then [fixAfter037 b] else []) ++
        (if secondCond037 b e then [fixBefore037 e] else [])) }, by simp [check037], rfl, ⟨hrest, ?_⟩⟩
      intro p hpm
      rcases List.mem_append.mp hpm with h | h
      · exact hs.pending p h
      · rcases List.mem_append.mp h with h | h
        · split at h
          · rename_i hc
            simp only [List.mem_singleton] at h; subst h
            obtain ⟨hg, hi, ht, _⟩ := fixAfter037_good b hb.2.2.2 (firstCond037_after hc)
            exact ⟨by rw [hi]; exact hb.1, by rw [hi]; exact hb.2.1, by rw [hi, ht]; exact hb.2.2.1, hg⟩
          · cases h
        · split at h
          · rename_i hc
            simp only [List.mem_singleton] at h; subst h
            obtain ⟨hg, hi, ht, _⟩ := fixBefore037_good e he.2.2.2 (secondCond037_before hc)
            exact ⟨by rw [hi]; exact he.1, by rw [hi]; exact he.2.1, by rw [hi, ht]; exact he.2.2.1, hg⟩
          · cases h
    · refine ⟨_, rfl, rfl, ⟨?_, hs.pending⟩⟩
      intro x hx
      rcases List.mem_cons.mp hx with h | h
      · subst h; exact he
      · exact hs.past x (by rw [hp]; exact h)

/-- `__check_text_token` in fix mode -/
theorem checkLoop037_fix (all : List Tok2) (lo i : Nat) (text : Str) (line col : Int) (hT : TextAt037 all i text) (hlo : lo ≤ i) :
    ∀ (fuel start : Nat) (s : St037) (rs : List Report), text.length + 1 ≤ fuel + start → 1 ≤ fuel → StInv037 all lo (i + 1) s →
      ∃ s', checkLoop037 true i text line col fuel start s rs = .ok (s', rs) ∧ s'.block = s.block ∧ StInv037 all lo (i + 1) s' := by
  intro fuel
  induction fuel with
  | zero => intro start s rs _ h; omega
  | succ k ih =>
    intro start s rs hl _ hs
    rw [checkLoop037]
    rcases hf : findNext037 text start with ⟨f, nx⟩
    cases nx with
    | none => exact ⟨s, rfl, rfl, hs⟩
    | some nx =>
      have hb := findNext037_next hf
      cases f with
      | none => exact ih (nx + 1 + 1) s rs (by omega) (by omega) hs
      | some f =>
        dsimp only
        obtain ⟨hg, _⟩ := findNext037_good hf i line col
        obtain ⟨s1, h1, hb1, hs1⟩ := step037_fix all lo (i + 1) s rs ⟨f.ch, f.start, f.len, f.before, f.after, i, text, line, col⟩ hs
          ⟨hlo, Nat.lt_succ_self i, hT, hg⟩
        rw [h1]
        dsimp only
        obtain ⟨s2, h2, hb2, hs2⟩ := ih (nx + 1 + f.len) s1 rs (by omega) (by omega) hs1
        exact ⟨s2, h2, by rw [hb2, hb1], hs2⟩

/-- one `next_token` call in fix mode: it never raises; at a block end it hands the pending list to `__process_fixes` -/
theorem next037_fix (all : List Tok2) (lo i : Nat) (s : St037) (t : Tok2) (hs : StInv037 all lo i s) (ht : all[i]? = some t)
    (hlo : lo ≤ i) :
    ∃ s' o, next037 () true all s i t = .ok (s', o) ∧ o.repls = [] ∧ o.reports = [] ∧
      ((isBlockEnd037 t.kind = true ∧ s'.pending = [] ∧ s'.past = [] ∧
          o.reqs = (if s.pending.isEmpty then [] else procFixes037 s.pending)) ∨
       (isBlockEnd037 t.kind = false ∧ o.reqs = [] ∧ StInv037 all lo (i + 1) s')) := by
  unfold next037
  have hse : ∀ k, isBlockStart037 k = true → isBlockEnd037 k = false := by intro k; cases k <;> decide
  split
  · rename_i hk
    refine ⟨_, _, rfl, rfl, rfl, .inr ⟨hse _ hk, rfl, StInv037.mk (by intro e he; cases he) (fun p hp => ?_)⟩⟩
    have := hs.pending p hp; exact ⟨this.1, by omega, this.2.2⟩
  · split
    · rename_i hbe
      split
      · rename_i he
        refine ⟨_, _, rfl, rfl, rfl, .inl ⟨hbe, ?_, rfl, rfl⟩⟩
        simpa using he
      · rename_i he
        exact ⟨_, _, rfl, rfl, rfl, .inl ⟨hbe, rfl, rfl, rfl⟩⟩
    · rename_i hbe
      have hbe : isBlockEnd037 t.kind = false := by simpa using hbe
      split
      · rename_i hk
        obtain ⟨s1, h1, _, hs1⟩ := checkLoop037_fix all lo i t.text t.line t.col ⟨t, ht, hk.1, rfl⟩ hlo (t.text.length + 1) 0 s []
          (by omega) (by omega) (hs.mono (Nat.le_succ i))
        unfold checkText037
        rw [h1]
        exact ⟨_, _, rfl, rfl, rfl, .inr ⟨hbe, rfl, hs1⟩⟩
      · exact ⟨_, _, rfl, rfl, rfl, .inr ⟨hbe, rfl, hs.mono (Nat.le_succ i)⟩⟩

/-! ## the requests of a whole run -/

/-- the requests of a fix-mode run from a point where every pending token index is ≥ `lo`: the `__process_fixes` images of the
    pending lists at the block ends; `chk` holds for every one of them -/
inductive ReqsFrom037 (all : List Tok2) (chk : List Pend037 → Bool) : Nat → List FixReq2 → Prop
  | nil (lo : Nat) : ReqsFrom037 all chk lo []
  | flush (lo hi : Nat) (L : List Pend037) (rest : List FixReq2) : L ≠ [] → chk L = true →
      (∀ p ∈ L, lo ≤ p.tidx ∧ p.tidx < hi ∧ TextAt037 all p.tidx p.text ∧ PGood037 p) →
      ReqsFrom037 all chk hi rest → ReqsFrom037 all chk lo (procFixes037 L ++ rest)

theorem ReqsFrom037.mono {all : List Tok2} {chk : List Pend037 → Bool} {lo lo' : Nat} {r : List FixReq2}
    (h : ReqsFrom037 all chk lo r) (hl : lo' ≤ lo) : ReqsFrom037 all chk lo' r := by
  cases h with
  | nil => exact .nil lo'
  | flush _ hi L rest hne hc hL hr => exact .flush lo' hi L rest hne hc (fun p hp => by have := hL p hp; exact ⟨by omega, this.2⟩) hr

/-- the fix-mode run never raises, reports nothing, registers no replacement, and its requests are `ReqsFrom037` -/
theorem run037_fix (all : List Tok2) (chk : List Pend037 → Bool) :
    ∀ (ts pre : List Tok2) (s : St037) (lo : Nat), all = pre ++ ts → StInv037 all lo pre.length s → lo ≤ pre.length →
      wfGoG037 chk s pre.length ts = true →
      ∃ s' o, runFrom2 md037 () true all s pre.length ts = .ok (s', o) ∧ o.repls = [] ∧ o.reports = [] ∧
        ReqsFrom037 all chk lo o.reqs := by
  intro ts
  induction ts with
  | nil => intro pre s lo _ _ _ _; exact ⟨s, {}, rfl, rfl, rfl, .nil lo⟩
  | cons t ts ih =>
    intro pre s lo hall hs hlo hwf
    have ht : all[pre.length]? = some t := by rw [hall]; simp
    obtain ⟨s1, o1, hn, hr1, hp1, hcase⟩ := next037_fix all lo pre.length s t hs ht hlo
    have hn' : next037 () true [] s pre.length t = .ok (s1, o1) := hn
    rw [wfGoG037, hn'] at hwf
    simp only [Bool.and_eq_true, Bool.or_eq_true, Bool.not_eq_true'] at hwf
    have hall' : all = (pre ++ [t]) ++ ts := by rw [hall]; simp
    have hlen : (pre ++ [t]).length = pre.length + 1 := by simp
    rw [runFrom2]
    have hn2 : md037.next () true all s pre.length t = .ok (s1, o1) := hn
    rw [hn2]
    dsimp only
    rcases hcase with ⟨hbe, hpe, hpa, hq⟩ | ⟨hbe, hq, hs1⟩
    · -- a block end: the pending list is flushed
      have hs1 : StInv037 all (pre.length + 1) (pre ++ [t]).length s1 :=
        StInv037.mk (by intro e he; rw [hpa] at he; cases he) (by intro p hp; rw [hpe] at hp; cases hp)
      obtain ⟨s2, o2, hr, hr2, hp2, hq2⟩ := ih (pre ++ [t]) s1 (pre.length + 1) hall' hs1 (by omega) (by rw [hlen]; exact hwf.2)
      rw [hlen] at hr
      rw [hr]
      refine ⟨s2, o1 ++ o2, rfl, by rw [Out.append_repls037, hr1, hr2]; rfl, by rw [Out.append_reports037, hp1, hp2]; rfl, ?_⟩
      rw [Out.append_reqs037, hq]
      by_cases he : s.pending.isEmpty = true
      · rw [if_pos he, List.nil_append]; exact hq2.mono (by omega)
      · rw [if_neg he]
        have hchk : chk s.pending = true := by
          rcases hwf.1 with h | h
          · rw [hbe] at h; cases h
          · exact h
        refine .flush lo (pre.length + 1) s.pending o2.reqs (by intro h; rw [h] at he; exact he rfl) hchk ?_ hq2
        intro p hp
        have := hs.pending p hp
        exact ⟨this.1, by omega, this.2.2⟩
    · have hs1' : StInv037 all lo (pre ++ [t]).length s1 := by rw [hlen]; exact hs1
      obtain ⟨s2, o2, hr, hr2, hp2, hq2⟩ := ih (pre ++ [t]) s1 lo hall' hs1' (by omega) (by rw [hlen]; exact hwf.2)
      rw [hlen] at hr
      rw [hr]
      refine ⟨s2, o1 ++ o2, rfl, by rw [Out.append_repls037, hr1, hr2]; rfl, by rw [Out.append_reports037, hp1, hp2]; rfl, ?_⟩
      rw [Out.append_reqs037, hq, List.nil_append]
      exact hq2

end Verif.Model.TokenRules
