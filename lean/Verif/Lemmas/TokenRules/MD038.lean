import Verif.Lemmas.TokenRules.Basic
import Verif.Model.TokenRules.MD038
namespace Verif.Model.TokenRules

/-! ## MD039 -/
theorem rstripAw_cons (c : Char) (cs : Str) :
    rstripAw (c :: cs) = (match rstripAw cs with | [] => if isAw c then [] else [c] | r => c :: r) := rfl

theorem rstripAw_idem : ∀ s : Str, rstripAw (rstripAw s) = rstripAw s := by
  intro s
  induction s with
  | nil => rfl
  | cons c cs ih =>
    rw [rstripAw_cons c cs]
    cases h : rstripAw cs with
    | nil =>
      simp only
      by_cases hc : isAw c = true
      · simp [hc, rstripAw]
      · simp [hc, rstripAw]
    | cons r rs =>
      simp only
      rw [h] at ih
      rw [rstripAw_cons c (r :: rs), ih]

theorem rstripAw_head (c : Char) (cs : Str) (hc : isAw c = false) : ∃ r, rstripAw (c :: cs) = c :: r := by
  simp only [rstripAw]
  cases rstripAw cs with
  | nil => simp [hc]
  | cons r rs => exact ⟨_, rfl⟩

theorem dropWhile_head {α : Type} (p : α → Bool) : ∀ l : List α, l.dropWhile p = [] ∨ ∃ a t, l.dropWhile p = a :: t ∧ p a = false := by
  intro l
  induction l with
  | nil => exact .inl rfl
  | cons a l ih =>
    by_cases h : p a = true
    · simp only [List.dropWhile_cons, h, ↓reduceIte]; exact ih
    · right; exact ⟨a, l, by simp [h], by simpa using h⟩

theorem stripAw_idem (s : Str) : stripAw (stripAw s) = stripAw s := by
  unfold stripAw
  rcases dropWhile_head isAw s with h | ⟨a, t, h, ha⟩
  · rw [h]; rfl
  · rw [h]
    obtain ⟨r, hr⟩ := rstripAw_head a t ha
    rw [hr]
    have : (a :: r).dropWhile isAw = a :: r := by simp [ha]
    rw [this, ← hr, rstripAw_idem]

theorem next039_fix_cases (i : Nat) (t : Tok) rp fx (h : next039 () true () i t = .ok ((), rp, fx)) :
    (fx = [] ∧ rp = [] ∧ ((t.kind = .link ∨ t.kind = .image ∨ t.kind = .lrd) → t.text = stripAw t.text)) ∨
    (t.text ≠ stripAw t.text ∧ rp = [] ∧
      (((t.kind = .link ∨ t.kind = .image) ∧ fx = [⟨i, .textFromBlocks, .str (stripAw t.text)⟩]) ∨
       (t.kind = .lrd ∧ fx = [⟨i, .linkNameDebug, .str (stripAw t.text)⟩]))) := by
  unfold next039 at h
  split at h
  · rename_i hk
    by_cases hne : t.text ≠ stripAw t.text
    · rw [if_pos hne] at h
      simp only [↓reduceIte, Except.ok.injEq, Prod.mk.injEq, true_and] at h
      exact .inr ⟨hne, h.1.symm, .inl ⟨.inl hk, h.2.symm⟩⟩
    · rw [if_neg hne] at h
      simp only [Except.ok.injEq, Prod.mk.injEq, true_and] at h
      exact .inl ⟨h.2.symm, h.1.symm, fun _ => by simpa using hne⟩
  · rename_i hk
    by_cases hne : t.text ≠ stripAw t.text
    · rw [if_pos hne] at h
      simp only [↓reduceIte, Except.ok.injEq, Prod.mk.injEq, true_and] at h
      exact .inr ⟨hne, h.1.symm, .inl ⟨.inr hk, h.2.symm⟩⟩
    · rw [if_neg hne] at h
      simp only [Except.ok.injEq, Prod.mk.injEq, true_and] at h
      exact .inl ⟨h.2.symm, h.1.symm, fun _ => by simpa using hne⟩
  · rename_i hk
    by_cases hne : t.text ≠ stripAw t.text
    · rw [if_pos hne] at h
      simp only [↓reduceIte, Except.ok.injEq, Prod.mk.injEq, true_and] at h
      exact .inr ⟨hne, h.1.symm, .inr ⟨hk, h.2.symm⟩⟩
    · rw [if_neg hne] at h
      simp only [Except.ok.injEq, Prod.mk.injEq, true_and] at h
      exact .inl ⟨h.2.symm, h.1.symm, fun _ => by simpa using hne⟩
  · rename_i h1 h2 h3
    simp only [Except.ok.injEq, Prod.mk.injEq, true_and] at h
    refine .inl ⟨h.2.symm, h.1.symm, fun hk => ?_⟩
    rcases hk with hk | hk | hk
    · exact absurd hk h1
    · exact absurd hk h2
    · exact absurd hk h3

theorem next039_quiet (fm : Bool) (i : Nat) (u : Tok) (h : (u.kind = .link ∨ u.kind = .image ∨ u.kind = .lrd) → u.text = stripAw u.text) :
    next039 () fm () i u = .ok ((), [], []) := by
  unfold next039
  split
  · rename_i hk; rw [if_neg (by simpa using h (.inl hk))]
  · rename_i hk; rw [if_neg (by simpa using h (.inr (.inl hk)))]
  · rename_i hk; rw [if_neg (by simpa using h (.inr (.inr hk)))]
  · rfl

theorem md039_local : IsLocal md039 := by
  intro c s i t s' rp fx h q hq
  rcases next039_fix_cases i t rp fx h with ⟨rfl, _⟩ | ⟨_, _, ⟨_, rfl⟩ | ⟨_, rfl⟩⟩
  · simp at hq
  · simp at hq; simp [hq]
  · simp at hq; simp [hq]

/-- the fixed token and what changed -/
theorem md039_apply (i : Nat) (t : Tok) rp fx t' (hn : next039 () true () i t = .ok ((), rp, fx))
    (ha : applyGroup t (reqPairs fx) = .ok t') :
    t' = { t with text := t'.text } ∧ (t' = t ∨ ((t.kind = .link ∨ t.kind = .image ∨ t.kind = .lrd) ∧ t'.text = stripAw t.text)) := by
  rcases next039_fix_cases i t rp fx hn with ⟨rfl, _⟩ | ⟨_, _, ⟨hk, rfl⟩ | ⟨hk, rfl⟩⟩
  · simp only [List.map_nil, applyGroup_nil, Except.ok.injEq] at ha
    subst ha; exact ⟨rfl, .inl rfl⟩
  · simp only [List.map_cons, List.map_nil, applyGroup_single] at ha
    rcases hk with hk | hk <;> simp [modify, hk] at ha <;> subst ha <;> simp [hk]
  · simp only [List.map_cons, List.map_nil, applyGroup_single] at ha
    simp [modify, hk] at ha; subst ha; simp [hk]

theorem md039_step (i : Nat) (t : Tok) rp fx t' (hn : next039 () true () i t = .ok ((), rp, fx))
    (ha : applyGroup t (reqPairs fx) = .ok t') : ∀ fm, next039 () fm () i t' = .ok ((), [], []) := by
  intro fm
  obtain ⟨heq, hcase⟩ := md039_apply i t rp fx t' hn ha
  apply next039_quiet
  intro hk'
  have hkind : t'.kind = t.kind := by rw [heq]
  rcases hcase with rfl | ⟨_, htext⟩
  · rcases next039_fix_cases i t' rp fx hn with ⟨_, _, h⟩ | ⟨_, _, ⟨_, rfl⟩ | ⟨_, rfl⟩⟩
    · exact h hk'
    · -- a request was made but the token did not change: the text was already stripped
      simp only [List.map_cons, List.map_nil, applyGroup_single] at ha
      rcases ‹t'.kind = .link ∨ t'.kind = .image› with hk | hk <;> simp [modify, hk] at ha <;>
        (have := congrArg Tok.text ha; simpa using this.symm)
    · simp only [List.map_cons, List.map_nil, applyGroup_single] at ha
      simp [modify, ‹t'.kind = .lrd›] at ha
      have := congrArg Tok.text ha; simpa using this.symm
  · rw [htext, stripAw_idem]

theorem md039_step_ok (i : Nat) (t : Tok) :
    ∃ rp fx t', next039 () true () i t = .ok ((), rp, fx) ∧ applyGroup t (reqPairs fx) = .ok t' := by
  unfold next039
  split
  · rename_i hk
    by_cases hne : t.text ≠ stripAw t.text
    · rw [if_pos hne]; exact ⟨_, _, { t with text := stripAw t.text }, rfl, by simp [applyGroup_single, modify, hk]⟩
    · rw [if_neg hne]; exact ⟨_, _, t, rfl, by simp [applyGroup_nil]⟩
  · rename_i hk
    by_cases hne : t.text ≠ stripAw t.text
    · rw [if_pos hne]; exact ⟨_, _, { t with text := stripAw t.text }, rfl, by simp [applyGroup_single, modify, hk]⟩
    · rw [if_neg hne]; exact ⟨_, _, t, rfl, by simp [applyGroup_nil]⟩
  · rename_i hk
    by_cases hne : t.text ≠ stripAw t.text
    · rw [if_pos hne]; exact ⟨_, _, { t with text := stripAw t.text }, rfl, by simp [applyGroup_single, modify, hk]⟩
    · rw [if_neg hne]; exact ⟨_, _, t, rfl, by simp [applyGroup_nil]⟩
  · exact ⟨_, _, t, rfl, by simp [applyGroup_nil]⟩

end Verif.Model.TokenRules

namespace Verif.Model.TokenRules
/-! ## MD038 -/
theorem next038_fix_cases (i : Nat) (t : Tok) rp fx (h : next038 () true () i t = .ok ((), rp, fx)) :
    (fx = [] ∧ rp = [] ∧ ∀ fm, next038 () fm () i t = .ok ((), [], [])) ∨
    (∃ lead trail, t.kind = .codeSpan ∧ pad038 t.text = some (lead, trail) ∧ (lead != trail || lead) = true ∧ rp = [] ∧
      fx = [⟨i, .spanText, .str (adjust038 t.text lead trail)⟩]) := by
  unfold next038 at h
  by_cases hk : t.kind = .codeSpan
  · rw [hk] at h
    simp only at h
    cases hp : pad038 t.text with
    | none => rw [hp] at h; cases h
    | some p =>
      obtain ⟨lead, trail⟩ := p
      rw [hp] at h
      simp only at h
      by_cases hc : (lead != trail || lead) = true
      · rw [if_pos hc] at h
        simp only [↓reduceIte, Except.ok.injEq, Prod.mk.injEq, true_and] at h
        exact .inr ⟨lead, trail, hk, rfl, hc, h.1.symm, h.2.symm⟩
      · rw [if_neg hc] at h
        simp only [Except.ok.injEq, Prod.mk.injEq, true_and] at h
        refine .inl ⟨h.2.symm, h.1.symm, fun fm => ?_⟩
        unfold next038; rw [hk]; simp only; rw [hp]; simp only; rw [if_neg hc]
  · have : ∀ fm, next038 () fm () i t = .ok ((), [], []) := by
      intro fm; unfold next038; split <;> simp_all
    unfold next038 at this
    rw [this true] at h
    simp only [Except.ok.injEq, Prod.mk.injEq, true_and] at h
    exact .inl ⟨h.2.symm, h.1.symm, fun fm => by unfold next038; exact this fm⟩

theorem modify_spanText (t : Tok) (hk : t.kind = .codeSpan) (s : Str) :
    modify t .spanText (.str s) = some { t with text := s } := by
  simp [modify, hk]

theorem next038_quiet (fm : Bool) (i : Nat) (u : Tok) (hk : u.kind = .codeSpan) (hp : pad038 u.text = some (false, false)) :
    next038 () fm () i u = .ok ((), [], []) := by
  unfold next038; rw [hk]; simp only; rw [hp]; rfl

theorem md038_local : IsLocal md038 := by
  intro c s i t s' rp fx h q hq
  rcases next038_fix_cases i t rp fx h with ⟨rfl, _⟩ | ⟨_, _, _, _, _, _, rfl⟩
  · simp at hq
  · simp at hq; simp [hq]

def Style038 (t t' : Tok) : Prop :=
  t' = { t with text := t'.text } ∧
  (t' ≠ t → t.kind = .codeSpan ∧ ∃ lead trail, pad038 t.text = some (lead, trail) ∧ t'.text = adjust038 t.text lead trail)

theorem md038_step_style (i : Nat) (t : Tok) rp fx t' (hn : next038 () true () i t = .ok ((), rp, fx))
    (ha : applyGroup t (reqPairs fx) = .ok t') : Style038 t t' := by
  rcases next038_fix_cases i t rp fx hn with ⟨rfl, _⟩ | ⟨lead, trail, hk, hp, _, _, rfl⟩
  · simp only [List.map_nil, applyGroup_nil, Except.ok.injEq] at ha
    subst ha; exact ⟨rfl, fun h => absurd rfl h⟩
  · simp only [List.map_cons, List.map_nil, applyGroup_single, modify_spanText t hk] at ha
    cases ha
    exact ⟨rfl, fun _ => ⟨hk, lead, trail, hp, rfl⟩⟩

/-- on the domain `wf038` one fix pass is enough -/
theorem md038_step (i : Nat) (t : Tok) rp fx t' (hW : wf038 t = true) (hn : next038 () true () i t = .ok ((), rp, fx))
    (ha : applyGroup t (reqPairs fx) = .ok t') : ∀ fm, next038 () fm () i t' = .ok ((), [], []) := by
  rcases next038_fix_cases i t rp fx hn with ⟨rfl, _, h⟩ | ⟨lead, trail, hk, hp, _, _, rfl⟩
  · simp only [List.map_nil, applyGroup_nil, Except.ok.injEq] at ha
    subst ha; exact h
  · simp only [List.map_cons, List.map_nil, applyGroup_single, modify_spanText t hk] at ha
    cases ha
    intro fm
    unfold wf038 at hW
    rw [hk] at hW
    simp only [hp] at hW
    split at hW
    · rename_i hq; exact next038_quiet fm i { t with text := adjust038 t.text lead trail } hk hq
    · cases hW

end Verif.Model.TokenRules

namespace Verif.Model.TokenRules
/-! ## stateless scans -/

/-- MD039's documented condition: the label text of a link / image / link reference definition starts or ends with ASCII white space -/
def trig039 (t : Tok) : Bool :=
  decide ((t.kind = .link ∨ t.kind = .image ∨ t.kind = .lrd) ∧ t.text ≠ stripAw t.text)

/-- MD038's documented condition on a code span text: it starts with a space that is not followed by a backtick, or ends with a
    space that is not preceded by one (a one-character text: it is a space) -/
def trig038 (t : Tok) : Bool :=
  decide (t.kind = .codeSpan) && (match pad038 t.text with | some (l, tr) => l || tr | none => false)

theorem next039_scan (i : Nat) (t : Tok) :
    next039 () false () i t = .ok ((), if trig039 t then [⟨t.line, t.col, none⟩] else [], []) := by
  unfold next039 trig039
  split
  · rename_i hk
    by_cases hne : t.text ≠ stripAw t.text
    · rw [if_pos hne]; simp [hk, hne]
    · rw [if_neg hne]; simp only [hne, and_false, decide_false]; rfl
  · rename_i hk
    by_cases hne : t.text ≠ stripAw t.text
    · rw [if_pos hne]; simp [hk, hne]
    · rw [if_neg hne]; simp only [hne, and_false, decide_false]; rfl
  · rename_i hk
    by_cases hne : t.text ≠ stripAw t.text
    · rw [if_pos hne]; simp [hk, hne]
    · rw [if_neg hne]; simp only [hne, and_false, decide_false]; rfl
  · rename_i h1 h2 h3
    have : ¬ (t.kind = .link ∨ t.kind = .image ∨ t.kind = .lrd) := by
      intro h; rcases h with h | h | h
      · exact h1 h
      · exact h2 h
      · exact h3 h
    simp [this]

theorem md039_runFrom_scan : ∀ (ts : List Tok) (i : Nat),
    runFrom md039 () false () i ts = .ok ((), (ts.filter trig039).map (fun t => ⟨t.line, t.col, none⟩), []) := by
  intro ts
  induction ts with
  | nil => intro i; rfl
  | cons t ts ih =>
    intro i
    have := runFrom_cons_ok md039 () false () () () i t ts _ [] _ [] (next039_scan i t) (ih (i + 1))
    rw [this, List.filter_cons]
    by_cases h : trig039 t = true <;> simp [h]

theorem next038_scan (i : Nat) (t : Tok) (hne : t.kind = .codeSpan → t.text ≠ []) :
    next038 () false () i t = .ok ((), if trig038 t then [⟨t.line, t.col, none⟩] else [], []) := by
  unfold next038 trig038
  by_cases hk : t.kind = .codeSpan
  · have hne' := hne hk
    rw [hk]
    simp only [decide_true, Bool.true_and]
    cases hp : pad038 t.text with
    | none =>
      unfold pad038 at hp
      split at hp <;> simp_all
    | some p =>
      obtain ⟨l, tr⟩ := p
      cases l <;> cases tr <;> simp
  · split
    · rename_i h; exact absurd h hk
    · simp [hk]

theorem md038_runFrom_scan : ∀ (ts : List Tok) (i : Nat), (∀ t ∈ ts, t.kind = .codeSpan → t.text ≠ []) →
    runFrom md038 () false () i ts = .ok ((), (ts.filter trig038).map (fun t => ⟨t.line, t.col, none⟩), []) := by
  intro ts
  induction ts with
  | nil => intro i _; rfl
  | cons t ts ih =>
    intro i hne
    have := runFrom_cons_ok md038 () false () () () i t ts _ [] _ [] (next038_scan i t (hne t List.mem_cons_self))
      (ih (i + 1) (fun u hu => hne u (List.mem_cons_of_mem _ hu)))
    rw [this, List.filter_cons]
    by_cases h : trig038 t = true <;> simp [h]

end Verif.Model.TokenRules
