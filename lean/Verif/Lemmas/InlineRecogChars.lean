/-
  Character classes: the faithful models test membership in the Python constant strings (`string.ascii_letters` …),
  the reference model (LeanMark) tests code-point ranges.  Both are the same sets; one generic lemma reduces each
  equality to a finite check over the 128 ASCII code points.
-/
import Verif.Model.InlineRecog
import Verif.Model.LeanMark.Inline
namespace Verif.Model.InlineRecog
open Verif.Model.Recognisers
open Verif.Model (LeanMark.isAlpha LeanMark.isAlnum LeanMark.isDigit LeanMark.isUpper LeanMark.isHexDigit LeanMark.isAsciiPunct
  LeanMark.isWsChar LeanMark.isAttrStart LeanMark.isAttrChar LeanMark.isUnqChar LeanMark.isSchemeChar LeanMark.isEmailLocalChar)

theorem char_eq_of_toNat {c d : Char} (h : c.toNat = d.toNat) : c = d := by
  apply Char.ext
  apply UInt32.toNat_inj.mp
  exact h

theorem beq_toNat (c d : Char) : (c == d) = (c.toNat == d.toNat) := by
  by_cases h : c = d
  · subst h; rw [beq_self_eq_true, beq_self_eq_true]
  · have h2 : c.toNat ≠ d.toNat := fun e => h (char_eq_of_toNat e)
    rw [beq_eq_false_iff_ne.mpr h, beq_eq_false_iff_ne.mpr h2]

theorem contains_toNat (l : Str) (c : Char) : l.contains c = (l.map Char.toNat).contains c.toNat := by
  induction l with
  | nil => rfl
  | cons d r ih => rw [List.contains_cons, List.map_cons, List.contains_cons, ih, beq_toNat]

/-- a list of ASCII characters and a predicate on code points that is false from 128 on agree on every character as soon as
they agree on the 128 ASCII code points -/
theorem contains_eq_pred (l : Str) (P : Nat → Bool)
    (hl : (l.map Char.toNat).all (· < 128) = true)
    (hP : ∀ n, 128 ≤ n → P n = false)
    (hfin : ∀ n : Fin 128, (l.map Char.toNat).contains n.val = P n.val) (c : Char) :
    l.contains c = P c.toNat := by
  rw [contains_toNat]
  by_cases h : c.toNat < 128
  · exact hfin ⟨c.toNat, h⟩
  · rw [hP _ (by omega)]
    rw [List.all_eq_true] at hl
    cases hc : (l.map Char.toNat).contains c.toNat with
    | false => rfl
    | true =>
      have := hl _ (List.contains_iff_mem.mp hc)
      simp at this; omega

/-! ## the instances -/

def nAlpha (n : Nat) : Bool := (65 ≤ n && n ≤ 90) || (97 ≤ n && n ≤ 122)
def nDigit (n : Nat) : Bool := 48 ≤ n && n ≤ 57
def nAlnum (n : Nat) : Bool := nAlpha n || nDigit n

theorem isAlpha_nat (c : Char) : LeanMark.isAlpha c = nAlpha c.toNat := by
  simp only [LeanMark.isAlpha, LeanMark.isUpper, LeanMark.isLower, Char.le_def, nAlpha]; rfl
theorem isDigit_nat (c : Char) : LeanMark.isDigit c = nDigit c.toNat := by
  simp only [LeanMark.isDigit, Char.le_def, nDigit]; rfl
theorem isUpper_nat (c : Char) : LeanMark.isUpper c = (65 ≤ c.toNat && c.toNat ≤ 90) := by
  simp only [LeanMark.isUpper, Char.le_def]; rfl
theorem isAlnum_nat (c : Char) : LeanMark.isAlnum c = nAlnum c.toNat := by
  simp only [LeanMark.isAlnum, isAlpha_nat, isDigit_nat, nAlnum]
theorem beq_nat (c : Char) (d : Char) : (c == d) = (c.toNat == d.toNat) := beq_toNat c d

theorem asciiLetters_eq (c : Char) : asciiLetters.contains c = LeanMark.isAlpha c := by
  rw [isAlpha_nat]
  exact contains_eq_pred asciiLetters nAlpha (by decide) (by intro n h; simp [nAlpha]; omega) (by decide) c

theorem asciiUpper_eq (c : Char) : asciiUpper.contains c = LeanMark.isUpper c := by
  rw [isUpper_nat]
  exact contains_eq_pred asciiUpper (fun n => 65 ≤ n && n ≤ 90) (by decide) (by intro n h; simp; omega) (by decide) c

theorem digitChars_eq (c : Char) : digitChars.contains c = LeanMark.isDigit c := by
  rw [isDigit_nat]
  exact contains_eq_pred digitChars nDigit (by decide) (by intro n h; simp [nDigit]; omega) (by decide) c

theorem alnum_eq (c : Char) : (asciiLetters ++ digitChars).contains c = LeanMark.isAlnum c := by
  rw [isAlnum_nat]
  exact contains_eq_pred _ nAlnum (by decide) (by intro n h; simp [nAlnum, nAlpha, nDigit]; omega) (by decide) c

theorem alnumChars_eq (c : Char) : alnumChars.contains c = LeanMark.isAlnum c := by
  rw [isAlnum_nat]
  exact contains_eq_pred _ nAlnum (by decide) (by intro n h; simp [nAlnum, nAlpha, nDigit]; omega) (by decide) c

theorem hexDigitChars_eq (c : Char) : hexDigitChars.contains c = LeanMark.isHexDigit c := by
  have : LeanMark.isHexDigit c = (fun n => nDigit n || (97 ≤ n && n ≤ 102) || (65 ≤ n && n ≤ 70)) c.toNat := by
    simp only [LeanMark.isHexDigit, isDigit_nat, Char.le_def]; rfl
  rw [this]
  exact contains_eq_pred hexDigitChars (fun n => nDigit n || (97 ≤ n && n ≤ 102) || (65 ≤ n && n ≤ 70)) (by decide)
    (by intro n h; simp [nDigit]; omega) (by decide) c

theorem tagNameChars_eq (c : Char) : tagNameChars.contains c = (LeanMark.isAlnum c || c == '-') := by
  rw [isAlnum_nat, beq_nat]
  exact contains_eq_pred _ (fun n => nAlnum n || n == 45) (by decide) (by intro n h; simp [nAlnum, nAlpha, nDigit]; omega) (by decide) c

theorem alnumDashChars_eq (c : Char) : alnumDashChars.contains c = (LeanMark.isAlnum c || c == '-') := by
  rw [isAlnum_nat, beq_nat]
  exact contains_eq_pred _ (fun n => nAlnum n || n == 45) (by decide) (by intro n h; simp [nAlnum, nAlpha, nDigit]; omega) (by decide) c

theorem attrNameStart_eq (c : Char) : attrNameStart.contains c = LeanMark.isAttrStart c := by
  unfold LeanMark.isAttrStart
  rw [isAlpha_nat, beq_nat, beq_nat]
  exact contains_eq_pred _ (fun n => nAlpha n || n == 95 || n == 58) (by decide) (by intro n h; simp [nAlpha]; omega) (by decide) c

theorem attrNameChars_eq (c : Char) : attrNameChars.contains c = LeanMark.isAttrChar c := by
  unfold LeanMark.isAttrChar
  rw [isAlnum_nat, beq_nat, beq_nat, beq_nat, beq_nat]
  exact contains_eq_pred _ (fun n => nAlnum n || n == 95 || n == 46 || n == 58 || n == 45) (by decide)
    (by intro n h; simp [nAlnum, nAlpha, nDigit]; omega) (by decide) c

theorem asciiWs_eq (c : Char) : asciiWs.contains c = LeanMark.isWsChar c := by
  unfold LeanMark.isWsChar
  rw [beq_nat, beq_nat, beq_nat, beq_nat, beq_nat, beq_nat]
  exact contains_eq_pred _ (fun n => n == 32 || n == 9 || n == 10 || n == 11 || n == 12 || n == 13) (by decide)
    (by intro n h; simp; omega) (by decide) c

theorem unqStop_eq (c : Char) : (!unqStop.contains c) = LeanMark.isUnqChar c := by
  unfold LeanMark.isUnqChar
  rw [← asciiWs_eq]
  congr 1
  rw [beq_nat, beq_nat, beq_nat, beq_nat, beq_nat, beq_nat, contains_toNat asciiWs]
  exact contains_eq_pred _ (fun n => (asciiWs.map Char.toNat).contains n || n == 34 || n == 39 || n == 61 || n == 60 || n == 62 || n == 96)
    (by decide) (by intro n h; simp [asciiWs]; omega) (by decide) c

theorem schemeChars_eq (c : Char) : schemeChars.contains c = LeanMark.isSchemeChar c := by
  unfold LeanMark.isSchemeChar
  rw [isAlnum_nat, beq_nat, beq_nat, beq_nat]
  exact contains_eq_pred _ (fun n => nAlnum n || n == 43 || n == 46 || n == 45) (by decide)
    (by intro n h; simp [nAlnum, nAlpha, nDigit]; omega) (by decide) c

theorem backslashPunct_eq (c : Char) : backslashPunct.contains c = LeanMark.isAsciiPunct c := by
  unfold LeanMark.isAsciiPunct
  exact contains_eq_pred _ (fun n => (33 ≤ n && n ≤ 47) || (58 ≤ n && n ≤ 64) || (91 ≤ n && n ≤ 96) || (123 ≤ n && n ≤ 126)) (by decide)
    (by intro n h; simp; omega) (by decide) c

end Verif.Model.InlineRecog
