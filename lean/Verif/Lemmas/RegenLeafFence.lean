/-
  The closed fenced code block of `RegenLeafSpec.fenceToks`: `str(count)` read back by `int()`, the end token's `extra_data`
  split at `:`, and the block's regeneration.
-/
import Verif.Lemmas.RegenLeafBlocks
import Verif.Lemmas.RegenLeafTotal
namespace Verif.Lemmas.RegenLeaf
open Verif.Model Verif.Model.RegenLeaf Verif.Model.RegenLeafSpec
open Verif.Model.Codec (Str plain SENT_START SENT_END WSPLIT)
open Verif.Model.Lines (splitOn joinOn splitNL joinNL NL)
open Verif.Lemmas.Lines

/-! decimal numbers -/

def digitsVal (acc : Nat) (xs : Str) : Nat := xs.foldl (fun a c => a * 10 + (c.toNat - 48)) acc

theorem digitChar_facts (k : Nat) (hk : k < 10) :
    isD (Char.ofNat (48 + k)) = true ∧ digitVal (Char.ofNat (48 + k)) = some k ∧ (Char.ofNat (48 + k)).toNat - 48 = k ∧ Char.ofNat (48 + k) ≠ ':' := by
  have : k = 0 ∨ k = 1 ∨ k = 2 ∨ k = 3 ∨ k = 4 ∨ k = 5 ∨ k = 6 ∨ k = 7 ∨ k = 8 ∨ k = 9 := by omega
  rcases this with rfl | rfl | rfl | rfl | rfl | rfl | rfl | rfl | rfl | rfl <;> exact ⟨by decide, by decide, by decide, by decide⟩

theorem intDigits_snoc (xs : Str) (k : Nat) (hk : k < 10) : ∀ (acc : Nat) (pd : Bool) (v : Nat), xs ≠ [] → intDigits xs acc pd = some v →
    intDigits (xs ++ [Char.ofNat (48 + k)]) acc pd = some (v * 10 + k) := by
  induction xs with
  | nil => intro _ _ _ h; exact absurd rfl h
  | cons c cs ih =>
    intro acc pd v _ hv
    rw [intDigits] at hv
    rw [List.cons_append, intDigits]
    by_cases hu : (c == '_') = true
    · rw [if_pos hu] at hv ⊢
      by_cases hp : (pd && !cs.isEmpty) = true
      · rw [if_pos hp] at hv
        have hcs : cs ≠ [] := by
          intro e; subst e; simp at hp
        have : (pd && !(cs ++ [Char.ofNat (48 + k)]).isEmpty) = true := by
          simp only [Bool.and_eq_true] at hp ⊢; exact ⟨hp.1, by simp⟩
        rw [if_pos this]
        exact ih acc false v hcs hv
      · rw [if_neg hp] at hv; cases hv
    · rw [if_neg hu] at hv ⊢
      cases hd : digitVal c with
      | none => rw [hd] at hv; cases hv
      | some d =>
        rw [hd] at hv
        simp only at hv ⊢
        cases cs with
        | nil =>
          simp only [intDigits, if_true, Option.some.injEq] at hv
          subst hv
          have hf := digitChar_facts k hk
          simp only [List.nil_append, intDigits]
          have hne : (Char.ofNat (48 + k) == '_') = false := by
            have : k = 0 ∨ k = 1 ∨ k = 2 ∨ k = 3 ∨ k = 4 ∨ k = 5 ∨ k = 6 ∨ k = 7 ∨ k = 8 ∨ k = 9 := by omega
            rcases this with rfl | rfl | rfl | rfl | rfl | rfl | rfl | rfl | rfl | rfl <;> decide
          rw [hne]
          simp only [Bool.false_eq_true, if_false, hf.2.1, if_true]
        | cons e es => exact ih (acc * 10 + d) true v (by simp) hv

theorem decimalAux_spec : ∀ (fuel n : Nat), n < 10 ^ (fuel + 1) → decimalAux (fuel + 1) n ≠ [] ∧
    intDigits (decimalAux (fuel + 1) n) 0 false = some n ∧ (decimalAux (fuel + 1) n).all isD = true
  | fuel, n, h => by
    rw [decimalAux]
    by_cases h10 : n < 10
    · rw [if_pos h10]
      have hf := digitChar_facts n h10
      have hne : (Char.ofNat (48 + n) == '_') = false := by
        have : n = 0 ∨ n = 1 ∨ n = 2 ∨ n = 3 ∨ n = 4 ∨ n = 5 ∨ n = 6 ∨ n = 7 ∨ n = 8 ∨ n = 9 := by omega
        rcases this with rfl | rfl | rfl | rfl | rfl | rfl | rfl | rfl | rfl | rfl <;> decide
      refine ⟨by simp, ?_, by simp [hf.1]⟩
      simp only [intDigits, hne, Bool.false_eq_true, if_false, hf.2.1, if_true, Nat.zero_mul, Nat.zero_add]
    · rw [if_neg h10]
      have hlt : n / 10 < 10 ^ fuel := by
        rw [Nat.pow_succ] at h
        exact Nat.div_lt_of_lt_mul (by rw [Nat.mul_comm]; exact h)
      obtain ⟨f', rfl⟩ : ∃ f', fuel = f' + 1 := by
        cases fuel with
        | zero => simp at h; omega
        | succ f' => exact ⟨f', rfl⟩
      obtain ⟨hne, hv, hall⟩ := decimalAux_spec f' (n / 10) hlt
      have hk : n % 10 < 10 := Nat.mod_lt _ (by decide)
      refine ⟨by simp, ?_, ?_⟩
      · rw [intDigits_snoc _ _ hk 0 false _ hne hv]
        congr 1; omega
      · simp only [List.all_append, hall, Bool.true_and, List.all_cons, List.all_nil, Bool.and_true]
        exact (digitChar_facts _ hk).1

theorem lt_ten_pow (n : Nat) : n < 10 ^ (n + 1) := by
  have h1 : n < 2 ^ n := Nat.lt_two_pow_self
  have h2 : 2 ^ n ≤ 10 ^ n := Nat.pow_le_pow_left (by decide) n
  have h3 : 10 ^ n ≤ 10 ^ (n + 1) := Nat.pow_le_pow_right (by decide) (by omega)
  omega

theorem pyInt_decimal (n : Nat) : pyInt (decimal n) = .ok (Int.ofNat n) := by
  obtain ⟨hne, hv, hall⟩ := decimalAux_spec n n (lt_ten_pow n)
  unfold decimal pyInt
  rw [stripIntWs_digits _ hall]
  split
  · next ds heq =>
    have : isD '-' = true := by rw [heq] at hall; simp only [List.all_cons, Bool.and_eq_true] at hall; exact hall.1
    exact absurd this (by decide)
  · next ds heq =>
    have : isD '+' = true := by rw [heq] at hall; simp only [List.all_cons, Bool.and_eq_true] at hall; exact hall.1
    exact absurd this (by decide)
  · rw [hv]

theorem decimal_no_colon (n : Nat) : ':' ∉ decimal n := by
  obtain ⟨_, _, hall⟩ := decimalAux_spec n n (lt_ten_pow n)
  intro hm
  have := List.all_eq_true.mp hall ':' hm
  exact absurd this (by decide)

/-! fenced code block -/

theorem splitOn_single (sep : Char) (l : Str) (h : sep ∉ l) : splitOn sep l = [l] := splitOn_of_noSep sep l h

theorem endExtraData_split (lead trail cnt : Str) (h1 : ':' ∉ lead) (h2 : ':' ∉ trail) (h3 : ':' ∉ cnt) :
    splitOn ':' (endExtraData lead (some (trail ++ ':' :: cnt)) false true) = [lead, trail, cnt, "False".toList] := by
  unfold endExtraData
  simp only [Bool.false_eq_true, if_false, if_true, List.cons_append, List.nil_append]
  have hF : ':' ∉ "False".toList := by decide
  show splitOn ':' (joinOn ':' [lead, trail ++ ':' :: cnt, "False".toList]) = _
  rw [joinOn_cons_cons, joinOn_cons_cons]
  simp only [joinOn]
  rw [splitOn_append_sep, splitOn_append_sep, splitOn_append_sep, splitOn_of_noSep _ _ h1, splitOn_of_noSep _ _ h2,
    splitOn_of_noSep _ _ h3, splitOn_of_noSep _ _ hF]
  rfl

/-- a closed fenced block: opening line, content, closing line -/
theorem closed_fence (f : LeafFields.FenceOpenFields) (body : Option (Str × Str)) (g : LeafFields.FenceCloseFields)
    (hb : ∀ ew tt, body = some (ew, tt) → plain ew = true ∧ plain tt = true) (h1 : ':' ∉ g.lead) (h2 : ':' ∉ g.trail) :
    Closed (fenceToks f body g)
      (f.reassemble ++ [NL] ++ (match body with | none => [] | some (ew, tt) => ew ++ tt ++ [NL]) ++ g.reassemble f.char ++ [NL]) := by
  intro more c prev hc
  have hs1 : (c.push .fcode).stack = .fcode :: [] := by simp [Ctx.push, hc]
  have hp1 : ∀ b, process c prev b (.fcode f.lead [f.char] f.count f.wsBeforeInfo [] f.info [] f.afterInfo) =
      .ok (f.reassemble ++ [NL], c.push .fcode) := by
    intro b
    simp only [process, hFcode, repeatString_char', ne_eq, not_true_eq_false, if_false, LeafFields.FenceOpenFields.reassemble, LeafFields.rep]
  have hxd := endExtraData_split g.lead g.trail (decimal g.count) h1 h2 (decimal_no_colon g.count)
  have hend : ∀ (p : Tok) b, process (c.push .fcode) (some p) b
      (.endFcode g.lead (some (endExtraData g.lead (some (g.trail ++ ':' :: decimal g.count)) false true)) false [f.char]) =
      .ok ((if p.isBlank || p.isFcode then [] else [NL]) ++ g.lead ++ List.replicate g.count f.char ++ g.trail ++ [NL], c) := by
    intro p b
    simp only [process, hEndFcode, pop_of_stack hs1, ctx_restore c hc, Bool.not_false, if_true, Option.map_some, hxd, pyInt_decimal,
      repeatString]
    rfl
  cases body with
  | none =>
    refine ⟨[f.reassemble ++ [NL], g.lead ++ List.replicate g.count f.char ++ g.trail ++ [NL]], c, ?_, hc, ?_⟩
    · simp only [fenceToks, List.append_nil, List.nil_append, List.cons_append]
      rw [runMore_cons_ok (hp1 _), runMore_cons_ok (hend _ _)]
      simp [Tok.isFcode, runMore]
    · simp [LeafFields.FenceCloseFields.reassemble, LeafFields.rep]
  | some bd =>
    obtain ⟨ew, tt⟩ := bd
    obtain ⟨hpe, hpt⟩ := hb ew tt rfl
    have hp2 : ∀ p b, process (c.push .fcode) p b (.text tt ew none) = .ok (ew ++ tt, c.push .fcode) := by
      intro p b; simp only [process]; exact hText_fcode _ _ hs1 _ _ _ hpt hpe
    refine ⟨[f.reassemble ++ [NL], ew ++ tt, [NL] ++ g.lead ++ List.replicate g.count f.char ++ g.trail ++ [NL]], c, ?_, hc, ?_⟩
    · simp only [fenceToks, List.cons_append, List.nil_append]
      rw [runMore_cons_ok (hp1 _), runMore_cons_ok (hp2 _ _), runMore_cons_ok (hend _ _)]
      simp [Tok.isFcode, Tok.isBlank, runMore]
    · simp [LeafFields.FenceCloseFields.reassemble, LeafFields.rep]

end Verif.Lemmas.RegenLeaf
