/-
  Lemmas for `html_start_spec6_partial` (Props/LeafBlocks2b): the type-6 test of `__check_for_normal_html_blocks` (the tag
  table, the `/` of an end tag, the adjusted name) against the specification's start condition 6.
-/
import Verif.Lemmas.LeafBlocks2bNormal
namespace Verif.Model.LeafBlocks2
open Verif.Model.Recognisers Verif.Model.InlineRecog
open Verif.Model.HtmlBlockSpec (cond1 cond2 cond3 cond4 cond5 cond6 gfm029 cm031 startOfText startOfLine indentOf beginsCI follow1 follow6 lower)

/-- the adjusted name of `__check_for_normal_html_blocks_adjust_tag` -/
def adjName (tag line : Str) (ci : Nat) : Str :=
  let t1 := if tag.head? == some '/' then tag.drop 1 else tag
  if (line[ci]? == some '>') && t1.getLast? == some '/' then t1.dropLast else t1

theorem adjustTag_eq (tag line : Str) (ci : Nat) :
    adjustTag tag line ci = .ok (adjName tag line ci, tag.head? == some '/') := by
  unfold adjustTag adjName
  rw [guardedIs_eq]
  cases line[ci]? <;> simp

theorem checkNormal_six (tag line : Str) (ci : Nat) (hb : block1Names.contains tag = false) :
    checkNormal tag line ci = .ok (some 6) ↔ block6Names.contains (adjName tag line ci) = true := by
  unfold checkNormal
  rw [if_neg (by rw [hb]; exact Bool.false_ne_true), adjustTag_eq]
  simp only
  cases h6 : block6Names.contains (adjName tag line ci) with
  | true => simp
  | false =>
    simp only [Bool.false_eq_true, if_false, iff_false]
    intro h
    split at h
    · split at h
      · cases h
      · next idx _ =>
        injection h with h
        split at h
        · rcases sevenTail_cases line idx with h7 | h7 <;> rw [h7] at h <;> cases h
        · cases h
    · split at h
      · cases h
      · cases h
      · cases h
      · next idx _ =>
        injection h with h
        rcases sevenTail_cases line idx with h7 | h7 <;> rw [h7] at h <;> cases h

/-- `is_html_block` answers kind 6 on a line indented by `k` spaces iff conditions 2–5 fail, the name is not a kind-1 name and the
adjusted name is in the kind-6 table -/
theorem determineType_six (k : Nat) (r : Str) (inPara : Bool) :
    (determineType (List.replicate k SP ++ '<' :: r) k inPara).map (Option.map (·.1)) = .ok (some 6) ↔
      (checkSpecial r 0 = none ∧ block1Names.contains (pyLower (r.takeWhile p1)) = false ∧
        block6Names.contains (adjName (pyLower (r.takeWhile p1)) (List.replicate k SP ++ '<' :: r)
          (k + 1 + (r.takeWhile p1).length)) = true) := by
  cases hcs : checkSpecial r 0 with
  | some t' =>
    rw [determineType_special _ _ _ t' (by rw [checkSpecial_line]; exact hcs)]
    have := checkSpecial_range r t' hcs
    simp [Except.map]; omega
  | none =>
    rw [determineType_normal k r inPara hcs]
    cases hb : block1Names.contains (pyLower (r.takeWhile p1)) with
    | true =>
      rw [checkNormal_block1 _ _ _ hb]
      simp [Except.map]
    | false =>
      simp only [true_and]
      rw [← checkNormal_six _ _ _ hb]
      cases hn : checkNormal (pyLower (r.takeWhile p1)) (List.replicate k SP ++ '<' :: r) (k + 1 + (r.takeWhile p1).length) with
      | error e => simp [Except.map]
      | ok o =>
        cases o with
        | none => simp [Except.map]
        | some t =>
          simp only
          split
          · next h7 =>
            simp only [Bool.and_eq_true, beq_iff_eq] at h7
            simp [Except.map]; omega
          · simp [Except.map]

/-! ## names: `str.lower` against ASCII case-insensitivity, U+212A excluded by hypothesis -/

theorem lower_iff2 (c x : Char) (hx : p1 x = true) (hc : c ≠ KELVIN) :
    (p1 c = true ∧ pyLowerChar c = x) ↔ (lower c == x) = true := by
  by_cases hu : 65 ≤ c.toNat ∧ c.toNat ≤ 90
  · have e1 : pyLowerChar c = Char.ofNat (c.toNat + 32) := by unfold pyLowerChar; rw [if_pos hu]
    have e2 : lower c = Char.ofNat (c.toNat + 32) := by
      unfold lower HtmlBlockSpec.isUpper; rw [if_pos (by simp [hu])]
    have hp : p1 c = true := by
      rw [p1_iff]; constructor <;> (intro h; subst h; exact absurd hu (by decide))
    rw [e1, e2]; simp [hp]
  · have e2 : lower c = c := by
      unfold lower HtmlBlockSpec.isUpper; rw [if_neg]
      simp only [Bool.and_eq_true, decide_eq_true_eq]; exact hu
    have e1 : pyLowerChar c = c := by
      unfold pyLowerChar; rw [if_neg hu, if_neg]
      simpa using hc
    rw [e1, e2]
    constructor
    · rintro ⟨_, h⟩; simp [h]
    · intro h
      have := eq_of_beq h
      subst this
      exact ⟨hx, rfl⟩

theorem takeWhile_name2 (n : Str) (hn : ∀ x ∈ n, p1 x = true) : ∀ r : Str, KELVIN ∉ r →
    ((pyLower (r.takeWhile p1) = n) ↔ (beginsCI n r = true ∧ stop1 (r.drop n.length) = true)) := by
  induction n with
  | nil =>
    intro r _
    cases r with
    | nil => simp [pyLower, beginsCI, stop1]
    | cons c cs =>
      simp only [List.takeWhile_cons, beginsCI, List.length_nil, List.drop_zero, stop1, true_and]
      by_cases hp : p1 c = true
      · simp [hp, pyLower]
      · simp [hp, pyLower]
  | cons x xs ih =>
    intro r hr
    cases r with
    | nil => simp [pyLower, beginsCI]
    | cons c cs =>
      have hx := hn x (List.mem_cons_self ..)
      have hcK : c ≠ KELVIN := fun e => hr (e ▸ List.mem_cons_self ..)
      have ih' := ih (fun y hy => hn y (List.mem_cons_of_mem _ hy)) cs (fun hm => hr (List.mem_cons_of_mem _ hm))
      have hc := lower_iff2 c x hx hcK
      simp only [List.takeWhile_cons, beginsCI, List.length_cons, List.drop_succ_cons, Bool.and_eq_true]
      by_cases hp : p1 c = true
      · rw [if_pos hp]
        simp only [pyLower, List.map_cons, List.cons.injEq]
        constructor
        · rintro ⟨h1, h2⟩
          obtain ⟨b, c'⟩ := ih'.mp h2
          exact ⟨⟨hc.mp ⟨hp, h1⟩, b⟩, c'⟩
        · rintro ⟨⟨h1, b⟩, c'⟩
          exact ⟨(hc.mpr h1).2, ih'.mpr ⟨b, c'⟩⟩
      · rw [if_neg hp]
        constructor
        · intro h; simp [pyLower] at h
        · rintro ⟨⟨h1, _⟩, _⟩; exact absurd (hc.mpr h1).1 hp

theorem upper_not_slash : ∀ c ∈ asciiUpper, pyLowerChar c ≠ '/' := by decide

theorem pyLowerChar_slash (c : Char) (h : pyLowerChar c = '/') : c = '/' := by
  by_cases hu : 65 ≤ c.toNat ∧ c.toNat ≤ 90
  · exfalso
    have hm : asciiUpper.contains c = true := by rw [isUpper_eq]; simp [HtmlBlockSpec.isUpper, hu]
    exact upper_not_slash c (List.contains_iff_mem.mp hm) h
  · unfold pyLowerChar at h
    rw [if_neg hu] at h
    split at h
    · exact absurd h (by decide)
    · exact h

theorem noSlash_getLast (u : Str) (h : '/' ∉ u) : ((pyLower u).getLast? == some '/') = false := by
  rw [beq_eq_false_iff_ne]
  intro e
  have hm : '/' ∈ pyLower u := List.mem_of_getLast? e
  unfold pyLower at hm
  obtain ⟨c, hc, hcl⟩ := List.mem_map.mp hm
  rw [pyLowerChar_slash c hcl] at hc
  exact h hc

/-- the text after the `/` of an end tag (the specification: "`<` or `</` followed by …") -/
def afterSlash : Str → Str
  | '/' :: x => x
  | r => r

/-- without a `/` inside the name the adjusted name is the lower-cased name after the optional leading `/` -/
theorem adjName_noSlash (r line : Str) (ci : Nat) (hs : '/' ∉ afterSlash r) :
    adjName (pyLower (r.takeWhile p1)) line ci = pyLower ((afterSlash r).takeWhile p1) := by
  have hsub : '/' ∉ (afterSlash r).takeWhile p1 := fun hm => hs ((List.takeWhile_sublist p1).subset hm)
  have hl := noSlash_getLast _ hsub
  by_cases h : ∃ x, r = '/' :: x
  · obtain ⟨x, rfl⟩ := h
    have e : afterSlash ('/' :: x) = x := rfl
    rw [e] at hl ⊢
    have hp : p1 '/' = true := by decide
    have hl' : pyLowerChar '/' = '/' := by decide
    unfold adjName
    simp only [List.takeWhile_cons, hp, if_true, pyLower, List.map_cons, hl', List.head?_cons, beq_self_eq_true,
      List.drop_succ_cons, List.drop_zero]
    unfold pyLower at hl
    rw [hl]; simp
  · have e : afterSlash r = r := by
      unfold afterSlash
      split
      · next x => exact absurd ⟨x, rfl⟩ h
      · rfl
    rw [e] at hl hs ⊢
    have hh : ((pyLower (r.takeWhile p1)).head? == some '/') = false := by
      rw [beq_eq_false_iff_ne]
      intro e2
      have hm : '/' ∈ pyLower (r.takeWhile p1) := List.mem_of_head? e2
      unfold pyLower at hm
      obtain ⟨c, hc, hcl⟩ := List.mem_map.mp hm
      rw [pyLowerChar_slash c hcl] at hc
      exact hs ((List.takeWhile_sublist p1).subset hc)
    unfold adjName
    simp only [hh, hl, Bool.and_false, Bool.false_eq_true, if_false]

theorem follow6_stop1 (b : Str) (h : TAB ∉ b) (hs : '/' ∉ b) : follow6 b = stop1 b := by
  cases b with
  | nil => rfl
  | cons c t =>
    have hc : c ≠ '\t' := by intro e; subst e; exact h (List.mem_cons_self ..)
    have hc2 : c ≠ '/' := by intro e; subst e; exact hs (List.mem_cons_self ..)
    have e1 : (c == '\t') = false := beq_eq_false_iff_ne.mpr hc
    have e2 : (c == '/') = false := beq_eq_false_iff_ne.mpr hc2
    simp [follow6, stop1, p1, HtmlBlockSpec.isSpTab, e1, e2]
    rfl

theorem block6_029 : gfm029.block6 = block6Names := by decide

theorem block6_p1 : ∀ n ∈ block6Names, ∀ x ∈ n, p1 x = true := by decide

theorem cond6_afterSlash (v : HtmlBlockSpec.Version) (r : Str) :
    cond6 v r = v.block6.any fun n => beginsCI n (afterSlash r) && follow6 ((afterSlash r).drop n.length) := by
  by_cases h : ∃ x, r = '/' :: x
  · obtain ⟨x, rfl⟩ := h; rfl
  · have e : afterSlash r = r := by
      unfold afterSlash
      split
      · next x => exact absurd ⟨x, rfl⟩ h
      · rfl
    rw [e]
    unfold cond6
    split
    · next x => exact absurd ⟨x, rfl⟩ h
    · rfl

/-- **closed form of start condition 6** (0.29) on a text without TAB, U+212A and `/` (other than the `/` of an end tag): the
lower-cased collected name is in the kind-6 table iff the specification's condition holds -/
theorem cond6_closed (r : Str) (hnt : TAB ∉ afterSlash r) (hK : KELVIN ∉ afterSlash r) (hs : '/' ∉ afterSlash r) :
    block6Names.contains (pyLower ((afterSlash r).takeWhile p1)) = cond6 gfm029 r := by
  rw [cond6_afterSlash, block6_029, Bool.eq_iff_iff, List.contains_iff_mem, List.any_eq_true]
  constructor
  · intro hm
    refine ⟨_, hm, ?_⟩
    have := (takeWhile_name2 _ (block6_p1 _ hm) (afterSlash r) hK).mp rfl
    rw [Bool.and_eq_true, follow6_stop1 _ (notMem_drop hnt _) (notMem_drop hs _)]
    exact this
  · rintro ⟨n, hn, h⟩
    rw [Bool.and_eq_true, follow6_stop1 _ (notMem_drop hnt _) (notMem_drop hs _)] at h
    have := (takeWhile_name2 n (block6_p1 n hn) (afterSlash r) hK).mpr h
    rw [this]; exact hn

theorem checkSpecial_none_iff (r : Str) :
    checkSpecial r 0 = none ↔ (cond2 r = false ∧ cond3 r = false ∧ cond4 gfm029 r = false ∧ cond5 r = false) := by
  rw [checkSpecial_closed]
  cases cond2 r <;> cases cond3 r <;> cases cond4 gfm029 r <;> cases cond5 r <;> simp

theorem startOfText_six (v : HtmlBlockSpec.Version) (r : Str) (ip : Bool) :
    startOfText v ('<' :: r) ip = some 6 ↔
      (cond1 v r = false ∧ cond2 r = false ∧ cond3 r = false ∧ cond4 v r = false ∧ cond5 r = false ∧ cond6 v r = true) := by
  simp only [startOfText]
  cases cond1 v r <;> cases cond2 r <;> cases cond3 r <;> cases cond4 v r <;> cases cond5 r <;> cases cond6 v r <;> simp

theorem mem_afterSlash {c : Char} {r : Str} (h : c ∈ afterSlash r) : c ∈ r := by
  unfold afterSlash at h
  split at h
  · exact List.mem_cons_of_mem _ h
  · exact h

end Verif.Model.LeafBlocks2
