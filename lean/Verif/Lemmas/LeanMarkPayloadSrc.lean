/-
  LeanMark — the payload lines of the block events are pieces of the source lines.

    PLineSrc doc pl     line `pl.line` of the document exists and, tab-expanded from column `pl.col0`, the text
                        `pl.text` is a prefix of what stands in the tab-expanded line from that column on
    L_payload_src       every payload line of every `leaf` event of `eventsR rd doc` satisfies `PLineSrc doc`
                        (paragraph and heading text, code lines, HTML lines, link reference definitions)

  With `L_inline_opener` (LeanMarkInlineOpener.lean) this ties the positions of the inline events of a paragraph
  or heading to the characters of the document (`charAt`), see Props/C05.lean.
  Proof: invariant `SInvB` over the sink, preserved by the raw operations and the `Core` primitives given that
  the lines they add satisfy `PLineSrc`; `openBlocks` / `stepLine` discharge that from the cursor invariant `CurOK`.
-/
import Verif.Lemmas.LeanMarkOpener
import Verif.Lemmas.LeanMarkInlineOpener
namespace Verif.Model.LeanMark

def PLineSrc (doc : List Line) (pl : PLine) : Prop :=
  ∃ l, doc[pl.line - 1]? = some l ∧ 1 ≤ pl.line ∧ detabFrom pl.col0 pl.text <+: (detab l).drop pl.col0

def Ev.payload : Ev → List PLine
  | .leaf _ _ _ pl => pl
  | _ => []

def OpenLeaf.lines : OpenLeaf → List PLine
  | .none => []
  | .para ls => ls
  | .fenced _ _ _ _ _ ls => ls
  | .indented _ ls pend => ls ++ pend
  | .html _ _ ls => ls

structure SInvB (doc : List Line) (r : RawCore) : Prop where
  out : ∀ e ∈ r.outRev, ∀ pl ∈ e.payload, PLineSrc doc pl
  lf : ∀ pl ∈ r.leaf.lines, PLineSrc doc pl

variable {doc : List Line}

/-! ## raw operations -/
theorem SInvB.emit {r : RawCore} (h : SInvB doc r) {e : Ev} (st : List OpenC) {lf : OpenLeaf}
    (he : ∀ pl ∈ e.payload, PLineSrc doc pl) (hl : ∀ pl ∈ lf.lines, PLineSrc doc pl) : SInvB doc (r.emit e st lf) := by
  refine ⟨?_, hl⟩
  intro x hx
  rcases List.mem_cons.mp hx with rfl | hx
  · exact he
  · exact h.out x hx

theorem SInvB.emit0 {r : RawCore} (h : SInvB doc r) {e : Ev} (st : List OpenC)
    (he : ∀ pl ∈ e.payload, PLineSrc doc pl) : SInvB doc (r.emit e st .none) :=
  h.emit st he (by intro pl hpl; cases hpl)

theorem SInvB.emitLeaf {r : RawCore} (h : SInvB doc r) (k : LeafKind) (p : Pos) (e : Nat) {pl : List PLine}
    (he : ∀ l ∈ pl, PLineSrc doc l) : SInvB doc (r.emitLeaf k p e pl) :=
  h.emit0 _ he

theorem peelEmit_src : ∀ (fuel : Nat) (r : RawCore) (ls : List PLine),
    SInvB doc r → r.leaf = .none → (∀ pl ∈ ls, PLineSrc doc pl) →
    SInvB doc (peelEmit fuel r ls).1 ∧ (peelEmit fuel r ls).1.leaf = .none ∧
    ∀ pl ∈ (peelEmit fuel r ls).2, PLineSrc doc pl
  | 0, r, ls, h, hn, hls => ⟨h, hn, hls⟩
  | fuel + 1, r, ls, h, hn, hls => by
    unfold peelEmit
    split
    · exact ⟨h, hn, by simp⟩
    · next l0 tl =>
      split
      · exact ⟨h, hn, hls⟩
      · simp only
        split
        · exact ⟨h, hn, hls⟩
        · next lab dest title nchars _ =>
          have ih := peelEmit_src fuel
            (r.emitLeaf (.lrd lab dest title) ⟨l0.line, l0.col0 + 1⟩
              (lastLineOf ((l0 :: tl).take (linesCovered (joinLines ((l0 :: tl).map (·.text))) nchars)).reverse l0.line)
              ((l0 :: tl).take (linesCovered (joinLines ((l0 :: tl).map (·.text))) nchars)))
            ((l0 :: tl).drop (linesCovered (joinLines ((l0 :: tl).map (·.text))) nchars))
            (h.emitLeaf _ _ _ (fun l hl => hls l (List.mem_of_mem_take hl))) rfl
            (fun pl hpl => hls pl (List.mem_of_mem_drop hpl))
          exact ih

theorem SInvB.closeLeaf {r : RawCore} (h : SInvB doc r) (fe : Option Nat) (sx : Option (Nat × Nat)) :
    SInvB doc (r.closeLeaf fe sx) ∧ (r.closeLeaf fe sx).leaf = .none := by
  have hL := h.lf
  unfold RawCore.closeLeaf
  split
  · next hlf => exact ⟨h, hlf⟩
  · next ls hlf =>
    rw [hlf] at hL
    have hp := peelEmit_src (doc := doc) ls.length { r with leaf := .none } ls.reverse
      ⟨h.out, by intro pl hpl; cases hpl⟩ rfl (fun pl hpl => hL pl (List.mem_reverse.mp hpl))
    generalize peelEmit ls.length { r with leaf := .none } ls.reverse = res at hp
    obtain ⟨r1, rest⟩ := res
    simp only at hp ⊢
    split
    · exact ⟨hp.1, hp.2.1⟩
    · split
      · exact ⟨hp.1.emitLeaf _ _ _ hp.2.2, rfl⟩
      · exact ⟨hp.1.emitLeaf _ _ _ hp.2.2, rfl⟩
  · next pos ch len ind info ls hlf =>
    rw [hlf] at hL
    exact ⟨h.emitLeaf _ _ _ (fun l hl => hL l (List.mem_reverse.mp hl)), rfl⟩
  · next pos ls pend hlf =>
    rw [hlf] at hL
    exact ⟨h.emitLeaf _ _ _ (fun l hl => hL l (List.mem_append_left _ (List.mem_reverse.mp hl))), rfl⟩
  · next pos kind ls hlf =>
    rw [hlf] at hL
    exact ⟨h.emitLeaf _ _ _ (fun l hl => hL l (List.mem_reverse.mp hl)), rfl⟩

theorem SInvB.mapMeta {r : RawCore} (h : SInvB doc r) (f : Nat → OpenC → Meta) : SInvB doc (r.mapMeta f) :=
  ⟨h.out, h.lf⟩

theorem SInvB.markChild {r : RawCore} (h : SInvB doc r) : SInvB doc r.markChild := h.mapMeta _

theorem SInvB.dropList {r : RawCore} (h : SInvB doc r) (hn : r.leaf = .none) :
    SInvB doc r.dropList ∧ r.dropList.leaf = .none := by
  unfold RawCore.dropList
  split
  · split
    · exact ⟨h.emit0 _ (by intro pl hpl; cases hpl), rfl⟩
    · exact ⟨h, hn⟩
  · exact ⟨h, hn⟩

theorem SInvB.ready {r : RawCore} (h : SInvB doc r) : SInvB doc r.ready ∧ r.ready.leaf = .none := by
  have h1 := h.closeLeaf none none
  have h2 := h1.1.dropList h1.2
  exact ⟨h2.1.markChild, h2.2⟩

theorem nopayload {e : Ev} (h : e.payload = []) : ∀ pl ∈ e.payload, PLineSrc doc pl := by
  rw [h]; intro pl hpl; cases hpl

/-! ## the primitives of `Core` -/
namespace Core
variable {n : Nat}

def Src (doc : List Line) (c : Core n) : Prop := SInvB doc c.raw

theorem Src.init : (Core.init).Src doc := ⟨by simp [Core.init], by simp [Core.init, OpenLeaf.lines]⟩
theorem Src.nextLine {c : Core n} (h : c.Src doc) : c.nextLine.Src doc := h
theorem Src.closeLeaf {c : Core n} (h : c.Src doc) : c.closeLeaf.Src doc := (SInvB.closeLeaf h none none).1
theorem Src.closeFence {c : Core (n + 1)} (h : c.Src doc) : c.closeFence.Src doc :=
  (SInvB.closeLeaf h (some (n + 1)) none).1
theorem Src.closeSetext {c : Core (n + 1)} (h : c.Src doc) (lvl : Nat) : (c.closeSetext lvl).Src doc :=
  (SInvB.closeLeaf h none (some (lvl, n + 1))).1

theorem Src.pushQuote {c : Core (n + 1)} (h : c.Src doc) (col0 : Nat) : (c.pushQuote col0).Src doc :=
  (SInvB.ready h).1.emit0 _ (nopayload rfl)

theorem Src.pushItem {c : Core (n + 1)} (h : c.Src doc) (ord : Bool) (delim : Char) (start col0 : Nat) (m : Meta) :
    (c.pushItem ord delim start col0 m).Src doc := by
  unfold Core.pushItem Core.Src
  simp only
  split
  · exact (SInvB.closeLeaf h none none).1.emit0 _ (nopayload rfl)
  · exact ((SInvB.ready h).1.emit0 _ (nopayload rfl)).emit0 _ (nopayload rfl)

theorem Src.popC {c : Core n} (h : c.Src doc) : c.popC.Src doc := by
  unfold Core.popC Core.Src
  simp only
  split
  · exact (SInvB.closeLeaf h none none).1
  · exact (SInvB.closeLeaf h none none).1.emit0 _ (nopayload rfl)

theorem Src.emitLeaf {c : Core (n + 1)} (h : c.Src doc) (k : LeafKind) (col0 : Nat)
    {payload : List (Nat × List Char)} (hp : ∀ q ∈ payload, PLineSrc doc ⟨n + 1, q.1, q.2⟩) :
    (c.emitLeaf k col0 payload).Src doc :=
  (SInvB.ready h).1.emitLeaf _ _ _ (by
    intro l hl
    obtain ⟨q, hq, rfl⟩ := List.mem_map.mp hl
    exact hp q hq)

theorem Src.startWith {c : Core (n + 1)} (h : c.Src doc) {lf : OpenLeaf}
    (hlf : ∀ last, last ≤ n + 1 → LeafOK (n + 1) last lf) (hl : ∀ pl ∈ lf.lines, PLineSrc doc pl) :
    (c.startWith lf hlf).Src doc :=
  ⟨(SInvB.ready h).1.out, hl⟩

theorem Src.startPara {c : Core (n + 1)} (h : c.Src doc) {col0 : Nat} {text : List Char}
    (hp : PLineSrc doc ⟨n + 1, col0, text⟩) : (c.startPara col0 text).Src doc :=
  Src.startWith h _ (by intro pl hpl; simp only [OpenLeaf.lines, List.mem_singleton] at hpl; subst hpl; exact hp)

theorem Src.startFenced {c : Core (n + 1)} (h : c.Src doc) (col0 : Nat) (ch : Char) (len ind : Nat)
    (info : List Char) : (c.startFenced col0 ch len ind info).Src doc :=
  Src.startWith h _ (by intro pl hpl; cases hpl)

theorem Src.startIndented {c : Core (n + 1)} (h : c.Src doc) (col0 : Nat) {tcol0 : Nat} {text : List Char}
    (hp : PLineSrc doc ⟨n + 1, tcol0, text⟩) : (c.startIndented col0 tcol0 text).Src doc :=
  Src.startWith h _ (by
    intro pl hpl
    simp only [OpenLeaf.lines, List.append_nil, List.mem_singleton] at hpl
    subst hpl; exact hp)

theorem Src.startHtml {c : Core (n + 1)} (h : c.Src doc) {col0 : Nat} (kind : Nat) {text : List Char}
    (hp : PLineSrc doc ⟨n + 1, col0, text⟩) : (c.startHtml col0 kind text).Src doc :=
  Src.startWith h _ (by intro pl hpl; simp only [OpenLeaf.lines, List.mem_singleton] at hpl; subst hpl; exact hp)

theorem Src.setLeaf {c : Core n} (h : c.Src doc) {lf : OpenLeaf} (h1 : LeafOK n c.raw.last lf)
    (hne : c.raw.leaf = .none → lf = .none) (hl : ∀ pl ∈ lf.lines, PLineSrc doc pl) : (c.setLeaf lf h1 hne).Src doc :=
  ⟨h.out, hl⟩

theorem Src.addLine {c : Core (n + 1)} (h : c.Src doc) {col0 : Nat} {text : List Char}
    (hp : PLineSrc doc ⟨n + 1, col0, text⟩) : (c.addLine col0 text).Src doc := by
  have hL := h.lf
  unfold Core.addLine
  simp only
  split
  · exact h
  all_goals
    rename_i hlf
    rw [hlf] at hL
    apply Src.setLeaf h
    intro pl hpl
    simp only [OpenLeaf.lines, List.mem_cons, List.mem_append, List.not_mem_nil, or_false] at hpl hL
    rcases hpl with rfl | hpl
    · exact hp
    · first
      | exact hL pl hpl
      | exact hL pl hpl.symm

theorem Src.addPending {c : Core (n + 1)} (h : c.Src doc) {col0 : Nat} {text : List Char}
    (hp : PLineSrc doc ⟨n + 1, col0, text⟩) : (c.addPending col0 text).Src doc := by
  have hL := h.lf
  unfold Core.addPending
  simp only
  split
  · next hlf =>
    rw [hlf] at hL
    apply Src.setLeaf h
    intro pl hpl
    simp only [OpenLeaf.lines, List.mem_cons, List.mem_append] at hpl hL
    rcases hpl with hpl | rfl | hpl
    · exact hL pl (Or.inl hpl)
    · exact hp
    · exact hL pl (Or.inr hpl)
  · exact h

theorem Src.touch {c : Core (n + 1)} (h : c.Src doc) (k : Nat) : (c.touch k).Src doc := SInvB.mapMeta h _
theorem Src.touchAll {c : Core (n + 1)} (h : c.Src doc) : c.touchAll.Src doc := Src.touch h _

theorem Src.closeTo : ∀ (fuel : Nat) {c : Core n}, c.Src doc → ∀ d, (Core.closeTo fuel c d).Src doc
  | 0, _, h, _ => by unfold Core.closeTo; exact h
  | fuel + 1, c, h, d => by
    unfold Core.closeTo
    split
    · exact Src.closeTo fuel (Src.popC h) d
    · exact h

theorem Src.closeToDepth {c : Core n} (h : c.Src doc) (d : Nat) : (c.closeToDepth d).Src doc := Src.closeTo _ h d

theorem Src.dropDanglingList {c : Core n} (h : c.Src doc) : c.dropDanglingList.Src doc := by
  unfold Core.dropDanglingList
  split
  · split
    · exact Src.popC h
    · exact h
  · exact h

theorem Src.prep {c : Core (n + 1)} (h : c.Src doc) (k : Nat) : (c.prep k).Src doc :=
  Src.touchAll (Src.dropDanglingList (Src.closeToDepth h k))

end Core

open Core

/-! ## the cursor delivers pieces of the line -/
theorem detabFrom_spaces (k col : Nat) (r : List Char) :
    detabFrom col (List.replicate k ' ' ++ r) = List.replicate k ' ' ++ detabFrom (col + k) r := by
  rw [detabFrom_append, detabFrom_notab (List.replicate k ' ') col (by
    intro y hy
    rw [(List.mem_replicate.mp hy).2]; decide)]
  simp

/-- the text at the cursor, tab-expanded from the cursor's column, is the rest of the tab-expanded line. -/
theorem CurOK.text_src {l : Line} {c : Cur} (h : CurOK l c) : detabFrom c.col c.text = (detab l).drop c.col := by
  unfold CurOK at h
  unfold Cur.text
  rw [detabFrom_spaces, h]

theorem detabFrom_prefix {a b : List Char} (h : a <+: b) (col : Nat) : detabFrom col a <+: detabFrom col b := by
  obtain ⟨t, rfl⟩ := h
  rw [detabFrom_append]
  exact List.prefix_append _ _

theorem CurOK.plineSrc {n : Nat} {l : Line} (hl : doc[n]? = some l) {c : Cur} (h : CurOK l c) :
    PLineSrc doc ⟨n + 1, c.col, c.text⟩ :=
  ⟨l, by simpa using hl, by simp, by rw [h.text_src]; exact List.prefix_refl _⟩

/-- a prefix of the rest at a cursor without pending tab columns. -/
theorem CurOK.plineSrc_prefix {n : Nat} {l : Line} (hl : doc[n]? = some l) {c : Cur} (h : CurOK l c)
    (hp : c.ptab = 0) {t : List Char} (ht : t <+: c.rest) : PLineSrc doc ⟨n + 1, c.col, t⟩ := by
  refine ⟨l, by simpa using hl, by simp, ?_⟩
  have := h.text_src
  unfold Cur.text at this
  rw [hp] at this
  simp only [List.replicate_zero, List.nil_append] at this
  rw [← this]
  exact detabFrom_prefix ht _

/-! ## ATX heading content -/
theorem countWhile_le (p : Char → Bool) : ∀ t : List Char, countWhile p t ≤ t.length
  | [] => by simp [countWhile]
  | c :: r => by
    unfold countWhile
    split
    · have := countWhile_le p r; simp only [List.length_cons]; omega
    · omega

theorem countWhile_take_all (p : Char → Bool) : ∀ t : List Char, ∀ x ∈ t.take (countWhile p t), p x = true
  | [], x, h => by simp [countWhile] at h
  | c :: r, x, h => by
    unfold countWhile at h
    split at h
    · next hc =>
      rw [Nat.add_comm, List.take_succ_cons] at h
      rcases List.mem_cons.mp h with rfl | h
      · exact hc
      · exact countWhile_take_all p r x h
    · simp at h

theorem atx?_body {t : List Char} {lvl : Nat} {body : List Char} (h : atx? t = some (lvl, body)) :
    lvl ≤ t.length ∧ (∀ x ∈ t.take lvl, x = '#') ∧ body <+: (t.drop lvl).dropWhile isSpTab := by
  unfold atx? at h
  simp only at h
  split at h
  · cases h
  · split at h
    · next hr =>
      simp only [Option.some.injEq, Prod.mk.injEq] at h
      obtain ⟨h1, h2⟩ := h
      subst h1 h2
      exact ⟨countWhile_le _ _, fun x hx => by simpa using countWhile_take_all _ t x hx, List.nil_prefix⟩
    · next c r' hr =>
      split at h
      · simp only [Option.some.injEq, Prod.mk.injEq] at h
        obtain ⟨h1, h2⟩ := h
        subst h1
        refine ⟨countWhile_le _ _, fun x hx => by simpa using countWhile_take_all _ t x hx, ?_⟩
        have hbase : stripWs (t.drop (countWhile (· == '#') t)) <+:
            (t.drop (countWhile (· == '#') t)).dropWhile isSpTab := rstripBy_prefix isSpTab _
        rw [← h2]
        split
        · exact hbase
        · split
          · exact List.nil_prefix
          · split
            · exact ((rstripBy_prefix isSpTab _).trans (List.take_prefix _ _)).trans hbase
            · exact hbase
      · cases h

/-! ## the parser -/
theorem openBlocks_src (rd : Reading) {n : Nat} {l : Line} (hl : doc[n]? = some l) :
    ∀ (fuel : Nat) (s : Core (n + 1)) (cur : Cur) (k : Nat) (first : Bool), s.Src doc → CurOK l cur →
      (openBlocks rd fuel s cur k first).Src doc
  | 0, s, _, _, _, h, _ => by unfold openBlocks; exact h
  | fuel + 1, s, cur, k, first, h, hcur => by
    unfold openBlocks
    extract_lets ind indented c1 t allC sA sB isSetext s1 setextDone s2 maybeLazy contIsPara sQ c2 c3 lm0 lm c4
    have hsA : sA.Src doc := Src.closeToDepth h k
    have hsB : sB.Src doc := Src.touch hsA _
    have hs1 : s1.Src doc := by
      show Core.Src doc (if _ then _ else _)
      split
      · exact Src.closeSetext h _
      · exact h
    have hs2 : s2.Src doc := hs1
    obtain ⟨hc1, hp1, hcol1, hrest1⟩ := skipWs_facts hcur
    have hlm0 : ∀ q, lm0 = some q → indented = false ∧ listMarker? t = some q := by
      intro q h0
      unfold lm0 at h0
      split at h0
      · next hni => exact ⟨by simpa using hni, h0⟩
      · cases h0
    clear_value lm0
    have hlm : ∀ q, lm = some q → indented = false ∧ listMarker? t = some q := by
      intro q heq
      apply hlm0
      unfold lm at heq
      split at heq
      · next o d s' w' h0' =>
        extract_lets after at heq
        split at heq
        · cases heq
        · rw [← heq]
      · cases heq
    clear_value lm
    have htext : PLineSrc doc ⟨n + 1, c1.col, t⟩ := hc1.plineSrc_prefix hl hp1 (List.prefix_refl _)
    split
    · split
      · exact h
      · exact Src.closeLeaf hsB
    · next hb =>
      have hb' : cur.blank = false := by simpa using hb
      obtain ⟨x, r, hxr, hx⟩ := skipWs_head hb'
      have hxs := isSpTab_false hx
      have ht : t = x :: r := hxr
      split
      · exact Src.touch hs1 k
      · split
        · have hsQ : sQ.Src doc := Src.pushQuote (Src.prep hs2 k) _
          have hc2 : CurOK l c2 := by
            have := hc1.after_char hp1 hxr hxs.2
            show CurOK l ⟨List.drop 1 t, _, 0⟩
            rw [ht]; exact this
          exact openBlocks_src rd hl fuel sQ c3 _ false hsQ hc2.skipOne
        · split
          · next lvl body heq =>
            have hi : atx? t = some (lvl, body) := by
              split at heq
              · cases heq
              · exact heq
            obtain ⟨hlen, hhash, hbody⟩ := atx?_body hi
            have hadv : CurOK l (c1.advance lvl) :=
              CurOK.after_chars lvl c1 hc1 hp1 hlen (fun x hx => by rw [hhash x hx]; decide)
            obtain ⟨hc5, hp5, _, hrest5⟩ := skipWs_facts hadv
            refine Src.emitLeaf (Src.prep hs2 k) _ _ ?_
            intro q hq
            simp only [List.mem_singleton] at hq
            subst hq
            exact hc5.plineSrc_prefix hl hp5 (by rw [hrest5]; exact hbody)
          · split
            · exact Src.startFenced (Src.prep hs2 k) _ _ _ _ _
            · split
              · next kind heq =>
                have hsH := Src.startHtml (Src.prep hs2 k) kind (hcur.plineSrc hl)
                extract_lets sH
                split
                · exact Src.closeLeaf hsH
                · exact hsH
              · split
                · exact Src.emitLeaf (Src.prep hs2 k) _ _ (by intro q hq; cases hq)
                · split
                  · next ord delim start w =>
                    obtain ⟨hind, hm⟩ := hlm _ rfl
                    obtain ⟨c, r', hr', hbul, hdig, hw, hnt⟩ := listMarker?_facts hm
                    extract_lets after emptyItem spaces
                    have hafter : CurOK l after := CurOK.after_chars w cur.skipWs hc1 hp1 hw hnt
                    split
                    · next pad c4' hpc =>
                      have hc4 : CurOK l c4' := by
                        split at hpc
                        · rw [← (Prod.mk.inj hpc).2]; exact hafter
                        · split at hpc
                          · rw [← (Prod.mk.inj hpc).2]; exact CurOK.skipCols _ _ hafter
                          · rw [← (Prod.mk.inj hpc).2]; exact CurOK.skipCols _ _ hafter
                      have hsI := Src.touchAll (Src.pushItem (Src.closeToDepth hs2 k) ord delim start c1.col
                        { contentIndent := ind + w + pad })
                      extract_lets sI
                      split
                      · exact hsI
                      · exact openBlocks_src rd hl fuel sI c4' _ false hsI hc4
                  · split
                    · exact Src.startIndented (Src.prep hs2 k) _ ((CurOK.skipCols 4 cur hcur).plineSrc hl)
                    · split
                      · exact Src.touchAll (Src.addLine hs2 htext)
                      · exact Src.startPara (Src.prep hs2 k) htext

theorem stepLine_src (rd : Reading) {n : Nat} {l : Line} (hl : doc[n]? = some l) (s : Core (n + 1))
    (h : s.Src doc) : (stepLine rd s l).Src doc := by
  unfold stepLine
  extract_lets cur
  split
  · next k c1 hm =>
    have hc1 : CurOK l c1 := by
      have := matchConts_ok s.stack.reverse cur (CurOK.ofLine l)
      rw [hm] at this
      exact this
    have hgen : (openBlocks rd (l.length + 1) s c1 k true).Src doc :=
      openBlocks_src rd hl _ s c1 k true h hc1
    extract_lets allC general sH c2
    split
    · exact hgen
    · split
      · split
        · exact Src.closeFence (Src.touchAll h)
        · extract_lets c2'
          exact Src.touchAll (Src.addLine h ((CurOK.skipCols _ c1 hc1).plineSrc hl))
      · split
        · exact hgen
        · have hs : sH.Src doc := Src.touchAll (Src.addLine h (hc1.plineSrc hl))
          split
          · exact Src.closeLeaf hs
          · exact hs
      · split
        · exact Src.addPending h ((CurOK.skipCols 4 c1 hc1).plineSrc hl)
        · split
          · exact Src.touchAll (Src.addLine h ((CurOK.skipCols 4 c1 hc1).plineSrc hl))
          · exact hgen
      · exact hgen

theorem foldl_step_src (rd : Reading) : ∀ (ls pre : List Line) (s : BState), doc = pre ++ ls → s.n = pre.length →
    s.core.Src doc → (ls.foldl (step rd) s).core.Src doc
  | [], _, _, _, _, h => h
  | l :: ls, pre, s, hdoc, hn, h => by
    simp only [List.foldl_cons]
    apply foldl_step_src rd ls (pre ++ [l]) (step rd s l) (by simp [hdoc])
      (by show s.n + 1 = (pre ++ [l]).length; simp [hn])
    show (stepLine rd s.core.nextLine l).Src doc
    apply stepLine_src rd _ _ (Src.nextLine h)
    rw [hdoc, hn]
    simp

theorem runR_src (rd : Reading) (doc : List Line) : (runR rd doc).core.Src doc := by
  unfold runR finish
  exact Src.closeLeaf (Src.closeToDepth (foldl_step_src rd doc [] BState.init rfl rfl Src.init) 0)

/-- **L_payload_src**: every payload line of every leaf event of a document is a piece of the document line it
    names: the line exists and the text, tab-expanded from its column, is a prefix of the rest of the tab-expanded
    line from that column. -/
theorem L_payload_src (rd : Reading) (doc : List Line) :
    ∀ e ∈ eventsR rd doc, ∀ pl ∈ e.payload, PLineSrc doc pl := by
  intro e he
  unfold eventsR Core.out at he
  exact (runR_src rd doc).out e (List.mem_reverse.mp he)

/-! ## from the payload view to the document -/
theorem mem_detabFrom_of_mem {c : Char} (hc : c ≠ '\t') : ∀ (s : List Char) (col : Nat), c ∈ s → c ∈ detabFrom col s
  | [], _, h => by cases h
  | x :: r, col, h => by
    by_cases hx : x = '\t'
    · subst hx
      rw [detabFrom_tab]
      rcases List.mem_cons.mp h with h | h
      · exact absurd h hc
      · exact List.mem_append_right _ (mem_detabFrom_of_mem hc r _ h)
    · rw [detabFrom_ne hx]
      rcases List.mem_cons.mp h with h | h
      · exact h ▸ List.mem_cons_self
      · exact List.mem_cons_of_mem _ (mem_detabFrom_of_mem hc r _ h)

theorem mem_of_mem_detabFrom {c : Char} : ∀ (s : List Char) (col : Nat), c ∈ detabFrom col s → c = ' ' ∨ c ∈ s
  | [], _, h => by simp [detabFrom] at h
  | x :: r, col, h => by
    by_cases hx : x = '\t'
    · subst hx
      rw [detabFrom_tab] at h
      rcases List.mem_append.mp h with h | h
      · exact Or.inl (List.mem_replicate.mp h).2
      · rcases mem_of_mem_detabFrom r _ h with h | h
        · exact Or.inl h
        · exact Or.inr (List.mem_cons_of_mem _ h)
    · rw [detabFrom_ne hx] at h
      rcases List.mem_cons.mp h with h | h
      · exact Or.inr (h ▸ List.mem_cons_self)
      · rcases mem_of_mem_detabFrom r _ h with h | h
        · exact Or.inl h
        · exact Or.inr (List.mem_cons_of_mem _ h)

/-- a character (not a tab, not a space) of a payload text occurs in its document line. -/
theorem PLineSrc.mem {pl : PLine} (h : PLineSrc doc pl) {c : Char} (hc : c ∈ pl.text) (ht : c ≠ '\t') (hs : c ≠ ' ') :
    ∃ l ∈ doc, c ∈ l := by
  obtain ⟨l, hl, _, hpre⟩ := h
  have h1 := mem_detabFrom_of_mem ht pl.text pl.col0 hc
  have h2 : c ∈ detab l := List.mem_of_mem_drop (List.IsPrefix.subset hpre h1)
  rcases mem_of_mem_detabFrom l 0 h2 with h3 | h3
  · exact absurd h3 hs
  · exact ⟨l, List.mem_of_getElem? hl, h3⟩

/-- the payload view refines the document view. -/
theorem VL.charAt {payload : List PLine} (hsrc : ∀ pl ∈ payload, PLineSrc doc pl) {p : Pos} {c : Char}
    (h : VL payload p c) : charAt doc p = some c := by
  obtain ⟨pl, hpl, hline, hcol, hget⟩ := h
  obtain ⟨l, hl, _, hpre⟩ := hsrc pl hpl
  unfold Verif.Model.LeanMark.charAt
  rw [← hline, hl]
  simp only [Option.bind_some]
  obtain ⟨t, ht⟩ := hpre
  have hlt : p.col - 1 - pl.col0 < (detabFrom pl.col0 pl.text).length := (List.getElem?_eq_some_iff.mp hget).1
  have h1 : ((detab l).drop pl.col0)[p.col - 1 - pl.col0]? = some c := by
    rw [← ht, List.getElem?_append_left hlt]; exact hget
  rw [List.getElem?_drop] at h1
  rw [← h1]
  congr 1
  omega

theorem IOpenerOK.imp {V W : Pos → Char → Prop} {hard : Bool} (hVW : ∀ p c, V p c → W p c) :
    ∀ {e : IEv}, IOpenerOK V hard e → IOpenerOK W hard e
  | .text .., _ => trivial
  | .softbreak .., _ => trivial
  | .hardbreak _, h => fun hh => Or.imp (hVW _ _) (hVW _ _) (h hh)
  | .code .., h => hVW _ _ h
  | .rawHtml .., h => hVW _ _ h
  | .autolink .., h => hVW _ _ h
  | .openEmph _, h => Or.imp (hVW _ _) (hVW _ _) h
  | .closeEmph, _ => trivial
  | .openStrong _, h => Or.imp (fun a => ⟨hVW _ _ a.1, hVW _ _ a.2⟩) (fun a => ⟨hVW _ _ a.1, hVW _ _ a.2⟩) h
  | .closeStrong, _ => trivial
  | .openLink .., h => hVW _ _ h
  | .closeLink, _ => trivial
  | .openImage .., h => ⟨hVW _ _ h.1, hVW _ _ h.2⟩
  | .closeImage, _ => trivial

/-- the document view: the character of the tab-expanded document line at a position. -/
def VDoc (doc : List Line) (p : Pos) (c : Char) : Prop := charAt doc p = some c

/-- inline events of the leaves of a document, both strengths of the table. -/
theorem inline_opener_doc (rd : Reading) (doc : List Line) (hnl : ∀ l ∈ doc, ∀ c ∈ l, c ≠ '\n') (hard : Bool)
    (hamp : hard = true → ∀ l ∈ doc, ∀ c ∈ l, c ≠ '&') (refs : RefMap) :
    ∀ e ∈ eventsR rd doc, ∀ ie ∈ parseInlines refs e.payload, IOpenerOK (VDoc doc) hard ie := by
  intro e he ie hie
  have hsrc := L_payload_src rd doc e he
  have hnl' : NoNL e.payload := by
    intro pl hpl c hc hcn
    subst hcn
    obtain ⟨l, hl, hcl⟩ := (hsrc pl hpl).mem hc (by decide) (by decide)
    exact hnl l hl _ hcl rfl
  have hamp' : hard = true → ∀ pl ∈ e.payload, ∀ c ∈ pl.text, c ≠ '&' := by
    intro hb pl hpl c hc hcn
    subst hcn
    obtain ⟨l, hl, hcl⟩ := (hsrc pl hpl).mem hc (by decide) (by decide)
    exact hamp hb l hl _ hcl rfl
  exact (parseInlines_pos refs e.payload hnl' hard hamp' ie hie).imp (fun p c h => VL.charAt hsrc h)

end Verif.Model.LeanMark
