/-
  Helper lemmas for C19: the string order, `sortStr`, the list-backed set.
-/
import Verif.Model.FileScan
namespace Verif.Lemmas.FileScan
open Verif.Model.FileScan

theorem any_congr_mem {α : Type} {f g : α → Bool} : ∀ {l : List α}, (∀ a ∈ l, f a = g a) → l.any f = l.any g
  | [], _ => rfl
  | x :: xs, h => by
    simp only [List.any_cons]
    rw [h x (by simp), any_congr_mem (l := xs) (fun a ha => h a (List.mem_cons_of_mem _ ha))]

/-! ### order -/

theorem strLt_irrefl : ∀ a : Str, strLt a a = false
  | [] => rfl
  | c :: cs => by simp [strLt, strLt_irrefl cs]

theorem strLt_trans : ∀ {a b c : Str}, strLt a b = true → strLt b c = true → strLt a c = true
  | [], [], _, h, _ => by simp [strLt] at h
  | [], _ :: _, [], _, h => by simp [strLt] at h
  | [], _ :: _, _ :: _, _, _ => by simp [strLt]
  | _ :: _, [], _, h, _ => by simp [strLt] at h
  | _ :: _, _ :: _, [], _, h => by simp [strLt] at h
  | x :: xs, y :: ys, z :: zs, h₁, h₂ => by
    simp only [strLt, Bool.or_eq_true, decide_eq_true_eq, Bool.and_eq_true, beq_iff_eq] at h₁ h₂ ⊢
    rcases h₁ with h₁ | ⟨rfl, h₁⟩ <;> rcases h₂ with h₂ | ⟨rfl, h₂⟩
    · left; omega
    · left; exact h₁
    · left; exact h₂
    · right; exact ⟨rfl, strLt_trans h₁ h₂⟩

theorem strLt_trichotomy : ∀ a b : Str, strLt a b = true ∨ a = b ∨ strLt b a = true
  | [], [] => by simp
  | [], _ :: _ => by simp [strLt]
  | _ :: _, [] => by simp [strLt]
  | x :: xs, y :: ys => by
    simp only [strLt, Bool.or_eq_true, decide_eq_true_eq, Bool.and_eq_true, beq_iff_eq, List.cons.injEq]
    rcases Nat.lt_trichotomy x.toNat y.toNat with h | h | h
    · left; left; exact h
    · have hxy : x = y := Char.toNat_inj.mp h
      subst hxy
      rcases strLt_trichotomy xs ys with h' | h' | h'
      · left; right; exact ⟨rfl, h'⟩
      · right; left; exact ⟨rfl, h'⟩
      · right; right; right; exact ⟨rfl, h'⟩
    · right; right; left; exact h

theorem strLt_asymm {a b : Str} (h : strLt a b = true) : strLt b a = false := by
  cases hb : strLt b a with
  | false => rfl
  | true => have := strLt_trans h hb; simp [strLt_irrefl] at this

theorem strLt_ne {a b : Str} (h : strLt a b = true) : a ≠ b := by
  intro e; subst e; simp [strLt_irrefl] at h

/-- Strictly increasing in Python's string order. -/
def StrictSorted (l : List Str) : Prop := l.Pairwise fun a b => strLt a b = true

theorem StrictSorted.nodup {l : List Str} (h : StrictSorted l) : l.Nodup :=
  List.Pairwise.imp (fun h => strLt_ne h) h

/-- Two strictly sorted lists with the same members are equal. -/
theorem StrictSorted.ext : ∀ {l₁ l₂ : List Str}, StrictSorted l₁ → StrictSorted l₂ →
    (∀ x, x ∈ l₁ ↔ x ∈ l₂) → l₁ = l₂
  | [], [], _, _, _ => rfl
  | [], y :: _, _, _, h => by have := (h y).mpr (by simp); simp at this
  | x :: _, [], _, _, h => by have := (h x).mp (by simp); simp at this
  | x :: xs, y :: ys, h₁, h₂, h => by
    have h₁' := List.pairwise_cons.mp h₁
    have h₂' := List.pairwise_cons.mp h₂
    have hxy : x = y := by
      have hx := (h x).mp (by simp)
      have hy := (h y).mpr (by simp)
      rcases List.mem_cons.mp hx with e | hx'
      · exact e
      · rcases List.mem_cons.mp hy with e | hy'
        · exact e.symm
        · have a := h₂'.1 x hx'
          have b := h₁'.1 y hy'
          simp [strLt_asymm a] at b
    subst hxy
    congr 1
    refine StrictSorted.ext h₁'.2 h₂'.2 fun z => ?_
    constructor
    · intro hz
      rcases List.mem_cons.mp ((h z).mp (List.mem_cons_of_mem _ hz)) with e | h'
      · subst e; have := h₁'.1 z hz; simp [strLt_irrefl] at this
      · exact h'
    · intro hz
      rcases List.mem_cons.mp ((h z).mpr (List.mem_cons_of_mem _ hz)) with e | h'
      · subst e; have := h₂'.1 z hz; simp [strLt_irrefl] at this
      · exact h'

/-! ### insertion sort -/

theorem mem_insertSorted {x y : Str} : ∀ {l : List Str}, y ∈ insertSorted x l ↔ y = x ∨ y ∈ l
  | [] => by simp [insertSorted]
  | z :: zs => by
    simp only [insertSorted]
    split
    · simp
    · simp only [List.mem_cons, mem_insertSorted (l := zs)]
      constructor
      · rintro (h | h | h) <;> simp [h]
      · rintro (h | h | h) <;> simp [h]

theorem mem_sortStr {y : Str} : ∀ {l : List Str}, y ∈ sortStr l ↔ y ∈ l
  | [] => by simp [sortStr]
  | x :: xs => by
    have ih := mem_sortStr (y := y) (l := xs)
    simp only [sortStr, List.foldr_cons] at ih ⊢
    rw [mem_insertSorted, ih]; simp

theorem insertSorted_strict {x : Str} : ∀ {l : List Str}, StrictSorted l → x ∉ l →
    StrictSorted (insertSorted x l)
  | [], _, _ => by simp [insertSorted, StrictSorted]
  | y :: ys, h, hx => by
    have h' := List.pairwise_cons.mp h
    simp only [insertSorted]
    split
    · rename_i hle
      have hne : x ≠ y := fun e => hx (by simp [e])
      have hlt : strLt x y = true := by
        rcases strLt_trichotomy x y with a | a | a
        · exact a
        · exact absurd a hne
        · simp [strLe, a] at hle
      refine List.pairwise_cons.mpr ⟨?_, h⟩
      intro z hz
      rcases List.mem_cons.mp hz with e | hz'
      · subst e; exact hlt
      · exact strLt_trans hlt (h'.1 z hz')
    · rename_i hle
      have hlt : strLt y x = true := by simpa [strLe] using hle
      refine List.pairwise_cons.mpr ⟨?_, insertSorted_strict h'.2 (fun m => hx (List.mem_cons_of_mem _ m))⟩
      intro z hz
      rcases mem_insertSorted.mp hz with e | hz'
      · subst e; exact hlt
      · exact h'.1 z hz'

theorem sortStr_strict : ∀ {l : List Str}, l.Nodup → StrictSorted (sortStr l)
  | [], _ => by simp [sortStr, StrictSorted]
  | x :: xs, h => by
    have h' := List.nodup_cons.mp h
    have ih := sortStr_strict h'.2
    simp only [sortStr, List.foldr_cons] at ih ⊢
    exact insertSorted_strict ih (fun m => h'.1 (mem_sortStr.mp m))

/-! ### the set -/

theorem mem_setAdd {s : List Str} {x y : Str} : y ∈ setAdd s x ↔ y ∈ s ∨ y = x := by
  unfold setAdd
  split
  · rename_i h
    constructor
    · exact Or.inl
    · rintro (h' | h')
      · exact h'
      · subst h'; exact h
  · simp

theorem nodup_setAdd {s : List Str} {x : Str} (h : s.Nodup) : (setAdd s x).Nodup := by
  unfold setAdd
  split
  · exact h
  · rename_i hx
    refine List.nodup_append.mpr ⟨h, by simp, ?_⟩
    intro a ha b hb
    simp at hb; subst hb
    intro e; subst e; exact hx ha

theorem mem_setAddAll {y : Str} : ∀ {xs s : List Str}, y ∈ setAddAll s xs ↔ y ∈ s ∨ y ∈ xs
  | [], s => by simp [setAddAll]
  | x :: xs, s => by
    have ih := mem_setAddAll (y := y) (xs := xs) (s := setAdd s x)
    simp only [setAddAll, List.foldl_cons] at ih ⊢
    rw [ih, mem_setAdd]; simp [or_assoc]

theorem nodup_setAddAll : ∀ {xs s : List Str}, s.Nodup → (setAddAll s xs).Nodup
  | [], _, h => by simpa [setAddAll] using h
  | x :: xs, s, h => by
    have ih := nodup_setAddAll (xs := xs) (nodup_setAdd (x := x) h)
    simpa [setAddAll] using ih

end Verif.Lemmas.FileScan
