/-
  C20 — Extensions are inert unless enabled and needed; front matter only shifts lines.

  Part 1 (front matter): theorems over the faithful `Verif.Model.FrontMatter`, for EVERY parser
  proper `parse : Nat → Lines → List τ` that satisfies the shift law `ShiftInvariant` (the law
  LeanMark's `L_shift` provides), every YAML oracle, both settings of `allow_blank_lines`.
  Part 2 (flags): facts decided over `Verif.Gen.ExtFlags`, regenerated from the AST of /repo on
  every run: a moved / removed / crossed flag test changes the table and these stop checking.
-/
import Verif.Model.FrontMatter
import Verif.Lemmas.FrontMatter
import Verif.Model.ExtFlags
import Verif.Lemmas.ExtFlags
import Verif.Gen.ExtFlags
import Verif.Baseline.ExtConsumers
namespace Verif.Props.C20
open Verif.Model.FrontMatter Verif.Model.ExtFlags

/-! ## Part 1 — front matter -/

/-- A valid front-matter block `start :: body ++ [close]`:
`start` is `---` (+ trailing ASCII whitespace), `close` right-strips to the same `---`,
no body line closes the block, no body line is blank unless `allow_blank_lines`, and the YAML
oracle accepts the body. -/
structure ValidBlock (allowBlank : Bool) (yaml : Lines → Yaml) (start : Line) (body : Lines)
    (close : Line) : Prop where
  start_ok : isStart start = true
  close_ok : closes start close = true
  body_ok : BodyOK allowBlank start body
  yaml_ok : yaml body = .ok

/-- **fm_shift.**  With front matter enabled, a document that begins with a valid block of
`k = body.length + 2` lines parses as the front-matter token followed by exactly the parse of the
remaining lines, every token renumbered by `k`. -/
theorem fm_shift {τ : Type} (parse : Nat → Lines → List τ) (shift : Nat → τ → τ)
    (hs : ShiftInvariant parse shift) (allowBlank : Bool) (yaml : Lines → Yaml)
    (start : Line) (body : Lines) (close : Line) (rest : Lines)
    (hv : ValidBlock allowBlank yaml start body close) :
    tokenize true allowBlank yaml parse (start :: (body ++ close :: rest))
      = .ok (.fm ⟨start, close, body⟩ ::
              ((parse 1 rest).map (shift (body.length + 2))).map OutTok.blk) := by
  have hscan := scan_closed allowBlank start body close rest hv.body_ok hv.close_ok
  simp only [tokenize, headerStage, if_true, processHeader, hv.start_ok, hscan, hv.yaml_ok]
  rw [mainLoop_rest]
  have : 3 + body.length = 1 + (body.length + 2) := by omega
  rw [this, hs.law]
  simp

example : ValidBlock false (fun _ => .ok) "---".toList ["a: b".toList] "---  ".toList :=
  ⟨by decide, by decide, by intro l hl; simp at hl; subst hl; decide, rfl⟩

example :
    tokenize true false (fun _ => .ok) echoFrom ["---".toList, "a: b".toList, "---".toList, "# h".toList, [] ]
      = .ok [.fm ⟨"---".toList, "---".toList, ["a: b".toList]⟩, .blk (4, "# h".toList), .blk (5, [])] := by
  decide

/-- Converse: whenever the output contains a front-matter token, the document starts with a valid
block and the output is the one `fm_shift` describes (so "valid block" is exactly the condition
under which a token is produced). -/
theorem fm_token_only_valid {τ : Type} (parse : Nat → Lines → List τ)
    (allowBlank : Bool) (yaml : Lines → Yaml) (doc : Lines) (out : List (OutTok τ))
    (h : tokenize true allowBlank yaml parse doc = .ok out) (hfm : ∃ t ∈ out, t.isFm = true) :
    ∃ start body close rest, doc = start :: (body ++ close :: rest) ∧
      ValidBlock allowBlank yaml start body close ∧
      out = .fm ⟨start, close, body⟩ :: (parse (3 + body.length) rest).map OutTok.blk := by
  obtain ⟨t, ht, hisfm⟩ := hfm
  match doc with
  | [] =>
    simp [tokenize, headerStage, mainLoop] at h
    subst h; simp at ht; obtain ⟨a, _, rfl⟩ := ht; simp [OutTok.isFm] at hisfm
  | first :: provider =>
    simp only [tokenize, headerStage, if_true, processHeader] at h
    by_cases hst : isStart first = true
    · simp only [hst, if_true] at h
      cases hsc : scan allowBlank first provider with
      | eof c => simp only [hsc] at h; simp at h
      | stopped c r =>
        simp only [hsc] at h; simp [mainLoop] at h
        subst h; simp at ht; obtain ⟨a, _, rfl⟩ := ht; simp [OutTok.isFm] at hisfm
      | closed c cl r =>
        simp only [hsc] at h
        obtain ⟨hdoc, hcl, hbody⟩ := scan_closed_inv hsc
        cases hy : yaml c with
        | raises => simp only [hy] at h; simp at h
        | invalid =>
          simp only [hy] at h; simp [mainLoop] at h
          subst h; simp at ht; obtain ⟨a, _, rfl⟩ := ht; simp [OutTok.isFm] at hisfm
        | ok =>
          simp only [hy] at h
          simp only [mainLoop_rest] at h
          refine ⟨first, c, cl, r, by rw [hdoc], ⟨hst, hcl, hbody, hy⟩, ?_⟩
          simpa using h.symm
    · simp only [hst] at h
      simp [mainLoop] at h
      subst h; simp at ht; obtain ⟨a, _, rfl⟩ := ht; simp [OutTok.isFm] at hisfm

/-- The closing line that was read is spelled exactly like the starting line (same trailing
whitespace).  Needed by `fm_abandon_identity`: on invalid YAML the implementation requeues the
*starting* line in place of the closing line (`collected_lines.append(starting_line)`). -/
def CloseSpelledAsStart (allowBlank : Bool) (doc : Lines) : Prop :=
  ∀ first provider c cl r, doc = first :: provider →
    scan allowBlank first provider = .closed c cl r → cl = first

/-- **fm_abandon_identity.**  Front matter enabled, the header stage ends without an error — i.e. a
closing line or (with `allow_blank_lines` off) a blank line was found before the end of input, and
the YAML oracle did not raise — and no block was accepted: the result is exactly the plain parse of
all lines.  Hypothesis `hsp` is needed only for the "closed but invalid YAML" case. -/
theorem fm_abandon_identity {τ : Type} (parse : Nat → Lines → List τ)
    (allowBlank : Bool) (yaml : Lines → Yaml) (doc : Lines) (out : List (OutTok τ))
    (h : tokenize true allowBlank yaml parse doc = .ok out)
    (hno : ∀ t ∈ out, t.isFm = false)
    (hsp : CloseSpelledAsStart allowBlank doc) :
    out = plain parse doc := by
  match doc with
  | [] => simp [tokenize, headerStage, mainLoop] at h; subst h; simp [plain]
  | first :: provider =>
    simp only [tokenize, headerStage, if_true, processHeader] at h
    by_cases hst : isStart first = true
    · simp only [hst, if_true] at h
      cases hsc : scan allowBlank first provider with
      | eof c => simp only [hsc] at h; simp at h
      | stopped c r =>
        simp only [hsc] at h
        -- provider = c ++ r is what `scan` consumed; re-derive it
        have hprov : provider = c ++ r := by
          clear h hno hsp
          induction provider generalizing c with
          | nil => simp [scan] at hsc
          | cons l ls ih =>
            simp only [scan] at hsc
            by_cases hn : nonBlank l = true
            · by_cases hc : closes first l = true
              · simp [hn, hc] at hsc
              · simp only [hn, hc, if_true] at hsc
                cases hs2 : scan allowBlank first ls with
                | closed c' cl' r' => rw [hs2] at hsc; simp [Scan.push] at hsc
                | eof c' => rw [hs2] at hsc; simp [Scan.push] at hsc
                | stopped c' r' =>
                  rw [hs2] at hsc; simp [Scan.push] at hsc
                  obtain ⟨h1, h2⟩ := hsc; subst h1 h2
                  simp [ih c' hs2]
            · have hn' : nonBlank l = false := by simpa using hn
              cases hab : allowBlank with
              | false => simp [hn', hab] at hsc; obtain ⟨h1, h2⟩ := hsc; subst h1 h2; simp
              | true =>
                subst hab
                simp only [hn'] at hsc
                cases hs2 : scan true first ls with
                | closed c' cl' r' => rw [hs2] at hsc; simp [Scan.push] at hsc
                | eof c' => rw [hs2] at hsc; simp [Scan.push] at hsc
                | stopped c' r' =>
                  rw [hs2] at hsc; simp [Scan.push] at hsc
                  obtain ⟨h1, h2⟩ := hsc; subst h1 h2
                  simp [ih c' hs2]
        simp [mainLoop] at h
        subst h; simp [plain, hprov]
      | closed c cl r =>
        simp only [hsc] at h
        obtain ⟨hdoc, _, _⟩ := scan_closed_inv hsc
        have hcl : cl = first := hsp first provider c cl r rfl hsc
        cases hy : yaml c with
        | raises => simp only [hy] at h; simp at h
        | ok =>
          simp only [hy] at h; simp at h
          subst h
          have := hno (.fm ⟨first, cl, c⟩) (by simp)
          simp [OutTok.isFm] at this
        | invalid =>
          simp only [hy] at h; simp [mainLoop] at h
          subst h; simp [plain, hdoc, hcl]
    · simp only [hst] at h
      simp [mainLoop] at h
      subst h; simp [plain]

/-- Syntactic corollaries of `fm_abandon_identity` (no reference to `scan`). -/
theorem fm_not_start_identity {τ : Type} (parse : Nat → Lines → List τ)
    (allowBlank : Bool) (yaml : Lines → Yaml) (first : Line) (rest : Lines)
    (h : isStart first = false) :
    tokenize true allowBlank yaml parse (first :: rest) = .ok (plain parse (first :: rest)) := by
  simp [tokenize, headerStage, processHeader, h, mainLoop, plain]

theorem fm_blank_abandon_identity {τ : Type} (parse : Nat → Lines → List τ)
    (yaml : Lines → Yaml) (start : Line) (body : Lines) (b : Line) (rest : Lines)
    (hs : isStart start = true) (hbody : BodyOK false start body) (hb : nonBlank b = false) :
    tokenize true false yaml parse (start :: (body ++ b :: rest))
      = .ok (plain parse (start :: (body ++ b :: rest))) := by
  simp [tokenize, headerStage, processHeader, hs, scan_stopped start body b rest hbody hb, mainLoop, plain]

theorem fm_invalid_yaml_identity {τ : Type} (parse : Nat → Lines → List τ)
    (allowBlank : Bool) (yaml : Lines → Yaml) (start : Line) (body : Lines) (rest : Lines)
    (hs : isStart start = true) (hbody : BodyOK allowBlank start body) (hy : yaml body = .invalid) :
    tokenize true allowBlank yaml parse (start :: (body ++ start :: rest))
      = .ok (plain parse (start :: (body ++ start :: rest))) := by
  have hcl : closes start start = true := by
    have h3 := (isStart_iff start).mp hs
    exact (closes_iff hs start).mpr h3
  simp [tokenize, headerStage, processHeader, hs, scan_closed allowBlank start body start rest hbody hcl,
    hy, mainLoop, plain]

example : tokenize true false (fun _ => .invalid) echoFrom ["---".toList, "a: b: c".toList, "---".toList, "x".toList]
    = .ok (plain echoFrom ["---".toList, "a: b: c".toList, "---".toList, "x".toList]) := by decide

/-- **Excluded point 1 (F-FM).**  No closing line and no blank line before the end of input: the
header stage fails (`assert next_line is not None`) for every YAML oracle and every parser — on
`---\nabc` and in general. -/
theorem fm_eof_error {τ : Type} (parse : Nat → Lines → List τ) (allowBlank : Bool)
    (yaml : Lines → Yaml) (start : Line) (body : Lines)
    (hs : isStart start = true) (hbody : BodyOK allowBlank start body) :
    tokenize true allowBlank yaml parse (start :: body) = .error .eofAssert := by
  simp [tokenize, headerStage, processHeader, hs, scan_eof allowBlank start body hbody]

theorem fm_eof_witness : ∀ yaml : Lines → Yaml,
    tokenize true false yaml echoFrom ["---".toList, "abc".toList] = .error .eofAssert := by
  intro yaml
  exact fm_eof_error echoFrom false yaml _ _ (by decide) (by intro l hl; simp at hl; subst hl; decide)

/-- …while with the extension off the same document parses. -/
example : tokenize false false (fun _ => .ok) echoFrom ["---".toList, "abc".toList]
    = .ok [.blk (1, "---".toList), .blk (2, "abc".toList)] := by decide

/-- **Excluded point 2 (F-FM-CLOSE).**  Invalid YAML and a closing line spelled differently from
the starting line: the parser is fed the starting line in place of the closing line, so the result
is NOT the plain parse of the document. -/
theorem fm_close_spelling_witness :
    tokenize true false (fun _ => .invalid) echoFrom ["---".toList, "a: b: c".toList, "---  ".toList]
      = .ok (plain echoFrom ["---".toList, "a: b: c".toList, "---".toList]) ∧
    tokenize true false (fun _ => .invalid) echoFrom ["---".toList, "a: b: c".toList, "---  ".toList]
      ≠ .ok (plain echoFrom ["---".toList, "a: b: c".toList, "---  ".toList]) := by
  constructor <;> decide

/-- **Excluded point 3.**  An exception escaping the YAML loader escapes the parser. -/
theorem fm_yaml_raise {τ : Type} (parse : Nat → Lines → List τ) (allowBlank : Bool)
    (yaml : Lines → Yaml) (start : Line) (body : Lines) (close : Line) (rest : Lines)
    (hs : isStart start = true) (hc : closes start close = true)
    (hbody : BodyOK allowBlank start body) (hy : yaml body = .raises) :
    tokenize true allowBlank yaml parse (start :: (body ++ close :: rest)) = .error .yamlRaise := by
  simp [tokenize, headerStage, processHeader, hs, scan_closed allowBlank start body close rest hbody hc, hy]

/-- **fm_disabled_identity.**  Extension off: the header stage is the identity — every document
(whatever it starts with, whatever the YAML oracle would say) gets exactly the plain parse. -/
theorem fm_disabled_identity {τ : Type} (parse : Nat → Lines → List τ)
    (allowBlank : Bool) (yaml : Lines → Yaml) (doc : Lines) :
    tokenize false allowBlank yaml parse doc = .ok (plain parse doc) := by
  cases doc <;> simp [tokenize, headerStage, mainLoop, plain]

example : tokenize false false (fun _ => .ok) echoFrom ["---".toList, "a: b".toList, "---".toList]
    = .ok [.blk (1, "---".toList), .blk (2, "a: b".toList), .blk (3, "---".toList)] := by decide

/-- What the start test accepts, spelled out. -/
theorem start_line_shape (l : Line) : isStart l = true ↔ rstrip l = ['-', '-', '-'] := isStart_iff l

example : isStart "---".toList = true ∧ isStart "--- \t\r".toList = true ∧ isStart " ---".toList = false
    ∧ isStart "----".toList = false ∧ isStart "- - -".toList = false ∧ isStart "***".toList = false := by decide

/-- The echo parser is shift invariant, so the hypotheses above are satisfiable. -/
example : ShiftInvariant echoFrom echoShift := echo_shiftInvariant

/-! ## Part 2 — the generated flag table -/
open Verif.Gen.ExtFlags

/-- **flags_guard.**  Every extension hook site outside the extension packages is dominated by its
own flag, or is one of the reviewed data-driven consumers. -/
theorem flags_guard : ∀ h ∈ hooks,
    h.owner ∈ h.guards ∨ (h.file, h.func, h.what) ∈ Verif.Baseline.ExtConsumers.reviewed := by decide

/-- The reviewed list contains no stale entry. -/
theorem reviewed_pinned : ∀ s ∈ Verif.Baseline.ExtConsumers.reviewed,
    ∃ h ∈ hooks, (h.file, h.func, h.what) = s ∧ h.owner ∉ h.guards := by decide

example : ∃ h ∈ hooks, h.owner = .taskListItems ∧ h.owner ∈ h.guards := by decide

/-- The flag wiring is straight: the field, the property and the ParseBlockPassProperties copy of
every flag stand for the extension whose identifier is actually tested. -/
theorem wiring_straight : ∀ w ∈ wires, w.straight = true := by decide

/-- Each of the six extensions has exactly one flag. -/
theorem wiring_complete : (wires.map (·.ext)).Perm Ext.all := by decide

/-- Only pragmas are on by default (so "plain CommonMark" is what an unconfigured run parses,
apart from pragma lines). -/
theorem defaults : ∀ w ∈ wires, w.enabledByDefault = (w.ext == .pragmas) := by decide

/-- A flag is only ever read as a guard, copied once into ParseBlockPassProperties, or logged. -/
theorem copies_only_in_props : ∀ r ∈ reads, r.role = .copy →
    r.file = "pymarkdown/container_blocks/parse_block_pass_properties.py" ∧ r.func = "__init__" := by decide

/-- Every flag is consulted somewhere as a guard. -/
theorem every_flag_guards : ∀ e ∈ Ext.all, ∃ r ∈ reads, r.flag = e ∧ r.role = .guard := by decide

/-- Characters introduced by an extension's registrations are registered by nobody else. -/
theorem ext_chars_owned : CharsOwned regs = true := by decide

/-- **handlers_off.**  Flag off → none of that extension's characters is in the inline handler
table (`valid_inline_text_block_sequence_starts` / `__inline_character_handlers`). -/
theorem handlers_off (f : Flags) (e : Ext) (hoff : f.get e = false) (c : Char)
    (hc : c ∈ extChars regs e) : c ∉ handlerChars regs f :=
  handlers_off_of_owned ext_chars_owned f e hoff c hc

example : '~' ∈ extChars regs .strikeThrough ∧ 'w' ∈ extChars regs .extendedAutolinks := by decide

/-- Flag on → they are. -/
theorem handlers_on (f : Flags) (e : Ext) (hon : f.get e = true) (c : Char)
    (hc : c ∈ extChars regs e) : c ∈ handlerChars regs f := by
  obtain ⟨r, hr, ho, hcr⟩ := mem_extChars.mp hc
  exact mem_handlerChars.mpr ⟨r, hr, by simp [ownerOn, ho, hon], hcr⟩

/-- With every extension off the handler table and the emphasis set are the CommonMark ones. -/
theorem all_off_tables :
    handlerChars regs Flags.allOff = ['`', '\\', '&', '<', '[', ']', '*', '_', '!',
      Char.ofNat 8, Char.ofNat 7, Char.ofNat 2, Char.ofNat 3, Char.ofNat 5] ∧
    emphChars emph Flags.allOff = ['*', '_'] := by decide

/-- The strikethrough character is an emphasis character iff its flag is on; the other flags do not
touch the emphasis set. -/
theorem emph_strike (f : Flags) :
    emphChars emph f = if f.strikeThrough then ['*', '_', '~'] else ['*', '_'] := by
  rcases f with ⟨a, b, c, d, e, g⟩
  cases e <;> rfl

/-- The handler table depends on the strikethrough and extended-autolinks flags only. -/
theorem handlers_depend_on (f g : Flags) (h1 : f.strikeThrough = g.strikeThrough)
    (h2 : f.extendedAutolinks = g.extendedAutolinks) (c : Char) :
    handlerOf regs f c = handlerOf regs g c ∧ handlerChars regs f = handlerChars regs g := by
  rcases f with ⟨a, b, c', d, e, k⟩
  rcases g with ⟨a', b', c'', d', e', k'⟩
  simp only at h1 h2
  subst h1 h2
  constructor <;> rfl

end Verif.Props.C20
