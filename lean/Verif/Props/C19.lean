/-
  C19 — File discovery selects exactly the documented set, once each, in sorted order.

  All theorems are about `Verif.Model.FileScan.discover`, the faithful model of
  `ApplicationFileScanner.determine_files_to_scan`, for EVERY tree, option set and
  argument list (unbounded).  `spec` (Verif.Model.FileScanSpec) is written from the
  user guide.  Hypotheses, where a theorem needs them:
    `WF t`           the entry list describes a file system (names are names, ancestors are
                     directories, one kind per path) — true of every materialised tree;
    `Normalised a`   no empty, `.` or `..` component in the argument;
  the excluded cases are exhibited by the `_witness` examples (known findings F-DUP, F-LIST,
  F-NOFILES).
-/
import Verif.Model.FileScan
import Verif.Model.FileScanSpec
import Verif.Lemmas.FileScanBasic
import Verif.Lemmas.FileScanLoop
import Verif.Lemmas.FileScanPath
import Verif.Lemmas.FileScanWalk
import Verif.Lemmas.FileScanNorm
import Verif.Lemmas.FileScanGlob
import Verif.Lemmas.FileScanSpecEq
namespace Verif.Props.C19
open Verif.Model.FileScan Verif.Lemmas.FileScan

/-! Concrete objects for the non-vacuity examples. -/
def s (x : String) : Str := x.toList
/-- `a.md  c.txt  d/  d/e.md  d/f/  d/f/g.md` -/
def tree1 : Tree :=
  [([s "a.md"], .file), ([s "c.txt"], .file), ([s "d"], .dir), ([s "d", s "e.md"], .file),
   ([s "d", s "f"], .dir), ([s "d", s "f", s "g.md"], .file)]
def md (recurse listOnly : Bool) : Opts := ⟨recurse, s ".md", listOnly⟩

/-- The result is in strictly increasing code-point order (Python's `sorted` on a set). -/
theorem result_sorted (t : Tree) (o : Opts) (args : List Str) :
    (discover t o args).files.Pairwise fun a b => strLt a b = true :=
  discover_strict t o args

example : (discover tree1 (md true false) [s "d", s "a.md"]).files
    = [s "a.md", s "d/e.md", s "d/f/g.md"] := by decide

/-- No path string occurs twice, however many arguments reach it. -/
theorem result_nodup (t : Tree) (o : Opts) (args : List Str) : (discover t o args).files.Nodup :=
  (discover_strict t o args).nodup

example : (discover tree1 (md true false) [s "d", s "d/e.md", s "d/*.md", s "d"]).files
    = [s "d/e.md", s "d/f/g.md"] := by decide

/-- Every result is an existing regular file whose path ends with one of the extensions. -/
theorem result_subset_eligible {t : Tree} {o : Opts} {args : List Str} {f : Str}
    (h : f ∈ (discover t o args).files) :
    isFile t f = true ∧ ∃ e ∈ splitOn ',' o.exts, endsWith f e = true := by
  obtain ⟨a, _, ha⟩ := mem_discover_sound h
  have := contrib_eligible ha
  simp only [eligible, Bool.and_eq_true, List.any_eq_true] at this
  exact this

example : (discover tree1 (md true false) [s "*"]).files = [s "a.md", s "d/e.md", s "d/f/g.md"] := by
  decide

/-- Completeness: when no error is flagged, every file (identity `F`) that the documentation says
an argument designates is in the result, under a spelling that resolves to it. -/
theorem result_complete {t : Tree} (wf : WF t) {o : Opts} {args : List Str}
    (hne : (discover t o args).didError = false) {a : Str} (ha : a ∈ args)
    {Fs : List Path} (hs : specArg t o.recurse (splitOn ',' o.exts) a = some Fs)
    {F : Path} (hF : F ∈ Fs) :
    ∃ f ∈ (discover t o args).files, resolve t f = some F := by
  suffices h : ∃ f ∈ contrib t o.recurse (splitOn ',' o.exts) a, resolve t f = some F by
    obtain ⟨f, hf, hr⟩ := h
    exact ⟨f, mem_discover_complete hne ⟨a, ha, hf⟩, hr⟩
  simp only [specArg] at hs
  by_cases hg : isGlobArg a = true
  · simp only [hg, if_true] at hs
    split at hs
    · cases hs
    · simp only [Option.some.injEq] at hs
      subst hs
      obtain ⟨g, hgm, hFg⟩ := List.mem_flatMap.mp hF
      cases hsp : specPath t o.recurse (splitOn ',' o.exts) g with
      | none => simp [hsp] at hFg
      | some Fs' =>
        simp only [hsp, Option.getD_some] at hFg
        obtain ⟨f, hf, hr⟩ := processPath_complete wf hsp hFg
        refine ⟨f, ?_, hr⟩
        simp only [contrib, hg, if_true]
        exact List.mem_flatMap.mpr ⟨g, hgm, hf⟩
  · simp only [hg] at hs
    obtain ⟨f, hf, hr⟩ := processPath_complete wf hs hF
    refine ⟨f, ?_, hr⟩
    simpa [contrib, hg] using hf

example : WF tree1 := by decide
example : specArg tree1 true [s ".md"] (s "d") = some [[s "d", s "e.md"], [s "d", s "f", s "g.md"]] := by
  decide

/-- The error flag does not depend on the order of the arguments. -/
theorem error_flag_order_invariant {t : Tree} {o : Opts} {args args' : List Str}
    (hp : args.Perm args') : (discover t o args).didError = (discover t o args').didError := by
  rw [discover_err, discover_err]; exact hp.any_eq

/-- Without an error the result does not depend on the order of the arguments. -/
theorem files_order_invariant {t : Tree} {o : Opts} {args args' : List Str}
    (hp : args.Perm args') (hne : (discover t o args).didError = false) :
    (discover t o args).files = (discover t o args').files := by
  have hne' : (discover t o args').didError = false := by
    rw [← error_flag_order_invariant hp]; exact hne
  refine StrictSorted.ext (discover_strict t o args) (discover_strict t o args') fun f => ?_
  constructor
  · intro h
    obtain ⟨a, ha, hf⟩ := mem_discover_sound h
    exact mem_discover_complete hne' ⟨a, hp.mem_iff.mp ha, hf⟩
  · intro h
    obtain ⟨a, ha, hf⟩ := mem_discover_sound h
    exact mem_discover_complete hne ⟨a, hp.mem_iff.mpr ha, hf⟩

example : (discover tree1 (md false false) [s "d", s "a.md"]).files
    = (discover tree1 (md false false) [s "a.md", s "d"]).files
    ∧ (discover tree1 (md false false) [s "d", s "a.md"]).files = [s "a.md", s "d/e.md"] := by decide

/-- `--recurse` never changes the error flag and, without an error, only adds files. -/
theorem recurse_monotone (t : Tree) (exts : Str) (l : Bool) (args : List Str) :
    (discover t ⟨false, exts, l⟩ args).didError = (discover t ⟨true, exts, l⟩ args).didError ∧
    ((discover t ⟨false, exts, l⟩ args).didError = false →
      ∀ f ∈ (discover t ⟨false, exts, l⟩ args).files, f ∈ (discover t ⟨true, exts, l⟩ args).files) := by
  have herr : (discover t ⟨false, exts, l⟩ args).didError = (discover t ⟨true, exts, l⟩ args).didError := by
    rw [discover_err, discover_err]
    congr 1; funext a; exact argFails_recurse t _ _ _ a
  refine ⟨herr, fun hne f hf => ?_⟩
  obtain ⟨a, ha, hfa⟩ := mem_discover_sound hf
  exact mem_discover_complete (herr ▸ hne) ⟨a, ha, contrib_recurse hfa⟩

example : (discover tree1 (md false false) [s "d"]).files = [s "d/e.md"]
    ∧ (discover tree1 (md true false) [s "d"]).files = [s "d/e.md", s "d/f/g.md"] := by decide


/-! ### each file once; the documented result -/

/-- With canonically spelled arguments no file (identity) is in the result twice: distinct
result strings name distinct files.  (Without the hypothesis: `spelling_dup_witness`.) -/
theorem each_file_once_partial {t : Tree} (wf : WF t) {o : Opts} {args : List Str}
    (hn : ∀ a ∈ args, Normalised a) : ((discover t o args).files.map (resolve t)).Nodup := by
  have hnorm : ∀ f ∈ (discover t o args).files, Normalised f ∧ ∃ F, resolve t f = some F := by
    intro f hf
    obtain ⟨a, ha, hfa⟩ := mem_discover_sound hf
    constructor
    · simp only [contrib] at hfa
      split at hfa
      · obtain ⟨g, hg, hfg⟩ := List.mem_flatMap.mp hfa
        exact processPath_files_normalised wf (glob_normalised wf (hn a ha) hg) hfg
      · exact processPath_files_normalised wf (hn a ha) hfa
    · have := (result_subset_eligible hf).1
      simp only [isFile] at this
      cases h : resolve t f with
      | none => simp [h] at this
      | some F => exact ⟨F, rfl⟩
  refine List.pairwise_map.mpr ?_
  refine List.Pairwise.imp_of_mem ?_ (result_sorted t o args)
  intro f₁ f₂ h₁ h₂ hlt heq
  obtain ⟨n₁, F, r₁⟩ := hnorm f₁ h₁
  obtain ⟨n₂, _, _⟩ := hnorm f₂ h₂
  have r₂ : resolve t f₂ = some F := by rw [← heq]; exact r₁
  exact strLt_ne hlt (normalised_inj n₁ n₂ r₁ r₂)

example : (∀ a ∈ [s "d", s "d/e.md", s "*"], Normalised a) ∧
    (discover tree1 (md false false) [s "d", s "d/e.md", s "*"]).files = [s "a.md", s "d/e.md"] := by decide

/-- **Code = documentation on canonically spelled arguments.**  The error flag is raised exactly
when the guide/property call for an error, and otherwise the result is exactly the documented
list: every designated file once (by identity), canonical spelling, sorted. -/
theorem discover_eq_spec {t : Tree} (wf : WF t) {o : Opts} {args : List Str}
    (hn : ∀ a ∈ args, Normalised a) (hx : ∀ e ∈ splitOn ',' o.exts, '/' ∉ e) :
    (discover t o args).didError = (spec t o args).isNone ∧
      ∀ fs, spec t o args = some fs → (discover t o args).files = fs := by
  have herr : (discover t o args).didError
      = args.any fun a => (specArg t o.recurse (splitOn ',' o.exts) a).isNone := by
    rw [discover_err]
    exact any_congr_mem fun a ha => argFails_spec wf hx (hn a ha)
  constructor
  · rw [herr]; simp only [spec]; split <;> simp_all
  · intro fs hfs
    simp only [spec] at hfs
    split at hfs
    · cases hfs
    · rename_i hany
      have hne : (discover t o args).didError = false := by rw [herr]; simpa using hany
      simp only [Option.some.injEq] at hfs
      subst hfs
      refine StrictSorted.ext (discover_strict t o args)
        (sortStr_strict (nodup_setAddAll (by simp))) fun f => ?_
      rw [mem_sortStr, mem_setAddAll]
      simp only [List.not_mem_nil, false_or, List.mem_map, List.mem_flatMap]
      constructor
      · intro h
        obtain ⟨a, ha, hfa⟩ := mem_discover_sound h
        obtain ⟨F, hF, rfl⟩ := List.mem_map.mp ((contrib_spec wf hx (hn a ha)).mp hfa)
        exact ⟨F, ⟨a, ha, hF⟩, rfl⟩
      · rintro ⟨F, ⟨a, ha, hF⟩, rfl⟩
        exact mem_discover_complete hne
          ⟨a, ha, (contrib_spec wf hx (hn a ha)).mpr (List.mem_map.mpr ⟨F, hF, rfl⟩)⟩

example : spec tree1 (md true false) [s "d", s "a.md", s "d/*.md"]
    = some [s "a.md", s "d/e.md", s "d/f/g.md"] := by decide
example : spec tree1 (md true false) [s "d", s "c.txt"] = none := by decide

/-- The end result of the invocation is the documented one, except in exactly the two situations of
the known findings: list mode with an error but something to list (F-LIST), and scan/fix with no
error and nothing selected (F-NOFILES). -/
theorem outcome_eq_spec_partial {t : Tree} (wf : WF t) {o : Opts} {args : List Str}
    (hn : ∀ a ∈ args, Normalised a) (hx : ∀ e ∈ splitOn ',' o.exts, '/' ∉ e)
    (hlist : ¬ (o.listOnly = true ∧ (discover t o args).didError = true ∧ (discover t o args).files ≠ []))
    (hnone : ¬ (o.listOnly = false ∧ (discover t o args).didError = false ∧ (discover t o args).files = [])) :
    consume (discover t o args) = specOutcome t o args := by
  obtain ⟨herr, hfiles⟩ := discover_eq_spec wf hn hx
  have hl : (discover t o args).didList = o.listOnly := rfl
  simp only [consume, specOutcome, hl]
  cases hs : spec t o args with
  | none =>
    have he : (discover t o args).didError = true := by rw [herr, hs]; rfl
    cases hlo : o.listOnly with
    | false => simp [he]
    | true =>
      have : (discover t o args).files = [] := by
        cases hf : (discover t o args).files with
        | nil => rfl
        | cons x xs => exact absurd ⟨hlo, he, by simp [hf]⟩ hlist
      simp [this]
  | some fs =>
    have he : (discover t o args).didError = false := by rw [herr, hs]; rfl
    have hf := hfiles fs hs
    cases hlo : o.listOnly with
    | true => cases fs <;> simp [hf]
    | false =>
      cases fs with
      | nil => exact absurd ⟨hlo, he, hf⟩ hnone
      | cons x xs => simp [he, hf]

example : consume (discover tree1 (md false true) [s "d", s "a.md"]) = .listed [s "a.md", s "d/e.md"]
    ∧ specOutcome tree1 (md false true) [s "d", s "a.md"] = .listed [s "a.md", s "d/e.md"] := by decide

/-- `glob` (recursion on fuel) never runs out of fuel: any larger fuel gives the same result. -/
theorem glob_fuel_sufficient (t : Tree) (p : Str) (n : Nat) (h : p.length < n) :
    iglobF t n p false = glob t p :=
  iglobF_fuel t n (p.length + 1) p false h (by omega)

example : glob tree1 (s "*/*.md") = [s "d/e.md"] ∧ glob tree1 (s "d/*") = [s "d/e.md", s "d/f"] := by decide

/-! ### the excluded cases, on the model (known findings) -/

/-- F-DUP: `a.md ./a.md` — two spellings, one file, listed twice. -/
theorem spelling_dup_witness :
    (discover tree1 (md false false) [s "a.md", s "./a.md"]).files = [s "./a.md", s "a.md"] ∧
    resolve tree1 (s "./a.md") = resolve tree1 (s "a.md") ∧ ¬ Normalised (s "./a.md") := by decide

/-- F-LIST: `-l a.md nope.md` reports the error, lists a.md, and the invocation ends as a
successful listing; with the arguments swapped nothing is listed. -/
theorem list_mode_error_ignored_witness :
    discover tree1 (md false true) [s "a.md", s "nope.md"]
      = ⟨[s "a.md"], true, true, [.notExist (s "nope.md")], some [s "a.md"]⟩ ∧
    consume (discover tree1 (md false true) [s "a.md", s "nope.md"]) = .listed [s "a.md"] ∧
    consume (discover tree1 (md false true) [s "nope.md", s "a.md"]) = .listedNone ∧
    specOutcome tree1 (md false true) [s "a.md", s "nope.md"] = .listedNone := by decide

/-- F-NOFILES: a directory without eligible files: no error, no files, the scanner is started on
nothing (and main ends in SUCCESS) where the documented outcome is "no files to scan". -/
theorem no_files_selected_witness :
    consume (discover [([s "c.txt"], .file)] (md false false) [s "."]) = .scan [] ∧
    specOutcome [([s "c.txt"], .file)] (md false false) [s "."] = .noFiles := by decide

end Verif.Props.C19
