/-
  C12 — rules are independent: what a rule set reports is the union of what each rule
  reports alone.  Theorems about the faithful engine model for every rule set, every
  rule state, every event sequence (token/line stream).
-/
import Verif.Lemmas.Order
import Verif.Lemmas.Dispatch
import Verif.Model.RuleTable
import Verif.Gen.RuleFields
namespace Verif.Props.C12
open Verif.Model.Engine
variable {τ : Type}

/-- The engine's interleaved dispatch (event by event, rule by rule) collects — up to order —
exactly the concatenation of what every rule collects when it is run alone over the same
events from its own state, and leaves every rule in the state it reaches alone. -/
theorem union_collected (rs : List (Rule τ)) (h : AllNoRaise rs) (ss : States rs)
    (evs : List (Event τ)) :
    (runEvents rs ss evs Acc.empty).2.fault = none ∧
    (runEvents rs ss evs Acc.empty).1 = (eachPure rs ss evs).1 ∧
    (runEvents rs ss evs Acc.empty).2.reps.Perm (eachList rs ss evs).flatten := by
  have e := runEvents_pure rs h evs ss []
  have p := runPure_perm_each rs evs ss
  simp only [Acc.empty] at *
  rw [e]
  refine ⟨rfl, p.1, ?_⟩
  simpa [eachPure_reps] using p.2

/-- Printed output: the failures printed for the whole set are a permutation of the failures
printed for each rule alone (pragma filter and sort commute with union). -/
theorem union_printed (p : Pragmas) (rs : List (Rule τ)) (h : AllNoRaise rs) (ss : States rs)
    (evs : List (Event τ)) :
    (printed p (runEvents rs ss evs Acc.empty).2.reps).Perm
      ((eachList rs ss evs).map (printed p)).flatten := by
  have hu := (union_collected rs h ss evs).2.2
  have h1 : (printed p (runEvents rs ss evs Acc.empty).2.reps).Perm
      ((eachList rs ss evs).flatten.filter fun r => !p.suppressed r) :=
    ((sortReps_perm _).filter _).trans (hu.filter _)
  refine h1.trans ?_
  generalize eachList rs ss evs = L
  induction L with
  | nil => simp
  | cons x xs ih =>
    simp only [List.flatten_cons, List.filter_append, List.map_cons]
    exact List.Perm.append ((sortReps_perm x).filter _).symm ih

/-- Enabling one more rule adds its own reports and nothing else; disabling it removes them and
nothing else: the per-rule report lists of `r :: rs` are `r`'s own list followed, unchanged, by
those of `rs`; the own list is a function of `r`, its state and the events only. -/
theorem enable_adds_own_only (r : Rule τ) (rs : List (Rule τ)) (c : Comp r) (cs : States rs)
    (evs : List (Event τ)) :
    eachList (r :: rs) (c, cs) evs = (alonePure r c evs).2 :: eachList rs cs evs := rfl

/-- …and the whole-set version of the same statement on printed output. -/
theorem disable_removes_own_only (p : Pragmas) (r : Rule τ) (rs : List (Rule τ))
    (h : AllNoRaise (r :: rs)) (c : Comp r) (cs : States rs) (evs : List (Event τ)) :
    (printed p (runEvents (r :: rs) (c, cs) evs Acc.empty).2.reps).Perm
      (printed p (alonePure r c evs).2 ++ printed p (runEvents rs cs evs Acc.empty).2.reps) := by
  refine (union_printed p (r :: rs) h (c, cs) evs).trans ?_
  simp only [eachList, List.map_cons, List.flatten_cons]
  exact List.Perm.append_left _ (union_printed p rs h.2 cs evs).symm

/-- A rule run alone through the real `runAlone` (with the fault plumbing) is the pure run. -/
theorem alone_is_pure (r : Rule τ) (h : r.NoRaise) (c : Comp r) (evs : List (Event τ)) :
    (runAlone r c evs Acc.empty).2.reps = (alonePure r c evs).2 := by
  have := runAlone_pure r h evs c []
  simp only [Acc.empty] at *
  rw [this]; simp

end Verif.Props.C12

/-! ### Code side: no rule writes anything another rule can see -/
namespace Verif.Props.C12
open Verif.Model.RuleTable Verif.Gen.RuleFields

/-- Writes whose root is not `self` (a delivered token, the context, a module global) are exactly
the reviewed list of appends to caller-local lists: no rule mutates a token it was handed, the
scan context's shared objects, or a global. -/
theorem no_shared_writes : rows.flatMap (·.nonSelf) = Baseline.localWrites := by decide +kernel

/-- Class-level mutable attributes are exactly the reviewed constant lookup tables. -/
theorem no_module_state : rows.flatMap (·.classMut) = Baseline.classLevel := by decide +kernel

end Verif.Props.C12
