/-
  C02 — the token stream is lossless: theorems about the mechanism's building blocks.

  Faithful models: Verif.Model.Codec (in-band marker codec of parser_helper.py and the sentinel
  removals of TransformToMarkdown.transform), Verif.Model.Tabs (tab expansion, final-newline
  correction, pragma re-insertion).  The 5 000-line per-token regenerator is not modelled
  (DESIGN §6 C02: partial); it is reached by the document-level identity oracle of tools/props/c02.py.

  Verif.Model.LeadingSpaces (the newline-joined per-line prefix store of list / block-quote tokens, its producer
  methods and the regenerator's index look-ups) and Verif.Model.LeafFields (which pieces of a leaf block's opening
  line go into the token, and how they are written back) are the two building blocks of the mechanism below the
  regenerator: sections "The per-line prefix store" and "Per-leaf field splits".
-/
import Verif.Model.Codec
import Verif.Model.Tabs
import Verif.Lemmas.Codec
import Verif.Lemmas.Tabs
import Verif.Lemmas.LeadingSpaces
import Verif.Lemmas.LeafFields
namespace Verif.Props.C02
open Verif.Model.Codec Verif.Lemmas.Codec Verif.Model.Tabs Verif.Lemmas.Tabs
open Verif.Model.Lines (NL joinNL splitNL)

/-! ## The codec is a bijection on marker-free text -/

/-- `remove_all_from_text` gives back the Markdown source of every marker-free piece list. -/
theorem remove_encode (ps : List Piece) (h : MarkerFree ps) : removeAll (encode ps) = .ok (sourceOf ps) := by
  obtain ⟨h1, h2, h3⟩ := unbs_spec ps h
  unfold removeAll removeAllN
  rw [removeBackspaces_encode ps h]
  show (resolveReplacementMarkers (encode (unbs ps)) >>= fun b => pure b >>= resolveEscapes) = _
  unfold resolveReplacementMarkers
  rw [replAll_encode false (unbs ps) h1 h2, outOf_false _ h2, h3]
  show resolveEscapes (sourceOf ps) = _
  have he : ESC ∉ sourceOf ps := by
    rw [← h3, ← outOf_false _ h2]
    exact not_mem_outOf false special_ESC ESC_ne_NOOP _ h1 h2
  exact resolveEscapes_noEsc _ he

example : MarkerFree [.lit 'a', .bsEscaped '*', .replaced "&amp;".toList "&".toList, .bsReplaced '<' "&lt;".toList,
    .removed "  ".toList, .nested "&amp;".toList "&".toList "&amp;".toList] ∧
    sourceOf [.lit 'a', .bsEscaped '*', .replaced "&amp;".toList "&".toList, .bsReplaced '<' "&lt;".toList,
      .removed "  ".toList, .nested "&amp;".toList "&".toList "&amp;".toList] = "a\\*&amp;\\<  &amp;".toList := by
  decide

/-- `resolve_all_from_text` gives the rendered text of every marker-free piece list. -/
theorem resolve_encode (ps : List Piece) (h : MarkerFree ps) : resolveAll (encode ps) = .ok (renderedOf ps) := by
  obtain ⟨h1, h2, h3⟩ := unbsR_spec ps h
  unfold resolveAll
  rw [resolveBackspaces_encode ps h]
  show (resolveReferences (encode (unbsR ps)) >>= fun b => resolveNoops b >>= resolveEscapes) = _
  unfold resolveReferences
  rw [replAll_encode true (unbsR ps) h1 h2]
  show (resolveNoops (outOf true (unbsR ps)) >>= resolveEscapes) = _
  have he : ESC ∉ outOf true (unbsR ps) := not_mem_outOf true special_ESC ESC_ne_NOOP _ h1 h2
  unfold resolveNoops removeSequence
  rw [cutAll_filter NOOP _ he, filter_NOOP_outOf _ h1 h2, h3]
  show resolveEscapes (renderedOf ps) = _
  have he' : ESC ∉ renderedOf ps := by
    rw [← h3, ← filter_NOOP_outOf _ h1 h2]
    intro hm
    exact he (List.mem_filter.mp hm).1
  exact resolveEscapes_noEsc _ he'

example : resolveAll (encode [.lit 'a', .bsEscaped '*', .replaced "&amp;".toList "&".toList, .bsReplaced '<' "&lt;".toList,
    .removed "  ".toList, .nested "&amp;".toList "&".toList "&amp;".toList]) = .ok "a*&&lt;&amp;".toList := by
  decide

/-- Escaping document text and un-escaping it is the identity — for every text in which no U+0005
stands directly before another marker character. -/
theorem escape_roundtrip (s : Str) (h : escOK s = true) : removeAll (escapeSpecial s) = .ok s := by
  have gB := escapeSpecial_guarded BS special_BS (by decide) s
  have gA := escapeSpecial_guarded AL special_AL (by decide) s
  unfold removeAll removeAllN removeBackspaces
  rw [cutAll_guarded BS false 0 _ gB]
  show (resolveReplacementMarkers (escapeSpecial s) >>= fun b => pure b >>= resolveEscapes) = _
  unfold resolveReplacementMarkers
  rw [replAll_guarded false _ gA]
  exact resolveEscapes_escapeSpecial s h

example : escOK [ESC, 'x', BS, AL, NOOP, ESC] = true ∧
    removeAll (escapeSpecial [ESC, 'x', BS, AL, NOOP, ESC]) = .ok [ESC, 'x', BS, AL, NOOP, ESC] := by decide

/-- the same for the rendering direction. -/
theorem escape_roundtrip_resolve (s : Str) (h : escOK s = true) : resolveAll (escapeSpecial s) = .ok s := by
  have gB := escapeSpecial_guarded BS special_BS (by decide) s
  have gA := escapeSpecial_guarded AL special_AL (by decide) s
  have gN := escapeSpecial_guarded NOOP special_NOOP (by decide) s
  unfold resolveAll resolveBackspaces
  rw [cutAll_guarded BS true 0 _ gB]
  show (resolveReferences (escapeSpecial s) >>= fun b => resolveNoops b >>= resolveEscapes) = _
  unfold resolveReferences
  rw [replAll_guarded true _ gA]
  show (resolveNoops (escapeSpecial s) >>= resolveEscapes) = _
  unfold resolveNoops removeSequence
  rw [cutAll_guarded NOOP false 0 _ gN]
  exact resolveEscapes_escapeSpecial s h

example : resolveAll (escapeSpecial [AL, 'x', ESC]) = .ok [AL, 'x', ESC] := by decide

/-- The hypothesis of `escape_roundtrip` is needed: two adjacent U+0005 of the document come back as three. -/
theorem escape_roundtrip_excluded :
    escOK [ESC, ESC] = false ∧ removeAll (escapeSpecial [ESC, ESC]) = .ok [ESC, ESC, ESC] := by decide

/-! ## Where the domain ends (negative results) -/

/-- U+0005 of the document directly before a replaced character: the (correctly escaped) U+0005 is taken
for an escape of the following `\a`, the marker is mis-parsed and `str.index` raises (§8 F-X05). -/
theorem codec_collision_x05 : ∃ ps, ¬ MarkerFree ps ∧ removeAll (encode ps) ≠ .ok (sourceOf ps) :=
  ⟨[.lit ESC, .replaced ['<'] "&lt;".toList], by decide, by decide⟩

theorem codec_collision_x05_raises :
    removeAll (encode [.lit ESC, .replaced ['<'] "&lt;".toList]) = .error .valueError ∧
    resolveAll (encode [.lit ESC, .replaced ['<'] "&lt;".toList]) = .error .valueError := by decide

/-- a replacement by the empty string is read as the opening of a nested marker. -/
theorem codec_collision_empty_replacement :
    ¬ MarkerFree [.replaced ['x'] []] ∧ removeAll (encode [.replaced ['x'] []]) = .error .valueError := by decide

/-- `resolve_backspaces_from_text` (Appendix A item 5): a `\b` at index 0 of a longer text is found again for
ever; after a cut the loop resumes one position too far, so the second of two adjacent `\b` survives.
Neither shape is in the image of `encode` (`resolve_encode`). -/
theorem resolveBackspaces_defects :
    resolveBackspaces [BS, 'x'] = .error .hang ∧ resolveBackspaces [BS] = .ok [] ∧
    resolveBackspaces ['a', 'b', BS, BS] = .ok ['a', BS] := by decide

/-- Every document character equal to one of the three `ParserLogger` sentinels is deleted by the
clean-up at the end of `TransformToMarkdown.transform` (§8 F-THORN). -/
theorem sentinel_collision (s : Str) (c : Char) (hc : c = 'þ' ∨ c = '艨' ∨ c = '艩') (h : c ∈ s) :
    stripSentinels s ≠ s := by
  intro e
  have hin : c ∈ stripSentinels s := by rw [e]; exact h
  unfold stripSentinels removeChar at hin
  simp only [List.mem_filter] at hin
  rcases hc with rfl | rfl | rfl
  · exact absurd hin.2 (by decide)
  · exact absurd hin.1.1.2 (by decide)
  · exact absurd hin.1.2 (by decide)

example : stripSentinels "aþb".toList = "ab".toList := by decide

/-- …and nothing else is touched. -/
theorem stripSentinels_id (s : Str) (h : ∀ c ∈ s, c ≠ 'þ' ∧ c ≠ '艨' ∧ c ≠ '艩') : stripSentinels s = s := by
  unfold stripSentinels removeChar
  have f : ∀ (x : Char) (t : Str), (∀ c ∈ t, c ≠ x) → t.filter (· != x) = t := by
    intro x t ht
    exact filter_ne_of_not_mem (fun hm => ht x hm rfl)
  rw [f SENT_START s (fun c hc => (h c hc).2.1), f SENT_END s (fun c hc => (h c hc).2.2), f SENT_BLAH s (fun c hc => (h c hc).1)]

example : stripSentinels "aéb".toList = "aéb".toList := by decide

/-! ## Tab expansion -/

theorem detab_noTab : ∀ (s : Str) (col : Nat), TAB ∉ detab col s
  | [], _ => by simp [detab]
  | c :: s, col => by
    by_cases hc : c = TAB
    · rw [detab, if_pos hc]
      simp only [List.mem_append, List.mem_replicate, not_or]
      exact ⟨fun h => absurd h.2 (by decide), detab_noTab s _⟩
    · rw [detab, if_neg hc]
      simp only [List.mem_cons, not_or]
      exact ⟨fun e => hc e.symm, detab_noTab s _⟩

theorem detab_id_of_noTab (s : Str) (col : Nat) (h : TAB ∉ s) : detab col s = s := detab_id_of_noTab' s col h

/-- The section-by-section loop of `TabHelper.detabify_string` (faithful model `detabify`) computes the one-pass
reference `detab`, for every string and start column — so the theorems of this section hold for the real loop's model. -/
theorem detabify_eq_detab (s : Str) (delta : Nat) : detabify s delta = detab delta s := detabify_eq_detab' s delta

example : detabify "a \t b\t".toList 1 = "a   b  ".toList := by decide

theorem detab_length_ge (s : Str) (col : Nat) : s.length ≤ (detab col s).length := detab_length_ge' s col

/-- a tab always advances to the next multiple of four, by one to four columns. -/
theorem tab_stop (col : Nat) : (col + tabWidth col) % 4 = 0 ∧ 1 ≤ tabWidth col ∧ tabWidth col ≤ 4 :=
  ⟨tabWidth_stop col, tabWidth_pos col, tabWidth_le col⟩

/-- the map from character index to visual column is monotone … -/
theorem colAfter_mono (col : Nat) (s : Str) (i j : Nat) (h : i ≤ j) : colAfter col s i ≤ colAfter col s j := by
  unfold colAfter
  have e : s.take j = s.take i ++ (s.take j).drop i := by
    have := List.take_append_drop i (s.take j)
    rw [List.take_take, Nat.min_eq_left h] at this
    exact this.symm
  rw [e, detab_append]
  simp

/-- … and strictly so inside the string. -/
theorem colAfter_strict (col : Nat) (s : Str) (i j : Nat) (h : i < j) (hj : j ≤ s.length) :
    colAfter col s i < colAfter col s j := by
  unfold colAfter
  have e : s.take j = s.take i ++ (s.take j).drop i := by
    have := List.take_append_drop i (s.take j)
    rw [List.take_take, Nat.min_eq_left (Nat.le_of_lt h)] at this
    exact this.symm
  rw [e, detab_append]
  have hl : 1 ≤ ((s.take j).drop i).length := by simp; omega
  have := detab_length_ge ((s.take j).drop i) (col + (detab col (s.take i)).length)
  simp; omega

example : detab 0 "a\tb".toList = "a   b".toList ∧ detab 2 "\t\t".toList = "      ".toList ∧
    colAfter 0 "a\tb".toList 2 = 4 := by decide

/-! ## The final-newline correction -/

theorem terminateAll_eq : ∀ (ls : List Str), ls ≠ [] → terminateAll ls = joinNL ls ++ [NL]
  | [l], _ => by simp [terminateAll, joinNL, Verif.Model.Lines.joinOn]
  | l :: m :: ls, _ => by
    rw [terminateAll, terminateAll_eq (m :: ls) (by simp), joinNL_cons_cons]; simp

/-- The handlers emit every line of the document followed by a newline; dropping one final newline
gives back the document, whether or not it ended in a newline. -/
theorem final_newline_rule (d : Str) : finalNewlineRule (terminateAll (splitNL d)) false = d := by
  have hne : splitNL d ≠ [] := by simp [splitNL, Verif.Model.Lines.splitOn]
  have hj : joinNL (splitNL d) = d := Verif.Lemmas.Lines.joinOn_splitOn NL d
  rw [terminateAll_eq _ hne, hj]
  unfold finalNewlineRule
  simp

example : finalNewlineRule (terminateAll (splitNL "a\n\nb\n".toList)) false = "a\n\nb\n".toList := by decide

/-- under the forced-fence exception nothing is dropped. -/
theorem final_newline_keep (s : Str) : finalNewlineRule s true = s := by
  unfold finalNewlineRule; simp

/-! ## Pragma lines -/

/-- Re-inserting the stripped pragma lines into the regenerated rest gives back the document, for every
recogniser `isP`, provided the pragma lines contain no tab (they are passed through `detabify_string`) and —
the line-count hypothesis — if the first line is a pragma then the rest is not the empty string standing
for one empty line (`""` is then taken for "no lines"). -/
theorem pragma_reinsert (isP : Str → Bool) (ls : List Str)
    (hNL : ∀ l ∈ ls, NL ∉ l) (hTab : ∀ l ∈ ls, isP l = true → TAB ∉ l)
    (hCount : ∀ l rest, ls = l :: rest → isP l = true →
      joinNL (stripFrom isP 2 rest).1 ≠ [] ∨ (stripFrom isP 2 rest).1 = []) :
    reinsert (joinNL (strip isP ls).1) (strip isP ls).2 = joinNL ls := by
  have := reinsert_stripFrom isP ls [] (by simp) hNL hTab (fun _ => hCount)
  simpa [strip] using this

/-- the same over documents. -/
theorem pragma_reinsert_doc (isP : Str → Bool) (d : Str)
    (hTab : ∀ l ∈ splitNL d, isP l = true → TAB ∉ l)
    (hCount : ∀ l rest, splitNL d = l :: rest → isP l = true →
      joinNL (stripFrom isP 2 rest).1 ≠ [] ∨ (stripFrom isP 2 rest).1 = []) :
    reinsert (joinNL (strip isP (splitNL d)).1) (strip isP (splitNL d)).2 = d := by
  rw [pragma_reinsert isP (splitNL d) (Verif.Lemmas.Lines.splitOn_noSep NL d) hTab hCount]
  exact Verif.Lemmas.Lines.joinOn_splitOn NL d

example : reinsert (joinNL (strip (fun l => l.head? == some '!') (splitNL "a\n!p\n!q\nb\n".toList)).1)
    (strip (fun l => l.head? == some '!') (splitNL "a\n!p\n!q\nb\n".toList)).2 = "a\n!p\n!q\nb\n".toList := by decide

/-- The two excluded points are real: a document that is one pragma line plus the final newline loses
the newline; a tab inside a pragma line is expanded. -/
theorem pragma_reinsert_excluded :
    reinsert (joinNL (strip (fun l => l.head? == some '!') (splitNL "!p\n".toList)).1)
      (strip (fun l => l.head? == some '!') (splitNL "!p\n".toList)).2 = "!p".toList ∧
    reinsert (joinNL (strip (fun l => l.head? == some '!') (splitNL "!\tp\na".toList)).1)
      (strip (fun l => l.head? == some '!') (splitNL "!\tp\na".toList)).2 = "!   p\na".toList := by decide

/-! ## The per-line prefix store (`LeadingSpaces`) -/
section LeadingSpaces
open Verif.Model.LeadingSpaces Verif.Lemmas.LeadingSpaces

deriving instance DecidableEq for Except

/-- **List token.**  Recording the prefixes of consecutive lines with `add_leading_spaces` and reading the store back
with the regenerator's `__adjust` look-ups gives the prefixes back — for every list of prefixes none of which
contains a newline; the empty list included (`None` is "no part", `""` is "one empty part"). -/
theorem leading_store_roundtrip (ps : List Str) (h : ∀ p ∈ ps, NL ∉ p) :
    consumeAllList (storeAllList ps) = .ok ps := by
  cases ps with
  | nil => rfl
  | cons p ps =>
    rw [storeAllList_cons]
    unfold consumeAllList partCount
    simp only
    rw [drain_eq _ _ 0 (by omega)]
    simp only [List.drop_zero, List.take_length]
    rw [show splitNL (joinNL (p :: ps)) = p :: ps from Verif.Lemmas.Lines.splitOn_joinOn NL (p :: ps) (by simp) h]

example : storeAllList ["  ".toList, [], "   ".toList] = ⟨some "  \n\n   ".toList⟩ ∧
    consumeAllList (storeAllList ["  ".toList, [], "   ".toList]) = .ok ["  ".toList, [], "   ".toList] ∧
    storeAllList [[]] = ⟨some []⟩ ∧ consumeAllList (storeAllList [[]]) = .ok [[]] ∧
    storeAllList [] = ⟨none⟩ ∧ consumeAllList (storeAllList []) = .ok [] := by decide

/-- **Block-quote token.**  The same with `add_bleading_spaces` + `leading_text_index += 1` and the token's own
`calculate_next_bleading_space_part()`: what comes back is the list of prefixes *up to the store's ambiguity* — leading
empty prefixes are swallowed and "nothing" reads back as one empty prefix (`bqNormal`). -/
theorem leading_store_roundtrip_bq (ps : List Str) (h : ∀ p ∈ ps, NL ∉ p) :
    consumeAllBq (storeAllBq ps) = .ok (bqNormal ps) := by
  rw [consumeAllBq_eq _ (storeAllBq_tabbed ps), storeAllBq_leading]
  unfold bqNormal
  cases hr : ps.dropWhile (fun p => p.isEmpty) with
  | nil => rfl
  | cons q qs =>
    have hn := dropWhile_noNL ps h
    rw [hr] at hn
    simp only
    rw [show splitNL (joinNL (q :: qs)) = q :: qs from Verif.Lemmas.Lines.splitOn_joinOn NL (q :: qs) (by simp) hn]

/-- … which is the identity exactly on the lists that start with a non-empty prefix (a block quote's first line
always has at least its `>`). -/
theorem leading_store_roundtrip_bq_partial (p : Str) (ps : List Str) (hp : p ≠ []) (h : ∀ q ∈ p :: ps, NL ∉ q) :
    consumeAllBq (storeAllBq (p :: ps)) = .ok (p :: ps) := by
  rw [leading_store_roundtrip_bq _ h]
  unfold bqNormal
  have : p.isEmpty = false := by cases p with | nil => exact absurd rfl hp | cons _ _ => rfl
  simp [List.dropWhile_cons, this]

example : (storeAllBq ["> ".toList, ">".toList, "> ".toList]).leading = "> \n>\n> ".toList ∧
    (storeAllBq ["> ".toList, ">".toList, "> ".toList]).idx = 3 ∧
    consumeAllBq (storeAllBq ["> ".toList, ">".toList, "> ".toList]) = .ok ["> ".toList, ">".toList, "> ".toList] := by
  decide

/-- The excluded points are real.  (1) `"".split("\n") == [""]`: the empty block-quote store reads back as one empty
prefix; (2) an empty prefix added to the empty store disappears, so the next line's prefix is read one line early and
the index ends up outside the store; (3) a prefix containing a newline comes back as two. -/
theorem leading_store_excluded :
    consumeAllBq (storeAllBq []) = .ok [[]] ∧
    (storeAllBq [[], ">".toList]).leading = ">".toList ∧ consumeAllBq (storeAllBq [[], ">".toList]) = .ok [">".toList] ∧
    (storeAllBq [[], ">".toList]).idx = 2 ∧ (storeAllBq [[], ">".toList]).count = 1 ∧
    (storeAllBq [[], ">".toList]).calcNext = .error .index ∧
    consumeAllList (storeAllList ["a\nb".toList]) = .ok ["a".toList, "b".toList] := by decide

/-- **The index never leaves the store.**  Along every run of token operations that respects the protocol `Legal`
(a line's prefix is free of newlines and is not added to an empty store that has already been indexed; the last part
is only removed after a line has been recorded; the index is only advanced, or written directly, inside the store) the
block-quote token's
`leading_text_index` satisfies `0 ≤ idx ≤ len(bleading_spaces.split("\n"))`. -/
theorem leading_index_inv (ops : List BqOp) (t : BqTok) (h : BqTok.LegalRun BqTok.new ops t) :
    0 ≤ t.idx ∧ t.idx ≤ t.count :=
  bq_run_inv h ⟨by decide, by decide⟩

/-- one step of it, from any state -/
theorem leading_index_step (t : BqTok) (op : BqOp) (hI : 0 ≤ t.idx ∧ t.idx ≤ t.count) (hL : t.Legal op) :
    0 ≤ (t.apply op).idx ∧ (t.apply op).idx ≤ (t.apply op).count := bq_step_inv t op hI hL

/-- a legal run through every kind of operation: three lines, the last replaced (`remove` + `add` as `TabHelper` does),
two parts consumed, the index reset -/
example : BqTok.LegalRun BqTok.new
    [.addLine "> ".toList none, .addLine ">".toList none, .addLine ">  ".toList none, .removeLast, .add "> ".toList false none,
     .resetIdx, .next, .next, .peek (-1)]
    ⟨"> \n>\n> ".toList, 2, [], true⟩ := by
  repeat (first | exact BqTok.LegalRun.nil _ | refine BqTok.LegalRun.cons (by decide) ?_)

/-- …and where the protocol ends: (1) an empty first prefix followed by a second line breaks the bound; (2) removing
from a store no line was recorded in makes the index negative — and a negative index *wraps around* in the next
look-up instead of failing; (3) a look-up past the end raises `IndexError` in the token's method, fails the assertion
in `__adjust`, and is silently skipped (no prefix at all) in `__apply_primary_transformation_adjust_container_line`. -/
theorem leading_index_excluded :
    ((BqTok.new.apply (.addLine [] none)).apply (.addLine ">".toList none)).idx = 2 ∧
    ((BqTok.new.apply (.addLine [] none)).apply (.addLine ">".toList none)).count = 1 ∧
    (BqTok.new.apply .removeLast).idx = -1 ∧
    ((BqTok.new.removeLast.2.add "x".toList).add "y".toList).calcNext false 0
      = .ok ("y".toList, ⟨"x\ny".toList, -1, [], true⟩) ∧
    (storeAllBq [">".toList]).calcNext = .error .index ∧
    adjustPart (some ">".toList) 1 = .error .assertion ∧
    primaryList ⟨some ">".toList⟩ 1 = .ok none ∧ primaryBq (storeAllBq [">".toList]) 1 = none := by decide

/-- `__adjust` fails past the end, for every store -/
theorem adjust_past_end (s : Str) (idx : Nat) (h : (splitNL s).length ≤ idx) :
    adjustPart (some s) idx = .error .assertion :=
  adjustPart_past (some s) idx h (by simp)

/-- **`remove_last_leading_space` undoes `add_leading_spaces`**, from every state of the list token, for every part
without a newline. -/
theorem remove_last_undoes_add (t : ListTok) (ws : Str) (h : NL ∉ ws) : (t.add ws).removeLast = .ok (ws, t) := by
  cases t with
  | mk leading =>
    cases leading with
    | none =>
      simp only [ListTok.add, ListTok.removeLast]
      rw [rfindNL_none.mpr h]
    | some s =>
      simp only [ListTok.add, ListTok.removeLast]
      rw [rfindNL_append h]
      simp

/-- the same for the block-quote token and its per-line step: the removed part is the added one, the store and the
index are as before (only `weird_kludge_five` may differ). -/
theorem remove_last_undoes_add_bq (t : BqTok) (ws : Str) (h : NL ∉ ws) :
    (t.addLine ws).removeLast.1 = ws ∧ (t.addLine ws).removeLast.2.leading = t.leading ∧
    (t.addLine ws).removeLast.2.idx = t.idx ∧ (t.addLine ws).removeLast.2.tabbed = t.tabbed := by
  by_cases hne : t.leading = []
  · have hl := addLine_leading_empty t ws hne
    unfold BqTok.removeLast
    rw [hl, rfindNL_none.mpr h]
    refine ⟨rfl, hne.symm, ?_, addLine_tabbed t ws⟩
    show (t.addLine ws).idx - 1 = t.idx
    rw [addLine_idx]; omega
  · have hl := addLine_leading_nonempty t ws hne
    unfold BqTok.removeLast
    rw [hl, rfindNL_append h]
    refine ⟨by simp, by simp, ?_, addLine_tabbed t ws⟩
    show (t.addLine ws).idx - 1 = t.idx
    rw [addLine_idx]; omega

example : (ListTok.new.add "  ".toList).removeLast = .ok ("  ".toList, ListTok.new) ∧
    ((ListTok.new.add "  ".toList).add [] ).removeLast = .ok ([], ListTok.new.add "  ".toList) := by decide

/-- The boundary: (1) a part with a newline is only half removed; (2) `remove_last_leading_space` on the `None`
store is an `AssertionError`, on the `""` store it returns `""` and leaves `None`: for the list token the two are
different states; (3) for the block-quote token they are the same state, and removing twice what was added twice
does not restore the index relation; (4) the tabbed original recorded with a part stays behind when the part is
removed, and is served for whatever part is recorded there next. -/
theorem remove_last_excluded :
    (ListTok.new.add "a\nb".toList).removeLast = .ok ("b".toList, ⟨some "a".toList⟩) ∧
    ListTok.new.removeLast = .error .assertion ∧
    (ListTok.new.add []).removeLast = .ok ([], ListTok.new) ∧ ListTok.new.add [] ≠ ListTok.new ∧
    (BqTok.new.addLine []).leading = BqTok.new.leading ∧
    (((BqTok.new.addLine []).addLine []).removeLast.2.removeLast.2).idx = 0 ∧
    ((BqTok.new.addLine []).addLine []).count = 1 ∧
    (((BqTok.new.addLine ">".toList (some "\t>".toList)).removeLast.2).addLine "> ".toList).resetIdx.calcNext
      = .ok ("\t>".toList, ⟨"> ".toList, 1, [(0, "\t>".toList)], true⟩) := by decide

end LeadingSpaces

/-! ## Per-leaf field splits (`f_fields`) -/
section LeafFields
open Verif.Model.Recognisers Verif.Model.LeafFields

/-- **ATX heading** (opening sequence + closing sequence): every accepted line is stored as seven consecutive
pieces — indentation, `#`×n, white space, text, white space, `#`×m, white space — and `__rehydrate_atx_heading` /
`__rehydrate_text` / `__rehydrate_atx_heading_end` concatenate exactly these: nothing lost, nothing twice. -/
theorem atx_fields (line : List Char) (h : lineAtx line = .ok true) :
    ∃ f, fieldsAtx line = .ok (some f) ∧ f.reassemble = line := by
  have hs := fieldsAtx_isSome line
  rw [h] at hs
  cases hf : fieldsAtx line with
  | error e => rw [hf] at hs; cases hs
  | ok o =>
    cases o with
    | none => rw [hf] at hs; cases hs
    | some f => exact ⟨f, rfl, fieldsAtx_reassemble line f hf⟩

/-- fields exist only for accepted lines, and computing them never raises -/
theorem atx_fields_iff (line : List Char) : (∃ f, fieldsAtx line = .ok (some f)) ↔ lineAtx line = .ok true := by
  rw [← fieldsAtx_isSome]
  cases fieldsAtx line with
  | error e => simp [Except.map]
  | ok o => cases o <;> simp [Except.map]

example : ∃ f, fieldsAtx "  ## a b ##  ".toList = .ok (some f) ∧ f.reassemble = "  ## a b ##  ".toList :=
  atx_fields _ (by rw [lineAtx_eval]; decide)

set_option linter.unusedSimpArgs false in
/-- the seven pieces of `"  ## a b ##  "`; and a `#` run that is not a closing sequence stays in the text, with the
white space after it (`"# a#  "`) -/
example : fieldsAtx "  ## a b ##  ".toList = .ok (some ⟨"  ".toList, 2, " ".toList, "a b".toList, " ".toList, 2, "  ".toList⟩) ∧
    fieldsAtx "# a#  ".toList = .ok (some ⟨[], 1, " ".toList, "a#  ".toList, [], 0, []⟩) := by
  constructor
  · simp [fieldsAtx, leadWs_eq, isAtxHeading, collectWhileCharVerified_eq, collectWhileSpaces, collectWhileOneOf_eq, scanTo, Verif.Model.Recognisers.slice,
      atxAdjust, extractSpacesFromEnd, sfeLoop, atxHashLoop, charAt, isWsAt, isCharAt, isCharAtOneOf, collectBackwardsSpacesVerified,
      collectBackwardsOneOf, cbwLoop, lenLe, Verif.Model.Recognisers.calcLength, tabStep, isWsChar, Verif.Model.Recognisers.SP,
      Verif.Model.Recognisers.TAB]
  · simp [fieldsAtx, leadWs_eq, isAtxHeading, collectWhileCharVerified_eq, collectWhileSpaces, collectWhileOneOf_eq, scanTo, Verif.Model.Recognisers.slice,
      atxAdjust, extractSpacesFromEnd, sfeLoop, atxHashLoop, charAt, isWsAt, isCharAt, isCharAtOneOf, collectBackwardsSpacesVerified,
      collectBackwardsOneOf, cbwLoop, lenLe, Verif.Model.Recognisers.calcLength, tabStep, isWsChar, Verif.Model.Recognisers.SP,
      Verif.Model.Recognisers.TAB]

/-- **Thematic break**: indentation + the rest of the line. -/
theorem thematic_fields (line : List Char) (h : lineThematic line = .ok true) :
    ∃ f, fieldsThematic line = .ok (some f) ∧ f.reassemble = line := by
  have hs := fieldsThematic_isSome line
  rw [h] at hs
  cases hf : fieldsThematic line with
  | error e => rw [hf] at hs; cases hs
  | ok o =>
    cases o with
    | none => rw [hf] at hs; cases hs
    | some f => exact ⟨f, rfl, fieldsThematic_reassemble line f hf⟩

example : ∃ f, fieldsThematic " * * *\t".toList = .ok (some f) ∧ f.reassemble = " * * *\t".toList :=
  thematic_fields _ (by rw [lineThematic_eval]; decide)

/-- **Setext underline**: indentation, the run of `=` / `-` (as character and count), trailing white space. -/
theorem setext_fields (line : List Char) (h : lineSetext line = .ok true) :
    ∃ f, fieldsSetext line = .ok (some f) ∧ f.reassemble = line := by
  have hs := fieldsSetext_isSome line
  rw [h] at hs
  cases hf : fieldsSetext line with
  | error e => rw [hf] at hs; cases hs
  | ok o =>
    cases o with
    | none => rw [hf] at hs; cases hs
    | some f => exact ⟨f, rfl, fieldsSetext_reassemble line f hf⟩

example : fieldsSetext "  ===  ".toList = .ok (some ⟨"  ".toList, '=', 3, "  ".toList⟩) := by
  simp [fieldsSetext, leadWs_eq, collectWhileCharVerified_eq, extractSpacesVerified, extractSpaces_eq, scanTo, Verif.Model.Recognisers.slice, charAt,
    isCharAtOneOf, lenLe, Verif.Model.Recognisers.calcLength, tabStep, isWsChar, Verif.Model.Recognisers.SP, Verif.Model.Recognisers.TAB]

/-- **Closing fence**: indentation, fence length (the character is the opening fence's), trailing spaces.  (A line with a
tab after the fence does not close the block: `onlySpacesAfterFence`, part of `lineFenceClose`.) -/
theorem fence_close_fields (line : List Char) (fc : Char) (fn : Nat) (h : lineFenceClose line fc fn = .ok true) :
    ∃ f, fieldsFenceClose line fc fn = .ok (some f) ∧ f.reassemble fc = line := by
  have hs := fieldsFenceClose_isSome line fc fn
  rw [h] at hs
  cases hf : fieldsFenceClose line fc fn with
  | error e => rw [hf] at hs; cases hs
  | ok o =>
    cases o with
    | none => rw [hf] at hs; cases hs
    | some f => exact ⟨f, rfl, fieldsFenceClose_reassemble line fc fn f hf⟩

example : lineFenceClose " ~~~~ ".toList '~' 3 = .ok true ∧
    fieldsFenceClose " ~~~~ ".toList '~' 3 = .ok (some ⟨" ".toList, 4, " ".toList⟩) := by
  constructor <;>
  simp [lineFenceClose, isFenceClose, fieldsFenceClose, onlySpacesAfterFence, Except.map, leadWs_eq, isFencedCodeBlock, collectWhileCharVerified_eq, extractAsciiWs_eq,
    extractSpacesVerified, extractSpaces_eq, scanTo, Verif.Model.Recognisers.slice, charAt, isCharAtOneOf, lenLe, Verif.Model.Recognisers.calcLength, tabStep,
    asciiWs, isWsChar, Verif.Model.Recognisers.SP, Verif.Model.Recognisers.TAB]

/-- **Blank line**: the whole line is the token's one field. -/
theorem blank_fields (line : List Char) (h : isBlankLine line = true) : fieldsBlank line = .ok (some line) := by
  rw [fieldsBlank_eq, if_pos h]

example : fieldsBlank " \t\x0c".toList = .ok (some " \t\x0c".toList) := blank_fields _ (by decide)

/-- **Opening fence, partial.**  Indentation, fence, white space, info string, rest: consecutive pieces of the line —
for every accepted line that has an info string or no white space after the fence … -/
theorem fence_open_fields_partial (line : List Char) (h : lineFenceOpen line = .ok true) :
    ∃ f, fieldsFenceOpen line = .ok (some f) ∧ ((f.info ≠ [] ∨ f.wsBeforeInfo = []) → f.reassemble = line) := by
  have hs := fieldsFenceOpen_isSome line
  rw [h] at hs
  cases hf : fieldsFenceOpen line with
  | error e => rw [hf] at hs; cases hs
  | ok o =>
    cases o with
    | none => rw [hf] at hs; cases hs
    | some f => exact ⟨f, rfl, fieldsFenceOpen_reassemble_partial line f hf⟩

example : fieldsFenceOpen "``` py x  ".toList = .ok (some ⟨[], '`', 3, " ".toList, "py".toList, " x  ".toList⟩) := by
  simp [fieldsFenceOpen, leadWs_eq, isFencedCodeBlock, collectWhileCharVerified_eq, extractAsciiWs_eq, extractUntilSpaces_eq, scanTo, Verif.Model.Recognisers.slice,
    charAt, collectBackwardsOneOf, cbwLoop, isCharAtOneOf, lenLe, Verif.Model.Recognisers.calcLength, asciiWs, isWsChar,
    Verif.Model.Recognisers.SP, Verif.Model.Recognisers.TAB]

/-- … and on the excluded shape — no info string, white space after the fence — the white space is stored twice
(`extracted_whitespace_before_info_string` and `text_after_extracted_text`) and written back twice (§8 F-FENCE-TRAILWS):
the leaf-level half of C02 fails there, for every such line. -/
theorem fence_open_fields_excluded (line : List Char) (f : FenceOpenFields) (h : fieldsFenceOpen line = .ok (some f))
    (h1 : f.info = []) (h2 : f.wsBeforeInfo ≠ []) :
    f.afterInfo = f.wsBeforeInfo ∧ f.reassemble = line ++ f.wsBeforeInfo ∧ f.reassemble ≠ line := by
  obtain ⟨ha, hb⟩ := fieldsFenceOpen_duplicate line f h h1 h2
  refine ⟨hb, ha, ?_⟩
  rw [ha]
  intro he
  have := congrArg List.length he
  simp only [List.length_append] at this
  have : f.wsBeforeInfo.length = 0 := by omega
  exact h2 (List.eq_nil_of_length_eq_zero this)

/-- the witness: `` ```␣␣ `` is stored as (…, `"  "`, `""`, `"  "`) and comes back as `` ```␣␣␣␣ `` -/
example : fieldsFenceOpen "```  ".toList = .ok (some ⟨[], '`', 3, "  ".toList, [], "  ".toList⟩) ∧
    (⟨[], '`', 3, "  ".toList, [], "  ".toList⟩ : FenceOpenFields).reassemble = "```    ".toList := by
  constructor
  · simp [fieldsFenceOpen, leadWs_eq, isFencedCodeBlock, collectWhileCharVerified_eq, extractAsciiWs_eq, extractUntilSpaces_eq, scanTo, Verif.Model.Recognisers.slice,
      charAt, collectBackwardsOneOf, cbwLoop, isCharAtOneOf, lenLe, Verif.Model.Recognisers.calcLength, asciiWs, isWsChar,
      Verif.Model.Recognisers.SP, Verif.Model.Recognisers.TAB]
  · decide

theorem fence_open_fields_iff (line : List Char) : (∃ f, fieldsFenceOpen line = .ok (some f)) ↔ lineFenceOpen line = .ok true := by
  rw [← fieldsFenceOpen_isSome]
  cases fieldsFenceOpen line with
  | error e => simp [Except.map]
  | ok o => cases o <;> simp [Except.map]

end LeafFields

end Verif.Props.C02
