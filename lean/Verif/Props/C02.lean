/-
  C02 — the token stream is lossless: theorems about the mechanism's building blocks.

  Faithful models: Verif.Model.Codec (in-band marker codec of parser_helper.py and the sentinel
  removals of TransformToMarkdown.transform), Verif.Model.Tabs (tab expansion, final-newline
  correction, pragma re-insertion).  The 5 000-line per-token regenerator is not modelled
  (DESIGN §6 C02: partial); it is reached by the document-level identity oracle of tools/props/c02.py.
-/
import Verif.Model.Codec
import Verif.Model.Tabs
import Verif.Lemmas.Codec
import Verif.Lemmas.Tabs
namespace Verif.Props.C02
open Verif.Model.Codec Verif.Lemmas.Codec Verif.Model.Tabs Verif.Lemmas.Tabs
open Verif.Model.Lines (NL joinNL splitNL)

/-! ## The codec is a bijection on marker-free text -/

/-- `remove_all_from_text` gives back the Markdown source of every marker-free piece list. -/
theorem remove_encode (ps : List Piece) (h : MarkerFree ps) : removeAll (encode ps) = .ok (sourceOf ps) := by
  obtain ⟨h1, h2, h3⟩ := unbs_spec ps h
  unfold removeAll removeAllN
  rw [removeBackspaces_encode ps h]
  show (resolveReplacementMarkers (encode (unbs ps)) >>= fun b => pure b >>= resolveEscapes) = _
  unfold resolveReplacementMarkers
  rw [replAll_encode false (unbs ps) h1 h2, outOf_false _ h2, h3]
  show resolveEscapes (sourceOf ps) = _
  have he : ESC ∉ sourceOf ps := by
    rw [← h3, ← outOf_false _ h2]
    exact not_mem_outOf false special_ESC ESC_ne_NOOP _ h1 h2
  exact resolveEscapes_noEsc _ he

example : MarkerFree [.lit 'a', .bsEscaped '*', .replaced "&amp;".toList "&".toList, .bsReplaced '<' "&lt;".toList,
    .removed "  ".toList, .nested "&amp;".toList "&".toList "&amp;".toList] ∧
    sourceOf [.lit 'a', .bsEscaped '*', .replaced "&amp;".toList "&".toList, .bsReplaced '<' "&lt;".toList,
      .removed "  ".toList, .nested "&amp;".toList "&".toList "&amp;".toList] = "a\\*&amp;\\<  &amp;".toList := by
  decide

/-- `resolve_all_from_text` gives the rendered text of every marker-free piece list. -/
theorem resolve_encode (ps : List Piece) (h : MarkerFree ps) : resolveAll (encode ps) = .ok (renderedOf ps) := by
  obtain ⟨h1, h2, h3⟩ := unbsR_spec ps h
  unfold resolveAll
  rw [resolveBackspaces_encode ps h]
  show (resolveReferences (encode (unbsR ps)) >>= fun b => resolveNoops b >>= resolveEscapes) = _
  unfold resolveReferences
  rw [replAll_encode true (unbsR ps) h1 h2]
  show (resolveNoops (outOf true (unbsR ps)) >>= resolveEscapes) = _
  have he : ESC ∉ outOf true (unbsR ps) := not_mem_outOf true special_ESC ESC_ne_NOOP _ h1 h2
  unfold resolveNoops removeSequence
  rw [cutAll_filter NOOP _ he, filter_NOOP_outOf _ h1 h2, h3]
  show resolveEscapes (renderedOf ps) = _
  have he' : ESC ∉ renderedOf ps := by
    rw [← h3, ← filter_NOOP_outOf _ h1 h2]
    intro hm
    exact he (List.mem_filter.mp hm).1
  exact resolveEscapes_noEsc _ he'

example : resolveAll (encode [.lit 'a', .bsEscaped '*', .replaced "&amp;".toList "&".toList, .bsReplaced '<' "&lt;".toList,
    .removed "  ".toList, .nested "&amp;".toList "&".toList "&amp;".toList]) = .ok "a*&&lt;&amp;".toList := by
  decide

/-- Escaping document text and un-escaping it is the identity — for every text in which no U+0005
stands directly before another marker character. -/
theorem escape_roundtrip (s : Str) (h : escOK s = true) : removeAll (escapeSpecial s) = .ok s := by
  have gB := escapeSpecial_guarded BS special_BS (by decide) s
  have gA := escapeSpecial_guarded AL special_AL (by decide) s
  unfold removeAll removeAllN removeBackspaces
  rw [cutAll_guarded BS false 0 _ gB]
  show (resolveReplacementMarkers (escapeSpecial s) >>= fun b => pure b >>= resolveEscapes) = _
  unfold resolveReplacementMarkers
  rw [replAll_guarded false _ gA]
  exact resolveEscapes_escapeSpecial s h

example : escOK [ESC, 'x', BS, AL, NOOP, ESC] = true ∧
    removeAll (escapeSpecial [ESC, 'x', BS, AL, NOOP, ESC]) = .ok [ESC, 'x', BS, AL, NOOP, ESC] := by decide

/-- the same for the rendering direction. -/
theorem escape_roundtrip_resolve (s : Str) (h : escOK s = true) : resolveAll (escapeSpecial s) = .ok s := by
  have gB := escapeSpecial_guarded BS special_BS (by decide) s
  have gA := escapeSpecial_guarded AL special_AL (by decide) s
  have gN := escapeSpecial_guarded NOOP special_NOOP (by decide) s
  unfold resolveAll resolveBackspaces
  rw [cutAll_guarded BS true 0 _ gB]
  show (resolveReferences (escapeSpecial s) >>= fun b => resolveNoops b >>= resolveEscapes) = _
  unfold resolveReferences
  rw [replAll_guarded true _ gA]
  show (resolveNoops (escapeSpecial s) >>= resolveEscapes) = _
  unfold resolveNoops removeSequence
  rw [cutAll_guarded NOOP false 0 _ gN]
  exact resolveEscapes_escapeSpecial s h

example : resolveAll (escapeSpecial [AL, 'x', ESC]) = .ok [AL, 'x', ESC] := by decide

/-- The hypothesis of `escape_roundtrip` is needed: two adjacent U+0005 of the document come back as three. -/
theorem escape_roundtrip_excluded :
    escOK [ESC, ESC] = false ∧ removeAll (escapeSpecial [ESC, ESC]) = .ok [ESC, ESC, ESC] := by decide

/-! ## Where the domain ends (negative results) -/

/-- U+0005 of the document directly before a replaced character: the (correctly escaped) U+0005 is taken
for an escape of the following `\a`, the marker is mis-parsed and `str.index` raises (§8 F-X05). -/
theorem codec_collision_x05 : ∃ ps, ¬ MarkerFree ps ∧ removeAll (encode ps) ≠ .ok (sourceOf ps) :=
  ⟨[.lit ESC, .replaced ['<'] "&lt;".toList], by decide, by decide⟩

theorem codec_collision_x05_raises :
    removeAll (encode [.lit ESC, .replaced ['<'] "&lt;".toList]) = .error .valueError ∧
    resolveAll (encode [.lit ESC, .replaced ['<'] "&lt;".toList]) = .error .valueError := by decide

/-- a replacement by the empty string is read as the opening of a nested marker. -/
theorem codec_collision_empty_replacement :
    ¬ MarkerFree [.replaced ['x'] []] ∧ removeAll (encode [.replaced ['x'] []]) = .error .valueError := by decide

/-- `resolve_backspaces_from_text` (Appendix A item 5): a `\b` at index 0 of a longer text is found again for
ever; after a cut the loop resumes one position too far, so the second of two adjacent `\b` survives.
Neither shape is in the image of `encode` (`resolve_encode`). -/
theorem resolveBackspaces_defects :
    resolveBackspaces [BS, 'x'] = .error .hang ∧ resolveBackspaces [BS] = .ok [] ∧
    resolveBackspaces ['a', 'b', BS, BS] = .ok ['a', BS] := by decide

/-- Every document character equal to one of the three `ParserLogger` sentinels is deleted by the
clean-up at the end of `TransformToMarkdown.transform` (§8 F-THORN). -/
theorem sentinel_collision (s : Str) (c : Char) (hc : c = 'þ' ∨ c = '艨' ∨ c = '艩') (h : c ∈ s) :
    stripSentinels s ≠ s := by
  intro e
  have hin : c ∈ stripSentinels s := by rw [e]; exact h
  unfold stripSentinels removeChar at hin
  simp only [List.mem_filter] at hin
  rcases hc with rfl | rfl | rfl
  · exact absurd hin.2 (by decide)
  · exact absurd hin.1.1.2 (by decide)
  · exact absurd hin.1.2 (by decide)

example : stripSentinels "aþb".toList = "ab".toList := by decide

/-- …and nothing else is touched. -/
theorem stripSentinels_id (s : Str) (h : ∀ c ∈ s, c ≠ 'þ' ∧ c ≠ '艨' ∧ c ≠ '艩') : stripSentinels s = s := by
  unfold stripSentinels removeChar
  have f : ∀ (x : Char) (t : Str), (∀ c ∈ t, c ≠ x) → t.filter (· != x) = t := by
    intro x t ht
    exact filter_ne_of_not_mem (fun hm => ht x hm rfl)
  rw [f SENT_START s (fun c hc => (h c hc).2.1), f SENT_END s (fun c hc => (h c hc).2.2), f SENT_BLAH s (fun c hc => (h c hc).1)]

example : stripSentinels "aéb".toList = "aéb".toList := by decide

/-! ## Tab expansion -/

theorem detab_noTab : ∀ (s : Str) (col : Nat), TAB ∉ detab col s
  | [], _ => by simp [detab]
  | c :: s, col => by
    by_cases hc : c = TAB
    · rw [detab, if_pos hc]
      simp only [List.mem_append, List.mem_replicate, not_or]
      exact ⟨fun h => absurd h.2 (by decide), detab_noTab s _⟩
    · rw [detab, if_neg hc]
      simp only [List.mem_cons, not_or]
      exact ⟨fun e => hc e.symm, detab_noTab s _⟩

theorem detab_id_of_noTab (s : Str) (col : Nat) (h : TAB ∉ s) : detab col s = s := detab_id_of_noTab' s col h

/-- The section-by-section loop of `TabHelper.detabify_string` (faithful model `detabify`) computes the one-pass
reference `detab`, for every string and start column — so the theorems of this section hold for the real loop's model. -/
theorem detabify_eq_detab (s : Str) (delta : Nat) : detabify s delta = detab delta s := detabify_eq_detab' s delta

example : detabify "a \t b\t".toList 1 = "a   b  ".toList := by decide

theorem detab_length_ge (s : Str) (col : Nat) : s.length ≤ (detab col s).length := detab_length_ge' s col

/-- a tab always advances to the next multiple of four, by one to four columns. -/
theorem tab_stop (col : Nat) : (col + tabWidth col) % 4 = 0 ∧ 1 ≤ tabWidth col ∧ tabWidth col ≤ 4 :=
  ⟨tabWidth_stop col, tabWidth_pos col, tabWidth_le col⟩

/-- the map from character index to visual column is monotone … -/
theorem colAfter_mono (col : Nat) (s : Str) (i j : Nat) (h : i ≤ j) : colAfter col s i ≤ colAfter col s j := by
  unfold colAfter
  have e : s.take j = s.take i ++ (s.take j).drop i := by
    have := List.take_append_drop i (s.take j)
    rw [List.take_take, Nat.min_eq_left h] at this
    exact this.symm
  rw [e, detab_append]
  simp

/-- … and strictly so inside the string. -/
theorem colAfter_strict (col : Nat) (s : Str) (i j : Nat) (h : i < j) (hj : j ≤ s.length) :
    colAfter col s i < colAfter col s j := by
  unfold colAfter
  have e : s.take j = s.take i ++ (s.take j).drop i := by
    have := List.take_append_drop i (s.take j)
    rw [List.take_take, Nat.min_eq_left (Nat.le_of_lt h)] at this
    exact this.symm
  rw [e, detab_append]
  have hl : 1 ≤ ((s.take j).drop i).length := by simp; omega
  have := detab_length_ge ((s.take j).drop i) (col + (detab col (s.take i)).length)
  simp; omega

example : detab 0 "a\tb".toList = "a   b".toList ∧ detab 2 "\t\t".toList = "      ".toList ∧
    colAfter 0 "a\tb".toList 2 = 4 := by decide

/-! ## The final-newline correction -/

theorem terminateAll_eq : ∀ (ls : List Str), ls ≠ [] → terminateAll ls = joinNL ls ++ [NL]
  | [l], _ => by simp [terminateAll, joinNL, Verif.Model.Lines.joinOn]
  | l :: m :: ls, _ => by
    rw [terminateAll, terminateAll_eq (m :: ls) (by simp), joinNL_cons_cons]; simp

/-- The handlers emit every line of the document followed by a newline; dropping one final newline
gives back the document, whether or not it ended in a newline. -/
theorem final_newline_rule (d : Str) : finalNewlineRule (terminateAll (splitNL d)) false = d := by
  have hne : splitNL d ≠ [] := by simp [splitNL, Verif.Model.Lines.splitOn]
  have hj : joinNL (splitNL d) = d := Verif.Lemmas.Lines.joinOn_splitOn NL d
  rw [terminateAll_eq _ hne, hj]
  unfold finalNewlineRule
  simp

example : finalNewlineRule (terminateAll (splitNL "a\n\nb\n".toList)) false = "a\n\nb\n".toList := by decide

/-- under the forced-fence exception nothing is dropped. -/
theorem final_newline_keep (s : Str) : finalNewlineRule s true = s := by
  unfold finalNewlineRule; simp

/-! ## Pragma lines -/

/-- Re-inserting the stripped pragma lines into the regenerated rest gives back the document, for every
recogniser `isP`, provided the pragma lines contain no tab (they are passed through `detabify_string`) and —
the line-count hypothesis — if the first line is a pragma then the rest is not the empty string standing
for one empty line (`""` is then taken for "no lines"). -/
theorem pragma_reinsert (isP : Str → Bool) (ls : List Str)
    (hNL : ∀ l ∈ ls, NL ∉ l) (hTab : ∀ l ∈ ls, isP l = true → TAB ∉ l)
    (hCount : ∀ l rest, ls = l :: rest → isP l = true →
      joinNL (stripFrom isP 2 rest).1 ≠ [] ∨ (stripFrom isP 2 rest).1 = []) :
    reinsert (joinNL (strip isP ls).1) (strip isP ls).2 = joinNL ls := by
  have := reinsert_stripFrom isP ls [] (by simp) hNL hTab (fun _ => hCount)
  simpa [strip] using this

/-- the same over documents. -/
theorem pragma_reinsert_doc (isP : Str → Bool) (d : Str)
    (hTab : ∀ l ∈ splitNL d, isP l = true → TAB ∉ l)
    (hCount : ∀ l rest, splitNL d = l :: rest → isP l = true →
      joinNL (stripFrom isP 2 rest).1 ≠ [] ∨ (stripFrom isP 2 rest).1 = []) :
    reinsert (joinNL (strip isP (splitNL d)).1) (strip isP (splitNL d)).2 = d := by
  rw [pragma_reinsert isP (splitNL d) (Verif.Lemmas.Lines.splitOn_noSep NL d) hTab hCount]
  exact Verif.Lemmas.Lines.joinOn_splitOn NL d

example : reinsert (joinNL (strip (fun l => l.head? == some '!') (splitNL "a\n!p\n!q\nb\n".toList)).1)
    (strip (fun l => l.head? == some '!') (splitNL "a\n!p\n!q\nb\n".toList)).2 = "a\n!p\n!q\nb\n".toList := by decide

/-- The two excluded points are real: a document that is one pragma line plus the final newline loses
the newline; a tab inside a pragma line is expanded. -/
theorem pragma_reinsert_excluded :
    reinsert (joinNL (strip (fun l => l.head? == some '!') (splitNL "!p\n".toList)).1)
      (strip (fun l => l.head? == some '!') (splitNL "!p\n".toList)).2 = "!p".toList ∧
    reinsert (joinNL (strip (fun l => l.head? == some '!') (splitNL "!\tp\na".toList)).1)
      (strip (fun l => l.head? == some '!') (splitNL "!\tp\na".toList)).2 = "!   p\na".toList := by decide

end Verif.Props.C02
