import Verif.Props.TokenRules2.InterfereRows
/-!
  Interference table (H2 of C09) of the fourteen modelled token fixers — the cells that are NOT mechanical:
  * same-pass collisions: two level-1 rules request the same field of the same token → `BadPluginFixError`, the whole `fix` of the
    file is abandoned (both pairs are enabled together in the DEFAULT configuration; found with the real CLI, re-found by the tie of the
    product models `md029+md030`, `md023+md030`);
  * re-triggers (counter-examples to H2);
  * overlapping fields that turn out to be harmless (a sharper "reads" statement).
  The mechanical inert cells are in `InterfereRows.lean`; the whole 14 × 14 table is in NOTES-TokenRules2.md.
-/
namespace Verif.Props.TokenRules2
open Verif.Model.TokenRules Verif.Props.TokenRules

/-! ## same-pass collisions -/

/-- the real token stream of `"1. a\n10.  b\n"` -/
def docColl2930 : List Tok2 := [
  { kind := .olist, line := 1, col := 1, seq := ['.'], content := ['1'], indent := 3, leading := some [] },
  { kind := .para, line := 1, col := 4 },
  { kind := .text, line := 1, col := 4, text := ['a'], endWs := some [] },
  { kind := .paraEnd, startIdx := some 1 },
  { kind := .li, line := 2, col := 1, content := ['1', '0'], indent := 5 },
  { kind := .para, line := 2, col := 6 },
  { kind := .text, line := 2, col := 6, text := ['b'], endWs := some [] },
  { kind := .paraEnd, startIdx := some 5 },
  { kind := .blank, line := 3, col := 1 },
  { kind := .olistEnd, startIdx := some 0 },
  { kind := .eos, line := 4 }]

/-- MD029 × MD030 in one pass (witness, `decide` on the real stream of `1. a` / `10.  b`, default configuration): MD029 renumbers the
    second item to `2` and, the number getting shorter, requests `indent_level := 4`; MD030 sees two spaces after `10.` and requests
    `indent_level := 4` as well.  Each rule alone fixes the stream; together the shared `fix_token_map` holds two requests for the same
    field of the same token and `__apply_token_fix` raises `BadPluginFixError` — `pymarkdown fix` prints
    "Multiple plugins (MD030 and MD029) have requested a fix for the same field of the same token." and leaves the file unfixed. -/
theorem md029_md030_same_pass_collision :
    (fix2 md029.lift {} docColl2930).toOption.isSome = true ∧ (fix2 md030f {} docColl2930).toOption.isSome = true ∧
    (fixOut (md029.lift.prod md030f) ({}, {}) docColl2930).map (fun o => o.reqs.filter (fun q => q.idx == 4 && q.field == .base .indentLevel)) =
      .ok [⟨4, .base .indentLevel, .int 4⟩, ⟨4, .base .indentLevel, .int 4⟩] ∧
    fix2 (md029.lift.prod md030f) ({}, {}) docColl2930 = .error .badFix := by
  refine ⟨by decide, by decide, by decide, by decide⟩

/-- the real token stream of `"-  a\n\n   \t# b\n"` -/
def docColl2330 : List Tok2 := [
  { kind := .ulist, line := 1, col := 1, seq := ['-'], indent := 3, leading := some ['\n', ' ', ' ', ' ', '\n'] },
  { kind := .para, line := 1, col := 4 },
  { kind := .text, line := 1, col := 4, text := ['a'], endWs := some [] },
  { kind := .paraEnd, startIdx := some 1 },
  { kind := .blank, line := 2, col := 1 },
  { kind := .atx, line := 3, col := 5, hashCount := 1, ws := ['\t'] },
  { kind := .text, line := 3, col := 7, ws := [' '], text := ['b'], endWs := some [] },
  { kind := .atxEnd, endData := some [], startIdx := some 5 },
  { kind := .blank, line := 4, col := 1 },
  { kind := .ulistEnd, startIdx := some 0 },
  { kind := .eos, line := 5 }]

/-- MD023 × MD030 in one pass (witness): a TAB-indented heading inside a list whose marker is followed by two spaces — MD023 rewrites a
    line of the list's `leading_spaces`, MD030 shortens every line of it: two requests for `leading_spaces` of the list start token,
    `BadPluginFixError` ("Multiple plugins (MD030 and MD023) …"; real CLI with `-d md010`). -/
theorem md023_md030_same_pass_collision :
    (fix2 md023 () docColl2330).toOption.isSome = true ∧ (fix2 md030f {} docColl2330).toOption.isSome = true ∧
    fix2 (md023.prod md030f) ((), {}) docColl2330 = .error .badFix := by
  refine ⟨by decide, by decide, by decide⟩

/-! ## re-triggers -/

/-- the real token stream of `"~~~\na\n~~~\n\n    x\n"` -/
def doc4648 : List Tok2 := [
  { kind := .fence, line := 1, col := 1, fenceChar := ['~'] },
  { kind := .text, line := 2, col := 1, text := ['a'] },
  { kind := .fenceEnd, endData := some [':', '3'], startIdx := some 0 },
  { kind := .blank, line := 4, col := 1 },
  { kind := .icode, line := 5, col := 5, ws := [' ', ' ', ' ', ' '], leading := some [] },
  { kind := .text, line := 5, col := 5, text := ['x'] },
  { kind := .icodeEnd, startIdx := some 4 },
  { kind := .blank, line := 6, col := 1 },
  { kind := .eos, line := 7 }]

/-- MD046 → MD048 (counter-example to H2, witness): `~~~ a ~~~` + an indented block.  MD048 (consistent: tilde) is silent; MD046
    (consistent: fenced) converts the indented block into a fenced one — always with BACKTICKS — and MD048 now reports the new block.
    Harmless for one `fix` run only because MD048 has fix level 2 and is re-collected after the level-1 pass. -/
theorem md046_md048_interference :
    scan md048 {} (doc4648.map (·.toTok)) = .ok [] ∧
    (fix2 md046 {} doc4648).toOption.map (fun toks' => (scan md048 {} (toks'.map (·.toTok))).toOption.map (·.map (fun r => (r.line, r.col)))) =
      some (some [(0, 1)]) := by
  refine ⟨by decide, by decide⟩

/-! ## overlapping fields that are harmless -/

/-- scan-only congruence for the nine old rules -/
theorem scan_congr_false {Cfg St : Type} (r : Rule Cfg St) (c : Cfg) (Same : Tok → Tok → Prop)
    (hnext : ∀ s i t t', Same t t' → r.next c false s i t' = r.next c false s i t)
    (toks toks' : List Tok) (h : All₂ Same toks toks') : scan r c toks' = scan r c toks := by
  have key : ∀ (ts ts' : List Tok), All₂ Same ts ts' → ∀ s i, runFrom r c false s i ts' = runFrom r c false s i ts := by
    intro ts ts' hs
    induction hs with
    | nil => intro s i; rfl
    | cons hp _ ih =>
      intro s i
      unfold runFrom
      rw [hnext s i _ _ hp]
      split
      · rfl
      · rw [ih]
  unfold scan; rw [key toks toks' h]

/-- MD029's SCAN does not read `indent_level` (only its fix does, to compute the new value) … -/
theorem md029_scan_reads_sharp (c : C029) (toks toks' : List Tok)
    (h : All₂ (fun t t' => t'.kind = t.kind ∧ t'.line = t.line ∧ t'.col = t.col ∧ t'.content = t.content) toks toks') :
    scan md029 c toks' = scan md029 c toks :=
  scan_congr_false md029 c _ (fun s i t t' ⟨h1, h2, h3, h4⟩ => by
    show next029 c false s i t' = next029 c false s i t
    unfold next029 matchFirst matchNext reportInvalid; simp only [h1, h2, h3, h4, Bool.false_eq_true, ↓reduceIte]) toks toks' h

/-- … so MD030's fix (`indent_level`, `leading_spaces`) is inert for MD029 — the converse is `md029_md030_interference2`. -/
theorem md030_fix_inert_for_md029 (c : C030) (c' : C029) (toks toks' : List Tok2) (h : fix2 md030f c toks = .ok toks') :
    scan md029 c' (toks'.map (·.toTok)) = scan md029 c' (toks.map (·.toTok)) :=
  md029_scan_reads_sharp c' _ _ (All₂_map_toTok (All₂.imp (fun t t' hp => by rw [hp]; exact ⟨rfl, rfl, rfl, rfl⟩) (md030_fix_writes c toks toks' h)))

/-! ### the abstract field `text` is `token_text` of a text token, `span_text` of a code span, `text_from_blocks` of a link / image,
  `link_name_debug` of a reference definition: kind-aware "reads" statements decide the cells where writer and reader touch `text`
  (or `extracted_whitespace`) of DIFFERENT token classes -/

/-- MD037 reads `token_text` of text tokens only -/
theorem md037_scan_reads_sharp (toks toks' : List Tok2)
    (h : All₂ (fun t t' => t'.kind = t.kind ∧ t'.line = t.line ∧ t'.col = t.col ∧ (t.kind = .text → t'.text = t.text)) toks toks') :
    scan2 md037 () toks' = scan2 md037 () toks :=
  scan2_congr md037 () _ (fun all all' s i t t' _ ⟨h1, h2, h3, h4⟩ => by
    show next037 () false all' s i t' = next037 () false all s i t
    unfold next037
    rw [h1, h2, h3]
    by_cases hk : t.kind = .text
    · rw [h4 hk]
    · simp only [hk, false_and, ↓reduceIte]) toks toks' h

/-- MD038 reads `span_text` of code spans only -/
theorem md038_scan_reads_sharp (toks toks' : List Tok)
    (h : All₂ (fun t t' => t'.kind = t.kind ∧ t'.line = t.line ∧ t'.col = t.col ∧ (t.kind = .codeSpan → t'.text = t.text)) toks toks') :
    scan md038 () toks' = scan md038 () toks :=
  scan_congr_false md038 () _ (fun s i t t' ⟨h1, h2, h3, h4⟩ => by
    show next038 () false s i t' = next038 () false s i t
    unfold next038
    by_cases hk : t.kind = .codeSpan
    · rw [h1, hk]; simp only; rw [h4 hk, h2, h3]
    · rw [h1]; split <;> first | (rename_i hh; exact absurd hh hk) | rfl) toks toks' h

/-- MD039 reads the label text of links, images and reference definitions only -/
theorem md039_scan_reads_sharp (toks toks' : List Tok)
    (h : All₂ (fun t t' => t'.kind = t.kind ∧ t'.line = t.line ∧ t'.col = t.col ∧
      ((t.kind = .link ∨ t.kind = .image ∨ t.kind = .lrd) → t'.text = t.text)) toks toks') :
    scan md039 () toks' = scan md039 () toks :=
  scan_congr_false md039 () _ (fun s i t t' ⟨h1, h2, h3, h4⟩ => by
    show next039 () false s i t' = next039 () false s i t
    unfold next039
    rw [h1]
    split
    · rename_i hk; rw [h4 (.inl hk), h2, h3]
    · rename_i hk; rw [h4 (.inr (.inl hk)), h2, h3]
    · rename_i hk; rw [h4 (.inr (.inr hk)), h2, h3]
    · rfl) toks toks' h

/-- MD019 reads `extracted_whitespace` of text tokens only -/
theorem md019_scan_reads_sharp (toks toks' : List Tok)
    (h : All₂ (fun t t' => t'.kind = t.kind ∧ t'.line = t.line ∧ t'.col = t.col ∧ t'.hashCount = t.hashCount ∧ t'.trailing = t.trailing ∧
      (t.kind = .text → t'.ws = t.ws)) toks toks') :
    scan md019 () toks' = scan md019 () toks :=
  scan_congr_false md019 () _ (fun s i t t' ⟨h1, h2, h3, h4, h5, h6⟩ => by
    show next019 () false s i t' = next019 () false s i t
    unfold next019
    rw [h1]
    split
    · rw [h2, h3, h4, h5]
    · rfl
    · rename_i hk; rw [h6 hk]
    · rfl) toks toks' h

/-! ### cells decided by the kind-aware statements -/

/-- MD037 (writes `token_text` of text tokens) is inert for MD038 (reads `span_text` of code spans) … -/
theorem md037_fix_inert_for_md038 (toks toks' : List Tok2) (h : fix2 md037 () toks = .ok toks') :
    scan md038 () (toks'.map (·.toTok)) = scan md038 () (toks.map (·.toTok)) :=
  md038_scan_reads_sharp _ _ (All₂_map_toTok (All₂.imp (fun t t' hp => by
    obtain ⟨h1, h2, _⟩ := hp
    refine ⟨by rw [h1], by rw [h1], by rw [h1], fun hk => h2 (by rw [show t.kind = t.toTok.kind from rfl, hk]; decide)⟩)
    (md037_fix_only_style toks toks' h)))

/-- … and for MD039 (reads the label text of links, images, reference definitions) -/
theorem md037_fix_inert_for_md039 (toks toks' : List Tok2) (h : fix2 md037 () toks = .ok toks') :
    scan md039 () (toks'.map (·.toTok)) = scan md039 () (toks.map (·.toTok)) :=
  md039_scan_reads_sharp _ _ (All₂_map_toTok (All₂.imp (fun t t' hp => by
    obtain ⟨h1, h2, _⟩ := hp
    refine ⟨by rw [h1], by rw [h1], by rw [h1], fun hk => h2 (by
      rw [show t.kind = t.toTok.kind from rfl]
      rcases hk with hk | hk | hk <;> rw [hk] <;> decide)⟩)
    (md037_fix_only_style toks toks' h)))

/-- MD038 (writes `span_text` of code spans) is inert for MD037 -/
theorem md038_fix_inert_for_md037 (toks : List Tok2) (bs : List Tok) (h : fix md038 () (toks.map (·.toTok)) = .ok bs) :
    scan2 md037 () (rebase toks bs) = scan2 md037 () toks :=
  md037_scan_reads_sharp toks _ (All₂.imp (fun t t' hp => by
    obtain ⟨⟨h1, h3⟩, h2⟩ := hp
    refine ⟨by show t'.toTok.kind = t.toTok.kind; rw [h1], by show t'.toTok.line = t.toTok.line; rw [h1],
      by show t'.toTok.col = t.toTok.col; rw [h1], fun hk => ?_⟩
    by_cases he : t'.toTok = t.toTok
    · show t'.toTok.text = t.toTok.text; rw [he]
    · have := (h3 he).1
      rw [show t.kind = t.toTok.kind from rfl, this] at hk
      cases hk) (All₂_rebase _ toks bs (md038_fix_only_style _ bs h)))

/-- MD039 (writes the label text of links / images / reference definitions) is inert for MD037 -/
theorem md039_fix_inert_for_md037 (toks : List Tok2) (bs : List Tok) (h : fix md039 () (toks.map (·.toTok)) = .ok bs) :
    scan2 md037 () (rebase toks bs) = scan2 md037 () toks :=
  md037_scan_reads_sharp toks _ (All₂.imp (fun t t' hp => by
    obtain ⟨⟨h1, h3⟩, h2⟩ := hp
    refine ⟨by show t'.toTok.kind = t.toTok.kind; rw [h1], by show t'.toTok.line = t.toTok.line; rw [h1],
      by show t'.toTok.col = t.toTok.col; rw [h1], fun hk => ?_⟩
    rcases h3 with he | ⟨hk2, _⟩
    · show t'.toTok.text = t.toTok.text; rw [he]
    · rw [show t.kind = t.toTok.kind from rfl] at hk
      rcases hk2 with hk2 | hk2 | hk2 <;> rw [hk2] at hk <;> cases hk) (All₂_rebase _ toks bs (md039_fix_only_style _ bs h)))

/-- MD038 is inert for MD039 (the converse is `md039_fix_inert_for_md038` in Props/TokenRules.lean) -/
theorem md038_fix_inert_for_md039 (toks toks' : List Tok) (h : fix md038 () toks = .ok toks') :
    scan md039 () toks' = scan md039 () toks :=
  md039_scan_reads_sharp toks toks' (All₂.imp (fun t t' hp => by
    obtain ⟨h1, h3⟩ := hp
    refine ⟨by rw [h1], by rw [h1], by rw [h1], fun hk => ?_⟩
    by_cases he : t' = t
    · rw [he]
    · have := (h3 he).1
      rw [this] at hk
      rcases hk with hk | hk | hk <;> cases hk) (md038_fix_only_style toks toks' h))

/-- what MD023's fix writes, kind by kind: `token_text` only of text tokens, `extracted_whitespace` only of ATX / SetExt / SetExt-end tokens -/
theorem md023_fix_writes_kinds (toks toks' : List Tok2) (h : fix2 md023 () toks = .ok toks') :
    All₂ (fun t t' => t'.kind = t.kind ∧ t'.line = t.line ∧ t'.col = t.col ∧ t'.hashCount = t.hashCount ∧ t'.trailing = t.trailing ∧
      (t.kind ≠ .text → t'.text = t.text) ∧
      ((t.kind ≠ .atx ∧ t.kind ≠ .setext ∧ t.kind ≠ .setextEnd) → t'.ws = t.ws)) toks toks' :=
  All₂.imp (fun t t' hp => by
    obtain ⟨u, hs, rfl⟩ := hp
    have hr := hs.rest
    have hn : ∀ n, (normIdx023 n u).toTok = u.toTok := by
      intro n; unfold normIdx023; split <;> rfl
    have hu : ∀ n, (normIdx023 n u).toTok = { t.toTok with ws := u.ws, text := u.text, leading := u.leading } := by
      intro n; rw [hn]; rw [hr]
    refine ⟨?_, ?_, ?_, ?_, ?_, ?_, ?_⟩
    · show (normIdx023 _ u).toTok.kind = t.toTok.kind; rw [hu]
    · show (normIdx023 _ u).toTok.line = t.toTok.line; rw [hu]
    · show (normIdx023 _ u).toTok.col = t.toTok.col; rw [hu]
    · show (normIdx023 _ u).toTok.hashCount = t.toTok.hashCount; rw [hu]
    · show (normIdx023 _ u).toTok.trailing = t.toTok.trailing; rw [hu]
    · intro hk
      show (normIdx023 _ u).toTok.text = t.toTok.text
      rw [hn]
      rcases hs.text with h | ⟨h, _⟩
      · exact h
      · exact absurd h hk
    · intro hk
      show (normIdx023 _ u).toTok.ws = t.toTok.ws
      rw [hn]
      rcases hs.ws with h | ⟨h | h | h, _⟩
      · exact h
      · exact absurd h hk.1
      · exact absurd h hk.2.1
      · exact absurd h hk.2.2) (md023_fix_only_style toks toks' h)

/-- MD023 is inert for MD038, MD039 (it writes `token_text` of text tokens only) and for MD019 (MD019 reads the whitespace of TEXT
    tokens, MD023 writes that of heading tokens) — at token level: the document-level effect of removing a heading's indentation on
    the column from which MD019 expands a TAB is outside the token statement. -/
theorem md023_fix_inert_for_md038 (toks toks' : List Tok2) (h : fix2 md023 () toks = .ok toks') :
    scan md038 () (toks'.map (·.toTok)) = scan md038 () (toks.map (·.toTok)) :=
  md038_scan_reads_sharp _ _ (All₂_map_toTok (All₂.imp (fun t t' ⟨h1, h2, h3, _, _, h6, _⟩ =>
    ⟨h1, h2, h3, fun hk => h6 (by rw [show t.kind = t.toTok.kind from rfl, hk]; decide)⟩) (md023_fix_writes_kinds toks toks' h)))

theorem md023_fix_inert_for_md039 (toks toks' : List Tok2) (h : fix2 md023 () toks = .ok toks') :
    scan md039 () (toks'.map (·.toTok)) = scan md039 () (toks.map (·.toTok)) :=
  md039_scan_reads_sharp _ _ (All₂_map_toTok (All₂.imp (fun t t' ⟨h1, h2, h3, _, _, h6, _⟩ =>
    ⟨h1, h2, h3, fun hk => h6 (by
      rw [show t.kind = t.toTok.kind from rfl]
      rcases hk with hk | hk | hk <;> rw [hk] <;> decide)⟩) (md023_fix_writes_kinds toks toks' h)))

theorem md023_fix_inert_for_md019 (toks toks' : List Tok2) (h : fix2 md023 () toks = .ok toks') :
    scan md019 () (toks'.map (·.toTok)) = scan md019 () (toks.map (·.toTok)) :=
  md019_scan_reads_sharp _ _ (All₂_map_toTok (All₂.imp (fun t t' ⟨h1, h2, h3, h4, h5, _, h7⟩ =>
    ⟨h1, h2, h3, h4, h5, fun hk => h7 (by
      rw [show t.kind = t.toTok.kind from rfl, hk]; exact ⟨by decide, by decide, by decide⟩)⟩) (md023_fix_writes_kinds toks toks' h)))

end Verif.Props.TokenRules2
