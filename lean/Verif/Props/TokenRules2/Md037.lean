import Verif.Lemmas.TokenRules.Md037Misc
/-!
  Property theorems about the faithful model of MD037 no-space-in-emphasis (`Model/TokenRules/Md037.lean`).
  Unless a hypothesis is written, a theorem holds for EVERY token list (also lists no parser produces).

  Summary of what is proved about the FIX (`pymarkdown fix`, rule MD037 alone):
  * it changes nothing but `token_text` of text tokens (`md037_fix_only_style`), but
  * it can delete characters that are not blanks and duplicate text (`md037_fix_corrupts_text*`), because `__process_fixes` assumes the
    pending fixes come in text order and do not overlap, while `__check` appends them in the order the PAIRS close;
  * it can raise `BadPluginFixError` (`md037_fix_duplicate_request`), because a token whose entries are not contiguous in the pending
    list gets two `token_text` requests;
  * where the pending lists are grouped (`wf037`) it does not raise (`md037_fix_ok`); where they are grouped and ordered (`wfOrd037`)
    it deletes exactly a chain of blank runs next to emphasis characters (`md037_fix_text_ordered`, `md037_fix_blanks_only`);
  * even there a second scan can report again and a second fix can change the text again (`md037_fix_keeps_trigger`,
    `md037_fix_not_idempotent`); what is settled is each fixed marker on its own (`md037_fix_settles_after/before`).
-/
namespace Verif.Props.TokenRules2
open Verif.Model Verif.Model.TokenRules

/-- a paragraph with the given text tokens (all at 1:1) -/
def para037 (texts : List String) : List Tok2 :=
  [{ kind := .para, line := 1, col := 1 }] ++ texts.map (fun s => { kind := .text, text := s.toList, line := 1, col := 1 }) ++
    [{ kind := .paraEnd, startIdx := some 0 }]

def texts037 (r : Except Err2 (List Tok2)) : Except Err2 (List String) := r.map (·.map (fun t => String.ofList t.text))

def rpos037 (r : Except Err2 (List Report)) : Except Err2 (List (Int × Int)) := r.map (·.map (fun x => (x.line, x.col)))

/-! ## the loop of `__check_text_token` ends -/

/-- fuel `len(token_text) + 1` is enough: more fuel gives the same answer (each round moves `start_index` past the index
    `__find_next_eligible_emphasis` returned, which lies inside the text) -/
theorem md037_fuel_sufficient (fm : Bool) (i : Nat) (text : Str) (line col : Int) (s : St037) (k : Nat) :
    checkLoop037 fm i text line col (text.length + 1 + k) 0 s [] = checkText037 fm i text line col s :=
  checkLoop037_fuel_add fm i text line col s k

/-! ## what the scan reads -/

/-- the scan depends on `kind`, `line_number`, `column_number` and `token_text` only — a fix by another rule that leaves these alone
    cannot change a report of MD037 (and MD037's own fix writes `token_text` of text tokens only: `md037_fix_only_style`) -/
theorem md037_scan_reads (toks toks' : List Tok2)
    (h : All₂ (fun t t' => t'.kind = t.kind ∧ t'.line = t.line ∧ t'.col = t.col ∧ t'.text = t.text) toks toks') :
    scan2 md037 () toks' = scan2 md037 () toks := by
  unfold scan2
  rw [run037_congr false toks toks' toks toks' _ 0 h]

/-- … and so do the fix requests -/
theorem md037_fix_reads (toks toks' : List Tok2)
    (h : All₂ (fun t t' => t'.kind = t.kind ∧ t'.line = t.line ∧ t'.col = t.col ∧ t'.text = t.text) toks toks') :
    fixOut md037 () toks' = fixOut md037 () toks := by
  unfold fixOut
  rw [run037_congr true toks toks' toks toks' _ 0 h]

/-! ## token-level C08: what a successful fix may change -/

/-- whatever the stream: after a fix that did not raise, the stream has the same tokens in the same order; a token differs from the
    old one at most in `token_text` — and only if it is a text token.  (`start_markdown_token` of an end token whose start token is not
    in the stream is reported as `none` afterwards; no parsed stream has such a token.) -/
theorem md037_fix_only_style (toks toks' : List Tok2) (h : fix2 md037 () toks = .ok toks') :
    All₂ (fun t t' => t' = { t with text := t'.text, startIdx := t'.startIdx } ∧ (t.kind ≠ .text → t'.text = t.text) ∧
      (t'.startIdx = t.startIdx ∨ (t'.startIdx = none ∧ ∃ j, t.startIdx = some j ∧ toks.length ≤ j))) toks toks' := by
  unfold fix2 at h
  split at h
  · cases h
  · rename_i o ho
    obtain ⟨hrep, hreq⟩ := fixOut037_shape toks o ho
    rw [hrep, applyFixes2_noRepl037] at h
    split at h
    · cases h
    · rename_i ts hts
      cases h
      have hA := applyFields_textOnly037 toks ts o.reqs hreq hts
      have hlen : ts.length = toks.length := hA.length_eq.symm
      rw [hlen]
      exact All₂.map_right037 (normIdx037 toks.length) (fun t t1 hT => norm_style037 toks.length t t1 hT) hA

/-- non-vacuity (`this is ** not some ** bold text`): two reports; the fix rewrites the text token and nothing else -/
example : let d := para037 ["this is ** not some ** bold text"]
    rpos037 (scan2 md037 () d) = .ok [(1, 11), (1, 20)] ∧
    fixOut md037 () d = .ok { reqs := [⟨1, .base .tokenText, .str "this is **not some** bold text".toList⟩] } ∧
    texts037 (fix2 md037 () d) = .ok ["", "this is **not some** bold text", ""] := by
  refine ⟨by decide, by decide, by decide⟩

/-! ## `md037_fix_ok`: no exception where the pending lists are grouped -/

/-- the fix does not raise on a stream on which, at every block end, the pending fixes of each text token are contiguous in the
    pending list (`wf037`; decidable; the driver reports it for every stream of the tie).  NOT an invariant of parsed streams:
    see `md037_fix_duplicate_request`. -/
theorem md037_fix_ok (toks : List Tok2) (hW : wf037 toks = true) : ∃ toks', fix2 md037 () toks = .ok toks' := by
  obtain ⟨_, ts', _, h, _⟩ := fix037_wf toks hW
  exact ⟨_, h⟩

/-- fix mode never raises INSIDE the rule, whatever the stream with grouped pending lists: the requests exist -/
theorem md037_fixOut_ok (toks : List Tok2) (hW : wf037 toks = true) : ∃ o, fixOut md037 () toks = .ok o ∧ o.repls = [] ∧ o.reports = [] := by
  obtain ⟨o, h, h1, h2, _⟩ := fixOut037_wf toks grouped037 hW
  exact ⟨o, h, h1, h2⟩

/-- for EVERY stream (no hypothesis): the fix-mode pass of the rule itself ends without an exception and without a report — every
    `assert` of `__check` / `__process_fixes` / the `…_verified` helpers holds, every index is inside its string -/
theorem md037_fixOut_total (toks : List Tok2) : ∃ o, fixOut md037 () toks = .ok o ∧ o.repls = [] ∧ o.reports = [] :=
  fixOut037_total toks

/-- … so the only exception the whole fix can end with is `BadPluginFixError` from `__apply_token_fix`, and only on streams that are
    not `wf037` -/
theorem md037_fix_err_is_badFix (toks : List Tok2) (e : Err2) (h : fix2 md037 () toks = .error e) :
    e = .badFix ∧ wf037 toks = false := by
  refine ⟨fix037_err_badFix toks e h, ?_⟩
  cases hw : wf037 toks with
  | false => rfl
  | true => obtain ⟨_, h'⟩ := md037_fix_ok toks hw; rw [h'] at h; cases h

/-- `wf037` is exactly the domain of the fix, for EVERY stream: the fix raises (`BadPluginFixError`) if and only if at some block end
    the pending fixes of a text token are not contiguous in the pending list -/
theorem md037_fix_ok_iff (toks : List Tok2) : (∃ toks', fix2 md037 () toks = .ok toks') ↔ wf037 toks = true := by
  constructor
  · rintro ⟨toks', h⟩
    cases hw : wf037 toks with
    | true => rfl
    | false => rw [fix037_not_wf toks hw] at h; cases h
  · exact md037_fix_ok toks

theorem md037_fix_raises_iff (toks : List Tok2) : fix2 md037 () toks = .error .badFix ↔ wf037 toks = false := by
  constructor
  · intro h; exact (md037_fix_err_is_badFix toks _ h).2
  · exact fix037_not_wf toks

/-- the paragraph `a * b _ c `x` d _ e * f`: text, code span, text -/
def dup037 : List Tok2 :=
  [{ kind := .para, line := 1, col := 1 }, { kind := .text, text := "a * b _ c ".toList, line := 1, col := 1 },
   { kind := .codeSpan, text := ['x'], startTicks := ['`'], line := 1, col := 11 },
   { kind := .text, text := " d _ e * f".toList, line := 1, col := 14 }, { kind := .paraEnd, startIdx := some 0 }]

/-- DEFECT (C01 / C09), excluded point of `md037_fix_ok`: the two markers of each of two nested pairs lie in different text tokens of
    one paragraph.  The pairs close inner first, so the pending list names the tokens 1, 3, 1, 3; `__process_fixes` registers a
    `token_text` request whenever the token changes — two for token 1, two for token 3 — and `__apply_token_fix` raises
    `BadPluginFixError` ("Multiple plugins (MD037 and MD037) have requested a fix for the same field of the same token").
    Real document: ``a * b _ c `x` d _ e * f`` — `pymarkdown fix` ends with that error and leaves the file unchanged. -/
theorem md037_fix_duplicate_request :
    wf037 dup037 = false ∧
    (fixOut md037 () dup037).map (·.reqs.map (·.idx)) = .ok [1, 3, 1, 3] ∧
    fix2 md037 () dup037 = .error .badFix ∧
    rpos037 (scan2 md037 () dup037) = .ok [(1, 8), (1, 16), (1, 4), (1, 20)] := by
  refine ⟨by decide, by decide, by decide, by decide⟩

/-! ## `md037_fix_corrupts_text`: the fix can delete characters that are not blanks, and duplicate text (C08) -/

/-- DEFECT (C08) — one pair is enough.  In `a * * b` the two `*` close a pair around ONE space; `__check` queues the removal of that
    space twice (once as "after the first marker", once as "before the second"), the second removal is shifted by the running
    `current_delta` and deletes the first `*`.  `pymarkdown fix` turns the paragraph `a * * b` into `a * b`. -/
theorem md037_fix_corrupts_text_shared :
    texts037 (fix2 md037 () (para037 ["a * * b"])) = .ok ["", "a * b", ""] ∧
    (fixOut md037 () (para037 ["a * * b"])).map (·.reqs.length) = .ok 1 ∧
    ¬ BlankDel037 "a * * b".toList "a * b".toList := by
  refine ⟨by decide, by decide, not_blankDel037 (by decide)⟩

/-- DEFECT (C08) — nested pairs.  In `a * b _  c _ d * e` the inner pair `_ … _` closes first and its removals (3 blanks) come first in
    the pending list; the outer pair's first removal lies BEFORE them in the text but is shifted by their `current_delta`: index
    3 − 3 = 0, the letter `a` is deleted.  `pymarkdown fix` gives ` * b _c_ d* e`. -/
theorem md037_fix_corrupts_text :
    texts037 (fix2 md037 () (para037 ["a * b _  c _ d * e"])) = .ok ["", " * b _c_ d* e", ""] ∧
    ¬ BlankDel037 "a * b _  c _ d * e".toList " * b _c_ d* e".toList := by
  refine ⟨by decide, not_blankDel037 (by decide)⟩

/-- DEFECT (C08) — with one more blank the shifted index is NEGATIVE, Python's slices wrap around, and the text is duplicated:
    `a * b _  c  _ d * e` becomes `a * b _c_  * a * b _c_ d * e` (28 characters from 19). -/
theorem md037_fix_corrupts_text_wrap :
    texts037 (fix2 md037 () (para037 ["a * b _  c  _ d * e"])) = .ok ["", "a * b _c_  * a * b _c_ d * e", ""] ∧
    ¬ BlankDel037 "a * b _  c  _ d * e".toList "a * b _c_  * a * b _c_ d * e".toList := by
  refine ⟨by decide, fun h => absurd h.length (by decide)⟩

/-! ## where the fix does what it says: grouped and ordered pending lists -/

/-- on a stream on which, at every block end, the pending fixes are grouped by token and, within a token, in text order without
    overlap (`wfOrd037`), the fix succeeds and every token keeps all its fields but `token_text`; the new text of a text token is the
    old text without a chain `seg` of intervals, each of which (`PGood037`) is a non-empty run of blanks (space, tab) inside the
    text that starts directly after a `*` / `_` or ends directly before one -/
theorem md037_fix_text_ordered (toks : List Tok2) (hW : wfOrd037 toks = true) :
    ∃ toks', fix2 md037 () toks = .ok toks' ∧
      All₂ (fun t t' => ∃ seg : List Pend037, t' = normIdx037 toks.length { t with text := cutGo037 t.text 0 seg } ∧
        Chain037 0 seg ∧ (∀ p ∈ seg, p.text = t.text ∧ PGood037 p) ∧ (t.kind ≠ .text → seg = [])) toks toks' :=
  fix037_ordered toks hW

/-- … so the fix deletes blanks only: all other characters are kept, in order, and the length drops by the number of blanks cut -/
theorem md037_fix_blanks_only (toks : List Tok2) (hW : wfOrd037 toks = true) :
    ∃ toks', fix2 md037 () toks = .ok toks' ∧
      All₂ (fun t t' => BlankDel037 t.text t'.text ∧ ∃ n, t'.text.length + n = t.text.length) toks toks' := by
  obtain ⟨toks', hf, hA⟩ := fix037_ordered toks hW
  refine ⟨toks', hf, hA.imp ?_⟩
  intro t t' ⟨seg, ht', hc, hp, _⟩
  have hcut := cutGo037_blankDel t.text seg 0 hc (fun p hp' => by
    obtain ⟨e, g⟩ := hp p hp'
    exact ⟨by rw [← e]; exact g.inside, by rw [← e]; exact g.blank⟩)
  have htx : t'.text = cutGo037 t.text 0 seg := by
    rw [ht']; unfold normIdx037; split
    · split <;> rfl
    · rfl
  rw [htx]
  exact ⟨by simpa using hcut.1, cutLen037 seg, by simpa using hcut.2⟩

/-- non-vacuity: three badly spaced pairs in two text tokens of a heading — grouped and ordered; 6 blanks go -/
example : let d : List Tok2 := [{ kind := .atx, hashCount := 1, line := 1, col := 1 },
      { kind := .text, text := "a * b * c __  d\t __ e".toList, ws := [' '], line := 1, col := 3 },
      { kind := .codeSpan, text := ['x'], startTicks := ['`'], line := 1, col := 20 },
      { kind := .text, text := " _ f _ ".toList, line := 1, col := 23 }, { kind := .atxEnd, startIdx := some 0 }]
    wfOrd037 d = true ∧ texts037 (fix2 md037 () d) = .ok ["", "a *b* c __d__ e", "x", " _f_ ", ""] := by
  refine ⟨by decide, by decide⟩

/-- excluded points of `md037_fix_text_ordered`: the three corrupting streams are not `wfOrd037` (the first two are `wf037`) -/
example : wfOrd037 (para037 ["a * * b"]) = false ∧ wf037 (para037 ["a * * b"]) = true ∧
    wfOrd037 (para037 ["a * b _  c _ d * e"]) = false ∧ wf037 (para037 ["a * b _  c _ d * e"]) = true ∧
    wfOrd037 dup037 = false := by
  refine ⟨by decide, by decide, by decide, by decide, by decide⟩

/-! ## H1 and idempotence -/

/-- H1 is FALSE for MD037, even where the fix works as intended (`wfOrd037`): in `x * _a _q * y *z _ w` the pair `* … *` is fixed;
    that removes the blank that made the first `_` eligible and lets the loop skip it (`start_index = next_index + 1 + found_length`
    steps over the character after a run), so in the fixed text the second `_` is left on the stack and closes a pair with the last,
    badly spaced `_` — which the first scan did not report.  The scan of the fixed stream reports 1:15. -/
theorem md037_fix_keeps_trigger :
    ∃ toks toks', wfOrd037 toks = true ∧ fix2 md037 () toks = .ok toks' ∧
      rpos037 (scan2 md037 () toks) = .ok [(1, 4), (1, 10)] ∧ rpos037 (scan2 md037 () toks') = .ok [(1, 15)] :=
  ⟨para037 ["x * _a _q * y *z _ w"], (para037 ["x *_a _q* y *z _ w"]).map (normIdx037 3), by decide, by decide, by decide, by decide⟩

/-- … and a second fix changes the stream again -/
theorem md037_fix_not_idempotent :
    ∃ toks toks' toks'', wfOrd037 toks = true ∧ fix2 md037 () toks = .ok toks' ∧ fix2 md037 () toks' = .ok toks'' ∧ toks'' ≠ toks' :=
  ⟨para037 ["x * _a _q * y *z _ w"], (para037 ["x *_a _q* y *z _ w"]).map (normIdx037 3),
   (para037 ["x *_a _q* y *z_ w"]).map (normIdx037 3), by decide, by decide, by decide, by decide⟩

/-- the same with real consequences (C09: `pymarkdown fix` must be run twice, and each run eats a `*`): `x * * * y` → `x * * y`
    → `x * y`; every scan reports the same position twice -/
theorem md037_fix_two_passes :
    texts037 (fix2 md037 () (para037 ["x * * * y"])) = .ok ["", "x * * y", ""] ∧
    texts037 (fix2 md037 () (para037 ["x * * y"])) = .ok ["", "x * y", ""] ∧
    rpos037 (scan2 md037 () (para037 ["x * * * y"])) = .ok [(1, 4), (1, 4)] ∧
    rpos037 (scan2 md037 () (para037 ["x * * y"])) = .ok [(1, 4), (1, 4)] ∧
    rpos037 (scan2 md037 () (para037 ["x * y"])) = .ok [] := by
  refine ⟨by decide, by decide, by decide, by decide, by decide⟩

/-- what IS settled by a fix, marker by marker (`md037_fix_removes_trigger_partial`): after the blanks behind the opening run were cut
    (`__fix(…, was_after=True)`), the run is followed by a character that is not a blank, or by the end of the text — so the first
    condition of `__check` cannot hold for this run at its new place -/
theorem md037_fix_settles_after (e : Emph037) (he : EGood037 e) (ha : e.after = some ' ') :
    let p := fixAfter037 e
    let new := cutGo037 e.text 0 [p]
    new.take (e.start + e.len) = e.text.take (e.start + e.len) ∧ isBlankO037 (new[e.start + e.len]?) = false := by
  obtain ⟨hg, _, ht, hs, hstop⟩ := fixAfter037_good e he ha
  have hin := he.inside
  have hst : (fixAfter037 e).stop ≤ e.text.length := by have := hg.inside; rw [ht] at this; exact this
  simp only [cutGo037, List.drop_zero, Nat.sub_zero, hs]
  constructor
  · rw [List.take_append, List.take_take, Nat.min_self, List.length_take, Nat.min_eq_left hin, Nat.sub_self]; simp
  · rw [List.getElem?_append_right (by simp only [List.length_take]; omega), List.length_take, Nat.min_eq_left hin, Nat.sub_self,
      List.getElem?_drop, Nat.add_zero]
    exact hstop

/-- … and after the blanks in front of the closing run were cut (`__fix(…, was_after=False)`), the run stands at the start of the text
    or directly behind a character that is not a blank — so the second condition of `__check` cannot hold for it -/
theorem md037_fix_settles_before (e : Emph037) (he : EGood037 e) (hb : e.before = some ' ') :
    let p := fixBefore037 e
    let new := cutGo037 e.text 0 [p]
    new[p.start]? = some e.ch ∧ (p.start = 0 ∨ isBlankO037 (new[p.start - 1]?) = false) := by
  obtain ⟨hg, _, ht, hs, hstart⟩ := fixBefore037_good e he hb
  have hne := hg.nonempty
  have hin := hg.inside
  rw [ht, hs] at hin
  rw [hs] at hne
  simp only [cutGo037, List.drop_zero, Nat.sub_zero, hs]
  have hlt : (fixBefore037 e).start ≤ e.text.length := by omega
  constructor
  · rw [List.getElem?_append_right (by simp only [List.length_take]; omega), List.length_take, Nat.min_eq_left hlt, Nat.sub_self,
      List.getElem?_drop, Nat.add_zero]
    have := he.run 0 he.len
    rw [Nat.add_zero] at this
    exact this
  · by_cases hz : (fixBefore037 e).start = 0
    · exact .inl hz
    · right
      rcases hstart with h | h
      · exact absurd h hz
      · rw [List.getElem?_append_left (by simp only [List.length_take]; omega), List.getElem?_take, if_pos (by omega)]
        exact h

/-! ## C06: what the scan reports -/

/-- for EVERY stream the scan is the re-statement `specScan037`: the eligible runs of each text token by ONE left-to-right pass over its
    characters (`eligGo037` — no `str.find`, no index arithmetic), the stack discipline over them (`pairsGo037`), block by block.  In
    particular the index loop `start_index = next_index + 1 + found_length` of `__check_text_token` looks at exactly the characters
    the one-pass scanner looks at. -/
theorem md037_scan_eq_spec (toks : List Tok2) : scan2 md037 () toks = specScan037 firstCond037 secondCond037 toks :=
  scan037_eq_spec toks

/-- … equivalently: the reports of the pairs that close (`closedPairs037` — which pairs close does not depend on the spacing), in the
    order they close; the first report whose position cannot be computed (marker codec raising) ends the scan with that exception -/
theorem md037_scan_pairs (toks : List Tok2) : scan2 md037 () toks = repAll037 firstCond037 secondCond037 (closedPairs037 toks) :=
  scan037_pairs toks

/-- C06, sentence-shaped, for streams whose text tokens hold no character of the in-band marker codec (U+0005 U+0007 U+0008):
    the scan does not raise, and a position is reported exactly when, for some pair (b, a) of eligible runs of equal character and
    length that closes inside one paragraph / heading,
      * b has a space on both sides and a has a space behind it — and the position is that of the end of b (+ the length of a), or
      * a has a space on both sides and b has a space in front of it — and the position is that of the space before a
    (line = line of the text token + newlines in front of the run; column counted from the last newline of the TOKEN TEXT, which for
    continuation lines of a paragraph does not include the stripped indentation). -/
theorem md037_scan_iff (toks : List Tok2) (hp : ∀ t ∈ toks, t.kind = .text → Plain037 t.text) :
    ∃ rs, scan2 md037 () toks = .ok rs ∧
      ∀ r, r ∈ rs ↔ ∃ p ∈ closedPairs037 toks,
        (firstCond037 p.1 p.2 = true ∧ r = plainPos037 p.1 p.2.len) ∨ (secondCond037 p.1 p.2 = true ∧ r = plainPos037 p.2 (-1)) := by
  have hall : ∀ p ∈ closedPairs037 toks, Plain037 p.1.text ∧ Plain037 p.2.text :=
    specPairs037_all (fun e => Plain037 e.text) toks none 0 (fun t ht hk j f => hp t ht hk) (by intro st h; cases h)
  refine ⟨_, by rw [scan037_pairs, repAll037_plain _ hall], ?_⟩
  intro r
  simp only [List.mem_flatMap, plainPair037]
  constructor
  · rintro ⟨p, hpm, hr⟩
    refine ⟨p, hpm, ?_⟩
    rcases List.mem_append.mp hr with h | h
    · left
      by_cases c : firstCond037 p.1 p.2 = true
      · rw [if_pos c] at h; simp only [List.mem_singleton] at h; exact ⟨c, h⟩
      · rw [if_neg c] at h; cases h
    · right
      by_cases c : secondCond037 p.1 p.2 = true
      · rw [if_pos c] at h; simp only [List.mem_singleton] at h; exact ⟨c, h⟩
      · rw [if_neg c] at h; cases h
  · rintro ⟨p, hpm, hr⟩
    refine ⟨p, hpm, ?_⟩
    rcases hr with ⟨c, e⟩ | ⟨c, e⟩
    · exact List.mem_append_left _ (by rw [if_pos c, e]; exact List.mem_singleton_self _)
    · exact List.mem_append_right _ (by rw [if_pos c, e]; exact List.mem_singleton_self _)

/-- excluded point of `md037_scan_iff` (synthetic streams only — no parsed stream of the tie does this): an unbalanced U+0007 in front of
    a reported run makes `ParserHelper.remove_all_from_text` raise `ValueError` inside `__report` -/
example : scan2 md037 () (para037 ["\x07 * b * "]) = .error .valueError := by decide

/-- non-vacuity of `md037_scan_iff`, and the reading of `eligGo037`: in `a ** b** c *d` the runs at 2 (space before, space behind) and 6
    (space behind) are eligible and close a pair; the `*` at 11 (space before) stays on the stack -/
example : (eligibles037 "a ** b** c *d".toList).map (fun f => (f.start, f.len, f.before, f.after)) =
      [(2, 2, some ' ', some ' '), (6, 2, some 'b', some ' '), (11, 1, some ' ', some 'd')] ∧
    (closedPairs037 (para037 ["a ** b** c *d"])).map (fun p => (p.1.start, p.2.start)) = [(2, 6)] ∧
    rpos037 (scan2 md037 () (para037 ["a ** b** c *d"])) = .ok [(1, 5)] := by
  refine ⟨by decide, by decide, by decide⟩

/-- the skip: the character directly behind a run is never looked at — in `a *_ b _ c` the first `_` is not seen, so the second one
    is an opening run and nothing closes -/
example : (eligibles037 "a *_ b _ c".toList).map (fun f => (f.ch, f.start)) = [('*', 2), ('_', 7)] ∧
    closedPairs037 (para037 ["a *_ b _ c"]) = [] := by
  refine ⟨by decide, by decide⟩

/-! ## faithful model against the rule page

  Page: "this rule check[s] for cases where at least one of a pair of eligible emphasis characters are surrounded by whitespace
  characters" — `pageFirst037` / `pageSecond037`.  The code asks for more: the opening run is reported only when ALSO the closing run
  has a space behind it, the closing run only when ALSO the opening run has a space in front; and "surrounded" means U+0020 on
  both sides — a tab makes a run eligible but never reported. -/

/-- faithful = page on the streams all of whose closed pairs are `PageOK037` (the three examples of the page are) -/
theorem md037_faithful_eq_spec_partial (toks : List Tok2) (h : ∀ p ∈ closedPairs037 toks, PageOK037 p) :
    scan2 md037 () toks = repAll037 pageFirst037 pageSecond037 (closedPairs037 toks) := by
  rw [scan037_pairs]
  exact repAll037_congr _ _ _ _ _ (fun p hp => pageOK037_conds p (h p hp))

/-- non-vacuity: the page's three failure scenarios and its correct scenario -/
example : (∀ p ∈ closedPairs037 (para037 ["this is ** not some ** bold text"]), PageOK037 p) ∧
    rpos037 (scan2 md037 () (para037 ["this is ** not some ** bold text"])) = .ok [(1, 11), (1, 20)] ∧
    rpos037 (scan2 md037 () (para037 ["this is ** not some** bold text"])) = .ok [(1, 11)] ∧
    rpos037 (scan2 md037 () (para037 ["this is **not some ** bold text"])) = .ok [(1, 19)] ∧
    rpos037 (scan2 md037 () (para037 ["this is **some** bold text"])) = .ok [] := by
  refine ⟨?_, by decide, by decide, by decide, by decide⟩
  intro p hp
  have : closedPairs037 (para037 ["this is ** not some ** bold text"]) =
      [(⟨'*', 8, 2, some ' ', some ' ', 1, "this is ** not some ** bold text".toList, 1, 1⟩,
        ⟨'*', 20, 2, some ' ', some ' ', 1, "this is ** not some ** bold text".toList, 1, 1⟩)] := by decide
  rw [this] at hp
  simp only [List.mem_singleton] at hp
  subst hp
  exact ⟨rfl, rfl, by decide, by decide⟩

/-- WITNESSES where the code departs from its page (the real rule is silent on all three documents):
    `this is ** not some **.` — the opening run is surrounded by spaces, but the closing run is followed by a full stop;
    `this is **<TAB>not some<TAB>** bold text` — tabs inside the emphasis;
    `(** not some **)` — spaces inside, brackets outside. -/
theorem md037_departs_from_page :
    (scan2 md037 () (para037 ["this is ** not some **."]) = .ok [] ∧
     rpos037 (repAll037 pageFirst037 pageSecond037 (closedPairs037 (para037 ["this is ** not some **."]))) = .ok [(1, 11)]) ∧
    (scan2 md037 () (para037 ["this is **\tnot some\t** bold text"]) = .ok [] ∧
     rpos037 (repAll037 pageFirst037 pageSecond037 (closedPairs037 (para037 ["this is **\tnot some\t** bold text"]))) = .ok [(1, 11), (1, 20)]) ∧
    scan2 md037 () (para037 ["(** not some **)"]) = .ok [] := by
  refine ⟨⟨by decide, by decide⟩, ⟨by decide, by decide⟩, by decide⟩

end Verif.Props.TokenRules2
