import Verif.Lemmas.TokenRules.Md046Main
import Verif.Lemmas.TokenRules.Md046Spec
/-!
  TokenRules2 — MD046 (code block style): property theorems.  Model: `Model/TokenRules/Md046.lean` (faithful, tied),
  documented condition: `Model/TokenRules/Md046Spec.lean`, reference condition: `Model/RuleSpec/Blocks.lean :: md046`.
  MD046's fix is the only modelled one that REPLACES tokens (`register_replace_tokens_request`); the generic theory of
  `applyFixes2` with replacement records is in `Lemmas/TokenRules/Repl*.lean`, its main results are restated here (`repl_…`).

  Serves C06 (scan = documented condition), C08 (what the fix changes), C09 (H1, idempotence), C07 (positions after the fix: defect).
-/
namespace Verif.Props.TokenRules2
open Verif.Model.TokenRules

/-! ## Part 1 — replacement records, generic (any rule) -/

/-- (1) sorted, disjoint, in-range records with non-empty lists whose stream objects come from the replaced range, no field requests:
    the application succeeds (`collide` passes, every lookup of `__apply_replacement_fix` is defined) -/
theorem repl_applyFixes2_ok (toks : List Tok2) (repls : List Repl) (h : ReplsOk toks.length 0 repls) :
    ∃ out, applyFixes2 toks [] repls = .ok out := applyFixes2_ok toks repls h

/-- (2) the result is the obvious splice of the original stream, modulo `line`, `startIdx`, `pragmaLines` — the three fields the
    machinery itself rewrites.  Kind, text, whitespace, every string field of every token of the result is that of the splice. -/
theorem repl_applyFixes2_splice (toks : List Tok2) (repls : List Repl) (h : ReplsOk toks.length 0 repls) (out : List Tok2)
    (ho : applyFixes2 toks [] repls = .ok out) :
    out.map core = (splice toks 0 repls).map core ∧ out.map (·.kind) = (splice toks 0 repls).map (·.kind) :=
  ⟨applyFixes2_core toks repls h out ho, applyFixes2_kinds toks repls h out ho⟩

/-- (2, sharp) when no new token is a pragma token the final working list is EXACTLY the symbolic splice: new tokens are untouched
    (only their `startIdx` is renumbered by `reindex`), surviving objects keep everything but `line` / `pragmaLines` (`coreL`) -/
theorem repl_applyFixes2_exact (toks : List Tok2) (repls : List Repl) (h : ReplsOk toks.length 0 repls) (hp : NoNewPragma repls) :
    ∃ w : Work, applyFixes2 toks [] repls = .ok (reindex w 0 (spliceW toks.length 0 repls)) ∧ w.store.length = toks.length ∧
      (∀ j : Nat, (w.store[j]?).map coreL = (toks[j]?).map coreL) := by
  obtain ⟨w, h1, h2, h3, _, h5⟩ := applyFixes2_repls toks repls h
  exact ⟨w, by rw [h1, h5 hp], h2, h3⟩

/-- (3) nothing registered: the stream comes back unchanged when its `startIdx` point into the stream … -/
theorem repl_applyFixes2_nil (toks : List Tok2) (hv : ∀ t ∈ toks, ∀ j, t.startIdx = some j → j < toks.length) :
    applyFixes2 toks [] [] = .ok toks := applyFixes2_nil toks hv

/-- … and the hypothesis is needed (TEST on a literal): an out-of-range `startIdx` is reset.  It is a representation artefact — Python's
    `start_markdown_token` is a reference to a token of the stream or to one outside it (`none`). -/
theorem repl_applyFixes2_nil_excluded :
    applyFixes2 [{ kind := .paraEnd, startIdx := some 5 }] [] [] ≠ .ok [{ kind := .paraEnd, startIdx := some 5 }] := by decide

/-- (4) the `startIdx` of the result point into the result, when the new end tokens name positions inside their own list -/
theorem repl_startIdx_lt (toks : List Tok2) (repls : List Repl) (h : ReplsOk toks.length 0 repls) (hn : NewEndsOk repls)
    (out : List Tok2) (ho : applyFixes2 toks [] repls = .ok out) : ∀ t ∈ out, ∀ j, t.startIdx = some j → j < out.length :=
  applyFixes2_startIdx_lt toks repls h hn out ho

/-- non-vacuity of `ReplsOk` / `NewEndsOk` / `NoNewPragma` (TEST on a literal): two records on a stream of six tokens -/
example :
    let toks : List Tok2 := [{ kind := .para }, { kind := .paraEnd, startIdx := some 0 }, { kind := .fence }, { kind := .text },
      { kind := .fenceEnd, startIdx := some 2 }, { kind := .eos }]
    let repls : List Repl := [⟨0, 1, [.new { kind := .blank }]⟩, ⟨2, 4, [.new { kind := .icode }, .ref 3, .new { kind := .icodeEnd, startIdx := some 0 }]⟩]
    ReplsOk toks.length 0 repls ∧ NewEndsOk repls ∧ NoNewPragma repls ∧
      (applyFixes2 toks [] repls).map (·.map (fun t => (t.kind, t.startIdx))) =
        .ok [(.blank, none), (.icode, none), (.text, none), (.icodeEnd, some 1), (.eos, none)] := by
  refine ⟨⟨by decide, by decide, by decide, by decide, ?_, by decide, by decide, by decide, by decide, ?_, trivial⟩, ?_, ?_, by decide⟩
  · intro x hx; simp at hx; subst hx; trivial
  · intro x hx; simp at hx; rcases hx with rfl | rfl | rfl <;> simp [RTok.refOk]
  · intro r hr q t j hq hj
    simp at hr
    rcases hr with rfl | rfl
    · match q, hq with
      | 0, hq => simp at hq; subst hq; cases hj
    · match q, hq with
      | 0, hq => simp at hq; subst hq; cases hj
      | 2, hq => simp at hq; subst hq; cases hj; decide
  · intro r hr t ht
    simp at hr
    rcases hr with rfl | rfl
    · simp at ht; subst ht; decide
    · simp at ht; rcases ht with rfl | rfl <;> decide


/-! ## Part 2 — MD046 -/

/-! ### the scan -/
/-- the scan never raises, on ANY stream -/
theorem md046_scan_ok (c : C046) (toks : List Tok2) : ∃ rps, scan2 md046 c toks = .ok rps := ⟨_, scan2_md046 c toks⟩

/-- C06, for every stream: the scan reports exactly the code block start tokens whose style differs from the required one — the
    configured style, or with `consistent` the style of the FIRST code block start token of the stream (`required046`) — in stream
    order, each at the token's position with `Expected: <required>; Actual: <its style>`. -/
theorem md046_scan_iff (c : C046) (toks : List Tok2) : scan2 md046 c toks = .ok (spec046 c toks) := scan2_md046 c toks

/-- the same, sentence-shaped -/
theorem md046_scan_mem (c : C046) (toks : List Tok2) (r : Report) :
    r ∈ spec046 c toks ↔ ∃ t ∈ toks, (t.kind = .fence ∨ t.kind = .icode) ∧ required046 c toks ≠ some (sty046 t) ∧
      r = ⟨t.line, t.col, some (msg046 ((required046 c toks).getD (sty046 t)) (sty046 t))⟩ := by
  simp only [spec046, offending046, List.mem_map, List.mem_filter, Bool.and_eq_true, decide_eq_true_eq, isCode046_kind, report046]
  constructor
  · rintro ⟨t, ⟨ht, hk, hr⟩, rfl⟩; exact ⟨t, ht, hk, hr, rfl⟩
  · rintro ⟨t, ht, hk, hr, rfl⟩; exact ⟨t, ⟨ht, hk, hr⟩, rfl⟩

/-- with a configured style the required style is that style; with `consistent` it is the style of the first code block -/
theorem md046_required (c : C046) (toks : List Tok2) :
    required046 c toks = match c.style with
      | some s => some s
      | none => ((toks.filter (fun t => decide (t.kind = .fence ∨ t.kind = .icode))).head?).map sty046 := by
  unfold required046
  cases c.style with
  | some s => rfl
  | none =>
    simp only [firstSty046_eq, codeStarts046]
    congr 3
    funext t
    simp [isCode046]

example : scan2 md046 {} [{ kind := .fence, line := 1, col := 1 }, { kind := .fenceEnd, startIdx := some 0 },
      { kind := .icode, line := 5, col := 5 }, { kind := .icodeEnd, startIdx := some 2 }] =
    .ok [⟨5, 5, some "Expected: fenced; Actual: indented".toList⟩] := by decide

/-- the scan depends only on `kind`, `line`, `col` of the tokens (interference table: a fix that leaves these alone on every token
    cannot change MD046's verdicts) -/
theorem md046_scan_reads (c : C046) (toks toks' : List Tok2)
    (h : All₂ (fun t t' => t'.kind = t.kind ∧ t'.line = t.line ∧ t'.col = t.col) toks toks') :
    scan2 md046 c toks' = scan2 md046 c toks := by
  obtain ⟨s1, h1⟩ := md046_scan_run c toks' toks' c.style 0
  obtain ⟨s2, h2⟩ := md046_scan_run c toks toks c.style 0
  have hi : md046.init c = ⟨c.style, none, none, none⟩ := rfl
  unfold scan2
  rw [hi, h1, h2, specGo046_congr h]

/-- faithful = reference: when the code blocks the rule sees are those of the document (style and line of the reference parser's
    fenced / indented code blocks, in order), the lines of `spec046` are the lines of the reference condition `RuleSpec.md046`. -/
theorem md046_faithful_eq_spec (c : C046) (toks : List Tok2) (ls : List Verif.Model.LeanMark.Line)
    (evs : List Verif.Model.LeanMark.Ev)
    (hsame : ((Verif.Model.RuleSpec.blocks evs).filter (fun b => Verif.Model.RuleSpec.isCodeK b.k)).map
        (fun b => (Verif.Model.RuleSpec.isFencedK b.k, b.line)) =
      (codeStarts046 toks).map (fun t => (decide (t.kind = .fence), t.line.toNat))) :
    (spec046 c toks).map (fun r => r.line.toNat) =
      (Verif.Model.RuleSpec.md046 { style := match c.style with
        | none => .consistent | some .fenced => .fenced | some .indented => .indented } ls evs).map (·.1) := by
  have hmap : ∀ (R : Option Sty046) (l : List Tok2), (l.map (report046 R)).map (fun r => r.line.toNat) = l.map (fun t => t.line.toNat) := by
    intro R l; simp [List.map_map, Function.comp_def, report046]
  unfold spec046 Verif.Model.RuleSpec.md046
  rw [hmap, offending046_filter]
  cases hs : c.style with
  | some w =>
    have hreq : required046 c toks = some w := by simp [required046, hs]
    rw [hreq]
    cases w
    · exact fixed046_ref .fenced _ _ hsame
    · exact fixed046_ref .indented _ _ hsame
  | none =>
    have hreq : required046 c toks = (codeStarts046 toks).head?.map sty046 := by simp [required046, hs, firstSty046_eq]
    rw [hreq]
    simp only
    cases hf : codeStarts046 toks with
    | nil =>
      rw [hf] at hsame
      cases hr : (Verif.Model.RuleSpec.blocks evs).filter (fun b => Verif.Model.RuleSpec.isCodeK b.k) with
      | nil => rfl
      | cons _ _ => rw [hr] at hsame; simp at hsame
    | cons t ts =>
      rw [hf] at hsame
      cases hr : (Verif.Model.RuleSpec.blocks evs).filter (fun b => Verif.Model.RuleSpec.isCodeK b.k) with
      | nil => rw [hr] at hsame; simp at hsame
      | cons r rs =>
        rw [hr] at hsame
        simp only [List.map_cons, List.cons.injEq, Prod.mk.injEq] at hsame
        obtain ⟨⟨h1, _⟩, h3⟩ := hsame
        have hd : decide (sty046 t = .fenced) = Verif.Model.RuleSpec.isFencedK r.k := by
          rw [h1]; by_cases hk : t.kind = .fence <;> simp [sty046, hk]
        simp only [List.head?_cons, Option.map_some, List.filter_cons, ne_eq, not_true_eq_false, decide_false,
          Bool.false_eq_true, ↓reduceIte]
        rw [← hd]
        exact fixed046_ref (sty046 t) ts rs h3


/-! ### the fix -/
/-- the witness stream of this section (TEST literals): the real token stream of
    `<!-- pyml disable-next-line md013-->\nline\n\n```text\na\n```\n\n    x\n` (`tokenrules2lib.parse` + `abstract_all`) -/
def doc046 : List Tok2 := [
    { kind := .para, line := 2, col := 1 },
    { kind := .text, line := 2, col := 1, text := "line".toList, endWs := some ("".toList) },
    { kind := .paraEnd, startIdx := some 0 },
    { kind := .blank, line := 3, col := 1 },
    { kind := .fence, line := 4, col := 1, fenceChar := "`".toList },
    { kind := .text, line := 5, col := 1, text := "a".toList },
    { kind := .fenceEnd, endData := some (":3".toList), startIdx := some 4 },
    { kind := .blank, line := 7, col := 1 },
    { kind := .icode, line := 8, col := 5, ws := "    ".toList, leading := some ("".toList) },
    { kind := .text, line := 8, col := 5, text := "x".toList },
    { kind := .icodeEnd, startIdx := some 8 },
    { kind := .blank, line := 9, col := 1 },
    { kind := .eos, line := 10 },
    { kind := .pragma, pragmaLines := [1] }]

/-- what the fix makes of it (the tie compares exactly this with the real `__process_file_fix_tokens_apply_fixes_inner`) -/
def doc046Fixed : List Tok2 := [
    { kind := .para, line := 2, col := 1 },
    { kind := .text, line := 2, col := 1, text := "line".toList, endWs := some ("".toList) },
    { kind := .paraEnd, startIdx := some 0 },
    { kind := .blank, line := 3, col := 1 },
    { kind := .fence, line := 4, col := 1, fenceChar := "`".toList },
    { kind := .text, line := 5, col := 1, text := "a".toList },
    { kind := .fenceEnd, endData := some (":3".toList), startIdx := some 4 },
    { kind := .blank, line := 7, col := 1 },
    { kind := .fence, line := 0, col := 1, fenceChar := "`".toList },
    { kind := .text, line := 8, col := 5, text := "x".toList },
    { kind := .fenceEnd, endData := some (":3".toList), startIdx := some 8 },
    { kind := .blank, line := 17, col := 1 },
    { kind := .eos, line := 18 },
    { kind := .pragma, pragmaLines := [9] }]

/-- non-vacuity of `md046_faithful_eq_spec` (TEST on a literal): for the witness document the reference parser's code blocks are the
    code block start tokens of the real stream (`doc046`, defined below), and both conditions name line 8 -/
example :
    let doc := "<!-- pyml disable-next-line md013-->\nline\n\n```text\na\n```\n\n    x\n".toList
    ((Verif.Model.RuleSpec.blocks (Verif.Model.RuleSpec.evsOf doc)).filter (fun b => Verif.Model.RuleSpec.isCodeK b.k)).map
        (fun b => (Verif.Model.RuleSpec.isFencedK b.k, b.line)) =
      (codeStarts046 doc046).map (fun t => (decide (t.kind = .fence), t.line.toNat)) ∧
    (spec046 {} doc046).map (fun r => r.line.toNat) = [8] ∧
    (Verif.Model.RuleSpec.md046 {} (Verif.Model.RuleSpec.rawLines doc) (Verif.Model.RuleSpec.evsOf doc)).map (·.1) = [8] := by decide

/-- under the invariant real streams have (`wf046`: behind a code block start only text tokens, at most one, up to an end token that
    names the start token; the tie checks it on every parsed stream) the fix never raises -/
theorem md046_fix_ok (c : C046) (toks : List Tok2) (h : wf046 none 0 toks = true) : ∃ toks', fix2 md046 c toks = .ok toks' :=
  fix2_046_ok c toks h

example : wf046 none 0 doc046 = true ∧ fix2 md046 {} doc046 = .ok doc046Fixed := by decide

/-- the replacement machinery never fails on MD046's records: the fix fails exactly when the rule's own run raises -/
theorem md046_fix_ok_iff_run (c : C046) (toks : List Tok2) :
    (∃ toks', fix2 md046 c toks = .ok toks') ↔ ∃ o, fixOut md046 c toks = .ok o := by
  constructor
  · rintro ⟨toks', h⟩
    obtain ⟨rs, h1, _⟩ := fix2_046_inv c toks toks' h
    exact ⟨_, h1⟩
  · rintro ⟨o, h⟩; exact fix2_046_of_fixOut c toks o h

/-- the excluded points of `md046_fix_ok` (TESTS on literals), each in a block of the wrong style: a second text token
    (`assert self.__inner_fix_token is None`), a token that is neither text nor an end token (`assert token.is_text`), an end token
    that names another start token (`assert end_token.start_markdown_token == self.__start_fix_token`), and `end-of-stream`
    (`EndOfStreamToken` has no `start_markdown_token`: AttributeError) -/
theorem md046_fix_ok_excluded :
    let i : Tok2 := { kind := .icode }
    let ie : Tok2 := { kind := .icodeEnd, startIdx := some 0 }
    let f : Tok2 := { kind := .fence }
    let x : Tok2 := { kind := .text }
    (wf046 none 0 [i, ie, f, x, x] = false ∧ fix2 md046 {} [i, ie, f, x, x] = .error .assertion) ∧
    (wf046 none 0 [i, ie, f, { kind := .blank }] = false ∧ fix2 md046 {} [i, ie, f, { kind := .blank }] = .error .assertion) ∧
    (wf046 none 0 [i, ie, f, ie] = false ∧ fix2 md046 {} [i, ie, f, ie] = .error .assertion) ∧
    (wf046 none 0 [i, ie, f, { kind := .eos }] = false ∧ fix2 md046 {} [i, ie, f, { kind := .eos }] = .error .attributeError) := by
  decide

/-- token-level C08, as an inductive relation between the two streams (`Conv046`, see `Lemmas/TokenRules/Md046Conv.lean`):
    * (keep) a token outside every replaced range is unchanged except `line` / `startIdx` / `pragmaLines`;
    * (block) `start :: text? ++ [end]` with `start` a code block start of the wrong style becomes
      `[blank]? ++ newStart :: text? ++ [newEnd]`: the inner TEXT token is the same object (unchanged up to the same three fields — its
      line is adjusted by EARLIER replacements only, not by its own), `newStart` / `newEnd` are exactly `newFenced` / `newIndented`
      (`newStart046` / `newEnd046`: fence character backtick, count 3, and — the abstract token has no info-string field — nothing of
      the original start token survives: the language of a fenced block and the leading whitespace of either kind are lost), the new end
      token names the position of the new start token, and `[blank]` = `newBlank` appears iff the style is `indented` and the token in
      front of `start` is a paragraph end (`blank046`);
    * (openTail) a wrong-style start with at most one text token and no end token at the very end of the stream stays. -/
theorem md046_fix_only_style (c : C046) (toks toks' : List Tok2) (h : fix2 md046 c toks = .ok toks') :
    Conv046 c.style none 0 toks toks' := (fix2_046_inv c toks toks' h).choose_spec.2.2.2.2.1

/-- the new tokens are constants of the required style and the inner text: no field of the replaced start / end token is read -/
theorem md046_fix_new_tokens (req : Sty046) (inner : Option Tok2) (pos : Nat) :
    newStart046 req inner = (match req with
      | .fenced => ({ kind := .fence, line := 0, col := 1, fenceChar := ['`'] } : Tok2)
      | .indented => ({ kind := .icode, line := 0, col := 0, ws := "    ".toList, leading := some ((List.replicate (match inner with | some x => countNl x.text | none => 0) ("\n    ".toList)).flatten) } : Tok2)) ∧
    newEnd046 req pos = (match req with
      | .fenced => ({ kind := .fenceEnd, endData := some [':', '3'], startIdx := some pos } : Tok2)
      | .indented => ({ kind := .icodeEnd, startIdx := some pos } : Tok2)) := by
  cases req <;> cases inner <;> exact ⟨rfl, rfl⟩

/-- corollary: the sequence of (kind, text) of all text tokens is unchanged -/
theorem md046_fix_preserves_text (c : C046) (toks toks' : List Tok2) (h : fix2 md046 c toks = .ok toks') :
    texts046 toks' = texts046 toks := (md046_fix_only_style c toks toks' h).texts

/-- every `startIdx` of the fixed stream points into the fixed stream -/
theorem md046_fix_startIdx (c : C046) (toks toks' : List Tok2) (h : fix2 md046 c toks = .ok toks') :
    ∀ t ∈ toks', ∀ j, t.startIdx = some j → j < toks'.length := (fix2_046_inv c toks toks' h).choose_spec.2.2.2.2.2

/-- H1 of convergence: after a successful fix the rule's scan of the fixed stream is silent — for ALL streams whose last token is
    neither a code block start nor a text token (`ClosedEnd046`; every parsed stream ends with `end-of-stream`, or the pragma token) -/
theorem md046_fix_removes_trigger (c : C046) (toks toks' : List Tok2) (hend : ClosedEnd046 toks)
    (h : fix2 md046 c toks = .ok toks') : scan2 md046 c toks' = .ok [] := by
  obtain ⟨s', hs'⟩ := (md046_fix_only_style c toks toks' h).quiet c false (.inr hend) toks' 0
  have hi : md046.init c = ⟨c.style, none, none, none⟩ := rfl
  unfold scan2
  rw [hi, hs']

example : ClosedEnd046 doc046 ∧ scan2 md046 {} doc046 ≠ .ok [] ∧ scan2 md046 {} doc046Fixed = .ok [] := by
  refine ⟨?_, by decide, by decide⟩
  intro t ht
  have : doc046.getLast? = some { kind := .pragma, pragmaLines := [1] } := rfl
  rw [this] at ht; cases ht; decide


/-- the hypothesis of `md046_fix_removes_trigger` is needed: a wrong-style code block start as the LAST token of a (synthetic) stream
    opens a conversion that is never closed — the fix succeeds, registers nothing, and the rule still fires -/
theorem md046_fix_keeps_trigger_open :
    let toks : List Tok2 := [{ kind := .icode, line := 1, col := 5 }, { kind := .icodeEnd, startIdx := some 0 }, { kind := .fence, line := 3, col := 1 }]
    fix2 md046 {} toks = .ok toks ∧ scan2 md046 {} toks = .ok [⟨3, 1, some "Expected: indented; Actual: fenced".toList⟩] := by
  decide

/-- idempotence, for ALL streams: fixing the fixed stream changes nothing -/
theorem md046_fix_idempotent (c : C046) (toks toks' : List Tok2) (h : fix2 md046 c toks = .ok toks') :
    fix2 md046 c toks' = .ok toks' := by
  obtain ⟨s', hs'⟩ := (md046_fix_only_style c toks toks' h).quiet c true (.inl rfl) toks' 0
  have hi : md046.init c = ⟨c.style, none, none, none⟩ := rfl
  have hout : fixOut md046 c toks' = .ok {} := by unfold fixOut; rw [hi, hs']
  unfold fix2
  rw [hout]
  exact applyFixes2_nil toks' (md046_fix_startIdx c toks toks' h)

example : fix2 md046 {} doc046 = .ok doc046Fixed ∧ fix2 md046 {} doc046Fixed = .ok doc046Fixed := by decide

/-! ### the REAL defect: wrong line numbers behind a converted block, pragma lines moved into the document -/

/-- `__apply_replacement_fix` computes `line_number_delta` from `next_replacement.end_token.line_number`, which is 0 for every
    `EndMarkdownToken`, and from the line numbers of the replacement tokens, which MD046 creates with line 0.  With ONE converted block
    (`start` … `end`): the tokens in front keep their line; every token behind the block is moved by `start.line − end.line`
    (`adjLine`: a line number 0 stays 0) — NOT by the change in the number of lines of the block (+2 / −2 / −1). -/
theorem md046_fix_line_delta (c : C046) (toks toks' : List Tok2) (r : Repl)
    (hout : fixOut md046 c toks = .ok ⟨[], [], [r]⟩) (h : fix2 md046 c toks = .ok toks') :
    ∃ st en, toks[r.startIdx]? = some st ∧ toks[r.endIdx]? = some en ∧ isCode046 st = true ∧
      (∀ (q : Nat) (t : Tok2), q < r.startIdx → toks[q]? = some t → ∃ t', toks'[q]? = some t' ∧ t'.line = t.line) ∧
      (∀ (m : Nat) (t : Tok2), toks[r.endIdx + 1 + m]? = some t →
        ∃ t', toks'[r.startIdx + r.toks.length + m]? = some t' ∧ t'.line = (adjLine (st.line - en.line) t).line) :=
  fix2_046_line_delta c toks toks' r hout h

/-- … so with the end token at line 0 (every real end token) a token at line `l ≠ 0` behind the block ends up at `l + start.line` -/
theorem md046_fix_line_delta_real (c : C046) (toks toks' : List Tok2) (r : Repl)
    (hout : fixOut md046 c toks = .ok ⟨[], [], [r]⟩) (h : fix2 md046 c toks = .ok toks')
    (hen : ∀ en, toks[r.endIdx]? = some en → en.line = 0) :
    ∃ st, toks[r.startIdx]? = some st ∧
      ∀ (m : Nat) (t : Tok2), toks[r.endIdx + 1 + m]? = some t → t.line ≠ 0 →
        ∃ t', toks'[r.startIdx + r.toks.length + m]? = some t' ∧ t'.line = t.line + st.line := by
  obtain ⟨st, en, hst, hen', _, _, hafter⟩ := md046_fix_line_delta c toks toks' r hout h
  refine ⟨st, hst, fun m t ht hl => ?_⟩
  obtain ⟨t', h1, h2⟩ := hafter m t ht
  refine ⟨t', h1, ?_⟩
  rw [h2, hen en hen']
  simp [adjLine, hl]

/-- WITNESS (a `decide` on the literal stream `doc046`, the real tokens of the document in the notes): the indented block at line 8
    is converted; the blank line and `end-of-stream` behind it move from lines 9 / 10 to 17 / 18 (by 8 = the line of the block's start
    token; the true change is +2), and the pragma of LINE 1 — `pragma_line_number > end_token.line_number (= 0)` holds for every
    pragma — is re-keyed to line 9, which is INSIDE the converted block: the real CLI writes the pragma comment between `x` and the
    closing fence.  C08 (fix changes content) and C07 (positions). -/
theorem md046_fix_moves_pragma :
    fix2 md046 {} doc046 = .ok doc046Fixed ∧
    (doc046.map (·.pragmaLines)).flatten = [1] ∧ (doc046Fixed.map (·.pragmaLines)).flatten = [9] ∧
    doc046[11]?.map (·.line) = some 9 ∧ doc046Fixed[11]?.map (·.line) = some 17 ∧
    fixOut md046 {} doc046 = .ok ⟨[], [], [⟨8, 10, [.new (newFenced 0).1, .ref 9, .new (newFenced 0).2]⟩]⟩ := by
  decide

end Verif.Props.TokenRules2
