import Verif.Lemmas.TokenRules.Md030Style
import Verif.Lemmas.TokenRules.Md030Ok2
import Verif.Lemmas.TokenRules.Md030Err
import Verif.Lemmas.TokenRules.Md030Spec
import Verif.Lemmas.TokenRules.Congr2
import Verif.Lemmas.TokenRules.Lift
import Verif.Model.TokenRules.MD029
/-!
  MD030 list-marker-space over `Tok2`, scan AND fix — property theorems
  (C06 scan = documented condition, C08 token-level style-only, C09 H1 / idempotence, C01-style totality of the fix).
-/
namespace Verif.Props.TokenRules2
open Verif.Model.TokenRules

/-! ## the scan half agrees with the old scan-only model -/

/-- the scan reports of the two-mode model over `Tok2` are exactly those of the old model `md030` on the projected stream (same
    failures too), so everything proved about `scan md030` carries over. -/
theorem md030f_scan_eq_old (c : C030) (toks : List Tok2) :
    scan2 md030f c toks = (scan md030 c (toks.map (·.toTok))).mapError Err.to2 :=
  scan2_md030f_eq_old c toks

/-! ## C09 H1, idempotence -/

/-- H1, for ALL streams on which the fix succeeds: after the fix the rule's scan of the fixed stream is silent.
    (The scan reads `indent_level`, which is what the fix rewrites; every token index lies in at most one closed list, so the one request
    a failing token gets is the one that is applied.) -/
theorem md030_fix_removes_trigger (c : C030) (toks toks' : List Tok2) (h : fix2 md030f c toks = .ok toks') :
    scan2 md030f c toks' = .ok [] := by
  obtain ⟨hv, s_end, hs⟩ := fix_no_viol030 c toks toks' h
  rw [scan2_md030f_eq, hs]
  simp only [Except.ok.injEq, List.flatMap_eq_nil_iff]
  intro cl hcl
  rw [hv cl hcl]; rfl

theorem md030_fix_idempotent (c : C030) (toks toks' : List Tok2) (h : fix2 md030f c toks = .ok toks') :
    fix2 md030f c toks' = .ok toks' := by
  obtain ⟨hv, s_end, hs⟩ := fix_no_viol030 c toks toks' h
  have hrun := runFrom2_md030f_of c true toks' toks' {} 0 s_end {} hs (outs030_fix_quiet c toks' _ hv)
  obtain ⟨_, _, ts1, _, _, _, htoks', _⟩ := fix2_md030f_parts c toks toks' h
  unfold fix2 fixOut
  rw [show md030f.init c = ({} : St030f) from rfl, hrun]
  show applyFixes2 toks' [] [] = .ok toks'
  rw [applyFixes2_noRepl030, applyFields_nil030]
  simp only [Except.ok.injEq]
  rw [htoks']
  simp [List.map_map, normIdx_idem030]

/-! ## C08 at token level -/

/-- a successful fix changes only `indent_level` of list-start / list-item tokens and `leading_spaces` of list-start tokens
    (`startIdx`: the apply step forgets an index that points outside the stream — never the case for the abstraction of a real stream).
    How: the new `indent_level` puts exactly `required` columns between the marker and the content
    (`column + required + len(list_start_content)` in an ordered list, `column + required` in an unordered one; `required` = one of the
    four configured values); the new `leading_spaces` has the same number of lines, and every line is a prefix of the old line followed
    by spaces only (`LeadAdj030`, `TrailAdj030`: at most trailing characters are cut, only spaces are appended). -/
theorem md030_fix_only_style (c : C030) (toks toks' : List Tok2) (h : fix2 md030f c toks = .ok toks') :
    All₂ (fun t t' =>
      t' = { t with indent := t'.indent, leading := t'.leading, startIdx := t'.startIdx } ∧
      t'.startIdx = (normIdx030 toks.length t).startIdx ∧
      (t'.indent ≠ t.indent → (t.kind = .ulist ∨ t.kind = .olist ∨ t.kind = .li) ∧
        ∃ ordered paras, t'.indent = t.col + required030 c ordered paras + (if ordered then (t.content.length : Int) else 0)) ∧
      (t'.leading ≠ t.leading → (t.kind = .ulist ∨ t.kind = .olist) ∧
        ∃ ld ld', t.leading = some ld ∧ ld ≠ [] ∧ t'.leading = some ld' ∧ LeadAdj030 ld ld')) toks toks' := by
  obtain ⟨hlen, _⟩ := fix2_md030f_get c toks toks' h
  apply All₂_of_get030 _ _ _ hlen.symm
  intro i t t' ht ht'
  exact fix2_md030f_style c toks toks' h i t t' ht ht'

/-- on a stream whose `startIdx` point into the stream (every abstraction of a real stream) `startIdx` is untouched as well -/
theorem md030_fix_only_style_idx (c : C030) (toks toks' : List Tok2) (h : fix2 md030f c toks = .ok toks')
    (hv : ∀ t ∈ toks, ∀ j, t.startIdx = some j → j < toks.length) :
    All₂ (fun t t' => t' = { t with indent := t'.indent, leading := t'.leading }) toks toks' := by
  obtain ⟨hlen, _⟩ := fix2_md030f_get c toks toks' h
  apply All₂_of_get030 _ _ _ hlen.symm
  intro i t t' ht ht'
  obtain ⟨e1, e2, _⟩ := fix2_md030f_style c toks toks' h i t t' ht ht'
  rw [normIdx_of_lt030 _ _ (hv t (List.mem_of_getElem? ht))] at e2
  rw [e1, e2]

/-- the `startIdx` clause of `md030_fix_only_style` is needed (a model artefact, synthetic streams only): an end token naming an index
    outside the stream comes back with `startIdx = none` as soon as anything is applied -/
example : fix2 md030f {} [{ kind := .paraEnd, startIdx := some 7 }] = .ok [{ kind := .paraEnd, startIdx := none }] := by decide

/-- non-vacuity (`-  a` / `   b` / `-  c`, default configuration; test by evaluation): both tokens are reported; the fix asks for
    `indent_level` 2 on both and rewrites the continuation line of the first item from three spaces to two. -/
example : let d : List Tok2 := [{ kind := .ulist, indent := 3, line := 1, col := 1, leading := some "   \n".toList }, { kind := .para, line := 1, col := 4 },
                                { kind := .text, text := "a\nb".toList, line := 1, col := 4 }, { kind := .paraEnd, startIdx := some 1 },
                                { kind := .li, indent := 3, line := 3, col := 1 }, { kind := .para, line := 3, col := 4 },
                                { kind := .text, text := ['c'], line := 3, col := 4 }, { kind := .paraEnd, startIdx := some 5 },
                                { kind := .ulistEnd, startIdx := some 0 }]
    (scan2 md030f {} d).map (·.map (fun r => (r.line, r.col))) = .ok [(1, 1), (3, 1)] ∧
    (fixOut md030f {} d).map (·.reqs) = .ok [⟨0, .base .indentLevel, .int 2⟩, ⟨4, .base .indentLevel, .int 2⟩,
                                             ⟨0, .base .leadingSpaces, .str "  \n".toList⟩] ∧
    (fix2 md030f {} d).map (·.map (fun t => (t.indent, t.leading))) =
      .ok [(2, some "  \n".toList), (0, none), (0, none), (0, none), (2, none), (0, none), (0, none), (0, none), (0, none)] := by
  refine ⟨by decide, by decide, by decide⟩

/-! ## C06: what the scan reports -/

/-- for ALL streams: the scan fails only where the state machine does (a list end / list item outside every list); otherwise it
    reports, closing by closing (`closings030`: for every list end token, in stream order, the level it closes) and within a closing
    token by token (the list start token, then the list's items), every token whose `delta` (`indent_level − column_number`, minus
    `len(list_start_content)` in an ordered list) differs from the configured value for the list's type and the token's paragraph
    count. -/
theorem md030_scan_eq_closings (c : C030) (toks : List Tok2) :
    scan2 md030f c toks =
      match steps030 {} 0 toks with
      | .error e => .error e
      | .ok _ => .ok ((closings030 {} 0 toks).flatMap (fun cl =>
          (viol030 c cl.1.ordered cl.1.ents).map (repOf030 c cl.1.ordered))) :=
  scan2_md030f_eq c toks

/-- `md030_faithful_eq_spec`: on the token stream of ANY well-kinded tree (`flattenL030 doc`; no list item outside a list) the scan
    is the page's condition `specL030` (Model/TokenRules/Md030Spec.lean): per list, per item, "the item's marker is not followed by
    the configured number of spaces" with single / multi decided by the paragraphs DIRECTLY inside the item. -/
theorem md030_faithful_eq_spec (c : C030) (doc : List Blk030) (hwk : wkL030 doc = true) (hni : noItems030 doc = true) :
    scan2 md030f c (flattenL030 doc) = .ok (specL030 c doc) :=
  scan2_md030f_flatten c doc hwk hni

/-- `md030_scan_iff`, sentence-shaped: a report is made exactly for an item `it` of a list `sb` of the document (at any depth) whose
    marker is followed by a number of columns other than the configured one (`ol_…` for an ordered list, `ul_…` for an unordered one;
    `…_multi` when the item directly contains two or more paragraphs, `…_single` otherwise); it carries the item token's position and
    `Expected: <configured>; Actual: <found>`. -/
theorem md030_scan_iff (c : C030) (doc : List Blk030) (hwk : wkL030 doc = true) (hni : noItems030 doc = true) :
    ∃ rps, scan2 md030f c (flattenL030 doc) = .ok rps ∧ ∀ r, r ∈ rps ↔
      ∃ sb ∈ listsL030 doc, ∃ it ∈ items030 sb.1 sb.2,
        actual030 (decide (sb.1.kind = .olist)) it.1 ≠ wanted030 c (decide (sb.1.kind = .olist)) (decide (2 ≤ directParas030 it.2)) ∧
        r = ⟨it.1.line, it.1.col, some (msg030 (wanted030 c (decide (sb.1.kind = .olist)) (decide (2 ≤ directParas030 it.2)))
              (actual030 (decide (sb.1.kind = .olist)) it.1))⟩ :=
  ⟨specL030 c doc, md030_faithful_eq_spec c doc hwk hni, mem_specL030 c doc⟩

/-- the hypotheses of `md030_faithful_eq_spec` are needed: a list item outside every list makes the scan raise (synthetic streams
    only; `wf030` holds on every parsed stream) -/
example : scan2 md030f {} (flattenL030 [.item { kind := .li }]) = .error .indexError := by decide

/-- the rule page's own example (`+ first item` / `+ second item` / `  +  inner item` / blank / `     inner item`) as a tree -/
def pageExample030 : List Blk030 :=
  [.list { kind := .ulist, indent := 2, line := 1, col := 1 }
     [.leaf { kind := .para, line := 1, col := 3 }, .leaf { kind := .paraEnd },
      .item { kind := .li, indent := 2, line := 2, col := 1 },
      .leaf { kind := .para, line := 2, col := 3 }, .leaf { kind := .paraEnd },
      .list { kind := .ulist, indent := 5, line := 3, col := 3 }
        [.leaf { kind := .para, line := 3, col := 6 }, .leaf { kind := .paraEnd }, .leaf { kind := .blank, line := 4, col := 1 },
         .leaf { kind := .para, line := 5, col := 6 }, .leaf { kind := .paraEnd }, .leaf { kind := .blank, line := 6, col := 1 }]
        { kind := .ulistEnd }]
     { kind := .ulistEnd }]

/-- non-vacuity of `md030_faithful_eq_spec` / `md030_scan_iff` (tests by evaluation), and a defect of the PAGE: it says that
    "setting `ul_single` to 2 and `ul_multi` to 1 will cause this list not to trigger this rule" — under that configuration the
    specification (and the real rule: three reports, `3:3 Expected: 1; Actual: 2`, `1:1 …`, `2:1 Expected: 2; Actual: 1`) reports all
    three items; it is the swapped setting (`ul_single` 1, `ul_multi` 2) that is silent.  The example also fixes the reading of
    "contains": `+ second item` must count as single although its nested list holds two paragraphs. -/
theorem md030_page_example :
    wkL030 pageExample030 = true ∧ noItems030 pageExample030 = true ∧
    (specL030 { ulSingle := 2, ulMulti := 1 } pageExample030).map (fun r => (r.line, r.col)) = [(3, 3), (1, 1), (2, 1)] ∧
    specL030 { ulSingle := 1, ulMulti := 2 } pageExample030 = [] ∧
    scan2 md030f { ulSingle := 1, ulMulti := 2 } (flattenL030 pageExample030) = .ok [] := by
  refine ⟨by decide, by decide, by decide, by decide, ?_⟩
  rw [md030_faithful_eq_spec _ _ (by decide) (by decide)]
  decide

/-- the other reading of the page ("contains" = at any depth) is NOT what the code does: on `- a` / `  - b` / blank / `    c` with
    `ul_single` 1, `ul_multi` 2 the deep reading also reports the outer item (three paragraphs below it), the code and `specL030` only
    the inner one (the real rule: one report, `2:3 Expected: 2; Actual: 1`). -/
theorem md030_spec_deep_differs :
    let doc : List Blk030 :=
      [.list { kind := .ulist, indent := 2, line := 1, col := 1 }
         [.leaf { kind := .para, line := 1, col := 3 }, .leaf { kind := .paraEnd },
          .list { kind := .ulist, indent := 4, line := 2, col := 3 }
            [.leaf { kind := .para, line := 2, col := 5 }, .leaf { kind := .paraEnd }, .leaf { kind := .blank, line := 3, col := 1 },
             .leaf { kind := .para, line := 4, col := 5 }, .leaf { kind := .paraEnd }, .leaf { kind := .blank, line := 5, col := 1 }]
            { kind := .ulistEnd }]
         { kind := .ulistEnd }]
    let c : C030 := { ulSingle := 1, ulMulti := 2 }
    (specL030 c doc).map (fun r => (r.line, r.col)) = [(2, 3)] ∧
    (specDeepL030 c doc).map (fun r => (r.line, r.col)) = [(2, 3), (1, 1)] ∧
    (scan2 md030f c (flattenL030 doc)).map (·.map (fun r => (r.line, r.col))) = .ok [(2, 3)] := by
  refine ⟨by decide, by decide, by decide⟩

/-! ## what the scan reads (interference table) -/

/-- the scan depends on `kind`, `line_number`, `column_number`, `indent_level` and the LENGTH of `list_start_content` only: a fix that
    writes none of them is inert for MD030 (e.g. MD004 `list_start_sequence`, MD037 / MD044 `token_text`, MD046's replacements keep
    list tokens; MD029 writes `list_start_content` and `indent_level`: `md029_md030_interference2`). -/
theorem md030_scan_reads (c : C030) (toks toks' : List Tok2)
    (h : All₂ (fun t t' => t'.kind = t.kind ∧ t'.line = t.line ∧ t'.col = t.col ∧ t'.indent = t.indent ∧
      t'.content.length = t.content.length) toks toks') :
    scan2 md030f c toks' = scan2 md030f c toks := by
  rw [md030f_scan_eq_old, md030f_scan_eq_old]
  congr 1
  apply scan_md030_reads
  have : ∀ (as bs : List Tok2), All₂ (fun t t' => t'.kind = t.kind ∧ t'.line = t.line ∧ t'.col = t.col ∧ t'.indent = t.indent ∧
      t'.content.length = t.content.length) as bs → All₂ Reads030 (as.map (·.toTok)) (bs.map (·.toTok)) := by
    intro as bs hab
    induction hab with
    | nil => exact .nil
    | cons hp _ ih => exact .cons hp ih
  exact this toks toks' h

/-- MD030's own fix writes `indent_level`, `leading_spaces` (and normalises `startIdx`): it is inert for every rule whose scan reads
    none of these — of the fourteen modelled rules only MD030 itself reads `indent_level` in scan mode (MD029 reads it in fix mode to
    compute the new value), none reads `leading_spaces`. -/
theorem md030_fix_writes (c : C030) (toks toks' : List Tok2) (h : fix2 md030f c toks = .ok toks') :
    All₂ (fun t t' => t' = { t with indent := t'.indent, leading := t'.leading, startIdx := t'.startIdx }) toks toks' :=
  fix2_md030f_same c toks toks' h

/-- MD029 → MD030 interference over `Tok2` (counter-example to H2, both rules have fix level 1): `10. x` satisfies MD030 (marker
    `10.` + one space = indent 4); MD029 renumbers the first item to `1` without touching `indent_level`, so two columns follow the
    marker and MD030 reports the list; MD030's fix then sets `indent_level` 3 and is silent.  Realised by the document `"10. x\n"`:
    `pymarkdown fix` writes `1.  x`, a re-scan reports MD030, a second `fix` writes `1. x`. -/
theorem md029_md030_interference2 :
    ∃ toks toks' toks'', scan2 md030f {} toks = .ok [] ∧ fix2 md029.lift {} toks = .ok toks' ∧
      (scan2 md030f {} toks').map (·.map (fun r => (r.line, r.col))) = .ok [(1, 1)] ∧
      fix2 md030f {} toks' = .ok toks'' ∧ toks''.map (·.indent) = [3, 0, 0, 0] ∧ scan2 md030f {} toks'' = .ok [] :=
  ⟨[{ kind := .olist, content := ['1', '0'], indent := 4, line := 1, col := 1 }, { kind := .para, line := 1, col := 5 },
    { kind := .paraEnd, startIdx := some 1 }, { kind := .olistEnd, startIdx := some 0 }],
   [{ kind := .olist, content := ['1'], indent := 4, line := 1, col := 1 }, { kind := .para, line := 1, col := 5 },
    { kind := .paraEnd, startIdx := some 1 }, { kind := .olistEnd, startIdx := some 0 }],
   [{ kind := .olist, content := ['1'], indent := 3, line := 1, col := 1 }, { kind := .para, line := 1, col := 5 },
    { kind := .paraEnd, startIdx := some 1 }, { kind := .olistEnd, startIdx := some 0 }],
   by decide, by decide, by decide, by decide, by decide, by decide⟩

/-! ## the fix does not raise -/

/-- `md030_fix_ok`: on a stream in which list ends close the innermost open list and name its start token and list items lie inside a
    list (`wf030`: true on every parsed stream, checked by the tie) and in which the tracker's line count of every closed level is at
    most the number of lines of that list's `leading_spaces` (`cover030`: NOT true on every parsed stream —
    `md030_fix_index_error_real`), the fix succeeds: no `KeyError` from `get_start_stop`, no `IndexError`, no `AttributeError`, and
    the requests can be applied (no token gets two requests for one field, every field is one its token class accepts). -/
theorem md030_fix_ok (c : C030) (toks : List Tok2) (hW : wf030 toks = true) (hC : cover030 toks = true) :
    ∃ toks', fix2 md030f c toks = .ok toks' :=
  (fix2_md030f_ok_of c toks hW).1 hC

/-- under `wf030` alone the only way the fix can fail is the `IndexError` of `split_leading_spaces[next_index]` -/
theorem md030_fix_ok_or_index (c : C030) (toks : List Tok2) (hW : wf030 toks = true) :
    (∃ toks', fix2 md030f c toks = .ok toks') ∨ fix2 md030f c toks = .error .indexError :=
  (fix2_md030f_ok_of c toks hW).2

/-- on ANY token list the fix succeeds or ends with `AssertionError` / `IndexError` (a list end / item outside every list, or a line
    index outside `leading_spaces`), `AttributeError` (an end token that names no list start token) or `BadPluginFixError` — never
    with the `KeyError` of `ListTracker.get_start_stop` / `__list_adjustments[…]` (the dict lookups are modelled, `startStop030`,
    and proved unreachable: the token-keyed dicts of a level always hold the level's tokens) and never with the `ValueError` of
    `actual_tokens.index`. -/
theorem md030_fix_errors (c : C030) (toks : List Tok2) :
    (∃ toks', fix2 md030f c toks = .ok toks') ∨
    ∃ e, fix2 md030f c toks = .error e ∧ (e = .assertion ∨ e = .indexError ∨ e = .attributeError ∨ e = .badFix) :=
  fix2_md030f_errors c toks

/-- REAL DEFECT (C01 / C09): the stream of the document `"-  [l\n   m](/u)\n"` (a list item whose link label spans two lines), default
    configuration.  `ListTracker.__count_newlines_in_token` counts the newline of the link TWICE (once in the link token's
    `text_from_blocks`, once in the text token inside the link), the trailing blank line once more: line count 3, but `leading_spaces`
    has 2 lines; `wf030` holds, `cover030` does not, the fix raises `IndexError` — `pymarkdown fix` ends with
    "BadPluginError … Plugin id 'MD030' had a critical failure during the 'next_token' action" and leaves the file unfixed.  The scan
    of the same stream reports the list as it should. -/
theorem md030_fix_index_error_real :
    let d : List Tok2 := [{ kind := .ulist, indent := 3, line := 1, col := 1, leading := some "   \n".toList },
      { kind := .para, line := 1, col := 4 }, { kind := .link, text := "l\nm".toList, line := 1, col := 4 },
      { kind := .text, text := "l\nm".toList, line := 1, col := 5 }, { kind := .linkEnd }, { kind := .paraEnd, startIdx := some 1 },
      { kind := .blank, line := 3, col := 1 }, { kind := .ulistEnd, startIdx := some 0 }, { kind := .eos, line := 4 }]
    wf030 d = true ∧ cover030 d = false ∧ fix2 md030f {} d = .error .indexError ∧
    (scan2 md030f {} d).map (·.map (fun r => (r.line, r.col))) = .ok [(1, 1)] := by
  refine ⟨by decide, by decide, by decide, by decide⟩

/-- REAL DEFECT (C08 / C09, document level): the stream of `"- a\n  # h\n  b\n-  z\n   y\n"`, default configuration.  Only the SECOND
    item is badly spaced (`-  z`), and its `indent_level` is the only one requested (3 → 2).  But `ListTracker` has counted no line for
    the heading and the second paragraph of the first item (`__count_newlines_in_token` counts blank lines and newlines INSIDE inline
    tokens only), so the second item's line range is `[0, 2)` instead of `[2, 3)`: the rule cuts one space from lines 0 and 1 of
    `leading_spaces` — the heading line and the second paragraph of the FIRST item — and leaves the second item's own continuation
    line (index 2) at three spaces.  The fix succeeds at token level, `md030_fix_only_style` holds, and the regenerated Markdown is a
    different document: `pymarkdown fix` writes `- a` / ` # h` / ` b` / `- z` / `   y` — the heading now ends the list. -/
theorem md030_fix_wrong_lines_real :
    let d : List Tok2 := [{ kind := .ulist, indent := 2, line := 1, col := 1, leading := some "  \n  \n   \n".toList },
      { kind := .para, line := 1, col := 3 }, { kind := .text, text := ['a'], line := 1, col := 3 }, { kind := .paraEnd, startIdx := some 1 },
      { kind := .atx, hashCount := 1, line := 2, col := 3 }, { kind := .text, text := ['h'], ws := [' '], line := 2, col := 5 },
      { kind := .atxEnd, startIdx := some 4 }, { kind := .para, line := 3, col := 3 }, { kind := .text, text := ['b'], line := 3, col := 3 },
      { kind := .paraEnd, startIdx := some 7 }, { kind := .li, indent := 3, line := 4, col := 1 },
      { kind := .para, line := 4, col := 4 }, { kind := .text, text := "z\ny".toList, line := 4, col := 4 },
      { kind := .paraEnd, startIdx := some 11 }, { kind := .blank, line := 6, col := 1 }, { kind := .ulistEnd, startIdx := some 0 },
      { kind := .eos, line := 7 }]
    wf030 d = true ∧ cover030 d = true ∧
    (fixOut md030f {} d).map (·.reqs) = .ok [⟨10, .base .indentLevel, .int 2⟩, ⟨0, .base .leadingSpaces, .str " \n \n   \n".toList⟩] := by
  refine ⟨by decide, by decide, by decide⟩

/-- excluded points of `md030_fix_ok` — `wf030` is needed (synthetic streams only): a list end outside every list (`AssertionError`),
    a list item outside every list (`IndexError`), a list end that names a token that is no list start (`AttributeError`), two list
    ends that name the same start token (two `leading_spaces` requests for one token: `BadPluginFixError`). -/
example : fix2 md030f {} [{ kind := .ulistEnd }] = .error .assertion := by decide
example : fix2 md030f {} [{ kind := .li }] = .error .indexError := by decide
example : fix2 md030f {} [{ kind := .ulist, indent := 3, col := 1 }, { kind := .para }, { kind := .ulistEnd, startIdx := some 1 }] =
    .error .attributeError := by decide
example : fix2 md030f {} [{ kind := .ulist, indent := 3, col := 1, leading := some "  \n".toList }, { kind := .ulist, indent := 3, col := 1 },
    { kind := .text, text := ['\n'] }, { kind := .ulistEnd, startIdx := some 0 }, { kind := .text, text := ['\n'] },
    { kind := .ulistEnd, startIdx := some 0 }] = .error .badFix := by decide

/-- non-vacuity of `md030_fix_ok`: the stream of the `md030_fix_only_style` example satisfies both invariants -/
example : let d : List Tok2 := [{ kind := .ulist, indent := 3, line := 1, col := 1, leading := some "   \n".toList }, { kind := .para, line := 1, col := 4 },
                                { kind := .text, text := "a\nb".toList, line := 1, col := 4 }, { kind := .paraEnd, startIdx := some 1 },
                                { kind := .li, indent := 3, line := 3, col := 1 }, { kind := .para, line := 3, col := 4 },
                                { kind := .text, text := ['c'], line := 3, col := 4 }, { kind := .paraEnd, startIdx := some 5 },
                                { kind := .ulistEnd, startIdx := some 0 }]
    wf030 d = true ∧ cover030 d = true := by
  refine ⟨by decide, by decide⟩

end Verif.Props.TokenRules2
