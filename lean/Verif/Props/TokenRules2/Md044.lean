import Verif.Lemmas.TokenRules.Md044Reads
import Verif.Lemmas.TokenRules.Md044Scan
import Verif.Lemmas.TokenRules.Md044Links
/-!
  MD044 proper-names — property theorems about the faithful model `Verif.Model.TokenRules.md044` (scan + fix of
  pymarkdown/plugins/rule_md_044.py).
-/
namespace Verif.Props.TokenRules2
open Verif.Model.TokenRules
open Verif.Model.Codec (plain)

/-! ## H1 (C06/C09): after a successful fix the rule is silent -/

/-- On streams of the domain — text and code spans with marker-free text without length-changing lower case, no link / image /
    link-reference-definition / end-link token, references in range — and for names that are marker-free, `simpleS`, non-empty and
    pairwise `compat044` (no two required capitalisations contradict each other where they can overlap): the scan of the fixed
    stream reports nothing. -/
theorem md044_fix_removes_trigger (c : C044) (toks toks' : List Tok2) (hn : namesOk044 c.names = true)
    (hc : compatAll044 c.names = true) (hi : idxOk044 toks = true) (hW : ∀ t ∈ toks, plainTok044 t = true)
    (h : fix2 md044 c toks = .ok toks') : scan2 md044 c toks' = .ok [] := by
  have hn' := namesOk044_iff _ hn
  refine scan2_fix2_nil_of_sim044 md044 md044_local c Eq (fun t => plainTok044 t = true) toks toks' rfl ?_ hi hW h
  intro s₁ s₂ i t s₁' o t' hWt hR hnx hap
  subst hR
  obtain ⟨o0, h1, h2⟩ := fix_step c hn' toks s₁ i t hWt
  have e1 : md044.next c true toks s₁ i t = next044 c true toks s₁ i t := rfl
  rw [e1, h1] at hnx
  simp only [Except.ok.injEq, Prod.mk.injEq] at hnx
  obtain ⟨rfl, rfl⟩ := hnx
  rw [h2] at hap
  cases hap
  exact ⟨_, _, fixed_step c hn' hc false toks' s₁ i t hWt, rfl, rfl⟩

/-- idempotence on the same domain: a second fix changes nothing -/
theorem md044_fix_idempotent (c : C044) (toks toks' : List Tok2) (hn : namesOk044 c.names = true)
    (hc : compatAll044 c.names = true) (hi : idxOk044 toks = true) (hW : ∀ t ∈ toks, plainTok044 t = true)
    (h : fix2 md044 c toks = .ok toks') : fix2 md044 c toks' = .ok toks' := by
  have hn' := namesOk044_iff _ hn
  refine fix2_idem_of_sim044 md044 md044_local c Eq (fun t => plainTok044 t = true) toks toks' rfl ?_ hi hW h
  intro s₁ s₂ i t s₁' o t' hWt hR hnx hap
  subst hR
  obtain ⟨o0, h1, h2⟩ := fix_step c hn' toks s₁ i t hWt
  have e1 : md044.next c true toks s₁ i t = next044 c true toks s₁ i t := rfl
  rw [e1, h1] at hnx
  simp only [Except.ok.injEq, Prod.mk.injEq] at hnx
  obtain ⟨rfl, rfl⟩ := hnx
  rw [h2] at hap
  cases hap
  exact ⟨_, _, fixed_step c hn' hc true toks' s₁ i t hWt, applyGroup2_nil044 _, rfl⟩

def cfgPara : C044 := { names := ["ParaGraph".toList] }
def tText (s : String) : Tok2 := { kind := .text, line := 1, col := 1, text := s.toList }

/-- non-vacuity: a stream of the domain on which the fix changes something -/
example : namesOk044 cfgPara.names = true ∧ compatAll044 cfgPara.names = true ∧
    idxOk044 [{ kind := .para }, tText "a paragraph\nPARAGRAPH.", { kind := .paraEnd, startIdx := some 0 }] = true ∧
    (∀ t ∈ [{ kind := .para }, tText "a paragraph\nPARAGRAPH.", { kind := .paraEnd, startIdx := some 0 }], plainTok044 t = true) ∧
    fix2 md044 cfgPara [{ kind := .para }, tText "a paragraph\nPARAGRAPH.", { kind := .paraEnd, startIdx := some 0 }]
      = .ok [{ kind := .para }, tText "a ParaGraph\nParaGraph.", { kind := .paraEnd, startIdx := some 0 }] := by decide +kernel

/-! ### each hypothesis of `md044_fix_removes_trigger` / `md044_fix_idempotent` is needed (proved counter-examples = real defects) -/

def cfgGit : C044 := { names := ["GitHub".toList, "github.com".toList] }

/-- `compatAll044` excluded — DEFECT (C06/C09): with names `GitHub,github.com` the fix of `github.com` is `GitHub.com`, on which the rule
    fires again, and whose fix is `github.com` again: the fix oscillates for ever, is not idempotent and never removes the trigger.
    Real CLI: `pymarkdown -s plugins.md044.names=GitHub,github.com fix` flips the file on every run. -/
theorem md044_fix_oscillates :
    namesOk044 cfgGit.names = true ∧ compatAll044 cfgGit.names = false ∧
    fix2 md044 cfgGit [tText "github.com"] = .ok [tText "GitHub.com"] ∧
    scan2 md044 cfgGit [tText "GitHub.com"] = .ok [⟨1, 1, some "Expected: github.com; Actual: GitHub.com".toList⟩] ∧
    fix2 md044 cfgGit [tText "GitHub.com"] = .ok [tText "github.com"] := by decide +kernel

def cfgAB : C044 := { names := ["a B".toList, "b c".toList] }

/-- the same with two names that overlap at their ends (`a B`, `b c` on `A B C`): `a b c` ↔ `a B c` -/
theorem md044_fix_oscillates_overlap :
    compatAll044 cfgAB.names = false ∧
    fix2 md044 cfgAB [tText "A B C"] = .ok [tText "a b c"] ∧ scan2 md044 cfgAB [tText "a b c"] ≠ .ok [] ∧
    fix2 md044 cfgAB [tText "a b c"] = .ok [tText "a B c"] ∧ fix2 md044 cfgAB [tText "a B c"] = .ok [tText "a b c"] := by decide +kernel

def cfgNet : C044 := { names := [".net".toList] }

/-- `simpleS` (token text) excluded — DEFECT (C08 text corruption, then C01): `İ`.lower() has two characters, every index found in the
    lowered text is one too far in the original.  `İ .NET  .` → the fix overwrites `NET ` with `.net`: `İ ..net .`; the rule fires
    again (`Actual: net `), the next fixes give `İ ...net.`, `İ ....net`, and on that text the rule raises (the length `assert`). -/
theorem md044_fix_shift_corrupts :
    fix2 md044 cfgNet [tText "İ .NET  ."] = .ok [tText "İ ..net ."] ∧
    scan2 md044 cfgNet [tText "İ ..net ."] = .ok [⟨1, 5, some "Expected: .net; Actual: net ".toList⟩] ∧
    fix2 md044 cfgNet [tText "İ ..net ."] = .ok [tText "İ ...net."] ∧
    fix2 md044 cfgNet [tText "İ ...net."] = .ok [tText "İ ....net"] ∧
    fix2 md044 cfgNet [tText "İ ....net"] = .error .assertion ∧ scan2 md044 cfgNet [tText "İ ....net"] = .error .assertion := by
  decide +kernel

def cfgAmpB : C044 := { names := ["A&B".toList] }
/-- the token text of `a&b`: the `&` carries its replacement marker -/
def tAmpB : Tok2 := { kind := .text, line := 1, col := 1, text := ['a', '\x07', '&', '\x07', '&', 'a', 'm', 'p', ';', '\x07', 'b'] }

/-- marker-free text excluded — DEFECT (C06): the scan searches the text WITHOUT the in-band markers, the fix searches it WITH them.
    Name `A&B`, document `a&b`: reported, but the fix finds nothing and leaves the stream as it is. -/
theorem md044_fix_misses_marker :
    scan2 md044 cfgAmpB [tAmpB] = .ok [⟨1, 1, some "Expected: A&B; Actual: a&b".toList⟩] ∧ fix2 md044 cfgAmpB [tAmpB] = .ok [tAmpB] := by
  decide +kernel

def cfgAmp : C044 := { names := ["Amp".toList] }
/-- the token text of `a &amp; b` -/
def tEntity (name : String) : Tok2 :=
  { kind := .text, line := 1, col := 1,
    text := "a ".toList ++ ['\x07', '&'] ++ name.toList ++ [';', '\x07', '\x07', '&', '\x07', '&'] ++ name.toList ++ [';', '\x07', '\x07'] ++ " b".toList }

/-- marker-free text excluded — DEFECT (C08): the fix rewrites the INSIDE of a replacement marker.  Name `Amp`, document `a &amp; b`:
    the entity `&amp;` becomes `&Amp;`, which is no entity: the regenerated document `a &Amp; b` renders `&Amp;` instead of `&`. -/
theorem md044_fix_rewrites_entity :
    fix2 md044 cfgAmp [tEntity "amp"] = .ok [tEntity "Amp"] ∧
    Verif.Model.Codec.removeAll (tEntity "amp").text = .ok "a &amp; b".toList ∧
    Verif.Model.Codec.removeAll (tEntity "Amp").text = .ok "a &Amp; b".toList := by decide +kernel

/-- the image token of `![a](/u "\" paragraph")` -/
def tImage (title : String) : Tok2 :=
  { kind := .image, line := 1, col := 1, text := ['a'], labelType := inlineLbl, linkTitle := some title.toList,
    preLinkTitle := some "\\\" paragraph".toList, activeUri := "/u".toList, beforeLinkWs := some [], beforeTitleWs := some [' '],
    boundChar := some ['"'] }

/-- no image token excluded — DEFECT (C06/C09): for an image the scan reads `pre_link_title or link_title`, the fix only rewrites
    `link_title` (for a LINK it also rewrites `pre_link_title`).  `![a](/u "\" paragraph")`: the fix changes the token (the CLI prints
    "Fixed"), the regenerated document is the same, the rule fires again — for ever. -/
theorem md044_fix_keeps_trigger_image :
    fix2 md044 cfgPara [tImage "&quot; paragraph"] = .ok [tImage "&quot; ParaGraph"] ∧
    scan2 md044 cfgPara [tImage "&quot; ParaGraph"] = .ok [⟨1, 13, some "Expected: ParaGraph; Actual: paragraph".toList⟩] := by
  decide +kernel

/-- `idxOk044` excluded: the model normalises a dangling start-token reference (no real stream has one) -/
theorem md044_fix_idxOk_excluded :
    fix2 md044 cfgPara [{ kind := .paraEnd, startIdx := some 7 }] = .ok [{ kind := .paraEnd, startIdx := none }] := by decide +kernel

/-! ## totality of the fix (C01 / C06) -/

/-- No exception in fix mode: on streams whose searched strings survive `remove_all_from_text` and contain no character with a
    length-changing lower case (`dom044`, also: names `simpleS` and non-empty), with the structural invariant of parsed streams
    (`wf044`) and references in range. -/
theorem md044_fix_ok (c : C044) (toks : List Tok2) (hd : dom044 c toks = true) (hw : wf044 toks = true) (hi : idxOk044 toks = true) :
    ∃ toks', fix2 md044 c toks = .ok toks' := by
  unfold dom044 at hd
  simp only [Bool.and_eq_true, List.all_eq_true] at hd
  have hnd : NamesDom c.names := by
    intro n hn
    have := hd.1 n hn
    simp only [Bool.not_eq_true', List.isEmpty_eq_false_iff] at this
    exact this
  unfold wf044 at hw
  rw [List.all_eq_true] at hw
  refine fix2_ok_of_wf044 md044 md044_local c (fun _ => True) (fun t => domTok044 t = true ∧ wfTok044 toks t = true) toks trivial ?_ hi
    (fun t ht => ⟨hd.2 t ht, hw t ht⟩)
  intro s i t _ hW
  obtain ⟨o, t', h1, h2⟩ := fix_ok_step c hnd toks s i t hW.1 hW.2
  exact ⟨_, o, t', h1, h2, trivial⟩

def tLinkX : Tok2 :=
  { kind := .link, text := ['x'], labelType := inlineLbl, linkTitle := some ("paragraph".toList), preLinkTitle := some [],
    beforeLinkWs := some [], beforeTitleWs := some [' '], boundChar := some ['"'] }

def sEx : List Tok2 :=
  [tText "a paragraph", tLinkX, tText "x", { kind := .linkEnd, startIdx := some 1 },
   { kind := .lrd, linkName := ("paragraph".toList), titleRaw := ("'Paragraph'".toList) }]

/-- non-vacuity: a stream with a link, its end token and a definition meets the hypotheses (and the fix changes it) -/
example : dom044 cfgPara sEx = true ∧ wf044 sEx = true ∧ idxOk044 sEx = true ∧ fix2 md044 cfgPara sEx ≠ .ok sEx := by decide +kernel

/-- `dom044` excluded — DEFECT (C01): `İ .NET` with name `.net`: AssertionError (`assert len(original_found_text) == len(required_capitalization)`) -/
theorem md044_fix_ok_dom_excluded :
    wf044 [tText "İ .NET"] = true ∧ dom044 cfgNet [tText "İ .NET"] = false ∧
    fix2 md044 cfgNet [tText "İ .NET"] = .error .assertion ∧ scan2 md044 cfgNet [tText "İ .NET"] = .error .assertion := by decide +kernel

def cfgX : C044 := { names := ["x".toList] }

/-- … and IndexError (`original_source[found_index - 1]`) when the shifted index is past the end: `İİ x` with name `x` -/
theorem md044_fix_ok_dom_excluded_index :
    fix2 md044 cfgX [tText "İİ x"] = .error .indexError ∧ scan2 md044 cfgX [tText "İİ x"] = .error .indexError := by decide +kernel

/-- an empty name (excluded by `initialize_from_config`) makes the search loop run for ever -/
theorem md044_fix_ok_empty_name_excluded : fix2 md044 { names := [[]] } [tText "a"] = .error .hang := by decide +kernel

/-- `wf044` excluded: a link token without `link_title` (no constructor of the real token class builds one) -/
theorem md044_fix_ok_wf_excluded :
    fix2 md044 cfgPara [{ kind := .link, text := "paragraph".toList, linkTitle := none }] = .error .assertion := by decide +kernel

/-! ## what the fix may change (C08 at token level) -/

/-- `md044_fix_only_style`.  A successful fix keeps the number and the kinds of the tokens; in every token everything except
    `token_text` / `span_text` / `text_from_blocks` / `link_name_debug` (`text`), `link_title`, `pre_link_title`, `link_name`,
    `link_title_raw` is unchanged, and of these only the ones `mayWrite044` lists for the token's kind may change
    (text, code span: the text; link: title, pre-title, label text; image: title, label text; definition: name, debug name, raw title,
    title; every other kind: nothing).  For a text / code-span token whose text has no character with a length-changing lower case
    (names likewise, non-empty) the new text is `CaseOnly`: same length, the same lower case position by position, different from
    the old text only inside standalone, differently spelled occurrences of a configured name. -/
theorem md044_fix_only_style (c : C044) (toks toks' : List Tok2) (hi : idxOk044 toks = true) (h : fix2 md044 c toks = .ok toks') :
    All₂ (fun t t' => Untouched t t' ∧
      ((t.kind = .text ∨ t.kind = .codeSpan) → simpleS t.text = true → NamesDom c.names → CaseOnly c.names t.text t'.text)) toks toks' := by
  refine fix2_forall₂044 md044 md044_local c (fun _ => True) _ toks toks' trivial ?_ hi h
  intro s i t s' o t' _ hn ha
  exact ⟨only_style_step c toks s i t s' o t' hn ha, trivial⟩

/-- outside that domain the fix changes more than letter case — DEFECT (C08): `İ .NET  x` with name `.net` becomes `İ ..net x`
    (a space is overwritten by `t`, the `N` by `.`) -/
theorem md044_fix_only_style_excluded :
    fix2 md044 cfgNet [tText "İ .NET  x"] = .ok [tText "İ ..net x"] ∧
    ("İ ..net x".toList).map lc044 ≠ ("İ .NET  x".toList).map lc044 := by decide +kernel

/-! ## what the scan reads, what the fix writes (rows of the interference table) -/

/-- `md044_scan_reads`: the scan depends only on the fields of `Reads044` — kind, line, column, `text` (token_text / span_text /
    text_from_blocks / link_name_debug), the start-token reference, label_type, link_title, pre_link_title, active_link_uri, the two
    white-space strings and the bounding character of an inline link, the code span's start back-ticks and leading white space, and
    the definition's link_name, destination, title and the white space between them. -/
theorem md044_scan_reads (c : C044) (toks toks' : List Tok2) (h : All₂ Reads044 toks toks') :
    scan2 md044 c toks' = scan2 md044 c toks := by
  unfold scan2
  rw [runFrom2_scan_congr c toks toks' h toks toks' h]

/-- non-vacuity: the heading level, the white space and the end data are not read -/
example : Reads044 (tText "a") { tText "a" with hashCount := 3, ws := [' '], endWs := some [' '], trailWs := ['x'] } := by
  constructor <;> rfl

theorem all₂_map_right044 {P Q : Tok2 → Tok2 → Prop} (f : Tok2 → Tok2) (hpq : ∀ a b, P a b → Q a (f b)) :
    ∀ {as bs : List Tok2}, All₂ P as bs → All₂ Q as (bs.map f) := by
  intro as bs h
  induction h with
  | nil => exact .nil
  | cons hp _ ih => exact .cons (hpq _ _ hp) ih

/-- `md044_fix_writes`: every token of the fixed stream is the original token with (at most) `text`, `link_title`,
    `pre_link_title`, `link_name`, `link_title_raw` rewritten (and the start-token reference as `reindex` normalises it) — for EVERY
    stream, no invariant needed. -/
theorem md044_fix_writes (c : C044) (toks toks' : List Tok2) (h : fix2 md044 c toks = .ok toks') :
    All₂ (fun t t' => t' = written044 t t') toks toks' := by
  rw [fix2_eq044 md044 md044_local] at h
  obtain ⟨ts', hf, rfl⟩ := h
  have h1 : All₂ (fun t t' => t' = written044 t t') toks ts' := by
    refine fixFrom044_forall₂ md044 c toks (fun _ => True) _ ?_ toks _ 0 ts' trivial hf
    intro s i t s' o t' _ hn ha
    obtain ⟨hu, _⟩ := only_style_step c toks s i t s' o t' hn ha
    exact ⟨eq_of_others044 t t' hu.2.1 (applyGroup2_kind_idx044 t t' _ ha).1, trivial⟩
  exact all₂_map_right044 (normIdx044 toks.length) (fun a b hab => normIdx044_written _ a b hab) h1

/-! ## what the scan reports (C06 / C07), and the page -/

/-- `md044_scan_iff`.  On a text token that is searched (outside code blocks, or `code_blocks` on) whose text is on one line, free of
    in-band markers and of characters with a length-changing lower case, for names that are `simpleS`, non-empty and do not overlap
    themselves: a report is made EXACTLY for each index `i` and configured name `n` such that the `len(n)` characters at `i` equal `n`
    up to letter case, neither neighbour is alphanumeric, and they are not spelled `n` (`isTrigger044`) — at the token's line, column
    `column + i`, with the extra text `Expected: n; Actual: <the characters found>`. -/
theorem md044_scan_iff (c : C044) (hn : namesScan044 c.names = true) (all : List Tok2) (s : St044) (i : Nat) (t : Tok2)
    (hk : t.kind = .text) (hW : scanTok044 t = true) (hcb : (!s.inCode || c.codeBlocks) = true) :
    ∃ s' o, next044 c false all s i t = .ok (s', o) ∧
      ∀ r, r ∈ o.reports ↔ ∃ n ∈ c.names, ∃ j, isTrigger044 n t.text j = true ∧
        r = ⟨t.line, t.col + (j : Int), some ("Expected: ".toList ++ n ++ "; Actual: ".toList ++ specSlice044 t.text j n.length)⟩ := by
  refine ⟨_, _, scan_step c (namesScan044_iff _ hn) all s i t hW, ?_⟩
  intro r
  have h1 : oneLine044 t.text = true := by
    unfold scanTok044 at hW; rw [hk] at hW; simp only [Bool.and_eq_true] at hW; exact hW.2
  unfold oneLine044 at h1
  simp only [Bool.and_eq_true, Bool.not_eq_true'] at h1
  have htake : ∀ j, (t.text.take j).contains '\n' = false := by
    intro j
    rw [Bool.eq_false_iff]
    intro hc
    rw [List.contains_iff_mem] at hc
    have := List.mem_of_mem_take hc
    rw [← List.contains_iff_mem, h1.1] at this
    cases this
  simp only [specTok044, hk, hcb, ↓reduceIte, specTriggers044, List.mem_map, List.mem_flatMap, List.mem_filter, List.mem_range]
  constructor
  · rintro ⟨p, ⟨n, hnm, j, ⟨_, htr⟩, rfl⟩, rfl⟩
    refine ⟨n, hnm, j, htr, ?_⟩
    simp only [specReport044, specPos044, htake j, Bool.false_eq_true, ↓reduceIte]
  · rintro ⟨n, hnm, j, htr, rfl⟩
    have hb : j + n.length ≤ t.text.length := by
      unfold isTrigger044 at htr
      simp only [Bool.and_eq_true, decide_eq_true_eq] at htr
      exact htr.1.1.1
    refine ⟨(n, j), ⟨n, hnm, j, ⟨by omega, htr⟩, rfl⟩, ?_⟩
    simp only [specReport044, specPos044, htake j, Bool.false_eq_true, ↓reduceIte]

def tOneLine : Tok2 := tText "a paragraph, Paragraphs, (PARAGRAPH)"

/-- non-vacuity, and the three reports of the example -/
example : namesScan044 cfgPara.names = true ∧ scanTok044 tOneLine = true ∧
    scan2 md044 cfgPara [tOneLine] = .ok [⟨1, 3, some "Expected: ParaGraph; Actual: paragraph".toList⟩,
                                           ⟨1, 27, some "Expected: ParaGraph; Actual: PARAGRAPH".toList⟩] := by decide +kernel

/-- `md044_faithful_eq_spec_partial`: the scan of the faithful model equals the independently written reading of the page
    (`specScan044`: every standalone, differently spelled instance of every name, in text and — by `code_blocks` / `code_spans` — in
    code blocks and code spans, at its true position) on streams of the domain `scanTok044`: no link / image / definition / end-link
    token, text and code-span texts on one line, marker-free, without length-changing lower case; names non-empty, not overlapping
    themselves.  Full statement `∀ c toks, scan2 md044 c toks = .ok (specScan044 c toks)` is FALSE: the three witnesses below. -/
theorem md044_faithful_eq_spec_partial (c : C044) (toks : List Tok2) (hn : namesScan044 c.names = true)
    (hW : ∀ t ∈ toks, scanTok044 t = true) : scan2 md044 c toks = .ok (specScan044 c toks) := by
  obtain ⟨s', o, h1, h2⟩ := runFrom2_spec c (namesScan044_iff _ hn) toks toks (md044.init c) 0 hW
  unfold scan2
  rw [h1]
  simp only [h2]
  rfl

def sCode : List Tok2 :=
  [{ kind := .fence }, tText "paragraph", { kind := .fenceEnd }, { kind := .para }, tText "x ",
   { kind := .codeSpan, line := 1, col := 3, text := "Paragraph".toList, startTicks := ['`', '`'], leadWs := [' '] }, { kind := .paraEnd }]

/-- non-vacuity: code block (switched off) and code span (column behind the back-ticks and the leading space) -/
example : (∀ t ∈ sCode, scanTok044 t = true) ∧
    specScan044 { cfgPara with codeBlocks := false } sCode = [⟨1, 6, some "Expected: ParaGraph; Actual: Paragraph".toList⟩] ∧
    (specScan044 cfgPara sCode).length = 2 := by decide +kernel

def cfgAA : C044 := { names := ["a-A".toList] }

/-- WITNESS 1 (names overlapping themselves) — the page says "any standalone instance"; the code resumes the search BEHIND a match:
    in `A-A-A` (name `a-A`) the instance at index 2 is never looked at.  Real rule: one report (1:1), after the fix `a-A-A` none. -/
theorem md044_spec_departs_overlap :
    namesScan044 cfgAA.names = false ∧ scanTok044 (tText "A-A-A") = true ∧
    scan2 md044 cfgAA [tText "A-A-A"] = .ok [⟨1, 1, some "Expected: a-A; Actual: A-A".toList⟩] ∧
    specScan044 cfgAA [tText "A-A-A"] = [⟨1, 1, some "Expected: a-A; Actual: A-A".toList⟩, ⟨1, 3, some "Expected: a-A; Actual: A-A".toList⟩] := by
  decide +kernel

/-- WITNESS 2 (text on several lines) — DEFECT (C05/C07 position): `adjust_for_newlines` is applied to the stretch between the END OF
    THE PREVIOUS MATCH of the same name and the match, not to the text from its start.  `a⏎paragraph⏎paragraph`: both instances are
    reported at 2:1 (the second one is at 3:1). -/
theorem md044_position_defect_line :
    scan2 md044 cfgPara [tText "a\nparagraph\nparagraph"]
      = .ok [⟨2, 1, some "Expected: ParaGraph; Actual: paragraph".toList⟩, ⟨2, 1, some "Expected: ParaGraph; Actual: paragraph".toList⟩] ∧
    specScan044 cfgPara [tText "a\nparagraph\nparagraph"]
      = [⟨2, 1, some "Expected: ParaGraph; Actual: paragraph".toList⟩, ⟨3, 1, some "Expected: ParaGraph; Actual: paragraph".toList⟩] := by
  decide +kernel

/-- WITNESS 3 — DEFECT (C05/C07 position): with no line break between the previous match and this one the column delta is the index
    in the WHOLE text: `a⏎paragraph paragraph` reports the second instance (2:11) at 1:13. -/
theorem md044_position_defect_column :
    scan2 md044 cfgPara [tText "a\nparagraph paragraph"]
      = .ok [⟨2, 1, some "Expected: ParaGraph; Actual: paragraph".toList⟩, ⟨1, 13, some "Expected: ParaGraph; Actual: paragraph".toList⟩] ∧
    specScan044 cfgPara [tText "a\nparagraph paragraph"]
      = [⟨2, 1, some "Expected: ParaGraph; Actual: paragraph".toList⟩, ⟨2, 11, some "Expected: ParaGraph; Actual: paragraph".toList⟩] := by
  decide +kernel

/-- scan and fix disagree about a definition whose label is already right: the scan is silent, the fix rewrites `link_name` (the
    normalised, lower-cased label) — the regenerated document is the same, the CLI says "Fixed" (C06: fix without trigger) -/
theorem md044_fix_without_trigger :
    scan2 md044 cfgPara [{ kind := .lrd, line := 1, col := 1, text := ("ParaGraph".toList), linkName := ("paragraph".toList) }] = .ok [] ∧
    fix2 md044 cfgPara [{ kind := .lrd, line := 1, col := 1, text := ("ParaGraph".toList), linkName := ("paragraph".toList) }]
      = .ok [{ kind := .lrd, line := 1, col := 1, text := ("ParaGraph".toList), linkName := ("ParaGraph".toList) }] := by decide +kernel

/-- `md044_scan_ok` (C01): no exception in scan mode under the same two invariants as `md044_fix_ok` (`dom044`: every searched string
    survives `remove_all_from_text` and has no character with a length-changing lower case; `wf044`: structure of parsed streams). -/
theorem md044_scan_ok (c : C044) (toks : List Tok2) (hd : dom044 c toks = true) (hw : wf044 toks = true) :
    ∃ reports, scan2 md044 c toks = .ok reports := by
  unfold dom044 at hd
  simp only [Bool.and_eq_true, List.all_eq_true] at hd
  have hnd : NamesDom c.names := by
    intro n hn
    have := hd.1 n hn
    simp only [Bool.not_eq_true', List.isEmpty_eq_false_iff] at this
    exact this
  unfold wf044 at hw
  rw [List.all_eq_true] at hw
  obtain ⟨s', o, h⟩ := runFrom2_scan_ok044 md044 c toks (fun t => domTok044 t = true ∧ wfTok044 toks t = true)
    (fun s i t hW => scan_ok_step c hnd toks hd.2 hw s i t hW.1 hW.2) toks (md044.init c) 0 (fun t ht => ⟨hd.2 t ht, hw t ht⟩)
  unfold scan2
  rw [h]
  exact ⟨_, rfl⟩

/-- `wf044` excluded in scan mode: an end-link token whose start token is not a link token: AttributeError (`label_type`) -/
theorem md044_scan_ok_wf_excluded :
    scan2 md044 cfgPara [{ kind := .para }, { kind := .linkEnd, startIdx := some 0 }] = .error .attributeError := by decide +kernel

/-- `dom044` excluded in scan mode: `remove_all_from_text` on a malformed marker sequence: ValueError (`str.index`) -/
theorem md044_scan_ok_dom_excluded :
    dom044 cfgPara [tText "\x07&"] = false ∧ scan2 md044 cfgPara [tText "\x07&"] = .error .valueError ∧
    fix2 md044 cfgPara [tText "\x07&"] = .ok [tText "\x07&"] := by decide +kernel

/-! ## H1 and idempotence on streams WITH links, images, definitions -/

theorem md044_fixed_rel (c : C044) (toks toks' : List Tok2) (hn : NamesOk c.names) (hi : idxOk044 toks = true)
    (h : fix2 md044 c toks = .ok toks') :
    All₂ (fun t t' => linkTok044 toks t = true → ∃ s, t' = fixedTok044' c s t) toks toks' := by
  refine fix2_forall₂044 md044 md044_local c (fun _ => True) _ toks toks' trivial ?_ hi h
  intro s i t s' o t' _ hnx hap
  refine ⟨fun hW => ?_, trivial⟩
  obtain ⟨o0, h1, h2⟩ := fix_step' c hn toks s i t hW
  have e1 : md044.next c true toks s i t = next044 c true toks s i t := rfl
  rw [e1, h1] at hnx
  simp only [Except.ok.injEq, Prod.mk.injEq] at hnx
  obtain ⟨_, rfl⟩ := hnx
  rw [h2] at hap
  cases hap
  exact ⟨s, rfl⟩

/-- `md044_fix_removes_trigger_links`: H1 on streams with link, image, link-reference-definition and end-link tokens (`linkTok044`):
    the label text, title and pre-title of links / images and the name, debug name, raw title and title of definitions are marker-free
    and without length-changing lower case, an IMAGE has no `pre_link_title` (needed: `md044_fix_keeps_trigger_image`), an end-link
    token names a link token of the stream; names as in `md044_fix_removes_trigger`. -/
theorem md044_fix_removes_trigger_links (c : C044) (toks toks' : List Tok2) (hn : namesOk044 c.names = true)
    (hc : compatAll044 c.names = true) (hi : idxOk044 toks = true) (hW : ∀ t ∈ toks, linkTok044 toks t = true)
    (h : fix2 md044 c toks = .ok toks') : scan2 md044 c toks' = .ok [] := by
  have hn' := namesOk044_iff _ hn
  have hrel := md044_fixed_rel c toks toks' hn' hi h
  have hend := startTok044_fixed c toks toks' hW hrel
  refine scan2_fix2_nil_of_sim044 md044 md044_local c Eq (fun t => linkTok044 toks t = true) toks toks' rfl ?_ hi hW h
  intro s₁ s₂ i t s₁' o t' hWt hR hnx hap
  subst hR
  obtain ⟨o0, h1, h2⟩ := fix_step' c hn' toks s₁ i t hWt
  have e1 : md044.next c true toks s₁ i t = next044 c true toks s₁ i t := rfl
  rw [e1, h1] at hnx
  simp only [Except.ok.injEq, Prod.mk.injEq] at hnx
  obtain ⟨rfl, rfl⟩ := hnx
  rw [h2] at hap
  cases hap
  exact ⟨_, _, fixed_step' c hn' hc false toks toks' hW hend s₁ i t hWt, rfl, rfl⟩

theorem md044_fix_idempotent_links (c : C044) (toks toks' : List Tok2) (hn : namesOk044 c.names = true)
    (hc : compatAll044 c.names = true) (hi : idxOk044 toks = true) (hW : ∀ t ∈ toks, linkTok044 toks t = true)
    (h : fix2 md044 c toks = .ok toks') : fix2 md044 c toks' = .ok toks' := by
  have hn' := namesOk044_iff _ hn
  have hrel := md044_fixed_rel c toks toks' hn' hi h
  have hend := startTok044_fixed c toks toks' hW hrel
  refine fix2_idem_of_sim044 md044 md044_local c Eq (fun t => linkTok044 toks t = true) toks toks' rfl ?_ hi hW h
  intro s₁ s₂ i t s₁' o t' hWt hR hnx hap
  subst hR
  obtain ⟨o0, h1, h2⟩ := fix_step' c hn' toks s₁ i t hWt
  have e1 : md044.next c true toks s₁ i t = next044 c true toks s₁ i t := rfl
  rw [e1, h1] at hnx
  simp only [Except.ok.injEq, Prod.mk.injEq] at hnx
  obtain ⟨rfl, rfl⟩ := hnx
  rw [h2] at hap
  cases hap
  exact ⟨_, _, fixed_step' c hn' hc true toks toks' hW hend s₁ i t hWt, applyGroup2_nil044 _, rfl⟩

/-- the stream of `this is a [paragraph](/paragraph "a paragraph item") link.` (the page's example) and a definition -/
def sPage : List Tok2 :=
  [{ kind := .para }, tText "this is a ",
   { kind := .link, line := 1, col := 11, text := ("paragraph".toList), labelType := inlineLbl, linkTitle := some ("a paragraph item".toList),
     preLinkTitle := some [], activeUri := ("/paragraph".toList), beforeLinkWs := some [], beforeTitleWs := some [' '], boundChar := some ['"'] },
   { kind := .text, line := 1, col := 12, text := ("paragraph".toList) }, { kind := .linkEnd, startIdx := some 2 }, tText " link.",
   { kind := .paraEnd, startIdx := some 0 },
   { kind := .lrd, line := 3, col := 1, text := ("Collapsed\nparagraph".toList), linkName := ("collapsed paragraph".toList),
     destWs := [' '], dest := ("/url".toList), titleWs := [' '], titleRaw := ("\"a paragraph title\"".toList),
     linkTitle := some ("a paragraph title".toList) }]

/-- non-vacuity: the page's example meets the hypotheses; the scan reports label, title (at the link's position) and the definition,
    and the fixed stream is silent -/
example : namesOk044 cfgPara.names = true ∧ compatAll044 cfgPara.names = true ∧ idxOk044 sPage = true ∧
    (∀ t ∈ sPage, linkTok044 sPage t = true) ∧
    (scan2 md044 cfgPara sPage).map List.length = .ok 4 ∧
    (fix2 md044 cfgPara sPage).bind (scan2 md044 cfgPara) = .ok [] := by decide +kernel

end Verif.Props.TokenRules2
