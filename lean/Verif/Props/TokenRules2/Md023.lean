import Verif.Lemmas.TokenRules.Md023Scan
import Verif.Lemmas.TokenRules.Congr2
import Verif.Lemmas.TokenRules.Md023Style
import Verif.Lemmas.TokenRules.Md023Ok
import Verif.Lemmas.TokenRules.Md023Cm
/-!
  MD023 heading-start-left — property theorems (C06 scan = documented condition, C08 token-level style-only, C09 H1 / idempotence).
-/
namespace Verif.Props.TokenRules2
open Verif.Model.TokenRules

/-! ## C06: what the scan reports -/

/-- `md023_scan_iff`, for EVERY stream on which the scan does not raise: the reports are those of `trig023` —
    an ATX heading is reported iff its `extracted_whitespace` is non-empty; a SetExt heading is reported, at its START token's position
    and when its end token arrives, iff the start token's whitespace is non-empty, or one of the `end_whitespace` lines of its text
    tokens OTHER THAN THE FIRST collected one has a non-empty leading part (`leading \x02 trailing`), or the end token's whitespace (the
    underline's indentation) is non-empty. -/
theorem md023_scan_iff (toks : List Tok2) (rps : List Report) (h : scan2 md023 () toks = .ok rps) : rps = trig023 toks := by
  unfold scan2 at h
  split at h
  · cases h
  · rename_i s' o hr
    simp only [Except.ok.injEq] at h
    subst h
    exact runFrom2_023_scan toks toks (md023.init ()) s' 0 o none (show (init023 ()).setext = none from rfl) hr

/-- non-vacuity (a test by evaluation): ` # x`, then `a` / ` b` / ` ===` — one report per heading, the SetExt one at its start token -/
example : scan2 md023 () [{ kind := .atx, ws := [' '], line := 1, col := 2 }, { kind := .text, text := ['x'], line := 1, col := 4 }, { kind := .atxEnd },
    { kind := .setext, line := 5, col := 2 }, { kind := .text, text := "a\nb".toList, endWs := some "\n \x02".toList, line := 3, col := 1 },
    { kind := .setextEnd, ws := [' '], startIdx := some 3 }] = .ok [⟨1, 2, none⟩, ⟨5, 2, none⟩] := by decide

/-- the scan of a stream is `trig023` whenever the stream is well formed (`md023_scan_ok` below shows it does not raise) — and on ANY
    stream the scan either raises or returns `trig023`. -/
theorem md023_scan_total (toks : List Tok2) : (∃ e, scan2 md023 () toks = .error e) ∨ scan2 md023 () toks = .ok (trig023 toks) := by
  cases h : scan2 md023 () toks with
  | error e => exact .inl ⟨e, rfl⟩
  | ok rps => rw [md023_scan_iff toks rps h]; exact .inr rfl

/-- `md023_faithful_eq_spec_partial`: the implemented condition is the documented one (`page023`: ANY line of the heading with leading
    whitespace counts) on every stream in which no text token's `end_whitespace` begins with a line that has a leading part.
    FULL statement `∀ toks, trig023 toks = page023 toks` is FALSE: `md023_spec_witness`. -/
theorem md023_faithful_eq_spec_partial (toks : List Tok2) (hfirst : ∀ t ∈ toks, t.kind = .text → firstPlain023 t = true) :
    trig023 toks = page023 toks :=
  headScan023_first_irrelevant toks none hfirst (fun _ _ h => by cases h)

/-- non-vacuity: `a` / ` b` / `===` (one text token, lines `a`, `b`; `end_whitespace` = `"\n \x02"`) meets the hypothesis and is reported. -/
example : let d : List Tok2 := [{ kind := .setext, line := 3, col := 1 }, { kind := .text, text := "a\nb".toList, endWs := some "\n \x02".toList, line := 1, col := 1 },
                                { kind := .setextEnd, startIdx := some 0 }]
    (∀ t ∈ d, t.kind = .text → firstPlain023 t = true) ∧ trig023 d = [⟨3, 1, none⟩] ∧ scan2 md023 () d = .ok [⟨3, 1, none⟩] := by
  refine ⟨by decide, by decide, by decide⟩

/-- the code departs from its page (machine-checked witness; the hypothesis of the partial theorem is necessary): the stream of
    `"a  \n b\n===\n"` — text `a`, hard break, text `b` with `end_whitespace = " \x02"` — has a second line with leading whitespace
    (`page023` reports the heading) but the real rule is silent: the text token behind the hard break is the first one it looks at and it
    drops that token's first line.  REAL rule on the document: `pymarkdown scan` prints nothing for MD023 (NOTES, defect D4). -/
theorem md023_spec_witness :
    let d : List Tok2 := [{ kind := .setext, hashCount := 1, line := 3, col := 1 }, { kind := .text, text := ['a'], line := 1, col := 1 },
                          { kind := .hardBreak, line := 1, col := 2 },
                          { kind := .text, text := ['b'], endWs := some [' ', '\x02'], line := 2, col := 2 },
                          { kind := .setextEnd, startIdx := some 0 }]
    wf023 d = true ∧ scan2 md023 () d = .ok [] ∧ trig023 d = [] ∧ page023 d = [⟨3, 1, none⟩] := by
  refine ⟨by decide, by decide, by decide, by decide⟩

/-! ## what the scan reads (feeds the interference table) -/

/-- the fields `next_token` reads in scan mode — through the rule itself: `kind`, position, `extracted_whitespace`, `end_whitespace`,
    `token_text`; through the container manager: `extracted_whitespace` of paragraphs, `token_text` / `end_whitespace` newline counts,
    the newline counts of a link reference definition's `link_name_debug` (`text`), `link_destination_whitespace`,
    `link_title_whitespace`, `link_title_raw`, and a list's `leading_spaces` / `indent_level` (`__fix_adjustments` is called in scan
    mode too) -/
def Same023 (t t' : Tok2) : Prop :=
  t'.kind = t.kind ∧ t'.line = t.line ∧ t'.col = t.col ∧ t'.ws = t.ws ∧ t'.endWs = t.endWs ∧ t'.text = t.text ∧
  t'.leading = t.leading ∧ t'.indent = t.indent ∧ t'.destWs = t.destWs ∧ t'.titleWs = t.titleWs ∧ t'.titleRaw = t.titleRaw

theorem md023_scan_reads (toks toks' : List Tok2) (h : All₂ Same023 toks toks') : scan2 md023 () toks' = scan2 md023 () toks :=
  scan2_congr md023 () Same023 (fun all all' s i t t' _ ⟨h1, h2, h3, h4, h5, h6, h7, h8, h9, h10, h11⟩ => by
    show next023 () false all' s i t' = next023 () false all s i t
    unfold next023 cmPre023 dispatch023 atx023 setext023 setextEnd023 endWs023 listEnd023 cmPost023 cont023 cmLeaf023 leafDelta023
      textDelta023 lrdDelta023
    simp only [h1, h2, h3, h4, h5, h6, h7, h8, h9, h10, h11, Bool.false_eq_true, and_false, ↓reduceIte]) toks toks' h

/-! ## C08 at token level: what the fix may change -/

/-- `md023_fix_only_style`, for EVERY stream whose fix succeeds: the fixed stream has the same length and, position by position
    (`Style023` = `Sty023` up to the `startIdx` normalisation of `applyFixes2`), a token differs from the original at most in
    * `extracted_whitespace` — only of an ATX heading, a SetExt heading or a SetExt END token whose whitespace was non-empty: it becomes
      `""`, or ONE SPACE when it started with a TAB (block quote on top of the container stack; SetExt start token: always);
    * `end_whitespace` — only of a text token: line by line (`EndLine023`) kept, or given a `\x02` in front (a non-empty line that is not of
      the form `leading \x02 trailing`: the `elif` branch of `__handle_text_split_end`), or its non-empty leading part replaced by `""` /
      one space (TAB), a line that ends up as the bare `\x02` becoming empty;
    * `token_text` — only of a text token: line by line (`TextLine023`) kept, or — a line that STARTS with a replacement marker
      `\a original \a replacement \a` — with that marker cut off (`stripMarker`).  The code takes every such marker for a replaced TAB; it
      may as well be a character reference: `md023_fix_deletes_text`;
    * `leading_spaces` — only of a list start token: line by line (`LeadLine023`) kept or overwritten by `indent_level` spaces.
    Every other field of every token is unchanged.  So: NO, the fix is NOT confined to leading whitespace (see the counter-example). -/
theorem md023_fix_only_style (toks toks' : List Tok2) (h : fix2 md023 () toks = .ok toks') :
    All₂ (Style023 toks.length) toks toks' := fix2_023_style toks toks' h

/-- reading `Style023`: the token class never changes, and a token of any class other than the six named ones is returned as it was -/
theorem md023_style_kind (n : Nat) (t t' : Tok2) (h : Style023 n t t') : t'.kind = t.kind := by
  obtain ⟨u, hs, rfl⟩ := h
  have : u.kind = t.kind := by rw [hs.rest]
  unfold normIdx023
  split <;> exact this

theorem md023_style_other (n : Nat) (t t' : Tok2) (h : Style023 n t t')
    (hk : t.kind ≠ .atx ∧ t.kind ≠ .setext ∧ t.kind ≠ .setextEnd ∧ t.kind ≠ .text ∧ t.kind ≠ .ulist ∧ t.kind ≠ .olist) :
    t' = normIdx023 n t := by
  obtain ⟨u, hs, rfl⟩ := h
  obtain ⟨k1, k2, k3, k4, k5, k6⟩ := hk
  have h1 : u.ws = t.ws := by
    rcases hs.ws with h | ⟨h | h | h, _⟩
    · exact h
    · exact absurd h k1
    · exact absurd h k2
    · exact absurd h k3
  have h2 : u.endWs = t.endWs := by
    rcases hs.endWs with h | ⟨h, _⟩
    · exact h
    · exact absurd h k4
  have h3 : u.text = t.text := by
    rcases hs.text with h | ⟨h, _⟩
    · exact h
    · exact absurd h k4
  have h4 : u.leading = t.leading := by
    rcases hs.leading with h | ⟨h | h, _⟩
    · exact h
    · exact absurd h k5
    · exact absurd h k6
  have : u = t := by rw [hs.rest, h1, h2, h3, h4]
  rw [this]

/-- non-vacuity (a test by evaluation): `- a` / blank / TAB`# b` in a list — the heading's TAB goes, the list's `leading_spaces` line for
    line 3 is overwritten by two spaces (`"\n\n"` → `"\n  \n"`); the request for the list start token is registered at the list END. -/
example : let d : List Tok2 := [{ kind := .ulist, indent := 2, leading := some "\n\n".toList, line := 1, col := 1 }, { kind := .para, line := 1, col := 3 },
      { kind := .text, text := ['a'], line := 1, col := 3 }, { kind := .paraEnd, startIdx := some 1 }, { kind := .blank, line := 2, col := 1 },
      { kind := .atx, hashCount := 1, ws := ['\t'], line := 3, col := 5 }, { kind := .text, text := ['b'], line := 3, col := 7 }, { kind := .atxEnd, startIdx := some 5 },
      { kind := .blank, line := 4, col := 1 }, { kind := .ulistEnd, startIdx := some 0 }]
    wf023 d = true ∧
    (fixOut md023 () d).map (·.reqs) = .ok [⟨5, .base .extractedWhitespace, .str []⟩, ⟨0, .base .leadingSpaces, .str "\n  \n".toList⟩] ∧
    (fix2 md023 () d).map (·.map (fun t => (t.ws, t.leading))) =
      .ok [([], some "\n  \n".toList), ([], none), ([], none), ([], none), ([], none), ([], none), ([], none), ([], none), ([], none), ([], none)] := by
  refine ⟨by decide, by decide, by decide⟩

/-- COUNTER-EXAMPLE to "the fix changes leading whitespace only" (C08): the stream of `"a\n &copy; b\n===\n"` — one text token
    `a \n \a&copy;\a©\a b` with `end_whitespace = "\n \x02"`.  The fix takes the replacement marker of the character reference at the
    start of line 2 for a replaced TAB and cuts it off: `token_text` becomes `a \n  b` — the `©` is gone from the heading.
    REAL CLI on the document: `pymarkdown fix` rewrites the file to `"a\n b\n===\n"` (NOTES, defect D1). -/
theorem md023_fix_deletes_text :
    let d : List Tok2 := [{ kind := .setext, hashCount := 1, line := 3, col := 1 },
                          { kind := .text, text := "a\n\x07&copy;\x07©\x07 b".toList, endWs := some "\n \x02".toList, line := 1, col := 1 },
                          { kind := .setextEnd, startIdx := some 0 }]
    wf023 d = true ∧ scan2 md023 () d = .ok [⟨3, 1, none⟩] ∧
    (fix2 md023 () d).map (·.map (fun t => (t.text, t.endWs))) = .ok [([], none), ("a\n b".toList, some "\n".toList), ([], none)] := by
  refine ⟨by decide, by decide, by decide⟩

/-- the same defect on a NESTED marker: `" &amp; b\n===\n"` — `token_text = \a&amp;\a \a&\a&amp;\a \a b` (the parser's double marker for
    `&amp;`).  `get_replacement_indices` finds the THIRD alert character, which is the start of the inner marker: the cut leaves
    `&\a&amp;\a\a b`, a marker string with no opening — REAL CLI: `pymarkdown fix` ends with `Configuration Error: substring not found`
    (a `ValueError` of the Markdown regeneration), exit code 1, file unchanged (NOTES, defect D1). -/
theorem md023_fix_splits_marker :
    let d : List Tok2 := [{ kind := .setext, hashCount := 1, ws := [' '], line := 2, col := 1 },
                          { kind := .text, text := "\x07&amp;\x07\x07&\x07&amp;\x07\x07 b".toList, line := 1, col := 2 },
                          { kind := .setextEnd, startIdx := some 0 }]
    wf023 d = true ∧ (fix2 md023 () d).map (·.map (·.text)) = .ok [[], "&\x07&amp;\x07\x07 b".toList, []] := by
  refine ⟨by decide, by decide⟩

/-- DEFECT (C08, document structure): the stream of `"- a\n\n\tb\n\t===\n"` — a SetExt heading whose two lines are TAB-indented, directly
    inside a list.  `__handle_setext_heading` never calls `__fix_adjustments`: the start token's TAB becomes ONE SPACE whatever the container
    is, and the `leading_spaces` line of the heading's TEXT line (index 1) is not rewritten; only the underline's line (index 2) gets the
    list's two spaces.  Regenerated: `"- a\n\n b\n  ===\n"` — the heading has left the list item (REAL CLI: `<ul><li><p>a</p><h1>b</h1></li></ul>`
    becomes `<ul><li>a</li></ul><h1>b</h1>`, and MD023 reports the result again; NOTES, defect D3). -/
theorem md023_fix_setext_start_not_adjusted :
    let d : List Tok2 := [{ kind := .ulist, indent := 2, leading := some "\n\n\n".toList, line := 1, col := 1 }, { kind := .para, line := 1, col := 3 },
      { kind := .text, text := ['a'], line := 1, col := 3 }, { kind := .paraEnd, startIdx := some 1 }, { kind := .blank, line := 2, col := 1 },
      { kind := .setext, hashCount := 1, ws := ['\t'], line := 4, col := 5 }, { kind := .text, text := ['b'], line := 3, col := 5 },
      { kind := .setextEnd, ws := ['\t'], startIdx := some 5 }, { kind := .blank, line := 5, col := 1 }, { kind := .ulistEnd, startIdx := some 0 }]
    wf023 d = true ∧
    (fixOut md023 () d).map (·.reqs) = .ok [⟨5, .base .extractedWhitespace, .str [' ']⟩, ⟨7, .base .extractedWhitespace, .str []⟩,
                                             ⟨0, .base .leadingSpaces, .str "\n\n  \n".toList⟩] := by
  refine ⟨by decide, by decide⟩

/-! ## C09: H1 (the fix removes the trigger) and idempotence — both FALSE -/

/-- `md023_fix_keeps_trigger` — COUNTER-EXAMPLE to H1: the stream of `"> \t# x\n"` (an ATX heading whose whitespace is a TAB, inside a
    block quote).  `__fix_adjustments` answers ONE SPACE for a TAB under a block quote: the fixed heading still has whitespace in front and
    the rule reports the fixed stream again.  REAL CLI: `pymarkdown fix` leaves `">  # x"`, the next `scan` reports MD023 at 1:4, a second
    `fix` produces `"> # x"` (NOTES, defect D2). -/
theorem md023_fix_keeps_trigger :
    ∃ toks toks', wf023 toks = true ∧ fix2 md023 () toks = .ok toks' ∧ scan2 md023 () toks' = .ok [⟨1, 5, none⟩] :=
  ⟨[{ kind := .bquote, leading := some ['>', ' '], line := 1, col := 1 }, { kind := .atx, hashCount := 1, ws := ['\t'], line := 1, col := 5 },
    { kind := .text, text := ['x'], ws := [' '], line := 1, col := 7 }, { kind := .atxEnd, startIdx := some 1 }, { kind := .bquoteEnd, startIdx := some 0 }],
   [{ kind := .bquote, leading := some ['>', ' '], line := 1, col := 1 }, { kind := .atx, hashCount := 1, ws := [' '], line := 1, col := 5 },
    { kind := .text, text := ['x'], ws := [' '], line := 1, col := 7 }, { kind := .atxEnd, startIdx := some 1 }, { kind := .bquoteEnd, startIdx := some 0 }],
   by decide, by decide, by decide⟩

/-- `md023_fix_not_idempotent` — COUNTER-EXAMPLE to idempotence, on a stream the scan does NOT report: `"a\nb \nc\n===\n"` (the second
    line has trailing whitespace: `end_whitespace = "\n \n"`).  The `elif` branch of `__handle_text_split_end` puts a `\x02` in front of
    the non-empty entry — every time: one pass gives `"\n\x02 \n"`, a second pass `"\n\x02\x02 \n"`.  (The CLI runs MD023's fix pass only
    on documents the rule reports and re-parses between passes; at token level the fix is neither silent on clean streams nor idempotent.) -/
theorem md023_fix_not_idempotent :
    ∃ toks t1 t2, wf023 toks = true ∧ scan2 md023 () toks = .ok [] ∧ fix2 md023 () toks = .ok t1 ∧ fix2 md023 () t1 = .ok t2 ∧
      t1 ≠ toks ∧ t2 ≠ t1 :=
  ⟨[{ kind := .setext, hashCount := 1, line := 4, col := 1 }, { kind := .text, text := "a\nb\nc".toList, endWs := some "\n \n".toList, line := 1, col := 1 },
    { kind := .setextEnd, startIdx := some 0 }],
   [{ kind := .setext, hashCount := 1, line := 4, col := 1 }, { kind := .text, text := "a\nb\nc".toList, endWs := some "\n\x02 \n".toList, line := 1, col := 1 },
    { kind := .setextEnd, startIdx := some 0 }],
   [{ kind := .setext, hashCount := 1, line := 4, col := 1 }, { kind := .text, text := "a\nb\nc".toList, endWs := some "\n\x02\x02 \n".toList, line := 1, col := 1 },
    { kind := .setextEnd, startIdx := some 0 }],
   by decide, by decide, by decide, by decide, by decide, by decide⟩

/-! ## no exception on well-formed streams -/

/-- `md023_fix_ok`: on a stream that satisfies `wf023` — containers properly nested, list ends name their list, SetExt ends inside a
    SetExt heading, `end_whitespace` and `token_text` of a heading's text tokens have the same number of lines, every TAB site directly
    inside a list finds `leading_spaces` present and its line index in range (`Model/TokenRules/Md023.lean`, section "the stream
    invariant"; the tie checks `wf023` on every parsed stream) — the fix raises NOTHING: not in the rule (`KeyError`, `IndexError`,
    `AssertionError`), not in the application of its requests (`BadPluginFixError`: no token gets two requests for one field, every
    request is accepted by the `_modify_token` of its token class; `ValueError`: every request names a token of the stream). -/
theorem md023_fix_ok (toks : List Tok2) (hW : wf023 toks = true) : ∃ toks', fix2 md023 () toks = .ok toks' := fix2_023_ok toks hW

/-- `md023_scan_ok`: nor does the scan; with `md023_scan_iff`: on a well-formed stream the scan IS `trig023`. -/
theorem md023_scan_ok (toks : List Tok2) (hW : wf023 toks = true) : scan2 md023 () toks = .ok (trig023 toks) := by
  obtain ⟨rps, h⟩ := scan2_023_ok toks hW
  rw [h, md023_scan_iff toks rps h]

/-- non-vacuity of both: the list example above satisfies `wf023` (checked there); here a SetExt heading in a block quote in a list -/
example : wf023 [{ kind := .ulist, indent := 2, leading := some "\n".toList, line := 1, col := 1 }, { kind := .bquote, leading := some "> \n> ".toList, line := 1, col := 3 },
    { kind := .setext, hashCount := 1, ws := ['\t'], line := 2, col := 5 }, { kind := .text, text := ['a'], line := 1, col := 5 },
    { kind := .setextEnd, ws := ['\t'], startIdx := some 2 }, { kind := .bquoteEnd, startIdx := some 1 }, { kind := .ulistEnd, startIdx := some 0 }] = true := by decide

/-! ### every clause of `wf023` is needed (excluded points, by evaluation) -/

/-- a list end without a list: `del self.bq_line_index[0]` -/
example : wf023 [{ kind := .ulistEnd }] = false ∧ fix2 md023 () [{ kind := .ulistEnd }] = .error .keyError ∧
    scan2 md023 () [{ kind := .ulistEnd }] = .error .keyError := by refine ⟨by decide, by decide, by decide⟩
/-- a list end directly inside a block quote: `del self.list_adjust_map[1]` -/
example : let d : List Tok2 := [{ kind := .bquote }, { kind := .ulistEnd, startIdx := some 0 }]
    wf023 d = false ∧ fix2 md023 () d = .error .keyError := by refine ⟨by decide, by decide⟩
/-- a new list item outside a list: `self.list_adjust_map[0] += 1` -/
example : wf023 [{ kind := .li }] = false ∧ fix2 md023 () [{ kind := .li }] = .error .keyError := by refine ⟨by decide, by decide⟩
/-- a SetExt end with indentation outside a heading: `assert self.__setext_start_token is not None` -/
example : wf023 [{ kind := .setextEnd, ws := [' '] }] = false ∧ fix2 md023 () [{ kind := .setextEnd, ws := [' '] }] = .error .assertion ∧
    scan2 md023 () [{ kind := .setextEnd, ws := [' '] }] = .error .assertion := by refine ⟨by decide, by decide, by decide⟩
/-- `end_whitespace` with more lines than `token_text`: `assert len(split_text) == len(split_end_whitespace)` -/
example : let d : List Tok2 := [{ kind := .setext }, { kind := .text, text := ['a'], endWs := some ['\n'] }, { kind := .setextEnd, startIdx := some 0 }]
    wf023 d = false ∧ fix2 md023 () d = .error .assertion ∧ scan2 md023 () d = .error .assertion := by
  refine ⟨by decide, by decide, by decide⟩
/-- a TAB-indented heading directly inside a list that has no `leading_spaces`: `assert list_start_token.leading_spaces is not None` -/
example : let d : List Tok2 := [{ kind := .ulist, indent := 2 }, { kind := .atx, ws := ['\t'] }, { kind := .ulistEnd, startIdx := some 0 }]
    wf023 d = false ∧ fix2 md023 () d = .error .assertion ∧ scan2 md023 () d = .ok [⟨0, 0, none⟩] := by
  refine ⟨by decide, by decide, by decide⟩
/-- … whose `leading_spaces` has too few lines: `IndexError` of the list assignment -/
example : let d : List Tok2 := [{ kind := .ulist, indent := 2, leading := some [] }, { kind := .blank }, { kind := .blank }, { kind := .atx, ws := ['\t'] },
                                { kind := .ulistEnd, startIdx := some 0 }]
    wf023 d = false ∧ fix2 md023 () d = .error .indexError := by refine ⟨by decide, by decide⟩
/-- in SCAN mode too: a later heading line whose leading whitespace starts with a TAB, in a list without `leading_spaces` -/
example : let d : List Tok2 := [{ kind := .ulist, indent := 2 }, { kind := .setext }, { kind := .text, text := "a\nb".toList, endWs := some "\n\t\x02".toList },
                                { kind := .setextEnd, startIdx := some 1 }, { kind := .ulistEnd, startIdx := some 0 }]
    wf023 d = false ∧ scan2 md023 () d = .error .assertion := by refine ⟨by decide, by decide⟩
/-- a list end that names ANOTHER list: a second `leading_spaces` request for the same token, `BadPluginFixError` -/
example : let d : List Tok2 := [{ kind := .ulist, indent := 2, leading := some "\n\n".toList }, { kind := .ulist, indent := 4, leading := some "\n".toList },
      { kind := .blank }, { kind := .atx, ws := ['\t'] }, { kind := .ulistEnd, startIdx := some 1 }, { kind := .ulistEnd, startIdx := some 1 }]
    wf023 d = false ∧ (fixOut md023 () d).map (·.reqs.map (·.idx)) = .ok [3, 1, 1] ∧ fix2 md023 () d = .error .badFix := by
  refine ⟨by decide, by decide, by decide⟩

/-- Python's NEGATIVE index wrap is reachable (synthetic stream, accepted by `wf023`: no exception): a TAB-indented heading on the FIRST
    line of a list has index `0 − 1 + 0 = −1`, and the LAST line of `leading_spaces` is overwritten.  (The parser never produces this: on
    the first line of a list the heading's whitespace does not start with the TAB — tie: 3 395 list rewrites on the document family, index
    never negative.) -/
theorem md023_negative_index_wraps :
    let d : List Tok2 := [{ kind := .ulist, indent := 2, leading := some "a\nb".toList }, { kind := .atx, ws := ['\t'] }, { kind := .ulistEnd, startIdx := some 0 }]
    wf023 d = true ∧ (fix2 md023 () d).map (·.map (·.leading)) = .ok [some "a\n  ".toList, none, none] := by
  refine ⟨by decide, by decide⟩

/-! ## `ContainerTokenManager` on its own -/

/-- `md023_cm_total`: on a stream whose container tokens are properly nested (`nested023`: a block quote end closes a block quote, a list
    end closes a list, a new list item arrives directly inside a list — kinds only, nothing about indices) NO method of
    `ContainerTokenManager` raises: the `KeyError`s of `bq_line_index` / `list_adjust_map`, the `IndexError` of
    `del container_token_stack[-1]` and the `assert` of `__manage_leaf_tokens_text` are unreachable.  (MD027 and MD031 use the same class.) -/
theorem md023_cm_total (toks : List Tok2) (h : nested023 [] toks = true) : ∃ cm, cmRun023 {} 0 toks = .ok cm := cmRun023_total toks h

/-- non-vacuity: list ⊃ block quote ⊃ list with two items and leaves -/
example : nested023 [] [{ kind := .ulist }, { kind := .bquote }, { kind := .olist }, { kind := .para }, { kind := .paraEnd }, { kind := .li },
    { kind := .fence }, { kind := .text, text := "a\nb".toList }, { kind := .fenceEnd }, { kind := .olistEnd }, { kind := .bquoteEnd }, { kind := .ulistEnd }] = true := by decide

/-- excluded points: each clause of `nested023` is needed … -/
example : cmRun023 {} 0 [{ kind := .bquoteEnd }] = .error .keyError ∧ cmRun023 {} 0 [{ kind := .li }] = .error .keyError ∧
    cmRun023 {} 0 [{ kind := .bquote }, { kind := .li }] = .error .keyError ∧
    cmRun023 {} 0 [{ kind := .bquote }, { kind := .olistEnd }] = .error .keyError := by refine ⟨by decide, by decide, by decide, by decide⟩
/-- … but not necessary: `list_adjust_map` is only deleted by a list END, so a list closed by a block quote end leaves a stale entry that
    lets a later list end close a block quote without complaint (and `clear()` does not reset the dict: the tie starts every stream on a
    fresh instance). -/
example : let d : List Tok2 := [{ kind := .ulist }, { kind := .bquoteEnd }, { kind := .bquote }, { kind := .ulistEnd }]
    nested023 [] d = false ∧ (cmRun023 {} 0 d).map (fun cm => (cm.stack.length, cm.bq, cm.lam)) = .ok (0, [], []) := by
  refine ⟨by decide, by decide⟩

end Verif.Props.TokenRules2
