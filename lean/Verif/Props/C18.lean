/-
  C18 — Exit codes follow the documented table in both schemes; an application
  error in any file is never masked.

  Theorems are over `Verif.Gen.ExitTable` (regenerated from /repo on every run):
  if a table cell, a scheme, or the order of the result chain changes in the
  source, these theorems stop checking.
-/
import Verif.Model.ExitCode
import Verif.Gen.ExitTable
namespace Verif.Props.C18
open Verif.Model.ExitCode Verif.Gen.ExitTable

/-- The table in the text of property C18 (success 0; no files 1/0; command-line
error 2/2; fixed 3/0; failures 1/0; system error 1/1). -/
def propertyTable : List (Scheme × Result × Nat) :=
  [(.dflt, .success, 0), (.dflt, .noFiles, 1), (.dflt, .cmdLine, 2),
   (.dflt, .fixed, 3), (.dflt, .triggered, 1), (.dflt, .systemError, 1),
   (.minimal, .success, 0), (.minimal, .noFiles, 0), (.minimal, .cmdLine, 2),
   (.minimal, .fixed, 0), (.minimal, .triggered, 0), (.minimal, .systemError, 1)]

/-- Exit code the implementation's table assigns. -/
def exitCode (s : Scheme) (r : Result) : Option Nat := lookup codeTable s r

/-- The code table is total and agrees, cell by cell, with the user guide. -/
theorem code_eq_doc : ∀ s r, exitCode s r = lookup docTable s r := by
  intro s r; cases s <;> cases r <;> decide

/-- … and with the table stated in the property. -/
theorem code_eq_property : ∀ s r, exitCode s r = lookup propertyTable s r := by
  intro s r; cases s <;> cases r <;> decide

theorem code_total : ∀ s r, (exitCode s r).isSome = true := by
  intro s r; cases s <;> cases r <;> decide

/-- No scheme maps two rows for the same (scheme, result): lookup is unambiguous. -/
theorem code_functional :
    ∀ e₁ ∈ codeTable, ∀ e₂ ∈ codeTable, e₁.1 = e₂.1 → e₁.2.1 = e₂.2.1 → e₁.2.2 = e₂.2.2 := by decide

/-- An application error in any file is never masked by other files' outcomes:
whenever files are processed (not list-only, discovery succeeded) and some file
failed, the final result is SYSTEM_ERROR, whatever else happened. -/
theorem error_not_masked (o : Obs) (hl : o.listOnly = false) (hd : o.discoverError = false)
    (hf : o.anyFail = true) : flow.finalResult o = .systemError := by
  simp [Flow.finalResult, flow, runChain, Cond.holds, hl, hd, hf]

/-- …and therefore the exit code is 1 in both schemes. -/
theorem error_exit_code (o : Obs) (s : Scheme) (hl : o.listOnly = false)
    (hd : o.discoverError = false) (hf : o.anyFail = true) :
    exitCode s (flow.finalResult o) = some 1 := by
  rw [error_not_masked o hl hd hf]; cases s <;> decide

/-- Precedence fail > fixed > triggered > success, stated as the full decision table. -/
theorem precedence (o : Obs) (hl : o.listOnly = false) (hd : o.discoverError = false) :
    flow.finalResult o =
      if o.anyFail then .systemError else if o.anyFixed then .fixed
      else if o.anyTriggered then .triggered else .success := by
  rcases o with ⟨a, b, c, d, e, f⟩
  simp only at hl hd; subst hl hd
  cases b <;> cases d <;> cases e <;> cases f <;> decide

/-- The final result is a function of the observation alone, for every observation
(complete decision table over all 64 observations). -/
theorem final_table : ∀ o : Obs, flow.finalResult o =
    (if o.listOnly then (if o.filesFound then Result.success else .noFiles)
     else if o.discoverError then .noFiles
     else if o.anyFail then .systemError else if o.anyFixed then .fixed
     else if o.anyTriggered then .triggered else .success) := by
  intro o; rcases o with ⟨a, b, c, d, e, f⟩
  cases a <;> cases b <;> cases c <;> cases d <;> cases e <;> cases f <;> decide

/-- Under the minimal scheme the exit code is 0 unless the result is a command line
or system error. -/
theorem minimal_zero_iff (r : Result) :
    exitCode .minimal r = some 0 ↔ (r ≠ .cmdLine ∧ r ≠ .systemError) := by
  cases r <;> decide

/-- FIXED is only reported when something was fixed and nothing failed. -/
theorem fixed_iff (o : Obs) (hl : o.listOnly = false) (hd : o.discoverError = false) :
    flow.finalResult o = .fixed ↔ (o.anyFail = false ∧ o.anyFixed = true) := by
  rw [precedence o hl hd]; cases o.anyFail <;> cases o.anyFixed <;> cases o.anyTriggered <;> simp

/-- SUCCESS (exit 0 in the default scheme) only when nothing failed, nothing was fixed,
nothing triggered. -/
theorem success_iff (o : Obs) (hl : o.listOnly = false) (hd : o.discoverError = false) :
    flow.finalResult o = .success ↔
      (o.anyFail = false ∧ o.anyFixed = false ∧ o.anyTriggered = false) := by
  rw [precedence o hl hd]; cases o.anyFail <;> cases o.anyFixed <;> cases o.anyTriggered <;> simp

-- non-vacuity: a mixed three-file run (one failed, one fixed, one triggered)
example : flow.finalResult ⟨false, true, false, true, true, true⟩ = .systemError := by decide
example : exitCode .dflt .fixed = some 3 := by decide

end Verif.Props.C18
