/-
  List-item start recognition with an arbitrary token stack — serves C01 (total), C03 (conforms), C05 (content column).

  Python:  pymarkdown/list_blocks/list_block_starts_helper.py (all of it), list_block_pre_list_helper.py (all of it),
           list_block_can_close_helper.py (all of it).
  Model:   Verif/Model/ListStarts.lean (faithful; the stack is a list of `Entry`, bottom first, as in Python);
           Verif/Model/ListStartsSpec.lean (CommonMark 0.31.2 §5.2 / §5.3, written from the text).
  Lemmas:  Verif/Lemmas/ListStarts{Basic,Eval,Spec,Bridge,Accept,Marker,Cases,Nested,Pre,Close,Nest,Column,CloseTotal}.lean.
  Tie:     tools/liststartslib.py (driver `liststarts`): real functions on real token objects vs the model.

  The guard `StackOK` is what the callers guarantee of `parser_state.token_stack`: the document token at the bottom and only there;
  list tokens carry their marker text.  Callers do NOT guarantee `start_index >= 0` (`-1` arrives from the early exit of
  `count_block_quote_starts`), so the start recognisers take an `Int` and are total for every one.
-/
import Verif.Lemmas.ListStartsColumn
import Verif.Lemmas.ListStartsCloseTotal
namespace Verif.Props.ListStarts
open Verif.Model.Recognisers (Str lenLe)
open Verif.Model.ListStarts
open Verif.Model.ListStartsSpec (Marker MarkerAt ItemStart Blank CanInterrupt SameType IsThematic colsFrom numberOf contentOffset padding)

deriving instance DecidableEq for Except

/-! ### totality of the start recognisers -/

/-- **list_start_total**: for EVERY line, every start index (negative ones included), every extracted whitespace, flag and `adj_ws`,
and every stack that has the document token at the bottom (and only there) and list tokens with a non-empty `list_character`:
`is_ulist_start` and `is_olist_start` return — no `IndexError` (`token_stack[-2]`, `list_character[-1]`, `line[start_index]`),
no `AssertionError` (`extract_spaces_verified`, "If is_start, these must be valid."). -/
theorem list_start_total (st : Stack) (hOK : StackOK st) (line : Str) (start : Int) (ews : Str) (skip : Bool)
    (adjWs : Option Str) :
    (∃ r, isUlistStart st line start ews skip adjWs = .ok r) ∧ (∃ r, isOlistStart st line start ews skip adjWs = .ok r) :=
  ⟨isUlistStart_total hOK line start ews skip adjWs, isOlistStart_total hOK line start ews skip adjWs⟩

def docE : Entry := { kind := .document }
def paraE : Entry := { kind := .paragraph }
def ul (indent : Nat) (c : Char := '-') : Entry :=
  { kind := .ulist, indent := indent, listChar := [c], wsBefore := indent - 2, wsAfter := 1, mtIndent := indent }
def ol (indent : Nat) (lc : Str := "1.".toList) : Entry :=
  { kind := .olist, indent := indent, listChar := lc, wsBefore := indent - lc.length - 1, wsAfter := 1, mtIndent := indent }

example : StackOK [docE, ul 2, ul 4, paraE] :=
  ⟨⟨docE, [ul 2, ul 4, paraE], rfl, rfl, by decide⟩, by decide⟩

/-- **the guard is needed** (each point run on the real functions by the tie, `bad_*` stacks): a stack without the document at the
bottom raises `IndexError` at `token_stack[-2]` (a paragraph alone), the empty stack at `token_stack[-1]`; a list token
with an empty `list_character` below a paragraph raises `IndexError` at `list_character[-1]`. -/
theorem list_start_excluded :
    isUlistStart [paraE] "- a".toList 0 [] false none = .error .index ∧
    isUlistStart [] "a".toList 0 [] false none = .error .index ∧
    isUlistStart [docE, { kind := .ulist, indent := 2 }, paraE] "- a".toList 0 [] false none = .error .index := by
  refine ⟨?_, ?_, ?_⟩
  · rw [show ((0 : Int)) = ((0 : Nat) : Int) from rfl, isUlistStart_nat]
    unfold isUlistStartN
    rw [adjustWs_eval (top := paraE) (r := []) rfl]
    simp only [bind_ok]
    exact ulistCore_phaseOne_err (by decide) (by decide)
      (phaseOne_single_err (top := paraE) rfl (Or.inl rfl) _ _ _ (by decide))
  · rw [show ((0 : Int)) = ((0 : Nat) : Int) from rfl, isUlistStart_nat]
    unfold isUlistStartN
    rw [adjustWs_nil]; rfl
  · rw [show ((0 : Int)) = ((0 : Nat) : Int) from rfl, isUlistStart_nat]
    unfold isUlistStartN
    rw [adjustWs_eval (top := paraE) (r := [{ kind := .ulist, indent := 2 }, docE]) rfl]
    simp only [bind_ok]
    refine ulistCore_phaseTwo_err (after := 2) (c := '-') (by decide) (by decide) ?_ (by decide) ?_
    · rw [phaseOne_eval (top := paraE) (r := [{ kind := .ulist, indent := 2 }, docE]) rfl _ _ _ (by decide) (by intro _; simp)]
      decide
    · exact phaseTwo_nochar_err (top := paraE) (t2 := { kind := .ulist, indent := 2 }) (r2 := [docE]) rfl rfl rfl rfl rfl _ _ _ _ _

/-- **a negative start index reads nothing**: both recognisers answer "no" (`(False, -1, start_index, 0)` /
`(False, -1, None, None)`) — every character test is `0 <= index < len`-guarded.  The real callers do pass `-1`
(harvested: a `>` line inside a fenced block, e.g. the document "- ```" / "> x"). -/
theorem negative_start_inert (st : Stack) (hOK : StackOK st) (line : Str) (start : Int) (hneg : start < 0) (ews : Str)
    (skip : Bool) (adjWs : Option Str) :
    isUlistStart st line start ews skip adjWs = .ok ⟨false, -1, some start, some 0⟩ ∧
      isOlistStart st line start ews skip adjWs = .ok ⟨false, -1, none, none⟩ := by
  obtain ⟨top, r, h⟩ := hOK.rev
  unfold isUlistStart isOlistStart
  rw [if_pos hneg, if_pos hneg, adjustWs_eval h]
  exact ⟨rfl, rfl⟩

/-! ### the marker sentence (CommonMark §5.2) on stacks without lists -/

/-- **list_start_spec**: on a stack without list tokens whose top is not a paragraph (document, block quote, …), called the way the
container processor calls it (`adj_ws = None`, no `skip_whitespace_check`), for EVERY line, index and extracted whitespace:
`is_ulist_start` accepts **iff** the text from the index on begins with a bullet list marker (`-`, `+` or `*`) followed by a space,
a tab or the end of the line, the indentation before it spans at most 3 columns (tab stops of 4), and the text is not a thematic
break; `is_olist_start` accepts **iff** it begins with 1–9 digits and `.` or `)`, followed likewise, indentation ≤ 3.
(= `ItemStart`, rules 1–4 of §5.2 with the thematic-break exception.) -/
theorem list_start_spec (st : Stack) (hOK : StackOK st) (hfree : ListFree st)
    (hnp : ∀ top, st.getLast? = some top → top.isPara = false) (line : Str) (start : Nat) (ews : Str) :
    (∃ r, isUlistStart st line start ews false none = .ok r ∧
      (r.isStart = true ↔ ∃ c rest, ItemStart (colsFrom 0 ews) (line.drop start) (.bullet c) rest)) ∧
    (∃ r, isOlistStart st line start ews false none = .ok r ∧
      (r.isStart = true ↔ ∃ ds dl rest, ItemStart (colsFrom 0 ews) (line.drop start) (.ordered ds dl) rest)) := by
  obtain ⟨top, r, h⟩ := hOK.rev
  have htop : top.isPara = false := by
    apply hnp
    have : st = (top :: r).reverse := by rw [← h, List.reverse_reverse]
    rw [this]; simp
  constructor
  · obtain ⟨res, hres, hiff⟩ := ulist_free hOK hfree h line start ews
    refine ⟨res, hres, hiff.trans ?_⟩
    simp [htop]
  · obtain ⟨res, hres, hiff⟩ := olist_free hOK hfree h line start ews
    refine ⟨res, hres, hiff.trans ?_⟩
    simp [htop]

example : ItemStart (colsFrom 0 "  ".toList) "12) x".toList (.ordered "12".toList ')') " x".toList :=
  itemStart_of_decide (by decide) (by decide) (by decide)

/-! ### paragraph interruption (CommonMark §5.2 rule 1, exceptions (a) and (b)) -/

/-- **interrupt_spec_partial**: with a paragraph on top of a stack without lists, an item start is accepted **iff** it is an
`ItemStart` and may interrupt a paragraph by the specification's two sentences: (a) it does not begin with a blank line, (b) an
ordered item has start number 1.  For ordered markers the statement needs `hz`: the number has no leading zero. -/
theorem interrupt_spec_partial (st : Stack) (hOK : StackOK st) (hfree : ListFree st)
    (hp : ∀ top, st.getLast? = some top → top.isPara = true) (line : Str) (start : Nat) (ews : Str)
    (hz : (line.drop start).head? ≠ some '0') :
    (∃ r, isUlistStart st line start ews false none = .ok r ∧
      (r.isStart = true ↔
        ∃ c rest, ItemStart (colsFrom 0 ews) (line.drop start) (.bullet c) rest ∧ CanInterrupt (.bullet c) rest)) ∧
    (∃ r, isOlistStart st line start ews false none = .ok r ∧
      (r.isStart = true ↔
        ∃ ds dl rest, ItemStart (colsFrom 0 ews) (line.drop start) (.ordered ds dl) rest ∧
          CanInterrupt (.ordered ds dl) rest)) := by
  obtain ⟨top, r, h⟩ := hOK.rev
  have htop : top.isPara = true := by
    apply hp
    have : st = (top :: r).reverse := by rw [← h, List.reverse_reverse]
    rw [this]; simp
  constructor
  · obtain ⟨res, hres, hiff⟩ := ulist_free hOK hfree h line start ews
    refine ⟨res, hres, hiff.trans ?_⟩
    constructor
    · rintro ⟨c, rest, hi, hn⟩
      exact ⟨c, rest, hi, fun hb => hn ⟨htop, hb⟩, by intro ds d hm; cases hm⟩
    · rintro ⟨c, rest, hi, hnb, -⟩
      exact ⟨c, rest, hi, fun hb => hnb hb.2⟩
  · obtain ⟨res, hres, hiff⟩ := olist_free hOK hfree h line start ews
    refine ⟨res, hres, hiff.trans ?_⟩
    constructor
    · rintro ⟨ds, dl, rest, hi, hn⟩
      refine ⟨ds, dl, rest, hi, fun hb => hn ⟨htop, Or.inl hb⟩, ?_⟩
      intro ds' d' hm
      injection hm with h1 h2
      subst h1
      by_cases hone : ds = ['1']
      · rw [hone]; decide
      · exact absurd ⟨htop, Or.inr hone⟩ hn
    · rintro ⟨ds, dl, rest, hi, hnb, hnum⟩
      refine ⟨ds, dl, rest, hi, ?_⟩
      rintro ⟨-, hb | hne⟩
      · exact hnb hb
      · apply hne
        obtain ⟨-, ⟨⟨h1, -, hall, -⟩, hd, -⟩, -⟩ := hi
        apply numberOf_one hall ?_ (hnum ds dl rfl)
        intro h0
        apply hz
        rw [hd]
        cases ds with
        | nil => simp at h1
        | cons x xs =>
          simp only [List.head?_cons, Option.some.injEq] at h0
          subst h0
          rfl

example : StackOK [docE, paraE] ∧ ListFree [docE, paraE] ∧ ("a1. b".toList.drop 1).head? ≠ some '0' :=
  ⟨⟨⟨docE, [paraE], rfl, rfl, by decide⟩, by decide⟩, by unfold ListFree; decide, by decide⟩

/-- **the excluded numbers are real**: `01.` has start number 1 — it may interrupt a paragraph by the specification (and does in
cmark and commonmark.js, which compare the *number*) — but the code compares the *text* with `"1"` and refuses it.
Real parser on `a\n01. b`: one paragraph `a 01. b` (tools/liststartslib.py `real_witnesses`). -/
theorem interrupt_excluded :
    (∃ r, isOlistStart [docE, paraE] "01. b".toList 0 [] false none = .ok r ∧ r.isStart = false) ∧
    ItemStart (colsFrom 0 []) "01. b".toList (.ordered "01".toList '.') " b".toList ∧
    CanInterrupt (.ordered "01".toList '.') " b".toList := by
  refine ⟨⟨_, isOlistStart_evalOK (st := [docE, paraE]) ⟨⟨docE, [paraE], rfl, rfl, by decide⟩, by decide⟩
      (top := paraE) (r := [docE]) rfl _ 0 _ _ _, by decide⟩, itemStart_of_decide (by decide) (by decide) (by decide), ?_, ?_⟩
  · intro hb
    have := hb 'b' (by decide)
    revert this; decide
  · intro ds d hm
    injection hm with h1 h2
    subst h1; decide

/-! ### the verdict for an ARBITRARY stack: one conjunction of named clauses -/

/-- **list_start_decomposition**: for every stack that meets the guard, with `top`, `t2`, `t3` its three topmost tokens, every
line, index, whitespace, flag and `adj_ws`: `is_ulist_start` / `is_olist_start` accept **iff**
(1) the indentation clause holds — `check_ws` spans at most `3 + parent_indent` columns, both from
    `__adjust_whitespace_for_nested_lists` (`adjustPure (cpPure …)`), or `skip_whitespace_check`;
(2) the text from the index on begins with a bullet / ordered list marker followed by a space, a tab or the end of the line;
(3) (bullets) it is not a thematic break, tested with the whitespace `extracted_whitespace[parent_indent:]`;
(4) the paragraph clause `paraRefuses` does not refuse it: paragraph on top ∧ (rest blank ∨ `is_not_one`) ∧ (the paragraph is
    not in a list ∨ the marker starts at or right of the enclosing item's indent);
(5) `blockWithin` does not hold: fenced / HTML block on top, a list below it, marker end right of that list's indent. -/
theorem list_start_decomposition (st : Stack) (hOK : StackOK st) (top : Entry) (r : Stack) (h : st.reverse = top :: r)
    (line : Str) (start : Nat) (ews : Str) (skip : Bool) (adjWs : Option Str) :
    (∃ res, isUlistStart st line start ews skip adjWs = .ok res ∧
      (res.isStart = true ↔
        ((lenLe (adjustPure (cpPure top r[0]? r[1]?) (exWsOf ews adjWs) start).1
              (3 + (adjustPure (cpPure top r[0]? r[1]?) (exWsOf ews adjWs) start).2) = true ∨ skip = true) ∧
          ∃ c rest, MarkerAt (line.drop start) (.bullet c) rest ∧
            ¬ (lenLe (thematicWs ews (adjustPure (cpPure top r[0]? r[1]?) (exWsOf ews adjWs) start).2) 3 = true ∧
              IsThematic (line.drop start)) ∧
            paraRefuses top r[0]? (Verif.Model.ListStartsSpec.blankB rest) false start = false ∧
            blockWithin top r[0]? start = false))) ∧
    (∃ res, isOlistStart st line start ews skip adjWs = .ok res ∧
      (res.isStart = true ↔
        ((lenLe (adjustPure (cpPure top r[0]? r[1]?) (exWsOf ews adjWs) start).1
              (3 + (adjustPure (cpPure top r[0]? r[1]?) (exWsOf ews adjWs) start).2) = true ∨ skip = true) ∧
          ∃ ds dl rest, MarkerAt (line.drop start) (.ordered ds dl) rest ∧
            paraRefuses top r[0]? (Verif.Model.ListStartsSpec.blankB rest) (ds != ['1']) start = false ∧
            blockWithin top r[0]? (start + ds.length) = false))) := by
  constructor
  · refine ⟨_, isUlistStart_evalOK hOK h line start ews skip adjWs, ?_⟩
    rw [ulistPure_isStart]
    simp only [Bool.and_eq_true, Bool.or_eq_true, Bool.not_eq_true', Bool.and_eq_false_iff]
    constructor
    · rintro ⟨⟨⟨⟨hi, hm⟩, ht⟩, hp⟩, hb⟩
      obtain ⟨c, rest, hma⟩ := (isBulletMarker_iff _).mp hm
      refine ⟨hi, c, rest, hma, ?_, ?_, hb⟩
      · rintro ⟨h1, h2⟩
        rcases ht with ht | ht
        · rw [h1] at ht; cases ht
        · rw [(Verif.Model.ListStartsSpec.thematicBodyB_iff_IsThematic _).mpr h2] at ht; cases ht
      · rw [bullet_rest hma] at hp; exact hp
    · rintro ⟨hi, c, rest, hma, ht, hp, hb⟩
      refine ⟨⟨⟨⟨hi, (isBulletMarker_iff _).mpr ⟨c, rest, hma⟩⟩, ?_⟩, ?_⟩, hb⟩
      · cases h1 : lenLe (thematicWs ews (adjustPure (cpPure top r[0]? r[1]?) (exWsOf ews adjWs) start).2) 3
        · left; rfl
        · right
          cases h2 : Verif.Model.Recognisers.thematicBodyB (line.drop start)
          · rfl
          · exact absurd ⟨h1, (Verif.Model.ListStartsSpec.thematicBodyB_iff_IsThematic _).mp h2⟩ ht
      · rw [bullet_rest hma]; exact hp
  · refine ⟨_, isOlistStart_evalOK hOK h line start ews skip adjWs, ?_⟩
    rw [olistPure_isStart]
    simp only [Bool.and_eq_true, Bool.or_eq_true, Bool.not_eq_true']
    constructor
    · rintro ⟨⟨⟨hi, hm⟩, hp⟩, hb⟩
      obtain ⟨ds, dl, rest, hma⟩ := (isOrderedMarker_iff _).mp hm
      obtain ⟨he, -, hrest⟩ := ordered_parts hma
      rw [hrest, notOneB_eq hma] at hp
      rw [he] at hb
      exact ⟨hi, ds, dl, rest, hma, hp, hb⟩
    · rintro ⟨hi, ds, dl, rest, hma, hp, hb⟩
      obtain ⟨he, -, hrest⟩ := ordered_parts hma
      refine ⟨⟨⟨hi, (isOrderedMarker_iff _).mpr ⟨ds, dl, rest, hma⟩⟩, ?_⟩, ?_⟩
      · rw [hrest, notOneB_eq hma]; exact hp
      · rw [he]; exact hb

/-- **first_item_clause_inert**: the `is_first_item_in_list` half of `__calculate_starts_within_paragraph` — the comparison of
the new marker with the enclosing list's `list_character[-1]` — never changes the verdict of `__is_start_phase_two`:
`is_sub_list` implies it.  Phase two depends on the stack only through "paragraph on top", "list below it" and that list's
`indent_level`; in particular not on `xx_seq`, not on `is_unordered_list`. -/
theorem first_item_clause_inert (st : Stack) (hOK : StackOK st) (top : Entry) (r : Stack) (h : st.reverse = top :: r)
    (xx xx' : Char) (u u' n1 : Bool) (after : Nat) (line : Str) (start : Nat) :
    phaseTwo st xx u n1 after line start = phaseTwo st xx' u' n1 after line start ∧
      phaseTwo st xx u n1 after line start = .ok (p2Pure top r[0]? n1 after line start) := by
  have hr : top.isPara = true → ∃ t2 r2, r = t2 :: r2 ∧ (t2.isList = true → t2.listChar ≠ []) := by
    intro hp
    have hk : top.kind ≠ .document := by
      unfold Entry.isPara at hp
      intro hk; rw [hk] at hp; cases hp
    obtain ⟨t2, r2, hr⟩ := hOK.below h hk
    refine ⟨t2, r2, hr, ?_⟩
    apply hOK.chars
    apply StackOK.mem_of_rev h
    rw [hr]; simp
  rw [phaseTwo_eval h xx u n1 after line start hr, phaseTwo_eval h xx' u' n1 after line start hr]
  exact ⟨rfl, rfl⟩

/-- **same_list_spec** (§5.3): what `__calculate_starts_within_paragraph` returns as `is_first_item_in_list` is `False` exactly when
the new marker is of the same type as the enclosing list — bullet lists: the same bullet character; ordered lists: the same
delimiter — and starts left of the enclosing item's content; changing the bullet or the delimiter starts a new list.
`EntryOf t2 m2`: the stack token was created from the marker `m2`. -/
theorem same_list_spec (st : Stack) (top t2 : Entry) (r2 : Stack) (h : st.reverse = top :: t2 :: r2) (m2 m : Marker)
    (h2 : EntryOf t2 m2) (hv : m.Valid) (start : Nat) :
    ∃ first sub, startsWithinPara st start (!m.isOrdered) (Marker.ch m) = .ok (first, sub) ∧
      (first = false ↔ SameType m m2 ∧ start < t2.indent) ∧ (sub = true ↔ start ≥ t2.indent) := by
  have hc : t2.isList = true → t2.listChar ≠ [] := by
    intro _
    rw [h2.2.1]
    cases m2 <;> simp [Marker.text]
  refine ⟨_, _, startsWithinPara_eval h start _ _ hc, firstPure_spec t2 m2 m h2 hv start, ?_⟩
  rw [h2.1]; simp

example : EntryOf (ol 3 "12)".toList) (.ordered "12".toList ')') :=
  ⟨rfl, rfl, ⟨by decide, by decide, by decide, Or.inr rfl⟩, rfl⟩

/-! ### one list on the stack: indentation relative to the container -/

/-- **list_start_nested_spec_partial**: exactly one list token `child` among the tokens the recogniser looks at (on top, or directly
below a non-list top), `adj_ws = None`, tab-free extracted whitespace (what the callers' `detabify_string` guarantees) that is the
ABSOLUTE whitespace before the marker.  Then `is_ulist_start` accepts **iff** the text is an `ItemStart` whose indentation is
counted from the content column of the container the line belongs to — the child's `indent_level` when the marker stands at or
right of the current item's indent, column 0 otherwise — and neither the paragraph clause nor the block clause refuses it. -/
theorem list_start_nested_spec_partial (st : Stack) (hOK : StackOK st) (top : Entry) (r : Stack) (h : st.reverse = top :: r)
    (child : Entry) (hch : ChildOnly top r[0]? r[1]? child) (line : Str) (start : Nat) (ews : Str)
    (hnt : Verif.Model.Recognisers.TAB ∉ ews) :
    ∃ res, isUlistStart st line start ews false none = .ok res ∧
      (res.isStart = true ↔
        (∃ c rest, ews.length ≥ containerCol child start ∧
          ItemStart (ews.length - containerCol child start) (line.drop start) (.bullet c) rest ∧
          paraRefuses top r[0]? (Verif.Model.ListStartsSpec.blankB rest) false start = false ∧
          blockWithin top r[0]? start = false) ∨
        (∃ c rest, ews.length < containerCol child start ∧
          ItemStart 0 (line.drop start) (.bullet c) rest ∧
          paraRefuses top r[0]? (Verif.Model.ListStartsSpec.blankB rest) false start = false ∧
          blockWithin top r[0]? start = false)) := by
  refine ⟨_, isUlistStart_evalOK hOK h line start ews false none, ?_⟩
  rw [ulist_child hch line start ews hnt]
  constructor
  · rintro ⟨c, rest, hi, hm, ht, hp, hb⟩
    by_cases hge : ews.length ≥ containerCol child start
    · exact Or.inl ⟨c, rest, hge, ⟨by omega, hm, ht⟩, hp, hb⟩
    · exact Or.inr ⟨c, rest, by omega, ⟨by omega, hm, ht⟩, hp, hb⟩
  · rintro (⟨c, rest, hge, ⟨hi, hm, ht⟩, hp, hb⟩ | ⟨c, rest, hlt, ⟨-, hm, ht⟩, hp, hb⟩)
    · exact ⟨c, rest, by omega, hm, ht, hp, hb⟩
    · exact ⟨c, rest, by omega, hm, ht, hp, hb⟩

example : ChildOnly paraE (some (ul 2)) (some docE) (ul 2) :=
  Or.inr ⟨rfl, rfl, rfl, by intro e h; injection h with h; subst h; rfl⟩

/-- **the relative-whitespace convention is excluded, and it is a real defect**: `__handle_list_block_init` hands over
`adj_ws` = the whitespace with the enclosing item's indent already removed, and the recogniser adds the parent indent to the limit
again.  State recorded from the real parser on `- a\n      - c` (line 2: six spaces): stack `[document, ulist(indent 2)]` (the
paragraph `a` is still open above it in the real run; the verdict is the same), `extracted_whitespace` = 6 spaces, `adj_ws` = 4 spaces:
accepted, although the marker is indented FOUR columns relative to the item's content — not an `ItemStart`.
Real parser: a nested list; CommonMark (LeanMark, cmark): `<li>a\n- c</li>` (and an indented code block after a blank line). -/
theorem list_start_nested_excluded :
    (∃ res, isUlistStart [docE, ul 2, paraE] "      - c".toList 6 "      ".toList false (some "    ".toList) = .ok res ∧
      res.isStart = true) ∧
    ¬ ∃ c rest, ItemStart ("      ".toList.length - 2) ("      - c".toList.drop 6) (.bullet c) rest := by
  refine ⟨⟨_, isUlistStart_evalOK (st := [docE, ul 2, paraE]) ⟨⟨docE, [ul 2, paraE], rfl, rfl, by decide⟩, by decide⟩
      (top := paraE) (r := [ul 2, docE]) rfl _ 6 _ _ _, by decide⟩, ?_⟩
  rintro ⟨c, rest, hi, -, -⟩
  revert hi; decide

/-! ### the result fields -/

/-- **start_fields_spec**: what the 4-tuples say when a start is accepted.  `is_ulist_start`: `index` = the index of the bullet,
`number_of_digits` = 0, `after_all_whitespace_index` = the index of the first character after the marker that is not a space or
tab.  `is_olist_start`: `index` = the index of the delimiter, `number_of_digits` = the number of digits. -/
theorem start_fields_spec (st : Stack) (hOK : StackOK st) (line : Str) (start : Nat) (ews : Str) (skip : Bool)
    (adjWs : Option Str) :
    (∀ res, isUlistStart st line start ews skip adjWs = .ok res → res.isStart = true →
      ∃ c rest, MarkerAt (line.drop start) (.bullet c) rest ∧ res.index = some (start : Int) ∧ res.digits = some 0 ∧
        res.after = ((start + 1 + (rest.takeWhile Verif.Model.ListStartsSpec.isSpTab).length : Nat) : Int)) ∧
    (∀ res, isOlistStart st line start ews skip adjWs = .ok res → res.isStart = true →
      ∃ ds dl rest, MarkerAt (line.drop start) (.ordered ds dl) rest ∧ res.index = some ((start + ds.length : Nat) : Int) ∧
        res.digits = some ds.length ∧
        res.after = ((start + ds.length + 1 + (rest.takeWhile Verif.Model.ListStartsSpec.isSpTab).length : Nat) : Int)) := by
  obtain ⟨top, r, h⟩ := hOK.rev
  constructor
  · intro res hres hs
    rw [isUlistStart_evalOK hOK h] at hres
    injection hres with hres
    subst hres
    have hm := hs
    rw [ulistPure_isStart] at hm
    simp only [Bool.and_eq_true] at hm
    obtain ⟨c, rest, hma⟩ := (isBulletMarker_iff _).mp hm.1.1.1.2
    obtain ⟨h1, h2, h3⟩ := ulistPure_fields top r[0]? r[1]? line start ews skip adjWs
    refine ⟨c, rest, hma, h1, h2, ?_⟩
    rw [h3 hs, afterWs_rest, bullet_rest hma]
  · intro res hres hs
    rw [isOlistStart_evalOK hOK h] at hres
    injection hres with hres
    subst hres
    have hm := hs
    rw [olistPure_isStart] at hm
    simp only [Bool.and_eq_true] at hm
    obtain ⟨ds, dl, rest, hma⟩ := (isOrderedMarker_iff _).mp hm.1.1.2
    obtain ⟨h1, h2, h3⟩ := olistPure_fields top r[0]? r[1]? line start ews skip adjWs hs
    obtain ⟨he, -, hrest⟩ := ordered_parts hma
    refine ⟨ds, dl, rest, hma, ?_, ?_, ?_⟩
    · rw [h1, he]
    · rw [h2, he]; congr 1; omega
    · rw [h3, afterWs_rest, hrest, he]

/-! ### `pre_list`: totality, the content column -/

/-- **pre_list_total**: for every stack with the document at the bottom (and only there), every line, every index INSIDE the
line (the callers pass the `index` of an accepted start: `start_fields_spec`), every whitespace, marker width, `adj_ws`,
`container_depth` and position, and block-quote data with `stack_count ≤ current_count + 1`: `pre_list` returns — no
`AssertionError` from `extract_spaces_verified`, none from "Container tokens cannot have been filled.", no `IndexError` from
`find_last_block_quote_on_stack` / `token_stack[-1]`, no `AttributeError` from `None.remove_last_bleading_space`.  It returns the
computed indents, or `-1` exactly in the "BAIL!" case (fenced / HTML block on top and no list on the stack). -/
theorem pre_list_total (st : Stack) (hOK : StackOK st) (line : Str) (markerEnd : Nat) (ews : Str) (mwm1 cur sc : Nat)
    (adjWs : Str) (posLine depth : Nat) (hm : markerEnd < line.length) (hsc : sc ≤ cur + 1) :
    ∃ r, preList st line markerEnd ews mwm1 cur sc adjWs posLine depth = .ok r ∧
      ((r.indent = (preIndents line markerEnd ews mwm1 adjWs depth).indent ∧
          r.afterIdx = ((afterWs line (markerEnd + 1) : Nat) : Int)) ∨
        (r.indent = -1 ∧ r.afterIdx = -1 ∧ (findLastList st).isNone = true ∧
          ∃ top, negAt st 1 = .ok top ∧ (top.kind == .html || top.kind == .fenced) = true)) := by
  obtain ⟨r, hr, -, -, -, h4⟩ := preList_total hOK.docBottom line markerEnd ews mwm1 cur sc adjWs posLine depth hm hsc
  exact ⟨r, hr, h4⟩

/-- **both hypotheses are needed, and the second one is a real crash**: (1) an index at or behind the end of the line raises
the assertion of `extract_spaces_verified`; (2) with TWO block quotes to drop (`stack_count ≥ current_count + 2`) and anything
to close, the `while` loop of `__handle_list_nesting` runs twice and its second iteration fails on
`assert not container_level_tokens` — for EVERY such stack without a list.  This is the root cause of the known crash
(finding F-TOK-AE-handle_list_nesting): the document `> > a\n- b` calls `pre_list` with the stack
`[document, block quote, block quote, paragraph]` and `BlockQuoteData(current_count=0, stack_count=2)`. -/
theorem pre_list_excluded :
    (∀ st line markerEnd ews mwm1 cur sc adjWs posLine depth, line.length ≤ markerEnd →
      preList st line markerEnd ews mwm1 cur sc adjWs posLine depth = .error .assertion) ∧
    (∀ st, StackOK st → findLastList st = none → 2 ≤ st.length →
      ∀ line markerEnd ews mwm1 cur sc adjWs posLine depth, markerEnd < line.length → cur + 2 ≤ sc →
        preList st line markerEnd ews mwm1 cur sc adjWs posLine depth = .error .assertion) :=
  ⟨fun st line me ews mwm1 cur sc adj pl depth h => preList_outside st line me ews mwm1 cur sc adj pl depth h,
   fun st hOK hf hl line me ews mwm1 cur sc adj pl depth hm hsc =>
     preList_nesting_assert hOK.docBottom hf line me ews mwm1 cur sc adj pl depth hm hsc hl⟩

def bqE (lead : Str) : Entry := { kind := .blockQuote, lead := lead, mtLine := 1 }

example : StackOK [docE, bqE "> ".toList, bqE "> > ".toList, paraE] ∧
    findLastList [docE, bqE "> ".toList, bqE "> > ".toList, paraE] = none :=
  ⟨⟨⟨docE, _, rfl, rfl, by decide⟩, by decide⟩, by decide⟩

/-- **calc_length_spec** (§2.2, tabs): `TabHelper.calculate_length(ws, start_index = col)` is the number of columns the
whitespace `ws` spans when it begins at column `col`, tab stops every 4 columns. -/
theorem calc_length_spec (ws : Str) (col : Nat) : Verif.Model.Recognisers.calcLength ws col = colsFrom col ws :=
  Verif.Model.ListStartsSpec.calcLength_eq_colsFrom ws col

/-- **content_column_spec_partial** (§5.2 rules 1–3, the "W + N" of the specification): for a recognised marker `m` at index
`start` whose index is its column (`hcol`: no tab before it — the callers detabify the line), the `indent_level` `pre_list`
computes is `indentation + W + N` in tab-expanded columns, where `N` = 1 for an item that begins with a blank line, 1 when five
or more columns of whitespace follow the marker (the rest belongs to an indented code block), the 1–4 columns otherwise —
**except** in two situations, both with a blank rest after one or more columns of whitespace: (x1) at container depth 0 when
`adj_ws` is not as long as the indentation, (x2) at container depth > 0 when 2–4 columns follow the marker. -/
theorem content_column_spec_partial (line : Str) (start : Nat) (m : Marker) (rest : Str)
    (hm : MarkerAt (line.drop start) m rest) (ews adjWs : Str) (depth : Nat) (hcol : start = colsFrom 0 ews)
    (hx1 : ¬ (Blank rest ∧ rest ≠ [] ∧ depth = 0 ∧ adjWs.length ≠ colsFrom 0 ews))
    (hx2 : ¬ (Blank rest ∧ 2 ≤ colsFrom (colsFrom 0 ews + m.width) rest ∧ colsFrom (colsFrom 0 ews + m.width) rest ≤ 4 ∧
      depth ≠ 0)) :
    (preIndents line (start + m.width - 1) ews (m.width - 1) adjWs depth).indent =
      ((contentOffset (colsFrom 0 ews) m.width
        (colsFrom (colsFrom 0 ews + m.width) (rest.takeWhile Verif.Model.ListStartsSpec.isSpTab))
        (Verif.Model.ListStartsSpec.blankB rest) : Nat) : Int) := by
  obtain ⟨hpre, hblank⟩ := preIndents_marker hm ews adjWs depth
  have hw := marker_width_pos m
  have hall : Blank rest → rest.takeWhile Verif.Model.ListStartsSpec.isSpTab = rest := by
    intro hb
    exact takeWhile_all_self rest (fun x hx => (Verif.Model.ListStartsSpec.isSpTab_iff x).mpr (hb x hx))
  rw [hpre, calcIndents_spec, hblank, ← hcol]
  · congr 2; omega
  · rintro ⟨he, hne, hd, hadj⟩
    have hb : Blank rest := by
      rw [blank_iff_blankB, ← hblank]; simp [he]
    apply hx1
    refine ⟨hb, ?_, hd, hadj⟩
    intro hnil
    rw [hnil] at hne
    exact hne (by simp [colsFrom, Verif.Model.ListStartsSpec.advance])
  · rintro ⟨he, h2, h4, hd⟩
    have hb : Blank rest := by
      rw [blank_iff_blankB, ← hblank]; simp [he]
    rw [hall hb, hcol] at h2 h4
    exact hx2 ⟨hb, h2, h4, hd⟩

example : MarkerAt ("  12.  x".toList.drop 2) (.ordered "12".toList '.') "  x".toList ∧
    (preIndents "  12.  x".toList 4 "  ".toList 2 [] 0).indent = 7 :=
  ⟨Verif.Model.ListStartsSpec.parseMarker_sound (by decide), by decide⟩

/-- **both excluded situations are real defects** (states recorded from the real parser, `tools/liststartslib.py` harvest):
(x2) `- -   \n    a`: the inner, empty item `-   ` at container depth 1 gets `indent_level` 6 where the specification says
2 + 1 + 1 = 4 — the `not container_depth` clause of `__calculate_indents`; the real parser then does not put `a` into the inner item.
(x1) `- a\n\n     -  \n      b`: the empty item `-  ` five columns in, with `adj_ws` = 3 spaces, gets 2 + 0 + len(adj_ws) = 5
where the specification says 5 + 1 + 1 = 7 (every other branch counts from `ws_before_marker`); the real parser then takes the
line `      b` (six columns) into the inner item. -/
theorem content_column_excluded :
    (preIndents "  -   ".toList 2 "  ".toList 0 [] 1).indent = 6 ∧
      contentOffset 2 1 3 true = 4 ∧
    (preIndents "     -  ".toList 5 "     ".toList 0 "   ".toList 0).indent = 5 ∧
      contentOffset 5 1 2 true = 7 := by
  decide

/-- **`hcol` is needed** (a model-level point; the real function agrees with the model there — the tie's alphabet has the tab —
but the callers never reach it: the container processor detabifies the line first): with a tab BEFORE the marker the marker's
index (1) is not its column (4), `calculate_length(ws, start_index + 1)` counts the tab after the marker from column 2 and
gets 2 columns where the line has 3; the indent comes out as 7, the specification's W + N is 4 + 1 + 3 = 8. -/
theorem content_column_tab_excluded :
    (preIndents "\t-\tx".toList 1 "\t".toList 0 "\t".toList 0).indent = 7 ∧
      contentOffset (colsFrom 0 "\t".toList) 1 (colsFrom (colsFrom 0 "\t".toList + 1) "\t".toList) false = 8 := by
  decide

/-- **columns_conserved** (C05): for an item that does not begin with a blank line, `indent_level + remaining_whitespace` is the
column of the first content character: the columns after the marker that are not the marker's padding are handed to the content
(`remaining_whitespace`, the indented-code case), none is lost. -/
theorem columns_conserved (line : Str) (start : Nat) (m : Marker) (rest : Str) (hm : MarkerAt (line.drop start) m rest)
    (ews adjWs : Str) (depth : Nat) (hnb : ¬ Blank rest) :
    (preIndents line (start + m.width - 1) ews (m.width - 1) adjWs depth).indent +
        (preIndents line (start + m.width - 1) ews (m.width - 1) adjWs depth).remaining =
      ((colsFrom 0 ews + m.width +
        colsFrom (start + m.width) (rest.takeWhile Verif.Model.ListStartsSpec.isSpTab) : Nat) : Int) := by
  obtain ⟨hpre, hblank⟩ := preIndents_marker hm ews adjWs depth
  have hw := marker_width_pos m
  rw [hpre, calcIndents_conserved]
  · congr 2; omega
  · intro he
    apply hnb
    rw [blank_iff_blankB, ← hblank]; simp [he]

/-! ### list_block_can_close_helper.py -/

/-- **can_close_terminates**: the `while` loop of `close_required_lists` ends — for EVERY stack, flag and column: the model's loop,
given the stack size as fuel, never runs out of it (every iteration pops at least one stack token or raises). -/
theorem can_close_terminates (st : Stack) (allow : Bool) (column : Option Nat) :
    closeRequiredLists st allow column ≠ .error .fuel :=
  closeRequiredLists_not_fuel st allow column

/-- **close_required_total**: on every stack with the document at the bottom (and only there), for every flag and every column of
the new list token, `close_required_lists` returns: neither "At least one token must have been returned." nor "Current block
must be a list." can fail, `token_stack[stack_index]` stays inside the stack (`len(token_stack) - 2` is ≥ 1 whenever the loop is
entered, because `list_count > 1` puts a list strictly below the top). -/
theorem close_required_total (st : Stack) (hOK : StackOK st) (allow : Bool) (column : Nat) :
    ∃ r, closeRequiredLists st allow (some column) = .ok r :=
  closeRequiredLists_total hOK.docBottom allow column

/-- the guard and the matching token are needed: no markdown token on the new stack token → the first assertion; the empty stack →
`IndexError` in `__close_required_lists_calc` (`token_stack[-1]`) -/
theorem close_required_excluded :
    closeRequiredLists [docE, ul 2, ul 4] true none = .error .assertion ∧
    closeRequiredLists [] true (some 1) = .error .index := by decide

/-- **close_required_prefix**: whatever `close_required_lists` closes, it closes from the top: the stack it leaves is a prefix of
the stack it found (nothing is reordered, nothing below the closed tokens changes). -/
theorem close_required_prefix (st : Stack) (allow : Bool) (column : Option Nat) (st' : Stack) (n : Nat)
    (h : closeRequiredLists st allow column = .ok (st', n)) : ∃ k, st' = st.take k := by
  unfold closeRequiredLists at h
  cases column with
  | none => cases h
  | some c => exact closeLoop_prefix c allow _ _ _ _ _ h

/-- **can_remove_total**: `calculate_can_remove_list` returns for every stack that has a list token above the document (its caller
holds the last list token in hand) and every start index. -/
theorem can_remove_total (st : Stack) (k : Nat) (e : Entry) (hk : st[k]? = some e) (hl : e.isList = true) (hk0 : k ≠ 0)
    (currentStart : Nat) : ∃ b, canRemoveList st currentStart = .ok b :=
  canRemoveList_total st k e hk hl hk0 currentStart

example : ([docE, ul 2, ul 4, paraE] : Stack)[1]? = some (ul 2) ∧ (ul 2).isList = true := by decide

/-- the guard is needed: three tokens and no list among them: "Stack index must be positive. (Document = index 0)" -/
theorem can_remove_excluded : canRemoveList [docE, paraE, paraE] 0 = .error .assertion := by decide

/-! ### the specification side -/

/-- **marker_sentence_is_leanmark**: the marker sentence this block's specification is written with (`MarkerAt`, decided by
`parseMarker`) is the list-marker scanner of LeanMark (`listMarker?`), the reference model C03 compares whole documents with:
same verdict on every text, same kind, delimiter / bullet, start number and width. -/
theorem marker_sentence_is_leanmark (d : Str) :
    Verif.Model.LeanMark.listMarker? d =
      (Verif.Model.ListStartsSpec.parseMarker d).map (fun x => Verif.Model.ListStartsSpec.leanmarkView x.1) :=
  Verif.Model.ListStartsSpec.parseMarker_eq_leanmark d

/-- **spec_decision_procedures**: the executable tests the driver evaluates for the tie's direct oracle (`parseMarker`,
`isThematicB`, `blankB`) decide the declarative statements of the specification. -/
theorem spec_decision_procedures (d : Str) (m : Marker) (rest : Str) :
    (Verif.Model.ListStartsSpec.parseMarker d = some (m, rest) ↔ MarkerAt d m rest) ∧
    (Verif.Model.ListStartsSpec.isThematicB d = true ↔ IsThematic d) ∧
    (Verif.Model.ListStartsSpec.blankB rest = true ↔ Blank rest) :=
  ⟨Verif.Model.ListStartsSpec.parseMarker_iff d m rest, Verif.Model.ListStartsSpec.isThematicB_iff d,
    Verif.Model.ListStartsSpec.blankB_iff rest⟩

/-! ### the two known tab crashes are not in these functions (tests on literals, labelled as such) -/

/-- TEST.  The documents `-\t` (IndexError) and `1.\t- x` (assertion "two whitespaces must be equal") crash the real parser.
The container processor detabifies the line before it reaches this block, so the functions modelled here see `-   ` and
`1.  - x` / `    - x` — the same arguments the tab-free documents `-   ` and `1.  - x` produce, which parse without error
(recorded calls: NOTES-ListStarts.md).  On those arguments the model — and the real functions, compared by the tie — return
normally; the crashes are raised later, in `LinkReferenceDefinitionHelper.__handle_link_reference_definition_init`
(`line_to_parse[start_index]`) and `ListBlockCreateNewHandler.__create_new_list_with_tab`, both on the `"\t" in original_line`
paths that these functions do not have. -/
theorem tab_crashes_not_here :
    isUlistStart [docE] "-   ".toList 0 [] false (some []) = .ok ⟨true, 4, some 0, some 0⟩ ∧
    (∃ r, preList [docE] "-   ".toList 0 [] 0 0 0 [] 1 0 = .ok r ∧ r.indent = 2 ∧ r.remaining = 3 ∧ r.wsAfter = 0) ∧
    isOlistStart [docE] "1.  - x".toList 0 [] false (some []) = .ok ⟨true, 4, some 1, some 1⟩ ∧
    isUlistStart [docE, ol 4] "    - x".toList 4 "    ".toList false (some []) = .ok ⟨true, 6, some 4, some 0⟩ := by
  have hD : StackOK [docE] := ⟨⟨docE, [], rfl, rfl, by decide⟩, by decide⟩
  have hO : StackOK [docE, ol 4] := ⟨⟨docE, [ol 4], rfl, rfl, by decide⟩, by decide⟩
  refine ⟨?_, ?_, ?_, ?_⟩
  · rw [show ((0 : Int)) = ((0 : Nat) : Int) from rfl, isUlistStart_evalOK hD (top := docE) (r := []) rfl]
    decide
  · obtain ⟨r, hr, -, h2, h3, h4⟩ := preList_total hD.docBottom "-   ".toList 0 [] 0 0 0 [] 1 0 (by decide) (by decide)
    refine ⟨r, hr, ?_, ?_, ?_⟩
    · rcases h4 with ⟨h4, -⟩ | ⟨-, -, -, top, h5, h6⟩
      · rw [h4]; decide
      · exfalso
        have : negAt [docE] 1 = .ok docE := by decide
        rw [this] at h5
        injection h5 with h5
        subst h5
        revert h6; decide
    · rw [h2]; decide
    · rw [h3]; decide
  · rw [show ((0 : Int)) = ((0 : Nat) : Int) from rfl, isOlistStart_evalOK hD (top := docE) (r := []) rfl]
    decide
  · rw [show ((4 : Int)) = ((4 : Nat) : Int) from rfl, isUlistStart_evalOK hO (top := ol 4) (r := [docE]) rfl]
    decide

end Verif.Props.ListStarts
