/-
  C14 — plug-in life-cycle.  For every file, every enabled rule receives: start, every token
  in order, every line in order with its text and number (1-based), completion — each
  exactly once, restricted to the callbacks it overrides.  (Scan mode; the fix-mode passes
  are in `Verif.Props.C14Fix`.)
-/
import Verif.Lemmas.Dispatch
import Verif.Lemmas.LifecyclePrefix
import Verif.Lemmas.LinePass
namespace Verif.Props.C14
open Verif.Model.Engine
variable {τ : Type}

/-- What rule `r` must receive for a file with token stream `toks` and lines `lines`. -/
def expected (r : Rule τ) (toks : List τ) (lines : List String) : List (Event τ) :=
  (if r.hasStart then [Event.start] else []) ++
  (if r.hasToken then toks.map Event.token else []) ++
  (if r.hasLine then lineEvents 1 lines else []) ++
  (if r.hasDone then [Event.done (lines.length + 1)] else [])

/-- With no callback raising, scanning a file is one pass over `start :: body`. -/
theorem scanFile_events (rs : List (Rule τ)) (h : AllNoRaise rs) (ss : States rs) (f : FileIn τ)
    (toks : List τ) (ht : f.toks = some toks) :
    (scanFile rs ss f).1 = (runPure rs ss (Event.start :: bodyEvents toks f.lines)).1 := by
  unfold scanFile
  simp only [ht]
  have e1 := dispatch_pure rs h ss Event.start []
  simp only [Acc.empty]
  rw [e1]
  simp only [runPure]
  rw [runEvents_pure rs h]

/-- **Life-cycle, scan mode**: after a file, every rule's call log has grown by exactly
`expected r toks lines` — in this order, nothing missing, nothing twice. -/
theorem lifecycle_scan (rs : List (Rule τ)) (h : AllNoRaise rs) (ss : States rs) (f : FileIn τ)
    (toks : List τ) (ht : f.toks = some toks) :
    logs rs (scanFile rs ss f).1 =
      List.zipWith (· ++ ·) (logs rs ss) (rs.map fun r => expected r toks f.lines) := by
  rw [scanFile_events rs h ss f toks ht, (runPure_perm_each rs _ ss).1, eachPure_logs]
  congr 1
  simp only [gains]
  apply List.map_congr_left
  intro r _
  exact fileEvents_filter r toks f.lines

/-- The lines delivered are the file's lines, numbered from 1, with their exact text. -/
theorem lines_numbered (lines : List String) (i : Nat) (h : i < lines.length) :
    (lineEvents (τ := τ) 1 lines)[i]'(by rw [lineEvents_length]; exact h) = Event.line (i + 1) lines[i] := by
  rw [lineEvents_get 1 lines i h]; congr 1; omega

theorem lines_count (lines : List String) : (lineEvents (τ := τ) 1 lines).length = lines.length :=
  lineEvents_length 1 lines

/-- Several files in one run: the logs simply concatenate the per-file life-cycles
(continue-on-error or not does not matter when nothing fails). -/
theorem lifecycle_files (rs : List (Rule τ)) (h : AllNoRaise rs) (cont : Bool) :
    ∀ (fs : List (FileIn τ × List τ)) (_ : ∀ p ∈ fs, p.1.toks = some p.2) (ss : States rs),
    logs rs (scanFiles rs cont ss (fs.map (·.1))).1 =
      fs.foldl (fun acc p => List.zipWith (· ++ ·) acc (rs.map fun r => expected r p.2 p.1.lines)) (logs rs ss)
  | [], _, _ => rfl
  | (f, toks) :: fs, hf, ss => by
    have ht : f.toks = some toks := hf (f, toks) (List.mem_cons_self)
    have herr : (scanFile rs ss f).2.err = none := by
      unfold scanFile
      have e1 := dispatch_pure rs h ss Event.start []
      simp only [Acc.empty, ht]
      rw [e1]; simp only
      rw [runEvents_pure rs h]; rfl
    simp only [List.map_cons, scanFiles, herr, Option.isSome_none, Bool.false_and, Bool.false_eq_true,
      if_false, List.foldl_cons]
    rw [lifecycle_files rs h cont fs (fun p hp => hf p (List.mem_cons_of_mem _ hp)), lifecycle_scan rs h ss f toks ht]

-- non-vacuity: a rule overriding only next_line and completed_file, file of two lines
example (r : Rule Nat) (h1 : r.hasStart = false) (h2 : r.hasToken = false) (h3 : r.hasLine = true)
    (h4 : r.hasDone = true) :
    expected r [7, 8] ["a", "b"] = [.line 1 "a", .line 2 "b", .done 3] := by
  simp [expected, h1, h2, h3, h4, lineEvents]

end Verif.Props.C14

/-! ### With failures: a prefix of the life-cycle, never more, never out of order -/
namespace Verif.Props.C14
open Verif.Model.Engine
variable {τ : Type}

/-- The events a file would deliver if nothing failed. -/
def fileEvents (f : FileIn τ) : List (Event τ) :=
  Event.start :: (match f.toks with | some t => bodyEvents t f.lines | none => [])

/-- **Prefix life-cycle** — for ANY rule set (callbacks may raise, the tokenizer may fail): after a
file every rule's call log has grown by exactly the events it handles among the first `k` events of
the file's life-cycle, for some `k`.  So a rule is never called twice for the same event, never
out of order, and never after a failure (its own or another rule's). -/
theorem lifecycle_prefix (rs : List (Rule τ)) (ss : States rs) (f : FileIn τ) :
    CompRel (fun r c c' => ∃ k, k ≤ (fileEvents f).length ∧
        c'.log = c.log ++ ((fileEvents f).take k).filter r.handles) rs ss (scanFile rs ss f).1 := by
  have hstart := runEvents_log_prefix rs [Event.start] ss Acc.empty
  simp only [runEvents] at hstart
  have widen : ∀ (evs' : List (Event τ)),
      CompRel (fun r c c' => ∃ k, k ≤ [Event.start (τ := τ)].length ∧ c'.log = c.log ++ ([Event.start].take k).filter r.handles) rs ss
        (dispatch rs ss Event.start Acc.empty).1 →
      CompRel (fun r c c' => ∃ k, k ≤ (Event.start :: evs').length ∧
        c'.log = c.log ++ ((Event.start :: evs').take k).filter r.handles) rs ss (dispatch rs ss Event.start Acc.empty).1 := by
    intro evs' h
    refine CompRel.mono ?_ rs _ _ h
    rintro r c c' ⟨k, hk, e⟩
    simp only [List.length_singleton] at hk
    refine ⟨k, by simp only [List.length_cons]; omega, ?_⟩
    rw [e]
    rcases Nat.lt_or_ge k 1 with h0 | h1
    · have : k = 0 := by omega
      subst this; simp
    · have : k = 1 := by omega
      subst this; simp
  unfold scanFile fileEvents
  simp only
  cases hf : (dispatch rs ss Event.start Acc.empty).2.fault with
  | some x => exact widen _ hstart
  | none =>
    cases ht : f.toks with
    | none => simpa using widen [] hstart
    | some toks =>
      simp only
      have := runEvents_log_prefix rs (Event.start :: bodyEvents toks f.lines) ss Acc.empty
      simpa [runEvents] using this

end Verif.Props.C14

/-! ### Fix mode: what a rule sees on each line of a pass (finding F-LIFE, part 2) -/
namespace Verif.Props.C14
open Verif.Model.FixSched

/-- In the line phase of a fix pass a **fix-list** rule is called with the real line number in fix
mode; a **collect-list** rule is called on the report context, whose line number is still 0 —
the property's "with its line number" fails for collect-list rules (recorded as F-LIFE). -/
theorem fix_pass_line_call (k n : Nat) (st : LineSt) (r : XRule) (h : r.hasLine = true) :
    (bindOf k r = some .fix → (lineStep k n st r).log = st.log ++ [(r.id, Call.line n st.line true)]) ∧
    (bindOf k r = some .report → (lineStep k n st r).log = st.log ++ [(r.id, Call.line 0 st.line false)]) ∧
    (bindOf k r = none → (lineStep k n st r).log = st.log) := by
  rw [lineStep_log]
  refine ⟨fun hb => by simp [lineCall, h, hb], fun hb => by simp [lineCall, h, hb], fun hb => by simp [lineCall, h, hb]⟩

/-- Rules that do not support fixing receive nothing at all in fix mode. -/
theorem non_fix_rule_not_called (k n : Nat) (st : LineSt) (r : XRule) (h : r.fixes = false) :
    (lineStep k n st r).log = st.log := by
  rw [lineStep_log]
  simp [lineCall, bindOf, h]

end Verif.Props.C14
