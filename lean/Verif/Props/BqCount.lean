/-
  Block-quote marker counting (`BlockQuoteCountHelper.count_block_quote_starts`) — serves C01 (total, bounded) and C03 (conforms).

  Model: Verif/Model/BqCount.lean (faithful, arbitrary `stack_count`, flags and token stack; the list branches are modelled and tied,
  the theorems below that need a stack shape are for LIST-FREE stacks, `ListFree`).  Lemmas: Verif/Lemmas/BqCount.lean.
  Tie: tools/bqcountlib.py (driver `bqcount`).
-/
import Verif.Lemmas.BqCount
namespace Verif.Props.BqCount
open Verif.Model.Recognisers hiding countBqStarts bqLoop
open Verif.Model.BqCount Verif.Lemmas.BqCount

deriving instance DecidableEq for Except

/-! ### termination, fuel -/

/-- **fuel is sufficient (1)**: an answer of the loop that is not "out of fuel" does not change with more fuel. -/
theorem loop_fuel_mono (c : Cfg) (line : Str) (osi f g : Nat) (s : St) (r : Except Err St)
    (h : loop c line osi f s = r) (hr : r ≠ .error .fuel) (hfg : f ≤ g) : loop c line osi g s = r :=
  Verif.Lemmas.BqCount.loop_fuel_mono c line osi f g s r h hr hfg

/-- **fuel is sufficient (2) / terminates**: for a start index inside the line the fuel `len(line) + 2` the model supplies is never
exhausted — for EVERY stack, `stack_count` and flag combination: each round moves the start index forward and the loop stops when the
line runs out.  (So `Err.diverges` is never the model's answer there.) -/
theorem count_terminates (c : Cfg) (line : Str) (osi : Nat) (h : osi < line.length) :
    countBqStarts c line osi ≠ .error .diverges := by
  unfold countBqStarts
  split
  · intro h'; cases h'
  · have hnf := loop_no_fuel c line osi (line.length + 2) ⟨osi + 1, 1, ((osi + 1 : Nat) : Int), false, []⟩ (by simp only; omega)
      (by simp only; omega)
    have hnd := loop_err_not_diverges c line osi (line.length + 2) ⟨osi + 1, 1, ((osi + 1 : Nat) : Int), false, []⟩
    cases hl : loop c line osi (line.length + 2) ⟨osi + 1, 1, ((osi + 1 : Nat) : Int), false, []⟩ with
    | ok s => simp
    | error e =>
      cases e with
      | fuel => exact absurd hl hnf
      | diverges => exact absurd hl hnd
      | index => simp
      | assertion => simp

/-- **the excluded start indices are real**: outside the line (`start_index >= len(line)`), with neither a fenced nor an html block
open, the loop asks for another round for ever — for every amount of fuel the model's loop runs out of it, and the model answers
`Err.diverges`.  The real function does not return there (tools/bqcountlib.py runs it under a CPU timer). -/
theorem count_diverges (c : Cfg) (line : Str) (osi : Nat) (hh : c.html = false) (hf : c.fenced = false)
    (h : line.length ≤ osi) :
    (∀ fuel, loop c line osi fuel ⟨osi + 1, 1, ((osi + 1 : Nat) : Int), false, []⟩ = .error .fuel) ∧
      countBqStarts c line osi = .error .diverges := by
  have hl := fun fuel => loop_outside c line osi fuel ⟨osi + 1, 1, ((osi + 1 : Nat) : Int), false, []⟩ hh hf (by simp only; omega)
  refine ⟨hl, ?_⟩
  unfold countBqStarts
  simp only [hf, Bool.and_false, Bool.false_eq_true, ↓reduceIte, hl]

example : countBqStarts ⟨[.doc], 0, 0, false, false, ">".toList⟩ ">".toList 1 = .error .diverges :=
  (count_diverges _ _ _ rfl rfl (by decide)).2

/-! ### totality on list-free stacks -/

/-- **count_total**: on a list-free stack whose block quotes are the `stack_count` counted ones, for EVERY line and every start
index at which a `>` stands (the caller's guard, `is_block_quote_start`), whatever the two flags: no `IndexError`, no
`AssertionError`, and the loop ends. -/
theorem count_total (c : Cfg) (line : Str) (osi : Nat) (hl : ListFree c line) (hg : isCharAt line osi '>' = true) :
    ∃ r, countBqStarts c line osi = .ok r := by
  have hlt := isCharAt_true_lt hg
  have hget : line[osi]? = some '>' := Verif.Lemmas.BqCount.isCharAt_get hg
  unfold countBqStarts
  split
  · exact ⟨_, rfl⟩
  · obtain ⟨r, hr⟩ := loop_listfree_ok c line hl osi (line.length + 2) ⟨osi + 1, 1, ((osi + 1 : Nat) : Int), false, []⟩
      ⟨Nat.le_refl _, osi, by simp only; omega, hget⟩ (by simp only; omega) (by simp only; omega)
    rw [hr]; exact ⟨_, rfl⟩

example : ListFree ⟨[.doc, .bq, .bq, .other], 2, 2, false, false, "> > a".toList⟩ "> > a".toList :=
  ⟨⟨[.other], rfl, by decide⟩, rfl⟩

/-- the stack shapes the theorem excludes do raise: `stack_count` larger than the number of block quotes on the stack
(`token_stack[final_stack_index + 1]`), a list as the last stack token (`while token_stack[stack_index].is_list`) -/
theorem count_excluded_stack :
    countBqStarts ⟨[.doc, .bq], 2, 1, false, false, "> a".toList⟩ "> a".toList 0 = .error .index ∧
    countBqStarts ⟨[.doc, .bq, .list 2], 2, 1, false, false, "> a".toList⟩ "> a".toList 0 = .error .index := by
  decide

/-! ### bounds, monotonicity -/

/-- **count_bounds**: (list-free stack, no html block open, not the fenced early exit) the returned start index lies strictly behind
the marker the function was called at and inside the line; `last_block_quote_index` lies between the two; the count is at least one. -/
theorem count_bounds (c : Cfg) (line : Str) (osi : Nat) (hl : ListFree c line) (hg : isCharAt line osi '>' = true)
    (hh : c.html = false) (hne : (c.stackCount == 0 && c.fenced) = false) (r : Result)
    (h : countBqStarts c line osi = .ok r) :
    ((osi : Int) < r.start ∧ r.start ≤ (line.length : Int)) ∧ ((osi : Int) < r.last ∧ r.last ≤ r.start) ∧ 1 ≤ r.count := by
  have hlt := isCharAt_true_lt hg
  have hget : line[osi]? = some '>' := Verif.Lemmas.BqCount.isCharAt_get hg
  unfold countBqStarts at h
  rw [hne] at h
  simp only [Bool.false_eq_true, ↓reduceIte] at h
  split at h
  · cases h
  · cases h
  · next s hs =>
    cases h
    obtain ⟨⟨b1, b2, b3, b4, b5⟩, _⟩ := loop_listfree_bounds c line hl hh osi _ _ s
      ⟨Nat.le_refl _, osi, by simp only; omega, hget⟩
      ⟨by simp only; omega, by simp only; omega, by simp only; omega, by simp only; omega, by simp only; omega⟩ hs
    simp only
    omega

/-! ### the count is the specification's -/

/-- **count_eq_spec**: (list-free stack, neither a fenced nor an html block open) the count is the number of block-quote markers
given by the independent recursive definition `specStack`: `>`, an optional space or tab, and — only while fewer than `stack_count`
markers have been counted — up to three more columns of white space before the next `>`. -/
theorem count_eq_spec (c : Cfg) (line : Str) (osi : Nat) (hl : ListFree c line) (hg : isCharAt line osi '>' = true)
    (hh : c.html = false) (hf : c.fenced = false) (r : Result) (h : countBqStarts c line osi = .ok r) :
    r.count = specStack c.stackCount line osi := by
  have hlt := isCharAt_true_lt hg
  have hget : line[osi]? = some '>' := Verif.Lemmas.BqCount.isCharAt_get hg
  unfold countBqStarts at h
  simp only [hf, Bool.and_false, Bool.false_eq_true, ↓reduceIte] at h
  split at h
  · cases h
  · cases h
  · next s hs =>
    cases h
    have := loop_spec c line hl hh hf osi _ _ s ⟨Nat.le_refl _, osi, by simp only; omega, hget⟩ (by simp only; omega) hs
    simp only at this ⊢
    unfold specStack
    exact this

/-- while the open quotes outnumber anything the rest of the line could hold, the limit in `specStack` never binds:
the specification is CommonMark's -/
theorem specStack_eq_specCM (stack : Nat) (line : Str) (osi : Nat) (hlt : osi < line.length) (h : line.length ≤ stack + osi) :
    specStack stack line osi = specCM line osi := by
  unfold specStack specCM
  rw [specGo_stack_irrelevant stack (line.length + 1) (line.drop (osi + 1)) false 0 1
    (by simp only [List.length_drop]; omega) (by simp only [List.length_drop]; omega)]

/-- **count_eq_commonmark_partial**: the count is CommonMark's number of markers (each = up to three columns of indentation, `>`,
an optional space or tab) under the exact hypothesis that the two specifications agree on the line — which holds whenever every
marker continues an open quote (`specStack_eq_specCM`), and on a fresh line (`stack_count = 0`) whenever no marker but the first is
indented. -/
theorem count_eq_commonmark_partial (c : Cfg) (line : Str) (osi : Nat) (hl : ListFree c line)
    (hg : isCharAt line osi '>' = true) (hh : c.html = false) (hf : c.fenced = false) (r : Result)
    (h : countBqStarts c line osi = .ok r) (hcm : specStack c.stackCount line osi = specCM line osi) :
    r.count = specCM line osi := by
  rw [← hcm]; exact count_eq_spec c line osi hl hg hh hf r h

/-- the hypothesis is not vacuous … -/
example : specStack 0 "> > a".toList 0 = specCM "> > a".toList 0 := by decide
example : specStack 2 ">   > a".toList 0 = specCM ">   > a".toList 0 := by decide

/-- … and the excluded point is real: on the fresh line `>  >` (second marker indented by one column) CommonMark counts two
markers, the function counts one.  The real function returns 1 there; the real PARSER still opens two quotes, because the container
processor re-enters on the rest of the line (tools/bqcountlib.py `real_witnesses`). -/
theorem commonmark_excluded :
    specCM ">  >".toList 0 = 2 ∧ specStack 0 ">  >".toList 0 = 1 := by decide

#guard decide (countBqStarts ⟨[.doc], 0, 0, false, false, ">  >".toList⟩ ">  >".toList 0 = .ok ⟨1, 2, 1, false, []⟩)
#guard decide (countBqStarts ⟨[.doc, .bq, .bq], 2, 2, false, false, ">   > a".toList⟩ ">   > a".toList 0 = .ok ⟨2, 6, 5, false, []⟩)
-- the kludge flag: something other than white space between the markers of two open quotes
#guard decide (countBqStarts ⟨[.doc, .bq, .bq], 2, 2, false, false, "> a>".toList⟩ "> a>".toList 0 = .ok ⟨1, 2, 1, false, [1]⟩)

end Verif.Props.BqCount
