/-
  C20 / C11 for the reference parser — LeanMark's block phase satisfies the shift law that the
  front-matter theorems of `Verif.Props.C20` assume of "the parser proper", and a pragma line withheld
  from it only renumbers the lines after it.

  Part 1 (front matter).  `parseLM rd n ls` = LeanMark's block event stream of the lines `ls` when the first
  of them is numbered `n` (for every `n : Nat`, `n = 0` included).  `leanmark_shiftInvariant` instantiates
  `Verif.Model.FrontMatter.ShiftInvariant` (tokens := events, shift := `shiftEv`); `fm_shift_leanmark` is
  `C20.fm_shift` for the reference parser.
  Part 2 (pragmas).  `parseFed rd doc` = the stream when the parser is fed `C11.feedLines 1 doc`, the
  non-pragma lines with their physical numbers.  `pragma_invisible_leanmark`: inserting a pragma line
  after `a.length` lines renumbers the later lines by one and changes nothing else.

  Proofs: `L_shift`, `L_renumber` (Lemmas/LeanMarkShift.lean), `L_nums_pos`.
-/
import Verif.Props.C20
import Verif.Props.C11
import Verif.Lemmas.LeanMarkShift
namespace Verif.Props.C20LeanMark
open Verif.Model.FrontMatter Verif.Model.LeanMark Verif.Model.Pragma

/-! ## Part 1 — the shift law -/

/-- subtract one from every line number of an event. -/
def predEv : Ev → Ev := renEv (· - 1)

/-- LeanMark's block parser as a function of the number `n` of its first line: the lines are numbered
    `n, n + 1, …` (computed as the run numbered `n + 1, n + 2, …`, every number decreased by one). -/
def parseLM (rd : Reading) (n : Nat) (ls : Lines) : List Ev := (eventsFromR rd n ls).map predEv

theorem predEv_shiftEv_succ (k : Nat) (e : Ev) : predEv (shiftEv (k + 1) e) = shiftEv k e := by
  unfold predEv shiftEv
  rw [renEv_renEv]
  apply renEv_congr
  cases e <;> simp [Ev.allNums] <;> omega

/-- numbering from `n + 1` is the model's own `eventsFromR rd n`; in particular `parseLM rd 1 = eventsR rd`. -/
theorem parseLM_succ (rd : Reading) (n : Nat) (ls : Lines) : parseLM rd (n + 1) ls = eventsFromR rd n ls := by
  unfold parseLM
  rw [L_shift_from rd n 1 ls, List.map_map]
  conv => rhs; rw [← List.map_id (eventsFromR rd n ls)]
  apply List.map_congr_left
  intro e _
  show predEv (shiftEv (0 + 1) e) = e
  rw [predEv_shiftEv_succ, shiftEv_zero]

theorem parseLM_one (rd : Reading) (ls : Lines) : parseLM rd 1 ls = eventsR rd ls := parseLM_succ rd 0 ls

/-- **leanmark_shiftInvariant**: LeanMark's block parser satisfies the shift law of
    `Verif.Model.FrontMatter` for every number of the first line (0 included), every offset, every
    document and both readings of the specification. -/
theorem leanmark_shiftInvariant (rd : Reading) : ShiftInvariant (parseLM rd) shiftEv := by
  constructor
  intro n k ls
  unfold parseLM
  rw [L_shift rd (n + k) ls, L_shift rd n ls]
  unfold predEv shiftEv
  rw [map_renEv_renEv, map_renEv_renEv, map_renEv_renEv]
  apply map_renEv_congr
  intro e he
  apply (L_nums_pos rd ls e he).imp
  intro x hx
  show x + (n + k) - 1 = x + n - 1 + k
  omega

example : parseLM {} 0 ["> a".toList] =
    [.open .quote ⟨0, 1⟩, .leaf .para ⟨0, 3⟩ 0 [⟨0, 2, ['a']⟩], .close .quote 0] := by rfl

/-- **fm_shift_leanmark**: for the reference parser, a document that begins with a valid front-matter
    block of `k = body.length + 2` lines yields the front-matter token followed by exactly the events of
    the remaining lines (parsed as a document of their own), every line number increased by `k`. -/
theorem fm_shift_leanmark (rd : Reading) (allowBlank : Bool) (yaml : Lines → Yaml)
    (start : Verif.Model.FrontMatter.Line) (body : Lines) (close : Verif.Model.FrontMatter.Line) (rest : Lines)
    (hv : Verif.Props.C20.ValidBlock allowBlank yaml start body close) :
    tokenize true allowBlank yaml (parseLM rd) (start :: (body ++ close :: rest))
      = .ok (.fm ⟨start, close, body⟩ ::
              ((eventsR rd rest).map (shiftEv (body.length + 2))).map OutTok.blk) := by
  rw [Verif.Props.C20.fm_shift (parseLM rd) shiftEv (leanmark_shiftInvariant rd) allowBlank yaml start body close
    rest hv, parseLM_one]

/-- the same statement read on the model's own numbering: the rest is parsed as `eventsFromR` with
    `k` lines preceding it. -/
theorem fm_shift_leanmark_from (rd : Reading) (allowBlank : Bool) (yaml : Lines → Yaml)
    (start : Verif.Model.FrontMatter.Line) (body : Lines) (close : Verif.Model.FrontMatter.Line) (rest : Lines)
    (hv : Verif.Props.C20.ValidBlock allowBlank yaml start body close) :
    tokenize true allowBlank yaml (parseLM rd) (start :: (body ++ close :: rest))
      = .ok (.fm ⟨start, close, body⟩ :: (eventsFromR rd (body.length + 2) rest).map OutTok.blk) := by
  rw [fm_shift_leanmark rd allowBlank yaml start body close rest hv, L_shift]

/-- extension off (or no valid block): the reference parser sees the plain document. -/
theorem fm_disabled_leanmark (rd : Reading) (allowBlank : Bool) (yaml : Lines → Yaml) (doc : Lines) :
    tokenize false allowBlank yaml (parseLM rd) doc = .ok ((eventsR rd doc).map OutTok.blk) := by
  rw [Verif.Props.C20.fm_disabled_identity, plain, parseLM_one]

example :
    tokenize true false (fun _ => .ok) (parseLM {}) ["---".toList, "a: b".toList, "---".toList, "# h".toList]
      = .ok [.fm ⟨"---".toList, "---".toList, ["a: b".toList]⟩,
             .blk (.leaf (.heading 1 false) ⟨4, 1⟩ 4 [⟨4, 2, ['h']⟩])] := by rfl

/-! ## Part 2 — a pragma line is invisible to the reference parser -/
open Verif.Props.C11

/-- the reference parser fed the non-pragma lines of `doc` under their physical line numbers
    (`C11.feedLines 1 doc`: what `look_for_pragmas` lets through to the block parser). -/
def parseFed (rd : Reading) (doc : List Str) : List Ev := eventsNumR rd 0 (feedLines 1 doc)

/-- renumbering caused by a line inserted after line `c`. -/
def bump (c : Nat) (l : Nat) : Nat := if l ≤ c then l else l + 1

theorem bump_strict (c : Nat) : ∀ a b, a < b → bump c a < bump c b := by
  intro a b h
  unfold bump
  split <;> split <;> omega

theorem feedLines_range : ∀ (n : Nat) (ls : List Str), ∀ q ∈ feedLines n ls, n ≤ q.1 ∧ q.1 < n + ls.length
  | _, [], q, h => by simp [feedLines] at h
  | n, l :: ls, q, h => by
    have ih := feedLines_range (n + 1) ls
    simp only [feedLines] at h
    simp only [List.length_cons]
    split at h
    · have := ih q h; omega
    · rcases List.mem_cons.mp h with rfl | h
      · simp only; omega
      · have := ih q h; omega

theorem feedLines_increasing : ∀ (n m : Nat) (ls : List Str), m < n → Increasing m (feedLines n ls)
  | _, _, [], _ => trivial
  | n, m, l :: ls, h => by
    simp only [feedLines]
    split
    · exact feedLines_increasing (n + 1) m ls (by omega)
    · exact ⟨h, feedLines_increasing (n + 1) n ls (by omega)⟩

/-- the lines fed from the document with the pragma are those fed from the document without it,
    renumbered by `bump a.length`. -/
theorem feedLines_insert (a b : List Str) (p : Str) (hp : (isPragma p).isSome) :
    feedLines 1 (a ++ p :: b) = (feedLines 1 (a ++ b)).map fun q => (bump a.length q.1, q.2) := by
  rw [pragma_invisible a b p hp, feedLines_append, List.map_append]
  congr 1
  · conv => lhs; rw [← List.map_id (feedLines 1 a)]
    apply List.map_congr_left
    intro q hq
    have := feedLines_range 1 a q hq
    have hb : bump a.length q.1 = q.1 := by unfold bump; split <;> omega
    simp only [id, hb]
  · apply List.map_congr_left
    intro q hq
    have := feedLines_range (1 + a.length) b q hq
    have hb : bump a.length q.1 = q.1 + 1 := by unfold bump; split <;> omega
    simp only [hb]

/-- **pragma_invisible_leanmark**: inserting a pragma line `p` after the first `a.length` lines of a
    document (which may itself contain pragmas) changes the reference parser's block event stream only
    by renumbering: every line number `> a.length` — in positions, end lines and payloads — is increased by
    one, everything else (kinds, columns, texts, order, nesting) is identical. -/
theorem pragma_invisible_leanmark (rd : Reading) (a b : List Str) (p : Str) (hp : (isPragma p).isSome) :
    parseFed rd (a ++ p :: b) = (parseFed rd (a ++ b)).map (renEv (bump a.length)) := by
  unfold parseFed
  rw [feedLines_insert a b p hp]
  have h := L_renumber (ρ := bump a.length) (bump_strict a.length) rd 0 (feedLines 1 (a ++ b))
    (feedLines_increasing 1 0 _ (by omega))
  have h0 : bump a.length 0 = 0 := by simp [bump]
  rw [h0] at h
  exact h

/-- a document without pragma lines is fed whole: `parseFed` is the plain parse. -/
theorem feedLines_noPragma : ∀ (n : Nat) (doc : List Str), (∀ l ∈ doc, (isPragma l).isSome = false) →
    feedLines n doc = numbered n doc
  | _, [], _ => rfl
  | n, l :: ls, h => by
    simp only [feedLines, numbered, h l List.mem_cons_self, Bool.false_eq_true, if_false]
    rw [feedLines_noPragma (n + 1) ls (fun x hx => h x (List.mem_cons_of_mem _ hx))]

theorem parseFed_noPragma (rd : Reading) (doc : List Str) (h : ∀ l ∈ doc, (isPragma l).isSome = false) :
    parseFed rd doc = eventsR rd doc := by
  unfold parseFed
  rw [feedLines_noPragma 1 doc h, ← eventsFromR_eq_num rd 0 doc]
  rfl

/-- **pragma_line_invisible**: one pragma line in an otherwise pragma-free document — the stream is
    the stream of the document without that line, later lines renumbered by one. -/
theorem pragma_line_invisible (rd : Reading) (a b : List Str) (p : Str) (hp : (isPragma p).isSome)
    (h : ∀ l ∈ a ++ b, (isPragma l).isSome = false) :
    parseFed rd (a ++ p :: b) = (eventsR rd (a ++ b)).map (renEv (bump a.length)) := by
  rw [pragma_invisible_leanmark rd a b p hp, parseFed_noPragma rd _ h]

/-- a pragma at the very top shifts the whole stream by one line. -/
theorem pragma_first_line_shift (rd : Reading) (b : List Str) (p : Str) (hp : (isPragma p).isSome)
    (h : ∀ l ∈ b, (isPragma l).isSome = false) :
    parseFed rd (p :: b) = (eventsR rd b).map (shiftEv 1) := by
  have h1 := pragma_line_invisible rd [] b p hp (by simpa using h)
  simp only [List.nil_append, List.length_nil] at h1
  rw [h1]
  apply map_renEv_congr
  intro e he
  apply (L_nums_pos rd b e he).imp
  intro x hx
  show bump 0 x = x + 1
  unfold bump
  split <;> omega

example : (isPragma "<!-- pyml disable-next-line md001-->".toList).isSome = true := by decide

example : parseFed {} ["# a".toList, "<!-- pyml disable-next-line md001-->".toList, "> b".toList] =
    [.leaf (.heading 1 false) ⟨1, 1⟩ 1 [⟨1, 2, ['a']⟩],
     .open .quote ⟨3, 1⟩, .leaf .para ⟨3, 3⟩ 3 [⟨3, 2, ['b']⟩], .close .quote 3] := by rfl

end Verif.Props.C20LeanMark
