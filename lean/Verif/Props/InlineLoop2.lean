/-
  InlineLoop, second part: statements the first part (`Props/InlineLoop`) left to the tie.

  index_any_of_literal    the model's first-hit `InlineLoop.indexAnyOf` = the literal Python loop of `ParserHelper.index_any_of`
                          (`InlineRecog.indexAnyOf`: one `str.find` per character of `find_any`, running minimum, `break` at 0)
                          = the position-by-position scan, for ALL inputs
  inline_loop_line_end_partial   the turn of the loop that handles a line break (`InlineLineEndHelper.__handle_line_end`): where
                          every character of the pending line goes — the step `inline_loop_content_partial` lacks for texts with
                          newlines (the composition into a multi-line content theorem is NOT done)
-/
import Verif.Props.InlineLoop
import Verif.Lemmas.InlineLoopIndex
import Verif.Lemmas.InlineLoopLineEnd
namespace Verif.Props.InlineLoop2
open Verif.Model Verif.Model.InlineLoop
open Verif.Model.Recognisers (Str)
open Verif.Lemmas.InlineLoopIndex

/-! ## `index_any_of` -/

/-- `ParserHelper.index_any_of(source_text, find_any, start_index)` written as a scan over positions:
`for i in range(start, len(s)): if s[i] in find_any: return i` / `return -1`. -/
def indexAnyOfScan (s cs : Str) (start : Nat) : Option Nat := scanFrom s cs (s.length - start) start

/-- **index_any_of_literal**, all inputs (any text, any character set — empty, with repetitions —, any start index, also behind
the end of the text).  Three renderings of `ParserHelper.index_any_of` agree:
* `InlineRecog.indexAnyOf` — the LITERAL Python code (`parser_helper.py:617`): `first_index = -1`; for each character of
  `find_any`: `found = source_text.find(ch, start_index)`; if found: `first_index = found` or `min(first_index, found)`;
  `break` when it is 0; return `first_index` (`pyFind` = CPython's `str.find`, `none` = −1);
* `InlineLoop.indexAnyOf` — what the dispatcher model and all its theorems use: the first position `≥ start` holding a
  character of the set;
* `indexAnyOfScan` — the position-by-position loop.
So the early `break` never changes the result, and the order / multiplicity of the characters in `find_any` is irrelevant. -/
theorem index_any_of_literal (s cs : Str) (start : Nat) :
    InlineRecog.indexAnyOf s cs start = InlineLoop.indexAnyOf s cs start ∧
    indexAnyOfScan s cs start = InlineLoop.indexAnyOf s cs start := by
  constructor
  · unfold InlineRecog.indexAnyOf InlineLoop.indexAnyOf
    rw [loop_eq_min, minFind_eq]; rfl
  · exact scanFrom_eq s cs _ start rfl

/-- what the literal loop returns, transported from `indexAnyOf_some` / `indexAnyOf_none`: an index at or after the start, inside
the text, on a character of the set, no character of the set before it -/
theorem index_any_of_literal_spec (s cs : Str) (start j : Nat) (h : InlineRecog.indexAnyOf s cs start = some j) :
    start ≤ j ∧ (∃ hlt : j < s.length, cs.contains s[j] = true) ∧ ∀ c ∈ Recognisers.slice s start j, cs.contains c = false := by
  rw [(index_any_of_literal s cs start).1] at h
  exact indexAnyOf_some h

-- the three on the real start-character set, start inside / at the end / behind the end, and the `break` case (hit at index 0)
#guard InlineRecog.indexAnyOf "ab*c`d".toList realStarts 0 == some 2 && InlineLoop.indexAnyOf "ab*c`d".toList realStarts 0 == some 2
#guard InlineRecog.indexAnyOf "ab*c`d".toList realStarts 3 == some 4 && indexAnyOfScan "ab*c`d".toList realStarts 3 == some 4
#guard InlineRecog.indexAnyOf "*b".toList realStarts 0 == some 0 && InlineRecog.indexAnyOf "ab".toList realStarts 7 == none


/-! ## the line-end turn -/

open Verif.Lemmas.InlineLoopLineEnd
open Verif.Model.Recognisers (SP TAB slice scanOneOf)

/-- **inline_loop_line_end_partial** — content conservation of ONE line-break turn, all inputs of the modelled helper
(`handleLineEnd` = `__handle_line_end` + `__select_line_ending(_normal)` + `__is_proper_hard_break`, no tabified text).
`remaining` is the text between the previous element and the line break, `cur` the pending text, `endStr` the pending
`end_whitespace`.  The line splits as `remaining = front ++ removed`, `removed` = its trailing spaces (all of them: `front` does not
end in a space), and exactly one of three things happens:
* (backslash hard break) no trailing space and the pending text ends in a backslash that is not an escaped one: the backslash leaves the
  pending text for the hard-break token `\`, the whole line stays text, no newline is appended, `end_whitespace` untouched;
* (space hard break) two or more trailing spaces: they ARE the hard-break token's text, `front` stays text, nothing else changes;
* (soft break) at most one trailing space: `\n` is appended to the text and `removed ++ "\n"` to `end_whitespace` (after the old
  `end_whitespace`); `front` stays text — except in a setext heading directly after a hard break with empty pending text, where the
  leading spaces / tabs `lead` of `front` move into a fresh `end_whitespace` too (`lead ++ "\x02"`, nothing when `lead` is empty;
  this is the shape behind defect D2 of the NOTES).
So in every case `remaining ++ "\n"` = the characters kept as text + the characters moved to `end_whitespace` / the hard-break token, in
order; nothing is dropped or invented.
NOT proved (the full item): the composition of this step with `step_content` / `run_content` into `inline_loop_content_partial` for
texts with newlines — `Renders` / `CInv` of `Lemmas/InlineLoopContent` have no clause for `end_whitespace` and hard-break
segments, and `addRecombinedWhitespace` (recombined paragraph white space skipped after the break) is not covered here. -/
theorem inline_loop_line_end_partial (isSetext : Bool) (blocks : List Tok) (remaining : Str) (endStr : Option Str) (cur : Str)
    (line col : Int) :
    let le := handleLineEnd isSetext blocks remaining endStr cur line col
    let front := (stripEnd remaining).1
    let removed := (stripEnd remaining).2
    front ++ removed = remaining ∧ (∀ c ∈ removed, c = ' ') ∧ front.getLast? ≠ some ' ' ∧
    ((removed = [] ∧ le.cur ++ ['\\'] = cur ∧ le.newString = [] ∧ le.newTokens = [.hardBreak ['\\'] line (col + front.length - 1)] ∧
        le.remaining = remaining ∧ le.endStr = endStr) ∨
     (2 ≤ removed.length ∧ le.cur = cur ∧ le.newString = [] ∧ le.newTokens = [.hardBreak removed line (col + front.length)] ∧
        le.remaining = front ∧ le.endStr = endStr) ∨
     (removed.length ≤ 1 ∧ le.cur = cur ∧ le.newString = [NL] ∧ le.newTokens = [] ∧
        ∃ lead, lead ++ le.remaining = front ∧ (∀ c ∈ lead, c = ' ' ∨ c = '\t') ∧
          ((lead = [] ∧ le.endStr = some (endStr.getD [] ++ removed ++ [NL])) ∨
           (isSetext = true ∧ lastIsHardBreak blocks = true ∧ cur = [] ∧
             le.endStr = some ((if lead = [] then [] else lead ++ [Codec.WSPLIT]) ++ removed ++ [NL]))))) := by
  intro le front removed
  obtain ⟨hsplit, hsp, hlast⟩ := stripEnd_spec remaining
  refine ⟨hsplit, hsp, hlast, ?_⟩
  have hle : le = handleLineEnd isSetext blocks remaining endStr cur line col := rfl
  unfold handleLineEnd at hle
  by_cases h1 : isProperHardBreak cur (stripEnd remaining).2.length = true
  · left
    simp only [h1, if_true] at hle
    have h1' := h1
    simp only [isProperHardBreak, Bool.and_eq_true, beq_iff_eq] at h1'
    have hrm : removed = [] := List.length_eq_zero_iff.mp h1'.1.1
    have hcur : cur.dropLast ++ ['\\'] = cur := by
      have := h1'.1.2
      cases hc : cur.getLast? with
      | none => rw [hc] at this; cases this
      | some x =>
        rw [hc] at this; injection this with this; subst this
        obtain ⟨ys, hys⟩ := List.getLast?_eq_some_iff.mp hc
        rw [hys]; simp
    have hfr : front = remaining := by rw [← hsplit]; show front = front ++ removed; rw [hrm, List.append_nil]
    rw [hle]
    exact ⟨hrm, hcur, rfl, by simp only [Int.add_sub_assoc]; rfl, hfr, rfl⟩
  · simp only [h1, Bool.false_eq_true, if_false] at hle
    by_cases h2 : (stripEnd remaining).2.length ≥ 2
    · right; left
      simp only [h2, if_true] at hle
      rw [hle]
      exact ⟨h2, rfl, rfl, rfl, rfl, rfl⟩
    · right; right
      simp only [h2, if_false] at hle
      rw [hle]
      refine ⟨by show removed.length ≤ 1; have : ¬ removed.length ≥ 2 := h2; omega, rfl, rfl, rfl, ?_⟩
      simp only [selectLineEndingNormal]
      by_cases hc : (isSetext && lastIsHardBreak blocks && cur.isEmpty) = true
      · simp only [hc, if_true]
        have hc' := hc
        simp only [Bool.and_eq_true, List.isEmpty_iff] at hc'
        refine ⟨slice front 0 (scanOneOf front [SP, TAB] 0), ?_, ?_, Or.inr ⟨hc'.1.1, hc'.1.2, hc'.2, ?_⟩⟩
        · show slice (stripEnd remaining).1 0 _ ++ List.drop _ (stripEnd remaining).1 = (stripEnd remaining).1
          unfold slice; simp only [List.drop_zero, Nat.sub_zero]
          exact List.take_append_drop _ _
        · intro c hcm
          rw [Recognisers.scanOneOf_eq] at hcm
          simp only [slice, List.drop_zero, Nat.zero_add, Nat.sub_zero] at hcm
          rw [Recognisers.take_takeWhile_length] at hcm
          have := mem_takeWhile_sat hcm
          simpa [SP, TAB] using this
        · show some _ = some _
          congr 1
          by_cases hz : scanOneOf (stripEnd remaining).1 [SP, TAB] 0 = 0
          · have : slice front 0 (scanOneOf front [SP, TAB] 0) = [] := by
              show slice (stripEnd remaining).1 0 (scanOneOf (stripEnd remaining).1 [SP, TAB] 0) = []
              rw [hz]; simp [slice]
            simp [hz, this]; rfl
          · have hne : slice front 0 (scanOneOf front [SP, TAB] 0) ≠ [] := by
              show slice (stripEnd remaining).1 0 (scanOneOf (stripEnd remaining).1 [SP, TAB] 0) ≠ []
              intro he
              have hl := congrArg List.length he
              rw [Recognisers.scanOneOf_eq] at hl hz
              simp only [slice, List.drop_zero, Nat.zero_add, Nat.sub_zero, List.length_take, List.length_nil] at hl hz
              have := Recognisers.takeWhile_length_le [SP, TAB].contains (stripEnd remaining).1
              omega
            simp [hz, hne]; rfl
      · simp only [hc, Bool.false_eq_true, if_false]
        refine ⟨[], rfl, by simp, Or.inl ⟨rfl, ?_⟩⟩
        cases endStr <;> rfl

-- the three cases on concrete lines (the helper evaluated by the compiler)
#guard (handleLineEnd false [] "ab".toList none "x\\".toList 1 1).newTokens == [.hardBreak ['\\'] 1 2]
#guard (handleLineEnd false [] "ab   ".toList none "x".toList 1 1).newTokens == [.hardBreak "   ".toList 1 3]
#guard (handleLineEnd false [] "ab ".toList (some "e".toList) "x".toList 1 1).endStr == some "e \n".toList

end Verif.Props.InlineLoop2
