/-
  RegenLeaf — property theorems about the container-free Markdown regenerator model (`Verif.Model.RegenLeaf`,
  faithful to `TransformToMarkdown.transform` and the `__rehydrate_*` handlers of the leaf / inline token classes).

  Serves  C02 (token stream is lossless: the regenerator half, composed with the field decompositions of `LeafFields`),
          C08 (fix mode changes only what the rule names: a style field of one token changes only that token's text),
          C01 (no crash of the regenerator on well-formed streams; the excluded points are real exceptions).

  regen_concat            the output is the concatenation of the per-token texts in stream order, one final newline dropped
                          (kept after a forced fence end that follows content), sentinels removed, pragmas re-inserted
  regen_concat_parts      … and the text of token i is `process` at the context the first i tokens leave
  regen_blocks_compose    closed blocks (block stack empty before and after) contribute independently of each other
  regen_paragraph_text    a plain-text paragraph regenerates to its source lines (leading / trailing white space per line)
  regen_leaf_roundtrip    a document of leaf blocks the modelled recognisers accept (blank, thematic break, ATX, paragraph, setext,
                          closed fence) regenerates to its lines; excluded points F-THORN, F-FENCE-TRAILWS, F-SETEXT-TRAILWS
  regen_total             no exception on well-formed streams (guard `WF`); excluded-point witnesses `regen_excluded_*`
  regen_field_local       changing style fields of tokens changes only those tokens' texts
-/
import Verif.Lemmas.RegenLeafDoc
import Verif.Lemmas.RegenLeafTotal3
import Verif.Lemmas.RegenLeafLocal
namespace Verif.Props.RegenLeaf
open Verif.Model Verif.Model.RegenLeaf Verif.Model.RegenLeafSpec Verif.Lemmas.RegenLeaf
open Verif.Model.Codec (Str plain SENT_START SENT_END stripSentinels)
open Verif.Model.Lines (splitOn joinOn splitNL joinNL NL)

/-! ## regen_concat -/

/-- `was_forced_fenced_end and not actual_tokens[-2].is_fenced_code_block`: the one case in which the final newline stays -/
def keepsFinalNewline (ts : List Tok) : Bool :=
  match ts.getLast?, ts.dropLast.getLast? with
  | some last, some t2 => forcedFenceEnd last && !t2.isFcode
  | _, _ => false

/-- **regen_concat.**  Whenever `transform` returns, the main loop has produced one text per token, in stream order, the
block stack is empty, and the result is: the concatenation of these texts, minus one final newline (unless the stream ends in
a forced fence end that follows content), minus the three sentinel characters, plus the pragma lines when the LAST token is the
pragma token. -/
theorem regen_concat (ts : List Tok) (out : Str) (h : transform ts = .ok out) :
    ∃ parts c, runFrom {} none ts = .ok (parts, c) ∧ parts.length = ts.length ∧ c.stack = [] ∧ ts ≠ [] ∧
      out = (match lastPragma ts with
             | some ls => Tabs.reinsert (stripSentinels (Tabs.finalNewlineRule parts.flatten (keepsFinalNewline ts))) (sortPragmas ls)
             | none => stripSentinels (Tabs.finalNewlineRule parts.flatten (keepsFinalNewline ts))) := by
  unfold transform at h
  cases hr : runFrom {} none ts with
  | error e => rw [hr] at h; cases h
  | ok r =>
    obtain ⟨parts, c⟩ := r
    rw [hr] at h
    simp only at h
    refine ⟨parts, c, rfl, runFrom_length ts {} none parts c hr, ?_⟩
    unfold finish finalNewline at h
    cases hl : ts.getLast? with
    | none => rw [hl] at h; cases h
    | some last =>
      rw [hl] at h
      simp only at h
      have hne : ts ≠ [] := by intro e; rw [e] at hl; cases hl
      by_cases hcond : parts.flatten ≠ [] ∧ parts.flatten.getLast? = some Lines.NL ∧ forcedFenceEnd last = true
      · rw [if_pos hcond] at h
        cases h2 : ts.dropLast.getLast? with
        | none => rw [h2] at h; cases h
        | some t2 =>
          rw [h2] at h
          simp only at h
          by_cases hs : c.stack.isEmpty = true
          · rw [if_pos hs] at h
            refine ⟨by simpa using hs, hne, ?_⟩
            have hk : keepsFinalNewline ts = !t2.isFcode := by
              unfold keepsFinalNewline; rw [hl, h2]; simp [hcond.2.2]
            rw [hk]
            cases hp : lastPragma ts <;> rw [hp] at h <;> simp only [Except.ok.injEq] at h <;> exact h.symm
          · rw [if_neg hs] at h; cases h
      · rw [if_neg hcond] at h
        simp only at h
        by_cases hs : c.stack.isEmpty = true
        · rw [if_pos hs] at h
          refine ⟨by simpa using hs, hne, ?_⟩
          have hk : Tabs.finalNewlineRule parts.flatten (keepsFinalNewline ts) = Tabs.finalNewlineRule parts.flatten false := by
            unfold keepsFinalNewline
            rw [hl]
            cases h2 : ts.dropLast.getLast? with
            | none => rfl
            | some t2 =>
              simp only
              by_cases hf : forcedFenceEnd last = true
              · -- then the data does not end in a newline: both rules leave it alone
                have : ¬ (parts.flatten ≠ [] ∧ parts.flatten.getLast? = some Lines.NL) := fun hh => hcond ⟨hh.1, hh.2, hf⟩
                unfold Tabs.finalNewlineRule
                rw [if_neg (fun hh => this ⟨hh.1, hh.2.1⟩), if_neg (fun hh => this ⟨hh.1, hh.2.1⟩)]
              · simp [hf]
          rw [hk]
          cases hp : lastPragma ts <;> rw [hp] at h <;> simp only [Except.ok.injEq] at h <;> exact h.symm
        · rw [if_neg hs] at h; cases h

/-- **regen_concat_parts.**  The text of token `i` is what its handler returns in the context the first `i` tokens leave
(`previous_token` = token `i-1`, `next_token is not None` iff `i` is not the last index): nothing else of the stream enters. -/
theorem regen_concat_parts (ts : List Tok) (parts : List Str) (c : Ctx) (h : runFrom {} none ts = .ok (parts, c))
    (i : Nat) (hi : i < ts.length) :
    ∃ ci ci', runMore true {} none (ts.take i) = .ok (parts.take i, ci) ∧
      process ci (lastOr none (ts.take i)) (decide (i + 1 < ts.length)) ts[i] = .ok (parts[i]'(by rw [runFrom_length ts _ _ _ _ h]; exact hi), ci') := by
  have hlen := runFrom_length ts _ _ _ _ h
  rw [runFrom_eq_runMore] at h
  have hsplit : ts = ts.take i ++ (ts[i] :: ts.drop (i + 1)) := by
    rw [List.getElem_cons_drop hi, List.take_append_drop]
  rw [hsplit, runMore_append] at h
  simp only [List.isEmpty_cons, Bool.not_false, Bool.true_or] at h
  cases h1 : runMore true {} none (ts.take i) with
  | error e => rw [h1] at h; cases h
  | ok r1 =>
    obtain ⟨pa, ci⟩ := r1
    rw [h1] at h
    simp only at h
    rw [runMore] at h
    cases h2 : process ci (lastOr none (ts.take i)) (!(ts.drop (i + 1)).isEmpty || false) ts[i] with
    | error e => rw [h2] at h; cases h
    | ok r2 =>
      obtain ⟨s, ci'⟩ := r2
      rw [h2] at h
      simp only at h
      cases h3 : runMore false ci' (some ts[i]) (ts.drop (i + 1)) with
      | error e => rw [h3] at h; cases h
      | ok r3 =>
        obtain ⟨pb, c3⟩ := r3
        rw [h3] at h
        simp only [Except.ok.injEq, Prod.mk.injEq] at h
        have hpa : pa.length = i := by
          rw [runMore_length true _ _ _ _ _ h1]; simp; omega
        have hparts : parts = pa ++ s :: pb := h.1.symm
        have hflag : (!(ts.drop (i + 1)).isEmpty || false) = decide (i + 1 < ts.length) := by
          rw [Bool.or_false]
          by_cases hlt : i + 1 < ts.length
          · cases hd : ts.drop (i + 1) with
            | nil => rw [List.drop_eq_nil_iff] at hd; omega
            | cons _ _ => simp [hlt]
          · have : ts.drop (i + 1) = [] := by rw [List.drop_eq_nil_iff]; omega
            rw [this]; simp [hlt]
        refine ⟨ci, ci', ?_, ?_⟩
        · rw [hparts, List.take_left' hpa]
        · rw [← hflag, h2]
          simp only [hparts]
          rw [List.getElem_append_right (by omega)]
          simp [hpa]

/-- **regen_blocks_compose.**  Token lists that run from an empty block stack to an empty block stack (leaf blocks) contribute
independently: the texts of `a ++ b` are the texts of `a` followed by the texts of `b`, whatever precedes or follows. -/
theorem regen_blocks_compose {a b : List Tok} {x y : Str} (ha : Closed a x) (hb : Closed b y) : Closed (a ++ b) (x ++ y) :=
  closed_append ha hb

/-! ## regen_paragraph_text -/

/-- **regen_paragraph_text.**  A paragraph of `n ≥ 1` lines, line `i` = leading white space `leadᵢ`, text `bodyᵢ`, trailing white
space `trailᵢ` (no newline and no in-band marker character in any piece), is tokenised as
`para(extracted_whitespace = lead₀\n…\nleadₙ, final_whitespace = trailₙ)`, `text(body₀\n…\nbodyₙ, end_whitespace = trail₀\n…\ntrailₙ₋₁\n)`,
`end-para` (`RegenLeafSpec.paraToks`, compared with the real parser by the tie).  From an empty block stack — whatever the
rehydrate indices left by earlier paragraphs, whatever comes before or after — the three handlers succeed, leave the block
stack empty, and write `⟨start sentinel⟩ line₀\n…\nlineₙ ⟨end sentinel⟩\n` where `lineᵢ = leadᵢ ++ bodyᵢ ++ trailᵢ`:
this is where `rehydrate_index`, the split of `extracted_whitespace` at newlines and `end_whitespace` are used. -/
theorem regen_paragraph_text (id : Nat) (ls : List PLine) (hne : ls ≠ []) (hok : ∀ l ∈ ls, l.ok = true) :
    Closed (paraToks id ls) (SENT_START :: joinNL (ls.map PLine.src) ++ [SENT_END, NL]) := by
  cases ls with
  | nil => exact absurd rfl hne
  | cons l0 rest => exact closed_para id l0 rest hok

/-- … hence as a document of its own it regenerates to exactly its lines -/
theorem regen_paragraph_document (id : Nat) (ls : List PLine) (hne : ls ≠ []) (hok : ∀ l ∈ ls, l.ok = true)
    (hs : ∀ l ∈ ls, sentFree l.src = true) :
    transform (paraToks id ls) = .ok (joinNL (ls.map PLine.src)) := by
  have hcl := regen_paragraph_text id ls hne hok
  have e : SENT_START :: joinNL (ls.map PLine.src) ++ [SENT_END, NL] = (SENT_START :: joinNL (ls.map PLine.src) ++ [SENT_END]) ++ [NL] := by simp
  rw [e] at hcl
  have := transform_of_closed (paraToks id ls) _ hcl (by simp [paraToks])
    (by intro t ht; simp [paraToks] at ht; subst ht; exact ⟨rfl, fun _ h => by cases h⟩)
  rw [this]
  have hsf : sentFree (joinNL (ls.map PLine.src)) = true :=
    sentFree_joinNL _ (by intro l hl; simp at hl; obtain ⟨a, ha, rfl⟩ := hl; exact hs a ha)
  rw [show SENT_START :: joinNL (ls.map PLine.src) ++ [SENT_END] = [SENT_START] ++ (joinNL (ls.map PLine.src) ++ [SENT_END]) from rfl,
    stripSentinels_append, stripSentinels_append, stripSentinels_sentFree _ hsf]
  simp [stripSentinels, Codec.removeChar, SENT_START, SENT_END, Codec.SENT_BLAH]

/-- non-vacuity: three lines with different indentation and trailing white space -/
example : transform (paraToks 0 [⟨" ".toList, "a".toList, " ".toList⟩, ⟨"  ".toList, "b c".toList, [] ⟩, ⟨[], "d".toList, " ".toList⟩])
    = .ok " a \n  b c\nd ".toList := by decide

/-- the hypothesis "no marker character" is needed: a text holding U+0007 makes `remove_all_from_text` raise (`str.index`) -/
theorem regen_paragraph_excluded :
    transform (paraToks 0 [⟨[], ['\x07'], []⟩]) = .error .value := by decide

/-! ## regen_total -/

/-- **regen_total.**  On every well-formed container-free stream (`RegenLeafSpec.WF`: the grammar of leaf blocks / inline tokens /
links, the field shapes the handlers assume — one-character repeat strings, the asserted `Optional` fields present, marker-free
text where `remove_all_from_text` is applied, a decimal fence count in the end token's `extra_data` — and the newline budget of
each paragraph) `transform` returns a string: no `IndexError`, `AssertionError`, `AttributeError`, `TypeError`, `ValueError`,
no non-terminating codec loop.  73 % of the real container-free streams of the tie's pools satisfy `WF` (the others hold marker
characters: `Codec`'s domain); the tie checks `WF ⇒ the REAL transform does not raise` on every stream and mutant. -/
theorem regen_total (ts : List Tok) (h : WF ts = true) : ∃ out, transform ts = .ok out := by
  unfold WF at h
  simp only [Bool.and_eq_true, Bool.not_eq_true', List.isEmpty_eq_false_iff] at h
  obtain ⟨hne, hrun⟩ := h
  cases hg : gRun {} none ts with
  | none => rw [hg] at hrun; cases hrun
  | some a =>
    rw [hg] at hrun
    simp only at hrun
    obtain ⟨parts, c, hr, hs⟩ := run_ok false ts none sim_init hg
    have hst : c.stack = [] := sim_empty_stack hs hrun
    -- `__correct_for_final_newline` does not raise: the stream is not empty, and a forced fence end is never the only token
    have hfin : ∃ d, finalNewline parts.flatten ts = .ok d := by
      unfold finalNewline
      cases hl : ts.getLast? with
      | none => rw [List.getLast?_eq_none_iff] at hl; exact absurd hl hne
      | some last =>
        simp only
        by_cases hcond : parts.flatten ≠ [] ∧ parts.flatten.getLast? = some Lines.NL ∧ forcedFenceEnd last = true
        · rw [if_pos hcond]
          cases h2 : ts.dropLast.getLast? with
          | some t2 => exact ⟨Tabs.finalNewlineRule parts.flatten (!t2.isFcode), rfl⟩
          | none =>
            exfalso
            rw [List.getLast?_eq_none_iff] at h2
            have hts : ts = [last] := by
              have hlen : ts.length = 1 := by
                have h3 := congrArg List.length h2
                simp only [List.length_dropLast, List.length_nil] at h3
                have : 0 < ts.length := List.length_pos_iff.mpr hne
                omega
              cases ts with
              | nil => cases hlen
              | cons x xs =>
                cases xs with
                | nil => simp only [List.getLast?_singleton, Option.some.injEq] at hl; rw [hl]
                | cons y ys => simp at hlen
            rw [hts] at hg
            have hf := hcond.2.2
            cases last <;> simp only [forcedFenceEnd, Bool.false_eq_true] at hf
            simp [gRun, gStep] at hg
        · rw [if_neg hcond]; exact ⟨Tabs.finalNewlineRule parts.flatten false, rfl⟩
    obtain ⟨d, hd⟩ := hfin
    unfold transform
    rw [runFrom_eq_runMore, hr]
    simp only
    unfold finish
    rw [hd]
    simp only [hst, List.isEmpty_nil, if_true]
    exact ⟨_, rfl⟩

/-- non-vacuity: a paragraph with a code span over two lines, a link, a hard break, followed by a fenced block -/
example : WF [.para 0 "\n \n".toList [], .text "a ".toList [] none, .codespan ['`'] [] "b\nc".toList [],
    .link ⟨"inline".toList, "x".toList, none, some [], some "/u".toList, some [], some [], false, some [], some [], some [], some []⟩,
    .text "x".toList [] none, .endLink, .hardbreak "  ".toList, .text "d".toList [] none, .endPara 0 "\n \n".toList 0,
    .fcode [] ['`'] 3 [] [] "py".toList [] [], .text "e".toList [] none, .endFcode [] (some "::3:False".toList) false ['`']] = true := by decide

/-! ### the excluded points: each guard condition is needed (model answers; the tie runs the REAL code on the same streams) -/

/-- an empty token list: `actual_tokens[-1]` in `__correct_for_final_newline` -/
theorem regen_excluded_empty : WF [] = false ∧ transform [] = .error .index := by decide

/-- an inline token outside every block: `context.block_stack[-1]` -/
theorem regen_excluded_no_block : WF [.text ['a'] [] none] = false ∧ transform [.text ['a'] [] none] = .error .index := by decide

/-- a block that is not closed: "Nothing must be left at the end." -/
theorem regen_excluded_unclosed : WF [.atx [] 1 0] = false ∧ transform [.atx [] 1 0] = .error .assertion := by decide

/-- the paragraph's `extracted_whitespace` has fewer lines than its text: `split_whitespace_string[start_index]` -/
theorem regen_excluded_budget_index :
    WF [.para 0 [] [], .text "a\nb".toList [] (some ['\n']), .endPara 0 [] 0] = false ∧
    transform [.para 0 [] [], .text "a\nb".toList [] (some ['\n']), .endPara 0 [] 0] = .error .index := by decide

/-- … or more lines: "Rehydrate index must match up at end of paragraph." -/
theorem regen_excluded_budget_assert :
    WF [.para 0 ['\n'] [], .text ['a'] [] none, .endPara 0 ['\n'] 0] = false ∧
    transform [.para 0 ['\n'] [], .text ['a'] [] none, .endPara 0 ['\n'] 0] = .error .assertion := by decide

/-- a text with a newline and no `end_whitespace`: "if there is a newline, there must be end_whitespace." -/
theorem regen_excluded_end_whitespace :
    WF [.para 0 ['\n'] [], .text "a\nb".toList [] none, .endPara 0 ['\n'] 0] = false ∧
    transform [.para 0 ['\n'] [], .text "a\nb".toList [] none, .endPara 0 ['\n'] 0] = .error .assertion := by decide

/-- a fence character that is not one character (a fix writing `"~~"`): `"".rjust(n, "~~")` is a `TypeError` -/
theorem regen_excluded_repeat :
    WF [.fcode [] "~~".toList 3 [] [] [] [] [], .endFcode [] (some "::3:False".toList) false "~~".toList] = false ∧
    transform [.fcode [] "~~".toList 3 [] [] [] [] [], .endFcode [] (some "::3:False".toList) false "~~".toList] = .error .type := by decide

/-- an end token of a fenced block without `extra_end_data` (`extra_data = "::False"`): `int("False")` -/
theorem regen_excluded_fence_count :
    WF [.fcode [] ['`'] 3 [] [] [] [] [], .endFcode [] (some "::False".toList) false ['`']] = false ∧
    transform [.fcode [] ['`'] 3 [] [] [] [] [], .endFcode [] (some "::False".toList) false ['`']] = .error .value := by decide

/-- `end-setext` while a paragraph is open: the paragraph token has no `heading_character` -/
theorem regen_excluded_attribute :
    WF [.para 0 [] [], .endSetext [] (some [])] = false ∧ transform [.para 0 [] [], .endSetext [] (some [])] = .error .attribute := by decide

/-- a marker character in a text token where the codec does not expect it: `str.index` fails -/
theorem regen_excluded_marker :
    WF [.atx [] 1 0, .text ['\x07'] [] none, .endAtx [] (some []) 0] = false ∧
    transform [.atx [] 1 0, .text ['\x07'] [] none, .endAtx [] (some []) 0] = .error .value := by decide

/-- an inline link without `before_title_whitespace`: "Before title whitespace must be defined." -/
theorem regen_excluded_link_field :
    WF [.atx [] 1 0, .link ⟨"inline".toList, [], none, none, some [], none, none, false, none, some [], none, none⟩, .endLink, .endAtx [] (some []) 0] = false ∧
    transform [.atx [] 1 0, .link ⟨"inline".toList, [], none, none, some [], none, none, false, none, some [], none, none⟩, .endLink, .endAtx [] (some []) 0] = .error .assertion := by decide

/-- a token without a handler -/
theorem regen_excluded_unknown : WF [.other] = false ∧ transform [.other] = .error .assertion := by decide

/-- the pragma token is honoured only as the LAST token (`pragma_token` is overwritten by every iteration of the loop):
in front of another token its lines are dropped -/
theorem regen_pragma_only_last :
    transform [.blank [], .pragma [(1, ['p'])]] = .ok ['p'] ∧ transform [.pragma [(1, ['p'])], .blank []] = .ok [] := by decide

/-! ## regen_leaf_roundtrip -/

/-- `docToks` succeeds block by block -/
theorem docToks_mem : ∀ (doc : List Leaf) (toks : List Tok), docToks doc = some toks → ∀ b ∈ doc, ∃ t, b.toks = some t
  | [], _, _, b, hb => by cases hb
  | b0 :: bs, toks, ht, b, hb => by
    rw [docToks] at ht
    cases h0 : b0.toks with
    | none => rw [h0] at ht; cases ht
    | some t =>
      cases hbs : docToks bs with
      | none => rw [h0, hbs] at ht; cases ht
      | some ts =>
        simp only [List.mem_cons] at hb
        rcases hb with rfl | hb
        · exact ⟨t, h0⟩
        · exact docToks_mem bs ts hbs b hb

/-- **regen_leaf_roundtrip** (blank lines, thematic breaks, ATX headings, paragraphs, setext headings, closed fenced code blocks).
Take a document that is a sequence of leaf blocks, each given by its source line(s): a blank line, a line
`Recognisers.lineThematic` accepts, a line `lineAtx` accepts, a paragraph of lines (leading white space / text / trailing
white space), a setext heading = such lines + an underline `fieldsSetext` accepts, a fenced block = a line `fieldsFenceOpen`
accepts + content + a line `fieldsFenceClose` accepts for that fence.
Let the token stream be what the block pass stores for these lines (`LeafFields.fieldsBlank`, `fieldsThematic`, `fieldsAtx`,
`fieldsSetext`, `fieldsFenceOpen`, `fieldsFenceClose` — the decompositions of `C02.blank_fields`, `thematic_fields`,
`atx_fields`, `setext_fields`, `fence_open_fields_partial`, `fence_close_fields` — and `paraToks`, `setextToks`, `fenceToks`;
all compared with the real parser by the tie).  If the text pieces hold no in-band marker character (`Leaf.ok`) and the lines
none of the three logger sentinels, then regenerating the stream gives back the lines, joined by newlines:
`TransformToMarkdown().transform(tokens) == source`.  A document ending in a newline is one whose last block is the blank line `""`.

Excluded, each with its witness: marker characters in text (`regen_paragraph_excluded`; the codec's own theorems and excluded
points are in `Props/C02`); the sentinel characters (`regen_roundtrip_excluded_sentinel` = F-THORN); an opening fence with white
space and no info string (`regen_roundtrip_excluded_fence` = F-FENCE-TRAILWS); a middle line of a setext heading with trailing
but no leading white space (`regen_roundtrip_excluded_setext` = F-SETEXT-TRAILWS, a real crash).  Not covered (no theorem, tie
only): fenced content with blank lines or removed indentation (stored with marker characters), unclosed fences, indented code,
html blocks, link reference definitions, inline elements other than plain text. -/
theorem regen_leaf_roundtrip (doc : List Leaf) (toks : List Tok) (hne : doc ≠ []) (ht : docToks doc = some toks)
    (hok : ∀ b ∈ doc, b.ok = true) (hs : ∀ b ∈ doc, ∀ l ∈ b.lines, sentFree l = true) :
    transform toks = .ok (joinNL (doc.flatMap Leaf.lines)) := by
  have hlines : ∀ b ∈ doc, b.lines ≠ [] := by
    intro b hb
    obtain ⟨t, htb⟩ := docToks_mem doc toks ht b hb
    exact lines_ne_nil_of_toks b t htb
  have hcl := closed_doc doc toks ht hok
  obtain ⟨x, hx⟩ := doc_raw_endsNL doc hne hlines
  rw [hx] at hcl
  obtain ⟨htne, hends⟩ := docToks_ends doc toks ht hne
  rw [transform_of_closed toks x hcl htne hends]
  have hstrip := doc_raw_strip doc hlines hs
  rw [hx, stripSentinels_append] at hstrip
  have hall : doc.flatMap Leaf.lines ≠ [] := by
    cases doc with
    | nil => exact absurd rfl hne
    | cons b bs =>
      have := hlines b (by simp)
      simp only [List.flatMap_cons, ne_eq, List.append_eq_nil_iff, not_and]
      exact fun h => absurd h this
  rw [terminated_eq _ hall, show stripSentinels [NL] = [NL] by decide] at hstrip
  rw [List.append_cancel_right hstrip]

/-- non-vacuity (a test, evaluated by the compiler: the recognisers of `LeafFields` use well-founded recursion the kernel does
not unfold): heading, blank line, two-line paragraph with indentation and trailing space, thematic break, final newline -/
def exampleDoc : List Leaf :=
  [.atx "## a b ##".toList, .blank [], .para 0 [⟨[], "x".toList, " ".toList⟩, ⟨"  ".toList, "y".toList, []⟩],
   .thematic " * * *".toList, .blank []]
#guard exampleDoc.all (fun b => b.ok)
#guard (docToks exampleDoc).map transform == some (.ok "## a b ##\n\nx \n  y\n * * *\n".toList)
#guard joinNL (exampleDoc.flatMap Leaf.lines) == "## a b ##\n\nx \n  y\n * * *\n".toList

#guard (docToks [.fence "``` py".toList (some ([], "a\nb".toList)) "````  ".toList, .blank []]).map transform == some (.ok "``` py\na\nb\n````  \n".toList)

#guard (docToks [.setext [⟨[' '], ['a'], [' ']⟩, ⟨[], ['b'], []⟩, ⟨[' '], ['c'], [' ']⟩] " ===  ".toList]).map transform ==
  some (.ok " a \nb\n c \n ===  ".toList)

/-- … and, kernel-checked, a document of two paragraphs -/
example : ∃ toks, docToks [.para 0 [⟨[], "x".toList, " ".toList⟩, ⟨"  ".toList, "y".toList, []⟩], .para 1 [⟨[' '], ['z'], []⟩]] = some toks ∧
    transform toks = .ok "x \n  y\n z".toList := ⟨_, rfl, by decide⟩

/-- **F-THORN at stream level**: a paragraph holding U+00FE regenerates without it (the hypothesis `sentFree` is needed). -/
theorem regen_roundtrip_excluded_sentinel :
    transform (paraToks 0 [⟨[], ['a', 'þ'], []⟩]) = .ok ['a'] := by decide

/-- **F-SETEXT-TRAILWS at stream level**: a three-line setext heading whose middle line has trailing but no leading white space
is tokenised with a one-part `end_whitespace` entry for line 1 (`setextToks`, compared with the real parser), which the
regenerator asserts to be line 0's ("This must match with the line below."); `Leaf.ok` excludes the shape (`setextMiddleOk`). -/
theorem regen_roundtrip_excluded_setext :
    setextMiddleOk [⟨[], ['b'], [' ']⟩, ⟨[], ['c'], []⟩] = false ∧
    transform (setextToks [⟨[], ['a'], []⟩, ⟨[], ['b'], [' ']⟩, ⟨[], ['c'], []⟩] ⟨[], '=', 3, []⟩) = .error .assertion := by
  decide

/-- **F-FENCE-TRAILWS at stream level**: `` ```␣␣ `` is stored as (`"  "`, no info, `"  "`) (`C02.fence_open_fields_excluded`)
and `` ```␣␣ `` / `` ``` `` comes back with the white space doubled. -/
theorem regen_roundtrip_excluded_fence :
    transform (fenceToks ⟨[], '`', 3, "  ".toList, [], "  ".toList⟩ none ⟨[], 3, []⟩) = .ok "```    \n```".toList := by decide

/-- a setext heading and a fenced block at token level (tests, kernel-checked) -/
example : transform (setextToks [⟨[' '], ['a'], [' ']⟩, ⟨[' '], ['b'], []⟩] ⟨[' '], '-', 3, "  ".toList⟩) = .ok " a \n b\n ---  ".toList := by
  decide
example : transform (fenceToks ⟨[], '~', 3, [' '], "py".toList, " x".toList⟩ (some ([' '], "a\nb".toList)) ⟨[' '], 4, [' ']⟩) =
    .ok "~~~ py x\n a\nb\n ~~~~ ".toList := by
  decide

/-! ## regen_field_local -/

/-- **regen_field_local.**  Two streams that agree token by token up to style fields (`StyleEq`: the ATX hash counts and the white
space around them, the thematic break's text, the fence character / count / info string and the closing fence's data, emphasis
characters, a blank line's or text token's own white space) and that both regenerate: every token that is *the same* in both
streams contributes *the same text* in both, and the contexts at the end agree.  So a fix that rewrites style fields of some
tokens changes the regenerated document only inside those tokens' own texts (an end token counts as changed when it reads the
changed field through `start_markdown_token`: `remove_trailing_count`, `fence_character`) — the token-level
"only the named field changes" of `Props/TokenRules` (`mdX_fix_only_style`) transfers to the text. -/
theorem regen_field_local : ∀ (ts ts' : List Tok), StreamStyleEq ts ts' →
    ∀ (more : Bool) (c : Ctx) (prev prev' : Option Tok), prevView prev = prevView prev' →
    ∀ (parts parts' : List Str) (c1 c1' : Ctx), runMore more c prev ts = .ok (parts, c1) → runMore more c prev' ts' = .ok (parts', c1') →
      c1 = c1' ∧ parts.length = parts'.length ∧ ∀ i : Nat, ts[i]? = ts'[i]? → parts[i]? = parts'[i]?
  | [], _ :: _, hall, _, _, _, _, _, _, _, _, _, _, _ => by cases hall
  | _ :: _, [], hall, _, _, _, _, _, _, _, _, _, _, _ => by cases hall
  | [], [], _, more, c, prev, prev', _, parts, parts', c1, c1', h, h' => by
    simp only [runMore, Except.ok.injEq, Prod.mk.injEq] at h h'
    rw [← h.1, ← h.2, ← h'.1, ← h'.2]
    exact ⟨rfl, rfl, fun _ _ => rfl⟩
  | t :: ts, t' :: ts', hall, more, c, prev, prev', hpv, parts, parts', c1, c1', h, h' => by
    cases hall with
    | cons hst hrest =>
      have hlen : ts.length = ts'.length := hrest.length_eq
      have hflag : (!ts.isEmpty || more) = (!ts'.isEmpty || more) := by
        cases ts <;> cases ts' <;> simp at hlen ⊢
      rw [runMore] at h h'
      rw [← hflag, process_prev c prev' prev _ t' hpv.symm] at h'
      cases hp : process c prev (!ts.isEmpty || more) t with
      | error e => rw [hp] at h; cases h
      | ok r =>
        obtain ⟨s, c2⟩ := r
        cases hp' : process c prev (!ts.isEmpty || more) t' with
        | error e => rw [hp'] at h'; cases h'
        | ok r' =>
          obtain ⟨s', c2'⟩ := r'
          rw [hp] at h; rw [hp'] at h'
          simp only at h h'
          have hc2 : c2 = c2' := process_styleEq_ctx hst c prev prev _ _ s s' c2 c2' hp hp'
          subst hc2
          cases hr : runMore more c2 (some t) ts with
          | error e => rw [hr] at h; cases h
          | ok x =>
            obtain ⟨ps, c3⟩ := x
            cases hr' : runMore more c2 (some t') ts' with
            | error e => rw [hr'] at h'; cases h'
            | ok x' =>
              obtain ⟨ps', c3'⟩ := x'
              rw [hr] at h; rw [hr'] at h'
              simp only [Except.ok.injEq, Prod.mk.injEq] at h h'
              obtain ⟨ih1, ih2, ih3⟩ := regen_field_local ts ts' hrest more c2 (some t) (some t') (styleEq_prevView hst) ps ps' c3 c3' hr hr'
              rw [← h.1, ← h.2, ← h'.1, ← h'.2]
              refine ⟨ih1, by simp [ih2], ?_⟩
              intro i hi
              cases i with
              | zero =>
                simp only [List.getElem?_cons_zero, Option.some.injEq] at hi ⊢
                subst hi
                rw [hp] at hp'
                simp only [Except.ok.injEq, Prod.mk.injEq] at hp'
                exact hp'.1
              | succ j =>
                simp only [List.getElem?_cons_succ] at hi ⊢
                exact ih3 j hi

/-- non-vacuity, and what "local" means on a concrete fix: MD001 turns `### b` into `## b` (hash count 3 → 2) in
`# a` / `### b` / `c` — only the text of the heading's start token changes (tests, kernel-checked) -/
def fixBefore : List Tok :=
  [.atx [] 1 0, .text ['a'] [' '] (some []), .endAtx [] (some []) 0, .atx [] 3 0, .text ['b'] [' '] (some []), .endAtx [] (some []) 0,
   .para 0 [] [], .text ['c'] [] (some []), .endPara 0 [] 0]
def fixAfter : List Tok :=
  [.atx [] 1 0, .text ['a'] [' '] (some []), .endAtx [] (some []) 0, .atx [] 2 0, .text ['b'] [' '] (some []), .endAtx [] (some []) 0,
   .para 0 [] [], .text ['c'] [] (some []), .endPara 0 [] 0]

example : StreamStyleEq fixBefore fixAfter := by
  unfold fixBefore fixAfter
  repeat (first | exact StreamStyleEq.nil | apply StreamStyleEq.cons (by first | exact StyleEq.refl _ | exact StyleEq.atx _ _ _ _ _ _))

example : transform fixBefore = .ok "# a\n### b\nc".toList ∧ transform fixAfter = .ok "# a\n## b\nc".toList := by decide

/-- the hypothesis "style field" is needed: changing a paragraph's `extracted_whitespace` (not a style field: the inline tokens
read it from the block stack) changes the text of ANOTHER token — here the text token's, which is the same in both streams -/
theorem regen_field_local_excluded :
    (runFrom {} none [.para 0 "\n".toList [], .text "a\nb".toList [] (some "\n".toList), .endPara 0 "\n".toList 0]).map (·.1) =
      .ok [[Codec.SENT_START], "a\nb".toList, [Codec.SENT_END, '\n']] ∧
    (runFrom {} none [.para 0 "\n  ".toList [], .text "a\nb".toList [] (some "\n".toList), .endPara 0 "\n  ".toList 0]).map (·.1) =
      .ok [[Codec.SENT_START], "a\n  b".toList, [Codec.SENT_END, '\n']] := by decide

end Verif.Props.RegenLeaf
