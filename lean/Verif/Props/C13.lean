/-
  C13 — results for a file do not depend on which files were processed before it.
  Engine part: for rules whose `starting_new_file` is a total reset (table
  `Verif.Gen.RuleFields`, checked separately) the output of every file in a multi-file
  run equals the output of that file processed alone.
-/
import Verif.Lemmas.History
import Verif.Model.RuleTable
import Verif.Gen.RuleFields
namespace Verif.Props.C13
open Verif.Model.Engine
variable {τ : Type}

/-- One file: printed failures and error status are independent of the engine state left by
any earlier files. -/
theorem file_history_independent (rs : List (Rule τ)) (h : AllHistoryFree rs) (ss ss' : States rs)
    (f : FileIn τ) : (scanFile rs ss f).2 = (scanFile rs ss' f).2 :=
  scanFile_indep rs h ss ss' f

/-- A whole run with `--continue-on-error` (or without any error): the per-file outputs are
exactly the outputs of each file scanned alone from the initial state `ss₀`. -/
theorem run_history_independent (rs : List (Rule τ)) (h : AllHistoryFree rs) (ss₀ : States rs) :
    ∀ (fs : List (FileIn τ)) (ss : States rs),
    (scanFiles rs true ss fs).2.files = fs.map fun f => (scanFile rs ss₀ f).2
  | [], _ => rfl
  | f :: fs, ss => by
    simp only [scanFiles, Bool.not_true, Bool.and_false, Bool.false_eq_true, if_false, List.map_cons]
    rw [run_history_independent rs h ss₀ fs, scanFile_indep rs h ss ss₀ f]

/-- Without continue-on-error the run is a prefix of the same list: every file that is
processed at all gives the output it gives alone. -/
theorem run_prefix_history_independent (rs : List (Rule τ)) (h : AllHistoryFree rs) (ss₀ : States rs) :
    ∀ (fs : List (FileIn τ)) (ss : States rs),
    (scanFiles rs false ss fs).2.files <+: fs.map fun f => (scanFile rs ss₀ f).2
  | [], _ => List.prefix_refl _
  | f :: fs, ss => by
    simp only [scanFiles, Bool.not_false, Bool.and_true, List.map_cons]
    rw [scanFile_indep rs h ss ss₀ f]
    split
    · exact List.prefix_cons_inj _ |>.mpr (List.nil_prefix)
    · exact List.prefix_cons_inj _ |>.mpr (run_prefix_history_independent rs h ss₀ fs _)

/-- The failure counter only sums what was printed (no other carry-over). -/
theorem counters_additive (rs : List (Rule τ)) (cont : Bool) (fs : List (FileIn τ)) (ss : States rs) :
    (scanFiles rs cont ss fs).2.failures = ((scanFiles rs cont ss fs).2.files.map (·.printed.length)).sum := by
  induction fs generalizing ss with
  | nil => rfl
  | cons f fs ih =>
    unfold scanFiles
    by_cases h : ((scanFile rs ss f).2.err.isSome && !cont) = true
    · simp [h]
    · simp only [h, Bool.false_eq_true, if_false, List.map_cons, List.sum_cons]; rw [ih]

/-- Pragmas are per file by construction: `scanFile` reads only `f.pragmas`. The witness that the
hypothesis is needed: a rule whose `starting_new_file` keeps a counter is history dependent. -/
abbrev leakyRule : Rule Unit :=
  { id := "ZZZ000", σ := Nat, hasStart := false, hasToken := false, hasLine := true, hasDone := false,
    onStart := fun s => (s, true), onToken := fun s _ => (s, some []),
    onLine := fun s n _ => (s + 1, some (if s = 0 then [] else [⟨n, 1, "ZZZ000", ""⟩])),
    onDone := fun s _ => (s, some []) }

theorem reset_needed_witness :
    (scanFile [leakyRule] ((⟨(0 : Nat), []⟩ : Comp leakyRule), ()) ⟨some [], ["x"], Pragmas.none⟩).2.printed.length ≠
    (scanFile [leakyRule] ((⟨(1 : Nat), []⟩ : Comp leakyRule), ()) ⟨some [], ["x"], Pragmas.none⟩).2.printed.length := by
  simp [scanFile, dispatch, stepOne, runEvents, bodyEvents, lineEvents, leakyRule, Rule.handles, Rule.call,
    printed, sortReps, Acc.empty, Pragmas.suppressed, Pragmas.none]

end Verif.Props.C13

/-! ### Code side: the reset table regenerated from the rule sources -/
namespace Verif.Props.C13
open Verif.Model.RuleTable Verif.Gen.RuleFields

/-- The (rule, field) pairs that are written during a file but not re-assigned by
`starting_new_file` are exactly the reviewed baseline — every other state field of every rule is
reset at the start of each file. -/
theorem exceptions_pinned : unresetPairs rows = Baseline.resetExceptions := by decide +kernel

/-- No `starting_new_file` computes its reset from leftover state (every reset is a constant reset). -/
theorem reset_rhs_const : (rows.flatMap (·.resetNonConst)) = [] := by decide +kernel

/-- A rule that does not override `starting_new_file` keeps no per-file state at all. -/
theorem no_start_no_state : (rows.filter fun r => isRule r && !r.hasStart && !r.written.isEmpty).map (·.id) = [] := by
  decide +kernel

/-- All 46+ rule classes are in the table (a rule file the translator cannot read is an error). -/
theorem table_covers_rules : 46 ≤ (rows.filter isRule).length := by decide +kernel

end Verif.Props.C13
