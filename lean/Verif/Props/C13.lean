/-
  C13 — results for a file do not depend on which files were processed before it.
  Engine part: for rules whose `starting_new_file` is a total reset (table
  `Verif.Gen.RuleFields`, checked separately) the output of every file in a multi-file
  run equals the output of that file processed alone.
-/
import Verif.Lemmas.History
import Verif.Model.RuleTable
import Verif.Gen.RuleFields
import Verif.Model.ParserStaticsTable
import Verif.Gen.ParserStatics
import Verif.Lemmas.StaticsHistory
namespace Verif.Props.C13
open Verif.Model.Engine
variable {τ : Type}

/-- One file: printed failures and error status are independent of the engine state left by
any earlier files. -/
theorem file_history_independent (rs : List (Rule τ)) (h : AllHistoryFree rs) (ss ss' : States rs)
    (f : FileIn τ) : (scanFile rs ss f).2 = (scanFile rs ss' f).2 :=
  scanFile_indep rs h ss ss' f

/-- A whole run with `--continue-on-error` (or without any error): the per-file outputs are
exactly the outputs of each file scanned alone from the initial state `ss₀`. -/
theorem run_history_independent (rs : List (Rule τ)) (h : AllHistoryFree rs) (ss₀ : States rs) :
    ∀ (fs : List (FileIn τ)) (ss : States rs),
    (scanFiles rs true ss fs).2.files = fs.map fun f => (scanFile rs ss₀ f).2
  | [], _ => rfl
  | f :: fs, ss => by
    simp only [scanFiles, Bool.not_true, Bool.and_false, Bool.false_eq_true, if_false, List.map_cons]
    rw [run_history_independent rs h ss₀ fs, scanFile_indep rs h ss ss₀ f]

/-- Without continue-on-error the run is a prefix of the same list: every file that is
processed at all gives the output it gives alone. -/
theorem run_prefix_history_independent (rs : List (Rule τ)) (h : AllHistoryFree rs) (ss₀ : States rs) :
    ∀ (fs : List (FileIn τ)) (ss : States rs),
    (scanFiles rs false ss fs).2.files <+: fs.map fun f => (scanFile rs ss₀ f).2
  | [], _ => List.prefix_refl _
  | f :: fs, ss => by
    simp only [scanFiles, Bool.not_false, Bool.and_true, List.map_cons]
    rw [scanFile_indep rs h ss ss₀ f]
    split
    · exact List.prefix_cons_inj _ |>.mpr (List.nil_prefix)
    · exact List.prefix_cons_inj _ |>.mpr (run_prefix_history_independent rs h ss₀ fs _)

/-- The failure counter only sums what was printed (no other carry-over). -/
theorem counters_additive (rs : List (Rule τ)) (cont : Bool) (fs : List (FileIn τ)) (ss : States rs) :
    (scanFiles rs cont ss fs).2.failures = ((scanFiles rs cont ss fs).2.files.map (·.printed.length)).sum := by
  induction fs generalizing ss with
  | nil => rfl
  | cons f fs ih =>
    unfold scanFiles
    by_cases h : ((scanFile rs ss f).2.err.isSome && !cont) = true
    · simp [h]
    · simp only [h, Bool.false_eq_true, if_false, List.map_cons, List.sum_cons]; rw [ih]

/-- Pragmas are per file by construction: `scanFile` reads only `f.pragmas`. The witness that the
hypothesis is needed: a rule whose `starting_new_file` keeps a counter is history dependent. -/
abbrev leakyRule : Rule Unit :=
  { id := "ZZZ000", σ := Nat, hasStart := false, hasToken := false, hasLine := true, hasDone := false,
    onStart := fun s => (s, true), onToken := fun s _ => (s, some []),
    onLine := fun s n _ => (s + 1, some (if s = 0 then [] else [⟨n, 1, "ZZZ000", ""⟩])),
    onDone := fun s _ => (s, some []) }

theorem reset_needed_witness :
    (scanFile [leakyRule] ((⟨(0 : Nat), []⟩ : Comp leakyRule), ()) ⟨some [], ["x"], Pragmas.none⟩).2.printed.length ≠
    (scanFile [leakyRule] ((⟨(1 : Nat), []⟩ : Comp leakyRule), ()) ⟨some [], ["x"], Pragmas.none⟩).2.printed.length := by
  simp [scanFile, dispatch, stepOne, runEvents, bodyEvents, lineEvents, leakyRule, Rule.handles, Rule.call,
    printed, sortReps, Acc.empty, Pragmas.suppressed, Pragmas.none]

end Verif.Props.C13

/-! ### Code side: the reset table regenerated from the rule sources -/
namespace Verif.Props.C13
open Verif.Model.RuleTable Verif.Gen.RuleFields

/-- The (rule, field) pairs that are written during a file but not re-assigned by
`starting_new_file` are exactly the reviewed baseline — every other state field of every rule is
reset at the start of each file. -/
theorem exceptions_pinned : unresetPairs rows = Baseline.resetExceptions := by decide +kernel

/-- No `starting_new_file` computes its reset from leftover state (every reset is a constant reset). -/
theorem reset_rhs_const : (rows.flatMap (·.resetNonConst)) = [] := by decide +kernel

/-- A rule that does not override `starting_new_file` keeps no per-file state at all. -/
theorem no_start_no_state : (rows.filter fun r => isRule r && !r.hasStart && !r.written.isEmpty).map (·.id) = [] := by
  decide +kernel

/-- All 46+ rule classes are in the table (a rule file the translator cannot read is an error). -/
theorem table_covers_rules : 46 ≤ (rows.filter isRule).length := by decide +kernel

end Verif.Props.C13

/-! ### Code side: statics of the parser and of the application shell

`Verif.Gen.ParserStatics.rows` is regenerated from the sources on every run: one row per class-level /
module-level mutable binding or written class attribute / module global, and per instance attribute of
the long-lived objects (tokenizer, parse properties, plug-in manager, extension manager, file-scan helper,
application object, API object, parser loggers, extensions …). -/
namespace Verif.Props.C13
open Verif.Model.ParserStaticsTable Verif.Gen.ParserStatics
open Verif.Lemmas.StaticsHistory

/-- Every piece of long-lived parser / shell state is constant while documents are processed, or is
re-bound unconditionally at the start of every per-document entry function, or is one of the reviewed
baseline exceptions (with exactly the reviewed set of writers). -/
theorem statics_reset :
    ∀ r ∈ rows, r.constant = true ∨ r.resetOnDocPath = true ∨ r.key ∈ Baseline.exceptions := by
  decide +kernel

/-- The statics that are written on the per-document path without a per-document reset are exactly the
reviewed baseline — nothing new, nothing dropped, no writer added or removed. -/
theorem statics_exceptions_pinned : exceptionKeys rows = Baseline.exceptions := by decide +kernel

/-- The statics that are re-initialised at the start of every document are exactly the reviewed list: a reset that
is dropped, made conditional, or moved behind the first use of the state (e.g. `pragma_lines = {}` moved from the
start of the block pass to its end) removes an entry. -/
theorem statics_resets_pinned : resetIds rows = Baseline.resetOnDocPath := by decide +kernel

/-- The statics written by configuration-time code only are exactly the reviewed list (a write that moves
onto the per-document path, or a new configuration-time writer, changes it). -/
theorem statics_config_pinned : configKeys rows = Baseline.configurationWritten := by decide +kernel

/-- The generated table is internally consistent (`constant` ⇔ no writer on the per-document path). -/
theorem statics_wellFormed : rows.all Row.wellFormed = true := by decide +kernel

/-- Coverage: the table is not empty, the owners the property names are present, all of them are analysed
as long-lived objects, and the application reaches the per-document entry functions only through the
reviewed call sites of `FileScanHelper`. -/
theorem statics_coverage :
    150 ≤ rows.length ∧ Baseline.keyOwners.all ((owners rows).contains ·) = true ∧
    (["TokenizedMarkdown", "ParseBlockPassProperties", "PluginManager", "ExtensionManager", "FileScanHelper",
      "PyMarkdownLint", "PyMarkdownApi", "ParserLogger"].all (longLived.contains ·)) = true ∧
    Baseline.entryCallers.all (entryCallers.contains ·) = true := by
  decide +kernel

/-- Non-vacuity: the statics the property names are in the table and ARE reset per document (so a dropped
reset changes a row that exists). -/
example : ("ParseBlockPassProperties", "pragma_lines") ∈ resetIds rows ∧
    ("LinkParseHelper", "__link_definitions") ∈ resetIds rows ∧
    ("InlineHandlerHelper", "__inline_character_handlers") ∈ resetIds rows ∧
    ("EmphasisHelper", "__inline_emphasis") ∈ resetIds rows ∧
    ("PluginManager", "__document_pragmas") ∈ resetIds rows ∧
    ("PluginManager", "__document_pragma_ranges") ∈ resetIds rows ∧
    ("TokenizedMarkdown", "__token_stack") ∈ resetIds rows ∧
    ("TokenizedMarkdown", "__tokenized_document") ∈ resetIds rows := by decide +kernel

/-- What the classification buys: take the table's keys as the state space of one process, the rows'
classification as the three key sets, and ANY per-document body that (a) leaves the constant keys alone and
(b) whose output does not read the exception keys.  Then the output for a document after any history of
documents equals its output from the initial state.  (a) and (b) are the reviewed arguments of the
baseline, cross-checked dynamically by the state snapshots of `tools/props/c13.py`; that the three sets
cover every key is `statics_reset`. -/
def tableShell {V D O : Type} (init : {k // k ∈ rows.map Row.id} → V)
    (body : ({k // k ∈ rows.map Row.id} → V) → D → ({k // k ∈ rows.map Row.id} → V) × O) :
    Shell {k // k ∈ rows.map Row.id} V D O :=
  { constK := (rows.map Row.id).attach.filter fun k => (rows.filter (·.constant)).map Row.id |>.contains k.1
    resetK := (rows.map Row.id).attach.filter fun k => (rows.filter (·.resetOnDocPath)).map Row.id |>.contains k.1
    excK := (rows.map Row.id).attach.filter fun k => (rows.filter Row.needsException).map Row.id |>.contains k.1
    init := init, body := body }

theorem tableShell_covered {V D O : Type} (init) (body) : (tableShell (V := V) (D := D) (O := O) init body).Covered := by
  intro ⟨k, hk⟩
  simp only [tableShell, List.mem_filter, List.mem_attach, true_and, List.contains_iff_mem, List.mem_map]
  obtain ⟨r, hr, rfl⟩ := List.mem_map.mp hk
  by_cases hc : r.constant = true
  · exact Or.inl ⟨r, ⟨hr, hc⟩, rfl⟩
  · by_cases hd : r.resetOnDocPath = true
    · exact Or.inr (Or.inl ⟨r, ⟨hr, hd⟩, rfl⟩)
    · exact Or.inr (Or.inr ⟨r, ⟨hr, by simp [Row.needsException, hc, hd]⟩, rfl⟩)

theorem parser_state_history_free {V D O : Type} (init) (body)
    (hconst : (tableShell (V := V) (D := D) (O := O) init body).PreservesConst)
    (hread : (tableShell (V := V) (D := D) (O := O) init body).OutputIgnores)
    (s₀ : {k // k ∈ rows.map Row.id} → V) (history : List D) (d : D) :
    ((tableShell init body).doc ((tableShell init body).after s₀ history) d).2 = ((tableShell init body).doc s₀ d).2 :=
  Shell.doc_history_free _ (tableShell_covered init body) hconst hread s₀ history d

end Verif.Props.C13
