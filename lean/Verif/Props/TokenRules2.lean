import Verif.Props.TokenRules2.Md023
import Verif.Props.TokenRules2.Md030
import Verif.Props.TokenRules2.Md037
import Verif.Props.TokenRules2.Md044
import Verif.Props.TokenRules2.Md046
import Verif.Props.TokenRules2.InterfereRows
import Verif.Props.TokenRules2.Interfere
/-!
  Property theorems about the faithful models of five more token-driven fix-capable rules over the extended token `Tok2`
  (`Model/TokenRules/Basic2.lean`): MD023 heading-start-left, MD030 list-marker-space (scan AND fix), MD037 no-space-in-emphasis,
  MD044 proper-names, MD046 code-block-style — H1 / H2 of C09, the token-level statement of C08, C06's "verdict = documented condition".

  One file per rule under `Props/TokenRules2/` (namespace `Verif.Props.TokenRules2`), each with the theorem set of the nine rules of
  `Props/TokenRules.lean`: `mdX_scan_iff`, `mdX_faithful_eq_spec` (or `_partial` + witness), `mdX_fix_removes_trigger` (or the proved
  counter-example `mdX_fix_keeps_trigger`), `mdX_fix_idempotent` (or `…_not_idempotent`), `mdX_fix_only_style`, `mdX_fix_ok`,
  `mdX_scan_reads`; the generic theory of replacement records (`repl_applyFixes2_*`) sits with MD046, the only rule that uses them.
  `InterfereRows.lean` (generated) + `Interfere.lean`: the interference table of the fourteen modelled fixers.
  `Lemmas/TokenRules/Lift.lean`: `scan2_lift`, `fix2_lift` — the nine old rules run unchanged on the extended tokens.
-/
