/-
  C08 — fix mode preserves meaning.  Part 1: the machinery that writes lines back.
  (`PluginManager.next_line` / `__next_line_fix_mode_end` in fix mode, model `Verif.Model.FixSched`.)
  Part 2 (content of the individual fixers, fingerprint through the reference renderer) is in the
  correspondence of tools/props/c08.py.
-/
import Verif.Lemmas.LinePass
namespace Verif.Props.C08
open Verif.Model.FixSched

/-- **Every line is written exactly once** (current code): the output gains the (possibly
rewritten) line and, unless it is the last line, one newline — for every rule set and level. -/
theorem fix_writes_every_line_once (k : Nat) (rs : List XRule) (o : Out) (n : Nat) (line : String)
    (isLast : Bool) :
    (nextLine k rs o n line isLast).written =
      o.written ++ (rs.foldl (lineStep k n) ⟨line, true, 0, [], []⟩).line ++ (if isLast then "" else "\n") :=
  nextLine_written_fix false k rs o n line isLast (fun h => by cases h)

/-- **Identity of the line pass**: when no fix-list rule rewrites a line, the temporary output is
character for character the document that was read, and no fix record exists (so nothing is
copied back). -/
theorem linePass_id (k : Nat) (rs : List XRule) (hn : NoLineFix k rs) (ls : List String) :
    (linesLoop k rs ⟨"", none, 0, [], []⟩ 1 ls).written = joinLines ls ∧
    (linesLoop k rs ⟨"", none, 0, [], []⟩ 1 ls).records = 0 := by
  have := linesLoop_written_id false k rs (fun h => by cases h) hn ls ⟨"", none, 0, [], []⟩ 1
  simpa using this

/-! ### The repaired defect F-ENG, kept as a model (`rebind = true` = the code as pinned)

In the pinned code the loop variable `context` was re-bound to the context of the last mapped
plug-in; if that is a *collect-list* rule (report context), `__next_line_fix_mode_end` was skipped
for every line and the temporary output stayed empty.  Repaired by the `fix:` commit recorded in
known_findings.json; the correspondence now runs against `rebind = false`. -/

theorem pinned_every_line_once_partial (k : Nat) (rs : List XRule) (o : Out) (n : Nat) (line : String)
    (isLast : Bool) (h : endCtx k rs = true) :
    (nextLineG true k rs o n line isLast).written =
      o.written ++ (rs.foldl (lineStep k n) ⟨line, true, 0, [], []⟩).line ++ (if isLast then "" else "\n") :=
  nextLine_written_fix true k rs o n line isLast (fun _ => h)

theorem pinned_fix_line_loss (k : Nat) (rs : List XRule) (h : endCtx k rs = false) (ls : List String) :
    (linesLoopG true k rs ⟨"", none, 0, [], []⟩ 1 ls).written = "" :=
  linesLoop_written_report k rs h ls _ 1

/-- Concrete witness: a level-0 fixer and a level-2 fix-capable rule with `next_line` whose id sorts
after it.  (Executable checks at build time.) -/
def wA : XRule := ⟨"VPA001", 0, true, false, false, true, false, fun _ => false,
  fun l => l == "aa", fun l => if l == "aa" then some "bb" else none, fun _ => none⟩
def wZ : XRule := ⟨"ZZZ999", 2, true, false, false, true, false, fun _ => false, fun _ => false, fun _ => none, fun _ => none⟩
#guard endCtx 0 [wA, wZ] == false
#guard (passG true 0 [wA, wZ] (fun _ => []) "aa\nzz" none).content == ""     -- pinned: truncated to 0 bytes …
#guard (passG true 0 [wA, wZ] (fun _ => []) "aa\nzz" none).changed           -- … and announced as fixed
#guard (pass 0 [wA, wZ] (fun _ => []) "aa\nzz" none).content == "bb\nzz"     -- repaired

/-- When the rule set has no fix-capable rule with `next_line` above the current level, the loop
always ends on the fix context — the situation of the built-in rule set at every level it visits
(checked against the regenerated rule metadata by tools/props/c08.py). -/
theorem endCtx_of_no_higher_line_rule (k : Nat) (rs : List XRule)
    (h : ∀ r ∈ rs, r.hasLine = true → bindOf k r ≠ some .report) : endCtx k rs = true := by
  unfold endCtx
  have : ∀ (rs : List XRule) (b : Bool), b = true →
      (∀ r ∈ rs, r.hasLine = true → bindOf k r ≠ some .report) → endCtxFrom k b rs = true := by
    intro rs
    induction rs with
    | nil => intro b hb _; simpa [endCtxFrom] using hb
    | cons r rs ih =>
      intro b hb hr
      simp only [endCtxFrom, List.foldl_cons]
      apply ih
      · by_cases hl : r.hasLine = true
        · simp only [hl, if_true]
          cases hbind : bindOf k r with
          | none => exact hb
          | some x =>
            cases x with
            | fix => rfl
            | report => exact absurd hbind (hr r List.mem_cons_self hl)
        · simp [hl, hb]
      · exact fun r' hr' => hr r' (List.mem_cons_of_mem _ hr')
  exact this rs true rfl h

end Verif.Props.C08
