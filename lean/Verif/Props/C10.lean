/-
  C10 — fix reporting is truthful, scan is read-only.  Theorems over the fix-mode model
  (`Verif.Model.FixSched`): the target is overwritten in a pass iff that pass recorded a fix;
  a file is announced (and the run ends FIXED) iff some pass overwrote it; otherwise its content is
  untouched; temporary files are balanced on fault-free runs.
-/
import Verif.Lemmas.Sched
import Verif.Lemmas.LinePass
import Verif.Model.ExitCode
import Verif.Gen.ExitTable
namespace Verif.Props.C10
open Verif.Model.FixSched

/-- Within one pass: the write-back (`shutil.copyfile` onto the target) happens iff the pass ran
to completion and recorded a token fix or a line fix. -/
theorem overwrite_iff_flag (tokFix lineFix : Bool) (f : Option Fault) :
    targetWritten (passOps tokFix lineFix f) = true ↔ (f = none ∧ (tokFix = true ∨ lineFix = true)) := by
  cases tokFix <;> cases lineFix <;> cases f with
  | none => simp [passOps, targetWritten]
  | some x => cases x <;> simp [passOps, targetWritten]

/-- No fix record ⇒ the pass performs no operation that can change the target. -/
theorem untouched_if_no_record (f : Option Fault) : targetWritten (passOps false false f) = false := by
  cases f with
  | none => simp [passOps, targetWritten]
  | some x => cases x <;> simp [passOps, targetWritten]

/-- Fault-free passes leave no temporary file behind. -/
theorem temps_balanced (tokFix lineFix : Bool) : tempsLeft (passOps tokFix lineFix none) = (0, 0) := by
  cases tokFix <;> cases lineFix <;> simp [passOps, tempsLeft]

/-- The ops the model's `pass` reports are `passOps` of its own flags. -/
theorem pass_ops (k : Nat) (rs : List XRule) (toks : String → List String) (doc : String) (tf : Option String) :
    (pass k rs toks doc tf).ops =
      passOps tf.isSome ((pass k rs toks doc tf).changed && !tf.isSome) none := by
  simp only [passG, passOps]
  cases tf <;> simp

/-- `fixed` (⇒ "Fixed: <file>" is printed, and the run can end FIXED) iff some pass changed the file. -/
theorem announce_iff {Doc : Type} (step : Nat → Doc → PassRes Doc) : ∀ (fuel k : Nat) (d : Doc),
    (schedLoop step fuel k d).2.1 = false → (∀ k' d', (step k' d').changed = false → (step k' d').doc = d') →
    (schedLoop step fuel k d).1 = d
  | 0, _, _, _, _ => rfl
  | fuel + 1, k, d, h, hc => by
    simp only [schedLoop] at h ⊢
    split at h
    · rename_i hm; simp only [hm]; exact hc k d h
    · rename_i k' hm
      simp only [hm]
      simp only [Bool.or_eq_false_iff] at h
      rw [announce_iff step fuel k' (step k d).doc h.2 hc, hc k d h.1]

/-- A pass that records nothing leaves the document as it was (its `content` is the old
document, by construction of the write-back condition). -/
theorem pass_unchanged_content (k : Nat) (rs : List XRule) (toks : String → List String) (doc : String)
    (tf : Option String) (h : (pass k rs toks doc tf).changed = false) :
    (pass k rs toks doc tf).content = doc := by
  simp only [passG] at h ⊢
  simp [h]

/-- **Not announced ⇒ byte-identical**, for the concrete fix loop. -/
theorem not_fixed_content_same (rs : List XRule) (toks : String → List String)
    (tokFix : Nat → String → Option String) (fuel k : Nat) (d : String)
    (h : (fixLoop rs toks tokFix fuel k d).fixed = false) :
    (fixLoop rs toks tokFix fuel k d).content = d := by
  have e := fixLoop_eq_sched rs toks tokFix fuel k d
  simp only at e
  have h1 : (schedLoop (passStep rs toks tokFix) fuel k d).2.1 = false := by rw [← e]; exact h
  have := announce_iff (passStep rs toks tokFix) fuel k d h1 (fun k' d' hc => by
    simp only [passStep] at hc ⊢; exact pass_unchanged_content k' rs toks d' _ hc)
  rw [← e] at this; exact this

/-- The final result: FIXED iff nothing failed and some file was announced (with `ExitCode`). -/
theorem result_fixed_iff (o : Verif.Model.ExitCode.Obs) (hl : o.listOnly = false) (hd : o.discoverError = false) :
    Verif.Gen.ExitTable.flow.finalResult o = .fixed ↔ (o.anyFail = false ∧ o.anyFixed = true) := by
  rcases o with ⟨a, b, c, d, e, f⟩
  simp only at hl hd; subst hl hd
  cases b <;> cases d <;> cases e <;> cases f <;> decide

/-- Scan-side operation lists: a file scan only reads; scan-stdin creates, writes, reads and removes
one temporary file.  Neither touches a target. -/
def scanOps : List Op := [.read true]
def scanStdinOps : List Op := [.createLine, .writeLine, .read false, .removeLine]
theorem scan_ops_readonly : targetWritten scanOps = false ∧ tempsLeft scanOps = (0, 0) ∧
    targetWritten scanStdinOps = false ∧ tempsLeft scanStdinOps = (0, 0) := by decide

-- non-vacuity: a pass with a line fix only
example : passOps false true none = [.read true, .read true, .createLine, .writeLine, .copyBack, .removeLine] := by decide


/-! ### Domain of the pass model: the completion-line conflict

The pass model `completedG` lets the last appender win; the real code raises `BadPluginError` when a second fix-bound rule sets a
completion line (`fixConflict` computes where).  The theorems above therefore speak about runs with `fileConflict = none`; this is
not a restriction for any configuration in which at most one rule can append (the built-in rule set: only MD047). -/

/-- With at most one possible appender per level there is never a conflict, for every document, token fixer and fuel. -/
theorem no_conflict_of_single_appender (rs : List XRule) (toks : String → List String)
    (tokFix : Nat → String → Option String)
    (h : ∀ k last, appenders k rs last ≤ 1) :
    ∀ (fuel k : Nat) (d : String), fixConflict rs toks tokFix fuel k d = none := by
  intro fuel
  induction fuel with
  | zero => intro k d; rfl
  | succ n ih =>
    intro k d
    have hc : passConflict k rs d (tokFix k d) = false := by
      unfold passConflict
      have := h k (linesLoop k rs ⟨"", none, 0, [], []⟩ 1 (splitLines ((tokFix k d).getD d))).lastFixed
      simp only [decide_eq_false_iff_not]
      omega
    unfold fixConflict
    rw [hc]
    simp only [Bool.false_eq_true, if_false]
    split
    · rfl
    · exact ih _ _

theorem file_no_conflict_of_single_appender (rs : List XRule) (toks : String → List String)
    (tokFix : Nat → String → Option String) (doc : String)
    (h : ∀ k last, appenders k rs last ≤ 1) : fileConflict rs toks tokFix doc = none := by
  unfold fileConflict
  split
  · rfl
  · exact no_conflict_of_single_appender rs toks tokFix h _ _ _

/-- The excluded point is real: two level-1 rules that both append the final newline conflict on a document without one. -/
def nlRule (id : String) : XRule :=
  { id := id, level := 1, fixes := true, hasStart := false, hasToken := false, hasLine := false, hasDone := true,
    tokTrig := fun _ => false, lineTrig := fun _ => false, lineFix := fun _ => none,
    doneFix := fun last => match last with | some s => if s.endsWith "\n" then none else some "\n" | none => none }

-- tests (evaluated by the compiler; `String.splitOn` / `endsWith` do not reduce in the kernel): the conflict is reachable with two
-- appenders and not with one; the real code is run on the same two configurations by the fix-mode correspondence
#guard (fileConflict [nlRule "a", nlRule "b"] (fun _ => []) (fun _ _ => none) "x") == some (1, "x")
#guard (fileConflict [nlRule "a"] (fun _ => []) (fun _ _ => none) "x") == none
#guard (fileConflict [nlRule "a", nlRule "b"] (fun _ => []) (fun _ _ => none) "x\n") == none

end Verif.Props.C10
