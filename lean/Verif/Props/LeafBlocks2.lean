/-
  LeafBlocks2 — property theorems (C03, C01, C02): HTML-block start / end conditions, content lines of fenced and
  indented code blocks.  Models: `Verif.Model.LeafBlocks2` (faithful), `Verif.Model.HtmlBlockSpec` (from the
  specification).  Lemmas: `Verif.Lemmas.LeafBlocks2*`.
-/
import Verif.Lemmas.LeafBlocks2Start
import Verif.Lemmas.LeafBlocks2Code
namespace Verif.Props.LeafBlocks2
open Verif.Model.Recognisers Verif.Model.InlineRecog Verif.Model.LeafBlocks2 Verif.Model
open Verif.Model.HtmlBlockSpec (gfm029 cm031 startOfLine EndsOn Contains)

/-! ## HTML blocks: totality (C01) -/

/-- **html_block_total**: `is_html_block` returns (no IndexError / AssertionError) for every line, index, white space and
stack, provided the line does not end with `/`. -/
theorem html_block_total (line : Str) (start : Nat) (ws : Str) (inPara skip : Bool) (hlast : line.getLast? ≠ some '/') :
    ∃ r, isHtmlBlock line start ws inPara skip = .ok r := isHtmlBlock_ok line start ws inPara skip hlast

example : ("<a b=c>".toList).getLast? ≠ some '/' := by decide

/-- the guard is needed: `<a /` raises IndexError in `is_complete_html_start_tag` (`line_to_parse[non_whitespace_index]`
after the `/`), reached through `is_html_block`; the real parser fails on the document `<a /` (tools/leafblocks2lib.py, witness
`start_tag_slash`).  (executable check) -/
theorem html_block_total_excluded : isCompleteHtmlStartTag ['a'] [' ', '/'] 0 = .error .index :=
  isCompleteHtmlStartTag_excluded
-- the same point reached through `is_html_block` (executable check)
#guard isHtmlBlock "<a /".toList 0 [] false == .error .index
#guard isHtmlBlock "  <b c='d' /".toList 2 [' ', ' '] false == .error .index

/-- `__check_for_normal_html_blocks` only ever answers 1, 6, 7 or None -/
theorem html_normal_range (tag line : Str) (ci : Nat) (hci : ci ≤ line.length) (hlast : line.getLast? ≠ some '/') :
    ∃ r, checkNormal tag line ci = .ok r ∧ (r = none ∨ r = some 1 ∨ r = some 6 ∨ r = some 7) :=
  checkNormal_ok tag line ci hci hlast

/-! ## start condition 7 cannot interrupt a paragraph (C03) -/

/-- **type7_no_interrupt**: with a paragraph on top of the stack the classifier never answers 7, whatever the line. -/
theorem type7_no_interrupt (line : Str) (start : Nat) (ws : Str) (skip : Bool) (t : Nat) (tag : Str)
    (h : isHtmlBlock line start ws true skip = .ok (some (t, tag))) : t ≠ 7 := by
  unfold isHtmlBlock at h
  split at h
  · exact determineType_para line start t tag h
  · cases h

/-- the classifier of conditions 2–5 looks only at the text from its index on (no look-behind): the basis for stating the
conditions on "the text after `<`" -/
theorem html_special_local (p r : Str) : checkSpecial (p ++ r) p.length = checkSpecial r 0 := checkSpecial_shift p r

/-! ## end conditions (C03) -/

/-- **html_end_spec** (kinds 2–5): the block is terminated on a line iff the line contains the end string. -/
theorem html_end_spec (k : Nat) (hk : 2 ≤ k ∧ k ≤ 5) (adj : Str) : normalEnd k adj = true ↔ EndsOn gfm029 k adj := by
  obtain ⟨h2, h5⟩ := hk
  have : k = 2 ∨ k = 3 ∨ k = 4 ∨ k = 5 := by omega
  rcases this with rfl | rfl | rfl | rfl <;> simp only [normalEnd, EndsOn] <;> exact containsSubstr_iff _ _

/-- kinds 6 and 7 never end on a line of their own; the blank-line rule is the specification's -/
theorem html_end_spec_blank (k : Nat) : blankEnd k = HtmlBlockSpec.blankEnds k ∧ (6 ≤ k → normalEnd k [] = false) := by
  refine ⟨rfl, ?_⟩
  intro h
  unfold normalEnd
  have : ¬ k = 1 ∧ ¬ k = 2 ∧ ¬ k = 3 ∧ ¬ k = 4 ∧ ¬ k = 5 := by omega
  simp [this]

/-- **html_end_spec_partial** (kind 1): what the code takes for the end of a `<script>` / `<pre>` / `<style>` block is an end
condition of the specification (both versions) …
full statement: `normalEnd 1 adj = true ↔ EndsOn v 1 adj`; missing: the code compares case-sensitively and (0.31.2) does not
know `</textarea>` — see `html_end_excluded`. -/
theorem html_end_spec_partial (adj : Str) (h : normalEnd 1 adj = true) : EndsOn gfm029 1 adj ∧ EndsOn cm031 1 adj := by
  have h' : containsSubstr adj "</script>".toList = true ∨ containsSubstr adj "</pre>".toList = true ∨
      containsSubstr adj "</style>".toList = true := by
    simp only [normalEnd, block1EndTags, List.any_cons, List.any_nil, Bool.or_false, List.map] at h
    simpa [String.toList] using h
  simp only [EndsOn]
  rcases h' with h | h | h
  · obtain ⟨a, b, hab⟩ := (containsSubstr_iff _ _).mp h
    exact ⟨⟨"script".toList, by decide, a, _, b, hab, by decide⟩, ⟨"script".toList, by decide, a, _, b, hab, by decide⟩⟩
  · obtain ⟨a, b, hab⟩ := (containsSubstr_iff _ _).mp h
    exact ⟨⟨"pre".toList, by decide, a, _, b, hab, by decide⟩, ⟨"pre".toList, by decide, a, _, b, hab, by decide⟩⟩
  · obtain ⟨a, b, hab⟩ := (containsSubstr_iff _ _).mp h
    exact ⟨⟨"style".toList, by decide, a, _, b, hab, by decide⟩, ⟨"style".toList, by decide, a, _, b, hab, by decide⟩⟩

/-- … and the converse fails: `x</PRE>` meets the specification's end condition (case-insensitive) and the code goes on.
Real parser: `<pre>\nx</PRE>\ny` is ONE html block of three lines (tie witness `end_tag_upper`). -/
theorem html_end_excluded : normalEnd 1 "x</PRE>".toList = false ∧ EndsOn gfm029 1 "x</PRE>".toList :=
  ⟨by decide, "pre".toList, by decide, ['x'], "</PRE>".toList, [], by decide, by decide⟩

/-! ## start conditions against the specification (C03)

Full statement: for every line `l` without TAB (lines reach the function tab-expanded) and every `inPara`,
`lineHtmlStart l inPara = .ok (startOfLine gfm029 l inPara)`.
It is FALSE; the differences are all in condition 7's tag scanner and `str.lower` (witnesses below, each run through the real
parser by the tie).  Proved here: conditions 2–5 are local (`html_special_local`), condition 7 never interrupts
(`type7_no_interrupt`), the classifier is total; the equality itself is checked by the tie on the complete closed space against
`startOfLine gfm029` and `startOfLine cm031` (every request, all seven kinds; the differing inputs are exactly the classes below).
Missing: the list-level closed forms of `checkSpecial` / `checkNormal` for conditions 1–6. -/

-- executable checks (tests over literals, not theorems): the model on the witnesses of `html_start_spec_partial`
-- `<textarea>`: 0.31.2 kind 1, pymarkdown kind 7 (0.29 behaviour)
#guard lineHtmlStart "<textarea>".toList false == .ok (some 7) && startOfLine cm031 "<textarea>".toList false == some 1
        && startOfLine gfm029 "<textarea>".toList false == some 7
-- `<search>` / `<source>`: the 0.31.2 table
#guard lineHtmlStart "<search x".toList false == .ok none && startOfLine cm031 "<search x".toList false == some 6
#guard lineHtmlStart "<source x".toList false == .ok (some 6) && startOfLine cm031 "<source x".toList false == none
-- `<!a`: 0.31.2 kind 4 (any ASCII letter)
#guard lineHtmlStart "<!a".toList false == .ok none && startOfLine cm031 "<!a".toList false == some 4
        && startOfLine gfm029 "<!a".toList false == none
-- tag names may begin with `-` or a digit for pymarkdown (`is_valid_tag_name`): kind 7, the specification has no such tag
#guard lineHtmlStart "<->".toList false == .ok (some 7) && startOfLine gfm029 "<->".toList false == none
#guard lineHtmlStart "<1 a>".toList false == .ok (some 7) && startOfLine gfm029 "<1 a>".toList false == none
-- attribute names: upper case refused, leading digit accepted (`__attribute_start_characters`)
#guard lineHtmlStart "<a B>".toList false == .ok none && startOfLine gfm029 "<a B>".toList false == some 7
#guard lineHtmlStart "<a 1>".toList false == .ok (some 7) && startOfLine gfm029 "<a 1>".toList false == none
-- U+212A KELVIN SIGN lower-cases to `k`: `<lin&#x212A;>` is kind 6 for pymarkdown
#guard lineHtmlStart ("<lin".toList ++ [KELVIN, '>']) false == .ok (some 6) && startOfLine gfm029 ("<lin".toList ++ [KELVIN, '>']) false == none
-- `</pre>` alone: kind 7 in 0.29 and for pymarkdown, nothing in 0.31.2
#guard lineHtmlStart "</pre>".toList false == .ok (some 7) && startOfLine gfm029 "</pre>".toList false == some 7
        && startOfLine cm031 "</pre>".toList false == none
-- agreement on one line of every kind
#guard ["<script>", "<!-- x", "<?php", "<!DOCTYPE", "<![CDATA[", "</div", "<a b='c'/>  "].map (fun s => lineHtmlStart s.toList false)
        == [.ok (some 1), .ok (some 2), .ok (some 3), .ok (some 4), .ok (some 5), .ok (some 6), .ok (some 7)]
#guard ["<script>", "<!-- x", "<?php", "<!DOCTYPE", "<![CDATA[", "</div", "<a b='c'/>  "].map (fun s => startOfLine gfm029 s.toList false)
        == [some 1, some 2, some 3, some 4, some 5, some 6, some 7]


/-! ## content lines of a fenced code block (C03 content, C02 round trip) -/

/-- **fence_content_spec** + **fence_content_roundtrip**, lines without tabs: for a fence indented `N` columns and a content
line with `k` leading spaces that is not itself fence-like, the text token's white space + text
* renders (`resolve_all_from_text`) as the line minus min(k, N) columns — CommonMark §4.5, and
* regenerates (`remove_all_from_text`) as the source line.
Full statement (every line, tabs included): `fenceLine c n N L = .ok (.text E X) → resolveAll E ++ X = fenceContent N L ∧ removeAll E ++ X = L`;
it is false for fence-like lines (`fence_content_excluded`) and the code fails on three tab shapes (`fence_tab_crash_*`);
missing: the closed forms of `find_tabified_string` / `search_for_tabbed_prefix` on lines with tabs (witnesses below, the tie compares every
line of the closed space with `fenceContent`). -/
theorem fence_content_spec_partial (c : Char) (n N k : Nat) (d : Char) (rest : Str) (hd : isWsChar d = false)
    (hnt : TAB ∉ (List.replicate k SP ++ d :: rest))
    (hnf : isFencedCodeBlock (List.replicate k SP ++ d :: rest) k (List.replicate k SP) = .ok none) :
    ∃ E X, fenceLine c n N (List.replicate k SP ++ d :: rest) = .ok (.text E X) ∧
      (Codec.resolveAll E).map (· ++ X) = .ok (HtmlBlockSpec.fenceContent N (List.replicate k SP ++ d :: rest)) ∧
      (Codec.removeAll E).map (· ++ X) = .ok (List.replicate k SP ++ d :: rest) := by
  refine ⟨storedWs k N, d :: rest, fenceLine_notab c n N k d rest hd hnt hnf, ?_, ?_⟩
  · rw [storedWs_encode, Verif.Props.C02.resolve_encode _ (wsPieces_markerFree k N), wsPieces_rendered]
    unfold HtmlBlockSpec.fenceContent
    rw [stripCols_spaces k N 0 d rest hd]; rfl
  · rw [storedWs_encode, Verif.Props.C02.remove_encode _ (wsPieces_markerFree k N), wsPieces_source]; rfl

theorem fence_content_roundtrip_partial (c : Char) (n N k : Nat) (d : Char) (rest : Str) (hd : isWsChar d = false)
    (hnt : TAB ∉ (List.replicate k SP ++ d :: rest))
    (hnf : isFencedCodeBlock (List.replicate k SP ++ d :: rest) k (List.replicate k SP) = .ok none) :
    ∃ E X, fenceLine c n N (List.replicate k SP ++ d :: rest) = .ok (.text E X) ∧
      (Codec.removeAll E).map (· ++ X) = .ok (List.replicate k SP ++ d :: rest) := by
  obtain ⟨E, X, h1, _, h3⟩ := fence_content_spec_partial c n N k d rest hd hnt hnf
  exact ⟨E, X, h1, h3⟩

-- the hypotheses are met by `   x y` under a fence indented 2 (executable check of the instance and of the conclusion)
#guard isFencedCodeBlock "   x y".toList 3 "   ".toList == .ok none
#guard fenceLine '`' 3 2 "   x y".toList == .ok (.text (Codec.replaceWithNothing "  ".toList ++ " ".toList) "x y".toList)

-- **fence_content_excluded** (executable checks): a content line that LOOKS like a fence keeps all its indentation when it has no
-- tab (`parse_fenced_code_block` never calls `__parse_fenced_code_block_already_in` for it) — real parser: `  ```\n  ``` x\n  ```` renders
-- `<code>  ``` x` (tie witness `fence_like_content`); CommonMark: two columns removed
#guard fenceLine '`' 3 2 "  ``` x".toList == .ok (.text "  ".toList "``` x".toList)
#guard HtmlBlockSpec.fenceContent 2 "  ``` x".toList == "``` x".toList
-- tab witnesses where code = specification: the tab is split, the remaining columns are stored as spaces
#guard fenceLine '`' 3 2 "\ta".toList == .ok (.text (Codec.replacementMarkers ['\t'] "  ".toList) ['a'])
#guard HtmlBlockSpec.fenceContent 2 "\ta".toList == "  a".toList
#guard fenceLine '`' 3 1 "  \tb".toList == .ok (.text (Codec.replacementMarkers "  \t".toList " \t".toList) ['b'])
#guard HtmlBlockSpec.fenceContent 1 "  \tb".toList == " \tb".toList
-- **fence_tab_crash** (executable checks; C01): three shapes of tabbed content lines on which the real function raises
-- AssertionError — find_tabified_string ("Adjusted original line must be defined by now"), __parse_fenced_code_block_already_in_with_tab
-- (`assert last_container_token.is_list` on the document token), __handle_fenced_code_block_with_tab_starts_tab ("reconstructed_line must
-- be in original line"); documents: `  ```\n \tb`, `  ```\n\t\tx`, `  ```\n\tx\ty`
#guard fenceLine '`' 3 2 " \tb".toList == .error .assertion
#guard fenceLine '`' 3 2 "\t\tx".toList == .error .assertion
#guard fenceLine '`' 3 2 "\tx\ty".toList == .error .assertion
-- closing fence followed by a tab: CommonMark closes ("may be followed only by spaces or tabs"), pymarkdown stores it as content
#guard fenceLine '`' 3 0 "```\t".toList == .ok (.text [] "```\t".toList) && HtmlBlockSpec.isClosingFence '`' 3 "```\t".toList
#guard fenceLine '`' 3 0 "  ````  ".toList == .ok (.close "  ".toList "  ".toList 4) && HtmlBlockSpec.isClosingFence '`' 3 "  ````  ".toList

/-! ## content lines of an indented code block -/

theorem icodeLine_notab (k : Nat) (hk : 4 ≤ k) (d : Char) (rest : Str) (hd : isWsChar d = false)
    (hnt : TAB ∉ (List.replicate k SP ++ d :: rest)) (inBlock : Bool) :
    icodeLine (List.replicate k SP ++ d :: rest) inBlock false =
      .ok (some (if inBlock then ⟨none, List.replicate k SP, d :: rest⟩
                 else ⟨some (List.replicate 4 SP), List.replicate (k - 4) SP, d :: rest⟩)) := by
  unfold icodeLine
  rw [detabify_notab _ hnt]
  simp only [leadWs_spaces k d rest hd, contains_tab_false _ hnt, calcLength_spaces]
  have hdrop : List.drop k (List.replicate k SP ++ d :: rest) = d :: rest := by
    rw [List.drop_append]; simp
  have hge : (decide (k ≥ 4) && !false) = true := by simp; omega
  simp only [hge, if_true, recalcWs, hdrop]
  have h1 : List.take 4 (List.replicate k SP) = List.replicate 4 SP := by
    rw [List.take_replicate]; congr 1; omega
  have h2 : List.drop 4 (List.replicate k SP) = List.replicate (k - 4) SP := List.drop_replicate
  cases inBlock <;> simp [h1, h2]

/-- **icode_content_spec** + **icode_roundtrip**, lines without tabs: an indented line's contribution to the code block is the line
minus four columns (§4.4), on the opening line and (through `TextMarkdownToken.combine`, 4 leading characters removed) on later
lines; the stored pieces concatenate to the source line.  Lines with tabs: executable witnesses below + the tie (every line of the
closed space against `icodeContent` / the source). -/
theorem icode_content_spec (k : Nat) (hk : 4 ≤ k) (d : Char) (rest : Str) (hd : isWsChar d = false)
    (hnt : TAB ∉ (List.replicate k SP ++ d :: rest)) (inBlock : Bool) :
    ∃ o, icodeLine (List.replicate k SP ++ d :: rest) inBlock false = .ok (some o) ∧
      icodeContent o = HtmlBlockSpec.icodeContent (List.replicate k SP ++ d :: rest) := by
  refine ⟨_, icodeLine_notab k hk d rest hd hnt inBlock, ?_⟩
  unfold HtmlBlockSpec.icodeContent
  rw [stripCols_spaces k 4 0 d rest hd]
  cases inBlock
  · simp [icodeContent]
  · simp [icodeContent]; omega

theorem icode_roundtrip (k : Nat) (hk : 4 ≤ k) (d : Char) (rest : Str) (hd : isWsChar d = false)
    (hnt : TAB ∉ (List.replicate k SP ++ d :: rest)) (inBlock : Bool) :
    ∃ o, icodeLine (List.replicate k SP ++ d :: rest) inBlock false = .ok (some o) ∧
      icodeSource o = List.replicate k SP ++ d :: rest := by
  refine ⟨_, icodeLine_notab k hk d rest hd hnt inBlock, ?_⟩
  cases inBlock
  · simp only [icodeSource, Bool.false_eq_true, if_false]
    rw [List.replicate_append_replicate]
    congr 2; omega
  · simp [icodeSource]

example : (4 : Nat) ≤ 6 ∧ isWsChar 'a' = false ∧ TAB ∉ (List.replicate 6 SP ++ 'a' :: " b".toList) := by decide

/-- an indented code block cannot interrupt a paragraph, and fewer than four columns are not enough -/
theorem icode_not_eligible (L : Str) (inBlock : Bool) : ∃ r, icodeLine L inBlock true = .ok r ∧ r = none := by
  unfold icodeLine
  rw [detabify_spec]
  simp

-- tab witnesses (executable checks): the four-column prefix is taken from the ORIGINAL line, the rest is kept verbatim
#guard icodeLine "  \t a\tb".toList false false == .ok (some ⟨some "  \t".toList, [], " a\tb".toList⟩)
#guard HtmlBlockSpec.icodeContent "  \t a\tb".toList == " a\tb".toList
#guard (icodeLine " \t\tc".toList true false).map (Option.map icodeContent) == .ok (some "\tc".toList)
#guard HtmlBlockSpec.icodeContent " \t\tc".toList == "\tc".toList
#guard (icodeLine " \t\tc".toList true false).map (Option.map icodeSource) == .ok (some " \t\tc".toList)

end Verif.Props.LeafBlocks2
