import Verif.Lemmas.ScanRules2.Tokens
import Verif.Lemmas.ScanRules2.Lines
/-
  Property theorems of the building block ScanRules2 (MD011 MD013 MD014 MD018 MD020 MD028 MD032 MD033 MD034);
  serves C06 (`scan_iff`), C07 (`reports_in_range`, `total`, `excluded`), C12 (`scan_reads`), C13 (`state_reset`).
-/
namespace Verif.Model.ScanRules2

/-! ## C06 — which lines / tokens are reported -/

/-- MD013 (C06).  When the collected tokens after the first start on increasing lines (true of every parsed stream; checked by the tie),
    line `n` is reported iff it is longer than the limit of the LAST leaf-class / blank-line token that starts at or before line `n`
    (`govKind`; the first collected token when none does) and passes the `strict` / `stern` / "no white space beyond" test (`long013`);
    column 1, extra text "Expected: limit, Actual: length". -/
theorem md013_scan_iff (c : C013) (f : File) (first : Int × K) (tail : List (Int × K))
    (hl : leafsOf f.toks = first :: tail) (hinc : Increasing tail) : scan md013 c f = .ok (spec013 c f) := by
  have ht := leaf_toks md013 c (fun _ _ => rfl) f.toks
  obtain ⟨s', hs⟩ := md013_lines c first tail hinc 1 f.lines
  have h0 : md013.start c md013.fresh = LeafSt.start := rfl
  simp only [cnt_base tail hinc, Int.sub_self] at hs
  simp only [scan, runFile, h0, ht, Fleaf, hl, hs, reportsOf, spec013, List.nil_append]

example : Increasing [(2, K.blank), (4, K.setext)] := by decide

/-- MD011 (C06): the same governing token; a line under anything but a code block or an HTML block that contains `(` and `[` is
    reported at the first `(` when a `)[x…]` with `x ≠ ^` follows (`search011`: the regular expression in closed form). -/
theorem md011_scan_iff (f : File) (first : Int × K) (tail : List (Int × K))
    (hl : leafsOf f.toks = first :: tail) (hinc : Increasing tail) : scan md011 () f = .ok (spec011 f) := by
  have ht := leaf_toks md011 () (fun _ _ => rfl) f.toks
  obtain ⟨s', hs⟩ := md011_lines first tail hinc 1 f.lines
  have h0 : md011.start () md011.fresh = LeafSt.start := rfl
  simp only [cnt_base tail hinc, Int.sub_self] at hs
  simp only [scan, runFile, h0, ht, Fleaf, hl, hs, reportsOf, spec011, List.nil_append]

/-- without the guard the walk gets stuck: two collected tokens on one line — the second is never reached (test by evaluation) -/
theorem md013_excluded_same_line :
    scan md013 { lineLength := 5, headingLength := 3, minimum := 3, strict := true }
      ⟨[⟨.blank, 1, 1, [], 0, []⟩, ⟨.para, 2, 1, [], 0, []⟩, ⟨.atx, 2, 1, [], 0, []⟩], [[], [], "aaaa".toList]⟩ = .ok [] ∧
    spec013 { lineLength := 5, headingLength := 3, minimum := 3, strict := true }
      ⟨[⟨.blank, 1, 1, [], 0, []⟩, ⟨.para, 2, 1, [], 0, []⟩, ⟨.atx, 2, 1, [], 0, []⟩], [[], [], "aaaa".toList]⟩ ≠ [] := by
  decide

/-- MD014 (C06), every stream: a text token is reported iff the last code-block start-or-end token before it is a start and every
    line of its text, stripped of spaces, starts with `$`. -/
theorem md014_scan_iff (f : File) : scan md014 () f = .ok (byPrefix cond014 [] f.toks) :=
  scan_byPrefix md014 () (fun seen => inside K.isCode K.isCodeEnd seen) cond014 (fun _ _ _ => rfl) rfl (fun _ _ => True)
    (fun seen t _ => md014_step seen t) f (fun _ _ => trivial)

/-- MD034 (C06), every stream: the reports are the bare URLs (`reports034`) of the text tokens that are not inside a code block, an HTML
    block or a link (last start-or-end token of each kind before the token). -/
theorem md034_scan_iff (f : File) : scan md034 () f = .ok (byPrefix cond034 [] f.toks) :=
  scan_byPrefix md034 () F034 cond034 (fun _ _ _ => rfl) rfl (fun _ _ => True)
    (fun seen t _ => md034_step seen t) f (fun _ _ => trivial)

/-- MD028 (C06), every stream: at a block quote start in phase 2 (`phase028`: a quote ended, further quote ends, then blank lines only)
    every blank line since is reported. -/
theorem md028_scan_iff (f : File) : scan md028 () f = .ok (byPrefix cond028 [] f.toks) :=
  scan_byPrefix md028 () phase028 cond028 (fun _ _ _ => rfl) rfl (fun _ _ => True)
    (fun seen t _ => md028_step seen t) f (fun _ _ => trivial)

/-- the `assert` of `__look_for_html_start` cannot fail at this token -/
def Safe033 (c : C033) (seen : List Tk) (t : Tk) : Prop :=
  (t.kind = .text → ∃ rs, look033 c (firstBlock033 seen) t (t.text.drop 1) = .ok rs) ∧
  (t.kind = .rawHtml → ∃ rs, look033 c false t t.text = .ok rs)

/-- MD033 (C06), streams on which the assertion does not fail: a raw HTML token, or the text token that follows an HTML block start, is
    reported with its element name unless it is a closing tag, an allowed element, or the `<h1><img …></h1>` of a first HTML block. -/
theorem md033_scan_iff (c : C033) (f : File) (h : ∀ p ∈ splits [] f.toks, Safe033 c p.1 p.2) :
    scan md033 c f = .ok (byPrefix (cond033 c) [] f.toks) :=
  scan_byPrefix md033 c F033 (cond033 c) (fun _ _ _ => rfl) rfl (Safe033 c)
    (fun seen t hs => md033_step c seen t hs.1 hs.2) f h

/-! ## C07 — no exception; excluded points -/

theorem md014_total (f : File) : ∃ rs, scan md014 () f = .ok rs := ⟨_, md014_scan_iff f⟩
theorem md028_total (f : File) : ∃ rs, scan md028 () f = .ok rs := ⟨_, md028_scan_iff f⟩
theorem md034_total (f : File) : ∃ rs, scan md034 () f = .ok rs := ⟨_, md034_scan_iff f⟩
theorem md033_total (c : C033) (f : File) (h : ∀ p ∈ splits [] f.toks, Safe033 c p.1 p.2) : ∃ rs, scan md033 c f = .ok rs :=
  ⟨_, md033_scan_iff c f h⟩
theorem md013_total (c : C013) (f : File) (first : Int × K) (tail : List (Int × K))
    (hl : leafsOf f.toks = first :: tail) (hinc : Increasing tail) : ∃ rs, scan md013 c f = .ok rs :=
  ⟨_, md013_scan_iff c f first tail hl hinc⟩
theorem md011_total (f : File) (first : Int × K) (tail : List (Int × K))
    (hl : leafsOf f.toks = first :: tail) (hinc : Increasing tail) : ∃ rs, scan md011 () f = .ok rs :=
  ⟨_, md011_scan_iff f first tail hl hinc⟩

/-- MD033: `<h1 </h1>` as the first HTML block — `</h1>` at the end, no `>` before it: the `assert` fails (real rule: AssertionError) -/
theorem md033_excluded :
    scan md033 {} ⟨[⟨.html, 1, 1, [], 0, []⟩, ⟨.text, 1, 1, "<h1 </h1>".toList, 0, []⟩], []⟩ = .error .assertion := by decide

/-- MD011 / MD013: lines but no collected token — `self.__leaf_tokens[0]` raises IndexError -/
theorem md011_excluded : scan md011 () ⟨[], [[]]⟩ = .error .indexError := by decide
theorem md013_excluded : scan md013 { lineLength := 1, codeLength := 1, headingLength := 1, minimum := 1 } ⟨[], ["ab".toList]⟩ = .error .indexError := by
  decide

/-- MD032: a block quote end / list end without a start (IndexError), a list end before any other token (AssertionError) -/
theorem md032_excluded :
    scan md032 () ⟨[⟨.bquoteEnd, 0, 0, [], 0, []⟩], []⟩ = .error .indexError ∧
    scan md032 () ⟨[⟨.listEnd, 0, 0, [], 0, []⟩], []⟩ = .error .assertion ∧
    scan md032 () ⟨[⟨.para, 1, 1, [], 0, []⟩, ⟨.listEnd, 0, 0, [], 0, []⟩], []⟩ = .error .indexError := by decide

/-- MD032 (C06 defect, real rule agrees): `- a`, blank, `text`, `- b` — the list that ended after a blank line stays on the container
    stack, the second list is taken for a nested one and is not reported although `text` stands directly above it -/
theorem md032_stack_leak :
    scan md032 () ⟨[⟨.listStart, 1, 1, [], 0, []⟩, ⟨.para, 1, 3, [], 0, []⟩, ⟨.text, 1, 3, ['a'], 0, []⟩, ⟨.paraEnd, 0, 0, [], 0, []⟩,
      ⟨.blank, 2, 1, [], 0, []⟩, ⟨.listEnd, 0, 0, [], 0, []⟩, ⟨.para, 3, 1, [], 0, []⟩, ⟨.text, 3, 1, "text".toList, 0, []⟩,
      ⟨.paraEnd, 0, 0, [], 0, []⟩, ⟨.listStart, 4, 1, [], 0, []⟩], []⟩ = .ok [] := by decide

/-- MD018: a text line beyond the paragraph's white-space list (IndexError), an unknown inline token (AssertionError) -/
theorem md018_excluded :
    scan md018 () ⟨[⟨.para, 1, 1, [], 0, []⟩, ⟨.text, 1, 1, "a\nb".toList, 0, []⟩], []⟩ = .error .indexError ∧
    scan md018 () ⟨[⟨.para, 1, 1, [], 0, []⟩, ⟨.blank, 1, 1, [], 0, []⟩], []⟩ = .error .assertion := by decide

/-- MD020: an ATX heading end with no token since the heading start (AssertionError) -/
theorem md020_excluded : scan md020 () ⟨[⟨.atx, 1, 1, [], 0, []⟩, ⟨.atxEnd, 0, 0, [], 0, []⟩], []⟩ = .error .assertion := by decide

/-! ## C07 — positions -/

theorem mem_byLine {g : Int → Str → List Report} {n : Int} {ls : List Str} {x : Report} (h : x ∈ byLine g n ls) :
    ∃ i, ∃ hi : i < ls.length, x ∈ g (n + i) ls[i] := by
  induction ls generalizing n with
  | nil => simp [byLine] at h
  | cons l ls ih =>
    simp only [byLine, List.mem_append] at h
    rcases h with h | h
    · exact ⟨0, by simp, by simpa using h⟩
    · obtain ⟨i, hi, hx⟩ := ih h
      exact ⟨i + 1, by simp; omega, by simpa [Int.add_assoc, Int.add_comm 1] using hx⟩

/-- MD013 (C07): every report names an existing line (1 ≤ line ≤ number of lines) and column 1 — never beyond `length + 1`. -/
theorem md013_reports_in_range (c : C013) (f : File) (first : Int × K) (tail : List (Int × K))
    (hl : leafsOf f.toks = first :: tail) (hinc : Increasing tail) (rs : List Report) (h : scan md013 c f = .ok rs) :
    ∀ x ∈ rs, x.col = 1 ∧ ∃ i, i < f.lines.length ∧ x.line = 1 + i := by
  rw [md013_scan_iff c f first tail hl hinc] at h
  cases h
  intro x hx
  simp only [spec013, hl] at hx
  obtain ⟨i, hi, hx⟩ := mem_byLine hx
  split at hx
  · simp only [List.mem_singleton] at hx
    subst hx
    exact ⟨rfl, i, hi, rfl⟩
  · simp at hx

theorem findIdx1_lt {p : Char → Bool} {s : Str} {i : Nat} (h : findIdx1 p s = some i) : i < s.length := by
  induction s generalizing i with
  | nil => simp [findIdx1] at h
  | cons c cs ih =>
    simp only [findIdx1] at h
    split at h
    · cases h; simp
    · cases hh : findIdx1 p cs with
      | none => simp [hh] at h
      | some j => simp [hh] at h; subst h; have := ih hh; simp; omega

/-- MD011 (C07): every report names an existing line and a column inside it: 1 ≤ column ≤ length of the line. -/
theorem md011_reports_in_range (f : File) (first : Int × K) (tail : List (Int × K))
    (hl : leafsOf f.toks = first :: tail) (hinc : Increasing tail) (rs : List Report) (h : scan md011 () f = .ok rs) :
    ∀ x ∈ rs, ∃ i, ∃ hi : i < f.lines.length, x.line = 1 + i ∧ 1 ≤ x.col ∧ x.col ≤ (f.lines[i]).length := by
  rw [md011_scan_iff f first tail hl hinc] at h
  cases h
  intro x hx
  simp only [spec011, hl] at hx
  obtain ⟨i, hi, hx⟩ := mem_byLine hx
  refine ⟨i, hi, ?_⟩
  simp only [hit011] at hx
  split at hx
  · simp at hx
  · cases hs : search011 f.lines[i] with
    | none => simp [hs] at hx
    | some ab =>
      simp only [hs, List.mem_singleton] at hx
      subst hx
      simp only [search011] at hs
      cases hf : findIdx1 (· == '(') f.lines[i] with
      | none => simp [hf] at hs
      | some a =>
        have hlt := findIdx1_lt hf
        simp only [hf] at hs
        split at hs
        · split at hs
          · cases hs; simp [repLine]; omega
          · cases hs
        · cases hs

/-- MD014 (C07): every report is at the position of a text token of the stream. -/
theorem md014_reports_in_range (f : File) (rs : List Report) (h : scan md014 () f = .ok rs) :
    ∀ x ∈ rs, ∃ t ∈ f.toks, t.kind = .text ∧ x.line = t.line ∧ x.col = t.col := by
  rw [md014_scan_iff] at h
  cases h
  intro x hx
  obtain ⟨pre, t, post, hts, hm⟩ := mem_byPrefix hx
  simp only [cond014] at hm
  split at hm
  · rename_i hc
    simp only [List.mem_singleton] at hm
    simp only [Bool.and_eq_true, beq_iff_eq] at hc
    exact ⟨t, by simp [hts], hc.1.2, by simp [hm, repTok, repAt], by simp [hm, repTok, repAt]⟩
  · simp at hm

/-- MD033 (C07): every report is at the position of a raw HTML token or of a text token of the stream. -/
theorem md033_reports_in_range (c : C033) (f : File) (hsafe : ∀ p ∈ splits [] f.toks, Safe033 c p.1 p.2) (rs : List Report)
    (h : scan md033 c f = .ok rs) :
    ∀ x ∈ rs, ∃ t ∈ f.toks, (t.kind = .text ∨ t.kind = .rawHtml) ∧ x.line = t.line ∧ x.col = t.col := by
  rw [md033_scan_iff c f hsafe] at h
  cases h
  intro x hx
  obtain ⟨pre, t, post, hts, hm⟩ := mem_byPrefix hx
  have key : ∀ b tag, x ∈ lookReps c b t tag → x.line = t.line ∧ x.col = t.col := by
    intro b tag hx
    simp only [lookReps, look033] at hx
    split at hx
    · rename_i rs' he
      split at he
      · cases he; simp at hx
      · split at he
        · cases he
        · split at he
          · cases he; simp only [List.mem_singleton] at hx; simp [hx, repTok, repAt]
          · cases he; simp at hx
    · simp at hx
  simp only [cond033] at hm
  split at hm
  · rename_i hk
    exact ⟨t, by simp [hts], Or.inr (by simpa using hk), key _ _ hm⟩
  · split at hm
    · rename_i hk
      simp only [Bool.and_eq_true, beq_iff_eq] at hk
      exact ⟨t, by simp [hts], Or.inl hk.1, key _ _ hm⟩
    · simp at hm

/-- MD034 (C07): every report belongs to a text token `t` and an index `i` inside its text: line = `t.line` + the number of newlines before
    `i`; column = `t.col + i` when there is none, else the distance from the last newline before `i` (1 = directly behind it) —
    a column counted from the start of the TEXT's line, not of the document's line (`> a` / `> http://a.b`: the real rule says column 1). -/
theorem md034_reports_in_range (f : File) (rs : List Report) (h : scan md034 () f = .ok rs) :
    ∀ x ∈ rs, ∃ t ∈ f.toks, t.kind = .text ∧ ∃ i, x = repTok t (adjust034 t.text i).2 (adjust034 t.text i).1 := by
  rw [md034_scan_iff] at h
  cases h
  intro x hx
  obtain ⟨pre, t, post, hts, hm⟩ := mem_byPrefix hx
  simp only [cond034] at hm
  split at hm
  · rename_i hc
    simp only [Bool.and_eq_true, beq_iff_eq] at hc
    simp only [reports034, List.mem_flatMap, List.mem_map] at hm
    obtain ⟨p, _, i, _, hxi⟩ := hm
    exact ⟨t, by simp [hts], hc.1.1.1, i, hxi.symm⟩
  · simp at hm

/-- the column `adjust034` gives on a later line is at least 1 and at most the number of characters since the newline -/
theorem adjust034_bounds (text : Str) (i : Nat) :
    ((adjust034 text i).2 = 0 ∧ (adjust034 text i).1 = i) ∨
    ((adjust034 text i).2 = countNl (text.take i) ∧ (adjust034 text i).1 < 0 ∧ -(adjust034 text i).1 ≤ i) := by
  unfold adjust034
  cases hr : rfindIdx1 (· == '\n') (text.take i) with
  | none => simp [hr]
  | some nl =>
    right
    simp only [hr]
    simp only [rfindIdx1, Option.map_eq_some_iff] at hr
    obtain ⟨j, hj, hnl⟩ := hr
    have := findIdx1_lt hj
    simp only [List.length_reverse, List.length_take] at this hnl
    refine ⟨trivial, ?_, ?_⟩ <;> omega

/-! ## C13 — a second file is scanned as if it were the first -/

theorem md011_state_reset (a b : File) : scanAfter md011 () a b = scan md011 () b :=
  scanAfter_eq_scan_of_const md011 () (fun _ _ => rfl) a b
theorem md013_state_reset (c : C013) (a b : File) : scanAfter md013 c a b = scan md013 c b :=
  scanAfter_eq_scan_of_const md013 c (fun _ _ => rfl) a b
theorem md014_state_reset (a b : File) : scanAfter md014 () a b = scan md014 () b :=
  scanAfter_eq_scan_of_const md014 () (fun _ _ => rfl) a b
theorem md028_state_reset (a b : File) : scanAfter md028 () a b = scan md028 () b :=
  scanAfter_eq_scan_of_const md028 () (fun _ _ => rfl) a b
theorem md032_state_reset (a b : File) : scanAfter md032 () a b = scan md032 () b :=
  scanAfter_eq_scan_of_const md032 () (fun _ _ => rfl) a b
theorem md033_state_reset (c : C033) (a b : File) : scanAfter md033 c a b = scan md033 c b :=
  scanAfter_eq_scan_of_const md033 c (fun _ _ => rfl) a b
theorem md034_state_reset (a b : File) : scanAfter md034 () a b = scan md034 () b :=
  scanAfter_eq_scan_of_const md034 () (fun _ _ => rfl) a b

/-- MD018 / MD020: `StartOfLineTokenParser.starting_new_file` leaves `__inside_of_link`, `__first_line_after_hard_break` and
    `__delayed_line` alone.  File A ends inside a paragraph, file B starts with a paragraph end: the delayed line of A IS checked during
    B — but the tuple holds A's context object, the report goes to A's (already printed) list and B shows nothing.  The other two fields
    are assigned at every paragraph start before they are read.  (Test by evaluation; the general `md018_state_reset` is not proved —
    the tie compares 42 894 two-file sequences with fresh rule objects, 0 differences.) -/
theorem md018_stale_delayed_line :
    scanAfter md018 () ⟨[⟨.para, 1, 1, ['\n'], 0, []⟩, ⟨.text, 1, 1, "x\n#a".toList, 0, []⟩], []⟩ ⟨[⟨.paraEnd, 0, 0, [], 0, []⟩], []⟩
      = .ok [] ∧
    scan md018 () ⟨[⟨.para, 1, 1, ['\n'], 0, []⟩, ⟨.text, 1, 1, "x\n#a".toList, 0, []⟩, ⟨.paraEnd, 0, 0, [], 0, []⟩], []⟩
      = .ok [⟨2, 1, none, 0⟩] := by decide

/-! ## C12 — what a scan reads of the tokens -/

/-- MD011 / MD013 read the kind of every token and the line number of the leaf-class and blank-line tokens, nothing else. -/
def viewLeaf (t : Tk) : Tk := { kind := t.kind, line := if t.kind.isLeaf then t.line else 0 }

theorem md013_scan_reads (c : C013) (f : File) : scan md013 c ⟨f.toks.map viewLeaf, f.lines⟩ = scan md013 c f :=
  scan_view md013 c viewLeaf (fun s t => by
    simp only [md013, leafNext, viewLeaf]; split <;> simp_all) f

theorem md011_scan_reads (f : File) : scan md011 () ⟨f.toks.map viewLeaf, f.lines⟩ = scan md011 () f :=
  scan_view md011 () viewLeaf (fun s t => by
    simp only [md011, leafNext, viewLeaf]; split <;> simp_all) f

/-- MD014 / MD034 / MD033 read the kind of every token and position and text of text tokens (MD033: also of raw HTML tokens). -/
def viewText (t : Tk) : Tk :=
  if t.kind = .text ∨ t.kind = .rawHtml then { kind := t.kind, line := t.line, col := t.col, text := t.text } else { kind := t.kind }

theorem viewText_kind (t : Tk) : (viewText t).kind = t.kind := by unfold viewText; split <;> rfl

theorem md014_scan_reads (f : File) : scan md014 () ⟨f.toks.map viewText, f.lines⟩ = scan md014 () f :=
  scan_view md014 () viewText (fun s t => by
    simp only [md014, next014, viewText_kind]
    by_cases h : t.kind = .text <;> simp [viewText, h, repTok]) f

theorem md034_scan_reads (f : File) : scan md034 () ⟨f.toks.map viewText, f.lines⟩ = scan md034 () f :=
  scan_view md034 () viewText (fun s t => by
    simp only [md034, next034, viewText_kind]
    by_cases h : t.kind = .text <;> simp [viewText, h, reports034, repTok]) f

theorem md033_scan_reads (c : C033) (f : File) : scan md033 c ⟨f.toks.map viewText, f.lines⟩ = scan md033 c f :=
  scan_view md033 c viewText (fun s t => by
    simp only [md033, next033, viewText_kind]
    by_cases h : t.kind = .text <;> by_cases h' : t.kind = .rawHtml <;> simp [viewText, h, h', look033, repTok]) f

/-- MD028 reads the kind of every token and the position of blank-line tokens; MD032 the kind and the line (and column, for a report). -/
def viewPos (t : Tk) : Tk := { kind := t.kind, line := t.line, col := t.col }

theorem md028_scan_reads (f : File) : scan md028 () ⟨f.toks.map viewPos, f.lines⟩ = scan md028 () f :=
  scan_view md028 () viewPos (fun s t => by simp [md028, next028, viewPos]) f

theorem md032_scan_reads (f : File) : scan md032 () ⟨f.toks.map viewPos, f.lines⟩ = scan md032 () f :=
  scan_view md032 () viewPos (fun s t => by
    simp only [md032, next032, after032, containers032, before032, viewPos, repTok]) f

end Verif.Model.ScanRules2
