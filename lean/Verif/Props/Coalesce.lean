/-
  The coalesce pass (pymarkdown/coalesce/coalesce_processor.py) — serves C02 (lossless), C04 (well-formed), C05 (positions).

  Model: Verif/Model/Coalesce.lean (faithful: `IndexError` / `AttributeError` / `AssertionError` where Python raises),
  lemmas: Verif/Lemmas/Coalesce.lean, Verif/Lemmas/CoalesceWF.lean; tie: tools/coalescelib.py (driver `coalesce`).
  `coalesce false` = the call after the block pass, `coalesce true` = the call after the inline pass
  (`only_change_text_blocks=True`).
-/
import Verif.Lemmas.Coalesce
import Verif.Lemmas.CoalesceWF
namespace Verif.Props.Coalesce
open Verif.Model.Coalesce Verif.Lemmas.Coalesce Verif.Lemmas.CoalesceWF
open Verif.Model.WellFormed (WellNested ClassOK)

/-! ### sample streams for the non-vacuity examples -/

def tx (s : String) (ew : String := "") (line col : Nat := 1) : Tok :=
  .text { tt := s.toList, ew := ew.toList, endWs := none, tab := none, line := line, col := col }

/-- block pass of `"    a\n\n     b\n"` followed by `"p  \n q \n"` -/
def sample : List Tok :=
  [.icode "    ".toList [] 0, tx "a" "" 1 5, .blank [] 2 1, tx "b" "     " 3 6, .other 4,
   .para [] 5, tx "p  " "" 4 1, tx "q " " " 5 2, .other 8]

/-- the returned list (`[]` for an exception), for the concrete examples -/
def outOf (r : Except Err (List Tok)) : List Tok := match r with | .ok l => l | .error _ => []

theorem ok_outOf (r : Except Err (List Tok)) (h : r.toBool = true) : r = .ok (outOf r) := by
  cases r <;> simp [Except.toBool] at h <;> rfl

/-! ### totality -/

/-- **coalesce_total** (full statement, false): the pass returns for every token list.
It raises `IndexError` exactly on the empty list (`first_pass_results[0]`) and on a list whose first token is a text token
and whose second token is a text or blank-line token (`coalesced_list[-2]` on a one-element list). -/
theorem coalesce_error_iff (ts : List Tok) :
    (∃ e, coalesce false ts = .error e) ↔ (ts = [] ∨ headOK ts = false) := by
  constructor
  · intro ⟨e, he⟩
    by_cases h1 : ts = []
    · exact Or.inl h1
    · cases h2 : headOK ts with
      | false => exact Or.inr rfl
      | true => obtain ⟨out, ho⟩ := coalesce_false_ok ts h1 h2; rw [ho] at he; cases he
  · intro h; exact ⟨.index, coalesce_false_err ts h⟩

/-- **coalesce_total_partial**: no exception (no `IndexError`, no failed `assert`, none from the white-space scans) for any
non-empty token list that does not start `text, text` / `text, blank` — in particular for every list whose first token is
not a text token, which holds for every stream the block pass emits (a text token stands inside a leaf block). -/
theorem coalesce_total_partial (ts : List Tok) (hne : ts ≠ []) (hh : headOK ts = true) :
    ∃ out, coalesce false ts = .ok out :=
  coalesce_false_ok ts hne hh

example : sample ≠ [] ∧ headOK sample = true := by decide

/-- the excluded points are real, and the only error is `IndexError` -/
theorem coalesce_excluded_empty : coalesce false [] = .error .index := rfl
theorem coalesce_excluded_head_text : coalesce false [tx "a", tx "b"] = .error .index := by decide
theorem coalesce_excluded_head_text_blank : coalesce false [tx "a", .blank [] 2 1] = .error .index := by decide
theorem coalesce_error_is_index (ts : List Tok) (e : Err) (h : coalesce false ts = .error e) : e = .index := by
  have := (coalesce_error_iff ts).mp ⟨e, h⟩
  rw [coalesce_false_err ts this] at h; cases h; rfl

/-- second call: a blank line after the text token of a code block makes `__combine_only_text_blocks` read `.token_text`
of a blank-line token (`AttributeError`).  The first call never leaves this shape behind (`coalesce_no_blank_in_code`). -/
theorem coalesceOnly_attribute_witness :
    coalesce true [.fcode 0, tx "a", .blank [] 2 1] = .error .attribute := by decide

/-! ### normal form of the output -/

/-- **coalesce_no_adjacent_text**: the output never has two adjacent text tokens — whatever token precedes them
(paragraph, setext heading, code block, html block, or any other): a text token after a text token is always merged. -/
theorem coalesce_no_adjacent_text (only : Bool) (ts out : List Tok) (h : coalesce only ts = .ok out) :
    ∀ pre a b post, out = pre ++ a :: b :: post → ¬(a.isText = true ∧ b.isText = true) := by
  unfold coalesce at h
  split at h
  · cases h
  · next l hm =>
    have hn := (merge_norm only ts l hm).1
    split at h
    · cases h; exact normR_noTT only _ hn
    · next ho =>
      have : normR only out.reverse = true := by
        rw [normR_sig only l.reverse out.reverse (by rw [List.map_reverse, List.map_reverse, calcFinal_sig l out h])]
        exact hn
      exact normR_noTT only out this

/-- **coalesce_no_blank_in_code**: after the first call no blank-line token stands directly after a code-block start
(indented or fenced) nor after the text token that follows one: blank lines inside code blocks are folded into the text. -/
theorem coalesce_no_blank_in_code (ts out : List Tok) (h : coalesce false ts = .ok out) :
    (∀ pre a b post, out = pre ++ a :: b :: post → ¬(a.isCode = true ∧ b.isBlank = true)) ∧
    (∀ pre a b c post, out = pre ++ a :: b :: c :: post → ¬(a.isCode = true ∧ b.isText = true ∧ c.isBlank = true)) := by
  unfold coalesce at h
  split at h
  · cases h
  · next l hm =>
    have hn := (merge_norm false ts l hm).1
    simp only [Bool.false_eq_true, ↓reduceIte] at h
    have : normR false out.reverse = true := by
      rw [normR_sig false l.reverse out.reverse (by rw [List.map_reverse, List.map_reverse, calcFinal_sig l out h])]
      exact hn
    exact ⟨normR_noCB out this, normR_noCTB false out this⟩

example : ∃ out, coalesce false sample = .ok out ∧ out.length = 6 :=
  ⟨_, ok_outOf _ (by decide), by decide⟩

/-! ### content -/

/-- **coalesce_preserves_content** (merge loop, unconditional): the flattening — per segment the header, its
`indented_whitespace`, and the columns `extracted_whitespace` / `token_text` / `tabified_text or token_text` of its lines joined
under the separator discipline, the position of the first line — is the same before and after the merge loop. -/
theorem merge_preserves_content (ts out : List Tok) (h : merge false ts = .ok out) : flatten out = flatten ts :=
  merge_flatten ts out h

/-- **coalesce_preserves_content**: the whole first call (`__calculate_final_whitespaces` included) leaves the flattening
unchanged, provided every paragraph / setext token still has an empty `final_whitespace` (it is only ever set here) and no
non-empty `tabified_text` is entirely white space. -/
theorem coalesce_preserves_content (ts out : List Tok) (hc : ∀ t ∈ ts, clean t = true)
    (h : coalesce false ts = .ok out) : flatten out = flatten ts := by
  unfold coalesce at h
  split at h
  · cases h
  · next l hm =>
    simp only [Bool.false_eq_true, ↓reduceIte] at h
    have hn := (merge_norm false ts l hm).1
    rw [← merge_flatten ts l hm]
    exact calcFinal_flat l out (clean_merge ts l hc hm) (normR_noTT false l hn) h FSt.init

example : (∀ t ∈ sample, clean t = true) ∧ ∃ out, coalesce false sample = .ok out ∧ flatten out = flatten sample :=
  ⟨by decide, _, ok_outOf _ (by decide), by decide⟩

/-- excluded point 1: a `final_whitespace` already set is overwritten (lost) -/
theorem content_excluded_final :
    ∃ out, coalesce false [.para "x".toList 0, tx "a"] = .ok out ∧ flatten out ≠ flatten [.para "x".toList 0, tx "a"] :=
  ⟨_, ok_outOf _ (by decide), by decide⟩

def tabWitness : List Tok :=
  [.para [] 0, .text { tt := "y ".toList, ew := [], endWs := none, tab := some "\t".toList, line := 1, col := 1 }]

/-- excluded point 2: tabified text that is all white space while the text is not — the trailing white space of the text is
dropped, that of the tabified text is stored, and `tabified_text` becomes empty -/
theorem content_excluded_tab :
    ∃ out, coalesce false tabWitness = .ok out ∧ flatten out ≠ flatten tabWitness :=
  ⟨_, ok_outOf _ (by decide), by decide⟩

/-- second call: it concatenates; the concatenation of all `token_text`s and of all `extracted_whitespace`s is unchanged -/
theorem coalesceOnly_preserves_text (ts out : List Tok) (h : coalesce true ts = .ok out) :
    cat ttOf out = cat ttOf ts ∧ cat ewOf out = cat ewOf ts := by
  unfold coalesce at h
  split at h
  · cases h
  · next l hm => cases h; exact merge_only_cat ts _ hm

/-! ### non-text tokens, well-formedness -/

/-- **coalesce_preserves_nonText**: every token that is neither a text nor a blank-line token survives, in order, unchanged
except for the two fields the pass writes (`final_whitespace`, `indented_whitespace`). -/
theorem coalesce_preserves_nonText (only : Bool) (ts out : List Tok) (h : coalesce only ts = .ok out) :
    skel out = skel ts := by
  unfold coalesce at h
  split at h
  · cases h
  · next l hm =>
    split at h
    · cases h; exact merge_skel only ts _ hm
    · rw [calcFinal_skel l out h]; exact merge_skel only ts l hm

/-- what happens to each input token: kept in place, merged away, or (blank line directly after a code-block start) replaced
by a text token — the output is, up to payload, the input with the marks applied. -/
theorem coalesce_marks_spec (only : Bool) (ts out : List Tok) (h : coalesce only ts = .ok out) :
    out.map shp = applyMarks TXT (marks only ts) (ts.map shp) :=
  coalesce_marks only ts out h

/-- **coalesce_preserves_wf** (the direction that holds): let `W` be the abstract stream (Verif.Model.WellFormed) of the input.
If `W`, with the blank lines the pass folds into code blocks read as text atoms, is well nested and class-respecting, so is the
abstract stream of the output (`dropMarked`: the merged-away positions removed, back-pointers renumbered).
The converse fails for the class discipline: the block pass leaves BLANK (leaf class) tokens inside code blocks, which the
monitor rejects, and the pass repairs exactly that (`blank_in_code_is_rejected`). -/
theorem coalesce_preserves_wf (only : Bool) (ts : List Tok) (W : List WTok) (hlen : W.length = ts.length)
    (h : WellNested (shapeFix (marks only ts) W) ∧ ClassOK (shapeFix (marks only ts) W)) :
    WellNested (dropMarked 0 (marks only ts) (shapeFix (marks only ts) W)) ∧
      ClassOK (dropMarked 0 (marks only ts) (shapeFix (marks only ts) W)) :=
  dropMarked_wf 0 _ _ (shapeFix_atoms _ W (by have := marks_length only ts; omega)) h

/-- the abstract stream of `sample` as the harness computes it (names, classes, back-pointers as indices) -/
def sampleW : List WTok :=
  [⟨"icode-block", .leaf, .start⟩, ⟨"text", .inline, .atom⟩, ⟨"BLANK", .leaf, .atom⟩, ⟨"text", .inline, .atom⟩,
   ⟨"end-icode-block", .inline, .end_ 0⟩,
   ⟨"para", .leaf, .start⟩, ⟨"text", .inline, .atom⟩, ⟨"text", .inline, .atom⟩, ⟨"end-para", .inline, .end_ 5⟩]

example : Verif.Model.WellFormed.wfCheck (shapeFix (marks false sample) sampleW) = .ok () := by decide
example : Verif.Model.WellFormed.wfCheck (dropMarked 0 (marks false sample) (shapeFix (marks false sample) sampleW)) = .ok () := by
  decide
example : (dropMarked 0 (marks false sample) (shapeFix (marks false sample) sampleW)).length = 6 := by decide
/-- the block-pass stream itself is NOT class-respecting: a BLANK inside the code block -/
theorem blank_in_code_is_rejected :
    Verif.Model.WellFormed.wfCheck sampleW = .error ⟨2, .blockInLeaf⟩ := by decide

/-! ### idempotence -/

/-- the merge loop is idempotent in both modes -/
theorem merge_idempotent (only : Bool) (ts l : List Tok) (h : merge only ts = .ok l) : merge only l = .ok l :=
  merge_idem only ts l h

/-- **coalesce_idempotent** for the second call: exact. -/
theorem coalesceOnly_idempotent (ts l : List Tok) (h : coalesce true ts = .ok l) : coalesce true l = .ok l := by
  unfold coalesce at h ⊢
  split at h
  · cases h
  · next l' hm => cases h; rw [merge_idem true ts _ hm]; rfl

/-- the second call is the identity on what the first call returns (the pipeline runs the inline pass in between) -/
theorem coalesceOnly_after_full (ts l : List Tok) (h : coalesce false ts = .ok l) : coalesce true l = .ok l := by
  unfold coalesce at h
  split at h
  · cases h
  · next l0 hm =>
    simp only [Bool.false_eq_true, ↓reduceIte] at h
    obtain ⟨hn, hne⟩ := merge_norm false ts l0 hm
    have hn1 : normR false l.reverse = true := by
      rw [normR_sig false l0.reverse l.reverse (by rw [List.map_reverse, List.map_reverse, calcFinal_sig l0 l h])]
      exact hn
    have hne1 : l ≠ [] := by
      intro e; subst e
      have := calcFinal_sig l0 [] h
      cases l0 <;> simp at this; exact hne rfl
    unfold coalesce
    rw [merge_id true l hne1 (normR_true_of_false _ hn1)]
    rfl

/-- **coalesce_idempotent_partial** for the first call: a second run changes nothing except that it resets
`final_whitespace` (the trailing white space is gone from the text, so the second run stores the empty string). -/
theorem coalesce_idempotent_partial (ts l : List Tok) (h : coalesce false ts = .ok l) :
    ∃ l2, coalesce false l = .ok l2 ∧ l2.map eraseFin = l.map eraseFin := by
  unfold coalesce at h
  split at h
  · cases h
  · next l0 hm =>
    simp only [Bool.false_eq_true, ↓reduceIte] at h
    obtain ⟨hn, hne⟩ := merge_norm false ts l0 hm
    have hn1 : normR false l.reverse = true := by
      rw [normR_sig false l0.reverse l.reverse (by rw [List.map_reverse, List.map_reverse, calcFinal_sig l0 l h])]
      exact hn
    have hne1 : l ≠ [] := by
      intro e; subst e
      have := calcFinal_sig l0 [] h
      cases l0 <;> simp at this; exact hne rfl
    obtain ⟨l2, h2, e2⟩ := calcFinal_twice l0 l h
    refine ⟨l2, ?_, e2⟩
    unfold coalesce
    rw [merge_id false l hne1 hn1]
    simpa using h2

/-- the excluded point is real: paragraph `"a "` — the first run stores `" "`, the second run overwrites it with `""` -/
theorem coalesce_not_idempotent_witness :
    ∃ l l2, coalesce false [.para [] 0, tx "a "] = .ok l ∧ coalesce false l = .ok l2 ∧ l2 ≠ l :=
  ⟨_, _, ok_outOf _ (by decide), ok_outOf _ (by decide), by decide⟩

/-! ### positions -/

/-- **position of a merged text token = position of the first**: `combine` (both modes) and `remove_final_whitespace` keep
`line_number` / `column_number`; a folded leading blank line gives its own position to the text token that replaces it.
(The flattening records the position of the first line of every run, so `coalesce_preserves_content` carries it too.) -/
theorem merged_position_first (x x' : Text) (t : Tok) (rls : Int) (r : Verif.Model.Recognisers.Str) :
    (combine x t rls = .ok (x', r) → x'.line = x.line ∧ x'.col = x.col) ∧
    (combineOnly x t = .ok (x', r) → x'.line = x.line ∧ x'.col = x.col) ∧
    (removeFinalWs x = .ok (x', r) → x'.line = x.line ∧ x'.col = x.col) :=
  ⟨combine_position x x' t rls r, combineOnly_position x x' t r, removeFinalWs_position x x' r⟩

theorem blank_replacement_position (ew : Verif.Model.Recognisers.Str) (l c : Nat) :
    blankAsText ew l c = .text { tt := [], ew := ew, endWs := none, tab := none, line := l, col := c } := rfl

example : ∃ out, coalesce false sample = .ok out ∧
    out.filterMap (fun t => match t with | .text x => some (x.line, x.col) | _ => none) = [(1, 5), (4, 1)] :=
  ⟨_, ok_outOf _ (by decide), by decide⟩

end Verif.Props.Coalesce
