/-
  C09 — fix mode converges.  Theorems about the level scheduler (`__process_file_fix` /
  `__process_file_fix_next_level`) for every pass function, and the conditions H1/H2/detection
  under which one run reaches a fixed point.
-/
import Verif.Lemmas.Sched
namespace Verif.Props.C09
open Verif.Model.FixSched

variable {Doc : Type}

/-- Levels are visited in strictly increasing order (the code's
`assert triggered_plugin_fix_level > minimum_fix_level` always holds). -/
theorem levels_strictly_increase (step : Nat → Doc → PassRes Doc) :
    ∀ (fuel k : Nat) (d : Doc),
    (schedLoop step fuel k d).2.2.Pairwise (· < ·) ∧ ∀ j ∈ (schedLoop step fuel k d).2.2, k ≤ j
  | 0, k, d => by simp [schedLoop]
  | fuel + 1, k, d => by
    simp only [schedLoop]
    split
    · simp
    · rename_i k' h
      have hm := (minOpt_mem _ _ h).1
      have hk : k < k' := by simpa using (List.mem_filter.mp hm).2
      have ih := levels_strictly_increase step fuel k' (step k d).doc
      refine ⟨List.pairwise_cons.mpr ⟨fun j hj => Nat.lt_of_lt_of_le hk (ih.2 j hj), ih.1⟩, ?_⟩
      intro j hj
      simp only [List.mem_cons] at hj
      rcases hj with rfl | hj
      · exact Nat.le_refl _
      · exact Nat.le_of_lt (Nat.lt_of_lt_of_le hk (ih.2 j hj))

/-- With every triggered level bounded by `M`, the loop needs at most `M - k + 1` passes: the
fuel `len(rules) + 1` the model carries is never the reason to stop. -/
theorem passes_bounded (step : Nat → Doc → PassRes Doc) (M : Nat)
    (hb : ∀ k d, ∀ j ∈ (step k d).trigLevels, j ≤ M) :
    ∀ (fuel k : Nat) (d : Doc), (schedLoop step fuel k d).2.2.length ≤ M - k + 1
  | 0, k, d => by simp [schedLoop]
  | fuel + 1, k, d => by
    simp only [schedLoop]
    split
    · simp
    · rename_i k' h
      have hm := (minOpt_mem _ _ h).1
      have hk : k < k' := by simpa using (List.mem_filter.mp hm).2
      have hM : k' ≤ M := hb k d k' (List.mem_filter.mp hm).1
      have ih := passes_bounded step M hb fuel k' (step k d).doc
      simp only [List.length_cons]; omega

/-- **Fixed point.**  `Trig j d`: some fix-capable rule of level `j` would report on `d`.
If every pass (H1) cleans its own level, (H2) creates no trigger at a lower level, and (Hdet) every
higher-level rule that triggers on the pass result was detected during the pass, then after one
`fix` run no fix-capable rule of any level triggers — provided nothing below the first level
triggers initially (there are no rules there) and the fuel suffices. -/
theorem fix_fixed_point (step : Nat → Doc → PassRes Doc) (Trig : Nat → Doc → Prop) (M : Nat)
    (H1 : ∀ k d, ¬ Trig k (step k d).doc)
    (H2 : ∀ k d j, j < k → ¬ Trig j d → ¬ Trig j (step k d).doc)
    (Hdet : ∀ k d j, k < j → Trig j (step k d).doc → j ∈ (step k d).trigLevels)
    (hb : ∀ k d, ∀ j ∈ (step k d).trigLevels, j ≤ M) :
    ∀ (fuel k : Nat) (d : Doc), M - k < fuel → (∀ j, j < k → ¬ Trig j d) →
      ∀ j, ¬ Trig j (schedLoop step fuel k d).1
  | 0, k, d, hf, _ => by omega
  | fuel + 1, k, d, hf, hlow => by
    simp only [schedLoop]
    split
    · rename_i h
      have hnil := minOpt_none _ h
      intro j
      rcases Nat.lt_trichotomy j k with hj | hj | hj
      · exact H2 k d j hj (hlow j hj)
      · subst hj; exact H1 j d
      · intro ht
        have := Hdet k d j hj ht
        have hin : j ∈ (step k d).trigLevels.filter (· > k) := List.mem_filter.mpr ⟨this, by simpa using hj⟩
        rw [hnil] at hin; cases hin
    · rename_i k' h
      have hm := minOpt_mem _ _ h
      have hk : k < k' := by simpa using (List.mem_filter.mp hm.1).2
      have hM : k' ≤ M := hb k d k' (List.mem_filter.mp hm.1).1
      refine fix_fixed_point step Trig M H1 H2 Hdet hb fuel k' (step k d).doc (by omega) ?_
      intro j hj
      rcases Nat.lt_trichotomy j k with hjk | hjk | hjk
      · exact H2 k d j hjk (hlow j hjk)
      · subst hjk; exact H1 j d
      · intro ht
        have := Hdet k d j hjk ht
        have hin : j ∈ (step k d).trigLevels.filter (· > k) := List.mem_filter.mpr ⟨this, by simpa using hjk⟩
        have := hm.2 j hin
        omega

/-- **Idempotence.**  If, in addition, a document on which nothing triggers passes through a
pass untouched and undetected, a second `fix` run changes nothing. -/
theorem fix_idempotent (step : Nat → Doc → PassRes Doc) (Trig : Nat → Doc → Prop)
    (H3 : ∀ k d, (∀ j, ¬ Trig j d) → (step k d).doc = d ∧ (step k d).changed = false ∧
      (step k d).trigLevels.filter (· > k) = [])
    (fuel k : Nat) (d : Doc) (hclean : ∀ j, ¬ Trig j d) :
    schedLoop step (fuel + 1) k d = (d, false, [k]) := by
  have h := H3 k d hclean
  simp only [schedLoop, h.2.2, minOpt, h.1, h.2.1]

/-- **Same-level gap.**  Without H2 *at the same level* the scheduler provably leaves a
trigger: rule B (runs first, by id) is clean on the input; rule A's fix creates B's trigger; both
are at level 1, so no further pass is made.  (The shape of MD029 → MD030 on `10. x`.)
Executable check, evaluated at build time. -/
def gapA : XRule := ⟨"VPB002", 1, true, false, false, true, false, fun _ => false,
  fun l => l == "a", fun l => if l == "a" then some "b" else none, fun _ => none⟩
def gapB : XRule := ⟨"VPA001", 1, true, false, false, true, false, fun _ => false,
  fun l => l == "b", fun l => if l == "b" then some "c" else none, fun _ => none⟩
#guard ((fixFile [gapB, gapA] (fun _ => []) (fun _ _ => none) "a").map fun o => (o.content, o.levels)) == some ("b", [1])
#guard gapB.lineTrig "b"   -- the result still triggers B: not a fixed point

end Verif.Props.C09
