/-
  C01 — Parsing is total: every document tokenizes, and in bounded time.

  What is proved here (level: proof, partial):
    * the control of the block pass (`__parse_blocks_pass`): under the requeue protocol `Legal` every run of the
      main loop has at most `(n+1)(n+2)/2 + n` iterations, its own assertions never fire, the line number handed to
      the per-line machinery is the physical index of the line, and when the loop ends every line has been consumed;
    * the pure line recognisers never raise `IndexError`/`AssertionError`, for any input, and the leaf-block ones
      decide exactly the CommonMark sentence;
    * the list-closing loop terminates *if* every repeating iteration shrinks the stack — and there is a concrete
      state (recorded from `'  - a\n- 1)'`) where the `do_not_emit` branch repeats with an unchanged stack, so the
      hypothesis cannot be dropped;
    * the specification (LeanMark) is a total function: no document *demands* non-termination.
  The protocol `Legal` is read off the two places that build a `RequeueLineInfo` (link_reference_definition_helper.py,
  block_quote_processor.py `__check_if_really_start_list`); that the real code obeys it is validated on every recorded
  iteration of the real loop by tools/props/c01.py, not proved.
  What is not proved: the ~150 other loops and several hundred asserts inside the container / leaf / inline
  handlers (reached by the enumeration in tools/props/c01.py only), and CPU time (a runtime fact).
-/
import Verif.Lemmas.MainLoop
import Verif.Lemmas.RecogSpec
import Verif.Lemmas.CloseLoop
import Verif.Model.LeanMark.Html
namespace Verif.Props.C01
open Verif.Model

deriving instance DecidableEq for Except

/-! ## (a) the main loop -/
section MainLoop
open Verif.Model.MainLoop

/-- Every run of the main loop that respects the requeue protocol has at most `(n+1)(n+2)/2 + n` iterations plus
one per block-quote restart, `n` the number of lines (exact accounting) … -/
theorem mainloop_terminates (doc : List Line) (answers : List Answer) (final : State)
    (h : LegalRun (init doc) answers final) :
    answers.length ≤ (doc.length + 1) * (doc.length + 2) / 2 + doc.length + selfSteps (init doc) answers := by
  have := (legalRun_spec (inv_init doc) h).2
  rw [potential_init] at this
  have h2 : 2 * T doc.length = (doc.length + 1) * (doc.length + 2) + 2 * doc.length := T_closed doc.length
  generalize (doc.length + 1) * (doc.length + 2) = m at *
  omega

/-- … and since every restart shrinks the token stack, a bound `K` on the stack depth bounds the run outright:
the loop terminates, and the number of line visits is quadratic in the number of lines. -/
theorem mainloop_terminates_bounded_depth (doc : List Line) (answers : List Answer) (final : State) (K : Nat)
    (h : LegalRun (init doc) answers final) (hK : ∀ a ∈ answers, a.depth ≤ K) :
    answers.length ≤ (K + 1) * ((doc.length + 1) * (doc.length + 2) / 2 + doc.length) + 1 := by
  have := legalRun_depth K (inv_init doc) h hK
  rw [potential_init] at this
  have h2 : 2 * T doc.length = (doc.length + 1) * (doc.length + 2) + 2 * doc.length := T_closed doc.length
  have h3 : T doc.length = (doc.length + 1) * (doc.length + 2) / 2 + doc.length := by
    generalize (doc.length + 1) * (doc.length + 2) = m at *
    omega
  rw [← h3]
  have hd : (init doc).depth = 1 := rfl
  rw [hd] at this
  omega

def l1 : Line := ['[', 'a', ']', ':']
def l2 : Line := ['[', 'b', ']', ':']
def hold : Answer := { requeue := none, hold := true }
def plain : Answer := { requeue := none, hold := false }
def rq (lines : List Line) (force : Bool) : Answer := { requeue := some ⟨lines, force⟩, hold := false }

/-- non-vacuity and tightness: two lines, the first starts a definition, the second continues it, the close hands
both back (`["", l2, l1]`, ignore flag set); `l1` is consumed, `l2` starts again, is handed back at the second close
and consumed: 8 iterations = `(2+1)(2+2)/2 + 2`, all legal, no restart, and the loop has ended with both lines consumed. -/
example :
    replayOk (init [l1, l2]) [hold, hold, rq [[], l2, l1] true, plain, hold, rq [[], l2] true, plain, plain]
      (fun s => !s.running && s.committed == [l1, l2]) = true ∧
    [hold, hold, rq [[], l2, l1] true, plain, hold, rq [[], l2] true, plain, plain].length = (2 + 1) * (2 + 2) / 2 + 2 ∧
    selfSteps (init [l1, l2]) [hold, hold, rq [[], l2, l1] true, plain, hold, rq [[], l2] true, plain, plain] = 0 := by decide

/-- Without the ignore flag on a full requeue the protocol is broken (and the loop could go on for ever):
the same first three answers with `force_ignore_first_as_lrd = False` are rejected at iteration 2. -/
example : replayErr (init [l1, l2]) [hold, hold, rq [[], l2, l1] false] = some (.illegal 2) := by decide

/-- the block-quote restart (`'- a\n> b'`): line 2 is handed back once while the stack shrinks from 3 to 1 — legal;
handing it back without shrinking the stack is not. -/
example :
    replayOk (init [['-', ' ', 'a'], ['>', ' ', 'b']])
      [{ requeue := none, hold := false, depth := 3 }, { requeue := some ⟨[['>', ' ', 'b']], false⟩, hold := false, depth := 1 },
       { requeue := none, hold := false, depth := 3 }, { requeue := none, hold := false, depth := 1 }]
      (fun s => !s.running) = true ∧
    replayErr (init [['-', ' ', 'a'], ['>', ' ', 'b']])
      [{ requeue := none, hold := false, depth := 3 }, { requeue := some ⟨[['>', ' ', 'b']], false⟩, hold := false, depth := 3 }]
      = some (.illegal 1) := by decide

/-- Under the protocol none of the main loop's own assertions can fire. -/
theorem mainloop_no_assertion (doc : List Line) (answers : List Answer) (s : State) (a : Answer)
    (h : LegalRun (init doc) answers s) (hL : Legal s a) : ∃ s', step s a = .ok s' :=
  legal_step_ok (legalRun_spec (inv_init doc) h).1 hL

/-- The line number handed down with a line is its (1-based) position in the document as the parser sees it,
whatever was requeued before; that document has as many lines as the input … -/
theorem mainloop_line_numbers (doc : List Line) (answers : List Answer) (s : State) (l : Line)
    (h : LegalRun (init doc) answers s) (hc : s.cur = some l) :
    1 ≤ s.lineNo ∧ s.lineNo ≤ doc.length ∧ s.doc.length = doc.length ∧ s.doc[(s.lineNo - 1).toNat]? = some l := by
  obtain ⟨hlay, hcnt, hln, -, -, -, -, -⟩ := (legalRun_spec (inv_init doc) h).1
  have e : (s.lineNo - 1).toNat = s.committed.length + s.pending.length := by omega
  have hlen : s.committed.length + s.pending.length + 1 ≤ s.doc.length := by
    rw [hlay, hc]; simp; omega
  refine ⟨by omega, by omega, hcnt, ?_⟩
  rw [e, hlay, hc]
  simp [List.append_assoc]

/-- … and it *is* the input, line for line, unless a requeue handed the current line back in another spelling (the
block-quote restart hands back `position_marker.text_to_parse`, i.e. the line with its tabs expanded; a whitespace-only
line that ends a pending definition comes back as `""`): on a run whose requeues hand the current line back verbatim
the line numbered `k` is the `k`-th physical line.  The trace harness counts the non-verbatim requeues. -/
theorem mainloop_line_numbers_exact (doc : List Line) (answers : List Answer) (s : State) (l : Line)
    (h : LegalRun (init doc) answers s) (hex : allExact (init doc) answers = true) (hc : s.cur = some l) :
    doc[(s.lineNo - 1).toNat]? = some l := by
  have := (mainloop_line_numbers doc answers s l h hc).2.2.2
  rw [legalRun_exact (inv_init doc) h hex] at this
  exact this

/-- after a requeue of two lines the loop is back on line 1 with line number 1 -/
example :
    replayOk (init [l1, ['b']]) [hold, rq [['b'], l1] true]
      (fun s => s.cur == some l1 && s.lineNo == 1 && s.requeue == [['b']] && s.ignore) = true ∧
    allExact (init [l1, ['b']]) [hold, rq [['b'], l1] true] = true := by decide

/-- When the loop has ended every line of the document has been consumed exactly once, in order. -/
theorem mainloop_consumes_all (doc : List Line) (answers : List Answer) (s : State)
    (h : LegalRun (init doc) answers s) (hend : s.running = false) :
    s.committed = s.doc ∧ s.committed.length = doc.length := by
  obtain ⟨hlay, hcnt, -, -, -, hce, -, hdone⟩ := (legalRun_spec (inv_init doc) h).1
  obtain ⟨hp, hc⟩ := hdone hend
  obtain ⟨hq, hs⟩ := hce hc
  have : s.doc = s.committed := by rw [hlay, hp, hc, hq, hs]; simp
  exact ⟨this.symm, by rw [← this]; exact hcnt⟩

end MainLoop

/-! ## (b) the line recognisers -/
section Recognisers
open Verif.Model.Recognisers

/-- **Index safety.**  None of the modelled recognisers can raise (`IndexError`, `AssertionError`) or run out of
fuel, whatever the line, the index, the whitespace argument and the flags — with the single exception stated in
`countBqStarts_partial`. -/
theorem recognisers_total (line ws cs : Str) (start : Nat) (e : Int) (c fc : Char) (fn delta : Nat)
    (skip allow inPara : Bool) :
    Returns (collectWhileChar line start c) ∧
    Returns (collectWhileOneOf line start cs) ∧
    Returns (collectBackwardsOneOf line e cs) ∧
    Returns (detabify line delta) ∧
    Returns (isThematicBreak line start ws skip allow) ∧
    Returns (isAtxHeading line start ws skip) ∧
    Returns (atxAdjust line) ∧
    Returns (isFencedCodeBlock line start ws skip) ∧
    Returns (isFenceOpen line start ws) ∧
    Returns (isFenceClose line start ws fc fn) ∧
    Returns (isSetextUnderline line start ws) ∧
    Returns (isStartUlist line start ws) ∧
    (∃ r, isStartOlist line start = .ok r) ∧
    Returns (isUlistStart line start ws skip inPara) ∧
    Returns (isOlistStart line start ws skip inPara) :=
  ⟨collectWhileChar_total _ _ _, collectWhileOneOf_total _ _ _, collectBackwardsOneOf_total _ _ _,
   detabify_total _ _, isThematicBreak_total _ _ _ _ _, isAtxHeading_total _ _ _ _, atxAdjust_total _,
   isFencedCodeBlock_total _ _ _ _, isFenceOpen_total _ _ _, isFenceClose_total _ _ _ _ _,
   isSetextUnderline_total _ _ _, isStartUlist_total _ _ _,
   (let ⟨b, r, h, _⟩ := isStartOlist_ok line start; ⟨(b, r), h⟩),
   isUlistStart_total _ _ _ _ _, isOlistStart_total _ _ _ _ _⟩

/-- the whitespace extractors are total functions already by type (`Option` for Python's `(None, None)`); the ones
with a `_verified` twin raise exactly when the start index lies outside the string -/
theorem extractSpacesVerified_iff (s : Str) (start : Nat) :
    Returns (extractSpacesVerified s start) ↔ start ≤ s.length := by
  unfold extractSpacesVerified Returns
  rw [extractSpaces_eq]
  split <;> simp_all

/-- `count_block_quote_starts` returns for every index inside the line (its caller tests for a `>` there first) … -/
theorem countBqStarts_partial (line : Str) (start : Nat) (h : start < line.length) :
    Returns (countBqStarts line start) := countBqStarts_total line start h

/-- … and the hypothesis is needed: with an index at or past the end of the line the Python loop neither runs
out of line nor sees a non-`>` character, and counts for ever. -/
example : countBqStarts [] 0 = .error .diverges := by simp [countBqStarts, bqLoop]
example : countBqStarts ['>', ' ', '>', 'a'] 0 = .ok (2, 3, 3) := by
  simp [countBqStarts, bqLoop, isWsAt, isCharAtOneOf, isCharAtNot, SP, TAB]

/-- the mutant "`collect_while_character` without the bound check" is an `IndexError` in the model's terms:
reading one past the end fails -/
example : charAt ['#', '#'] 2 = .error .index := by decide
example : collectWhileChar ['#', '#', ' '] 0 '#' = .ok (some (2, 2)) := by rw [collectWhileChar_eq]; decide

/-- **Thematic break** (CommonMark 4.1): `is_thematic_break`, applied to a line the way the block pass applies it,
accepts exactly: up to three spaces, then `c ∈ {*, _, -}`, then only `c`, spaces and tabs, with at least three `c`. -/
theorem thematic_spec (line : Str) : lineThematic line = .ok true ↔ SpecThematic line := lineThematic_spec line

example : SpecThematic " * * *\t".toList := ⟨1, "* * *\t".toList, by decide, by decide, '*', " * *\t".toList, by decide, by decide, by decide, by decide⟩
example : lineThematic "--".toList = .ok false := by rw [lineThematic_eval]; decide
example : lineThematic "    ---".toList = .ok false := by rw [lineThematic_eval]; decide

/-- **ATX heading start** (CommonMark 4.2): up to three spaces, 1–6 `#`, then a space, a tab or the end of line. -/
theorem atx_spec (line : Str) : lineAtx line = .ok true ↔ SpecAtx line := lineAtx_spec line

example : lineAtx "## h".toList = .ok true := by rw [lineAtx_eval]; decide
example : lineAtx "#######".toList = .ok false := by rw [lineAtx_eval]; decide
example : lineAtx "#h".toList = .ok false := by rw [lineAtx_eval]; decide

/-- **Fence open** (CommonMark 4.5): up to three spaces, at least three backticks or tildes, and for a backtick
fence no backtick in the rest of the line. -/
theorem fence_open_spec (line : Str) : lineFenceOpen line = .ok true ↔ SpecFenceOpen line := lineFenceOpen_spec line

example : lineFenceOpen "```py".toList = .ok true := by rw [lineFenceOpen_eval]; decide
example : lineFenceOpen "``` a`b".toList = .ok false := by rw [lineFenceOpen_eval]; decide
example : lineFenceOpen "~~~ a`b".toList = .ok true := by rw [lineFenceOpen_eval]; decide

/-- **Setext underline** (CommonMark 4.3): up to three spaces, a run of `=` or of `-`, then only spaces and tabs. -/
theorem setext_spec (line : Str) : lineSetext line = .ok true ↔ SpecSetext line := lineSetext_spec line

example : lineSetext "  ===  ".toList = .ok true := by rw [lineSetext_eval]; decide
example : lineSetext "= =".toList = .ok false := by rw [lineSetext_eval]; decide

/-- **Blank line**: the implementation's test accepts exactly the lines made of ASCII whitespace … -/
theorem blank_spec (line : Str) : isBlankLine line = true ↔ ∀ x ∈ line, x ∈ asciiWs := isBlankLine_iff line

/-- … which is CommonMark's "no characters, or only spaces and tabs" (2.1) on every line free of VT, FF and CR … -/
theorem blank_commonmark_partial (line : Str) (h : ∀ x ∈ line, x ≠ '\n' ∧ x ≠ '\x0b' ∧ x ≠ '\x0c' ∧ x ≠ '\r') :
    isBlankLine line = true ↔ ∀ x ∈ line, x = ' ' ∨ x = '\t' := isBlankLine_commonmark_partial line h

/-- … and differs from it on the excluded characters: a form-feed-only line is blank for pymarkdown. -/
example : isBlankLine ['\x0c'] = true ∧ ¬ (∀ x ∈ ['\x0c'], x = ' ' ∨ x = '\t') := by decide

/-- Indentation: "`calculate_length(ws) ≤ 3`" on a run of spaces and tabs means at most three characters, all
spaces — a tab always reaches column 4 (tab stops every 4 columns; with tab width 8 this fails). -/
theorem indentation_spec (w : Str) (hw : ∀ x ∈ w, isWsChar x = true) :
    lenLe w 3 = true ↔ ∃ k, k ≤ 3 ∧ w = List.replicate k SP := lenLe_iff_spaces w hw

/-- **Tab expansion**: `detabify_string(s, delta)` is the column-based expansion of CommonMark 2.2 — every tab is
replaced by the spaces up to the next multiple of four, the text starting in column `delta` (so: tab width 4, and
never an error). -/
theorem detabify_spec (s : Str) (delta : Nat) : detabify s delta = .ok (expandTabs delta s) :=
  Verif.Model.Recognisers.detabify_spec s delta

example : expandTabs 0 "a\tb".toList = "a   b".toList ∧ expandTabs 2 "\t>".toList = "  >".toList := by decide

example : detabify "a\tb".toList 0 = .ok "a   b".toList := by
  simp [detabify, detabLoop, findTab, collectBackwardsSpacesVerified, collectBackwardsOneOf, cbwLoop, charAt,
    collectWhileSpaces, collectWhileOneOf_eq, scanTo, slice, calcLength, tabStep, TAB, SP]
example : detabify "\t>".toList 2 = .ok "  >".toList := by
  simp [detabify, detabLoop, findTab, collectBackwardsSpacesVerified, collectBackwardsOneOf, cbwLoop, charAt,
    collectWhileSpaces, collectWhileOneOf_eq, scanTo, slice, calcLength, tabStep, TAB, SP]

end Recognisers

/-! ## (c) the list-closing loop -/
section CloseLoop
open Verif.Model.CloseLoop

/-- The loop ends (never `fuel`) provided every iteration that asks for a repeat has shrunk the stack — the variant
one has to assume; the code has no such guarantee in its `do_not_emit` branch. -/
theorem closeloop_terminates_partial (ctx : Ctx)
    (variant : ∀ st lli rep emit lli' st', closeNextLevel ctx st lli = .ok (rep, emit, lli', st') → rep = true →
      st'.length < st.length)
    (st : Stack) (lli : Nat) : closeLoop ctx (st.length + 1) st lli ≠ .error .fuel :=
  closeLoop_no_fuel ctx variant _ st lli (Nat.lt_succ_self _)

/-- The variant is needed: in the state the real parser is in at the second list start of `'  - a\n- 1)'` one iteration
takes the `do_not_emit` branch, asks for a repeat and leaves the stack and `last_list_index` unchanged … -/
theorem closeloop_needs_variant :
    closeNextLevel hangCtx hangStack 1 = .ok (true, false, 1, hangStack) ∧
    ∀ fuel, closeLoop hangCtx fuel hangStack 1 = .error .fuel :=
  ⟨hang_fixed_point, hang_diverges⟩

/-- a `+` item at column 1 instead of the `1)`: the do-emit branch closes the old list and the loop ends -/
def emitCtx : Ctx :=
  { newStack := { kind := .ulist, indent := 2, listChar := ['+'], wsBefore := 0, wsAfter := 1, startIndex := 0 },
    newColumn := 1, posIndex := 0, docListIndent := some 4, containerDepth := 0, ccbMany := false,
    line := ['+', ' ', 'b'], closeRequired := id }

example : closeLoop emitCtx 3 hangStack 1 = .ok ([{ kind := .document }], false) := by decide

end CloseLoop

/-! ## (d) the specification is total -/

/-- LeanMark, the reference the parser is compared with (C03/C05), is a total function on documents (it is a Lean
definition without `partial`; its internal fuel is proved sufficient in Verif/Lemmas/LeanMark*): the specification
never demands non-termination or an error, for any document. -/
theorem spec_total (doc : List Char) :
    (∃ html, Verif.Model.LeanMark.html doc = html) ∧
    (∃ evs, Verif.Model.LeanMark.events (Verif.Model.LeanMark.docLines doc) = evs) := ⟨⟨_, rfl⟩, ⟨_, rfl⟩⟩

example : Verif.Model.LeanMark.html "  - a\n- 1)".toList ≠ [] := by decide

end Verif.Props.C01
