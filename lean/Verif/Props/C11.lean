/-
  C11 — pragmas suppress exactly what they name; a pragma line is invisible to the parser.
  Theorems over the faithful `Verif.Model.Pragma` (recognition, compilation, suppression) for
  every document, every pragma text, every id table.
-/
import Verif.Model.Pragma
namespace Verif.Props.C11
open Verif.Model.Pragma

/-- What one compiled pragma covers. -/
def covers (c : Compiled) (line : Nat) (rid : Str) : Prop :=
  (∃ e, c.next = some e ∧ e.1 = line ∧ rid ∈ e.2) ∨
  (∃ e, c.range = some e ∧ e.1 ≤ line ∧ line ≤ e.2.1 ∧ rid ∈ e.2.2)

/-- `disable-next-line` found on line `n` can only ever target line `n + 1`;
`disable-num-lines N` exactly lines `n + 1 … n + N` with `N ≥ 1`. -/
theorem compile_targets (A : List (Str × Str)) (n : Nat) (ext : Bool) (l : Str) :
    (∀ e, (compile A n ext l).next = some e → e.1 = n + 1) ∧
    (∀ e, (compile A n ext l).range = some e → e.1 = n + 1 ∧ ∃ k : Nat, 1 ≤ k ∧ e.2.1 = n + k) := by
  have hN : ∀ a, (∀ e, (compileNextLine A n a).next = some e → e.1 = n + 1) ∧
      (∀ e, (compileNextLine A n a).range = some e → e.1 = n + 1 ∧ ∃ k : Nat, 1 ≤ k ∧ e.2.1 = n + k) := by
    intro a; unfold compileNextLine
    refine ⟨fun e h => ?_, fun e h => by simp at h⟩
    simp only at h
    split at h
    · cases h
    · cases h; rfl
  have hR : ∀ a, (∀ e, (compileNumLines A n a).next = some e → e.1 = n + 1) ∧
      (∀ e, (compileNumLines A n a).range = some e → e.1 = n + 1 ∧ ∃ k : Nat, 1 ≤ k ∧ e.2.1 = n + k) := by
    intro a; unfold compileNumLines
    simp only
    split
    · exact ⟨fun e h => (by cases h), fun e h => (by cases h)⟩
    · split
      · exact ⟨fun e h => (by cases h), fun e h => (by cases h)⟩
      · split
        · exact ⟨fun e h => (by cases h), fun e h => (by cases h)⟩
        · refine ⟨fun e h => (by cases h), fun e h => ?_⟩
          simp only at h
          split at h
          · cases h
          · cases h
            refine ⟨rfl, ((parseInt (List.takeWhile (fun c => !isWs c) (List.dropWhile isWs a))).getD (-1)).toNat, ?_, rfl⟩
            omega
  unfold compile
  simp only
  split
  · exact ⟨fun e h => (by cases h), fun e h => (by cases h)⟩
  · split
    · exact hN _
    · split
      · exact hR _
      · exact ⟨fun e h => (by cases h), fun e h => (by cases h)⟩

/-- A pragma that is malformed as a whole — no command, unknown command, missing / non-positive
count, no id list — suppresses nothing and is reported. -/
theorem malformed_suppresses_nothing (A : List (Str × Str)) (n : Nat) (ext : Bool) (l : Str)
    (line : Nat) (rid : Str)
    (h : (compile A n ext l).next = none ∧ (compile A n ext l).range = none) :
    ¬ covers (compile A n ext l) line rid := by
  rintro (⟨e, he, _⟩ | ⟨e, he, _⟩)
  · rw [h.1] at he; cases he
  · rw [h.2] at he; cases he

/-- Every id that ends up in a table is a registered plug-in id: aliases are normalised through
the id table, unknown names never get in. -/
theorem resolve_ids_registered (A : List (Str × Str)) : ∀ (raw : List Str) (id : Str),
    id ∈ (resolveIds A raw).1 → ∃ k, A.lookup k = some id
  | [], _, h => by simp [resolveIds] at h
  | r :: rest, id, h => by
    unfold resolveIds at h
    simp only at h
    split at h
    · exact resolve_ids_registered A rest id h
    · split at h
      · rename_i pid hp
        simp only [List.mem_cons] at h
        rcases h with h | h
        · exact ⟨_, h ▸ hp⟩
        · exact resolve_ids_registered A rest id h
      · exact resolve_ids_registered A rest id h

/-- …and every unknown or blank name is reported (one failure each), so a pragma never fails
silently. -/
theorem resolve_ids_accounted (A : List (Str × Str)) : ∀ (raw : List Str),
    (resolveIds A raw).1.length + (resolveIds A raw).2.length = raw.length
  | [] => rfl
  | r :: rest => by
    have ih := resolve_ids_accounted A rest
    unfold resolveIds
    simp only
    split
    · simp only [List.length_cons]; omega
    · split <;> simp only [List.length_cons] <;> omega

/-- Naming a rule by its id or by any alias gives the same table entry. -/
theorem alias_invariance (A : List (Str × Str)) (k₁ k₂ : Str) (rest : List Str)
    (h₁ : lower (strip (· == ' ') k₁) ≠ []) (h₂ : lower (strip (· == ' ') k₂) ≠ [])
    (h : A.lookup (lower (strip (· == ' ') k₁)) = A.lookup (lower (strip (· == ' ') k₂)))
    (hs : (A.lookup (lower (strip (· == ' ') k₁))).isSome) :
    (resolveIds A (k₁ :: rest)).1 = (resolveIds A (k₂ :: rest)).1 := by
  unfold resolveIds
  simp only [List.isEmpty_iff, h₁, h₂, if_false]
  rw [← h]
  cases hl : A.lookup (lower (strip (· == ' ') k₁)) with
  | none => simp [hl] at hs
  | some pid => rfl

/-! ### Suppression is exact -/

theorem any_ranges (rs : List (Nat × Nat × List Str)) (line : Nat) (rid : Str) :
    (rs.any fun (i, j, k) => i ≤ line && line ≤ j && k.contains rid) = true ↔
    ∃ e ∈ rs, e.1 ≤ line ∧ line ≤ e.2.1 ∧ rid ∈ e.2.2 := by
  simp only [List.any_eq_true, Bool.and_eq_true, decide_eq_true_eq, List.contains_iff_mem]
  constructor
  · rintro ⟨⟨i, j, k⟩, hm, ⟨h1, h2⟩, h3⟩; exact ⟨(i, j, k), hm, h1, h2, h3⟩
  · rintro ⟨⟨i, j, k⟩, hm, h1, h2, h3⟩; exact ⟨(i, j, k), hm, ⟨h1, h2⟩, h3⟩

/-- the `next` entries of a table are exactly the compiled `next` results, in order -/
theorem table_next (A : List (Str × Str)) : ∀ (pls : List (Nat × Bool × Str)),
    (compileAll A pls).next = pls.filterMap fun p => (compile A p.1 p.2.1 p.2.2).next
  | [] => rfl
  | (n, ext, l) :: rest => by
    simp only [compileAll, List.filterMap_cons]
    rw [table_next A rest]
    cases (compile A n ext l).next <;> rfl

theorem table_ranges (A : List (Str × Str)) : ∀ (pls : List (Nat × Bool × Str)),
    (compileAll A pls).ranges = pls.filterMap fun p => (compile A p.1 p.2.1 p.2.2).range
  | [] => rfl
  | (n, ext, l) :: rest => by
    simp only [compileAll, List.filterMap_cons]
    rw [table_ranges A rest]
    cases (compile A n ext l).range <;> rfl

/-- lookup in an association list whose keys are pairwise distinct -/
theorem lookup_of_mem_nodup {β : Type} : ∀ (l : List (Nat × β)) (k : Nat) (v : β),
    (l.map (·.1)).Nodup → (k, v) ∈ l → l.lookup k = some v
  | [], _, _, _, h => by cases h
  | (k', v') :: rest, k, v, hn, h => by
    simp only [List.map_cons, List.nodup_cons] at hn
    simp only [List.mem_cons, Prod.mk.injEq] at h
    rcases h with ⟨rfl, rfl⟩ | h
    · simp [List.lookup]
    · have : k ≠ k' := by
        rintro rfl; exact hn.1 (List.mem_map.mpr ⟨(k, v), h, rfl⟩)
      simp only [List.lookup]
      have hb : (k == k') = false := by simpa using this
      rw [hb]; exact lookup_of_mem_nodup rest k v hn.2 h

theorem mem_of_lookup {β : Type} : ∀ (l : List (Nat × β)) (k : Nat) (v : β),
    l.lookup k = some v → (k, v) ∈ l
  | [], _, _, h => by cases h
  | (k', v') :: rest, k, v, h => by
    simp only [List.lookup] at h
    split at h
    · rename_i hk; simp only [beq_iff_eq] at hk; cases h; subst hk; exact List.mem_cons_self
    · exact List.mem_cons_of_mem _ (mem_of_lookup rest k v h)

/-- **Suppression exactness.**  With the pragma lines of a document (distinct line numbers),
a failure of rule `rid` on line `line` is swallowed **iff** some pragma of the document covers
exactly that line and names that rule: `disable-next-line` on line `n` covers `n+1` only,
`disable-num-lines N` covers `n+1 … n+N` only (`compile_targets`).  Everything else is printed. -/
theorem suppressed_iff (A : List (Str × Str)) (pls : List (Nat × Bool × Str))
    (hd : (pls.map (·.1)).Nodup) (line : Nat) (rid : Str) :
    (compileAll A pls).suppressed line rid = true ↔
      ∃ p ∈ pls, covers (compile A p.1 p.2.1 p.2.2) line rid := by
  have hkeys : ((compileAll A pls).next.map (·.1)).Nodup := by
    rw [table_next]
    have hsub : ((pls.filterMap fun p => (compile A p.1 p.2.1 p.2.2).next).map (·.1)).Sublist
        (pls.map fun p => p.1 + 1) := by
      clear hd
      induction pls with
      | nil => simp
      | cons p ps ih =>
        simp only [List.filterMap_cons, List.map_cons]
        cases hc : (compile A p.1 p.2.1 p.2.2).next with
        | none => exact List.Sublist.cons _ ih
        | some e =>
          have := (compile_targets A p.1 p.2.1 p.2.2).1 e hc
          simp only [List.map_cons, this]
          exact List.Sublist.cons_cons _ ih
    refine List.Nodup.sublist hsub ?_
    have : (pls.map fun p => p.1 + 1) = (pls.map (·.1)).map (· + 1) := by simp
    rw [this]
    exact List.Pairwise.map (· + 1) (fun a b h => by omega) hd
  unfold Table.suppressed
  rw [Bool.or_eq_true, any_ranges]
  constructor
  · rintro (h | ⟨e, he, h⟩)
    · cases hl : (compileAll A pls).next.lookup line with
      | none => rw [hl] at h; cases h
      | some ids =>
        rw [hl] at h
        have hm := mem_of_lookup _ _ _ hl
        rw [table_next, List.mem_filterMap] at hm
        obtain ⟨p, hp, hc⟩ := hm
        exact ⟨p, hp, Or.inl ⟨(line, ids), hc, rfl, by simpa using h⟩⟩
    · rw [table_ranges, List.mem_filterMap] at he
      obtain ⟨p, hp, hc⟩ := he
      exact ⟨p, hp, Or.inr ⟨e, hc, h⟩⟩
  · rintro ⟨p, hp, ⟨e, hc, h1, h2⟩ | ⟨e, hc, h⟩⟩
    · left
      have hm : (line, e.2) ∈ (compileAll A pls).next := by
        rw [table_next, List.mem_filterMap]
        exact ⟨p, hp, by rw [hc, ← h1]⟩
      rw [lookup_of_mem_nodup _ _ _ hkeys hm]
      simpa using h2
    · right
      refine ⟨e, ?_, h⟩
      rw [table_ranges, List.mem_filterMap]
      exact ⟨p, hp, hc⟩

/-! ### A pragma line is invisible to the block parser -/

/-- The lines the block parser is fed, with their physical line numbers. -/
def feedLines : Nat → List Str → List (Nat × Str)
  | _, [] => []
  | n, l :: ls => if (isPragma l).isSome then feedLines (n + 1) ls else (n, l) :: feedLines (n + 1) ls

theorem feedLines_shift : ∀ (n : Nat) (ls : List Str),
    feedLines (n + 1) ls = (feedLines n ls).map fun p => (p.1 + 1, p.2)
  | _, [] => rfl
  | n, l :: ls => by
    simp only [feedLines]
    split <;> simp [feedLines_shift (n + 1) ls]

theorem feedLines_append : ∀ (n : Nat) (a b : List Str),
    feedLines n (a ++ b) = feedLines n a ++ feedLines (n + a.length) b
  | n, [], b => by simp [feedLines]
  | n, l :: a, b => by
    simp only [List.cons_append, feedLines, List.length_cons]
    have : n + (a.length + 1) = n + 1 + a.length := by omega
    split <;> simp [feedLines_append (n + 1) a b, this]

/-- **Invisibility, main-loop level**: inserting a pragma line `p` anywhere into a document feeds
the parser exactly the lines of the original document; those before the insertion point keep
their numbers, those after it are numbered one higher.  (The recognition is state-independent:
`isPragma` looks at the line only and is consulted before anything else.) -/
theorem pragma_invisible (a b : List Str) (p : Str) (hp : (isPragma p).isSome) :
    feedLines 1 (a ++ p :: b) =
      feedLines 1 a ++ (feedLines (1 + a.length) b).map fun q => (q.1 + 1, q.2) := by
  rw [feedLines_append]
  simp only [feedLines, hp, if_true]
  rw [feedLines_shift (1 + a.length)]

/-- The pragma lines themselves are all recorded, with their physical numbers. -/
theorem pragma_lines_recorded : ∀ (n : Nat) (ls : List Str),
    ((pragmaLines n ls).map (·.1) ++ (feedLines n ls).map (·.1)).Perm (List.range' n ls.length)
  | _, [] => by simp [pragmaLines, feedLines]
  | n, l :: ls => by
    have ih := pragma_lines_recorded (n + 1) ls
    simp only [pragmaLines, feedLines, List.length_cons, List.range'_succ]
    cases h : isPragma l with
    | some ext => simpa using ih.cons n
    | none =>
      simp only [Option.isSome_none, Bool.false_eq_true, if_false, List.map_cons]
      exact (List.perm_middle).trans (ih.cons n)

theorem pragmaLines_nodup : ∀ (n : Nat) (ls : List Str), ((pragmaLines n ls).map (·.1)).Nodup ∧
    ∀ k ∈ (pragmaLines n ls).map (·.1), n ≤ k
  | _, [] => by simp [pragmaLines]
  | n, l :: ls => by
    have ih := pragmaLines_nodup (n + 1) ls
    simp only [pragmaLines]
    cases h : isPragma l with
    | none => exact ⟨ih.1, fun k hk => by have := ih.2 k hk; omega⟩
    | some ext =>
      simp only [List.map_cons, List.nodup_cons, List.mem_cons]
      refine ⟨⟨fun hm => by have := ih.2 n hm; omega, ih.1⟩, ?_⟩
      rintro k (rfl | hk)
      · exact Nat.le_refl _
      · have := ih.2 k hk; omega

/-- Whole-document form of suppression exactness. -/
theorem document_suppressed_iff (A : List (Str × Str)) (doc : List Str) (line : Nat) (rid : Str) :
    (compileAll A (pragmaLines 1 doc)).suppressed line rid = true ↔
      ∃ p ∈ pragmaLines 1 doc, covers (compile A p.1 p.2.1 p.2.2) line rid :=
  suppressed_iff A _ (pragmaLines_nodup 1 doc).1 line rid

end Verif.Props.C11
