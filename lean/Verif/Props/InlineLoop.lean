/-
  The inline dispatcher (`InlineTextBlockHelper.process_inline_text_block` and the line-end helper) — serves C01 (terminates, total),
  C02 (conservation), C04 (order), C05 (positions).

  Model: Verif/Model/InlineLoop.lean (faithful; every handler is a PARAMETER), contract + guard + position spec:
  Verif/Model/InlineLoopSpec.lean.  Lemmas: Verif/Lemmas/InlineLoop*.lean.  Tie: tools/inlinelooplib.py (driver `inlineloop`).

  Every theorem of sections A–D holds for EVERY handler table that meets the contract `TableOK` (found by reading the loop), not only
  for pymarkdown's; section E shows the table of the default configuration meets it.
-/
import Verif.Lemmas.InlineLoopContent
namespace Verif.Props.InlineLoop
open Verif.Model Verif.Model.InlineLoop
open Verif.Model.Recognisers (Str slice)

deriving instance DecidableEq for Except

/-! ## A. termination, totality -/

/-- **inline_loop_terminates** (C01).  Under the guard and the contract, for every handler table: the fuel the model supplies
(one turn per character of the prepared text, + 1) is never the reason the loop stops — the call returns or a HANDLER raised; more fuel
changes nothing; and the ITERATION BOUND: the number of turns is at most the number of inline-start characters of the text
(each turn handles the first start character at or after its start index and ends strictly behind it: `Chain`). -/
theorem inline_loop_terminates (T : Table) (env : Env) (hE : envOK env = true)
    (hT : ∀ src sp, prepare env = .ok (src, sp) → TableOK T src) :
    ((∃ r, run T env = .ok r) ∨ (∃ c h q e, T.handler c = some h ∧ h q = .error e ∧ run T env = .error e)) ∧
    (∀ r, run T env = .ok r → (∀ k, runFuel T env (fuelOf env + k) = .ok r) ∧
      r.trace.length ≤ countStarts T.starts r.src ∧ ∃ e, Chain r.src T.starts 0 r.trace e) := by
  refine ⟨?_, ?_⟩
  · rcases run_ok hE hT with ⟨r, hr, _⟩ | ⟨c, h, q, e, h1, _, h3, h4⟩
    · exact Or.inl ⟨r, hr⟩
    · exact Or.inr ⟨c, h, q, e, h1, h3, h4⟩
  · intro r hr
    rcases run_ok hE hT with ⟨r', hr', e, hC, _⟩ | ⟨_, _, _, e, _, _, _, h4⟩
    · rw [hr] at hr'; injection hr' with hr'; subst hr'
      refine ⟨?_, ?_, e, hC⟩
      · intro k
        unfold run runFuel at hr
        unfold runFuel
        cases hp : prepare env with
        | error e => rw [hp] at hr; cases hr
        | ok p =>
          rw [hp] at hr; simp only at hr ⊢
          cases hl : loop T env p.1 (fuelOf env) (initSt T env p.1 p.2) [] with
          | error e => rw [hl] at hr; cases hr
          | ok q => rw [hl] at hr; rw [loop_fuel_mono _ _ _ _ hl k]; exact hr
      · have := Chain_length hC
        simp only [List.drop_zero] at this
        omega
    · rw [hr] at h4; cases h4

/-- **inline_loop_total** (C01).  Under the decidable guard `envOK` on the arguments and the contract `TableOK` on the table, the
dispatcher raises NOTHING of its own — no `IndexError`, no `AssertionError`, no endless loop: if the call fails, the failure is the
error a registered handler returned for a request at one of its own characters. -/
theorem inline_loop_total (T : Table) (env : Env) (hE : envOK env = true)
    (hT : ∀ src sp, prepare env = .ok (src, sp) → TableOK T src) (e : LErr) (he : run T env = .error e) :
    ∃ c h q, T.handler c = some h ∧ q.src[q.next]? = some c ∧ h q = .error e := by
  rcases run_ok hE hT with ⟨r, hr, _⟩ | ⟨c, h, q, e', h1, h2, h3, h4⟩
  · rw [hr] at he; cases he
  · rw [h4] at he; injection he with he; subst he; exact ⟨c, h, q, h1, h2, h3⟩

/-- corollary: with handlers that always answer, the call always returns -/
theorem inline_loop_total_of_total_handlers (T : Table) (env : Env) (hE : envOK env = true)
    (hT : ∀ src sp, prepare env = .ok (src, sp) → TableOK T src)
    (hH : ∀ c h q, T.handler c = some h → ∃ r, h q = .ok r) : ∃ r, run T env = .ok r := by
  cases hr : run T env with
  | ok r => exact ⟨r, rfl⟩
  | error e =>
    obtain ⟨c, h, q, h1, _, h3⟩ := inline_loop_total T env hE hT e hr
    obtain ⟨r, hr'⟩ := hH c h q h1
    rw [hr'] at h3; cases h3

/-! ### every clause of the contract and of the guard is needed (machine-checked witnesses; `decide` over literals = tests)

The stub tables have ONE handler, for `x`; `tools/inlinelooplib.py` registers the same stubs in the REAL handler table and records what
the real loop does there (`real_witnesses`): it raises the same exception, and at the two no-progress points it does not return. -/

deriving instance DecidableEq for Result
deriving instance DecidableEq for St

/-- non-vacuity: the well-behaved stub meets the contract on its text and the guard holds; the call returns one text token -/
example : envOK (stubEnv ['a', 'x', NL, 'b'] none) = true ∧
    (runStub "good" ['a', 'x', NL, 'b'] none).toOption.map (·.blocks) = some [.text ['a', 'x', NL, 'b'] [] (some [NL]) 1 1] := by
  decide

/-- `progress` is needed: a handler that does not move (`new_index = next_index`) or moves backwards makes the loop run for ever —
the model runs out of every fuel it is given (shown for the supplied fuel and 200 more turns) -/
theorem progress_excluded :
    runStub "noProgress" ['a', 'x'] none = .error .fuel ∧ runStub "backwards" ['a', 'x'] none = .error .fuel ∧
    runFuel (stubTable fun q => .ok { stubGood q with newIndex := some q.next }) (stubEnv ['a', 'x'] none) 200 = .error .fuel := by
  decide

/-- `progress` (defined) / `defined` / `unres` / `reset` are needed: the loop's own `assert`s fire -/
theorem asserts_excluded :
    runStub "noIndex" ['a', 'x'] none = .error .assertion ∧ runStub "noString" ['a', 'x'] none = .error .assertion ∧
    runStub "unres" ['a', 'x'] none = .error .assertion ∧ runStub "reset" ['a', 'x'] none = .error .assertion := by decide

/-- `nlOnly` is needed: a start character without a handler that is not the newline → `assert source_text[next_index] == "\n"` -/
theorem nlOnly_excluded : run ⟨[NL, 'y'], fun _ => none⟩ (stubEnv ['a', 'y'] none) = .error .assertion := by decide

/-- `rawNl` is needed: a raw-HTML token with more line breaks than the text it consumed moves `leading_text_index` past the end of
`bleading_spaces` → `IndexError`; with enough lines the same answer is fine -/
theorem rawNl_excluded :
    envOK (stubEnv ['a', 'x', NL, 'b'] (some [2, 2])) = true ∧ runStub "rawNl" ['a', 'x', NL, 'b'] (some [2, 2]) = .error .index ∧
    (runStub "rawNl" ['a', 'x', NL, 'b'] (some [2, 2, 2, 2])).toOption.map (·.bqIdx) = some 3 := by decide

/-- the upper bound `new_index ≤ len` is NOT needed for totality (Python slices clip) — but the text behind is lost: see
`conservation_excluded` -/
theorem beyond_is_total : (runStub "beyond" ['a', 'x', NL, 'b'] none).toOption.map (·.blocks) = some [.text ['a', 'x'] [] (some []) 1 1] := by
  decide

/-- the guard is needed, clause by clause (the stub table is the well-behaved one):
white space to recombine outside a setext heading; a line break in a text that is neither paragraph nor setext; `para_space` with
fewer lines than the text; `bleading_spaces` with fewer lines than the text; `bleading_spaces = None`. -/
theorem guard_excluded :
    let T := stubTable fun q => .ok (stubGood q)
    run T ⟨['a', NL, 'b'], [], some [NL], false, true, some [NL], 1, 1, none, none⟩ = .error .assertion ∧
    run T ⟨['a', NL, 'b'], [], none, false, false, none, 1, 1, none, none⟩ = .error .assertion ∧
    run T ⟨['a', NL, 'b'], [], none, false, true, some [], 1, 1, none, none⟩ = .error .index ∧
    run T (stubEnv ['a', NL, 'b'] (some [2])) = .error .index ∧
    run T { stubEnv ['a', NL, 'b'] none with bq := some ⟨none, 0⟩ } = .error .assertion ∧
    envOK ⟨['a', NL, 'b'], [], some [NL], false, true, some [NL], 1, 1, none, none⟩ = false ∧
    envOK ⟨['a', NL, 'b'], [], none, false, false, none, 1, 1, none, none⟩ = false ∧
    envOK ⟨['a', NL, 'b'], [], none, false, true, some [], 1, 1, none, none⟩ = false ∧
    envOK (stubEnv ['a', NL, 'b'] (some [2])) = false ∧
    envOK { stubEnv ['a', NL, 'b'] none with bq := some ⟨none, 0⟩ } = false := by decide

/-! ## B. positions (C05) -/

/-- **inline_loop_positions_partial** (C05).  For every handler table that meets `TableOK` and the position contract
`PosContract` — the newline is a start character, no white space is recombined into the text (every paragraph and ATX-heading call),
every handler answer stays inside the text, ON ITS LINE, and is position-true (`PosTrue`: the reported deltas are the displacement of
the consumed text) — and every environment that meets the guard:

* the `(line_number, column_number)` the loop holds at the start of EVERY turn is the true position (`envPos`: a walk over the text,
  `Model/InlineLoopSpec.lean`) of the turn's start index, and the position it hands to the handler for a new token
  (`column_number + len(remaining_line)`) is the true position of the handled character;
* the `(last_line_number, last_column_number)` a text token would get in that turn is the true position of the index where the pending
  text piece starts (`textStart`: the end of the last turn that changed `inline_blocks`) — also when the loop ends (the final text token).

FULL statement wanted: the same without "on its line" and for setext calls.  It is FALSE for pymarkdown's loop: `positions_excluded_*`. -/
theorem inline_loop_positions_partial (T : Table) (env : Env) (src : Str) (sp0 : Option (List Str)) (hE : envOK env = true)
    (hp : prepare env = .ok (src, sp0)) (hT : TableOK T src) (hP : PosContract T env src sp0) (r : Result)
    (hr : run T env = .ok r) :
    (∀ pre it post, r.trace = pre ++ it :: post →
      (it.line, it.col) = envPos env src sp0 it.start ∧
      (it.line, it.col + ((it.next : Int) - (it.start : Int))) = envPos env src sp0 it.next ∧
      (it.lastLine, it.lastCol) = envPos env src sp0 (textStart pre)) ∧
    (r.lastLine, r.lastCol) = envPos env src sp0 (textStart r.trace) := by
  obtain ⟨_, hTP, hL, e, hC⟩ := run_pos hE hp hT hP hr
  refine ⟨?_, hL⟩
  intro pre it post hsplit
  obtain ⟨h1, h2⟩ := TracePos_split _ _ [] pre it post hTP hsplit
  obtain ⟨c1, c2, c3, c4⟩ := Chain_split _ _ _ pre it post hC hsplit
  have hlt : it.next < src.length := by
    by_cases hh : it.next < src.length
    · exact hh
    · rw [List.getElem?_eq_none (by omega)] at c3; cases c3
  have hnl : NL ∉ slice src it.start it.next := by
    intro hm; have := c4 NL hm; rw [hP.nl] at this; cases this
  refine ⟨h1, ?_, by simpa using h2⟩
  rw [envPos_next env src sp0 c1 (Nat.le_of_lt hlt) hnl, ← h1]

/-- the tokens the loop ITSELF creates carry those positions: a text token appended in a turn stands at the last position, a hard
break on the current line at the first trailing space (`column + len(text without its trailing spaces)`; the backslash form: one
column before the end of the pending text), the final text token at the last position. -/
theorem loop_tokens_positions (st : St) (m : Mid) (env : Env) (src : Str) :
    (∀ t ∈ (cleanupCreate st m).blocks,
      t ∈ m.resp.blocks ∨ t ∈ m.resp.newTokens ∨ (t.isText = true ∧ t.line = st.lastLine ∧ t.col = st.lastCol)) ∧
    (∀ (remaining : Str), ∀ t ∈ (handleLineEnd env.isSetext st.blocks remaining st.endStr st.cur st.line st.col).newTokens,
      t.isHardBreak = true ∧ t.line = st.line ∧
        ((2 ≤ (stripEnd remaining).2.length ∧ t.col = st.col + ((stripEnd remaining).1.length : Int)) ∨
         ((stripEnd remaining).2.length = 0 ∧ t.col = st.col + ((stripEnd remaining).1.length : Int) - 1))) ∧
    (∀ t ∈ complete env src st, t ∈ st.blocks ∨ (t.isText = true ∧ t.line = st.lastLine ∧ t.col = st.lastCol)) :=
  ⟨cleanupCreate_blocks st m, fun remaining => handleLineEnd_tokens _ _ remaining _ _ _ _, complete_blocks env src st⟩

/-- non-vacuity of the hypotheses: the well-behaved stub table meets `TableOK` on every text … -/
theorem stub_tableOK (src : Str) : TableOK (stubTable fun q => .ok (stubGood q)) src := by
  refine ⟨?_, ?_⟩
  · intro c hc hn
    simp only [stubTable, List.contains_cons, List.contains_nil, Bool.or_false, Bool.or_eq_true, beq_iff_eq] at hc
    rcases hc with hc | hc
    · exact absurd hc hn
    · subst hc; rfl
  · intro c h q r hh _ _ _ hr
    simp only [stubTable] at hh
    split at hh
    · injection hh with hh; subst hh
      injection hr with hr; subst hr
      exact ⟨⟨q.next + 1, rfl, Nat.lt_succ_self _⟩, Or.inr rfl, (by intro o ho; cases ho), (by intro h; cases h), rfl,
        (by intro ni _; exact Nat.zero_le _)⟩
    · cases hh

/-- … and `PosContract` in every environment without white space to recombine -/
theorem stub_posContract (env : Env) (src : Str) (sp0 : Option (List Str)) (h : truthy env.recomb = false) :
    PosContract (stubTable fun q => .ok (stubGood q)) env src sp0 := by
  have key : ∀ (c : Char) (h : Handler) (q : Request) (r : Response),
      (stubTable fun q => .ok (stubGood q)).handler c = some h → q.src = src → src[q.next]? = some c → h q = .ok r →
      c = 'x' ∧ r = stubGood q ∧ q.next < src.length ∧ slice src q.next (q.next + 1) = ['x'] := by
    intro c h q r hh _ hc hr
    simp only [stubTable] at hh
    split at hh
    · next hx =>
      injection hh with hh; subst hh
      injection hr with hr; subst hr
      have hcx : c = 'x' := by simpa using hx
      subst hcx
      have hlt : q.next < src.length := by
        by_cases hl : q.next < src.length
        · exact hl
        · rw [List.getElem?_eq_none (by omega)] at hc; cases hc
      refine ⟨rfl, rfl, hlt, ?_⟩
      rw [slice_cons src hlt (Nat.lt_succ_self _), slice_self]
      rw [List.getElem?_eq_getElem hlt] at hc; injection hc with hc; rw [hc]
    · cases hh
  refine ⟨by decide, h, ?_, ?_, ?_⟩
  · intro c h q r ni hh hs hc _ hr hni
    obtain ⟨_, hr', _, hsl⟩ := key c h q r hh hs hc hr
    subst hr'; injection hni with hni; subst hni
    rw [hsl]; decide
  · intro c h q r hh hs hc _ hr
    obtain ⟨_, hr', _, hsl⟩ := key c h q r hh hs hc hr
    subst hr'
    unfold PosTrue posTrueb
    simp only [stubGood, Response.plain, hsl]
    have : countNl ['x'] = 0 := by decide
    simp only [this, beq_self_eq_true, ↓reduceIte, Bool.false_eq_true, Bool.and_eq_true, beq_iff_eq, true_and]
    omega
  · intro c h q r ni hh hs hc _ hr hni
    obtain ⟨_, hr', hlt, _⟩ := key c h q r hh hs hc hr
    subst hr'; injection hni with hni; subst hni; exact hlt

/-- a two-line paragraph in a block quote: the second line starts at (2, 3) = 1 + the width of `> `; its `x` stands at (2, 4) -/
example : (runStub "good" ['a', NL, 'b', 'x'] (some [2, 2])).toOption.map (fun r => r.trace.map fun it => (it.ch, it.line, it.col)) =
    some [(NL, 1, 1), ('x', 2, 3)] ∧
    envPos (stubEnv ['a', NL, 'b', 'x'] (some [2, 2])) ['a', NL, 'b', 'x'] (some [[], []]) 3 = (2, 4) := by decide

/-- **positions_excluded_multiline** (machine-checked witness, stub table): "on its line" is needed.  The stub element `x⏎y` spans a
line break and IS position-true (the second line has no leading white space; the loop's position right behind it is the true one), yet
the position of the NEXT line is wrong: `split_para_space` is advanced only by newline turns, so the third line gets the leading white
space of the second.  Text `x⏎y⏎x`, third line indented by two: the second `x` is handed column 1; it stands in column 3. -/
theorem positions_excluded_multiline :
    let env : Env := paraEnv ['x', NL, 'y', NL, 'x'] [NL, NL, ' ', ' '] 1 1 [NL, NL, ' ', ' '] 0 none
    let T := stubTable fun q => .ok { stubGood q with newIndex := some (q.next + 3), newString := some [], dLine := 1, dCol := -2 }
    envOK env = true ∧
    (run T env).toOption.map (fun r => r.trace.map fun it => (it.next, it.line, it.col)) = some [(0, 1, 1), (3, 2, 2), (4, 3, 1)] ∧
    envPos env env.src (some [[], [], [' ', ' ']]) 3 = (2, 2) ∧ envPos env env.src (some [[], [], [' ', ' ']]) 4 = (3, 3) := by
  decide

/-- **positions_excluded_setext** (machine-checked witness, stub table): "no recombined white space" is needed.  Setext heading text
`a␣␣⏎bx` whose second line was indented by one: after the hard break the loop's column already contains the indentation (it adds
`len(split_para_space[0])`) AND the indentation is still in the text, so it is counted twice: `x` is handed (2, 2) + 2 = column 4;
it stands in column 3. -/
theorem positions_excluded_setext :
    let env : Env := setextEnv ['a', ' ', ' ', NL, 'b', 'x'] [NL, ' '] 1 1 none
    let T := stubTable fun q => .ok (stubGood q)
    envOK env = true ∧
    (run T env).toOption.map (fun r => (r.src, r.trace.map fun it => (it.start, it.next, it.line, it.col))) =
      some (['a', ' ', ' ', NL, ' ', 'b', 'x'], [(0, 3, 1, 1), (4, 6, 2, 2)]) ∧
    specPos env ['a', ' ', ' ', NL, ' ', 'b', 'x'] (some [[], [' ']]) 6 = (2, 3) := by
  decide

/-! ## C. conservation (C02 at this level) -/

/-- **inline_loop_conservation** (C02).  Under the guard and the contract, for every handler table: the text pieces the loop copies
(`source_text[start_index:next_index]` of every turn, and `source_text[start_index:]` at the end) and the ranges the handlers — or the
line end — consumed (`source_text[next_index:new_index]`) are, in order, EXACTLY the prepared text: nothing is dropped, nothing is
handled twice (the handled indices increase strictly and every turn starts where the previous one ended).
`r.src` is the text after `__process_inline_text_block_prepare` (for a setext heading: with the leading white space recombined).

How the pieces enter the output (equations of the model, tied to the code by the correspondence check):
* a text piece is appended to `current_string` through `append_text` (`<>&"` become replacement markers `\a c \a &…; \a`);
* a handler's `new_string` likewise — or, with `original_string`, as ONE marker `\a original \a append_text(new_string) \a`;
  with new tokens the pending `current_string` becomes a text token (with `end_string` as its `end_whitespace`) in front of them;
  with `consume_rest_of_line` the pending text is dropped (the link token carries it);
* at a line end the trailing spaces of the piece leave the text: two or more become the hard-break token's text, fewer are appended
  (with the newline) to `end_string`, which travels as the `end_whitespace` of the next text token, one line per line break; in a
  setext heading the recombined leading white space of the next line follows it there, closed by `\x02`. -/
theorem inline_loop_conservation (T : Table) (env : Env) (hE : envOK env = true)
    (hT : ∀ src sp, prepare env = .ok (src, sp) → TableOK T src) (r : Result) (hr : run T env = .ok r) :
    ∃ e, (r.trace.flatMap (Iter.ranges r.src)) ++ r.src.drop e = r.src ∧
      (∀ it ∈ r.trace, it.start ≤ it.next ∧ it.next < it.newIndex) ∧
      r.trace.Pairwise (fun a b => a.newIndex ≤ b.start ∧ a.next < b.next) ∧
      (match r.trace.getLast? with | some it => e = it.newIndex | none => e = 0) := by
  rcases run_ok hE hT with ⟨r', hr', e, hC, _⟩ | ⟨_, _, _, _, _, _, _, h4⟩
  · rw [hr] at hr'; injection hr' with hr'; subst hr'
    refine ⟨e, by simpa using Chain_tiling hC, ?_, Chain_sorted hC, ?_⟩
    · intro it hit
      obtain ⟨pre, post, hsplit⟩ := List.append_of_mem hit
      obtain ⟨c1, c2, _, _⟩ := Chain_split _ _ _ pre it post hC hsplit
      exact ⟨c1, c2⟩
    · have key : ∀ (tr : List Iter) (s : Nat), Chain r.src T.starts s tr e →
          (match tr.getLast? with | some it => e = it.newIndex | none => e = s) := by
        intro tr
        induction tr with
        | nil => intro s h; simp only [Chain] at h; simpa using h.symm
        | cons x tr ih =>
          intro s h
          obtain ⟨_, _, _, _, _, _, h7⟩ := h
          have := ih x.newIndex h7
          cases tr with
          | nil => simpa using this
          | cons y tr =>
            rw [List.getLast?_cons_cons]
            cases hg : (y :: tr).getLast? with
            | none => simp at hg
            | some z => rw [hg] at this; exact this
      exact key _ _ hC
  · rw [hr] at h4; cases h4

/-- **conservation_excluded**: the upper bound `new_index ≤ len(source_text)` is not part of the totality contract (Python slices
clip) — and nothing is lost in the tiling either — but a handler that jumps backwards (no `progress`) re-reads text: with the stub
that always answers `new_index = 0` the first turn's piece `a` is copied again in the second turn (the model's loop is cut by its fuel;
the real loop does not return: `tools/inlinelooplib.py`, stub `backwards`). -/
theorem conservation_excluded :
    (loop (stubTable fun q => .ok { stubGood q with newIndex := some 0 }) (stubEnv ['a', 'x'] none) ['a', 'x'] 2
      (initSt (stubTable fun q => .ok { stubGood q with newIndex := some 0 }) (stubEnv ['a', 'x'] none) ['a', 'x'] (some [[]])) []) =
      .error .fuel ∧
    (step (stubTable fun q => .ok { stubGood q with newIndex := some 0 }) (stubEnv ['a', 'x'] none) ['a', 'x']
      (initSt (stubTable fun q => .ok { stubGood q with newIndex := some 0 }) (stubEnv ['a', 'x'] none) ['a', 'x'] (some [[]])) 1).toOption.map
        (fun p => (p.1.cur, p.1.start, p.1.next)) = some (['a', 'x'], 0, some 1) := by decide

/-- **inline_loop_content_partial** (C02, what the text tokens HOLD).  On a text of ONE line (an ATX heading, a one-line paragraph;
not a setext heading) whose marker characters are all start characters, for every table whose answers are FAITHFUL (`Faithful`:
without tokens the text contribution is `Codec.encode` of pieces whose source is exactly the consumed range; with tokens it
contributes no text; `consume_rest_of_line` and list rewriting excluded — i.e. every handler but the link close `]`):
the token list handed to the emphasis pass is the rendering of a sequence of segments — text segments, each ONE text token holding the
in-band encoding (`Codec.encode`, the codec of `Props/C02.lean`) of its pieces, and token segments — whose SOURCES, in order,
concatenate to the text.  With `C02.remove_encode` (`removeAll (encode ps) = sourceOf ps` on marker-free pieces) the regenerator's
decoder returns the source text of every text token: nothing is lost or invented.
MISSING for the full statement: texts with line breaks (the trailing white space of a line leaves the text for `end_whitespace` /
the hard-break token, see `inline_loop_conservation`), setext headings, `]`. -/
theorem inline_loop_content_partial (T : Table) (env : Env) (src : Str) (sp0 : Option (List Str)) (hE : envOK env = true)
    (hp : prepare env = .ok (src, sp0)) (hT : TableOK T src) (hC : ContentContract T src) (hse : env.isSetext = false)
    (r : Result) (hr : run T env = .ok r) : ∃ segs, Renders segs r.blocks ∧ segs.flatMap Seg.src = src :=
  run_content hE hp hT hC hse hr

/-- non-vacuity: the well-behaved stub is faithful on every one-line text without marker characters -/
theorem stub_contentContract (src : Str) (h1 : NL ∉ src) (h2 : ∀ c ∈ src, Codec.isSpecial c = false) :
    ContentContract (stubTable fun q => .ok (stubGood q)) src := by
  refine ⟨(fun c hc hs => by rw [h2 c hc] at hs; cases hs), h1, ?_⟩
  intro c h q r hh hs hc _ hr
  simp only [stubTable] at hh
  split at hh
  · next hx =>
    injection hh with hh; subst hh
    injection hr with hr; subst hr
    have hcx : c = 'x' := by simpa using hx
    subst hcx
    have hlt : q.next < src.length := by
      by_cases hl : q.next < src.length
      · exact hl
      · rw [List.getElem?_eq_none (by omega)] at hc; cases hc
    refine ⟨rfl, rfl, ?_, (by intro h; exact absurd rfl h)⟩
    intro _ ni hni
    injection hni with hni; subst hni
    refine ⟨[.lit 'x'], (by show InlineRecog.appendTextEscape ['x'] = Codec.encode [Codec.Piece.lit 'x']; decide), ?_⟩
    rw [slice_cons src hlt (Nat.lt_succ_self _), slice_self]
    rw [List.getElem?_eq_getElem hlt] at hc; injection hc with hc; rw [hc]; rfl
  · cases hh

/-- the handlers that live in inline_handler_helper.py ARE faithful: the control-character handler (`\x05 c` is the in-band encoding of
the literal `c`), `!`, `[`, `![` and the emphasis runs (a special-text token, no text).  For the four recognisers the matching
statements are the `*_reassembly` theorems of `Props/InlineRecog.lean` (their excluded points — U+0005 before a marker, U+0007 in a
code span — are the known findings F-X05 / F-MARKER-RAW). -/
theorem helper_handlers_faithful (q : Request) (r : Response) :
    (∀ c, q.src[q.next]? = some c → Codec.isSpecial c = true → controlHandler q = .ok r → Faithful q.src q r) ∧
    (q.src[q.next]? = some '!' → bangHandler q = .ok r → Faithful q.src q r) ∧
    (∀ len, bracketHandler len q = .ok r → Faithful q.src q r) ∧
    (∀ c, emphasisHandler c q = .ok r → Faithful q.src q r) :=
  ⟨fun _ hc hs h => control_faithful hc hs h, fun hc h => bang_faithful hc h, fun len h => bracket_faithful len h,
    fun _ h => emphasis_faithful h⟩

/-- **content_excluded**: `consume_rest_of_line` is excluded for a reason — the pending text `ab ` is dropped from the output (in
pymarkdown the link token carries it): the only token left holds ` c` -/
theorem content_excluded :
    (run (stubTable fun q => .ok { stubGood q with consumeRest := true }) (stubEnv ['a', 'b', ' ', 'x', ' ', 'c'] none)).toOption.map
      (·.blocks) = some [.text [' ', 'c'] [] none 1 1] := by decide

/-! ## D. order (C04) -/

/-- **inline_loop_order** (C04).  For every table whose handlers leave `inline_blocks` alone and hand back no plain text token
(`OrderOK`; every handler of pymarkdown's table but the link-close handler `]`, which rewrites the list): the token list only GROWS AT
ITS END — turn by turn, so tokens are emitted in the order of the turns, which is source order (`inline_loop_conservation`) — and in the
list handed to the emphasis pass two plain text tokens are never neighbours: a text token is only ever emitted directly in front of the
tokens of a handler (or as the very last token).  "Unless": special-text tokens (`*`, `_`, `[` … which the emphasis pass may later
demote to text) and lists rewritten by `]`. -/
theorem inline_loop_order (T : Table) (env : Env) (hO : ∀ c h q r, T.handler c = some h → h q = .ok r → OrderOK q r)
    (r : Result) (hr : run T env = .ok r) : NoAdjText r.blocks := by
  unfold run runFuel at hr
  split at hr
  · cases hr
  · next src sp _ =>
    split at hr
    · cases hr
    · next st tr hl =>
      injection hr with hr; subst hr
      obtain ⟨_, g1, g2⟩ := loop_order hO _ _ _ _ _ (by simp [initSt, NoAdjText]) (by intro t ht; simp [initSt] at ht) hl
      exact (complete_order env src st g1 g2).1

/-- one turn: the list grows at its end, by at most one text token (at the last position) followed by the handler's tokens -/
theorem turn_appends (T : Table) (env : Env) (src : Str) (st st' : St) (next : Nat) (it : Iter)
    (hO : ∀ c h q r, T.handler c = some h → h q = .ok r → OrderOK q r)
    (h1 : NoAdjText st.blocks) (h2 : EndsNonText st.blocks) (hs : step T env src st next = .ok (st', it)) :
    ∃ extra, st'.blocks = st.blocks ++ extra := (step_order hO h1 h2 hs).1

/-- non-vacuity + the excluded point: the well-behaved stub meets `OrderOK`; a handler that hands back a text token puts two text
tokens side by side -/
theorem order_excluded :
    (run (stubTable fun q => .ok { stubGood q with newTokens := [.text ['y'] [] none q.line q.tokCol], newString := some [] })
      (stubEnv ['a', 'x'] none)).toOption.map (·.blocks) = some [.text ['a'] [] (some []) 1 1, .text ['y'] [] none 1 2] := by decide

example : ∀ q, OrderOK q (stubGood q) := fun q => ⟨rfl, by intro t ht; cases ht⟩

/-! ## E. pymarkdown's table meets the contract -/

/-- **real_table_meets_contract_partial** (C01).  The handler table of the default configuration — backtick, backslash, character
reference, angle bracket (the recogniser models of `Verif.Model.InlineRecog`), `[`, `*`, `_`, `!`, the five control characters — meets
`TableOK` on every text without U+0007 and without a comment opener of the `<!---->` family (the excluded points of
`Props/InlineRecog.lean`: there the recognisers THEMSELVES raise, which `inline_loop_total` allows), provided the recorded answers of the
link-close handler `]` meet `RespOK` (audited by the tie on every answer: 0 violations). -/
theorem real_table_meets_contract_partial (oracle : Nat → Option Response) (src : Str) (hal : Codec.AL ∉ src)
    (hcr : ∀ n, InlineRecog.COMMENT_CRASH.isPrefixOf (src.drop (n + 1)) = false)
    (hor : ∀ q r, q.src = src → oracle q.next = some r → RespOK q r) : TableOK (realTable oracle) src :=
  realTable_tableOK oracle src hal hcr hor

/-- non-vacuity: an ordinary text meets the two side conditions -/
example : Codec.AL ∉ ['a', ' ', '*', 'b', '*', ' ', '<', 'd', '>', '&', ';'] ∧
    ∀ n, InlineRecog.COMMENT_CRASH.isPrefixOf (['a', ' ', '*', 'b', '*', ' ', '<', 'd', '>', '&', ';'].drop (n + 1)) = false := by
  refine ⟨by decide, ?_⟩
  intro n
  by_cases h : n < 11
  · have key : ∀ m, m < 11 →
        InlineRecog.COMMENT_CRASH.isPrefixOf (['a', ' ', '*', 'b', '*', ' ', '<', 'd', '>', '&', ';'].drop (m + 1)) = false := by decide
    exact key n h
  · rw [List.drop_eq_nil_of_le (by simp only [List.length_cons, List.length_nil]; omega)]
    decide

/-- **real_loop_total_partial** (C01): for pymarkdown's table, on such a text, under the guard: the inline dispatcher returns, or one
of the recognisers raised (`ValueError` of `chr()` for a numeric reference above U+10FFFF, …) — the dispatcher itself adds no failure. -/
theorem real_loop_total_partial (oracle : Nat → Option Response) (env : Env) (hE : envOK env = true)
    (hsrc : ∀ src sp, prepare env = .ok (src, sp) → Codec.AL ∉ src ∧
      (∀ n, InlineRecog.COMMENT_CRASH.isPrefixOf (src.drop (n + 1)) = false) ∧
      (∀ q r, q.src = src → oracle q.next = some r → RespOK q r)) (e : LErr) (he : run (realTable oracle) env = .error e) :
    ∃ c h q, (realTable oracle).handler c = some h ∧ q.src[q.next]? = some c ∧ h q = .error e :=
  inline_loop_total (realTable oracle) env hE
    (fun src sp hp => realTable_tableOK oracle src (hsrc src sp hp).1 (hsrc src sp hp).2.1 (hsrc src sp hp).2.2) e he

/-- **real_table_order** (C04): every handler of the default table but `]` meets `OrderOK`; hence on a text without link-close
answers the list handed to the emphasis pass has no two neighbouring plain text tokens. -/
theorem real_table_order (env : Env) (r : Result) (hr : run (realTable fun _ => none) env = .ok r) : NoAdjText r.blocks :=
  inline_loop_order _ env realTable_orderOK r hr

/-- tests (evaluated by the compiler, not by the kernel: the recognisers recurse by well-founded recursion): the three position
failures of the REAL table that `inline_loop_positions_partial` excludes, with the documents that show them in
`tools/inlinelooplib.py` (`failing_inputs`). -/
def specialCols (r : Except LErr Result) : List (Int × Int) :=
  match r with
  | .ok x => x.blocks.filterMap fun t => match t with | .special _ _ _ _ _ l c => some (l, c) | _ => none
  | .error _ => []

-- `` `a⏎b` c⏎  *d `` : `*` reported at (3, 1); it stands at (3, 3)
#guard specialCols (run (realTable fun _ => none) (paraEnv "`a\nb` c\n*d".toList "\n\n  ".toList 1 1 "\n\n  ".toList 0 none)) == [(3, 1)]
#guard envPos (paraEnv "`a\nb` c\n*d".toList "\n\n  ".toList 1 1 "\n\n  ".toList 0 none) "`a\nb` c\n*d".toList
  (some [[], [], [' ', ' ']]) 8 == (3, 3)
-- setext `a␣␣⏎ b*c` : `*` reported at (2, 4); it stands at (2, 3)
#guard specialCols (run (realTable fun _ => none) (setextEnv "a  \nb*c".toList "\n ".toList 1 1 none)) == [(2, 4)]
-- `` a `b⏎  c` *d `` : `*` reported at (2, 4); it stands at (2, 6)
#guard specialCols (run (realTable fun _ => none) (paraEnv "a `b\nc` *d".toList "\n  ".toList 1 1 "\n  ".toList 0 none)) == [(2, 4)]
#guard envPos (paraEnv "a `b\nc` *d".toList "\n  ".toList 1 1 "\n  ".toList 0 none) "a `b\nc` *d".toList (some [[], [' ', ' ']]) 8 == (2, 6)

end Verif.Props.InlineLoop
