import Verif.Props.ScanRules2
import Verif.Lemmas.ScanRules2.Product
import Verif.Lemmas.ScanRules2.MD032
import Verif.Lemmas.ScanRules2.Para
import Verif.Lemmas.ScanRules2.SpecEq
/-
  Property theorems of the building block ScanRules2, second part: the joint pass (`allNine_projection`), MD032 / MD018 / MD020
  characterisations, state reset and reads of MD018 / MD020, comparison with the reference conditions of `Model/RuleSpec`.
-/
namespace Verif.Model.ScanRules2

/-! ## C12 — the joint pass of the nine rules -/

/-- C12: when the joint pass of the nine rules over a file (every token to every rule, then every line to every rule) returns the report
    list `rs`, every rule, scanned ALONE with its own configuration, returns exactly its share of `rs` (same reports, same order): no
    rule's verdict depends on which of the other eight are enabled.  (If the joint pass raises, some rule raises alone: `both`.) -/
theorem allNine_projection (c : Unit × C013 × Unit × Unit × Unit × Unit × Unit × C033 × Unit) (f : File) (rs : List Report)
    (h : scan allNine c f = .ok rs) :
    scan (md011.tag 11) c.1 f = .ok (rs.filter (fun x => x.rule == 11)) ∧
    scan (md013.tag 13) c.2.1 f = .ok (rs.filter (fun x => x.rule == 13)) ∧
    scan (md014.tag 14) c.2.2.1 f = .ok (rs.filter (fun x => x.rule == 14)) ∧
    scan (md018.tag 18) c.2.2.2.1 f = .ok (rs.filter (fun x => x.rule == 18)) ∧
    scan (md020.tag 20) c.2.2.2.2.1 f = .ok (rs.filter (fun x => x.rule == 20)) ∧
    scan (md028.tag 28) c.2.2.2.2.2.1 f = .ok (rs.filter (fun x => x.rule == 28)) ∧
    scan (md032.tag 32) c.2.2.2.2.2.2.1 f = .ok (rs.filter (fun x => x.rule == 32)) ∧
    scan (md033.tag 33) c.2.2.2.2.2.2.2.1 f = .ok (rs.filter (fun x => x.rule == 33)) ∧
    scan (md034.tag 34) c.2.2.2.2.2.2.2.2 f = .ok (rs.filter (fun x => x.rule == 34)) := by
  obtain ⟨c11, c13, c14, c18, c20, c28, c32, c33, c34⟩ := c
  have t34 := tagged_tag 34 md034
  have t33 := tagged_prod _ _ _ _ (tagged_tag 33 md033) t34
  have t32 := tagged_prod _ _ _ _ (tagged_tag 32 md032) t33
  have t28 := tagged_prod _ _ _ _ (tagged_tag 28 md028) t32
  have t20 := tagged_prod _ _ _ _ (tagged_tag 20 md020) t28
  have t18 := tagged_prod _ _ _ _ (tagged_tag 18 md018) t20
  have t14 := tagged_prod _ _ _ _ (tagged_tag 14 md014) t18
  have t13 := tagged_prod _ _ _ _ (tagged_tag 13 md013) t14
  obtain ⟨p11, r11⟩ := scan_prod 11 _ (by decide) _ _ (tagged_tag 11 md011) t13 c11 _ f rs h
  obtain ⟨p13, r13⟩ := scan_prod 13 _ (by decide) _ _ (tagged_tag 13 md013) t14 c13 _ f _ r11
  obtain ⟨p14, r14⟩ := scan_prod 14 _ (by decide) _ _ (tagged_tag 14 md014) t18 c14 _ f _ r13
  obtain ⟨p18, r18⟩ := scan_prod 18 _ (by decide) _ _ (tagged_tag 18 md018) t20 c18 _ f _ r14
  obtain ⟨p20, r20⟩ := scan_prod 20 _ (by decide) _ _ (tagged_tag 20 md020) t28 c20 _ f _ r18
  obtain ⟨p28, r28⟩ := scan_prod 28 _ (by decide) _ _ (tagged_tag 28 md028) t32 c28 _ f _ r20
  obtain ⟨p32, r32⟩ := scan_prod 32 _ (by decide) _ _ (tagged_tag 32 md032) t33 c32 _ f _ r28
  obtain ⟨p33, r33⟩ := scan_prod 33 _ (by decide) _ _ (tagged_tag 33 md033) t34 c33 _ f _ r32
  simp only [filter_ne_eq _ _ (by decide : (11 : Nat) ≠ 13),
    filter_ne_eq _ _ (by decide : (11 : Nat) ≠ 14),
    filter_ne_eq _ _ (by decide : (11 : Nat) ≠ 18),
    filter_ne_eq _ _ (by decide : (11 : Nat) ≠ 20),
    filter_ne_eq _ _ (by decide : (11 : Nat) ≠ 28),
    filter_ne_eq _ _ (by decide : (11 : Nat) ≠ 32),
    filter_ne_eq _ _ (by decide : (11 : Nat) ≠ 33),
    filter_ne_eq _ _ (by decide : (13 : Nat) ≠ 14),
    filter_ne_eq _ _ (by decide : (13 : Nat) ≠ 18),
    filter_ne_eq _ _ (by decide : (13 : Nat) ≠ 20),
    filter_ne_eq _ _ (by decide : (13 : Nat) ≠ 28),
    filter_ne_eq _ _ (by decide : (13 : Nat) ≠ 32),
    filter_ne_eq _ _ (by decide : (13 : Nat) ≠ 33),
    filter_ne_eq _ _ (by decide : (14 : Nat) ≠ 18),
    filter_ne_eq _ _ (by decide : (14 : Nat) ≠ 20),
    filter_ne_eq _ _ (by decide : (14 : Nat) ≠ 28),
    filter_ne_eq _ _ (by decide : (14 : Nat) ≠ 32),
    filter_ne_eq _ _ (by decide : (14 : Nat) ≠ 33),
    filter_ne_eq _ _ (by decide : (18 : Nat) ≠ 20),
    filter_ne_eq _ _ (by decide : (18 : Nat) ≠ 28),
    filter_ne_eq _ _ (by decide : (18 : Nat) ≠ 32),
    filter_ne_eq _ _ (by decide : (18 : Nat) ≠ 33),
    filter_ne_eq _ _ (by decide : (20 : Nat) ≠ 28),
    filter_ne_eq _ _ (by decide : (20 : Nat) ≠ 32),
    filter_ne_eq _ _ (by decide : (20 : Nat) ≠ 33),
    filter_ne_eq _ _ (by decide : (28 : Nat) ≠ 32),
    filter_ne_eq _ _ (by decide : (28 : Nat) ≠ 33),
    filter_ne_eq _ _ (by decide : (32 : Nat) ≠ 33)] at p13 p14 p18 p20 p28 p32 p33
  refine ⟨p11, p13, p14, p18, p20, p28, p32, p33, ?_⟩
  -- the last factor: what is left after removing the eight other numbers carries the number 34
  have hall := scan_tagged _ _ (tagged_prod _ _ _ _ (tagged_tag 11 md011) t13) _ f rs h
  rw [r33]
  congr 1
  simp only [List.filter_filter]
  apply List.filter_congr
  intro x hx
  have := hall x hx
  simp only [List.cons_append, List.nil_append, List.mem_cons, List.not_mem_nil, or_false] at this
  rcases this with e | e | e | e | e | e | e | e | e <;> simp [e]

/-! ## MD032 — C06 / C07 -/

/-- MD032 (C06), every stream on which `next_token` does not raise (`Safe032`; the excluded points are `md032_excluded`): the reports at a
    token are `cond032` — (1) the line above a token that directly follows a list end which did not follow a blank line, unless the token is
    a blank line / new item / list end / block quote end / end of stream; (2) a list start whose last non-end token before it is not a
    blank line, unless the innermost container STILL ON THE RULE'S STACK (`open032`) is a list or starts on the same line.  `open032` is
    not "the containers that are open": a list that ended directly after a blank line is never removed from it — the defect
    `md032_stack_leak` (a later top-level list counts as nested and is not reported) is this clause, see `md032_never_popped`. -/
theorem md032_scan_iff (f : File) (h : ∀ p ∈ splits [] f.toks, Safe032 p.1 p.2) :
    scan md032 () f = .ok (byPrefix cond032 [] f.toks) :=
  scan_byPrefix md032 () F032 cond032 (fun _ _ _ => rfl) rfl Safe032 (fun seen t hs => md032_step seen t hs) f h

/-- the stream of `md032_stack_leak` (`- a`, blank, `text`, `- b`) -/
def leak032 : List Tk :=
  [⟨.listStart, 1, 1, [], 0, []⟩, ⟨.para, 1, 3, [], 0, []⟩, ⟨.text, 1, 3, ['a'], 0, []⟩, ⟨.paraEnd, 0, 0, [], 0, []⟩,
   ⟨.blank, 2, 1, [], 0, []⟩, ⟨.listEnd, 0, 0, [], 0, []⟩, ⟨.para, 3, 1, [], 0, []⟩, ⟨.text, 3, 1, "text".toList, 0, []⟩,
   ⟨.paraEnd, 0, 0, [], 0, []⟩, ⟨.listStart, 4, 1, [], 0, []⟩]

/-- the hypothesis of `md032_scan_iff` holds on a non-trivial stream (the leak witness itself) -/
example : ∀ p ∈ splits [] leak032, Safe032 p.1 p.2 := by decide

/-- the defect seen through the statement: before the second list start of the witness the first list (line 1) has ended but is still
    on `open032` (it ended after a blank line), so `cond032` is empty there although the last non-end token (`text`) is not a blank line;
    with the list removed (`[]` in place of `open032`) clause (2) would report line 4 -/
theorem md032_never_popped :
    open032 leak032.dropLast = [(true, 1)] ∧ lastBlank032 leak032.dropLast = some false ∧
    cond032 leak032.dropLast ⟨.listStart, 4, 1, [], 0, []⟩ = [] ∧
    scan md032 () ⟨leak032, []⟩ = .ok (byPrefix cond032 [] leak032) := by decide

theorem mem_ite_single {c : Bool} {a x : Report} (h : x ∈ (if c = true then [a] else [])) : c = true ∧ x = a := by
  cases c <;> simp_all

/-- MD032 (C07): no exception on a stream that satisfies `Safe032` everywhere (without it: `md032_excluded`, IndexError / AssertionError) -/
theorem md032_total (f : File) (h : ∀ p ∈ splits [] f.toks, Safe032 p.1 p.2) : ∃ rs, scan md032 () f = .ok rs :=
  ⟨_, md032_scan_iff f h⟩

/-- MD032 (C07): every report is at the column of a token of the stream, on its line (a list start) or on the line above it (the token
    after a list end).  The line above is `t.line - 1` whatever `t` is: for a token without a position (an end token, line 0) that is
    line −1 — `md032_line_above_excluded`. -/
theorem md032_reports_in_range (f : File) (hsafe : ∀ p ∈ splits [] f.toks, Safe032 p.1 p.2) (rs : List Report)
    (h : scan md032 () f = .ok rs) :
    ∀ x ∈ rs, ∃ t ∈ f.toks, x.col = t.col ∧ ((t.kind = .listStart ∧ x.line = t.line) ∨ x.line = t.line - 1) := by
  rw [md032_scan_iff f hsafe] at h
  cases h
  intro x hx
  obtain ⟨pre, t, post, hts, hm⟩ := mem_byPrefix hx
  refine ⟨t, by simp [hts], ?_⟩
  simp only [cond032, List.mem_append] at hm
  rcases hm with hm | hm
  · obtain ⟨_, hm⟩ := mem_ite_single hm
    subst hm
    exact ⟨by simp [repTok, repAt], Or.inr (by simp [repTok, repAt]; omega)⟩
  · obtain ⟨hc, hm⟩ := mem_ite_single hm
    simp only [Bool.and_eq_true, beq_iff_eq] at hc
    subst hm
    exact ⟨by simp [repTok, repAt], Or.inl ⟨hc.1.1, by simp [repTok, repAt]⟩⟩

/-- the "line above" of a token without a position: a paragraph end directly after a list end → a report at line −1 (synthetic stream;
    the tie found no parsed document with a report outside the file) -/
theorem md032_line_above_excluded :
    scan md032 () ⟨[⟨.listStart, 1, 1, [], 0, []⟩, ⟨.para, 1, 3, [], 0, []⟩, ⟨.listEnd, 0, 0, [], 0, []⟩, ⟨.paraEnd, 0, 0, [], 0, []⟩], []⟩
      = .ok [⟨-1, 0, none, 0⟩] := by decide

/-! ## MD018 / MD020 — C13, C12 -/

/-- MD018 (C13), ALL files a, b: the reports shown for b after a (same rule object) are the reports of b alone — although
    `StartOfLineTokenParser.starting_new_file` assigns only four of the seven parser fields.  Why: the three fields left alone are assigned
    at the next paragraph start before they are read (`RP`), and a delayed line left by a goes to a's context (`Delayed.stale`,
    `md018_stale_delayed_line`): it is checked during b, but b shows nothing of it.  (Equality of what is SHOWN for b; the report that
    reaches a's finished list is the documented-only finding of the block's NOTES §5.7.) -/
theorem md018_state_reset (a b : File) : scanAfter md018 () a b = scan md018 () b :=
  scanAfter_eq_scan_of_sim md018 () (fun _ _ _ => rfl) RP (fun s s' t h => pnext_sim check018 s s' t h)
    (fun s => RP_start s _) a b

/-- MD020 (C13), ALL files a, b: the same parser, and the rule's own two fields (`__is_in_normal_atx`, `__last_atx_token`) are assigned by
    `starting_new_file`. -/
theorem md020_state_reset (a b : File) : scanAfter md020 () a b = scan md020 () b :=
  scanAfter_eq_scan_of_sim md020 () (fun _ _ _ => rfl) R020 (fun s s' t h => next020_sim s s' t h)
    (fun s => ⟨RP_start s.p _, rfl, rfl⟩) a b

/-- MD018 (C12): the scan reads of a token its kind and — paragraph: white space and column; text: position and text; code span: its three
    strings; raw HTML: the tag text; link / image: text, label type, their five strings; nothing of any other token, nothing of the lines. -/
theorem md018_scan_reads (f : File) : scan md018 () ⟨f.toks.map viewPara, f.lines⟩ = scan md018 () f :=
  scan_view md018 () viewPara (fun s t => pnext_view check018 s t) f

/-- MD020 (C12): the same fields (the closing-hash check of a normal ATX heading reads position and text of text tokens). -/
theorem md020_scan_reads (f : File) : scan md020 () ⟨f.toks.map viewPara, f.lines⟩ = scan md020 () f :=
  scan_view md020 () viewPara (fun s t => by
    show next020 s (viewPara t) = next020 s t
    rw [next020_eq, next020_eq, pnext_view]
    cases pnext check020 s.p t with
    | error e => rfl
    | ok q =>
      obtain ⟨p', r1⟩ := q
      simp only [post020, viewPara_kind]
      by_cases ht : t.kind = .text
      · simp [viewPara, ht]
      · simp [ht]) f

/-! ## MD018 — C06 / C07 on one-text paragraphs -/

/- Full statement (NOT proved): for every stream, the lines `check_start_of_line` sees are, per paragraph, the physical lines that start
   in a text token outside a link, each joined with the paragraph's leading white space of that line, the first line of a text token only
   directly after the paragraph start or a hard break; the last line of a text token is checked when the next inline token or the
   paragraph end arrives.  Proved below: the case of a paragraph whose content is ONE text token (no other inline token), from any earlier
   state; the inline-token accounting (`nonText`, `insideLink`) is tied to the real rule and covered by `md018_state_reset` /
   `md018_scan_reads` only. -/

/-- MD018 (C06, partial): a file that is one paragraph with one text token (leading white space known for each of its lines) — EVERY line
    of the text, joined with its leading white space, is tested with `check018` (≤ 3 spaces, 1+ hashes followed by a non-space, the line
    not ending in a hash); a hit on line `k` of the text is reported at line `t.line + k`, column = the paragraph's column (first line) or
    the paragraph's column + the length of that line's leading white space (later lines). -/
theorem md018_scan_iff_partial (p t e : Tk) (lines : List Str) (hp : p.kind = .para) (ht : t.kind = .text) (he : e.kind = .paraEnd)
    (hlen : (splitNl t.text).length ≤ (splitNl p.text).length) :
    scan md018 () ⟨[p, t, e], lines⟩ =
      .ok ((lines018 (splitNl p.text) p.col t 0 true (splitNl t.text)).flatMap (checkRep check018)) := by
  unfold scan
  rw [runFile_default md018 () (fun _ _ _ => rfl)]
  exact para_text_end check018 md018 rfl _ p t e hp ht he hlen

/-- MD020 has the same parser with `check020` (≤ 3 spaces, a hash, … a hash at the end); the rule's own part does nothing outside an ATX
    heading that has been seen. -/
example : (splitNl "x\n#a".toList).length ≤ (splitNl "\n".toList).length := by decide

/-- without `hlen`: `md018_excluded` (IndexError: a text line beyond the paragraph's white-space list) -/
theorem md018_total_partial (p t e : Tk) (lines : List Str) (hp : p.kind = .para) (ht : t.kind = .text) (he : e.kind = .paraEnd)
    (hlen : (splitNl t.text).length ≤ (splitNl p.text).length) : ∃ rs, scan md018 () ⟨[p, t, e], lines⟩ = .ok rs :=
  ⟨_, md018_scan_iff_partial p t e lines hp ht he hlen⟩

/-- MD018 (C07, partial; full statement: every report lies on an existing line with 1 ≤ column ≤ length + 1 — FALSE, see
    `md018_reports_in_range_excluded`).  On a one-text paragraph with a column ≥ 1 every report is on line `t.line + j` for a line `j` of the
    text, at the paragraph's column, plus the length of that line's leading white space when `j > 0` — the column of the paragraph, not of
    the hash. -/
theorem md018_reports_in_range_partial (p t e : Tk) (lines : List Str) (hp : p.kind = .para) (ht : t.kind = .text)
    (he : e.kind = .paraEnd) (hlen : (splitNl t.text).length ≤ (splitNl p.text).length) (hcol : 1 ≤ p.col) (rs : List Report)
    (h : scan md018 () ⟨[p, t, e], lines⟩ = .ok rs) :
    ∀ x ∈ rs, ∃ j, j < (splitNl t.text).length ∧ x.line = t.line + j ∧
      x.col = p.col + (if j = 0 then 0 else (((splitNl p.text).getD j []).length : Int)) := by
  rw [md018_scan_iff_partial p t e lines hp ht he hlen] at h
  cases h
  intro x hx
  obtain ⟨d, hd, hx⟩ := List.mem_flatMap.mp hx
  obtain ⟨j, hj, h1, h2, h3, h4⟩ := mem_lines018 _ _ _ _ _ _ _ hd
  refine ⟨j, hj, ?_⟩
  simp only [checkRep] at hx
  split at hx
  · simp only [List.mem_singleton] at hx
    subst hx
    simp only [repAt, h1, h3, h4, Nat.zero_add, true_and]
    by_cases hj0 : j = 0
    · simp only [hj0, if_true]
      rw [if_neg (by omega)]; omega
    · simp only [hj0, if_false]
      rw [if_neg (by omega)]; omega
  · simp at hx

/-- the excluded point of the full C07 statement (real rule agrees, NOTES §5.5): `   x` / `#a` — the report for line 2 (`#a`, two
    characters) is at column 4 = the paragraph's column -/
theorem md018_reports_in_range_excluded :
    scan md018 () ⟨[⟨.para, 1, 4, "   \n".toList, 0, []⟩, ⟨.text, 1, 4, "x\n#a".toList, 0, []⟩, ⟨.paraEnd, 0, 0, [], 0, []⟩],
      ["   x".toList, "#a".toList]⟩ = .ok [⟨2, 4, none, 0⟩] := by decide

/-- MD020 (C06, partial; the full statement is the one of MD018 with `check020` plus the closing-hash check of ATX headings, NOT proved):
    a one-text paragraph — every line of the text, joined with its leading white space, is tested with `check020` (≤ 3 spaces, a hash,
    and the rest ends, before trailing spaces, with a hash); positions as for MD018. -/
theorem md020_scan_iff_partial (p t e : Tk) (lines : List Str) (hp : p.kind = .para) (ht : t.kind = .text) (he : e.kind = .paraEnd)
    (hlen : (splitNl t.text).length ≤ (splitNl p.text).length) :
    scan md020 () ⟨[p, t, e], lines⟩ =
      .ok ((lines018 (splitNl p.text) p.col t 0 true (splitNl t.text)).flatMap (checkRep check020)) := by
  unfold scan
  rw [runFile_default md020 () (fun _ _ _ => rfl)]
  have h0 : md020.start () md020.fresh = { p := PSt.start {}, inAtx := false, lastAtx := none } := rfl
  rw [h0, md020_no_atx [p, t, e] _ _ (by simp [hp, ht, he])]
  exact para_text_end check020 parser020 rfl _ p t e hp ht he hlen

/-- a hit: `#a#` on the second line of a paragraph -/
example : scan md020 () ⟨[⟨.para, 1, 1, "\n".toList, 0, []⟩, ⟨.text, 1, 1, "x\n#a#".toList, 0, []⟩, ⟨.paraEnd, 0, 0, [], 0, []⟩], []⟩
    = .ok [⟨2, 1, none, 0⟩] := by decide

/-! ## MD013 against the reference condition of `Model/RuleSpec/Lines.lean` (MD014 and MD034 have no reference condition there) -/

/- Full statement (FALSE): for every configuration, `long013 c k l = ref013 cr (lineKind013 k) l` whenever the three lengths, the two
   switches and `strict` agree.  It fails (a) with `stern` (not formalised by the reference: `md013_faithful_differs_stern`), (b) with
   `headings = false` / `code_blocks = false`: the faithful rule compares with 99 999 instead of skipping the line (NOTES §5.6; a witness
   needs a line of 100 000 characters and is not evaluated here), (c) when `minimum` is not the minimum of the three lengths (never the
   case after `init013`).  WHICH token governs a line (`govKind` against the reference's `kindOf` over blocks) is not compared: the two
   models have different inputs (token stream / event list); NOTES §5.6 (SetExt text lines) is a difference of that part. -/

/-- MD013, one line under a collected token of kind `k` (C06, partial): with both switches on, `stern` off and `minimum` at most each of
    the three lengths (true after `init013`), the faithful decision IS the documented one for a line of the corresponding kind — longer
    than the kind's limit, and `strict` or white space at or beyond the limit. -/
theorem md013_faithful_eq_spec_partial (c : C013) (cr : RuleSpec.C013) (k : K) (l : Str)
    (h1 : c.lineLength = cr.lineLength) (h2 : c.codeLength = cr.codeBlockLineLength) (h3 : c.headingLength = cr.headingLineLength)
    (hcb : c.codeBlocks = true) (hcb' : cr.codeBlocks = true) (hh : c.headings = true) (hh' : cr.headings = true)
    (hs : c.strict = cr.strict) (hstern : c.stern = false)
    (hm : c.minimum ≤ c.lineLength ∧ c.minimum ≤ c.codeLength ∧ c.minimum ≤ c.headingLength) :
    long013 c k l = ref013 cr (lineKind013 k) l := by
  have hcmp : compare013 c k = ((RuleSpec.limit cr (lineKind013 k) : Nat) : Int) := by
    unfold compare013 lineKind013
    by_cases a : k.isCode = true
    · simp [a, hcb, h2, RuleSpec.limit]
    · by_cases b : (k == .atx || k == .setext) = true
      · simp only [a, b, hh, h3, RuleSpec.limit]; simp
      · simp only [a, b, h1, RuleSpec.limit]; simp
  have hmin : c.minimum ≤ compare013 c k := by
    unfold compare013
    by_cases a : k.isCode = true
    · simp [a, hcb, hm.2.1]
    · by_cases b : (k == .atx || k == .setext) = true
      · simp only [a, b, hh]; simp [hm.2.2]
      · simp only [a, b]; simp [hm.1]
  have hex : RuleSpec.exempt cr (lineKind013 k) = false := by
    unfold lineKind013
    by_cases a : k.isCode = true
    · simp [a, RuleSpec.exempt, hcb']
    · by_cases b : (k == .atx || k == .setext) = true
      · simp only [a, b]; simp [RuleSpec.exempt, hh']
      · simp only [a, b]; simp [RuleSpec.exempt]
  unfold long013 ref013
  rw [hex]
  generalize RuleSpec.limit cr (lineKind013 k) = n at hcmp ⊢
  by_cases hlen : l.length > n
  · have g1 : ((l.length : Int) > c.minimum) := by omega
    have g2 : ((l.length : Int) > compare013 c k) := by omega
    simp only [g1, decide_true, Bool.true_and, Bool.not_false, Bool.and_true, trigger013, hcmp, Int.toNat_natCast, hstern]
    by_cases hst : cr.strict = true
    · simp [hs, hst] <;> omega
    · have hst' : cr.strict = false := by simpa using hst
      simp only [hs, hst', Bool.false_eq_true, if_false, Bool.false_or]
      have key := untilSpace_eq_length_iff l n (by omega)
      cases hw : RuleSpec.wsBeyond l n with
      | false => simp [key.mpr hw] <;> omega
      | true =>
        have : l.length ≠ untilSpace l n := fun e => by rw [key.mp e] at hw; cases hw
        simp [this] <;> omega
  · have g2 : ¬ ((l.length : Int) > compare013 c k) := by omega
    simp [g2, hlen]

/-- the hypotheses hold for the default configuration -/
example : ({} : C013).minimum ≤ ({} : C013).lineLength ∧ ({} : C013).minimum ≤ ({} : C013).codeLength ∧
    ({} : C013).minimum ≤ ({} : C013).headingLength := by decide

/-- `stern` (the reference does not formalise it): a line of four letters, limit 3, no white space — the faithful rule reports it, the
    documented condition (not `strict`, no white space beyond the limit) does not -/
theorem md013_faithful_differs_stern :
    long013 { lineLength := 3, codeLength := 3, headingLength := 3, minimum := 3, stern := true } .para "aaaa".toList = true ∧
    ref013 { lineLength := 3, codeBlockLineLength := 3, headingLineLength := 3 } (lineKind013 .para) "aaaa".toList = false := by decide

end Verif.Model.ScanRules2
