import Verif.Lemmas.ScanRules.Simple
import Verif.Lemmas.ScanRules.MD003
import Verif.Lemmas.ScanRules.MD041
import Verif.Lemmas.ScanRules.MD036
import Verif.Lemmas.ScanRules.MD026
import Verif.Lemmas.ScanRules.MD024
import Verif.Lemmas.ScanRules.MD022
import Verif.Lemmas.ScanRules.MD022Iff
import Verif.Lemmas.ScanRules.Range
import Verif.Lemmas.ScanRules.Reads
import Verif.Lemmas.ScanRules.SpecEq
import Verif.Lemmas.ScanRules.Product
/-!
  Property theorems about the faithful models of ten scan-only token rules
  (MD003 MD022 MD024 MD025 MD026 MD036 MD040 MD041 MD042 MD045) — serving C06, C07, C12, C13.

  For every rule `mdX : Rule Cfg St`
    `scan mdX c toks : Except Err (List Report)`       the reports of one file, in the order they are made
                                                        (`.error` = the Python raises),
    `scanAfter mdX c a b`                               the reports of file `b` when the same rule object scanned file `a` before.
  Per rule:
    `mdX_scan_iff`          (C06)  WHICH tokens are reported: `byPrefix (condX c)` — at every token a condition over the tokens before it
                                   (`Model/ScanRules/Spec.lean`), or the window / first-element form for MD036 / MD041;
    `mdX_reports_in_range`  (C07)  every report's (line, column) is the position of a token of the stream (+ the stated delta);
    `mdX_state_reset`       (C13)  `scanAfter mdX c a b = scan mdX c b` for ALL a, b;
    `mdX_scan_reads`        (C12)  the verdict depends only on the named kinds / fields.
  Unless a hypothesis is written, a theorem holds for EVERY token list (also lists no parser produces).
-/
namespace Verif.Props.ScanRules
open Verif.Model.ScanRules

/-- the position of a report -/
abbrev rpos (r : Report) : Int × Int := (r.line, r.col)
/-- the position of a token -/
abbrev tpos (t : Tok) : Int × Int := (t.line, t.col)

/-! ## MD040 fenced-code-language, MD042 no-empty-links, MD045 no-alt-text -/

/-- C06: exactly the fenced code block starts whose info word is empty after stripping ASCII white space are reported,
    in stream order, at their own position. -/
theorem md040_scan_iff (toks : List Tok) :
    scan md040 () toks = .ok ((toks.filter trig040).map (reportAt ·)) := by
  rw [show md040 = stateless (fun _ t => if trig040 t then [reportAt t] else []) from rfl, scan_stateless]
  congr 1
  induction toks with
  | nil => rfl
  | cons t ts ih => simp only [List.flatMap_cons, List.filter_cons, ih]; cases trig040 t <;> simp

/-- C06: exactly the links and images whose destination is empty or `#` after stripping ASCII white space. -/
theorem md042_scan_iff (toks : List Tok) :
    scan md042 () toks = .ok ((toks.filter trig042).map (reportAt ·)) := by
  rw [show md042 = stateless (fun _ t => if trig042 t then [reportAt t] else []) from rfl, scan_stateless]
  congr 1
  induction toks with
  | nil => rfl
  | cons t ts ih => simp only [List.flatMap_cons, List.filter_cons, ih]; cases trig042 t <;> simp

/-- C06: exactly the images whose alternate text is empty after stripping Unicode white space. -/
theorem md045_scan_iff (toks : List Tok) :
    scan md045 () toks = .ok ((toks.filter trig045).map (reportAt ·)) := by
  rw [show md045 = stateless (fun _ t => if trig045 t then [reportAt t] else []) from rfl, scan_stateless]
  congr 1
  induction toks with
  | nil => rfl
  | cons t ts ih => simp only [List.flatMap_cons, List.filter_cons, ih]; cases trig045 t <;> simp

/-- test (non-vacuity): a fence without info, one with a language, one whose info is only white space. -/
example : scan md040 () [{ kind := .fence, line := 1, col := 1 }, { kind := .fence, text := "py".toList, line := 5, col := 1 },
    { kind := .fence, text := " \t".toList, line := 9, col := 3 }] = .ok [⟨1, 1, none, 0⟩, ⟨9, 3, none, 0⟩] := by decide

/-- C07: every report is at the (line, column) of a fenced-code-block token of the stream, no delta. -/
theorem md040_reports_in_range (toks : List Tok) (rs : List Report) (h : scan md040 () toks = .ok rs) :
    ∀ x ∈ rs, ∃ t ∈ toks, t.kind = .fence ∧ rpos x = tpos t := by
  rw [md040_scan_iff] at h
  simp only [Except.ok.injEq] at h; subst h
  intro x hx
  obtain ⟨t, ht, rfl⟩ := List.mem_map.mp hx
  obtain ⟨hm, hp⟩ := List.mem_filter.mp ht
  refine ⟨t, hm, ?_, rfl⟩
  unfold trig040 at hp; simp only [Bool.and_eq_true, beq_iff_eq] at hp; exact hp.1

theorem md042_reports_in_range (toks : List Tok) (rs : List Report) (h : scan md042 () toks = .ok rs) :
    ∀ x ∈ rs, ∃ t ∈ toks, (t.kind = .link ∨ t.kind = .image) ∧ rpos x = tpos t := by
  rw [md042_scan_iff] at h
  simp only [Except.ok.injEq] at h; subst h
  intro x hx
  obtain ⟨t, ht, rfl⟩ := List.mem_map.mp hx
  obtain ⟨hm, hp⟩ := List.mem_filter.mp ht
  refine ⟨t, hm, ?_, rfl⟩
  unfold trig042 at hp; simp only [Bool.and_eq_true, Bool.or_eq_true, beq_iff_eq] at hp; exact hp.1

theorem md045_reports_in_range (toks : List Tok) (rs : List Report) (h : scan md045 () toks = .ok rs) :
    ∀ x ∈ rs, ∃ t ∈ toks, t.kind = .image ∧ rpos x = tpos t := by
  rw [md045_scan_iff] at h
  simp only [Except.ok.injEq] at h; subst h
  intro x hx
  obtain ⟨t, ht, rfl⟩ := List.mem_map.mp hx
  obtain ⟨hm, hp⟩ := List.mem_filter.mp ht
  refine ⟨t, hm, ?_, rfl⟩
  unfold trig045 at hp; simp only [Bool.and_eq_true, beq_iff_eq] at hp; exact hp.1

/-- C13: the three rules have no field at all (`St = Unit`): nothing can be carried from file to file. -/
theorem md040_state_reset (a b : List Tok) : scanAfter md040 () a b = scan md040 () b := scanAfter_stateless _ _ a b
theorem md042_state_reset (a b : List Tok) : scanAfter md042 () a b = scan md042 () b := scanAfter_stateless _ _ a b
theorem md045_state_reset (a b : List Tok) : scanAfter md045 () a b = scan md045 () b := scanAfter_stateless _ _ a b

/-- C12: MD040 reads the kind and position of every token and the info word (`text`) of fenced code block starts. -/
theorem md040_scan_reads (toks toks' : List Tok)
    (h : All₂ (fun t t' => t'.kind = t.kind ∧ t'.line = t.line ∧ t'.col = t.col ∧ (t.kind = .fence → t'.text = t.text)) toks toks') :
    scan md040 () toks' = scan md040 () toks :=
  scan_congr md040 () _ (fun s t t' ⟨h1, h2, h3, h4⟩ => by
    show Except.ok ((), if trig040 t' then [reportAt t'] else []) = Except.ok ((), if trig040 t then [reportAt t] else [])
    unfold trig040 reportAt
    by_cases hk : t.kind = .fence
    · simp [h1, h2, h3, h4 hk]
    · simp [h1, hk]) toks toks' h

/-- C12: MD042 reads the destination (`uri`) of links and images. -/
theorem md042_scan_reads (toks toks' : List Tok)
    (h : All₂ (fun t t' => t'.kind = t.kind ∧ t'.line = t.line ∧ t'.col = t.col ∧
      (t.kind = .link ∨ t.kind = .image → t'.uri = t.uri)) toks toks') :
    scan md042 () toks' = scan md042 () toks :=
  scan_congr md042 () _ (fun s t t' ⟨h1, h2, h3, h4⟩ => by
    show Except.ok ((), if trig042 t' then [reportAt t'] else []) = Except.ok ((), if trig042 t then [reportAt t] else [])
    unfold trig042 reportAt
    by_cases hk : t.kind = .link ∨ t.kind = .image
    · simp [h1, h2, h3, h4 hk]
    · have h5 : ¬ t.kind = .link := fun e => hk (.inl e)
      have h6 : ¬ t.kind = .image := fun e => hk (.inr e)
      simp [h1, h5, h6]) toks toks' h

/-- C12: MD045 reads the alternate text (`alt`) of images. -/
theorem md045_scan_reads (toks toks' : List Tok)
    (h : All₂ (fun t t' => t'.kind = t.kind ∧ t'.line = t.line ∧ t'.col = t.col ∧ (t.kind = .image → t'.alt = t.alt)) toks toks') :
    scan md045 () toks' = scan md045 () toks :=
  scan_congr md045 () _ (fun s t t' ⟨h1, h2, h3, h4⟩ => by
    show Except.ok ((), if trig045 t' then [reportAt t'] else []) = Except.ok ((), if trig045 t then [reportAt t] else [])
    unfold trig045 reportAt
    by_cases hk : t.kind = .image
    · simp [h1, h2, h3, h4 hk]
    · simp [h1, hk]) toks toks' h

/-! ## MD025 single-title -/

/-- C06, for every stream: a token is reported iff it is a heading of the configured level and a token before it established the
    top-level heading (`top025`: a heading of that level, or front matter that has the configured title key). -/
theorem md025_scan_iff (c : C025) (toks : List Tok) : scan md025 c toks = .ok (byPrefix (cond025 c) [] toks) :=
  md025_scanFrom c [] toks

/-- test (non-vacuity): `# a / ## b / # c` reports the second level-1 heading; with a front-matter title, the first one too. -/
example : scan md025 {} [{ kind := .atx, hashCount := 1, line := 1, col := 1 }, { kind := .atx, hashCount := 2, line := 3, col := 1 },
    { kind := .atx, hashCount := 1, line := 5, col := 1 }] = .ok [⟨5, 1, none, 0⟩] := by decide
example : scan md025 {} [{ kind := .frontMatter, keys := ["title".toList], line := 1, col := 1 }, { kind := .setext, hashCount := 1, line := 6, col := 1 }] =
    .ok [⟨6, 1, none, 0⟩] := by decide

/-- C07: every report is at the position of a heading token of the configured level, no delta. -/
theorem md025_reports_in_range (c : C025) (toks : List Tok) (rs : List Report) (h : scan md025 c toks = .ok rs) :
    ∀ x ∈ rs, ∃ t ∈ toks, t.isHeading = true ∧ t.hashCount = c.level ∧ rpos x = tpos t := by
  rw [md025_scan_iff] at h
  simp only [Except.ok.injEq] at h; subst h
  intro x hx
  obtain ⟨a, t, b, rfl, hy⟩ := (mem_byPrefix _ _ _).mp hx
  unfold cond025 at hy
  split at hy
  · rename_i hc
    simp only [Bool.and_eq_true, decide_eq_true_eq] at hc
    simp only [List.mem_singleton] at hy; subst hy
    exact ⟨t, by simp, hc.1.1, hc.1.2, rfl⟩
  · cases hy

/-- C13: `starting_new_file` assigns the only field. -/
theorem md025_state_reset (c : C025) (a b : List Tok) : scanAfter md025 c a b = scan md025 c b :=
  scanAfter_eq_scan md025 c (fun _ _ => rfl) a b

/-- C12: MD025 reads the level of headings and the keys of front matter. -/
theorem md025_scan_reads (c : C025) (toks toks' : List Tok)
    (h : All₂ (fun t t' => t'.kind = t.kind ∧ t'.line = t.line ∧ t'.col = t.col ∧
      (t.isHeading = true → t'.hashCount = t.hashCount) ∧ (t.kind = .frontMatter → t'.keys = t.keys)) toks toks') :
    scan md025 c toks' = scan md025 c toks :=
  scan_congr md025 c _ (fun s t t' ⟨h1, h2, h3, h4, h5⟩ => by
    show next025 c s t' = next025 c s t
    have hh : t'.isHeading = t.isHeading := by unfold Tok.isHeading; rw [h1]
    unfold next025 reportAt
    rw [hh]
    by_cases hd : t.isHeading = true
    · simp [hd, h4 hd, h2, h3]
    · by_cases hk : t.kind = .frontMatter
      · simp [hd, h1, hk, h5 hk]
      · simp [hd, h1, hk]) toks toks' h

/-! ## MD003 heading-style -/

/-- C06, for every stream and every configuration: the scan never fails, and a token is reported iff it is a heading, a style was in
    force before it (`inForce003`: the configured style, or with `consistent` the style of the first heading; `setext` upgraded to
    `setext_with_atx` by `allow-setext-update` at the first open ATX heading of level ≥ 3) and it does not conform to the style in
    force after it (`conforms003`). -/
theorem md003_scan_iff (c : C003) (toks : List Tok) : scan md003 c toks = .ok (byPrefix (cond003 c) [] toks) := by
  have h := md003_scanFrom c [] toks
  have e : inForce003 c [] = start003 c := by
    unfold inForce003 headStyles
    cases hs : start003 c <;> simp
  rw [e] at h; exact h

/-- test (non-vacuity): `a / === / ### b / ## c` under `consistent`: both ATX headings are reported against `setext`; with
    `allow-setext-update` the level-3 one switches the style and only the level-2 one is reported (against `setext_with_atx`). -/
example : let d : List Tok := [{ kind := .setext, hashCount := 1, line := 2, col := 1 }, { kind := .atx, hashCount := 3, line := 4, col := 1 },
                               { kind := .atx, hashCount := 2, line := 6, col := 1 }]
    (scan md003 {} d).map (·.map rpos) = .ok [(4, 1), (6, 1)] ∧
    (scan md003 { allowUpdate := true } d).map (·.map rpos) = .ok [(6, 1)] := by
  refine ⟨by decide, by decide⟩

/-- C07: every report is at the position of a heading token, no delta (a SetExt heading is reported at its underline: the
    token's own position, not the original one). -/
theorem md003_reports_in_range (c : C003) (toks : List Tok) (rs : List Report) (h : scan md003 c toks = .ok rs) :
    ∀ x ∈ rs, ∃ t ∈ toks, t.isHeading = true ∧ rpos x = tpos t := by
  rw [md003_scan_iff] at h
  simp only [Except.ok.injEq] at h; subst h
  intro x hx
  obtain ⟨a, t, b, rfl, hy⟩ := (mem_byPrefix _ _ _).mp hx
  unfold cond003 at hy
  split at hy
  · rename_i hs l12 _ a' hp _ _
    split at hy
    · cases hy
    · simp only [List.mem_singleton] at hy; subst hy
      refine ⟨t, by simp, ?_, rfl⟩
      unfold headingProps003 at hp
      unfold Tok.isHeading
      split at hp <;> simp_all
  · cases hy

/-- C13: `starting_new_file` assigns the only state field from the configuration. -/
theorem md003_state_reset (c : C003) (a b : List Tok) : scanAfter md003 c a b = scan md003 c b :=
  scanAfter_eq_scan md003 c (fun _ _ => rfl) a b

/-- C12: MD003 reads `hash_count` and `remove_trailing_count` of ATX headings, and the kind of SetExt headings. -/
theorem md003_scan_reads (c : C003) (toks toks' : List Tok)
    (h : All₂ (fun t t' => t'.kind = t.kind ∧ t'.line = t.line ∧ t'.col = t.col ∧
      (t.kind = .atx → t'.hashCount = t.hashCount ∧ t'.trailing = t.trailing)) toks toks') :
    scan md003 c toks' = scan md003 c toks :=
  scan_congr md003 c _ (fun s t t' ⟨h1, h2, h3, h4⟩ => by
    show next003 c s t' = next003 c s t
    have hp : headingProps003 t' = headingProps003 t := by
      unfold headingProps003; rw [h1]
      by_cases hk : t.kind = .atx
      · simp [hk, (h4 hk).1, (h4 hk).2]
      · cases hk' : t.kind <;> simp_all
    unfold next003 reportAt
    rw [hp, h2, h3]) toks toks' h

/-! ## MD041 first-line-heading -/

/-- C06: on a stream in which every HTML block start is directly followed by a text token (its first line: every stream the
    parser produces), the verdict is the verdict on the FIRST ELEMENT — the first token that is neither a blank line nor (when a
    title key is configured) front matter without that key: a heading must have the configured level, front matter with the
    title key passes, an HTML block must begin with `<h1 ` / `<h1>`, anything else is reported. -/
theorem md041_scan_iff (c : C041) (toks : List Tok)
    (hG : ∀ (a : List Tok) (h x : Tok) (b : List Tok), toks = a ++ h :: x :: b → h.kind = .html → x.kind = .text) :
    scan md041 c toks = .ok (verdict041 c (toks.dropWhile (skip041 c))) :=
  md041_scanFrom c toks hG

/-- non-vacuity of the hypothesis + test: `<h2>` block first: reported at the block; a blank line and front matter without
    title are skipped, the level-2 heading behind them is reported. -/
example : let d : List Tok := [{ kind := .html, line := 1, col := 1 }, { kind := .text, text := "<h2>x</h2>".toList, line := 1, col := 1 }]
    (∀ (a : List Tok) (h x : Tok) (b : List Tok), d = a ++ h :: x :: b → h.kind = .html → x.kind = .text) ∧
    scan md041 {} d = .ok [⟨1, 1, none, 0⟩] := by
  refine ⟨?_, by decide⟩
  intro a h x b e hk
  cases a with
  | nil => simp only [List.nil_append, List.cons.injEq] at e; rw [← e.2.1]
  | cons y ys =>
    cases ys with
    | nil => simp at e
    | cons z zs => simp at e
example : scan md041 {} [{ kind := .blank, line := 1, col := 1 }, { kind := .frontMatter, keys := ["author".toList], line := 2, col := 1 },
    { kind := .atx, hashCount := 2, line := 6, col := 1 }] = .ok [⟨6, 1, none, 0⟩] := by decide

/-- excluded point of `md041_scan_iff` (synthetic streams only): an HTML block start followed by a blank line token fails the
    `assert token.is_text`. -/
theorem md041_excluded : scan md041 {} [{ kind := .html, line := 1, col := 1 }, { kind := .blank, line := 2, col := 1 }] = .error .assertion := by
  decide

/-- C07, for every stream: every report is at the position of a token of the stream, no delta.  (The end-of-stream token is a
    token of the stream: an empty document is reported at ITS position, line = number of lines + 1, column 0 — F-MD041-EOS.) -/
theorem md041_reports_in_range (c : C041) (toks : List Tok) (rs : List Report) (h : scan md041 c toks = .ok rs) :
    ∀ x ∈ rs, ∃ t ∈ toks, rpos x = tpos t := by
  have := scanFrom_reports md041 c I041 (fun toks x => ∃ u ∈ toks, (x.line, x.col) = (u.line, u.col))
    (fun a b x ⟨u, hu, e⟩ => ⟨u, List.mem_append_left _ hu, e⟩)
    (fun seen s t s' rp hI hn => md041_range_step c seen s t s' rp hI hn) toks [] _ rs (fun h hh => by cases hh) h
  simpa using this

/-- C13: `starting_new_file` assigns both fields. -/
theorem md041_state_reset (c : C041) (a b : List Tok) : scanAfter md041 c a b = scan md041 c b :=
  scanAfter_eq_scan md041 c (fun _ _ => rfl) a b

/-- C12: MD041 reads the kind and position of every token, the level of headings, the keys of front matter and the text of text
    tokens.  (`PosEq` also carries the original position of a SetExt heading, which this rule does not read.) -/
theorem md041_scan_reads (c : C041) (toks toks' : List Tok)
    (h : All₂ (fun t t' => PosEq t t' ∧ (t.isHeading = true → t'.hashCount = t.hashCount) ∧
      (t.kind = .frontMatter → t'.keys = t.keys) ∧ (t.kind = .text → t'.text = t.text)) toks toks') :
    scan md041 c toks' = scan md041 c toks :=
  scanFrom_congr_rel md041 c S041r Rs041 (fun s s' t t' hR hS => md041_rel_step c s s' t t' hR hS) toks toks' h _ _
    ⟨rfl, trivial⟩

/-! ## MD036 no-emphasis-as-heading -/

/-- C06: on a stream where no paragraph start lies within the four tokens after a paragraph start and no text token is empty
    (`Wf036`: true of every stream the parser produces), a token is reported iff the five tokens from it on are: paragraph start,
    emphasis start, a text without newline whose last character is not in `punctuation`, emphasis end, paragraph end. -/
theorem md036_scan_iff (c : C036) (toks : List Tok) (hW : Wf036 toks) : scan md036 c toks = .ok (spec036 c toks) :=
  (md036_run c toks hW).1 none

/-- excluded points of `md036_scan_iff` (synthetic streams only): an empty text token inside emphasis raises `IndexError`
    (`token_text[-1]`); a paragraph start directly after a paragraph start is not looked at, so the window that begins at the second
    one is missed. -/
theorem md036_excluded_empty_text :
    scan md036 {} [{ kind := .para }, { kind := .emphasis }, { kind := .text }] = .error .indexError := by decide
theorem md036_excluded_nested_para :
    let d : List Tok := [{ kind := .para, line := 1 }, { kind := .para, line := 2 }, { kind := .emphasis }, { kind := .text, text := ['a'] },
      { kind := .emphasisEnd }, { kind := .paraEnd }]
    scan md036 {} d = .ok [] ∧ spec036 {} d = [⟨2, 0, none, 0⟩] := by
  refine ⟨by decide, by decide⟩

/-- test (non-vacuity): `**Title**` alone in a paragraph is reported, `**Title.**` is not. -/
example : scan md036 {} [{ kind := .para, line := 1, col := 1 }, { kind := .emphasis, line := 1, col := 1 }, { kind := .text, text := "Title".toList, line := 1, col := 3 },
    { kind := .emphasisEnd }, { kind := .paraEnd }] = .ok [⟨1, 1, none, 0⟩] := by decide
example : scan md036 {} [{ kind := .para, line := 1, col := 1 }, { kind := .emphasis, line := 1, col := 1 }, { kind := .text, text := "Title.".toList, line := 1, col := 3 },
    { kind := .emphasisEnd }, { kind := .paraEnd }] = .ok [] := by decide

/-- C07, for every stream: every report is at the position of a paragraph start of the stream, no delta. -/
theorem md036_reports_in_range (c : C036) (toks : List Tok) (rs : List Report) (h : scan md036 c toks = .ok rs) :
    ∀ x ∈ rs, ∃ t ∈ toks, t.kind = .para ∧ rpos x = tpos t := by
  have := scanFrom_reports md036 c I036 (fun toks x => ∃ u ∈ toks, u.kind = .para ∧ (x.line, x.col) = (u.line, u.col))
    (fun a b x ⟨u, hu, e⟩ => ⟨u, List.mem_append_left _ hu, e⟩)
    (fun seen s t s' rp hI hn => md036_range_step c seen s t s' rp hI hn) toks [] _ rs (fun h hh => by cases hh) h
  simpa using this

/-- C13: `starting_new_file` assigns both fields. -/
theorem md036_state_reset (c : C036) (a b : List Tok) : scanAfter md036 c a b = scan md036 c b :=
  scanAfter_eq_scan md036 c (fun _ _ => rfl) a b

/-- C12: MD036 reads the kind of every token, the position of paragraph starts and the text of text tokens. -/
theorem md036_scan_reads (c : C036) (toks toks' : List Tok)
    (h : All₂ (fun t t' => t'.kind = t.kind ∧ (t.kind = .para → PosEq t t') ∧ (t.kind = .text → t'.text = t.text)) toks toks') :
    scan md036 c toks' = scan md036 c toks :=
  scanFrom_congr_rel md036 c S036r Rs036 (fun s s' t t' hR hS => md036_rel_step c s s' t t' hR hS) toks toks' h _ _
    ⟨rfl, trivial⟩

/-! ## MD026 no-trailing-punctuation -/

/-- the guard of `md026_scan_iff`: every heading end closes an open heading, a SetExt end a SetExt heading -/
abbrev Wf026 (toks : List Tok) : Prop := Guarded G026 toks

/-- C06: on a stream whose heading ends match heading starts (`Wf026`: every stream the parser produces), the END token of a heading
    is reported iff the texts of the unbroken run of text tokens directly before it (`trailingText` of the tokens since the heading's
    start: any other token in between — emphasis, a code span, an end token — empties the text) are not empty and their last
    character is one of `punctuation`.  The report's position is computed from the heading's START token by `deltas026`. -/
theorem md026_scan_iff (c : C026) (toks : List Tok) (hW : Wf026 toks) :
    scan md026 c toks = .ok (byPrefix (cond026 c) [] toks) :=
  md026_scanFrom c toks hW

/-- excluded points of `md026_scan_iff` (synthetic streams only): a SetExt end after an ATX start reads `original_line_number` of
    the ATX token (`AttributeError`); a second heading end without a start finds the text of the first still there and fails the
    `assert`. -/
theorem md026_excluded_mismatch : scan md026 {} [{ kind := .atx, line := 1, col := 1 }, { kind := .text, text := "a.".toList },
    { kind := .setextEnd }] = .error .attributeError := by decide
theorem md026_excluded_double_end : scan md026 {} [{ kind := .atx, line := 1, col := 1 }, { kind := .text, text := "a.".toList },
    { kind := .atxEnd }, { kind := .atxEnd }] = .error .assertion := by decide

/-- test (non-vacuity): `# a.` is reported at column 1 + 2 − 1 of the text's last character relative to the heading start;
    `# a *b.*` is not (the end of the emphasis empties the text); a two-line SetExt heading `x / y!` is reported one line below
    its original position. -/
example : scan md026 {} [{ kind := .atx, line := 1, col := 1 }, { kind := .text, text := "a.".toList }, { kind := .atxEnd }] =
    .ok [⟨1, 2, none, 0⟩] := by decide
example : scan md026 {} [{ kind := .atx, line := 1, col := 1 }, { kind := .text, text := "a ".toList }, { kind := .emphasis },
    { kind := .text, text := "b.".toList }, { kind := .emphasisEnd }, { kind := .atxEnd }] = .ok [] := by decide
example : scan md026 {} [{ kind := .setext, line := 3, col := 1, oline := 1, ocol := 1 }, { kind := .text, text := "x\ny!".toList },
    { kind := .setextEnd }] = .ok [⟨2, 2, none, 0⟩] := by decide

/-- C07, for every stream: every report is `deltas026` applied to a heading start token of the stream and a non-empty text … -/
theorem md026_reports_in_range (c : C026) (toks : List Tok) (rs : List Report) (h : scan md026 c toks = .ok rs) :
    ∀ x ∈ rs, At026 toks x := by
  have := scanFrom_reports md026 c I026 At026
    (fun a b x ⟨u, hu, e⟩ => ⟨u, List.mem_append_left _ hu, e⟩)
    (fun seen s t s' rp hI hn => md026_range_step c seen s t s' rp hI hn) toks [] _ rs (fun h hh => by cases hh) h
  simpa using this

/-- … and what `deltas026` computes stays inside that text: the line delta is the number of newline characters in it (0 for an ATX
    heading, whose own position is used; a SetExt heading starts from its original position), the column delta is the index of the last
    character on the last line — it is −1, and the report goes to column 1, exactly when the text ends with a newline. -/
theorem md026_delta_bounds (atx : Bool) (txt : Str) (hne : txt ≠ []) :
    0 ≤ (deltas026 atx txt).2.1 ∧ (deltas026 atx txt).2.1 ≤ txt.length ∧
    -1 ≤ (deltas026 atx txt).2.2 ∧ (deltas026 atx txt).2.2 < txt.length ∧
    ((deltas026 atx txt).2.2 = -1 → txt.getLast? = some '\n') ∧
    (atx = true → (deltas026 atx txt).1 = false ∧ (deltas026 atx txt).2.1 = 0) :=
  deltas026_bounds atx txt hne

/-- C13: `starting_new_file` assigns both fields. -/
theorem md026_state_reset (c : C026) (a b : List Tok) : scanAfter md026 c a b = scan md026 c b :=
  scanAfter_eq_scan md026 c (fun _ _ => rfl) a b

/-- C12: MD026 reads the kind of every token, the position (and original position) of heading starts and the text of text tokens. -/
theorem md026_scan_reads (c : C026) (toks toks' : List Tok)
    (h : All₂ (fun t t' => t'.kind = t.kind ∧ (t.isHeading = true → PosEq t t') ∧ (t.kind = .text → t'.text = t.text)) toks toks') :
    scan md026 c toks' = scan md026 c toks :=
  scanFrom_congr_rel md026 c S026r Rs026 (fun s s' t t' hR hS => md026_rel_step c s s' t t' hR hS) toks toks' h _ _
    ⟨rfl, trivial⟩

/-! ## MD024 no-duplicate-heading -/

/-- the guard of `md024_scan_iff`: heading levels 1–6 (read only under `siblings_only`), every heading end closes an open heading -/
abbrev Wf024 (c : C024) (toks : List Tok) : Prop := Guarded (G024 c) toks

/-- C06: on a well-formed stream the END token of a heading is reported (at the heading's start) iff an earlier completed heading has
    the same text — the concatenated debug strings of the tokens inside the heading — and, under `siblings_only` /
    `allow_different_nesting`, the same level with no heading of a LOWER level between the two (`sibHas` over `closed024`, the completed
    headings, latest first).  In particular the two `while` loops never raise `IndexError` on such a stream. -/
theorem md024_scan_iff (c : C024) (toks : List Tok) (hW : Wf024 c toks) :
    scan md024 c toks = .ok (byPrefix (cond024 c) [] toks) :=
  md024_scanFrom c toks hW

/-- excluded points of `md024_scan_iff` (synthetic streams only): a level-7 heading under `siblings_only` indexes past the six
    dictionaries; a heading end without a start finds `__hash_count = -1`: index −2 of a ONE-element list. -/
theorem md024_excluded_level7 : scan md024 { siblingsOnly := true } [{ kind := .atx, hashCount := 7 }, { kind := .atxEnd }] =
    .error .indexError := by decide
theorem md024_excluded_end_first : scan md024 {} [{ kind := .atxEnd }] = .error .indexError := by decide
/-- … and Python's negative index: under `siblings_only` a level-0 heading is filed in the LAST dictionary (level 6). -/
theorem md024_level0_wraps : scan md024 { siblingsOnly := true } [{ kind := .atx, hashCount := 0, line := 1 }, { kind := .atxEnd },
    { kind := .atx, hashCount := 6, line := 3 }, { kind := .atxEnd }] = .ok [⟨3, 0, none, 0⟩] := by decide

/-- test (non-vacuity): `# a / ## b / # a`: reported without `siblings_only`, and with it (same level, nothing lower between);
    `## a / # x / ## a` is reported without and NOT with it. -/
example : let d : List Tok := [{ kind := .atx, hashCount := 1, line := 1, col := 1 }, { kind := .text, dbg := "[text:a]".toList }, { kind := .atxEnd },
      { kind := .atx, hashCount := 2, line := 3, col := 1 }, { kind := .text, dbg := "[text:b]".toList }, { kind := .atxEnd },
      { kind := .atx, hashCount := 1, line := 5, col := 1 }, { kind := .text, dbg := "[text:a]".toList }, { kind := .atxEnd }]
    scan md024 {} d = .ok [⟨5, 1, none, 0⟩] ∧ scan md024 { siblingsOnly := true } d = .ok [⟨5, 1, none, 0⟩] := by
  refine ⟨by decide, by decide⟩
example : let d : List Tok := [{ kind := .atx, hashCount := 2, line := 1, col := 1 }, { kind := .text, dbg := "[text:a]".toList }, { kind := .atxEnd },
      { kind := .atx, hashCount := 1, line := 3, col := 1 }, { kind := .text, dbg := "[text:x]".toList }, { kind := .atxEnd },
      { kind := .atx, hashCount := 2, line := 5, col := 1 }, { kind := .text, dbg := "[text:a]".toList }, { kind := .atxEnd }]
    scan md024 {} d = .ok [⟨5, 1, none, 0⟩] ∧ scan md024 { siblingsOnly := true } d = .ok [] := by
  refine ⟨by decide, by decide⟩

/-- C07, for every stream: every report is at the position — for a SetExt heading: the original position — of a heading start token
    of the stream, no delta. -/
theorem md024_reports_in_range (c : C024) (toks : List Tok) (rs : List Report) (h : scan md024 c toks = .ok rs) :
    ∀ x ∈ rs, AtHeading toks x := by
  have := scanFrom_reports md024 c I024 AtHeading AtHeading.mono
    (fun seen s t s' rp hI hn => md024_range_step c seen s t s' rp hI hn) toks [] _ rs (fun h hh => by cases hh) h
  simpa using this

/-- C13: `starting_new_file` assigns all five fields (the dictionary list from the configuration). -/
theorem md024_state_reset (c : C024) (a b : List Tok) : scanAfter md024 c a b = scan md024 c b :=
  scanAfter_eq_scan md024 c (fun _ _ => rfl) a b

/-- C12: MD024 reads the kind of every token, position and level of heading starts, and the debug string of every other token. -/
theorem md024_scan_reads (c : C024) (toks toks' : List Tok)
    (h : All₂ (fun t t' => t'.kind = t.kind ∧ (t.isHeading = true → PosEq t t' ∧ t'.hashCount = t.hashCount) ∧
      (t.isHeading = false → t'.dbg = t.dbg)) toks toks') :
    scan md024 c toks' = scan md024 c toks :=
  scanFrom_congr_rel md024 c S024r Rs024 (fun s s' t t' hR hS => md024_rel_step c s s' t t' hR hS) toks toks' h _ _
    ⟨rfl, rfl, rfl, rfl, trivial⟩

/-! ## MD022 blanks-around-headings -/

/-- C06, for EVERY stream (the rule never raises): the six-field state machine is three functions of the tokens seen — the blank-line
    count `cnt022`, "the latest heading has ended" `ended022`, the heading that waits for its verdict `pend022` — and a token is a
    VERDICT POINT iff a heading waits, has ended, and the token is not transparent (not the end of a block quote, not a blank line that
    follows on).  At the verdict point the heading is reported "Above" unless the count before its start was unknown (−1) or
    `lines_above`, and "Below" unless the count now is `lines_below`. -/
theorem md022_scan_iff (c : C022) (toks : List Tok) : scan md022 c toks = .ok (byPrefix (cond022 c) [] toks) :=
  md022_scanFrom c toks

/-- what the "Below" count is: from a known count on, over a run of transparent tokens, the count grows by the number of blank
    line tokens in the run.  After the end of a heading (count 0) it is the number of blank line tokens up to the verdict point. -/
theorem md022_count_over_gap (gap base : List Tok) (hb : cnt022 base ≥ 0) (hall : AllTransparent gap base) :
    cnt022 (gap ++ base) = cnt022 base + ((gap.filter (fun x => x.kind == .blank)).length : Int) :=
  cnt022_gap gap base hb hall

/-- non-vacuity: `# h`, end, two blank lines on consecutive lines (given latest first): count 2. -/
example : let gap : List Tok := [{ kind := .blank, line := 3 }, { kind := .blank, line := 2 }]
    let base : List Tok := [{ kind := .atxEnd }, { kind := .atx, line := 1 }]
    cnt022 base ≥ 0 ∧ AllTransparent gap base ∧ cnt022 (gap ++ base) = 2 := by
  refine ⟨by decide, ⟨by decide, by decide, trivial⟩, by decide⟩

/-- test: `text / # h / text` (no blank lines): reported Above (Actual: 0) and Below (Actual: 0) at the heading, when the next
    paragraph starts; `text / (blank) / # h / (blank) / text`: nothing. -/
example : (scan md022 {} [{ kind := .para, line := 1 }, { kind := .text }, { kind := .paraEnd }, { kind := .atx, line := 2, col := 1 }, { kind := .text },
    { kind := .atxEnd }, { kind := .para, line := 3 }]).map (·.map rpos) = .ok [(2, 1), (2, 1)] := by decide
example : scan md022 {} [{ kind := .para, line := 1 }, { kind := .text }, { kind := .paraEnd }, { kind := .blank, line := 2 }, { kind := .atx, line := 3, col := 1 },
    { kind := .text }, { kind := .atxEnd }, { kind := .blank, line := 4 }, { kind := .para, line := 5 }] = .ok [] := by decide

/-- the judgement needs a token AFTER the heading: without the end-of-stream token (`otherEnd`) a heading that ends the document is
    never judged (the rule has no `completed_file`). -/
example : let d : List Tok := [{ kind := .paraEnd }, { kind := .atx, line := 2, col := 1 }, { kind := .atxEnd }]
    scan md022 {} d = .ok [] ∧ (scan md022 {} (d ++ [{ kind := .otherEnd, line := 3 }])).map (·.length) = .ok 2 := by
  refine ⟨by decide, by decide⟩

/-- MD022 against the reference, per heading: the reference (`RuleSpec.md022`) reports "above" iff the heading is not the first element
    and the number of blank lines above differs from `lines_above`, "below" iff the number below differs from `lines_below`.  When the
    rule's count before the heading is unknown exactly for a first element and otherwise IS the reference's number of blank lines, and
    its count at the verdict point is the reference's number below, the two verdicts coincide. -/
theorem md022_faithful_eq_spec_partial (c : C022) (cr : Verif.Model.RuleSpec.C022) (a b : Int) (first : Bool) (above below : Nat)
    (hc1 : c.above = (cr.linesAbove : Int)) (hc2 : c.below = (cr.linesBelow : Int))
    (h1 : (a = -1) ↔ first = true) (h2 : a ≠ -1 → a = (above : Int)) (h3 : b = (below : Int)) :
    (!decide (a = -1 ∨ a = c.above)) = (!first && above != cr.linesAbove) ∧
    (!decide (b = c.below)) = (below != cr.linesBelow) := by
  constructor
  · by_cases ha : a = -1
    · have := h1.mp ha; simp [ha, this]
    · have hf : first = false := by
        cases hfirst : first with
        | false => rfl
        | true => exact absurd (h1.mpr hfirst) ha
      have := h2 ha
      rw [hf, this, hc1]
      have hne : ¬ ((above : Int) = -1) := by omega
      by_cases he : above = cr.linesAbove
      · simp [he]
      · have : ¬ (above : Int) = (cr.linesAbove : Int) := by omega
        simp [he, hne, this]
  · rw [h3, hc2]
    by_cases he : below = cr.linesBelow
    · simp [he]
    · have : ¬ (below : Int) = (cr.linesBelow : Int) := by omega
      simp [he, this]

/-- where hypothesis `h1` of `md022_faithful_eq_spec_partial` fails: the count only starts at the first token that ends a LEAF block.
    After `- ` / `# h` (a list marker alone on its line, then a heading) the tokens before the heading are a list start, a blank line
    and the list's end: the count is still unknown although the heading is not the first element — no "Above" report
    (F-C06-MD022-MISSED; real rule on `- \n# h\n`: no MD022 — NOTES-ScanRules.md). -/
theorem md022_count_unknown_after_list :
    cnt022 [{ kind := .listEnd }, { kind := .blank, line := 1 }, { kind := .other, line := 1, col := 1 }] = -1 := by decide

/-- C07, for every stream: every report is at the position — for a SetExt heading: the original position — of a heading start token
    of the stream, no delta. -/
theorem md022_reports_in_range (c : C022) (toks : List Tok) (rs : List Report) (h : scan md022 c toks = .ok rs) :
    ∀ x ∈ rs, AtHeading toks x := by
  have := scanFrom_reports md022 c I022 AtHeading AtHeading.mono
    (fun seen s t s' rp hI hn => md022_range_step c seen s t s' rp hI hn) toks [] _ rs (fun h hh => by cases hh) h
  simpa using this

/-- C13 — the one rule of the ten whose `starting_new_file` does NOT assign every field: `__start_heading_blank_line_count` keeps the
    value the previous file left.  It is read only while a heading is remembered, and remembering a heading assigns it first: for ALL
    files a and b, b's reports after a are b's reports alone. -/
theorem md022_state_reset (c : C022) (a b : List Tok) : scanAfter md022 c a b = scan md022 c b :=
  scanAfter_eq_scan md022 c (fun s b => md022_start_any c s b) a b

/-- the two start states of `md022_state_reset` really differ: after a file with a heading the unreset field holds that file's count. -/
example : md022.start {} (stateFrom md022 {} (md022.start {} md022.fresh) [{ kind := .paraEnd }, { kind := .blank, line := 2 }, { kind := .atx }]) ≠
    md022.start {} md022.fresh := by decide

/-- C12: MD022 reads the kind of every token, the position (and original position) of heading starts and the line of blank lines. -/
theorem md022_scan_reads (c : C022) (toks toks' : List Tok)
    (h : All₂ (fun t t' => t'.kind = t.kind ∧ (t.isHeading = true → PosEq t t') ∧ (t.kind = .blank → t'.line = t.line)) toks toks') :
    scan md022 c toks' = scan md022 c toks :=
  scanFrom_congr_rel md022 c S022r Rs022 (fun s s' t t' hR hS => md022_rel_step c s s' t t' hR hS) toks toks' h _ _
    ⟨rfl, rfl, rfl, rfl, rfl, trivial⟩

/-! ## faithful model = reference condition (`Model/RuleSpec`, written from the rule pages over LeanMark's events)

  Each theorem takes the correspondence of the element lists the two sides work on (`All₂`: same number of elements, in order, with
  the stated attributes equal) as hypothesis and concludes that the reported LINES are the same.  MD036 has no reference condition. -/
open Verif.Model

theorem flatMap_ite {α β : Type} (p : α → Bool) (g : α → β) (l : List α) :
    l.flatMap (fun a => if p a then [g a] else []) = (l.filter p).map g := by
  induction l with
  | nil => rfl
  | cons a as ih => simp only [List.flatMap_cons, List.filter_cons, ih]; cases p a <;> simp

/-- MD040: when the fenced code block tokens are the reference's fenced blocks (same line; the token's `extracted_text` is the first
    word of the reference's info string), the reported lines are those of `RuleSpec.md040`. -/
theorem md040_faithful_eq_spec (toks : List Tok) (ls : List LeanMark.Line) (evs : List LeanMark.Ev)
    (hcorr : All₂ (fun (t : Tok) (f : RuleSpec.Fence) => t.text = firstWord f.info ∧ t.line = (f.b.line : Int))
      (toks.filter (fun t => t.kind == .fence)) (RuleSpec.fences ls (RuleSpec.blocks evs))) :
    (toks.filter trig040).map (·.line) = (RuleSpec.md040 ls evs).map (fun x => (x.1 : Int)) := by
  have e1 : toks.filter trig040 = (toks.filter (fun t => t.kind == .fence)).filter (fun t => (stripBy isAsciiWs t.text).isEmpty) := by
    rw [List.filter_filter]; congr 1; funext t; unfold trig040; rw [Bool.and_comm]
  unfold RuleSpec.md040
  rw [e1, flatMap_ite (fun f : RuleSpec.Fence => (f.info.filter (fun c => !LeanMark.isWsChar c)).isEmpty) (fun f => (f.b.line, none)),
    List.map_map]
  exact filter_corr _ _ _ _ _ (fun t f ⟨h1, h2⟩ => ⟨by rw [h1]; exact md040_pred f.info, h2⟩) _ _ hcorr

/-- the token-side predicate of `md040_faithful_eq_spec` on a concrete info string: `   py  x` is stored as `py` -/
example : firstWord "   py  x".toList = "py".toList := by decide

/-- MD045: on alternate texts without a vertical tab the two verdicts are the same predicate … -/
theorem md045_faithful_eq_spec_partial (alt : Str) (h : ∀ c ∈ alt, c ≠ '\x0b') :
    (stripBy isUnicodeWs alt).isEmpty = alt.all LeanMark.isUniWs :=
  md045_pred alt h

/-- … and the vertical tab is where they differ: pymarkdown's `Constants.unicode_whitespace` does not contain U+000B, LeanMark's
    `isUniWs` does (through `isWsChar`).  GFM's definition of Unicode white space has no vertical tab: the deviation is the reference's.
    (Real rule on `![\x0b](/u)`: no report — recorded in NOTES-ScanRules.md.) -/
theorem md045_differs : (stripBy isUnicodeWs ['\x0b']).isEmpty = false ∧ ['\x0b'].all LeanMark.isUniWs = true := by
  refine ⟨by decide, by decide⟩

/-- MD042: on destinations whose white space is ASCII white space, "empty or `#` after `strip`" is the reference's `emptyDest` … -/
theorem md042_faithful_eq_spec_partial (d : Str) (h : ∀ ch ∈ d, LeanMark.isUniWs ch = isAsciiWs ch) :
    ((stripBy isAsciiWs d).isEmpty || stripBy isAsciiWs d == ['#']) = RuleSpec.emptyDest d :=
  md042_pred d h

/-- … and a no-break space is where they differ: `#` followed by U+00A0 is an empty fragment for the reference, not for the rule
    (`str.strip(ascii_whitespace)`).  (Real rule on `[a](#\u00a0)`: no report — recorded in NOTES-ScanRules.md.) -/
theorem md042_differs : ((stripBy isAsciiWs ['#', '\u00a0']).isEmpty || stripBy isAsciiWs ['#', '\u00a0'] == ['#']) = false ∧
    RuleSpec.emptyDest ['#', '\u00a0'] = true := by
  refine ⟨by decide, by decide⟩

/-- MD025, front matter off: when the heading tokens are the reference's headings (level, marker line), the reported lines are those
    of `RuleSpec.md025` — every heading of the top level after the first. -/
theorem md025_faithful_eq_spec (c : C025) (cr : RuleSpec.C025) (hc : c.level = (cr.level : Int)) (toks : List Tok)
    (ls : List LeanMark.Line) (evs : List LeanMark.Ev) (hfm : ∀ t ∈ toks, t.kind ≠ .frontMatter)
    (hcorr : All₂ (fun (t : Tok) (h : RuleSpec.Heading) => t.hashCount = (h.level : Int) ∧ t.line = (h.markLine : Int))
      (toks.filter (·.isHeading)) (RuleSpec.headings ls (RuleSpec.blocks evs))) :
    (byPrefix (cond025 c) [] toks).map (·.line) = (RuleSpec.md025 cr ls evs).map (fun x => (x.1 : Int)) := by
  rw [byPrefix025]
  have := go025_ref c cr.level hc toks _ false hfm hcorr
  simp only [List.any_nil]
  rw [this]
  unfold RuleSpec.md025
  simp only [Bool.false_eq_true, if_false, List.map_map]
  rfl

/-- MD003: when the heading tokens are the reference's headings (style, level ≤ 2, marker line) and `allow-setext-update` is only set
    together with `consistent` (what `initialize_from_config` guarantees), the reported lines are those of `RuleSpec.md003`. -/
theorem md003_faithful_eq_spec (c : C003) (toks : List Tok) (ls : List LeanMark.Line) (evs : List LeanMark.Ev)
    (hcfg : c.style ≠ .consistent → c.allowUpdate = false)
    (hcorr : All₂ R003 (toks.filter (·.isHeading)) (RuleSpec.headings ls (RuleSpec.blocks evs))) :
    (byPrefix (cond003 c) [] toks).map (·.line) =
      (RuleSpec.md003 { style := styRef c.style, allowSetextUpdate := c.allowUpdate } ls evs).map (fun x => (x.1 : Int)) := by
  unfold RuleSpec.md003
  generalize RuleSpec.headings ls (RuleSpec.blocks evs) = hs at hcorr ⊢
  have h0 := inForce003_nil c hcfg
  by_cases hs0 : c.style = .consistent
  · rw [if_pos hs0] at h0
    rw [cond003_ref_consistent c toks [] hs h0 hcorr]
    simp only [hs0, styRef]
    cases hs <;> rfl
  · rw [if_neg hs0] at h0
    rw [cond003_ref c toks [] hs c.style h0 hcorr, hcfg hs0]
    cases hst : c.style <;> first | exact absurd hst hs0 | (cases hs <;> rfl)

/-- MD024, per heading: when the completed headings of the stream (latest first) are the reference's earlier headings — same level
    (1 for all without `siblings_only`), and a stream heading's text equals the text in question exactly when the reference's does —
    the faithful sibling search `sibHas` is the reference's `isDupOf`. -/
theorem md024_faithful_eq_spec (sib : Bool) (h : RuleSpec.Heading) (txt : Str) (closed : List (Int × Str))
    (seenRef : List RuleSpec.Heading)
    (hcorr : All₂ (fun (p : Int × Str) (g : RuleSpec.Heading) =>
      p.1 = (if sib then (g.level : Int) else 1) ∧ (p.2 = txt ↔ g.text = h.text)) closed seenRef) :
    sibHas (if sib then (h.level : Int) else 1) txt closed = RuleSpec.isDupOf sib h seenRef :=
  sibHas_ref sib h txt closed seenRef hcorr

/-- the text hypothesis of `md024_faithful_eq_spec` is needed: the rule compares DEBUG STRINGS, which contain the white space after the
    hashes — `# a` and `#  a` have the same reference text and different debug strings, so the second is not reported
    (F-C06-MD024-MISSED; real rule on `# a\n\n#  a\n`: no report — NOTES-ScanRules.md). -/
theorem md024_text_differs :
    scan md024 {} [{ kind := .atx, hashCount := 1, line := 1, col := 1 }, { kind := .text, dbg := "[text(1,3):a: ]".toList }, { kind := .atxEnd },
      { kind := .atx, hashCount := 1, line := 3, col := 1 }, { kind := .text, dbg := "[text(3,4):a:  ]".toList }, { kind := .atxEnd }] = .ok [] := by
  decide

/-- MD041, a heading as first element: the verdict is the reference's (level against the configured one, reported at the marker line). -/
theorem md041_faithful_eq_spec_partial (c : C041) (cr : RuleSpec.C041) (hc : c.level = (cr.level : Int)) (d : Tok) (rest : List Tok)
    (lvl : Nat) (setext : Bool) (p : LeanMark.Pos) (e : Nat) (pl : List LeanMark.PLine) (evs : List LeanMark.Ev)
    (ls : List LeanMark.Line) (hd : d.isHeading = true) (hl : d.hashCount = (lvl : Int))
    (hline : d.line = ((if setext then e else p.line : Nat) : Int)) :
    (verdict041 c (d :: rest)).map (·.line) =
      (RuleSpec.md041 cr ls (.leaf (.heading lvl setext) p e pl :: evs)).map (fun x => (x.1 : Int)) := by
  unfold verdict041 RuleSpec.md041
  simp only [hd, if_true, hl, hc]
  by_cases h : lvl = cr.level
  · subst h; simp
  · have h' : ¬ (lvl : Int) = (cr.level : Int) := by omega
    simp [h, h', reportAt, hline]

/-- MD041, an HTML block as first element: the rule accepts exactly `<h1 ` / `<h1>` after stripping SPACES; the reference accepts any
    case and a tab.  `<H1>` is where they differ (real rule on `<H1>a</H1>\n`: MD041 reported — NOTES-ScanRules.md). -/
theorem md041_h1_differs : startsH1 "<H1>a</H1>".toList = false ∧
    RuleSpec.startsWithH1 (LeanMark.lstripWs "<H1>a</H1>".toList) = true := by
  refine ⟨by decide, by decide⟩

/-- MD026, per heading: when the text run the rule looks at is the reference's heading text with trailing white space removed and
    does not end in a character reference, the two verdicts are the same. -/
theorem md026_faithful_eq_spec_partial (c : C026) (cr : RuleSpec.C026) (hp : c.punctuation = cr.punctuation) (txt raw : Str)
    (h1 : txt = LeanMark.rstripBy LeanMark.isWsChar raw) (h2 : RuleSpec.endsWithEntity txt = false) :
    (match txt.getLast? with
     | some ch => c.punctuation.contains ch
     | none => false) = RuleSpec.md026Text cr raw := by
  unfold RuleSpec.md026Text
  rw [← h1, ← hp]
  simp only []
  cases hl : txt.getLast? with
  | none => rfl
  | some ch => simp [h2]

/-! ## all ten rules in one pass -/

/-- C12 (and the engine's `union_printed` at rule level): when the joint pass of the ten rules returns the report list `rs`, every rule,
    scanned ALONE with its own configuration, returns exactly its share of `rs` (same reports, same order): no rule's verdict depends on
    which of the other nine are enabled. -/
theorem allTen_projection (c : C003 × C022 × C024 × C025 × C026 × C036 × Unit × C041 × Unit × Unit) (toks : List Tok) (rs : List Report)
    (h : scan allTen c toks = .ok rs) :
    scan (md003.tag 3) c.1 toks = .ok (rs.filter (fun x => x.rule == 3)) ∧
    scan (md022.tag 22) c.2.1 toks = .ok (rs.filter (fun x => x.rule == 22)) ∧
    scan (md024.tag 24) c.2.2.1 toks = .ok (rs.filter (fun x => x.rule == 24)) ∧
    scan (md025.tag 25) c.2.2.2.1 toks = .ok (rs.filter (fun x => x.rule == 25)) ∧
    scan (md026.tag 26) c.2.2.2.2.1 toks = .ok (rs.filter (fun x => x.rule == 26)) ∧
    scan (md036.tag 36) c.2.2.2.2.2.1 toks = .ok (rs.filter (fun x => x.rule == 36)) ∧
    scan (md040.tag 40) c.2.2.2.2.2.2.1 toks = .ok (rs.filter (fun x => x.rule == 40)) ∧
    scan (md041.tag 41) c.2.2.2.2.2.2.2.1 toks = .ok (rs.filter (fun x => x.rule == 41)) ∧
    scan (md042.tag 42) c.2.2.2.2.2.2.2.2.1 toks = .ok (rs.filter (fun x => x.rule == 42)) ∧
    scan (md045.tag 45) c.2.2.2.2.2.2.2.2.2 toks = .ok (rs.filter (fun x => x.rule == 45)) := by
  obtain ⟨c3, c22, c24, c25, c26, c36, c40, c41, c42, c45⟩ := c
  have t45 := tagged_tag 45 md045
  have t42 := tagged_prod _ _ _ _ (tagged_tag 42 md042) t45
  have t41 := tagged_prod _ _ _ _ (tagged_tag 41 md041) t42
  have t40 := tagged_prod _ _ _ _ (tagged_tag 40 md040) t41
  have t36 := tagged_prod _ _ _ _ (tagged_tag 36 md036) t40
  have t26 := tagged_prod _ _ _ _ (tagged_tag 26 md026) t36
  have t25 := tagged_prod _ _ _ _ (tagged_tag 25 md025) t26
  have t24 := tagged_prod _ _ _ _ (tagged_tag 24 md024) t25
  have t22 := tagged_prod _ _ _ _ (tagged_tag 22 md022) t24
  obtain ⟨p3, r3⟩ := scan_prod 3 _ (by decide) _ _ (tagged_tag 3 md003) t22 c3 _ toks rs h
  obtain ⟨p22, r22⟩ := scan_prod 22 _ (by decide) _ _ (tagged_tag 22 md022) t24 c22 _ toks _ r3
  obtain ⟨p24, r24⟩ := scan_prod 24 _ (by decide) _ _ (tagged_tag 24 md024) t25 c24 _ toks _ r22
  obtain ⟨p25, r25⟩ := scan_prod 25 _ (by decide) _ _ (tagged_tag 25 md025) t26 c25 _ toks _ r24
  obtain ⟨p26, r26⟩ := scan_prod 26 _ (by decide) _ _ (tagged_tag 26 md026) t36 c26 _ toks _ r25
  obtain ⟨p36, r36⟩ := scan_prod 36 _ (by decide) _ _ (tagged_tag 36 md036) t40 c36 _ toks _ r26
  obtain ⟨p40, r40⟩ := scan_prod 40 _ (by decide) _ _ (tagged_tag 40 md040) t41 c40 _ toks _ r36
  obtain ⟨p41, r41⟩ := scan_prod 41 _ (by decide) _ _ (tagged_tag 41 md041) t42 c41 _ toks _ r40
  obtain ⟨p42, r42⟩ := scan_prod 42 _ (by decide) _ _ (tagged_tag 42 md042) t45 c42 _ toks _ r41
  have e45 : ∀ l : List Report, (∀ x ∈ l, x.rule = 45) → l = l.filter (fun x => x.rule == 45) := fun l hl =>
    (List.filter_eq_self.mpr (fun x hx => by simp [hl x hx])).symm
  simp only [filter_ne_eq _ _ (by decide : (3 : Nat) ≠ 22), filter_ne_eq _ _ (by decide : (3 : Nat) ≠ 24),
    filter_ne_eq _ _ (by decide : (3 : Nat) ≠ 25), filter_ne_eq _ _ (by decide : (3 : Nat) ≠ 26), filter_ne_eq _ _ (by decide : (3 : Nat) ≠ 36),
    filter_ne_eq _ _ (by decide : (3 : Nat) ≠ 40), filter_ne_eq _ _ (by decide : (3 : Nat) ≠ 41), filter_ne_eq _ _ (by decide : (3 : Nat) ≠ 42),
    filter_ne_eq _ _ (by decide : (22 : Nat) ≠ 24), filter_ne_eq _ _ (by decide : (22 : Nat) ≠ 25), filter_ne_eq _ _ (by decide : (22 : Nat) ≠ 26),
    filter_ne_eq _ _ (by decide : (22 : Nat) ≠ 36), filter_ne_eq _ _ (by decide : (22 : Nat) ≠ 40), filter_ne_eq _ _ (by decide : (22 : Nat) ≠ 41),
    filter_ne_eq _ _ (by decide : (22 : Nat) ≠ 42), filter_ne_eq _ _ (by decide : (24 : Nat) ≠ 25), filter_ne_eq _ _ (by decide : (24 : Nat) ≠ 26),
    filter_ne_eq _ _ (by decide : (24 : Nat) ≠ 36), filter_ne_eq _ _ (by decide : (24 : Nat) ≠ 40), filter_ne_eq _ _ (by decide : (24 : Nat) ≠ 41),
    filter_ne_eq _ _ (by decide : (24 : Nat) ≠ 42), filter_ne_eq _ _ (by decide : (25 : Nat) ≠ 26), filter_ne_eq _ _ (by decide : (25 : Nat) ≠ 36),
    filter_ne_eq _ _ (by decide : (25 : Nat) ≠ 40), filter_ne_eq _ _ (by decide : (25 : Nat) ≠ 41), filter_ne_eq _ _ (by decide : (25 : Nat) ≠ 42),
    filter_ne_eq _ _ (by decide : (26 : Nat) ≠ 36), filter_ne_eq _ _ (by decide : (26 : Nat) ≠ 40), filter_ne_eq _ _ (by decide : (26 : Nat) ≠ 41),
    filter_ne_eq _ _ (by decide : (26 : Nat) ≠ 42), filter_ne_eq _ _ (by decide : (36 : Nat) ≠ 40), filter_ne_eq _ _ (by decide : (36 : Nat) ≠ 41),
    filter_ne_eq _ _ (by decide : (36 : Nat) ≠ 42), filter_ne_eq _ _ (by decide : (40 : Nat) ≠ 41), filter_ne_eq _ _ (by decide : (40 : Nat) ≠ 42),
    filter_ne_eq _ _ (by decide : (41 : Nat) ≠ 42)] at p22 p24 p25 p26 p36 p40 p41 p42
  refine ⟨p3, p22, p24, p25, p26, p36, p40, p41, p42, ?_⟩
  -- the last factor: what is left after removing the nine other numbers carries the number 45
  have hall := scan_tagged _ _ (tagged_prod _ _ _ _ (tagged_tag 3 md003) t22) _ toks rs h
  rw [r42]
  congr 1
  simp only [List.filter_filter]
  apply List.filter_congr
  intro x hx
  have := hall x hx
  simp only [List.cons_append, List.nil_append, List.mem_cons, List.not_mem_nil, or_false] at this
  rcases this with e | e | e | e | e | e | e | e | e | e <;> simp [e]

end Verif.Props.ScanRules
