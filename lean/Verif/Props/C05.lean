/-
  C05 — Token positions are true: line / column point at the element in the source.

  Theorems about the reference model LeanMark, for ALL documents (lists of lines) and all readings: every block event
  has its line inside the document and its column inside the tab-expanded line, start lines never decrease, and the
  character of the tab-expanded line at the reported position is the element's own opening character (all block
  kinds).  The implementation is tied to the reference by tools/props/c05.py: positions of pymarkdown's tokens =
  positions of the reference's events through the refinement map `abs` (on documents whose structure agrees), plus the
  same opener table evaluated directly on pymarkdown's tokens, independent of LeanMark.
  Inline positions are checked dynamically only (the opener table applied to the reference's own inline events on
  every explored document, and to pymarkdown's); there is no inline `L_opener` theorem.
-/
import Verif.Lemmas.LeanMarkBalanced
import Verif.Lemmas.LeanMarkOpener
namespace Verif.Props.C05
open Verif.Model.LeanMark

/-- **L_pos_range**: every event of a document of `n` lines has `1 ≤ line ≤ n`, `1 ≤ column`, end line `≤ n`, and
    every payload line number in `1..n` (`EvOK`, Model/LeanMark/Core.lean). -/
theorem L_pos_range (rd : Reading) (lines : List Line) : ∀ e ∈ eventsR rd lines, EvOK lines.length e :=
  L_pos_rangeR rd lines

example : events ["> - a".toList, [], "# h".toList] ≠ [] := by decide

/-- **L_lines_mono**: along the stream the start lines of `open` / `leaf` events never decrease. -/
theorem L_lines_mono (rd : Reading) (lines : List Line) : (startLines (eventsR rd lines)).Pairwise (· ≤ ·) :=
  L_lines_monoR rd lines

example : startLines (events ["> - a".toList, [], "# h".toList]) = [1, 1, 1, 1, 3] := by decide

/-- **L_col_bound**: the column of every positioned event lies inside its own tab-expanded line:
    `1 ≤ col ≤ (detab line).length` (stronger than the `+ 1` the property statement allows). -/
theorem L_col_bound (rd : Reading) (lines : List Line) : ∀ e ∈ eventsR rd lines, ∀ p, e.pos? = some p →
    ∃ l, lines[p.line - 1]? = some l ∧ 1 ≤ p.col ∧ p.col ≤ (detab l).length :=
  Verif.Model.LeanMark.L_col_bound rd lines

/-- **L_opener** (all block kinds): the character of the tab-expanded line at the reported column is the element's
    opening character — `>` block quote; the bullet / first digit of a list and of each item; `#` ATX heading; first
    text character (not a space) of a paragraph and of a setext heading; `-`, `_`, `*` thematic break; `` ` `` / `~`
    fence; `[` link reference definition; indented code: column ≥ 5, the 4 columns before it are spaces and the
    position exists; HTML block: `<` after at most 3 columns of spaces from the reported column (`OpenerOK`,
    Lemmas/LeanMarkOpenerDefs.lean). -/
theorem L_opener (rd : Reading) (lines : List Line) : ∀ e ∈ eventsR rd lines, OpenerOK lines e :=
  Verif.Model.LeanMark.L_opener rd lines

/-- a tab inside a block quote, before a list marker: `>` col 1, the tab fills columns 2–4, `-` col 5. -/
example : openers [">\t- a".toList, "  1. x".toList, "> # h".toList] =
    [(1, 1, some '>'), (1, 5, some '-'), (1, 5, some '-'), (1, 7, some 'a'),
     (2, 3, some '1'), (2, 3, some '1'), (2, 6, some 'x'),
     (3, 1, some '>'), (3, 3, some '#')] := by decide

example : openers ["-\t\tcode".toList, "  <div>".toList, [], " [a]: /u".toList, "\ttext".toList,
      "===".toList, "~~~".toList] =
    [(1, 1, some '-'), (1, 1, some '-'), (1, 7, some ' '), (2, 3, some '<'),
     (4, 2, some '['), (5, 5, some 't'), (7, 1, some '~')] := by decide

/-- what the opener statement says for one kind, unfolded: a block quote's position carries `>`. -/
theorem quote_opener (rd : Reading) (lines : List Line) (p : Pos) (h : Ev.open .quote p ∈ eventsR rd lines) :
    charAt lines p = some '>' := L_opener rd lines _ h

end Verif.Props.C05
