/-
  C05 — Token positions are true: line / column point at the element in the source.

  Theorems about the reference model LeanMark, for ALL documents (lists of lines) and all readings: every block event
  has its line inside the document and its column inside the tab-expanded line, start lines never decrease, and the
  character of the tab-expanded line at the reported position is the element's own opening character (all block
  kinds).  The implementation is tied to the reference by tools/props/c05.py: positions of pymarkdown's tokens =
  positions of the reference's events through the refinement map `abs` (on documents whose structure agrees), plus the
  same opener table evaluated directly on pymarkdown's tokens, independent of LeanMark.
  Inline positions: `L_inline_opener` / `L_inline_opener_partial` below state the opener table for the reference's
  inline events (every kind that has an opening character); the harness still applies the same table dynamically to
  the reference's events on every explored document, and to pymarkdown's.
-/
import Verif.Lemmas.LeanMarkBalanced
import Verif.Lemmas.LeanMarkOpener
import Verif.Lemmas.LeanMarkInlineOpener
import Verif.Lemmas.LeanMarkPayloadSrc
namespace Verif.Props.C05
open Verif.Model.LeanMark

/-- **L_pos_range**: every event of a document of `n` lines has `1 ≤ line ≤ n`, `1 ≤ column`, end line `≤ n`, and
    every payload line number in `1..n` (`EvOK`, Model/LeanMark/Core.lean). -/
theorem L_pos_range (rd : Reading) (lines : List Line) : ∀ e ∈ eventsR rd lines, EvOK lines.length e :=
  L_pos_rangeR rd lines

example : events ["> - a".toList, [], "# h".toList] ≠ [] := by decide

/-- **L_lines_mono**: along the stream the start lines of `open` / `leaf` events never decrease. -/
theorem L_lines_mono (rd : Reading) (lines : List Line) : (startLines (eventsR rd lines)).Pairwise (· ≤ ·) :=
  L_lines_monoR rd lines

example : startLines (events ["> - a".toList, [], "# h".toList]) = [1, 1, 1, 1, 3] := by decide

/-- **L_col_bound**: the column of every positioned event lies inside its own tab-expanded line:
    `1 ≤ col ≤ (detab line).length` (stronger than the `+ 1` the property statement allows). -/
theorem L_col_bound (rd : Reading) (lines : List Line) : ∀ e ∈ eventsR rd lines, ∀ p, e.pos? = some p →
    ∃ l, lines[p.line - 1]? = some l ∧ 1 ≤ p.col ∧ p.col ≤ (detab l).length :=
  Verif.Model.LeanMark.L_col_bound rd lines

/-- **L_opener** (all block kinds): the character of the tab-expanded line at the reported column is the element's
    opening character — `>` block quote; the bullet / first digit of a list and of each item; `#` ATX heading; first
    text character (not a space) of a paragraph and of a setext heading; `-`, `_`, `*` thematic break; `` ` `` / `~`
    fence; `[` link reference definition; indented code: column ≥ 5, the 4 columns before it are spaces and the
    position exists; HTML block: `<` after at most 3 columns of spaces from the reported column (`OpenerOK`,
    Lemmas/LeanMarkOpenerDefs.lean). -/
theorem L_opener (rd : Reading) (lines : List Line) : ∀ e ∈ eventsR rd lines, OpenerOK lines e :=
  Verif.Model.LeanMark.L_opener rd lines

/-- a tab inside a block quote, before a list marker: `>` col 1, the tab fills columns 2–4, `-` col 5. -/
example : openers [">\t- a".toList, "  1. x".toList, "> # h".toList] =
    [(1, 1, some '>'), (1, 5, some '-'), (1, 5, some '-'), (1, 7, some 'a'),
     (2, 3, some '1'), (2, 3, some '1'), (2, 6, some 'x'),
     (3, 1, some '>'), (3, 3, some '#')] := by decide

example : openers ["-\t\tcode".toList, "  <div>".toList, [], " [a]: /u".toList, "\ttext".toList,
      "===".toList, "~~~".toList] =
    [(1, 1, some '-'), (1, 1, some '-'), (1, 7, some ' '), (2, 3, some '<'),
     (4, 2, some '['), (5, 5, some 't'), (7, 1, some '~')] := by decide

/-- what the opener statement says for one kind, unfolded: a block quote's position carries `>`. -/
theorem quote_opener (rd : Reading) (lines : List Line) (p : Pos) (h : Ev.open .quote p ∈ eventsR rd lines) :
    charAt lines p = some '>' := L_opener rd lines _ h

/-! ## inline events -/

/-- **L_payload_src**: every payload line of every leaf event is a piece of the document line it names — the line
    exists and the text, tab-expanded from its column `col0`, is a prefix of the tab-expanded line from that column on
    (`PLineSrc`, Lemmas/LeanMarkPayloadSrc.lean).  This is what ties inline positions to the document. -/
theorem L_payload_src (rd : Reading) (doc : List Line) : ∀ e ∈ eventsR rd doc, ∀ pl ∈ e.payload, PLineSrc doc pl :=
  Verif.Model.LeanMark.L_payload_src rd doc

/-- **L_inline_opener** (every inline kind that has an opening character).  For every reading, every document whose
    lines contain no line ending and no `&`, every leaf event of the document and every reference map: the character of
    the tab-expanded document line at the position of each inline event of the leaf's text is the element's opening
    character (`IOpenerOK`, Lemmas/LeanMarkInlineOpener.lean) —
    `` ` `` code span; `<` autolink and raw HTML; `*` or `_` emphasis; strong emphasis: the same `*` / `_` at the
    position and at the next column; `[` link; `!` image, followed by `[`; hard break: `\` or a space (the first of
    the trailing spaces).  Text runs and soft breaks carry positions but have no opening character. -/
theorem L_inline_opener (rd : Reading) (doc : List Line) (hnl : ∀ l ∈ doc, ∀ c ∈ l, c ≠ '\n')
    (hamp : ∀ l ∈ doc, ∀ c ∈ l, c ≠ '&') (refs : RefMap) (k : LeafKind) (p : Pos) (e : Nat) (payload : List PLine)
    (h : Ev.leaf k p e payload ∈ eventsR rd doc) :
    ∀ ie ∈ parseInlines refs payload, IOpenerOK (VDoc doc) true ie :=
  inline_opener_doc rd doc hnl true (fun _ => hamp) refs _ h

/-- **L_inline_opener_partial**: the same without the hypothesis on `&`, for every kind except the hard break
    (`IOpenerOK … false` imposes nothing on hard breaks). -/
theorem L_inline_opener_partial (rd : Reading) (doc : List Line) (hnl : ∀ l ∈ doc, ∀ c ∈ l, c ≠ '\n')
    (refs : RefMap) (k : LeafKind) (p : Pos) (e : Nat) (payload : List PLine)
    (h : Ev.leaf k p e payload ∈ eventsR rd doc) :
    ∀ ie ∈ parseInlines refs payload, IOpenerOK (VDoc doc) false ie :=
  inline_opener_doc rd doc hnl false (fun hb => by cases hb) refs _ h

/-- the lines of a document given as text contain no line ending, so the hypothesis `hnl` is void for them. -/
theorem docLines_noNL (d : List Char) : ∀ l ∈ docLines d, ∀ c ∈ l, c ≠ '\n' := by
  have key : ∀ (cs acc : List Char) (out : List Line), (∀ c ∈ acc, c ≠ '\n') → (∀ l ∈ out, ∀ c ∈ l, c ≠ '\n') →
      ∀ l ∈ splitLinesGo cs acc out, ∀ c ∈ l, c ≠ '\n' := by
    intro cs
    induction cs with
    | nil =>
      intro acc out ha ho l hl c hc
      simp only [splitLinesGo, List.mem_reverse, List.mem_cons] at hl
      rcases hl with rfl | hl
      · exact ha c (List.mem_reverse.mp hc)
      · exact ho l hl c hc
    | cons x cs ih =>
      intro acc out ha ho
      unfold splitLinesGo
      split
      · apply ih [] _ (by simp)
        intro l hl c hc
        rcases List.mem_cons.mp hl with rfl | hl
        · exact ha c (List.mem_reverse.mp hc)
        · exact ho l hl c hc
      · next hx =>
        apply ih _ _ _ ho
        intro c hc
        rcases List.mem_cons.mp hc with rfl | hc
        · simpa using hx
        · exact ha c hc
  intro l hl
  have hall := key d [] [] (by simp) (by simp)
  unfold docLines at hl
  simp only at hl
  split at hl
  · next r heq =>
    apply hall l
    have : l ∈ (splitLinesGo d [] []).reverse.reverse := by
      rw [heq]; simp only [List.reverse_cons, List.mem_append]; exact Or.inl hl
    simpa using this
  · exact hall l hl

/-- document form of the partial theorem: no hypothesis at all. -/
theorem L_inline_opener_doc (rd : Reading) (d : List Char) (refs : RefMap) (k : LeafKind) (p : Pos) (e : Nat)
    (payload : List PLine) (h : Ev.leaf k p e payload ∈ eventsR rd (docLines d)) :
    ∀ ie ∈ parseInlines refs payload, IOpenerOK (VDoc (docLines d)) false ie :=
  L_inline_opener_partial rd _ (docLines_noNL d) refs k p e payload h

/-- position of an inline event that has one. -/
def iPos? : IEv → Option Pos
  | .text _ p | .softbreak p | .hardbreak p | .code _ p | .rawHtml _ p | .autolink _ _ p | .openEmph p
  | .openStrong p | .openLink _ _ p | .openImage _ _ p => some p
  | _ => none

def iIsText : IEv → Bool
  | .text .. | .softbreak .. => true
  | _ => false

/-- (line, column, character of the tab-expanded line there) of every inline event with an opening character. -/
def inlineOpeners (doc : List Line) : List (Nat × Nat × Option Char) :=
  (events doc).flatMap fun e =>
    ((parseInlines (refMapOf (events doc)) e.payload).filter (fun ie => !iIsText ie)).filterMap fun ie =>
      (iPos? ie).map fun p => (p.line, p.col, charAt doc p)

set_option maxRecDepth 1000000 in
/-- emphasis, strong, code span, link, image, autolink, raw HTML in a block quote inside a list item after a tab;
    hard breaks of both kinds on continuation lines that start with a tab. -/
example : inlineOpeners ["-\t> *a* **b** `c` [d](/u) ![i](/v) <http://x.y> <b>".toList, "\t> e  ".toList,
      "\t> f\\".toList, "\t> g".toList] =
    [(1, 7, some '*'), (1, 11, some '*'), (1, 17, some '`'), (1, 21, some '['), (1, 29, some '!'),
     (1, 38, some '<'), (1, 51, some '<'), (2, 8, some ' '), (3, 8, some '\\')] := by rfl

/-- **excluded case of `L_inline_opener`** (why `&` is excluded): trailing spaces produced by character references
    count towards a hard break in the reference, and its position is computed as if they were literal spaces. -/
example :
    parseInlines [] [⟨1, 0, "a&#32;&#32;".toList⟩, ⟨2, 0, "b".toList⟩] =
      [.text ['a'] ⟨1, 1⟩, .hardbreak ⟨1, 10⟩, .text ['b'] ⟨2, 1⟩] ∧
    charAt ["a&#32;&#32;".toList, "b".toList] ⟨1, 10⟩ = some '2' := by
  constructor <;> rfl

end Verif.Props.C05
