/-
  Inline recognisers other than links (raw HTML, autolinks, character references, backslash escapes, code spans):
  faithful index-loop models of the pymarkdown functions (`Verif.Model.InlineRecog`), tied to the real functions by
  `tools/inlinerecoglib.py` (all short strings × start indices, outcomes compared incl. the exception kind).

  A. totality + progress   (serves C01): `inline_recognisers_total_partial` and the per-handler statements; the excluded
     points are real inputs on which the REAL code raises / hangs (witness theorems `…_excluded`).
  B. spec equivalence      (serves C03): each recogniser = the reference model LeanMark (written from the CommonMark
     specification), for all inputs outside an explicitly stated set; a machine-checked witness for every excluded set.
  C. reassembly            (serves C02): the consumed span is the concatenation of the recorded pieces.
-/
import Verif.Lemmas.InlineRecogSpecRef
import Verif.Lemmas.InlineRecogSpecHtml
import Verif.Lemmas.InlineRecogBlock
import Verif.Lemmas.InlineRecogRegex
import Verif.Lemmas.InlineRecogSpecTick
import Verif.Props.C02
namespace Verif.Props.InlineRecog
open Verif.Model Verif.Model.Recognisers Verif.Model.InlineRecog

/-! ## A. totality, bounds, progress -/

/-- the four inline handlers at their trigger character: under the stated hypotheses each returns a value, the new index is
strictly greater than the start (the inline main loop makes progress) and not beyond the end of the text -/
theorem inline_recognisers_total_partial (src : Str) (next : Nat) (hl : next < src.length) :
    -- backslash: unconditional
    (src[next] = '\\' → ∀ sig, ∃ r, handleInlineBackslash src next sig = .ok r ∧ next < r.newIndex ∧ r.newIndex ≤ src.length) ∧
    -- character reference: returns, or `chr()` raises ValueError (numeric reference above U+10FFFF)
    (src[next] = '&' → (∃ r, handleCharacterReference src next = .ok r ∧ next < r.newIndex ∧ r.newIndex ≤ src.length) ∨
        handleCharacterReference src next = .error .value) ∧
    -- angle bracket: no U+0007 in the text, the remaining text does not start with `!---->`
    (src[next] = '<' → Codec.AL ∉ src → COMMENT_CRASH.isPrefixOf (src.drop (next + 1)) = false →
        ∃ r, handleAngleBrackets src next = .ok r ∧ next < r.newIndex ∧ r.newIndex ≤ src.length) ∧
    -- backtick: no U+0007 in the text
    (src[next] = '`' → Codec.AL ∉ src →
        ∃ r, handleInlineBacktick src next = .ok r ∧ next < r.newIndex ∧ r.newIndex ≤ src.length) := by
  refine ⟨?_, ?_, ?_, ?_⟩
  · intro hc sig
    obtain ⟨r, h1, h2, h3, _⟩ := handleInlineBackslash_ok src next sig hl hc
    exact ⟨r, h1, h2, h3⟩
  · intro hc
    rcases handleCharacterReference_ok src next hl hc with ⟨r, h1, h2, h3, _⟩ | h
    · exact Or.inl ⟨r, h1, h2, h3⟩
    · exact Or.inr h
  · intro hc hal hcr
    obtain ⟨r, h1, h2, h3, _⟩ := handleAngleBrackets_ok src next hl hc hal hcr
    exact ⟨r, h1, h2, h3⟩
  · intro hc hal
    obtain ⟨r, h1, h2, h3, _⟩ := handleInlineBacktick_ok src next hl hc hal
    exact ⟨r, h1, h2, h3⟩

/-- non-vacuity: a text that satisfies every hypothesis at once -/
example : ∃ src : Str, ∃ next, next < src.length ∧ src[next]? = some '<' ∧ Codec.AL ∉ src ∧
    COMMENT_CRASH.isPrefixOf (src.drop (next + 1)) = false := ⟨['a', '<', 'b', '>'], 1, by decide, by decide, by decide, by decide⟩

/-- a numeric character reference whose digits denote a code point never raises -/
theorem charref_total_partial (src : Str) (next : Nat) (hl : next < src.length) (hc : src[next] = '&')
    (hdec : parseDec ((src.drop (next + 1 + 1)).takeWhile digitChars.contains) ≤ 0x10FFFF)
    (hhex : parseHex ((src.drop (next + 1 + 1 + 1)).takeWhile hexDigitChars.contains) ≤ 0x10FFFF) :
    ∃ r, handleCharacterReference src next = .ok r ∧ next < r.newIndex ∧ r.newIndex ≤ src.length := by
  rcases handleCharacterReference_ok src next hl hc with ⟨r, h1, h2, h3, _⟩ | h
  · exact ⟨r, h1, h2, h3⟩
  · exact absurd h (handleCharacterReference_small src next hdec hhex)

/-- the excluded points are real (the REAL code raises `ValueError` on `&#x110000;` and `&#1114112;`) -/
theorem charref_total_excluded :
    handleCharacterReference ['&', '#', 'x', '1', '1', '0', '0', '0', '0', ';'] 0 = .error .value ∧
    handleCharacterReference ['&', '#', '1', '1', '1', '4', '1', '1', '2', ';'] 0 = .error .value :=
  handleCharacterReference_excluded

/-- the excluded point of the angle-bracket handler is real: `<!---->` makes `remaining_line[0]` raise `IndexError` -/
theorem rawhtml_total_excluded :
    parseRawHtml ['!', '-', '-', '-', '-'] ['!', '-', '-', '-', '-', '>', ' ', 'b'] = .error .index :=
  parseRawHtml_excluded

/-- U+0007 in the text: `calculate_deltas` raises `ValueError` (`str.index`) on a multi-line element -/
theorem deltas_total_excluded : calculateDeltas ['<', 'a', '\n', Codec.AL, '>'] = .error .value := by decide

/-- U+0007 U+0003 U+0007 inside a code span: `__adjust_for_injected_noops` never returns -/
theorem backtick_total_excluded :
    adjustForInjectedNoops (Codec.escapeSpecial ['x', Codec.AL, Codec.NOOP, Codec.AL]) = .error .hang := by decide

/-- the raw-HTML recogniser as a function of (text up to the first `>`, remaining line): total except for `!---->` -/
theorem parse_raw_html_total_partial (between remaining : Str) (h : COMMENT_CRASH.isPrefixOf remaining = false) :
    ∃ r, parseRawHtml between remaining = .ok r :=
  let ⟨r, hr, _⟩ := parseRawHtml_ok between remaining h
  ⟨r, hr⟩

/-- the tag scanners never fail, for any text and any start index inside it -/
theorem tag_scanners_total (s : Str) (start : Nat) (h : start ≤ s.length) :
    (∃ r, parseRawTagName s start = .ok r) ∧ (∃ r, parseTagAttributes s start = .ok r) ∧
    (∃ r, parseRawOpenTag s = .ok r) ∧ (∃ r, parseRawCloseTag s = .ok r) ∧ (∃ r, parseRawDeclaration s = .ok r) :=
  ⟨⟨_, parseRawTagName_eq s start⟩, ⟨_, parseTagAttributes_eq s start h⟩,
   (let ⟨r, hr, _⟩ := parseRawOpenTag_ok s; ⟨r, hr⟩), (let ⟨r, hr, _⟩ := parseRawCloseTag_ok s; ⟨r, hr⟩),
   (let ⟨r, hr, _⟩ := parseRawDeclaration_ok s; ⟨r, hr⟩)⟩

/-- the fuel of the attribute loop and of the closing-run loop is sufficient: more fuel does not change the result -/
theorem fuel_sufficient (s : Str) (f : Nat) (i : Nat) (ws : Str) (hi : i ≤ s.length) (hf : s.length + 1 ≤ f) :
    attrLoop s f i ws = attrLoop s (s.length + 1) i ws :=
  attrLoop_fuel s f (s.length + 1) i ws (by omega) (by omega) hi

/-- the URI recogniser is total on the non-empty texts its caller passes (the empty text raises `IndexError`: `uri_total_excluded`) -/
theorem uri_total_partial (s : Str) (h : s ≠ []) : ∃ b, parseValidUriAutolink s = .ok b := ⟨_, parseValidUriAutolink_eq s h⟩
theorem uri_total_excluded : parseValidUriAutolink [] = .error .index := parseValidUriAutolink_excluded

/-- `handle_backslashes` (titles, destinations, info strings): returns, or `chr()` raises; its loop never runs out of fuel and its
assertion never fires -/
theorem handle_backslashes_total (src : Str) :
    (∃ r, handleBackslashes src = .ok r) ∨ handleBackslashes src = .error .value := handleBackslashes_ok src

/-- the tag scanners of HTML block start condition 7 -/
theorem block_tag_scanners_total (s : Str) (i : Nat) (hi : i ≤ s.length) (tag : Str) :
    (∃ r, extractHtmlAttributeName s i = .ok r ∧ (r = -1 ∨ ((i : Int) < r ∧ r < (s.length : Int)))) ∧
    (∃ r, extractOptionalAttributeValue s i = .ok r ∧ (r = -1 ∨ ((i : Int) ≤ r ∧ r ≤ (s.length : Int)))) ∧
    (∃ r, isCompleteHtmlEndTag tag s i = .ok r) :=
  ⟨extractHtmlAttributeName_ok s i, extractOptionalAttributeValue_ok s i hi, isCompleteHtmlEndTag_ok tag s i hi⟩

/-- `is_complete_html_start_tag` returns on every line that does not end with `/` -/
theorem start_tag_total_partial (tag line : Str) (next : Nat) (hn : next ≤ line.length) (hlast : line.getLast? ≠ some '/') :
    ∃ r, isCompleteHtmlStartTag tag line next = .ok r := isCompleteHtmlStartTag_ok tag line next hn hlast

/-- the excluded point is real: the line `<a /` (tag name `a`, rest ` /`) makes the REAL code raise `IndexError` -/
theorem start_tag_total_excluded : isCompleteHtmlStartTag ['a'] [' ', '/'] 0 = .error .index := isCompleteHtmlStartTag_excluded

/-! ## B. spec equivalence (CommonMark as formalised by LeanMark) -/

/-- backslash escapes: for EVERY text and index, an escape exactly when the next character is one of the specification's 32 ASCII
punctuation characters; the line ending of a hard break is left to the caller -/
theorem backslash_spec (src : Str) (next : Nat) (sig : Bool) :
    handleInlineBackslash src next sig = .ok
      (match src.drop (next + 1) with
       | [] => ⟨['\\'], [], next + 1⟩
       | d :: _ =>
         if d == '\n' then ⟨['\\'], [], next + 1⟩
         else if LeanMark.isAsciiPunct d then
           ⟨(if sig then ['\\', Codec.BS] else []) ++ [d], '\\' :: ((if sig then ['\\', Codec.BS] else []) ++ [d]), next + 2⟩
         else ⟨['\\', d], ['\\', d], next + 2⟩) :=
  Verif.Model.InlineRecog.backslash_spec src next sig

/-- URI autolinks: = the specification on every non-empty text without `>` (the caller cuts at the first `>`) and without U+007F -/
theorem uri_spec_partial (s : Str) (hne : s ≠ []) (hgt : '>' ∉ s) (hdel : Char.ofNat 127 ∉ s) :
    parseValidUriAutolink s = .ok (LeanMark.isUri s) := uri_spec s hne hgt hdel

/-- the excluded point is real: U+007F in the path -/
theorem uri_spec_excluded' :
    parseValidUriAutolink ['a', 'b', ':', Char.ofNat 127] = .ok true ∧ LeanMark.isUri ['a', 'b', ':', Char.ofNat 127] = false :=
  uri_spec_excluded

/-- e-mail autolinks: the regular expression decides the specification's grammar, except that `$` also matches before a final newline -/
theorem email_spec (s : Str) :
    parseValidEmailAutolink s = (LeanMark.isEmail s || (s.getLast? == some '\n' && LeanMark.isEmail s.dropLast)) :=
  Verif.Model.InlineRecog.email_spec s
theorem email_spec_partial (s : Str) (h : s.getLast? ≠ some '\n') : parseValidEmailAutolink s = LeanMark.isEmail s :=
  Verif.Model.InlineRecog.email_spec_partial s h
theorem email_spec_excluded' :
    parseValidEmailAutolink ['a', '@', 'b', '\n'] = true ∧ LeanMark.isEmail ['a', '@', 'b', '\n'] = false := email_spec_excluded

/-- **the regular expression**: the pattern of the source (its `re._parser` parse is compared with `emailBody` on every run) accepts
exactly what the modelled recogniser accepts … -/
theorem email_regex_is_model (s : Str) : ReMatch emailBody s ↔ parseValidEmailAutolink s = true := email_regex_iff s

/-- … hence, on a text that does not end with a newline, exactly the specification's e-mail addresses -/
theorem email_regex_spec_partial (s : Str) (h : s.getLast? ≠ some '\n') : ReMatch emailBody s ↔ LeanMark.isEmail s = true := by
  rw [email_regex_iff, Verif.Model.InlineRecog.email_spec_partial s h]

/-- character references: = the specification's entity / numeric reference whenever the digits denote a Unicode scalar value -/
theorem charref_spec_partial (src : Str) (next : Nat) (hl : next < src.length) (hc : src[next] = '&')
    (hdec : CodePointOk (parseDec ((src.drop (next + 2)).takeWhile LeanMark.isDigit)))
    (hhex : CodePointOk (parseHex ((src.drop (next + 3)).takeWhile LeanMark.isHexDigit))) :
    ∃ r, handleCharacterReference src next = .ok r ∧ SpecAgree src next r (LeanMark.entityAt (src.drop (next + 1))) :=
  charref_spec src next hl hc hdec hhex

/-- the excluded points are real: a surrogate is passed through where the specification wants U+FFFD -/
theorem charref_spec_excluded :
    handleCharacterReference ['&', '#', 'x', 'D', '8', '0', '0', ';'] 0 =
      .ok ⟨[0xD800], 8, some ['&', '#', 'x', 'D', '8', '0', '0', ';'], some ['&', '#', 'x', 'D', '8', '0', '0', ';']⟩ ∧
    LeanMark.entityAt ['#', 'x', 'D', '8', '0', '0', ';'] = some ([Char.ofNat 0xFFFD], 7) := charref_spec_excluded_surrogate

/-- open tags: the faithful phase-by-phase scanner IS LeanMark's tag automaton with one extra transition … -/
theorem open_tag_is_lenient_automaton (s : Str) :
    parseRawOpenTag s = .ok ((scanOpenTagX true s).map fun n => (s.take (n - 1), n)) := parseRawOpenTag_auto s

/-- … hence = the specification's open tag on every text without an empty unquoted attribute value (`=`, white space, `>`) -/
theorem open_tag_spec_partial (s : Str) (h : hasEmptyUnq s = false) :
    parseRawOpenTag s = .ok ((LeanMark.scanOpenTag s).map fun n => (s.take (n - 1), n)) := rawOpenTag_spec s h
theorem open_tag_spec_excluded :
    parseRawOpenTag ['a', ' ', 'b', '=', '>'] = .ok (some (['a', ' ', 'b', '='], 5)) ∧
    LeanMark.scanOpenTag ['a', ' ', 'b', '=', '>'] = none := rawOpenTag_spec_excluded

/-- closing tags: the same decision and length as the specification's closing tag, when the white space before `>` is spaces / tabs -/
theorem close_tag_spec_partial (between rest : List Char) (hgt : '>' ∉ between) (hws : OnlySpTab between) :
    ∃ ok : Bool, parseRawCloseTag between = .ok (if ok then some between else none) ∧
      LeanMark.scanCloseTag (between ++ '>' :: rest) = (if ok then some (between.length + 1) else none) :=
  closeTag_spec between rest hgt hws

/-- **raw HTML as a whole**: on (text up to the first `>`, remaining line) the code recognises what the specification recognises
and consumes the same number of characters — outside four stated sets of inputs -/
theorem rawhtml_spec_partial (between rest : Str) (hne : between ≠ []) (hgt : '>' ∉ between)
    (hcr : COMMENT_CRASH.isPrefixOf (between ++ '>' :: rest) = false)
    (hemp : hasEmptyUnq (between ++ '>' :: rest) = false)
    (hcl : between.head? = some '/' → OnlySpTab between)
    (hde : ∀ c t, between = '!' :: c :: t → LeanMark.isUpper c = true → OnlySp between) :
    ∃ res, parseRawHtml between (between ++ '>' :: rest) = .ok res ∧
      res.map (consumed between) = LeanMark.scanRawHtml (between ++ '>' :: rest) :=
  rawhtml_spec between rest hne hgt hcr hemp hcl hde

/-- non-vacuity: `<a href="x">`, `</a >`, `<!-- c -->`, `<!DOCTYPE html>` satisfy every hypothesis -/
example : ∃ between rest : Str, between ≠ [] ∧ '>' ∉ between ∧ COMMENT_CRASH.isPrefixOf (between ++ '>' :: rest) = false ∧
    hasEmptyUnq (between ++ '>' :: rest) = false ∧ LeanMark.scanRawHtml (between ++ '>' :: rest) = some 9 :=
  ⟨['!', '-', '-', ' ', 'c', ' ', '-', '-'], [' ', 'x'], by decide, by decide, by decide, by decide, by decide⟩

/-- the excluded points are real: a line ending before the `>` of a closing tag, or after the name of a declaration, is white space
for the specification and not for the code -/
theorem rawhtml_spec_excluded' :
    parseRawHtml ['/', 'a', '\n'] ['/', 'a', '\n', '>'] = .ok none ∧ LeanMark.scanRawHtml ['/', 'a', '\n', '>'] = some 4 ∧
    parseRawHtml ['!', 'A', '\n', 'b'] ['!', 'A', '\n', 'b', '>'] = .ok none ∧
    LeanMark.scanRawHtml ['!', 'A', '\n', 'b', '>'] = some 5 := rawhtml_spec_excluded

/-- **code spans, the closing run**: from ANY position of the text the faithful search (`str.find` of the opening run + the check
that the run found is not longer) finds exactly the run the specification's scan (`findTicks`) finds -/
theorem codespan_closing_run_spec (src : Str) (n p : Nat) (hn : 1 ≤ n) (hp : p ≤ src.length) :
    tickCloseLoop src (List.replicate n '`') (src.length + 1) (pyFind src (List.replicate n '`') p) =
      .ok ((LeanMark.findTicks n (src.drop p) 0 0).map (· + p)) :=
  tickCloseLoop_spec src n hn (src.length - p) p (Nat.le_refl _) hp (src.length + 1) (by omega)

/-- **code spans, the handler**: same decision (span or literal run), same number of characters consumed as LeanMark's `handleTick`;
the recorded fields are the encodings of `tickParts` of the text between the runs -/
theorem codespan_spec_partial (src : Str) (next : Nat) (hl : next < src.length) (hc : src[next] = '`') (hal : Codec.AL ∉ src) :
    ∃ res, handleInlineBacktick src next = .ok res ∧
      (match LeanMark.findTicks (1 + LeanMark.countWhile (· == '`') (src.drop (next + 1)))
          ((src.drop (next + 1)).drop (1 + LeanMark.countWhile (· == '`') (src.drop (next + 1)) - 1)) 0 0 with
       | none =>
         res.span = none ∧ res.newString = List.replicate (1 + LeanMark.countWhile (· == '`') (src.drop (next + 1))) '`' ∧
         res.newIndex = next + (1 + LeanMark.countWhile (· == '`') (src.drop (next + 1)))
       | some k =>
         let n := 1 + LeanMark.countWhile (· == '`') (src.drop (next + 1))
         let between := ((src.drop (next + 1)).drop (n - 1)).take k
         res.newIndex = next + n + k + n ∧ res.newString = [] ∧
         res.span = some (appendTextEscape (replaceNewlines (Codec.escapeSpecial (tickParts between).2.1)),
           List.replicate n '`', replaceNewlines (tickParts between).1, replaceNewlines (tickParts between).2.2)) :=
  codespan_spec src next hl hc hal

/-- **code spans, the content**: the body the handler keeps, line endings turned into spaces, is the specification's content, when
the text between the runs has a character that is neither space nor line ending, or has no line ending -/
theorem codespan_content_spec_partial (b : Str) (h : (∃ c ∈ b, c ≠ ' ' ∧ c ≠ '\n') ∨ '\n' ∉ b) :
    (tickParts b).2.1.map nlSp = LeanMark.codeContent b := code_content b h

/-- the excluded point is real (function level only: a continuation line never starts with a space in the inline phase) -/
theorem codespan_content_spec_excluded :
    (tickParts [' ', '\n', ' ']).2.1.map nlSp = [' '] ∧ LeanMark.codeContent [' ', '\n', ' '] = [' ', ' ', ' '] :=
  code_content_excluded

/-! ## C. reassembly -/

/-- autolinks and raw HTML: `<` + the token's text + `>` is exactly the consumed span of the source -/
theorem angle_reassembly (src : Str) (next : Nat) (hl : next < src.length) (hc : src[next] = '<')
    (hal : Codec.AL ∉ src) (hcr : COMMENT_CRASH.isPrefixOf (src.drop (next + 1)) = false) :
    ∃ r, handleAngleBrackets src next = .ok r ∧
      ((r.kind = 0 ∧ r.newString = ['<'] ∧ r.newIndex = next + 1) ∨
       (1 ≤ r.kind ∧ r.newString = [] ∧ '<' :: r.tokenText ++ ['>'] = slice src next r.newIndex)) := by
  obtain ⟨r, h1, _, _, h4⟩ := handleAngleBrackets_ok src next hl hc hal hcr
  exact ⟨r, h1, h4⟩

/-- character references: a recognised reference records exactly the consumed text; otherwise the new string IS the consumed text -/
theorem charref_reassembly (src : Str) (next : Nat) (hl : next < src.length) (hc : src[next] = '&') :
    (∃ r, handleCharacterReference src next = .ok r ∧
      (∀ o, r.original = some o → o = slice src next r.newIndex) ∧
      (r.original = none → r.newCps = cps (slice src next r.newIndex))) ∨
    handleCharacterReference src next = .error .value := by
  rcases handleCharacterReference_ok src next hl hc with ⟨r, h1, _, _, h4, h5⟩ | h
  · exact Or.inl ⟨r, h1, h4, h5⟩
  · exact Or.inr h

/-- backslash: the new string without the `\b` signature is the consumed span -/
theorem backslash_reassembly (src : Str) (next : Nat) (hl : next < src.length) (hc : src[next] = '\\')
    (hb : src[next + 1]? ≠ some Codec.BS) :
    ∃ r, handleInlineBackslash src next true = .ok r ∧ r.newString.filter (· != Codec.BS) = slice src next r.newIndex := by
  obtain ⟨r, h1, _, _, h4⟩ := handleInlineBackslash_ok src next true hl hc
  exact ⟨r, h1, h4 rfl hb⟩

/-- code spans: the literal run, or `ticks ++ lead ++ body ++ trail ++ ticks` = the consumed span, the token fields being the
in-band encodings of `lead`, `body`, `trail` -/
theorem codespan_reassembly (src : Str) (next : Nat) (hl : next < src.length) (hc : src[next] = '`') (hal : Codec.AL ∉ src) :
    ∃ r, handleInlineBacktick src next = .ok r ∧
      (r.span = none → r.newString = slice src next r.newIndex) ∧
      (∀ t k l tr, r.span = some (t, k, l, tr) → ∃ raw : SpanRaw,
        k = raw.ticks ∧ l = replaceNewlines raw.lead ∧ tr = replaceNewlines raw.trail ∧
        t = appendTextEscape (replaceNewlines (Codec.escapeSpecial raw.body)) ∧
        raw.ticks ++ raw.lead ++ raw.body ++ raw.trail ++ raw.ticks = slice src next r.newIndex ∧ r.newString = []) := by
  obtain ⟨r, h1, _, _, h4, h5⟩ := handleInlineBacktick_ok src next hl hc hal
  exact ⟨r, h1, h4, h5⟩

/-- code spans, the in-band encoding: `span_text` IS the marker encoding (`Verif.Model.Codec.encode`) of the body, piece by piece, for
every body; hence (C02 `remove_encode`, `resolve_encode`) on a body without marker characters `remove_all_from_text` gives back the
body and `resolve_all_from_text` its rendering -/
theorem codespan_text_roundtrip (body : Str) (h : Codec.MarkerFree (body.map spanPiece)) :
    appendTextEscape (replaceNewlines (Codec.escapeSpecial body)) = Codec.encode (body.map spanPiece) ∧
    Codec.removeAll (appendTextEscape (replaceNewlines (Codec.escapeSpecial body))) = .ok body ∧
    Codec.resolveAll (appendTextEscape (replaceNewlines (Codec.escapeSpecial body))) = .ok (Codec.renderedOf (body.map spanPiece)) := by
  refine ⟨spanText_encode body, ?_, ?_⟩
  · rw [spanText_encode, Verif.Props.C02.remove_encode _ h, spanPiece_source]
  · rw [spanText_encode, Verif.Props.C02.resolve_encode _ h]

example : Codec.MarkerFree ("a <b>\n&".toList.map spanPiece) := by decide

/-- raw HTML at function level: what `parse_raw_html` records is `Good` -/
theorem rawhtml_reassembly (between remaining : Str) (h : COMMENT_CRASH.isPrefixOf remaining = false) :
    ∃ r, parseRawHtml between remaining = .ok r ∧ ∀ v e, r = some (v, e) → v ≠ [] ∧ Good between remaining v e :=
  parseRawHtml_ok between remaining h

end Verif.Props.InlineRecog
