/-
  C07 — every report printed once, ordered by line, column, rule id; an internal failure is
  wrapped and never yields a partial or unsorted report.

  Theorems about the faithful engine model (`Verif.Model.Engine`): they hold for every
  list of collected reports, every pragma table, every rule set.
-/
import Verif.Lemmas.Order
import Verif.Lemmas.Dispatch
namespace Verif.Props.C07
open Verif.Model.Engine

/-- `__lt__` is a strict order … -/
theorem lt_irrefl (a : Rep) : Rep.lt a a = false := Rep.lt_irrefl a
theorem lt_asymm {a b : Rep} (h : Rep.lt a b = true) : Rep.lt b a = false := Rep.lt_asymm h
theorem lt_trans {a b c : Rep} (h1 : Rep.lt a b = true) (h2 : Rep.lt b c = true) : Rep.lt a c = true :=
  Rep.lt_trans h1 h2
/-- … whose incomparability is equality of (line, column, rule id): a strict weak order, so the
result of `sorted` is determined up to the order of reports with identical keys. -/
theorem incomparable_iff_same_key (a b : Rep) :
    (Rep.lt a b = false ∧ Rep.lt b a = false) ↔ a.key = b.key := by
  constructor
  · exact fun ⟨h1, h2⟩ => Rep.key_eq_of_not_lt h1 h2
  · intro h
    simp only [Rep.key, Prod.mk.injEq] at h
    obtain ⟨h1, h2, h3⟩ := h
    constructor
    · cases hh : Rep.lt a b
      · rfl
      · rw [Rep.lt_iff] at hh; rw [h3] at hh; simp [h1, h2] at hh
    · cases hh : Rep.lt b a
      · rfl
      · rw [Rep.lt_iff] at hh; rw [h3] at hh; simp [h1, h2] at hh

/-- What "ordered by line, then column, then rule id" means for two reports. -/
theorem le_iff (a b : Rep) : Rep.le a b = true ↔
    a.line < b.line ∨ (a.line = b.line ∧ (a.col < b.col ∨ (a.col = b.col ∧ a.rid ≤ b.rid))) := by
  unfold Rep.le
  rw [Bool.not_eq_true', ← Bool.not_eq_true, Rep.lt_iff]
  constructor
  · intro h
    by_cases h1 : a.line < b.line
    · exact Or.inl h1
    · have e1 : a.line = b.line := by
        by_cases h' : b.line < a.line
        · exact absurd (Or.inl h') h
        · omega
      right; refine ⟨e1, ?_⟩
      by_cases h2 : a.col < b.col
      · exact Or.inl h2
      · have e2 : a.col = b.col := by
          by_cases h' : b.col < a.col
          · exact absurd (Or.inr ⟨e1.symm, Or.inl h'⟩) h
          · omega
        right; refine ⟨e2, ?_⟩
        exact String.not_lt.mp fun h' => h (Or.inr ⟨e1.symm, Or.inr ⟨e2.symm, h'⟩⟩)
  · rintro (h | ⟨e1, h | ⟨e2, h⟩⟩) h'
    · rcases h' with h' | ⟨e, _⟩ <;> omega
    · rcases h' with h' | ⟨_, h' | ⟨e, _⟩⟩ <;> omega
    · rcases h' with h' | ⟨_, h' | ⟨_, h'⟩⟩
      · omega
      · omega
      · exact absurd h (String.not_le.mpr h')

/-- The printed reports of a file are in (line, column, rule id) order — for every collection
of reports and every pragma table, also when the file ended in a plug-in error. -/
theorem report_sorted (p : Pragmas) (reps : List Rep) :
    (printed p reps).Pairwise (fun a b => Rep.le a b = true) :=
  (sortReps_pairwise reps).filter _

/-- Printing neither loses nor invents nor duplicates: the printed list is a permutation of the
collected reports that no pragma suppresses. -/
theorem report_perm (p : Pragmas) (reps : List Rep) :
    (printed p reps).Perm (reps.filter fun r => !p.suppressed r) :=
  (sortReps_perm reps).filter _

/-- The engine does not de-duplicate: printed reports are distinct iff the rules' reports are. -/
theorem unique_iff_rules_unique (p : Pragmas) (reps : List Rep) :
    (printed p reps).Nodup ↔ (reps.filter fun r => !p.suppressed r).Nodup :=
  (report_perm p reps).nodup_iff

/-- The scan-failure counter grows by exactly the number of printed lines. -/
theorem counter_counts_printed (rs : List (Rule τ)) (cont : Bool) :
    ∀ (fs : List (FileIn τ)) (ss : States rs),
    (scanFiles rs cont ss fs).2.failures = ((scanFiles rs cont ss fs).2.files.map (·.printed.length)).sum
  | [], _ => rfl
  | f :: fs, ss => by
    unfold scanFiles
    by_cases h : ((scanFile rs ss f).2.err.isSome && !cont) = true
    · simp [h]
    · simp only [h, Bool.false_eq_true, if_false, List.map_cons, List.sum_cons]
      rw [counter_counts_printed rs cont fs]

/-- A raising callback is recorded as the fault of that rule and that action, and from then on
no other callback of any rule runs (`stepOne` is the identity once a fault is set). -/
theorem exception_wrapped (r : Rule τ) (c : Comp r) (ev : Event τ) (reps : List Rep)
    (hh : r.handles ev = true) (hr : (r.call c.st ev).2 = none) :
    (stepOne r c ev ⟨reps, none⟩).2 = ⟨reps, some (r.id, ev.action)⟩ := by
  simp [stepOne, hh, hr]

theorem after_fault_nothing_runs (r : Rule τ) (c : Comp r) (ev : Event τ) (acc : Acc)
    (h : acc.fault.isSome = true) : stepOne r c ev acc = (c, acc) := by
  simp [stepOne, h]

/-- File-level: whenever a file's scan yields an error, what was printed before it is still sorted. -/
theorem sorted_even_on_error (rs : List (Rule τ)) (ss : States rs) (f : FileIn τ) :
    (scanFile rs ss f).2.printed.Pairwise (fun a b => Rep.le a b = true) := by
  unfold scanFile
  simp only
  split
  · exact List.Pairwise.nil
  · split
    · exact List.Pairwise.nil
    · exact report_sorted _ _

/-- Lexicographic "not greater" on keys (line, column, rule id). -/
def keyLe (a b : Nat × Nat × String) : Prop :=
  a.1 < b.1 ∨ (a.1 = b.1 ∧ (a.2.1 < b.2.1 ∨ (a.2.1 = b.2.1 ∧ a.2.2 ≤ b.2.2)))

theorem le_iff_keyLe (a b : Rep) : Rep.le a b = true ↔ keyLe a.key b.key := le_iff a b

theorem keyLe_antisymm {a b : Nat × Nat × String} (h1 : keyLe a b) (h2 : keyLe b a) : a = b := by
  obtain ⟨a1, a2, a3⟩ := a
  obtain ⟨b1, b2, b3⟩ := b
  simp only [keyLe] at h1 h2
  rcases h1 with h1 | ⟨e1, h1 | ⟨e2, h1⟩⟩ <;> rcases h2 with h2 | ⟨f1, h2 | ⟨f2, h2⟩⟩ <;> try omega
  subst e1 e2
  rw [String.le_antisymm h1 h2]

/-- **Determinism of what the user sees**: the sequence of (line, column, rule id) printed for a
file does not depend on the order in which the rules happened to collect their reports — any
permutation of the collected reports prints the same positions in the same order. -/
theorem printed_keys_order_independent (p : Pragmas) {reps reps' : List Rep} (h : reps.Perm reps') :
    (printed p reps).map Rep.key = (printed p reps').map Rep.key := by
  have hp : (printed p reps).Perm (printed p reps') :=
    (report_perm p reps).trans ((h.filter _).trans (report_perm p reps').symm)
  have s1 : ((printed p reps).map Rep.key).Pairwise keyLe :=
    List.pairwise_map.mpr ((report_sorted p reps).imp fun h => (le_iff_keyLe _ _).mp h)
  have s2 : ((printed p reps').map Rep.key).Pairwise keyLe :=
    List.pairwise_map.mpr ((report_sorted p reps').imp fun h => (le_iff_keyLe _ _).mp h)
  exact List.Perm.eq_of_pairwise (fun a b _ _ => keyLe_antisymm) s1 s2 (hp.map _)

-- executable sanity check (a test, evaluated at build time, not a theorem): three reports
-- collected out of order, one suppressed by a pragma aimed at line 3
#guard printed ⟨[(3, ["md009"])], []⟩
    [⟨3, 1, "MD009", ""⟩, ⟨2, 5, "MD010", ""⟩, ⟨2, 5, "MD009", ""⟩, ⟨1, 1, "MD041", ""⟩]
    == [⟨1, 1, "MD041", ""⟩, ⟨2, 5, "MD009", ""⟩, ⟨2, 5, "MD010", ""⟩]

end Verif.Props.C07
