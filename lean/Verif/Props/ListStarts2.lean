/-
  ListStarts, second file — statements the first file (`Props/ListStarts.lean`) left open.  Serves C01, C02 (leading spaces), C03.

  Python:  pymarkdown/list_blocks/list_block_pre_list_helper.py (`__handle_list_nesting`, `__handle_list_nesting_all_conditionals`),
           list_block_starts_helper.py (`__adjust_whitespace_for_nested_lists` with a child AND a parent list).
  Model:   Verif/Model/ListStarts.lean (unchanged).   Lemmas: Verif/Lemmas/ListStarts2Lead.lean, ListStarts2Two.lean, ListStarts2Column.lean.
-/
import Verif.Props.ListStarts
import Verif.Lemmas.ListStarts2Lead
import Verif.Lemmas.ListStarts2Two
import Verif.Lemmas.ListStarts2Column
namespace Verif.Props.ListStarts
open Verif.Model.Recognisers (Str lenLe TAB)
open Verif.Model.ListStarts
open Verif.Model.ListStartsSpec (Marker MarkerAt ItemStart Blank IsThematic colsFrom contentOffset)

/-! ### 1. the leading-space move of `__handle_list_nesting_all_conditionals` -/

/-- **leading_space_move_primitives** — what the two calls of the move do to the per-line leading-space strings (`neLines`: the
non-empty pieces of `bleading_spaces.split("\n")`, in order), for EVERY pair of strings:
`remove_last_bleading_space` splits the lines of the token found before the close into "all but the last" and "the last", in order;
`add_bleading_spaces` appends exactly that line after the lines of the token found after the close.  Concatenation in order, per
token. -/
theorem leading_space_move_primitives (prevLead curLead : Str) :
    neLines (removeLastLead prevLead).2 ++ neLines (removeLastLead prevLead).1 = neLines prevLead ∧
    neLines (addLead curLead (removeLastLead prevLead).1) = neLines curLead ++ neLines (removeLastLead prevLead).1 :=
  ⟨removeLastLead_lines prevLead, addLead_lines curLead _⟩

/-- **leading_space_move_conserves**: for EVERY stack that meets the guard and every block-quote data / position,
if `__handle_list_nesting` returns, the non-empty leading-space lines held by block-quote tokens — those still on the stack
together with those of the block-quote tokens the call closed (`closedLeads`) — are a permutation of the lines held before the
call: the move loses no line and invents none.  What is conserved is the MULTISET over the tokens involved; each token's own lines
stay in order (`leading_space_move_primitives`); the concatenation over the two tokens is NOT conserved in order
(`leading_space_move_order_differs`), nor are empty lines (`leading_space_move_empty_excluded`). -/
theorem leading_space_move_conserves (st : Stack) (hOK : StackOK st) (cur sc posLine : Nat) (r : NestRes)
    (h : handleListNesting st cur sc posLine = .ok r) :
    List.Perm (allLines r.stack r.closedLeads) (allLines st []) := by
  unfold handleListNesting at h
  cases hn : nestLoop posLine cur (sc - cur) sc st false [] with
  | error e => rw [hn] at h; cases h
  | ok v =>
    obtain ⟨a', st', b', cl'⟩ := v
    rw [hn] at h
    injection h with h
    subst h
    exact List.perm_iff_count.mpr (nestLoop_conserves posLine cur _ _ _ _ _ hOK.docBottom _ _ _ _ hn)

/-- the same through `pre_list`, whichever of its three paths reaches `__handle_list_nesting` -/
theorem pre_list_leads_conserved (st : Stack) (hOK : StackOK st) (line : Str) (markerEnd : Nat) (ews : Str) (mwm1 cur sc : Nat)
    (adjWs : Str) (posLine depth : Nat) (r : PreRes)
    (h : preList st line markerEnd ews mwm1 cur sc adjWs posLine depth = .ok r) :
    List.Perm (allLines r.nest.stack r.nest.closedLeads) (allLines st []) := by
  unfold preList at h
  cases hw : calcWsValues line markerEnd ews with
  | error e => rw [hw] at h; cases h
  | ok w =>
    rw [hw] at h
    simp only [bind_ok] at h
    unfold checkForListNesting at h
    cases ht : negAt st 1 with
    | error e => rw [ht] at h; cases h
    | ok top =>
      rw [ht] at h
      simp only [bind_ok] at h
      cases hh : handleListNesting st cur sc posLine with
      | error e =>
        rw [hh] at h
        split at h
        · cases h
        · split at h
          · injection h with h; subst h; exact List.Perm.refl _
          · cases h
      | ok n =>
        have hp := leading_space_move_conserves st hOK cur sc posLine n hh
        rw [hh] at h
        simp only [bind_ok] at h
        split at h
        · split at h <;> (injection h with h; subst h; exact hp)
        · split at h
          · injection h with h; subst h; exact List.Perm.refl _
          · injection h with h; subst h; exact hp

/-- a non-trivial input: `> > a` … then a list start one block quote further out (`current_count = 1`, `stack_count = 2`): the inner
block-quote token is closed, its last line `"> > "` moves to the outer one. -/
example : StackOK [docE, bqE "> ".toList, bqE "> > \n> > ".toList, paraE] ∧
    handleListNesting [docE, bqE "> ".toList, bqE "> > \n> > ".toList, paraE] 1 2 1 =
      .ok ⟨[docE, bqE "> \n> > ".toList], true, 1, 1, ["> > ".toList]⟩ :=
  ⟨⟨⟨docE, _, rfl, rfl, by decide⟩, by decide⟩, by decide⟩

/-- **the order over the two tokens is not conserved** (so "multiset" cannot be strengthened to "concatenation in stack order"):
on the stack above, the lines read bottom-to-top are `"> ", "> > ", "> > "` before and after only by coincidence of equal lines;
with distinguishable lines the moved line changes place. -/
theorem leading_space_move_order_differs :
    handleListNesting [docE, bqE "a".toList, bqE "b\nc".toList, paraE] 1 2 1 =
      .ok ⟨[docE, bqE "a\nc".toList], true, 1, 1, ["b".toList]⟩ ∧
    allLines [docE, bqE "a".toList, bqE "b\nc".toList, paraE] [] = ["a".toList, "b".toList, "c".toList] ∧
    allLines [docE, bqE "a\nc".toList] ["b".toList] = ["a".toList, "c".toList, "b".toList] := by decide

/-- **empty lines are not conserved** (why the statement counts non-empty lines): moving the single (empty) line of an empty
`bleading_spaces` onto a token that holds `"x"` leaves `"x\n"` and `""`: three `split("\n")` pieces where there were two. -/
theorem leading_space_move_empty_excluded :
    addLead "x".toList (removeLastLead []).1 = "x\n".toList ∧ (removeLastLead []).2 = [] ∧
    (leadSplit "x\n".toList).length + (leadSplit []).length ≠ (leadSplit "x".toList).length + (leadSplit []).length := by decide

/-! ### 2. two lists near the top of the stack -/

/-- **list_start_two_lists_columns**: for every stack that meets the guard and has two list tokens where the recogniser looks
(`child` = inner list on top or directly below a non-list top, `parent` = outer list directly below it), EVERY `adj_ws`
convention, tab-free whitespace: `is_ulist_start` accepts **iff** the marker sentence holds and
the width `n` of the checked whitespace satisfies `twoClause`: strictly between the two indents `n - parent ≤ 3 + parent`,
otherwise `n ≤ 3 + parent` — the limit is always relative to the OUTER list, never to the inner one; the thematic-break exception
is applied only when the absolute whitespace is within 3 columns of the outer list's content column. -/
theorem list_start_two_lists_columns (st : Stack) (hOK : StackOK st) (top : Entry) (r : Stack) (h : st.reverse = top :: r)
    (child parent : Entry) (hcp : ChildParent top r[0]? r[1]? child parent) (line : Str) (start : Nat) (ews : Str)
    (adjWs : Option Str) (hnta : TAB ∉ exWsOf ews adjWs) (hnte : TAB ∉ ews) :
    ∃ res, isUlistStart st line start ews false adjWs = .ok res ∧
      (res.isStart = true ↔
        ∃ c rest, twoClause child parent (exWsOf ews adjWs).length ∧ MarkerAt (line.drop start) (.bullet c) rest ∧
          ¬ (ews.length - parent.indent ≤ 3 ∧ IsThematic (line.drop start)) ∧
          paraRefuses top r[0]? (Verif.Model.ListStartsSpec.blankB rest) false start = false ∧
          blockWithin top r[0]? start = false) :=
  ⟨_, isUlistStart_evalOK hOK h line start ews false adjWs, ulist_two hcp line start ews adjWs hnta hnte⟩

/-- **list_start_two_lists_spec_partial** (CommonMark §5.2: "indented relative to the container", ≤ 3 columns).
FULL statement (false, see the two `_excluded` theorems below): with `child` and `parent` as above and the absolute tab-free
whitespace `ews` before the marker, `is_ulist_start` accepts iff the text is an `ItemStart` whose indentation is counted from
`twoBase`: the INNER list's content column when the marker stands at or right of it (an item of a list nested in the inner item),
the OUTER list's content column when it stands left of the inner content column but not left of the outer one (the marker belongs
to the outer item: a sibling of the inner list's items), column 0 left of both.
PROVED under `TwoAgree` (`adj_ws = None`): the whitespace width `n` is not in the three bands where the code's limit
`3 + parent` differs from the specification's: `3 + parent < n ≤ 3 + child` (right of the inner content column),
`3 + parent < n ≤ 3 + 2·parent` (between the columns), `3 < n < parent`; and `parent ≤ child`. -/
theorem list_start_two_lists_spec_partial (st : Stack) (hOK : StackOK st) (top : Entry) (r : Stack) (h : st.reverse = top :: r)
    (child parent : Entry) (hcp : ChildParent top r[0]? r[1]? child parent) (line : Str) (start : Nat) (ews : Str)
    (hnt : TAB ∉ ews) (hag : TwoAgree child parent ews.length) :
    ∃ res, isUlistStart st line start ews false none = .ok res ∧
      (res.isStart = true ↔
        ∃ c rest, ItemStart (ews.length - twoBase child parent ews.length) (line.drop start) (.bullet c) rest ∧
          paraRefuses top r[0]? (Verif.Model.ListStartsSpec.blankB rest) false start = false ∧
          blockWithin top r[0]? start = false) := by
  refine ⟨_, isUlistStart_evalOK hOK h line start ews false none, ?_⟩
  rw [ulist_two hcp line start ews none hnt hnt]
  have he : exWsOf ews none = ews := rfl
  rw [he]
  constructor
  · rintro ⟨c, rest, hk, hm, ht, hp, hb⟩
    exact ⟨c, rest, ⟨(twoClause_agree hag).mp hk, hm, fun hth => ht ⟨twoClause_thematic hag hk, hth⟩⟩, hp, hb⟩
  · rintro ⟨c, rest, ⟨hi, hm, ht⟩, hp, hb⟩
    exact ⟨c, rest, (twoClause_agree hag).mpr hi, hm, fun hth => ht hth.2, hp, hb⟩

/-- non-trivial inputs: `- a` / `  - b` open (indents 2 and 4), paragraph on top; a marker 4 columns in (an item of the inner list:
base 4), 2 columns in (an item of the outer list: base 2), 5 columns in (nested in the inner item) -/
example : ChildParent paraE (some (ul 4)) (some (ul 2)) (ul 4) (ul 2) ∧
    TwoAgree (ul 4) (ul 2) 4 ∧ TwoAgree (ul 4) (ul 2) 2 ∧ TwoAgree (ul 4) (ul 2) 5 ∧ TwoAgree (ul 4) (ul 2) 3 ∧
    twoBase (ul 4) (ul 2) 5 = 4 ∧ twoBase (ul 4) (ul 2) 3 = 2 :=
  ⟨Or.inr ⟨rfl, rfl, rfl, rfl, rfl⟩, by unfold TwoAgree; decide, by unfold TwoAgree; decide, by unfold TwoAgree; decide,
    by unfold TwoAgree; decide, by decide, by decide⟩

/-- **list_start_two_lists_ordered_spec_partial**: the same for `is_olist_start` (ordered markers have no thematic-break exception;
the block clause is tested at the delimiter, the paragraph clause with `is_not_one`).  The `ItemStart` of an ordered marker is
never a thematic break, so the third component is free. -/
theorem list_start_two_lists_ordered_spec_partial (st : Stack) (hOK : StackOK st) (top : Entry) (r : Stack)
    (h : st.reverse = top :: r) (child parent : Entry) (hcp : ChildParent top r[0]? r[1]? child parent) (line : Str) (start : Nat)
    (ews : Str) (hnt : TAB ∉ ews) (hag : TwoAgree child parent ews.length) :
    ∃ res, isOlistStart st line start ews false none = .ok res ∧
      (res.isStart = true ↔
        ∃ ds dl rest, ews.length - twoBase child parent ews.length ≤ 3 ∧ MarkerAt (line.drop start) (.ordered ds dl) rest ∧
          paraRefuses top r[0]? (Verif.Model.ListStartsSpec.blankB rest) (ds != ['1']) start = false ∧
          blockWithin top r[0]? (start + ds.length) = false) := by
  refine ⟨_, isOlistStart_evalOK hOK h line start ews false none, ?_⟩
  rw [olist_two hcp line start ews none hnt]
  have he : exWsOf ews none = ews := rfl
  rw [he]
  constructor
  · rintro ⟨ds, dl, rest, hk, hm, hp, hb⟩
    exact ⟨ds, dl, rest, (twoClause_agree hag).mp hk, hm, hp, hb⟩
  · rintro ⟨ds, dl, rest, hi, hm, hp, hb⟩
    exact ⟨ds, dl, rest, (twoClause_agree hag).mpr hi, hm, hp, hb⟩

example : ChildParent (ol 7 "1.".toList) (some (ul 2)) (some docE) (ol 7 "1.".toList) (ul 2) ∧ TwoAgree (ol 7 "1.".toList) (ul 2) 4 :=
  ⟨Or.inl ⟨rfl, rfl, rfl, rfl⟩, by unfold TwoAgree; decide⟩

/-- **the hypothesis is needed — absolute whitespace**: `[document, ulist 2, ulist 4, paragraph]`, six columns of whitespace handed
over as they are (`adj_ws = None`): the marker is 2 columns right of the inner content column, an `ItemStart` by the specification,
and the code refuses it (6 > 3 + parent indent 2).  Model-level: the real callers do not use this convention here (next theorem). -/
theorem list_start_two_lists_absolute_excluded :
    (∃ res, isUlistStart [docE, ul 2, ul 4, paraE] "      - c".toList 6 "      ".toList false none = .ok res ∧
      res.isStart = false) ∧
    ¬ TwoAgree (ul 4) (ul 2) 6 ∧
    ItemStart (6 - twoBase (ul 4) (ul 2) 6) ("      - c".toList.drop 6) (.bullet '-') " c".toList := by
  refine ⟨⟨_, isUlistStart_evalOK (st := [docE, ul 2, ul 4, paraE]) ⟨⟨docE, _, rfl, rfl, by decide⟩, by decide⟩
      (top := paraE) (r := [ul 4, ul 2, docE]) rfl _ 6 _ _ _, by decide⟩, by unfold TwoAgree; decide,
    itemStart_of_decide (by decide) (by decide) (by decide)⟩

/-- **the double-counted parent indent with two lists, a real defect** (one list: `list_start_nested_excluded`, `- a\n      - c`).
Arguments recorded from the real parser on `- a\n  - b\n        - c` (line 3: eight spaces): stack
`[document, ulist 2, ulist 4, paragraph]`, `extracted_whitespace` = 8 spaces, `adj_ws` = 4 spaces (the inner item's indent already
removed by `__handle_list_block_init`).  The code compares 4 with `3 + parent indent` = 5 and accepts; relative to the inner
content column the marker is indented FOUR columns — not an `ItemStart`.  Real parser: a third nested list; CommonMark:
`<li>b\n- c</li>` (paragraph continuation). -/
theorem list_start_two_lists_excluded :
    (∃ res, isUlistStart [docE, ul 2, ul 4, paraE] "        - c".toList 8 "        ".toList false (some "    ".toList) = .ok res ∧
      res.isStart = true) ∧
    ¬ ∃ c rest, ItemStart (8 - twoBase (ul 4) (ul 2) 8) ("        - c".toList.drop 8) (.bullet c) rest := by
  refine ⟨⟨_, isUlistStart_evalOK (st := [docE, ul 2, ul 4, paraE]) ⟨⟨docE, _, rfl, rfl, by decide⟩, by decide⟩
      (top := paraE) (r := [ul 4, ul 2, docE]) rfl _ 8 _ _ _, by decide⟩, ?_⟩
  rintro ⟨c, rest, hi, -, -⟩
  revert hi; decide

/-! ### 3. TAB characters -/

/-- **list_start_total_tabs**: for every line that contains TAB characters (and every extracted whitespace, with or without
tabs), every start index and every stack that meets the guard, the start recognisers return, and `pre_list` returns at every index
inside the line with `stack_count ≤ current_count + 1`.  This is a COROLLARY of `list_start_total` / `pre_list_total`: those
theorems quantify over all lines, so the hypothesis `TAB ∈ line` is not used — no code path of these functions depends on
the absence of tabs (`calculate_length` is total on tabs: `calc_length_spec`).  The two side conditions of `pre_list` are the ones
`pre_list_excluded` shows necessary for tab-free lines as well. -/
theorem list_start_total_tabs (st : Stack) (hOK : StackOK st) (line : Str) (_htab : TAB ∈ line) (start : Int) (ews : Str)
    (skip : Bool) (adjWs : Option Str) :
    (∃ r, isUlistStart st line start ews skip adjWs = .ok r) ∧ (∃ r, isOlistStart st line start ews skip adjWs = .ok r) ∧
    ∀ (markerEnd mwm1 cur sc : Nat) (adj : Str) (posLine depth : Nat), markerEnd < line.length → sc ≤ cur + 1 →
      ∃ r, preList st line markerEnd ews mwm1 cur sc adj posLine depth = .ok r := by
  obtain ⟨h1, h2⟩ := list_start_total st hOK line start ews skip adjWs
  refine ⟨h1, h2, ?_⟩
  intro me mwm1 cur sc adj pl depth hm hsc
  obtain ⟨r, hr, -⟩ := pre_list_total st hOK line me ews mwm1 cur sc adj pl depth hm hsc
  exact ⟨r, hr⟩

/-- the crashing documents' own lines, tabs kept (the callers would have detabified them): accepted, no error -/
example : StackOK [docE] ∧ TAB ∈ "-\t".toList ∧ TAB ∈ "1.\t- x".toList ∧
    isUlistStart [docE] "-\t".toList 0 [] false none = .ok ⟨true, 2, some 0, some 0⟩ ∧
    isOlistStart [docE] "1.\t- x".toList 0 [] false none = .ok ⟨true, 3, some 1, some 1⟩ := by
  have hD : StackOK [docE] := ⟨⟨docE, [], rfl, rfl, by decide⟩, by decide⟩
  refine ⟨hD, by decide, by decide, ?_, ?_⟩
  · rw [show ((0 : Int)) = ((0 : Nat) : Int) from rfl, isUlistStart_evalOK hD (top := docE) (r := []) rfl]
    decide
  · rw [show ((0 : Int)) = ((0 : Nat) : Int) from rfl, isOlistStart_evalOK hD (top := docE) (r := []) rfl]
    decide

/-! ### 4. the content column, wider -/

/-- **content_column_spec2_partial** — `content_column_spec_partial` with its hypothesis `hcol` ("the marker's index IS its column")
weakened to: the index is CONGRUENT to the column modulo the tab stop 4, **or** no tab follows the marker.  So the statement now
covers a tab before the marker whenever the column it expands to is congruent to the index (never for a single leading tab, always
e.g. for detabified text), and every line whose whitespace after the marker is spaces — whatever stands before the marker.
FULL statement (no `hcol` at all) is false: `content_column_tab_excluded` (tab before AND after the marker, index 1, column 4).
The exclusions (x1), (x2) are unchanged (`content_column_excluded`). -/
theorem content_column_spec2_partial (line : Str) (start : Nat) (m : Marker) (rest : Str)
    (hm : MarkerAt (line.drop start) m rest) (ews adjWs : Str) (depth : Nat)
    (hcol : start % 4 = colsFrom 0 ews % 4 ∨ TAB ∉ rest.takeWhile Verif.Model.ListStartsSpec.isSpTab)
    (hx1 : ¬ (Blank rest ∧ rest ≠ [] ∧ depth = 0 ∧ adjWs.length ≠ colsFrom 0 ews))
    (hx2 : ¬ (Blank rest ∧ 2 ≤ colsFrom (colsFrom 0 ews + m.width) rest ∧ colsFrom (colsFrom 0 ews + m.width) rest ≤ 4 ∧
      depth ≠ 0)) :
    (preIndents line (start + m.width - 1) ews (m.width - 1) adjWs depth).indent =
      ((contentOffset (colsFrom 0 ews) m.width
        (colsFrom (colsFrom 0 ews + m.width) (rest.takeWhile Verif.Model.ListStartsSpec.isSpTab))
        (Verif.Model.ListStartsSpec.blankB rest) : Nat) : Int) := by
  obtain ⟨hpre, hblank⟩ := preIndents_marker hm ews adjWs depth
  have hw := marker_width_pos m
  have hc : colsFrom (start + m.width) (rest.takeWhile Verif.Model.ListStartsSpec.isSpTab) =
      colsFrom (colsFrom 0 ews + m.width) (rest.takeWhile Verif.Model.ListStartsSpec.isSpTab) := by
    rcases hcol with h | h
    · exact colsFrom_congr _ _ _ (by omega)
    · rw [colsFrom_notab_any _ _ h, colsFrom_notab_any _ _ h]
  have hall : Blank rest → rest.takeWhile Verif.Model.ListStartsSpec.isSpTab = rest := by
    intro hb
    exact takeWhile_all_self rest (fun x hx => (Verif.Model.ListStartsSpec.isSpTab_iff x).mpr (hb x hx))
  rw [hpre, calcIndents_spec, hblank, hc]
  · congr 2; omega
  · rintro ⟨he, hne, hd, hadj⟩
    have hb : Blank rest := by
      rw [blank_iff_blankB, ← hblank]; simp [he]
    apply hx1
    refine ⟨hb, ?_, hd, hadj⟩
    intro hnil
    rw [hnil] at hne
    exact hne (by simp [colsFrom, Verif.Model.ListStartsSpec.advance])
  · rintro ⟨he, h2, h4, hd⟩
    have hb : Blank rest := by
      rw [blank_iff_blankB, ← hblank]; simp [he]
    rw [hc, hall hb] at h2 h4
    exact hx2 ⟨hb, h2, h4, hd⟩

/-- a tab BEFORE the marker, spaces after it: index 1, column 4, not covered by `content_column_spec_partial`, covered here:
`\t-  x` gets indent 4 + 1 + 2 = 7 -/
example : MarkerAt ("\t-  x".toList.drop 1) (.bullet '-') "  x".toList ∧
    TAB ∉ ("  x".toList.takeWhile Verif.Model.ListStartsSpec.isSpTab) ∧ (1 : Nat) ≠ colsFrom 0 "\t".toList ∧
    (preIndents "\t-  x".toList 1 "\t".toList 0 [] 0).indent = 7 :=
  ⟨Verif.Model.ListStartsSpec.parseMarker_sound (by decide), by decide, by decide, by decide⟩

/-- **content_column_block_quote_spec_partial** — an item inside block quotes (any number; `container_depth ≠ 0`), called the way the
container processor calls `pre_list` there (recorded from the real parser: `> - a` arrives as line `"  - a"`, index 2,
`extracted_whitespace` two spaces, `container_depth` 1): the block-quote prefix `pre` has been replaced by spaces and stands in
front of the item's own indentation `ind` in the extracted whitespace.  Then the `indent_level` is the block quote's content column
(`pre.length`) **plus** the specification's W + N counted inside the block quote: indentation `ind.length` + marker width + padding.
(x1) cannot occur (depth ≠ 0); (x2) stays excluded — `> -   ` / `>     a`, a real defect of the pinned tree (see
`content_column_excluded`). -/
theorem content_column_block_quote_spec_partial (line : Str) (start : Nat) (m : Marker) (rest : Str)
    (hm : MarkerAt (line.drop start) m rest) (pre ind adjWs : Str) (depth : Nat) (hd : depth ≠ 0)
    (hnt : TAB ∉ pre ++ ind) (hcol : start = pre.length + ind.length)
    (hx2 : ¬ (Blank rest ∧ 2 ≤ colsFrom (pre.length + ind.length + m.width) rest ∧
      colsFrom (pre.length + ind.length + m.width) rest ≤ 4)) :
    (preIndents line (start + m.width - 1) (pre ++ ind) (m.width - 1) adjWs depth).indent =
      ((pre.length + contentOffset ind.length m.width
        (colsFrom (pre.length + ind.length + m.width) (rest.takeWhile Verif.Model.ListStartsSpec.isSpTab))
        (Verif.Model.ListStartsSpec.blankB rest) : Nat) : Int) := by
  have e : colsFrom 0 (pre ++ ind) = pre.length + ind.length := by rw [colsFrom_notab _ hnt, List.length_append]
  rw [content_column_spec2_partial line start m rest hm (pre ++ ind) adjWs depth (Or.inl (by rw [e, hcol]))
    (fun h => hd h.2.2.1) (by rw [e]; exact fun h => hx2 ⟨h.1, h.2.1, h.2.2.1⟩), e, contentOffset_shift]

/-- `>  1.  x` as the real parser hands it over: line `"   1.  x"`, delimiter at index 4, whitespace 3 = prefix `"> "` (2) + own
indentation 1, `adj_ws` one space, depth 1; `indent_level` 7 = 2 + (1 + 2 + 2) -/
example : MarkerAt ("   1.  x".toList.drop 3) (.ordered "1".toList '.') "  x".toList ∧
    (preIndents "   1.  x".toList 4 ("  ".toList ++ " ".toList) 1 " ".toList 1).indent = 7 ∧
    ¬ Blank "  x".toList :=
  ⟨Verif.Model.ListStartsSpec.parseMarker_sound (by decide), by decide,
    fun h => by have := h 'x' (by decide); revert this; decide⟩

end Verif.Props.ListStarts
