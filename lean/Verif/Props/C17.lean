/-
  C17 — Rule selection and settings follow the documented precedence of layers.

  Model: `Verif.Model.Config` (faithful: flat map written layer by layer, typed getters with
  strict / lenient, `PluginManager`'s command-line ▸ first-section ▸ default decision).
  Generated every run: `Verif.Gen.RuleMeta` (registered rules by reflection + their documentation
  pages) and `Verif.Gen.DocTables` (documented layer list; load / decision order of the code by AST).
-/
import Verif.Model.Config
import Verif.Model.RuleMeta
import Verif.Lemmas.Config
import Verif.Gen.RuleMeta
import Verif.Gen.DocTables
import Verif.Baseline.DocDiffs
namespace Verif.Props.C17
open Verif.Model.Config Verif.Lemmas.Config

/-! ## 1. merging -/

/-- The merged map binds a key to what the LAST layer (in load order) that mentions it says;
a key no layer mentions is absent. -/
theorem merge_last_wins (ls : List Layer) (k : Key) :
    (merge ls).get? k = ls.reverse.findSome? (fun l => Layer.get? l k) := by
  simp [merge, get?_foldl, PMap.get?]

-- non-vacuity: three layers, the middle one silent about the second key
example : (merge [[(["a"], .int 1), (["b"], .int 1)], [(["a"], .int 2)], [(["a"], .int 3)]]).get? ["a"] = some (.int 3)
    ∧ (merge [[(["a"], .int 1), (["b"], .int 1)], [(["a"], .int 2)], [(["a"], .int 3)]]).get? ["b"] = some (.int 1)
    ∧ (merge [[(["a"], .int 1)], [(["a"], .int 2)]]).get? ["c"] = none := by decide

/-- What the four sources say about one key, most specific first, is `chain L k`
(`L.set.get? k <|> L.config.get? k <|> L.dflt.get? k <|> L.pyproject.get? k`).
Key level layer order: `--set` over `--config` over the default file over `pyproject.toml`. -/
theorem layer_order_key (L : Layers) (k : Key) : L.merged.get? k = chain L k := merged_get? L k

example : (Layers.merged ⟨[(["k"], .int 1)], [(["k"], .int 2)], [], []⟩).get? ["k"] = some (.int 2) := by decide

/-! ## 2. the documented list of layers, the code's load order and the model agree -/

theorem model_load_order (L : Layers) :
    L.toList = (Layers.named L).map (·.2) ∧
    (Layers.named L).map (·.1) = layerOrder.filter (fun n => n != .defaultValue && n != .cmdLine) := by
  constructor <;> rfl

/-- The bullet list of advanced_configuration.md is the order the model implements. -/
theorem doc_layer_order : Verif.Gen.DocTables.docLayerOrder = layerOrder := by decide

/-- The source order of the loads and the decision order of `__determine_if_plugin_enabled`
(AST, regenerated) is the order the model implements. -/
theorem code_layer_order : Verif.Gen.DocTables.codeLayerOrder = layerOrder := by decide

theorem doc_statements :
    Verif.Gen.DocTables.docDisableOverEnable = true ∧ Verif.Gen.DocTables.docIdBeforeAliases = true
      ∧ Verif.Gen.DocTables.docWholeSection = true
      ∧ Verif.Gen.DocTables.defaultFiles = [".pymarkdown", ".pymarkdown.yaml", ".pymarkdown.yml"] := by decide

/-- Of the three default configuration files only the first present, non-empty one counts. -/
theorem default_file_choice (a b c : Layer) :
    pickDefault [a, b, c] = (if !a.isEmpty then a else if !b.isEmpty then b else c) := by
  cases a <;> cases b <;> cases c <;> simp [pickDefault]

example : pickDefault [[], [(enabledKey "md001", .bool false)], [(enabledKey "md001", .bool true)]] = [(enabledKey "md001", .bool false)] := by decide

/-! ## 3. command line -/

/-- Whatever the configuration layers say, in strict or lenient mode, a command-line decision stands. -/
theorem cmdline_over_all (r : Rule) (m : PMap) (strict : Bool) (c : CmdLine) (b : Bool)
    (h : cmdSetting r c = some b) : enabledIn r m strict c = .ok b := by
  simp [enabledIn, h]

/-- Same at the top level: unless reading `mode.strict-config` itself stops the run. -/
theorem cmdline_over_all_top (r : Rule) (L : Layers) (flag : Bool) (c : CmdLine) (b s : Bool)
    (h : cmdSetting r c = some b) (hs : strictMode L.merged flag = .ok s) :
    enabled r L flag c = .ok b := by
  simp [enabled, hs, cmdline_over_all r L.merged s c b h]

/-- Naming any identifier of the rule after `-d` disables it, whatever follows `-e`. -/
theorem disable_over_enable (r : Rule) (c : CmdLine) (i : String) (hi : i ∈ r.identifiers)
    (hd : i ∈ c.disable) : cmdSetting r c = some false := by
  have : (r.identifiers.any fun i => c.disable.contains i) = true := by
    simp only [List.any_eq_true]; exact ⟨i, hi, by simpa using hd⟩
  simp only [cmdSetting, this, Bool.or_true, ↓reduceIte]

/-- `-d *` disables every rule, whatever follows `-e`. -/
theorem disable_wildcard (r : Rule) (c : CmdLine) (hd : "*" ∈ c.disable) : cmdSetting r c = some false := by
  have : c.disable.contains wildcard = true := by simpa [wildcard] using hd
  simp only [cmdSetting, this, Bool.true_or, ↓reduceIte]

/-- `-e` counts exactly when `-d` names neither the rule nor `*`. -/
theorem enable_when_not_disabled (r : Rule) (c : CmdLine) (i : String) (hi : i ∈ r.identifiers)
    (he : i ∈ c.enable) (hw : "*" ∉ c.disable) (hd : ∀ j ∈ r.identifiers, j ∉ c.disable) :
    cmdSetting r c = some true := by
  have h1 : c.disable.contains wildcard = false := by simpa [wildcard] using hw
  have h2 : (r.identifiers.any fun i => c.disable.contains i) = false := by
    simp only [List.any_eq_false]; intro j hj; simpa using hd j hj
  have h3 : (r.identifiers.any fun i => c.enable.contains i) = true := by
    simp only [List.any_eq_true]; exact ⟨i, hi, by simpa using he⟩
  simp only [cmdSetting, h1, h2, h3, Bool.or_self, Bool.false_eq_true, ↓reduceIte]

/-- A command line that does not mention the rule leaves the decision to the configuration. -/
theorem cmdline_silent (r : Rule) (c : CmdLine) (hw : "*" ∉ c.disable)
    (hd : ∀ j ∈ r.identifiers, j ∉ c.disable) (he : ∀ j ∈ r.identifiers, j ∉ c.enable) :
    cmdSetting r c = none := by
  have h1 : c.disable.contains wildcard = false := by simpa [wildcard] using hw
  have h2 : (r.identifiers.any fun i => c.disable.contains i) = false := by
    simp only [List.any_eq_false]; intro j hj; simpa using hd j hj
  have h3 : (r.identifiers.any fun i => c.enable.contains i) = false := by
    simp only [List.any_eq_false]; intro j hj; simpa using he j hj
  simp only [cmdSetting, h1, h2, h3, Bool.or_self, Bool.false_eq_true, ↓reduceIte]

def md001 : Rule := ⟨"md001", ["heading-increment", "header-increment"], true⟩
def md002 : Rule := ⟨"md002", ["first-heading-h1", "first-header-h1"], false⟩
def md003 : Rule := ⟨"md003", ["heading-style", "header-style"], true⟩

-- non-vacuity: -e md002 -d first-header-h1 (two different identifiers of the same rule): disabled,
-- even though --set enables it; -e alone beats --set false
example : enabled md002 ⟨[], [], [], [(enabledKey "md002", .bool true)]⟩ false ⟨["md002"], ["first-header-h1"]⟩ = .ok false := by decide
example : enabled md002 ⟨[], [], [], [(enabledKey "md002", .bool false)]⟩ false ⟨["first-heading-h1"], []⟩ = .ok true := by decide
example : enabled md001 ⟨[], [], [], []⟩ false ⟨["md001"], ["*"]⟩ = .ok false := by decide
-- `normIds` is what turns the text after -e / -d into those sets
example : normIds " MD002 , First-Header-H1,".toList = ["md002", "first-header-h1", ""] := by decide
example : normIds "".toList = [] := by decide

/-! ## 4. configuration layers for a rule that is named consistently -/

/-- **layer_order** (lenient mode): for every content of the four layers and every command line,
a rule addressed consistently by one of its identifiers is decided by the most specific layer
that mentions it, in the documented total order. -/
theorem layer_order (r : Rule) (i : String) (L : Layers) (c : CmdLine)
    (hi : i ∈ r.identifiers) (hc : ConsistentlyNamed r i L) :
    enabledIn r L.merged false c = .ok (sixLayer r i L c) := by
  rw [enabledIn_consistent r i L false c hi hc]
  unfold decision sixLayer
  cases cmdSetting r c with
  | some b => rfl
  | none =>
    simp only
    cases chain L (enabledKey i) with
    | none => rfl
    | some v => cases v <;> rfl

/-- … and in strict mode as long as the deciding value is a Boolean (the whole {unset, true, false}
space of the property). -/
theorem layer_order_strict (r : Rule) (i : String) (L : Layers) (c : CmdLine)
    (hi : i ∈ r.identifiers) (hc : ConsistentlyNamed r i L)
    (hb : ∀ v, chain L (enabledKey i) = some v → ∃ b, v = .bool b) :
    enabledIn r L.merged true c = .ok (sixLayer r i L c) := by
  rw [enabledIn_consistent r i L true c hi hc]
  unfold decision sixLayer
  cases cmdSetting r c with
  | some b => rfl
  | none =>
    simp only
    cases hch : chain L (enabledKey i) with
    | none => rfl
    | some v =>
      obtain ⟨b, rfl⟩ := hb v hch
      rfl

/-- Excluded case of `layer_order_strict`: a non-Boolean `enabled` in the deciding layer stops the run. -/
example : enabled md001 ⟨[(enabledKey "md001", .bool false)], [], [], [(enabledKey "md001", .str "true")]⟩ true ⟨[], []⟩
    = .error (.wrongType (enabledKey "md001")) := by decide
/-- … and in lenient mode it falls back to the rule DEFAULT, not to the lower layer. -/
example : enabled md001 ⟨[(enabledKey "md001", .bool false)], [], [], [(enabledKey "md001", .str "true")]⟩ false ⟨[], []⟩
    = .ok true := by decide

-- non-vacuity of layer_order: every layer mentions md002 (default disabled), with alternating values
example : ConsistentlyNamed md002 "first-heading-h1"
    ⟨[(enabledKey "first-heading-h1", .bool true)], [(enabledKey "first-heading-h1", .bool false)],
     [(enabledKey "first-heading-h1", .bool true)], []⟩ := by
  intro j hj hji l hl kv hkv
  simp [Rule.identifiers, md002] at hj
  simp [Layers.toList] at hl
  rcases hl with rfl | rfl | rfl | rfl <;> simp at hkv <;> subst hkv <;>
    rcases hj with rfl | rfl | rfl <;> simp_all [isSectionKey, enabledKey]
example : enabled md002 ⟨[(enabledKey "first-heading-h1", .bool true)], [(enabledKey "first-heading-h1", .bool false)],
     [(enabledKey "first-heading-h1", .bool true)], []⟩ false ⟨[], []⟩ = .ok true := by decide
example : enabled md002 ⟨[(enabledKey "first-heading-h1", .bool true)], [(enabledKey "first-heading-h1", .bool false)],
     [], []⟩ false ⟨[], []⟩ = .ok false := by decide

/-! ## 5. id or alias: same effect -/

/-- **alias_invariance** (rule selection).  A rule addressed consistently by identifier `i` in one
configuration and consistently by identifier `j` in another that is otherwise the same is decided
alike — exactly alike in lenient mode, and alike up to the key named in the error message in strict mode.
The command line may name any identifiers of the rule (`cmdSetting` looks at all of them). -/
theorem alias_invariance (r : Rule) (i j : String) (L L' : Layers) (c : CmdLine)
    (hi : i ∈ r.identifiers) (hj : j ∈ r.identifiers)
    (hc : ConsistentlyNamed r i L) (hc' : ConsistentlyNamed r j L') (hs : SameUnder i j L L') :
    enabledIn r L.merged false c = enabledIn r L'.merged false c ∧
    outcome (enabledIn r L.merged true c) = outcome (enabledIn r L'.merged true c) := by
  rw [enabledIn_consistent r i L false c hi hc, enabledIn_consistent r j L' false c hj hc',
      enabledIn_consistent r i L true c hi hc, enabledIn_consistent r j L' true c hj hc']
  have hch : chain L (enabledKey i) = chain L' (enabledKey j) := chain_same i j L L' hs ["enabled"] (by simp)
  unfold decision
  rw [hch]
  cases cmdSetting r c with
  | some b => exact ⟨rfl, rfl⟩
  | none =>
    cases chain L' (enabledKey j) with
    | none => exact ⟨rfl, rfl⟩
    | some v => cases v <;> exact ⟨rfl, rfl⟩

/-- On the command line, `-e i` and `-e j` (resp. `-d`) are interchangeable for identifiers of the same rule. -/
theorem alias_invariance_cmdline (r : Rule) (i j : String) (hi : i ∈ r.identifiers) (hj : j ∈ r.identifiers)
    (es ds : List String) :
    cmdSetting r ⟨i :: es, ds⟩ = cmdSetting r ⟨j :: es, ds⟩ ∧
    cmdSetting r ⟨es, i :: ds⟩ = cmdSetting r ⟨es, j :: ds⟩ := by
  have hany : ∀ (k : String) (xs : List String), k ∈ r.identifiers →
      (r.identifiers.any fun x => (k :: xs).contains x) = true := by
    intro k xs hk
    simp only [List.any_eq_true]
    exact ⟨k, hk, by simp⟩
  constructor
  · simp only [cmdSetting, hany i es hi, hany j es hj]
  · simp only [cmdSetting, hany i ds hi, hany j ds hj, Bool.or_true]

/-- **alias_invariance** (settings): every configuration item, of any type, with any validator
and default, strict or lenient, is read alike through `i` and through `j`. -/
theorem alias_invariance_setting (r : Rule) (i j : String) (L L' : Layers) (strict : Bool)
    (item : String) (ty : Ty) (valid : Value → Bool) (dflt : Option Value)
    (hi : i ∈ r.identifiers) (hj : j ∈ r.identifiers)
    (hc : ConsistentlyNamed r i L) (hc' : ConsistentlyNamed r j L') (hs : SameUnder i j L L') :
    outcome (setting r L.merged strict item ty valid dflt) = outcome (setting r L'.merged strict item ty valid dflt) := by
  rw [setting_consistent r i L strict item ty valid dflt hi hc, setting_consistent r j L' strict item ty valid dflt hj hc']
  have : chain L (itemKey i item) = chain L' (itemKey j item) := chain_same i j L L' hs [item] (by simp)
  rw [this]
  exact outcome_typed_key _ _ _ _ _ _ _

-- non-vacuity: md002 via its id in --set and via its second alias in the default file
example : enabled md002 ⟨[], [], [], [(enabledKey "md002", .bool true)]⟩ false ⟨[], []⟩ = .ok true
    ∧ enabled md002 ⟨[], [(enabledKey "first-header-h1", .bool true)], [], []⟩ false ⟨[], []⟩ = .ok true := by decide
example : setting md002 (Layers.merged ⟨[], [], [(itemKey "first-header-h1" "level", .int 3)], []⟩) false "level" .int (fun _ => true) (some (.int 1))
    = .ok (some (.int 3)) := by decide

/-! ## 6. mixed identifiers: the documented whole-section rule -/

/-- **first_section_wins.**  The first identifier (id, then names in order) whose section has ANY key
decides; sections of later identifiers are not consulted at all, in whichever layer they sit. -/
theorem first_section_wins (r : Rule) (m : PMap) (strict : Bool) (c : CmdLine) (pre post : List String) (i : String)
    (hids : r.identifiers = pre ++ i :: post) (hpre : ∀ j ∈ pre, hasSection m j = false)
    (hi : hasSection m i = true) (hcmd : cmdSetting r c = none) :
    enabledIn r m strict c =
      (match getBool m strict (enabledKey i) with
       | .error e => .error e
       | .ok none => .ok r.enabledByDefault
       | .ok (some b) => .ok b) := by
  have : findSection r m = some i := by
    unfold findSection; rw [hids]; exact find?_first _ pre post i hpre hi
  unfold enabledIn
  rw [hcmd, this]
  rfl

/-- Witness that MIXING identifiers across layers does not follow plain layer order: `pyproject.toml`
sets only `plugins.md003.style`; `--set plugins.heading-style.enabled=$!False` is the most specific
layer that mentions the rule — and the rule stays enabled, because the id's section exists and has no
`enabled` key.  This is what advanced_configuration.md documents under "Multiple Identifiers For The Same
Rule Plugin" ("the entire hierarchy has precedence"), and the property quantifies over configurations
that name the rule consistently, so it is outside the property, not a violation of it. -/
theorem mixing_not_layer_order :
    enabled md003 ⟨[(itemKey "md003" "style", .str "atx")], [], [], [(enabledKey "heading-style", .bool false)]⟩ false ⟨[], []⟩ = .ok true
    ∧ enabled md003 ⟨[(itemKey "heading-style" "style", .str "atx")], [], [], [(enabledKey "heading-style", .bool false)]⟩ false ⟨[], []⟩ = .ok false
    ∧ enabled md003 ⟨[(itemKey "md003" "style", .str "atx")], [], [], [(enabledKey "md003", .bool false)]⟩ false ⟨[], []⟩ = .ok false := by decide

/-- The documentation's own example: `plugins.md003.enabled=false` beats `plugins.heading-style.enabled=true`
in the same file, whatever their order in the file. -/
example : enabled md003 ⟨[], [], [(enabledKey "heading-style", .bool true), (itemKey "heading-style" "style", .str "consistent"),
    (enabledKey "md003", .bool false)], []⟩ false ⟨[], []⟩ = .ok false := by decide

/-! ## 7. invalid values: lenient default, strict error -/

/-- A value of the wrong type, or one the validator rejects, reads as the DEFAULT in lenient mode. -/
theorem lenient_default (m : PMap) (k : Key) (ty : Ty) (valid : Value → Bool) (dflt : Option Value) (v : Value)
    (hv : m.get? k = some v) (hbad : v.hasType ty = false ∨ valid v = false) :
    getProp m false k ty valid dflt = .ok dflt := by
  unfold getProp typed
  rw [hv]
  rcases hbad with h | h
  · simp [h]
  · cases ht : v.hasType ty <;> simp [h]

/-- … and stops the run with a configuration error naming the key in strict mode. -/
theorem strict_error (m : PMap) (k : Key) (ty : Ty) (valid : Value → Bool) (dflt : Option Value) (v : Value)
    (hv : m.get? k = some v) (hbad : v.hasType ty = false ∨ valid v = false) :
    getProp m true k ty valid dflt = .error (.wrongType k) ∨ getProp m true k ty valid dflt = .error (.invalid k) := by
  unfold getProp typed
  rw [hv]
  rcases hbad with h | h
  · left; simp [h]
  · cases ht : v.hasType ty
    · left; simp [ht]
    · right; simp [h, ht]

/-- A well-typed, accepted value is what the rule gets, in either mode; an absent key gives the default. -/
theorem valid_value (m : PMap) (strict : Bool) (k : Key) (ty : Ty) (valid : Value → Bool) (dflt : Option Value) (v : Value)
    (hv : m.get? k = some v) (ht : v.hasType ty = true) (hok : valid v = true) :
    getProp m strict k ty valid dflt = .ok (some v) := by
  simp [getProp, typed, hv, ht, hok]

theorem absent_default (m : PMap) (strict : Bool) (k : Key) (ty : Ty) (valid : Value → Bool) (dflt : Option Value)
    (hv : m.get? k = none) : getProp m strict k ty valid dflt = .ok dflt := by
  simp [getProp, typed, hv]

/-- Strict mode: the flag, or a Boolean `mode.strict-config` in the merged map; a wrongly typed
`mode.strict-config` always stops the run (it is read with `strict_mode=True`). -/
theorem strict_mode_spec (m : PMap) :
    strictMode m true = .ok true ∧
    (∀ b, m.get? ["mode", "strict-config"] = some (.bool b) → strictMode m false = .ok b) ∧
    (m.get? ["mode", "strict-config"] = none → strictMode m false = .ok false) ∧
    (∀ v, m.get? ["mode", "strict-config"] = some v → (∀ b, v ≠ .bool b) → strictMode m false = .error (.wrongType ["mode", "strict-config"])) := by
  refine ⟨rfl, ?_, ?_, ?_⟩
  · intro b h; simp [strictMode, getBool, typedBool, h]
  · intro h; simp [strictMode, getBool, typedBool, h]
  · intro v h hb
    cases v with
    | bool b => exact absurd rfl (hb b)
    | int _ => simp [strictMode, getBool, typedBool, h]
    | str _ => simp [strictMode, getBool, typedBool, h]
    | other => simp [strictMode, getBool, typedBool, h]

-- non-vacuity: md013.line_length = 0 (validator: ≥ 1), "abc" (wrong type), 100 (fine)
def ge1 : Value → Bool | .int i => decide (1 ≤ i) | _ => false
example : getProp [(itemKey "md013" "line_length", .int 0)] false (itemKey "md013" "line_length") .int ge1 (some (.int 80)) = .ok (some (.int 80))
    ∧ getProp [(itemKey "md013" "line_length", .int 0)] true (itemKey "md013" "line_length") .int ge1 (some (.int 80)) = .error (.invalid (itemKey "md013" "line_length"))
    ∧ getProp [(itemKey "md013" "line_length", .str "abc")] true (itemKey "md013" "line_length") .int ge1 (some (.int 80)) = .error (.wrongType (itemKey "md013" "line_length"))
    ∧ getProp [(itemKey "md013" "line_length", .int 100)] true (itemKey "md013" "line_length") .int ge1 (some (.int 80)) = .ok (some (.int 100)) := by decide

/-- Excluded case (pinned tree, recorded as a finding): md033 `allowed_elements`, md044 `names` and pml100
`change_tag_names` have no validator; the rule parses the accepted string itself and raises on a malformed
one, so the run stops even in LENIENT mode. -/
example : settingChecked ⟨"md033", ["no-inline-html"], true⟩ [(itemKey "md033" "allowed_elements", .str "b,,i")] false
    "allowed_elements" .str (fun _ => true) (some (.str "!--,![CDATA[,!DOCTYPE")) (fun v => v == some (.str "!--,![CDATA[,!DOCTYPE"))
    = .error (.rejected (itemKey "md033" "allowed_elements")) := by decide

/-- `--set` typing. -/
example : manualValue "$!True".toList = .ok (.bool true) ∧ manualValue "$!yes".toList = .ok (.bool false)
    ∧ manualValue "$#-12".toList = .ok (.int (-12)) ∧ manualValue "$#1.1".toList = .error .badManual
    ∧ manualValue "true".toList = .ok (.str "true") ∧ manualValue "$$x".toList = .ok (.str "x")
    ∧ manualValue "$x".toList = .ok (.str "x") ∧ manualValue "$".toList = .ok (.str "$") := by decide

/-! ## 8. the registered rules and their documentation -/

open Verif.Model.RuleMeta in
/-- Registered rules (reflection) and documentation pages agree on identifiers, prefixes, enabled-by-default,
autofix availability and every configuration item (name, type, default), except for exactly the committed
list `Baseline.docDiffs`. -/
theorem code_eq_doc : diffs Verif.Gen.RuleMeta.codeRules Verif.Gen.RuleMeta.docRules = Verif.Baseline.docDiffs := by
  decide +kernel

open Verif.Model.RuleMeta in
/-- `query_config()` (what `plugins info` prints) reports exactly the items the rule reads, with their defaults. -/
theorem query_eq_getters : queryDiffs Verif.Gen.RuleMeta.codeRules = [] := by decide +kernel

/-- No two registered rules share an identifier (so a section / a `-e` entry addresses one rule). -/
theorem identifiers_distinct :
    (Verif.Gen.RuleMeta.codeRules.flatMap (·.identifiers)).Nodup := by decide +kernel

/-- The rules used in the examples above are the registered ones. -/
theorem example_rules_registered :
    ∀ r ∈ [md001, md002, md003], ∃ c ∈ Verif.Gen.RuleMeta.codeRules,
      c.id = r.id ∧ c.names = r.names ∧ c.enabledByDefault = r.enabledByDefault := by decide +kernel

end Verif.Props.C17
