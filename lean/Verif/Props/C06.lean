/-
  C06 — rule verdicts match the documented condition, no more and no less.

  The property itself ("implementation = documented condition") is decided by the correspondence of
  tools/props/c06.py between the real rules and the REFERENCE conditions `Verif.Model.RuleSpec.*`.
  The theorems here
    (1) pin each reference condition to the sentence of its page (`mdXXX_iff` …), so that the meaning of
        what the real rule is compared with is fixed and machine-checked;
    (2) for the line rules connect the FAITHFUL, code-shaped models `Verif.Model.LineRules` with the
        documented conditions (`md010_faithful_eq_spec`, `md047_faithful_eq_spec`,
        `md009_faithful_eq_spec_partial` with witnesses for the excluded points);
    (3) prove, for the line fixes, fix_removes_own_trigger (H1 of C09), fix_idempotent,
        fix_only_whitespace (C08) and the pairwise (non-)interference of MD009 / MD010 / MD047.
  Every theorem is followed by a non-vacuity example.
-/
import Verif.Lemmas.RuleSpec
namespace Verif.Props.C06
open Verif.Model Verif.Model.LeanMark Verif.Model.RuleSpec

/-! ## (1) the documented sentences -/

private theorem or_false_imp (a : Bool) (P : Prop) : (a = false ∨ P) ↔ (a = true → P) := by
  cases a <;> simp

/-- MD009: line `i` is reported iff it ends with n ≥ 1 spaces, is not a code block line, n is not the
    allowed `br_spaces` (or `strict`), and it is not a list-item blank line exempted by
    `list_item_empty_lines`. -/
theorem md009_iff (c : C009) (ls : List Line) (evs : List Ev) (i : Nat) :
    (i, none) ∈ md009 c ls evs ↔
      ∃ l, lineAt ls i = some l ∧ trailingSpaces l ≥ 1 ∧ inCode (blocks evs) i = false ∧
        (c.strict = true ∨ trailingSpaces l ≠ c.brSpaces) ∧
        (c.listItemEmptyLines = true → listBlankOk ls (conts evs) i l = false) := by
  unfold md009
  simp only [mem_perLine]
  constructor
  · rintro ⟨j, l, hl, hm⟩
    split at hm
    · rename_i h
      simp only [List.mem_singleton, Prod.mk.injEq, and_true] at hm
      subst hm
      refine ⟨l, hl, ?_⟩
      simpa [md009Line, and_assoc, or_false_imp] using h
    · simp at hm
  · rintro ⟨l, hl, h⟩
    refine ⟨i, l, hl, ?_⟩
    have : md009Line c ls (blocks evs) (conts evs) i l = true := by
      simpa [md009Line, and_assoc, or_false_imp] using h
    simp [this]

example : md009 {} ["a ".toList, "b  ".toList, "c".toList] [] = [(1, none)] := by decide
example : md009 { strict := true } ["a ".toList, "b  ".toList, "c".toList] [] = [(1, none), (2, none)] := by decide
/-- inside a code block nothing is reported -/
example : md009 {} ["```".toList, "x ".toList, "```".toList] [.leaf (.fenced []) ⟨1, 1⟩ 3 [⟨2, 0, "x ".toList⟩]] = [] := by decide

/-- MD010: `(i, k)` is reported iff column `k` of line `i` holds a tab character and either code blocks
    are searched or the line is not a code block content line. -/
theorem md010_iff (c : C010) (ls : List Line) (evs : List Ev) (i k : Nat) :
    (i, some k) ∈ md010 c ls evs ↔
      ∃ l, lineAt ls i = some l ∧ k ∈ tabCols l 0 ∧ (c.codeBlocks = true ∨ inCodeContent (blocks evs) i = false) := by
  unfold md010
  simp only [mem_perLine]
  constructor
  · rintro ⟨j, l, hl, hm⟩
    split at hm
    · rename_i h
      simp only [List.mem_map, Prod.mk.injEq, Option.some.injEq] at hm
      obtain ⟨k', hk', rfl, rfl⟩ := hm
      exact ⟨l, hl, hk', by simpa using h⟩
    · simp at hm
  · rintro ⟨l, hl, hk, h⟩
    refine ⟨i, l, hl, ?_⟩
    have : (c.codeBlocks || !inCodeContent (blocks evs) i) = true := by simpa using h
    simp [this, hk]

/-- "each occurrence of a tab character will trigger this rule independently" -/
theorem md010_one_per_tab (l : Line) (col : Nat) : (tabCols l col).length = l.count '\t' := by
  induction l generalizing col with
  | nil => rfl
  | cons c cs ih =>
    simp only [tabCols]
    split
    · rename_i h
      have hc : c = '\t' := by simpa using h
      subst hc
      simp [ih]
    · rename_i h
      have hc : c ≠ '\t' := by simpa using h
      rw [ih]; simp [List.count_cons, hc]

example : md010 {} ["\ta\tb".toList] [] = [(1, some 1), (1, some 6)] := by decide
example : md010 { codeBlocks := false } ["```".toList, "\tx".toList, "```".toList, "\ty".toList]
    [.leaf (.fenced []) ⟨1, 1⟩ 3 [⟨2, 0, "\tx".toList⟩], .leaf .para ⟨4, 5⟩ 4 [⟨4, 4, "y".toList⟩]] = [(4, some 1)] := by decide

/-- MD012: line `i` is reported iff it is the last line of a run of more than `maximum` consecutive
    blank lines (blank lines of code blocks are not Blank Line elements). -/
theorem md012_iff (c : C012) (ls : List Line) (evs : List Ev) (i : Nat) :
    (i, none) ∈ md012 c ls evs ↔
      (∃ l, lineAt ls i = some l) ∧ blank12 (view ls evs) i = true ∧
      (blank12 (view ls evs) (i + 1) = true → scopeOf (view ls evs) (i + 1) ≠ scopeOf (view ls evs) i) ∧
      1 + runAbove (view ls evs) (scopeOf (view ls evs) i) i i > c.maximum := by
  unfold md012
  simp only [mem_perLine]
  constructor
  · rintro ⟨j, l, hl, hm⟩
    split at hm
    · rename_i h
      simp only [List.mem_singleton, Prod.mk.injEq, and_true] at hm
      subst hm
      refine ⟨⟨l, hl⟩, ?_⟩
      simpa [md012Line, and_assoc, or_false_imp] using h
    · simp at hm
  · rintro ⟨⟨l, hl⟩, h⟩
    refine ⟨i, l, hl, ?_⟩
    have : md012Line c (view ls evs) i = true := by
      simpa [md012Line, and_assoc, or_false_imp] using h
    simp [this]

example : md012 {} ["a".toList, [], [], "b".toList] [.leaf .para ⟨1, 1⟩ 1 [], .leaf .para ⟨4, 1⟩ 4 []] = [(3, none)] := by decide
example : md012 { maximum := 2 } ["a".toList, [], [], "b".toList] [.leaf .para ⟨1, 1⟩ 1 [], .leaf .para ⟨4, 1⟩ 4 []] = [] := by decide
/-- blank lines inside a fenced code block are not counted -/
example : md012 {} ["```".toList, [], [], "```".toList] [.leaf (.fenced []) ⟨1, 1⟩ 4 [⟨2, 0, []⟩, ⟨3, 0, []⟩]] = [] := by decide

/-- MD013: line `i` is reported iff it is longer than the limit of its kind (normal / heading / code
    block), its kind is not switched off, and — unless `strict` — there is white space beyond the limit. -/
theorem md013_iff (c : C013) (ls : List Line) (evs : List Ev) (i : Nat) :
    (i, some 1) ∈ md013 c ls evs ↔
      ∃ l, lineAt ls i = some l ∧ l.length > limit c (kindOf (blocks evs) i) ∧
        exempt c (kindOf (blocks evs) i) = false ∧
        (c.strict = true ∨ wsBeyond l (limit c (kindOf (blocks evs) i)) = true) := by
  unfold md013
  simp only [mem_perLine]
  constructor
  · rintro ⟨j, l, hl, hm⟩
    split at hm
    · rename_i h
      simp only [List.mem_singleton, Prod.mk.injEq, and_true] at hm
      subst hm
      refine ⟨l, hl, ?_⟩
      simpa [md013Line, and_assoc] using h
    · simp at hm
  · rintro ⟨l, hl, h⟩
    refine ⟨i, l, hl, ?_⟩
    have : md013Line c (blocks evs) i l = true := by
      simpa [md013Line, and_assoc] using h
    simp [this]

example : md013 { lineLength := 5 } ["abcdef g".toList, "abcdefg".toList, "abc".toList] [] = [(1, some 1)] := by decide
example : md013 { lineLength := 5, strict := true } ["abcdef g".toList, "abcdefg".toList, "abc".toList] [] = [(1, some 1), (2, some 1)] := by decide
/-- a heading line is measured against `heading_line_length` -/
example : md013 { lineLength := 5, headingLineLength := 20 } ["# abc def".toList]
    [.leaf (.heading 1 false) ⟨1, 1⟩ 1 [⟨1, 2, "abc def".toList⟩]] = [] := by decide

/-- MD047: nothing is reported iff the document is empty or ends with a newline character. -/
theorem md047_iff (doc : List Char) (evs : List Ev) :
    md047 (rawLines doc) evs = [] ↔ doc = [] ∨ doc.getLast? = some '\n' := by
  rw [← rawLines_last_empty]
  unfold md047
  cases h : (rawLines doc).getLast? with
  | none =>
    exfalso
    rw [List.getLast?_eq_none_iff] at h
    exact splitLinesGo_ne_nil doc [] [] h
  | some l =>
    cases l with
    | nil => simp
    | cons a as => simp

/-- the report is on the last line -/
theorem md047_anchor (ls : List Line) (evs : List Ev) (h : Hit) (hm : h ∈ md047 ls evs) : h = (ls.length, none) := by
  unfold md047 at hm
  split at hm
  · split at hm <;> simp_all
  · simp at hm

example : md047 (rawLines "a".toList) [] = [(1, none)] := by decide
example : md047 (rawLines "a\n".toList) [] = [] := by decide
example : md047 (rawLines "a\n  ".toList) [] = [(2, none)] := by decide
example : md047 (rawLines []) [] = [] := by decide



/-- MD022: nothing is reported iff every heading has exactly `lines_above` blank lines above it (unless
    nothing but blank lines precedes it) and exactly `lines_below` blank lines below it. -/
theorem md022_clean_iff (c : C022) (ls : List Line) (evs : List Ev) :
    md022 c ls evs = [] ↔
      ∀ h ∈ headings ls (view ls evs).bs,
        ((view ls evs).first (some h.b.stack) 1 h.line = true ∨ (view ls evs).above (some h.b.stack) h.line = c.linesAbove) ∧
        (view ls evs).below (some h.b.stack) h.endLine = c.linesBelow := by
  unfold md022
  simp only [List.flatMap_eq_nil_iff, List.append_eq_nil_iff]
  constructor
  · intro H h hh
    have := H h hh
    constructor
    · by_cases hf : (view ls evs).first (some h.b.stack) 1 h.line = true
      · exact Or.inl hf
      · right
        have h1 := this.1
        simp [hf] at h1
        exact h1
    · have h2 := this.2
      simpa using h2
  · intro H h hh
    obtain ⟨h1, h2⟩ := H h hh
    constructor
    · rcases h1 with h1 | h1 <;> simp [h1]
    · simp [h2]

example : md022 {} ["# a".toList, "b".toList] [.leaf (.heading 1 false) ⟨1, 1⟩ 1 [], .leaf .para ⟨2, 1⟩ 2 []] = [(1, none)] := by decide
example : md022 {} ["# a".toList, [], "b".toList] [.leaf (.heading 1 false) ⟨1, 1⟩ 1 [], .leaf .para ⟨3, 1⟩ 3 []] = [] := by decide
example : md022 { linesBelow := 2 } ["# a".toList, [], "b".toList] [.leaf (.heading 1 false) ⟨1, 1⟩ 1 [], .leaf .para ⟨3, 1⟩ 3 []] = [(1, none)] := by decide

/-- MD025: nothing is reported iff at most one heading has the top level. -/
theorem md025_clean_iff (c : C025) (ls : List Line) (evs : List Ev) :
    md025 c ls evs = [] ↔ ((headings ls (blocks evs)).filter (·.level == c.level)).length ≤ 1 := by
  unfold md025
  rw [List.map_eq_nil_iff, List.drop_eq_nil_iff]

/-- MD025 reports every top-level heading but the first -/
theorem md025_count (c : C025) (ls : List Line) (evs : List Ev) :
    (md025 c ls evs).length = ((headings ls (blocks evs)).filter (·.level == c.level)).length - 1 := by
  unfold md025; simp

example : md025 {} ["# a".toList, "# b".toList]
    [.leaf (.heading 1 false) ⟨1, 1⟩ 1 [], .leaf (.heading 1 false) ⟨2, 1⟩ 2 []] = [(2, none)] := by decide

/-- MD003 with a fixed style: nothing is reported iff every heading conforms to the style. -/
theorem md003Go_clean_iff (s : S003) (hs : List Heading) :
    md003Go false s hs = [] ↔ ∀ h ∈ hs, okStyle s h = true := by
  induction hs with
  | nil => simp [md003Go]
  | cons h hs ih =>
    simp only [md003Go, Bool.false_and, Bool.false_eq_true, ↓reduceIte, List.append_eq_nil_iff, ih,
      List.mem_cons, forall_eq_or_imp]
    constructor
    · rintro ⟨h1, h2⟩
      refine ⟨?_, h2⟩
      by_cases e : okStyle s h = true
      · exact e
      · simp [e] at h1
    · rintro ⟨h1, h2⟩
      exact ⟨by simp [h1], h2⟩

/-- MD024 (default configuration): a heading is a duplicate iff an earlier heading has the same text. -/
theorem isDupOf_iff (h : Heading) (seen : List Heading) :
    isDupOf false h seen = true ↔ ∃ g ∈ seen, g.text = h.text := by
  induction seen with
  | nil => simp [isDupOf]
  | cons g gs ih => simp [isDupOf, ih]

/-- MD001: nothing is reported iff no heading is more than one level below the heading before it. -/
theorem md001Go_clean_iff (p : Option Nat) (hs : List Heading) :
    md001Go p hs = [] ↔
      (∀ a, p = some a → ∀ b, hs.head? = some b → b.level ≤ a + 1) ∧
      (∀ k a b, hs[k]? = some a → hs[k + 1]? = some b → b.level ≤ a.level + 1) := by
  induction hs generalizing p with
  | nil => simp [md001Go]
  | cons h hs ih =>
    have key : md001Go (some h.level) hs = [] ↔
        (∀ b, hs.head? = some b → b.level ≤ h.level + 1) ∧
        (∀ k a b, hs[k]? = some a → hs[k + 1]? = some b → b.level ≤ a.level + 1) := by
      rw [ih]; simp
    have tail : (∀ k a b, (h :: hs)[k]? = some a → (h :: hs)[k + 1]? = some b → b.level ≤ a.level + 1) ↔
        (∀ b, hs.head? = some b → b.level ≤ h.level + 1) ∧
        (∀ k a b, hs[k]? = some a → hs[k + 1]? = some b → b.level ≤ a.level + 1) := by
      constructor
      · intro H
        refine ⟨fun b hb => H 0 h b (by simp) (by simpa [List.head?_eq_getElem?] using hb), fun k a b ha hb => H (k + 1) a b (by simpa using ha) (by simpa using hb)⟩
      · rintro ⟨H1, H2⟩ k a b ha hb
        cases k with
        | zero =>
          simp at ha; subst ha
          exact H1 b (by simpa [List.head?_eq_getElem?] using hb)
        | succ k => exact H2 k a b (by simpa using ha) (by simpa using hb)
    cases p with
    | none =>
      simp only [md001Go, key, tail]
      simp
    | some a =>
      simp only [md001Go, List.append_eq_nil_iff, key, tail]
      constructor
      · rintro ⟨h1, h2⟩
        refine ⟨?_, h2⟩
        intro a' ha' b hb
        simp at ha' hb; subst ha' hb
        by_cases e : h.level > a + 1
        · simp [e] at h1
        · omega
      · rintro ⟨h1, h2⟩
        refine ⟨?_, h2⟩
        have := h1 a rfl h (by simp)
        have e : ¬ h.level > a + 1 := by omega
        simp [e]

/-- MD040: a fenced code block is reported iff nothing but white space follows its opening fence. -/
theorem md040_iff (ls : List Line) (evs : List Ev) (hit : Hit) :
    hit ∈ md040 ls evs ↔ ∃ f ∈ fences ls (blocks evs), hit = (f.b.line, none) ∧ ∀ ch ∈ f.info, isWsChar ch = true := by
  unfold md040
  simp only [List.mem_flatMap]
  constructor
  · rintro ⟨f, hf, hm⟩
    split at hm
    · rename_i h
      simp only [List.mem_singleton] at hm
      refine ⟨f, hf, hm, ?_⟩
      simpa [List.filter_eq_nil_iff] using h
    · simp at hm
  · rintro ⟨f, hf, rfl, h⟩
    refine ⟨f, hf, ?_⟩
    have : ((f.info.filter (fun c => !isWsChar c)).isEmpty) = true := by
      simpa [List.filter_eq_nil_iff] using h
    simp [this]

example : md040 ["```".toList, "```".toList] [.leaf (.fenced []) ⟨1, 1⟩ 2 []] = [(1, none)] := by decide
example : md040 ["```py".toList, "```".toList] [.leaf (.fenced "py".toList) ⟨1, 1⟩ 2 []] = [] := by decide

/-- MD041: when the document starts with a heading, nothing is reported iff it has the expected level. -/
theorem md041_heading (c : C041) (ls : List Line) (lvl : Nat) (sx : Bool) (p : Pos) (e : Nat) (pl : List PLine) (rest : List Ev) :
    md041 c ls (.leaf (.heading lvl sx) p e pl :: rest) = [] ↔ lvl = c.level := by
  simp [md041]

/-- MD041: a document that starts with any other leaf block than a heading or an HTML block, or with a
    container, is reported on the line of that first element. -/
theorem md041_para (c : C041) (ls : List Line) (p : Pos) (e : Nat) (pl : List PLine) (rest : List Ev) :
    md041 c ls (.leaf .para p e pl :: rest) = [(p.line, none)] := by
  simp [md041]

theorem md041_container (c : C041) (ls : List Line) (k : Kind) (p : Pos) (rest : List Ev) :
    md041 c ls (.open k p :: rest) = [(p.line, none)] := by
  simp [md041]

example : md041 {} ["<h1 align=\"center\">x</h1>".toList]
    [.leaf .html ⟨1, 1⟩ 1 [⟨1, 0, "<h1 align=\"center\">x</h1>".toList⟩]] = [] := by decide
example : md041 { level := 2 } ["## a".toList] [.leaf (.heading 2 false) ⟨1, 1⟩ 1 []] = [] := by decide
example : md041 {} ["## a".toList] [.leaf (.heading 2 false) ⟨1, 1⟩ 1 []] = [(1, none)] := by decide



/-- MD046 with `style = fenced`: exactly the indented code blocks are reported. -/
theorem md046_fenced_iff (ls : List Line) (evs : List Ev) (hit : Hit) :
    hit ∈ md046 { style := .fenced } ls evs ↔ ∃ b ∈ blocks evs, b.k = .indented ∧ hit = (b.line, none) := by
  simp only [md046, List.mem_flatMap, List.mem_filter]
  constructor
  · rintro ⟨b, ⟨hb, hk⟩, hm⟩
    cases hkk : b.k <;> simp_all [isCodeK, isFencedK]
    exact ⟨b, hb, hkk, rfl⟩
  · rintro ⟨b, hb, hk, rfl⟩
    exact ⟨b, ⟨hb, by simp [isCodeK, hk]⟩, by simp [isFencedK, hk]⟩

/-- MD046 with `style = indented`: exactly the fenced code blocks are reported. -/
theorem md046_indented_iff (ls : List Line) (evs : List Ev) (hit : Hit) :
    hit ∈ md046 { style := .indented } ls evs ↔ ∃ b ∈ blocks evs, isFencedK b.k = true ∧ hit = (b.line, none) := by
  simp only [md046, List.mem_flatMap, List.mem_filter]
  constructor
  · rintro ⟨b, ⟨hb, hk⟩, hm⟩
    cases hkk : b.k <;> simp_all [isCodeK, isFencedK]
    exact ⟨b, hb, by simp [hkk], rfl⟩
  · rintro ⟨b, hb, hk, rfl⟩
    refine ⟨b, ⟨hb, ?_⟩, by simp [hk]⟩
    cases hkk : b.k <;> simp_all [isCodeK, isFencedK]

example : md046 {} [] [.leaf (.fenced []) ⟨1, 1⟩ 2 [], .leaf .indented ⟨4, 5⟩ 4 []] = [(4, none)] := by decide
example : md046 { style := .indented } [] [.leaf (.fenced []) ⟨1, 1⟩ 2 [], .leaf .indented ⟨4, 5⟩ 4 []] = [(1, none)] := by decide

/-- MD048 with a fixed style: exactly the fenced code blocks with the other fence character are reported. -/
theorem md048_backtick_iff (ls : List Line) (evs : List Ev) (hit : Hit) :
    hit ∈ md048 { style := .backtick } ls evs ↔ ∃ f ∈ fences ls (blocks evs), f.ch ≠ '`' ∧ hit = (f.b.line, none) := by
  simp only [md048, List.mem_flatMap]
  constructor
  · rintro ⟨f, hf, hm⟩
    split at hm
    · simp at hm
    · rename_i h
      simp at hm
      exact ⟨f, hf, by simpa using h, hm⟩
  · rintro ⟨f, hf, hne, rfl⟩
    exact ⟨f, hf, by simp [hne]⟩

theorem md048_tilde_iff (ls : List Line) (evs : List Ev) (hit : Hit) :
    hit ∈ md048 { style := .tilde } ls evs ↔ ∃ f ∈ fences ls (blocks evs), f.ch ≠ '~' ∧ hit = (f.b.line, none) := by
  simp only [md048, List.mem_flatMap]
  constructor
  · rintro ⟨f, hf, hm⟩
    split at hm
    · simp at hm
    · rename_i h
      simp at hm
      exact ⟨f, hf, by simpa using h, hm⟩
  · rintro ⟨f, hf, hne, rfl⟩
    exact ⟨f, hf, by simp [hne]⟩

example : md048 {} ["```".toList, "```".toList, [], "~~~".toList, "~~~".toList]
    [.leaf (.fenced []) ⟨1, 1⟩ 2 [], .leaf (.fenced []) ⟨4, 1⟩ 5 []] = [(4, none)] := by decide

/-- MD004 with a fixed style: exactly the unordered lists with another bullet character are reported. -/
theorem md004_dash_iff (ls : List Line) (evs : List Ev) (hit : Hit) :
    hit ∈ md004 { style := .dash } ls evs ↔ ∃ u ∈ ulLists evs, u.1 ≠ '-' ∧ hit = (u.2.1, none) := by
  simp only [md004, List.mem_flatMap]
  constructor
  · rintro ⟨u, hu, hm⟩
    split at hm
    · simp at hm
    · rename_i h
      simp at hm
      exact ⟨u, hu, by simpa using h, hm⟩
  · rintro ⟨u, hu, hne, rfl⟩
    exact ⟨u, hu, by simp [hne]⟩

example : md004 {} [] [.open (.list false '+' 0) ⟨1, 1⟩, .open .item ⟨1, 1⟩, .close .item 1, .close (.list false '+' 0) 1,
                        .open (.list false '-' 0) ⟨2, 1⟩, .open .item ⟨2, 1⟩, .close .item 2, .close (.list false '-' 0) 2] = [(2, none)] := by decide
/-- `sublist`: each level has its own first bullet -/
example : md004 { style := .sublist } [] [.open (.list false '+' 0) ⟨1, 1⟩, .open .item ⟨1, 1⟩,
      .open (.list false '-' 0) ⟨2, 3⟩, .open .item ⟨2, 3⟩, .close .item 2, .close (.list false '-' 0) 2,
      .close .item 2, .close (.list false '+' 0) 2] = [] := by decide

/-- MD035 with a configured marker: exactly the thematic breaks whose text differs are reported. -/
theorem md035_fixed_iff (s : List Char) (ls : List Line) (evs : List Ev) (hit : Hit) :
    hit ∈ md035 { style := some s } ls evs ↔
      ∃ b ∈ blocks evs, isHrK b.k = true ∧ hrText ls b ≠ s ∧ hit = (b.line, none) := by
  simp only [md035, List.mem_flatMap, List.mem_filter]
  constructor
  · rintro ⟨b, ⟨hb, hk⟩, hm⟩
    split at hm
    · simp at hm
    · rename_i h
      simp at hm
      exact ⟨b, hb, hk, by simpa using h, hm⟩
  · rintro ⟨b, hb, hk, hne, rfl⟩
    exact ⟨b, ⟨hb, hk⟩, by simp [hne]⟩

example : md035 {} ["---".toList, [], "***".toList] [.leaf .tbreak ⟨1, 1⟩ 1 [], .leaf .tbreak ⟨3, 1⟩ 3 []] = [(3, none)] := by decide
example : md035 {} ["---".toList, [], "  ---".toList] [.leaf .tbreak ⟨1, 1⟩ 1 [], .leaf .tbreak ⟨3, 3⟩ 3 []] = [] := by decide

/-- MD031: the reports of a fenced code block. -/
theorem md031_iff (c : C031) (ls : List Line) (evs : List Ev) (hit : Hit) :
    hit ∈ md031 c ls evs ↔
      ∃ f ∈ fences ls (view ls evs).bs, (c.listItems = true ∨ directlyInItem f.b = false) ∧
        ((hit = (f.b.line, none) ∧ borderStart (view ls evs) f.b.stack f.b.line f.b.line > 1 ∧
            (view ls evs).above (some f.b.stack) (borderStart (view ls evs) f.b.stack f.b.line f.b.line) = 0) ∨
         (hit = (f.b.endLine, none) ∧ f.closed = true ∧ f.b.endLine < ls.length ∧
            (view ls evs).below (some f.b.stack) f.b.endLine = 0)) := by
  simp only [md031, List.mem_flatMap]
  constructor
  · rintro ⟨f, hf, hm⟩
    refine ⟨f, hf, ?_⟩
    split at hm
    · simp at hm
    · rename_i hli
      refine ⟨by cases hx : c.listItems <;> simp_all, ?_⟩
      rw [List.mem_append] at hm
      rcases hm with hm | hm
      · left
        split at hm
        · rename_i h
          simp at hm
          exact ⟨hm, by simpa using h⟩
        · simp at hm
      · right
        split at hm
        · rename_i h
          simp at hm
          exact ⟨hm, by simpa [and_assoc] using h⟩
        · simp at hm
  · rintro ⟨f, hf, hli, h⟩
    refine ⟨f, hf, ?_⟩
    have hli' : ¬ ((!c.listItems && directlyInItem f.b) = true) := by
      rcases hli with h1 | h1 <;> simp [h1]
    rw [if_neg hli', List.mem_append]
    rcases h with ⟨rfl, h1, h2⟩ | ⟨rfl, h1, h2, h3⟩
    · left; simp [h1, h2]
    · right; simp [h1, h2, h3]

example : md031 {} ["a".toList, "```".toList, "```".toList, "b".toList]
    [.leaf .para ⟨1, 1⟩ 1 [], .leaf (.fenced []) ⟨2, 1⟩ 3 [], .leaf .para ⟨4, 1⟩ 4 []] = [(2, none), (3, none)] := by decide
example : md031 {} ["a".toList, [], "```".toList, "```".toList, [], "b".toList]
    [.leaf .para ⟨1, 1⟩ 1 [], .leaf (.fenced []) ⟨3, 1⟩ 4 [], .leaf .para ⟨6, 1⟩ 6 []] = [] := by decide
/-- `list_items = false`: a fenced block directly in a list item is not reported -/
example : md031 { listItems := false } ["- a".toList, "  ```".toList, "  ```".toList, "  b".toList]
    [.open (.list false '-' 0) ⟨1, 1⟩, .open .item ⟨1, 1⟩, .leaf .para ⟨1, 3⟩ 1 [], .leaf (.fenced []) ⟨2, 3⟩ 3 [],
     .leaf .para ⟨4, 3⟩ 4 [], .close .item 4, .close (.list false '-' 0) 4] = [] := by decide

/-- MD032: lists nested directly in a list item are never reported. -/
theorem md032_nested_silent (ls : List Line) (evs : List Ev) (hit : Hit) (hm : hit ∈ md032 ls evs) :
    ∃ c ∈ (view ls evs).cs, isList c.k = true ∧ nestedInList c = false ∧ (hit = (c.line, none) ∨ hit = (c.endLine, none)) := by
  simp only [md032, List.mem_flatMap, List.mem_filter] at hm
  obtain ⟨c, ⟨hc, hk⟩, hm⟩ := hm
  simp only [Bool.and_eq_true, Bool.not_eq_true'] at hk
  refine ⟨c, hc, hk.1, hk.2, ?_⟩
  rw [List.mem_append] at hm
  rcases hm with hm | hm
  · left; split at hm <;> simp_all
  · right; split at hm <;> simp_all

example : md032 ["a".toList, "+ b".toList] [.leaf .para ⟨1, 1⟩ 1 [], .open (.list false '+' 0) ⟨2, 1⟩, .open .item ⟨2, 1⟩,
    .leaf .para ⟨2, 3⟩ 2 [], .close .item 2, .close (.list false '+' 0) 2] = [(2, none)] := by decide
example : md032 ["a".toList, [], "+ b".toList, [], "c".toList] [.leaf .para ⟨1, 1⟩ 1 [], .open (.list false '+' 0) ⟨3, 1⟩, .open .item ⟨3, 1⟩,
    .leaf .para ⟨3, 3⟩ 3 [], .close .item 3, .close (.list false '+' 0) 3, .leaf .para ⟨5, 1⟩ 5 []] = [] := by decide

/-! ### text predicates -/
/-- MD018: 1 to 6 hashes, directly followed by a character that is not a space or tab, and no closing hash. -/
theorem md018Text_iff (t : List Char) :
    md018Text t = true ↔
      1 ≤ countWhile (· == '#') t ∧ countWhile (· == '#') t ≤ 6 ∧
      (∃ ch, (t.drop (countWhile (· == '#') t)).head? = some ch ∧ isSpTab ch = false) ∧
      (rstripWs t).getLast? ≠ some '#' := by
  unfold md018Text
  simp only [Bool.and_eq_true, decide_eq_true_eq, bne_iff_ne, ne_eq, and_assoc]
  constructor
  · rintro ⟨h1, h2, h3, h4⟩
    refine ⟨h1, h2, ?_, h4⟩
    split at h3
    · rename_i c r heq
      exact ⟨c, by simp [heq], by simpa using h3⟩
    · simp at h3
  · rintro ⟨h1, h2, ⟨ch, h3, h3'⟩, h4⟩
    refine ⟨h1, h2, ?_, h4⟩
    split
    · rename_i c r heq
      simp [heq] at h3; subst h3; simp [h3']
    · rename_i heq
      simp [heq] at h3

example : md018Text "#Heading 1".toList = true := by decide
example : md018Text "# Heading 1".toList = false := by decide
example : md018Text "#######Heading 7".toList = false := by decide
example : md018Text "##".toList = false := by decide
example : md018Text "#Heading1#".toList = false := by decide

example : md019Text "#  Heading 1".toList 0 = true := by decide
example : md019Text "# Heading 1".toList 0 = false := by decide
example : md019Text "#\tHeading 1".toList 0 = true := by decide
example : md019Text "##    ".toList 0 = false := by decide

/-- MD026: the heading text ends (white space aside) with a configured punctuation character that is
    not the `;` of a character reference. -/
theorem md026Text_iff (c : C026) (t : List Char) :
    md026Text c t = true ↔
      ∃ ch, (rstripBy isWsChar t).getLast? = some ch ∧ ch ∈ c.punctuation ∧
        ¬ (ch = ';' ∧ endsWithEntity (rstripBy isWsChar t) = true) := by
  unfold md026Text
  simp only []
  split
  · rename_i ch h
    rw [h]
    simp only [Option.some.injEq, exists_eq_left']
    cases h1 : endsWithEntity (rstripBy isWsChar t) <;> by_cases h2 : ch = ';' <;> simp [h1, h2]
  · rename_i h
    rw [h]; simp

example : md026Text {} "This is a heading.".toList = true := by decide
example : md026Text {} "Is this is a heading?".toList = false := by decide
example : md026Text {} "This is a heading &#169;".toList = false := by decide
example : md026Text {} "This is a heading &#x000A9;".toList = false := by decide
example : md026Text {} "no entity;".toList = true := by decide
example : md026Text { punctuation := [] } "This is a heading.".toList = false := by decide

/-- MD042: a destination is empty iff, white space aside, it is nothing or a lone `#`. -/
example : emptyDest [] = true := by decide
example : emptyDest "#".toList = true := by decide
example : emptyDest " ".toList = true := by decide
example : emptyDest "a".toList = false := by decide
example : emptyDest "#in-same-document".toList = false := by decide

theorem md042_iff (ls : List Line) (evs : List Ev) (hit : Hit) :
    hit ∈ md042 ls evs ↔
      ∃ bi ∈ inlineBlocks evs, ∃ e ∈ bi.2,
        (∃ d t p, e = .openLink d t p ∧ emptyDest d = true ∧ hit = (p.line, none)) ∨
        (∃ d t p, e = .openImage d t p ∧ emptyDest d = true ∧ hit = (p.line, none)) := by
  simp only [md042, List.mem_flatMap]
  constructor
  · rintro ⟨bi, hbi, e, he, hm⟩
    refine ⟨bi, hbi, e, he, ?_⟩
    cases e <;> simp at hm
    case openLink d t p =>
      left; exact ⟨d, t, p, rfl, hm.1, hm.2⟩
    case openImage d t p =>
      right; exact ⟨d, t, p, rfl, hm.1, hm.2⟩
  · rintro ⟨bi, hbi, e, he, h⟩
    refine ⟨bi, hbi, e, he, ?_⟩
    rcases h with ⟨d, t, p, rfl, h1, rfl⟩ | ⟨d, t, p, rfl, h1, rfl⟩ <;> simp [h1]

/-- MD045: an image whose description is empty or white space is reported on its line -/
example : md045Go [.openImage "/url".toList none ⟨1, 1⟩, .closeImage] = [(1, none)] := by decide
example : md045Go [.openImage "/url".toList none ⟨1, 1⟩, .text " ".toList ⟨1, 3⟩, .closeImage] = [(1, none)] := by decide
example : md045Go [.openImage "/url".toList none ⟨1, 1⟩, .text "link".toList ⟨1, 3⟩, .closeImage] = [] := by decide

/-! ## (2) the faithful line rules = the documented conditions -/

private theorem flatMap_numbered_eq {α β γ : Type} (g : β → γ)
    (f : Nat × α → List β) (f' : Nat × α → List γ) (h : ∀ p, (f p).map g = f' p) (ls : List α) (n : Nat) :
    ((LineRules.numberedFrom n ls).flatMap f).map g = (RuleSpec.numberedFrom n ls).flatMap f' := by
  induction ls generalizing n with
  | nil => rfl
  | cons x xs ih =>
    simp only [LineRules.numberedFrom, RuleSpec.numberedFrom, List.flatMap_cons, List.map_append, h, ih]

/-- MD010, `code_blocks = true` (the default): the code-shaped scan (per tab: `len(detabify(line[:i])) + 1`)
    reports exactly the documented (line, column) pairs, whatever the token context. -/
theorem md010_faithful_eq_spec_default (ctx : Nat → LineRules.LCtx) (ls : List Line) (evs : List Ev) :
    (LineRules.scan010 { codeBlocks := true } ctx ls).map (fun p => (p.1, some p.2)) = md010 { codeBlocks := true } ls evs := by
  unfold LineRules.scan010 md010 perLine
  apply flatMap_numbered_eq
  intro p
  simp only [LineRules.scan010Line, LineRules.trig010, Bool.true_or, Bool.and_true, ↓reduceIte, List.map_map]
  split
  · rw [← LineRules.scan010_cols_eq]; simp [Function.comp]
  · rename_i h
    rw [LineRules.tabCols_nil_of_no_tab _ _ (by simpa using h)]; rfl

/-- MD010, any configuration: equality holds when the rule's notion "inside a fenced code block" is the
    documented notion "code block content line" on every line that has a tab. -/
theorem md010_faithful_eq_spec (cb : Bool) (ctx : Nat → LineRules.LCtx) (ls : List Line) (evs : List Ev)
    (hctx : ∀ i, (ctx i).inFencedInterior = inCodeContent (blocks evs) i) :
    (LineRules.scan010 { codeBlocks := cb } ctx ls).map (fun p => (p.1, some p.2)) = md010 { codeBlocks := cb } ls evs := by
  unfold LineRules.scan010 md010 perLine
  apply flatMap_numbered_eq
  intro p
  simp only [LineRules.scan010Line, LineRules.trig010, hctx, List.map_map]
  by_cases ht : p.2.contains '\t' = true
  · simp only [ht, Bool.true_and]
    split
    · rw [← LineRules.scan010_cols_eq]; simp [Function.comp]
    · rfl
  · have ht' : p.2.contains '\t' = false := by simpa using ht
    simp only [ht', Bool.false_and, Bool.false_eq_true, ↓reduceIte, List.map_nil]
    rw [LineRules.tabCols_nil_of_no_tab _ _ ht']
    split <;> rfl

/-- the excluded point (finding F-C06-md010:spurious): with `code_blocks = false` the rule still reports a tab in an INDENTED
    code block (its context only knows fenced blocks), the documented condition does not. -/
example : LineRules.scan010 { codeBlocks := false } (fun _ => {}) ["\tcode".toList] = [(1, 1)] ∧
    md010 { codeBlocks := false } ["\tcode".toList] [.leaf .indented ⟨1, 5⟩ 1 [⟨1, 4, "code".toList⟩]] = [] := by decide

/-- MD047: the code-shaped scan (remember the last line, report in `completed_file` if it is not empty)
    reports on the documented line. -/
theorem md047_faithful_eq_spec (ls : List Line) (evs : List Ev) :
    (LineRules.scan047 ls).toList.map (·.1) = (md047 ls evs).map (·.1) := by
  unfold LineRules.scan047 md047
  cases ls.getLast? with
  | none => rfl
  | some l => simp only; split <;> rfl

example : LineRules.scan047 ["a".toList, "bc".toList] = some (2, 2) := by decide

private theorem getLast?_space_iff (l : Line) : l.getLast? = some ' ' ↔ trailingSpaces l ≥ 1 := by
  unfold trailingSpaces
  rw [← List.head?_reverse]
  cases l.reverse with
  | nil => simp [LeanMark.countWhile]
  | cons c cs =>
    simp only [List.head?_cons, Option.some.injEq, LeanMark.countWhile]
    by_cases h : c = ' '
    · subst h; simp
    · simp [h]

/-- MD009 (partial): the code-shaped scan reports the documented lines PROVIDED
    (a) `list_item_empty_lines` is off, (b) `br_spaces ≠ 1`, (c) no line has a tab inside its trailing
    white space, and the rule's "current leaf token is a code block" is the documented "code block line".
    Each excluded point is a finding with a witness below. -/
theorem md009_faithful_eq_spec_partial (br : Nat) (strict : Bool) (ctx : Nat → LineRules.LCtx) (ls : List Line) (evs : List Ev)
    (hbr : br ≠ 1)
    (htab : ∀ l ∈ ls, LineRules.wsLen l = trailingSpaces l)
    (hctx : ∀ i, (ctx i).inCodeBlock = inCode (blocks evs) i) :
    (LineRules.scan009 { brSpaces := br, strict := strict, listItemEmptyLines := false } ctx ls).map (·.1) =
      (md009 { brSpaces := br, strict := strict, listItemEmptyLines := false } ls evs).map (·.1) := by
  unfold LineRules.scan009 md009 perLine
  have key : ∀ n, ((LineRules.numberedFrom n ls).flatMap (fun p =>
        match LineRules.scan009Line { brSpaces := br, strict := strict, listItemEmptyLines := false } (ctx p.1) p.2 with
        | some col => [(p.1, col)]
        | none => [])).map (·.1) =
      ((RuleSpec.numberedFrom n ls).flatMap (fun p =>
        if md009Line { brSpaces := br, strict := strict, listItemEmptyLines := false } ls (blocks evs) (conts evs) p.1 p.2 = true
        then [(p.1, (none : Option Nat))] else [])).map (·.1) := by
    suffices H : ∀ (ms : List Line), (∀ l ∈ ms, l ∈ ls) → ∀ n,
        ((LineRules.numberedFrom n ms).flatMap (fun p =>
          match LineRules.scan009Line { brSpaces := br, strict := strict, listItemEmptyLines := false } (ctx p.1) p.2 with
          | some col => [(p.1, col)]
          | none => [])).map (·.1) =
        ((RuleSpec.numberedFrom n ms).flatMap (fun p =>
          if md009Line { brSpaces := br, strict := strict, listItemEmptyLines := false } ls (blocks evs) (conts evs) p.1 p.2 = true
          then [(p.1, (none : Option Nat))] else [])).map (·.1) from H ls (fun _ h => h)
    intro ms
    induction ms with
    | nil => intro _ _; rfl
    | cons l ms ih =>
      intro hsub n
      simp only [LineRules.numberedFrom, RuleSpec.numberedFrom, List.flatMap_cons, List.map_append]
      rw [ih (fun x hx => hsub x (by simp [hx])) (n + 1)]
      congr 1
      -- one line
      have hw := htab l (hsub l (by simp))
      have heff : LineRules.effBr { brSpaces := br, strict := strict, listItemEmptyLines := false } = br := by
        unfold LineRules.effBr; simp only; split
        · omega
        · rfl
      have hsp := getLast?_space_iff l
      simp only [LineRules.scan009Line, LineRules.trig009, LineRules.listPart, heff, hctx, md009Line, hw,
        Bool.false_and, Bool.false_eq_true, ↓reduceIte, Bool.not_false, Bool.true_and, Option.isSome_none, Bool.or_false,
        Bool.and_true]
      by_cases hin : inCode (blocks evs) n = true
      · simp [hin]
      · have hin' : inCode (blocks evs) n = false := by simpa using hin
        by_cases hs : l.getLast? = some ' '
        · have h1 : trailingSpaces l ≥ 1 := hsp.1 hs
          have : (l.getLast? == some ' ') = true := by simp [hs]
          simp only [hin', this, Bool.not_false, Bool.true_and, decide_eq_true h1, Bool.and_true]
          by_cases hc : (trailingSpaces l != br || strict) = true
          · have hc' : (strict || trailingSpaces l != br) = true := by rw [Bool.or_comm]; exact hc
            simp [hc, hc']
          · have hc1 : (trailingSpaces l != br || strict) = false := by simpa using hc
            have hc' : (strict || trailingSpaces l != br) = false := by rw [Bool.or_comm]; exact hc1
            simp [hc1, hc']
        · have h1 : ¬ trailingSpaces l ≥ 1 := fun h => hs (hsp.2 h)
          have : (l.getLast? == some ' ') = false := by simpa using hs
          simp [this, h1]
  exact key 1

/-- excluded point (b): `br_spaces = 1` is read as 0 by the code (finding F-C06-md009:spurious, configuration br_spaces=1) -/
example : LineRules.scan009Line { brSpaces := 1 } {} "a ".toList = some 2 ∧
    md009Line { brSpaces := 1 } ["a ".toList] [] [] 1 "a ".toList = false := by decide
/-- excluded point (a): the page's own `list_item_empty_lines` example is reported by the code (it expects
    indent + br_spaces = 4 spaces) -/
example : LineRules.scan009Line { listItemEmptyLines := true } { listIndent := some 2 } "  ".toList = some 1 ∧
    md009 { listItemEmptyLines := true } ["- a list item".toList, "  ".toList, "  still the same item".toList]
      [.open (.list false '-' 0) ⟨1, 1⟩, .open .item ⟨1, 1⟩, .leaf .para ⟨1, 3⟩ 1 [], .leaf .para ⟨3, 3⟩ 3 [],
       .close .item 3, .close (.list false '-' 0) 3] = [] := by decide
/-- excluded point (c): a tab inside the trailing white space is counted as a space by the code -/
example : LineRules.scan009Line {} {} "c\t ".toList = none ∧ md009Line {} ["c\t ".toList] [] [] 1 "c\t ".toList = true := by decide

/-! ## (3) the line fixes -/

/-- H1 of C09, MD009: after the fix the rule has nothing left to do on the line (same token context). -/
theorem md009_fix_removes_own_trigger (c : LineRules.C009) (x : LineRules.LCtx) (l : Line) :
    LineRules.scan009Line c x (LineRules.fix009Line c x l) = none := by
  simp [LineRules.scan009Line, LineRules.trig009_fix009Line]

theorem md009_fix_idempotent (c : LineRules.C009) (x : LineRules.LCtx) (l : Line) :
    LineRules.fix009Line c x (LineRules.fix009Line c x l) = LineRules.fix009Line c x l :=
  LineRules.fix009Line_idem c x l

/-- C08, MD009: the characters that are not spaces or tabs, and their order, are unchanged. -/
theorem md009_fix_only_whitespace (c : LineRules.C009) (x : LineRules.LCtx) (l : Line) :
    (LineRules.fix009Line c x l).filter (fun ch => !LineRules.isWs ch) = l.filter (fun ch => !LineRules.isWs ch) :=
  LineRules.fix009Line_nonWs c x l

example : LineRules.fix009Line {} {} "a ".toList = "a".toList ∧ LineRules.fix009Line {} {} "a   ".toList = "a  ".toList ∧
    LineRules.fix009Line {} { isAtx := true } "# a   ".toList = "# a".toList := by decide

theorem md010_fix_removes_own_trigger (c : LineRules.C010) (x : LineRules.LCtx) (l : Line) :
    LineRules.scan010Line c x (LineRules.fix010Line c x l) = [] := by
  simp [LineRules.scan010Line, LineRules.trig010_fix010Line]

theorem md010_fix_idempotent (c : LineRules.C010) (x : LineRules.LCtx) (l : Line) :
    LineRules.fix010Line c x (LineRules.fix010Line c x l) = LineRules.fix010Line c x l :=
  LineRules.fix010Line_idem c x l

theorem md010_fix_only_whitespace (c : LineRules.C010) (x : LineRules.LCtx) (l : Line) :
    (LineRules.fix010Line c x l).filter (fun ch => !LineRules.isWs ch) = l.filter (fun ch => !LineRules.isWs ch) :=
  LineRules.fix010Line_nonWs c x l

example : LineRules.fix010Line {} {} "a\tb".toList = "a   b".toList := by decide

theorem md047_fix_removes_own_trigger (ls : List Line) : LineRules.scan047 (LineRules.fix047 ls) = none :=
  LineRules.scan047_fix047 ls

theorem md047_fix_idempotent (ls : List Line) : LineRules.fix047 (LineRules.fix047 ls) = LineRules.fix047 ls :=
  LineRules.fix047_idem ls

/-- C08, MD047: the fix leaves the document alone or appends one newline character (one empty line). -/
theorem md047_fix_only_newline (ls : List Line) :
    LineRules.fix047 ls = ls ∨ LineRules.fix047 ls = ls ++ [[]] := LineRules.fix047_only_newline ls

/-- the fix acts exactly when the scan reports — EXCEPT on the empty document, to which a newline is
    appended although the scan is silent (`last_line_fixed = ""` does not end with a newline). -/
theorem md047_fix_iff_scan (ls : List Line) (h : ls ≠ [[]]) :
    LineRules.fix047 ls = ls ↔ LineRules.scan047 ls = none := by
  constructor
  · intro e; rw [← e]; exact LineRules.scan047_fix047 ls
  · exact LineRules.fix047_of_clean ls h
example : LineRules.scan047 [[]] = none ∧ LineRules.fix047 [[]] = [[], []] := by decide

/-! ### pairwise (non-)interference of the MD009 / MD010 / MD047 fixes -/

/-- MD009 → MD010: the MD009 fix introduces no tab, so it creates no MD010 trigger. -/
theorem md009_fix_creates_no_md010 (c : LineRules.C009) (c10 : LineRules.C010) (x y : LineRules.LCtx) (l : Line)
    (h : LineRules.trig010 c10 y l = false) : LineRules.trig010 c10 y (LineRules.fix009Line c x l) = false := by
  unfold LineRules.trig010 at *
  by_cases ht : (LineRules.fix009Line c x l).contains '\t' = true
  · have hm : '\t' ∈ LineRules.fix009Line c x l := by simpa using ht
    rcases LineRules.mem_fix009Line c x l '\t' hm with h1 | h1
    · have : l.contains '\t' = true := by simpa using h1
      rw [this] at h; simp at h; simp [h]
    · exact absurd h1 (by decide)
  · have : (LineRules.fix009Line c x l).contains '\t' = false := by simpa using ht
    rw [this]; rfl

/-- MD010 → MD009: NOT non-interfering.  On a line ending in a tab the MD010 fix creates an MD009 trigger
    that was not there, and the two fixes do not commute (MD009 runs first in a pass, so one `fix` run
    leaves `a   `, which MD009 reports: two runs needed). -/
example : LineRules.scan009Line {} {} "a\t".toList = none ∧
    LineRules.scan009Line {} {} (LineRules.fix010Line {} {} "a\t".toList) = some 2 ∧
    LineRules.fix010Line {} {} (LineRules.fix009Line {} {} "a\t".toList) = "a   ".toList ∧
    LineRules.fix009Line {} {} (LineRules.fix010Line {} {} "a\t".toList) = "a  ".toList := by decide

/-- MD010 ↔ MD047: the MD010 fix commutes with the MD047 fix and creates no MD047 trigger. -/
theorem md010_md047_commute (c : LineRules.C010) (ctx : Nat → LineRules.LCtx) (ls : List Line) :
    LineRules.fix010 c ctx (LineRules.fix047 ls) = LineRules.fix047 (LineRules.fix010 c ctx ls) := by
  rw [LineRules.fix010_eq_mapLines, LineRules.fix010_eq_mapLines]
  exact LineRules.fix047_mapLines _ (fun i l => LineRules.fix010Line_eq_nil c (ctx i) l) ls

theorem md010_fix_creates_no_md047 (c : LineRules.C010) (ctx : Nat → LineRules.LCtx) (ls : List Line)
    (h : LineRules.scan047 ls = none) : LineRules.scan047 (LineRules.fix010 c ctx ls) = none := by
  rw [LineRules.fix010_eq_mapLines]
  exact LineRules.scan047_mapLines _ (fun i => (LineRules.fix010Line_eq_nil c (ctx i) []).2 rfl) ls h

/-- MD009 → MD047: the MD009 fix creates no MD047 trigger (an empty last line stays empty) … -/
theorem md009_fix_creates_no_md047 (c : LineRules.C009) (ctx : Nat → LineRules.LCtx) (ls : List Line)
    (h : LineRules.scan047 ls = none) : LineRules.scan047 (LineRules.fix009 c ctx ls) = none := by
  rw [LineRules.fix009_eq_mapLines]
  exact LineRules.scan047_mapLines _ (fun i => LineRules.fix009Line_nil c (ctx i)) ls h

/-- … but the two fixes do NOT commute: MD009 can empty a white-space-only last line, which removes the
    MD047 trigger (`"a\n "`: MD009 then MD047 gives `"a\n"`, MD047 then MD009 gives `"a\n\n"`; the real
    pass order is the first). -/
example : LineRules.fix047 (LineRules.fix009 {} (fun _ => {}) ["a".toList, " ".toList]) = ["a".toList, []] ∧
    LineRules.fix009 {} (fun _ => {}) (LineRules.fix047 ["a".toList, " ".toList]) = ["a".toList, [], []] := by decide

/-- MD047 → MD009 / MD010: the appended line is empty and triggers neither. -/
theorem md047_fix_creates_no_md009_md010 (c : LineRules.C009) (c10 : LineRules.C010) (x : LineRules.LCtx) :
    LineRules.scan009Line c x [] = none ∧ LineRules.scan010Line c10 x [] = [] := by
  simp [LineRules.scan009Line, LineRules.trig009, LineRules.scan010Line, LineRules.trig010]

/-! ### MD012, code-shaped scan -/
/-- MD012: the code-shaped scan (blank-line counter, last blank-line token, adjacency test on line numbers,
    check on every other token and in `completed_file`) run on the token stream of a document given by
    its blank / non-blank lines reports exactly the LAST line of every maximal run of more than `maximum`
    blank lines — the documented reading (`runs012`), for every document and every maximum. -/
theorem md012_faithful_eq_runs (max : Nat) (blank : List Bool) :
    LineRules.scan012 max (LineRules.toks012 1 blank) = LineRules.runs012 max 1 blank :=
  LineRules.scan012_eq_runs max blank

example : LineRules.runs012 1 1 [false, true, true, false, true, false, true, true, true] = [3, 9] := by
  rw [← md012_faithful_eq_runs]; decide
example : LineRules.scan012 1 (LineRules.toks012 1 [false, true, true, false, true, false, true, true, true]) = [3, 9] := by decide

example : LineRules.scan012 1 [.other, .blank 2, .blank 3, .other] = [3] := by decide
/-- an end-of-block-quote token between two blank lines splits the run (the documented per-scope runs) -/
example : LineRules.scan012 1 [.other, .blank 2, .other, .blank 3] = [] := by decide
example : LineRules.scan012 0 [.blank 1] = [1] := by decide

end Verif.Props.C06
