/-
  RegenLeaf, second part: statements the first part (`Props/RegenLeaf`) left as assumptions.

  fence_close_no_colon          a line the modelled closing-fence recogniser accepts has no `:` (≤ 3 columns of white space,
                                fence characters `~` / `` ` ``, trailing spaces / tabs)
  regen_leaf_roundtrip_fence    `regen_leaf_roundtrip` without the hypothesis "no `:` in the closing fence line"
  regen_icode_roundtrip_partial the indented code block without blank lines and without tabs: block pass (`icodeLine`) + coalescing
                                pass (`Coalesce.coalesce`) + regenerator give back the lines; `regen_icode_closed`: the block
                                composes with the other leaf blocks (`closed_append`)
-/
import Verif.Props.RegenLeaf
import Verif.Props.C02
import Verif.Lemmas.RegenLeafFence2
import Verif.Lemmas.RegenLeafIcode2
import Verif.Props.LeafBlocks2
namespace Verif.Props.RegenLeaf2
open Verif.Model Verif.Model.RegenLeaf Verif.Model.RegenLeafSpec Verif.Lemmas.RegenLeaf Verif.Props.RegenLeaf
open Verif.Model.Codec (Str plain SENT_START SENT_END stripSentinels)
open Verif.Model.Lines (splitOn joinOn splitNL joinNL NL)

/-! ## the closing fence line -/

/-- **fence_close_no_colon**: a line accepted by the modelled closing-fence recogniser (`__check_for_fenced_end`, for ANY open
fence `(fc, fn)`) is: white space of width ≤ 3, a run of ≥ `fn` fence characters, the fence character being `~` or `` ` ``,
then spaces / tabs up to the end of the line.  Hence it holds no `:` — so `extra_end_data.split(":")` in
`__rehydrate_fenced_code_block_end` always yields exactly two parts. -/
theorem fence_close_no_colon (line : Str) (fc : Char) (fn : Nat) (h : LeafFields.lineFenceClose line fc fn = .ok true) :
    ∃ f, LeafFields.fieldsFenceClose line fc fn = .ok (some f) ∧
      line = f.lead ++ List.replicate f.count fc ++ f.trail ∧
      (∀ x ∈ f.lead, x = ' ' ∨ x = '\t') ∧ Recognisers.lenLe f.lead 3 = true ∧ (fc = '~' ∨ fc = '`') ∧ fn ≤ f.count ∧
      (∀ x ∈ f.trail, x = ' ' ∨ x = '\t') ∧ ':' ∉ line := by
  obtain ⟨f, hf, hr⟩ := Verif.Props.C02.fence_close_fields line fc fn h
  obtain ⟨h1, h2, h3, h4, h5⟩ := LeafFields.fieldsFenceClose_shape line fc fn f hf
  have hws : ∀ x, Recognisers.isWsChar x = true → x = ' ' ∨ x = '\t' := by
    intro x hx
    simpa [Recognisers.isWsChar, Recognisers.SP, Recognisers.TAB] using hx
  refine ⟨f, hf, hr.symm, fun x hx => hws x (h1 x hx), h2, h3, h4, fun x hx => hws x (h5 x hx), ?_⟩
  intro hm
  have := LeafFields.fieldsFenceClose_no_colon line fc fn f hf
  have hc : line.contains ':' = true := by simpa using hm
  rw [this] at hc; cases hc

/-- the hypothesis is met by a real closing line (indented, longer than the opening fence, trailing spaces) -/
example : LeafFields.lineFenceClose " ~~~~ ".toList '~' 3 = .ok true := by
  open Verif.Model.Recognisers Verif.Model.LeafFields in
  simp [lineFenceClose, isFenceClose, onlySpacesAfterFence, Except.map, leadWs_eq, isFencedCodeBlock, collectWhileCharVerified_eq, extractAsciiWs_eq,
    extractSpacesVerified, extractSpaces_eq, scanTo, Verif.Model.Recognisers.slice, charAt, isCharAtOneOf, lenLe, Verif.Model.Recognisers.calcLength, tabStep,
    asciiWs, isWsChar, Verif.Model.Recognisers.SP, Verif.Model.Recognisers.TAB]

/-! ## the round trip without the `:` hypothesis -/

/-- `Leaf.ok` without its clause "no `:` in the closing fence line" -/
def okNoColon : Leaf → Bool
  | .fence o body _ => (match LeafFields.fieldsFenceOpen o with
      | .ok (some f) => !f.info.isEmpty || f.wsBeforeInfo.isEmpty
      | _ => false) &&
      (match body with
       | none => true
       | some (ew, tt) => plain ew && plain tt)
  | b => b.ok

/-- for a block whose lines the recognisers accept, the dropped clause follows -/
theorem ok_of_okNoColon (b : Leaf) (t : List Tok) (ht : b.toks = some t) (h : okNoColon b = true) : b.ok = true := by
  cases b with
  | fence o body c =>
    simp only [okNoColon, Bool.and_eq_true] at h
    simp only [Leaf.toks] at ht
    cases hf : LeafFields.fieldsFenceOpen o with
    | error e => rw [hf] at ht; cases ht
    | ok fo =>
      cases fo with
      | none => rw [hf] at ht; cases ht
      | some f =>
        rw [hf] at ht h
        simp only at ht h
        cases hg : LeafFields.fieldsFenceClose c f.char f.count with
        | error e => rw [hg] at ht; cases ht
        | ok go =>
          cases go with
          | none => rw [hg] at ht; cases ht
          | some g =>
            have hnc := LeafFields.fieldsFenceClose_no_colon c f.char f.count g hg
            simp only [Leaf.ok, hf, hnc, Bool.and_eq_true, Bool.not_false, and_true]
            exact h
  | blank l => exact h
  | thematic l => exact h
  | atx l => exact h
  | para i ls => exact h
  | setext ls u => exact h

/-- **regen_leaf_roundtrip_fence** — `regen_leaf_roundtrip` with the assumption on the closing fence line PROVED instead of
assumed.  A document that is a sequence of leaf blocks (blank line, thematic break, ATX heading, paragraph, setext heading,
closed fenced code block with plain one-token content) whose lines the modelled recognisers accept (`docToks doc = some toks`:
the token stream is what the block pass stores for the lines), plain text pieces (`okNoColon`: no in-band marker character,
opening fence not of the F-FENCE-TRAILWS shape, setext middle lines not of the F-SETEXT-TRAILWS shape) and no logger sentinel:
regenerating the stream gives back the lines joined by newlines.  Nothing is asked of the closing fence line beyond being
accepted by `fieldsFenceClose` for the fence that is open. -/
theorem regen_leaf_roundtrip_fence (doc : List Leaf) (toks : List Tok) (hne : doc ≠ []) (ht : docToks doc = some toks)
    (hok : ∀ b ∈ doc, okNoColon b = true) (hs : ∀ b ∈ doc, ∀ l ∈ b.lines, sentFree l = true) :
    transform toks = .ok (joinNL (doc.flatMap Leaf.lines)) :=
  regen_leaf_roundtrip doc toks hne ht
    (fun b hb => by
      obtain ⟨t, htb⟩ := docToks_mem doc toks ht b hb
      exact ok_of_okNoColon b t htb (hok b hb)) hs

/-- the single closed fenced block, spelled out: opening line `o` accepted with fields `f` (info string present or no white
space after the fence), closing line `c` accepted for that fence, content one plain text token -/
theorem regen_fence_roundtrip (o c : Str) (body : Option (Str × Str)) (toks : List Tok)
    (ht : (Leaf.fence o body c).toks = some toks) (hok : okNoColon (.fence o body c) = true)
    (hs : ∀ l ∈ (Leaf.fence o body c).lines, sentFree l = true) :
    transform toks = .ok (joinNL (Leaf.fence o body c).lines) := by
  have := regen_leaf_roundtrip_fence [.fence o body c] toks (by simp) (by simp [docToks, ht])
    (fun b hb => by simp at hb; subst hb; exact hok) (fun b hb => by simp at hb; subst hb; exact hs)
  simpa using this

/-- non-vacuity (compiler-evaluated, as in `Props/RegenLeaf`: the recognisers use well-founded recursion) -/
def exampleFence : List Leaf := [.fence "``` py".toList (some ([], "a\nb".toList)) "````  ".toList, .blank []]
#guard exampleFence.all okNoColon
#guard (docToks exampleFence).isSome
#guard (exampleFence.all fun b => b.lines.all sentFree)
#guard (docToks exampleFence).map transform == some (.ok "``` py\na\nb\n````  \n".toList)


/-! ## the indented code block (no blank lines, no tabs) -/

open Verif.Model.LeafBlocks2 (icodeLine IcodeOut)
open Verif.Model.Recognisers (SP TAB isWsChar)

/-- first-pass text tokens of the lines after the opening line (`parse_indented_code_block` inside the block) -/
def icodeLater : List Str → Option (List Coalesce.Tok)
  | [] => some []
  | l :: ls =>
    match icodeLine l true false, icodeLater ls with
    | .ok (some ⟨none, e, t⟩), some r => some (.text (mkText t e) :: r)
    | _, _ => none

/-- the first-pass token list of an indented code block given by its lines: `icode-block`, one text token per line,
`end-icode-block` (a token the coalescing pass leaves alone) -/
def icodeFirstPass : List Str → Option (List Coalesce.Tok)
  | [] => none
  | l0 :: rest =>
    match icodeLine l0 false false, icodeLater rest with
    | .ok (some ⟨some w, e, t⟩), some r => some (.icode w [] 0 :: .text (mkText t e) :: (r ++ [.other 0]))
    | _, _ => none

/-- the coalesced list as regenerator tokens (the fields the handlers read) -/
def icodeRegen : List Coalesce.Tok → Option (List Tok)
  | [.icode ew ind _, .text x, .other _] => some [.icode ew ind, .text x.tt x.ew x.endWs, .endIcode]
  | _ => none

/-- the token stream of the block: block pass (`LeafBlocks2.icodeLine`, line by line), then the modelled coalescing pass
(`Coalesce.coalesce`, not text-only), read as regenerator tokens.  (Both passes are tied to the real code by their own blocks;
the hand-over between them — one first-pass text token per line, fields `token_text` / `extracted_whitespace` — is this
definition; compared with the real parser on `"      a b\n    c\n       d e"` and `"    a\n     b"` by hand.) -/
def icodeToks (lines : List Str) : Option (List Tok) :=
  match icodeFirstPass lines with
  | none => none
  | some fp =>
    match Coalesce.coalesce false fp with
    | .error _ => none
    | .ok l => icodeRegen l

/-- a line of the form `k` spaces, a character that is not white space, anything -/
structure CLine where
  k : Nat
  d : Char
  rest : Str
  deriving Repr

def CLine.src (l : CLine) : Str := List.replicate l.k SP ++ l.d :: l.rest

/-- the side conditions: at least four spaces, then a non-white-space character; no tab; it is ONE line; no in-band marker
character (the codec's subject) -/
def CLine.ok (l : CLine) : Bool :=
  decide (4 ≤ l.k) && !isWsChar l.d && !l.src.contains TAB && !l.src.contains NL && plain l.src

theorem CLine.ok_iff (l : CLine) : l.ok = true ↔ 4 ≤ l.k ∧ isWsChar l.d = false ∧ TAB ∉ l.src ∧ NL ∉ l.src ∧ plain l.src = true := by
  simp [CLine.ok, and_assoc]

theorem icodeLater_eq : ∀ (ls : List CLine), (∀ l ∈ ls, l.ok = true) →
    icodeLater (ls.map CLine.src) = some (ls.map fun l => .text (mkText (l.d :: l.rest) (List.replicate l.k SP)))
  | [], _ => rfl
  | l :: ls, h => by
    obtain ⟨h4, hd, ht, _, _⟩ := (CLine.ok_iff l).mp (h l (by simp))
    have := Verif.Props.LeafBlocks2.icodeLine_notab l.k h4 l.d l.rest hd ht true
    simp only [if_true] at this
    rw [List.map_cons, icodeLater, CLine.src, this, icodeLater_eq ls (fun y hy => h y (by simp [hy]))]
    rfl

/-- the tokens of the block, field by field: the block token holds the first four spaces of every line (`extracted_whitespace`
for the first, `indented_whitespace` for the others), the text token the other spaces of the first line
(`extracted_whitespace`) and, joined by newlines, the first line's text and the other lines minus four spaces -/
theorem icodeToks_eq (l0 : CLine) (ls : List CLine) (hok : ∀ l ∈ l0 :: ls, l.ok = true) :
    icodeToks ((l0 :: ls).map CLine.src) = some
      [.icode (List.replicate 4 SP) (ls.map fun _ => NL :: List.replicate 4 SP).flatten,
       .text ((l0.d :: l0.rest) ++ (ls.map fun l => NL :: (List.replicate (l.k - 4) SP ++ l.d :: l.rest)).flatten)
         (List.replicate (l0.k - 4) SP) none,
       .endIcode] := by
  obtain ⟨h4, hd, ht, _, _⟩ := (CLine.ok_iff l0).mp (hok l0 (by simp))
  have h0 := Verif.Props.LeafBlocks2.icodeLine_notab l0.k h4 l0.d l0.rest hd ht false
  simp only [Bool.false_eq_true, if_false] at h0
  have hl := icodeLater_eq ls (fun y hy => hok y (by simp [hy]))
  have hloop := loop_icode (ls.map fun l => (l.k, l.d :: l.rest)) (mkText (l0.d :: l0.rest) (List.replicate (l0.k - 4) SP)) [] rfl
    (by
      intro p hp
      simp only [List.mem_map] at hp
      obtain ⟨y, hy, rfl⟩ := hp
      exact ((CLine.ok_iff y).mp (hok y (by simp [hy]))).1)
  simp only [List.map_map, Function.comp_def, List.nil_append] at hloop
  unfold icodeToks
  rw [List.map_cons, icodeFirstPass, CLine.src, h0, hl]
  simp only
  unfold Coalesce.coalesce Coalesce.merge
  simp only [Coalesce.loop, Coalesce.step, Bool.not_false, Bool.false_eq_true, if_false, if_true]
  rw [hloop]
  simp [Coalesce.calcFinal, Coalesce.Tok.isPara, icodeRegen, mkText]

/-- **regen_icode_closed**: the tokens of an indented code block (no blank lines, no tabs, plain) form a closed block of the
regenerator that writes the lines, each followed by a newline — so the block composes with every other closed block
(`regen_blocks_compose`), whatever stands before and behind it. -/
theorem regen_icode_closed (l0 : CLine) (ls : List CLine) (hok : ∀ l ∈ l0 :: ls, l.ok = true) :
    ∃ toks, icodeToks ((l0 :: ls).map CLine.src) = some toks ∧ Closed toks (terminated ((l0 :: ls).map CLine.src)) := by
  refine ⟨_, icodeToks_eq l0 ls hok, ?_⟩
  have hk : ∀ p ∈ ls.map (fun l => (l.k, l.d :: l.rest)), 4 ≤ p.1 := by
    intro p hp
    simp only [List.mem_map] at hp
    obtain ⟨y, hy, rfl⟩ := hp
    exact ((CLine.ok_iff y).mp (hok y (by simp [hy]))).1
  have hz := zipWith_icode l0.k (l0.d :: l0.rest) (ls.map fun l => (l.k, l.d :: l.rest)) hk
  simp only [List.map_map, Function.comp_def] at hz
  obtain ⟨h4, _, _, hn0, hp0⟩ := (CLine.ok_iff l0).mp (hok l0 (by simp))
  have hsp : ∀ n, NL ∉ List.replicate n SP := fun n hm => absurd (List.mem_replicate.mp hm).2 (by decide)
  have hspl : ∀ n, plain (List.replicate n SP) = true := by
    intro n; simp only [plain, List.all_eq_true]; intro c hc; rw [(List.mem_replicate.mp hc).2]; decide
  have hbody : ∀ l : CLine, NL ∉ l.src → NL ∉ l.d :: l.rest := fun l h hm => h (by simp only [CLine.src, List.mem_append]; exact Or.inr hm)
  have hpb : ∀ l : CLine, plain l.src = true → plain (l.d :: l.rest) = true := by
    intro l h; simp only [CLine.src, plain, List.all_append, Bool.and_eq_true] at h; exact h.2
  have hcl := closed_icode (List.replicate 4 SP) (ls.map fun _ => NL :: List.replicate 4 SP).flatten (List.replicate (l0.k - 4) SP)
    ((l0.d :: l0.rest) ++ (ls.map fun l => NL :: (List.replicate (l.k - 4) SP ++ l.d :: l.rest)).flatten)
    (List.replicate l0.k SP :: ls.map fun _ => List.replicate 4 SP)
    ((l0.d :: l0.rest) :: ls.map fun l => List.replicate (l.k - 4) SP ++ l.d :: l.rest)
    (by
      rw [joinNL_cons_flatten, List.replicate_append_replicate, show 4 + (l0.k - 4) = l0.k by omega]
      simp [List.map_map, Function.comp_def])
    (by rw [joinNL_cons_flatten]; simp [List.map_map, Function.comp_def])
    (by simp) (by simp)
    (by
      intro w hw
      simp only [List.mem_cons, List.mem_map] at hw
      rcases hw with rfl | ⟨_, _, rfl⟩ <;> exact hsp _)
    (by
      intro t ht
      simp only [List.mem_cons, List.mem_map] at ht
      rcases ht with rfl | ⟨y, hy, rfl⟩
      · exact hbody l0 hn0
      · have hy' := (CLine.ok_iff y).mp (hok y (by simp [hy]))
        intro hm
        rcases List.mem_append.mp hm with hm | hm
        · exact hsp _ hm
        · exact hbody y hy'.2.2.2.1 hm)
    (by
      simp only [plain, List.all_append, List.all_flatten, List.all_map, Bool.and_eq_true, List.all_eq_true]
      refine ⟨by have := hpb l0 hp0; simpa [plain] using this, ?_⟩
      intro y hy
      have hy' := (CLine.ok_iff y).mp (hok y (by simp [hy]))
      have h1 := hpb y hy'.2.2.2.2
      have h2 := hspl (y.k - 4)
      simp only [plain, List.all_eq_true] at h1 h2
      simp only [Function.comp, List.all_cons, List.all_append, Bool.and_eq_true, List.all_eq_true]
      exact ⟨by decide, h2, h1 _ (by simp), fun x hx => h1 x (by simp [hx])⟩)
    (hspl _)
  rw [hz] at hcl
  exact hcl

/-- **regen_icode_roundtrip_partial** (document level).  A document that is one indented code block — lines `l₀ … lₙ`, each
`k ≥ 4` spaces, a character that is not white space, the rest of the line; no tab, no in-band marker character, no logger
sentinel — tokenised by the block pass and the coalescing pass (`icodeToks`) regenerates to itself:
`TransformToMarkdown().transform(tokens) == "l₀\n…\nlₙ"`.
Full statement (not proved): the same for every run of lines the block pass puts into one indented code block.  Excluded
here: blank lines inside the block (stored with the no-op marker `\x03` and per-line `indented_whitespace`: the tie of
`regenleaflib` / `coalescelib` covers them), lines with tabs (`icodeLine` splits the tab through `recalcWs`; executable
witnesses in `Props/LeafBlocks2`), marker characters (the codec's theorems, `Props/C02`), the sentinels (F-THORN,
`regen_roundtrip_excluded_sentinel`). -/
theorem regen_icode_roundtrip_partial (l0 : CLine) (ls : List CLine) (hok : ∀ l ∈ l0 :: ls, l.ok = true)
    (hs : ∀ l ∈ l0 :: ls, sentFree l.src = true) :
    ∃ toks, icodeToks ((l0 :: ls).map CLine.src) = some toks ∧ transform toks = .ok (joinNL ((l0 :: ls).map CLine.src)) := by
  obtain ⟨toks, ht, hcl⟩ := regen_icode_closed l0 ls hok
  refine ⟨toks, ht, ?_⟩
  have hte := icodeToks_eq l0 ls hok
  rw [ht] at hte
  simp only [Option.some.injEq] at hte
  rw [terminated_eq _ (by simp)] at hcl
  have hends : EndsPlain toks := by
    intro t h
    rw [hte] at h
    simp at h; subst h
    exact ⟨rfl, fun _ h => by cases h⟩
  rw [transform_of_closed toks _ hcl (by rw [hte]; simp) hends]
  rw [stripSentinels_sentFree _ (sentFree_joinNL _ (by
    intro x hx
    simp only [List.mem_map] at hx
    obtain ⟨y, hy, rfl⟩ := hx
    exact hs y hy))]

/-- the hypotheses are met by a three-line block with extra indentation (kernel-checked) … -/
example : ∀ l ∈ [(⟨6, 'a', " b".toList⟩ : CLine), ⟨4, 'c', []⟩, ⟨7, 'd', " e".toList⟩], l.ok = true ∧ sentFree l.src = true := by decide

/-- … and the conclusion, evaluated by the compiler on the same block: the fields are those the real parser stores
(`[icode-block(1,5):    :\n    \n    ]`, `[text(1,5):a b\nc\n   d e:  ]`) -/
def exampleIcode : List Str := ["      a b".toList, "    c".toList, "       d e".toList]
#guard icodeToks exampleIcode == some [.icode "    ".toList "\n    \n    ".toList, .text "a b\nc\n   d e".toList "  ".toList none, .endIcode]
#guard (icodeToks exampleIcode).map transform == some (.ok "      a b\n    c\n       d e".toList)

end Verif.Props.RegenLeaf2
