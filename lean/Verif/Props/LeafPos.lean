/-
  Positions of leaf-block tokens are true (serves C05) — extends the leaf-field theorems of Props/C02.lean.

  Setting: the block pass expands the tabs of the physical line once (`D`), the containers consume `indent` characters of it,
  the leaf processors see `L` (`D = P ++ L`, `P.length = indent`; pymarkdown asserts this itself, `ContainerBlockLeafProcessor.__val`).
  For every line a leaf recogniser accepts, with ANY `indent`, the column the faithful model (Verif/Model/LeafPos.lean) gives the
  token is the 1-based position, in the tab-expanded line, of the element's own opening character, and does not exceed the length
  of that line.  `opener_is_source_char` brings the statement back to the physical line.
  Tie: tools/leafposlib.py (driver `leafpos`).
-/
import Verif.Lemmas.LeafPos
namespace Verif.Props.LeafPos
open Verif.Model.Recognisers Verif.Model.LeafPos Verif.Lemmas.LeafPos

deriving instance DecidableEq for Except

/-- the common shape of the conclusions: `p` is on line `n`, and in `P ++ L` its column holds a character satisfying `ok` -/
def PointsAt (p : Pos) (n : Nat) (P L : Str) (ok : Char → Prop) : Prop :=
  p.line = n ∧ 1 ≤ p.col ∧ p.col ≤ (P ++ L).length ∧ ∃ c, (P ++ L)[p.col - 1]? = some c ∧ ok c

theorem pointsAt_of (n indent : Nat) (P L : Str) (hP : P.length = indent) (c : Char) (ok : Char → Prop)
    (hc : L[(leadWs L).1]? = some c) (hok : ok c) :
    PointsAt (mk (tokenPos (leafMarker n indent L).1)) n P L ok := by
  have hlt : (leadWs L).1 < L.length := by
    rcases Nat.lt_or_ge (leadWs L).1 L.length with h | h
    · exact h
    · rw [List.getElem?_eq_none h] at hc; cases hc
  refine ⟨rfl, by simp [mk, tokenPos], ?_, c, ?_, hok⟩
  · simp only [mk, tokenPos, leafMarker, List.length_append]; omega
  · simp only [mk, tokenPos, leafMarker, Nat.add_sub_cancel]
    rw [← hP, get_append_indent]; exact hc

/-- **atx_pos_true**: the ATX heading token's column points at the first `#` of the opening sequence. -/
theorem atx_pos_true (n indent : Nat) (phys L : Str) (p : Pos) (h : atxPos n indent phys L = .ok (some p))
    (P : Str) (hP : P.length = indent) : PointsAt p n P L (· = '#') := by
  unfold atxPos at h
  simp only at h
  split at h
  · cases h
  · cases h
  · next r hr =>
    cases h
    exact pointsAt_of n indent P L hP '#' _ (atx_char _ _ _ _ r hr) rfl

#guard decide (atxPos 7 2 "> ## a".toList "## a".toList = .ok (some ⟨7, 3, none⟩))
#guard decide (atxPos 1 2 ">     # a".toList "    # a".toList = .ok (some ⟨1, 7, none⟩))   -- the C03 finding: still points at `#`

/-- **thematic_pos_true**: the thematic-break token's column points at the first break character. -/
theorem thematic_pos_true (n indent : Nat) (phys L : Str) (p : Pos) (h : thematicPos n indent phys L = .ok (some p))
    (P : Str) (hP : P.length = indent) : PointsAt p n P L (· ∈ ['*', '_', '-']) := by
  unfold thematicPos at h
  simp only at h
  split at h
  · cases h
  · cases h
  · next r hr =>
    cases h
    have := thematic_char _ _ _ _ _ r hr
    exact pointsAt_of n indent P L hP r.1 _ this.1 this.2

#guard decide (thematicPos 3 3 "1.  * * *".toList " * * *".toList = .ok (some ⟨3, 5, none⟩))

/-- **fence_pos_true**: the fenced-code-block token's column points at the first fence character. -/
theorem fence_pos_true (n indent : Nat) (phys L : Str) (p : Pos) (h : fenceOpenPos n indent phys L = .ok (some p))
    (P : Str) (hP : P.length = indent) : PointsAt p n P L (· ∈ ['~', '`']) := by
  unfold fenceOpenPos at h
  simp only at h
  split at h
  · cases h
  · cases h
  · next hr =>
    cases h
    obtain ⟨c, hc1, hc2⟩ := fenceOpen_char _ _ _ hr
    exact pointsAt_of n indent P L hP c _ hc1 hc2

#guard decide (fenceOpenPos 2 2 "-   ~~~ py".toList "  ~~~ py".toList = .ok (some ⟨2, 5, none⟩))

/-- **setext_pos_true**: the setext heading token is created on the underline; its column points at the first underline
character, and `original_line_number` / `original_column_number` are the position of the paragraph token it replaces. -/
theorem setext_pos_true (n indent : Nat) (L : Str) (para : Nat × Nat) (p : Pos)
    (h : setextPos n indent L para = .ok (some p)) (P : Str) (hP : P.length = indent) :
    PointsAt p n P L (· ∈ ['-', '=']) ∧ p.orig = some para := by
  unfold setextPos at h
  simp only at h
  split at h
  · cases h
  · cases h
  · next hr =>
    cases h
    obtain ⟨c, hc1, hc2⟩ := setext_char _ _ _ hr
    exact ⟨pointsAt_of n indent P L hP c _ hc1 hc2, rfl⟩

#guard decide (setextPos 2 2 "  ===".toList (1, 3) = .ok (some ⟨2, 5, some (1, 3)⟩))

/-- **paragraph_pos_true**: the paragraph token's column points at the first character of the line that is not a space or tab. -/
theorem paragraph_pos_true (n indent : Nat) (L : Str) (p : Pos) (h : paraPos n indent L = some p)
    (P : Str) (hP : P.length = indent) : PointsAt p n P L (fun c => isWsChar c = false) := by
  unfold paraPos at h
  simp only at h
  split at h
  · next hlt =>
    cases h
    simp only [leafMarker] at hlt
    have hc : L[(leadWs L).1]? = some L[(leadWs L).1] := List.getElem?_eq_getElem hlt
    exact pointsAt_of n indent P L hP _ _ hc (leadWs_next L _ hc)
  · cases h

#guard decide (paraPos 1 4 "  a".toList = some ⟨1, 7, none⟩)

/-- **indented_pos_true_partial**: the indented-code-block token's column points right behind four columns of indentation
(`L` starts with four spaces and the column is the fifth character of `L`), provided `L` is part of a tab-expanded line (no tab) and
is not blank.  The block pass is meant to keep blank lines away from the leaf processors; `indented_pos_excluded` shows it does not. -/
theorem indented_pos_true_partial (n indent : Nat) (L : Str) (removed : Nat) (inPara : Bool) (p : Pos)
    (h : icodePos n indent L removed inPara = some p) (hnt : TAB ∉ L) (hnb : (leadWs L).1 < L.length)
    (P : Str) (hP : P.length = indent) :
    p.line = n ∧ p.col = indent + 5 ∧ p.col ≤ (P ++ L).length ∧ L.take 4 = [SP, SP, SP, SP] ∧ (P ++ L)[p.col - 1]? = L[4]? := by
  unfold icodePos at h
  by_cases hc : (Nat.ble 4 (calcLength (leadWs L).2 removed) && !inPara) = true
  · rw [if_pos hc] at h
    cases h
    simp only [Bool.and_eq_true, Nat.ble_eq] at hc
    have hws : TAB ∉ (leadWs L).2 := by
      rw [← leadWs_take]; exact fun hm => hnt (List.mem_of_mem_take hm)
    have h4 : 4 ≤ (leadWs L).1 := by
      have := hc.1
      rw [calcLength_no_tab _ _ hws, leadWs_len] at this; exact this
    have hsp : ∀ x ∈ (leadWs L).2, x = SP := by
      intro x hx
      have h1 := leadWs_ws L x hx
      have h2 : x ≠ TAB := fun e => hws (e ▸ hx)
      simp only [isWsChar, Bool.or_eq_true, beq_iff_eq] at h1
      rcases h1 with h1 | h1
      · exact h1
      · exact absurd h1 h2
    refine ⟨rfl, by simp only [leadWs_len]; omega, ?_, ?_, ?_⟩
    · simp only [leadWs_len, List.length_append]; omega
    · have ht : L.take 4 = (leadWs L).2.take 4 := by
        rw [← leadWs_take, List.take_take]; congr 1; omega
      rw [ht]
      have hl : ((leadWs L).2.take 4).length = 4 := by rw [List.length_take, leadWs_len]; omega
      have hall : ∀ x ∈ (leadWs L).2.take 4, x = SP := fun x hx => hsp x (List.mem_of_mem_take hx)
      rw [List.eq_replicate_of_mem hall, hl]; rfl
    · simp only [leadWs_len]
      have : (leadWs L).1 + indent - (leadWs L).1 + 1 + 4 - 1 = 4 + P.length := by omega
      rw [this, get_append_indent]
  · rw [if_neg hc] at h; cases h

#guard decide (icodePos 1 2 "    a".toList 0 false = some ⟨1, 7, none⟩)

/-- the excluded point is real in the model: a blank `L` of four spaces gets an indented-code token whose column (indent + 5) lies
beyond the end of the line.  The real block pass reaches it on the documents `-     `, `*     `, `1.     ` (list marker, five spaces):
the token is `icode-block(1,7)` / `(1,8)` on a line of 6 / 7 characters (tools/leafposlib.py reports them as failing inputs). -/
theorem indented_pos_excluded :
    icodePos 1 3 "    ".toList 0 false = some ⟨1, 8, none⟩ ∧ ("1. ".toList ++ "    ".toList).length = 7 := by
  simp only [icodePos, leadWs_eq]
  decide

/-- what the leaf phase sees is the tab expansion of the physical line (CommonMark 2.2 tab stops), which contains no tab -/
theorem leafView_spec (orig : Str) (indent : Nat) :
    leafView orig indent = .ok (expandTabs 0 orig, (expandTabs 0 orig).drop indent) ∧ TAB ∉ (expandTabs 0 orig).drop indent :=
  ⟨leafView_eq orig indent, fun h => expandTabs_no_tab orig 0 (List.mem_of_mem_drop h)⟩

/-- **opener_is_source_char**: a character of the tab-expanded line that is not a space — every opener above is one — is a character
of the PHYSICAL line, and the column the token carries is that character's visual column (1 + the width of what precedes it). -/
theorem opener_is_source_char (orig : Str) (col : Nat) (c : Char) (hcol : 1 ≤ col)
    (h : (expandTabs 0 orig)[col - 1]? = some c) (hc : c ≠ SP) :
    ∃ k, orig[k]? = some c ∧ (expandTabs 0 (orig.take k)).length + 1 = col := by
  obtain ⟨k, h1, h2⟩ := expandTabs_source orig 0 (col - 1) c h hc
  exact ⟨k, h1, by omega⟩

/-- the two together, for ATX: physical line `orig`, `indent` characters of its expansion consumed by containers -/
theorem atx_pos_source (n indent : Nat) (orig : Str) (p : Pos) (hi : indent ≤ (expandTabs 0 orig).length)
    (h : atxPos n indent orig ((expandTabs 0 orig).drop indent) = .ok (some p)) :
    p.line = n ∧ ∃ k, orig[k]? = some '#' ∧ (expandTabs 0 (orig.take k)).length + 1 = p.col := by
  have hP : ((expandTabs 0 orig).take indent).length = indent := by rw [List.length_take]; omega
  obtain ⟨h1, h2, _, c, h4, h5⟩ := atx_pos_true n indent orig _ p h ((expandTabs 0 orig).take indent) hP
  rw [List.take_append_drop] at h4
  subst h5
  exact ⟨h1, opener_is_source_char orig p.col '#' h2 h4 (by decide)⟩

#guard decide (atxPos 1 2 ">\t# a".toList ((expandTabs 0 ">\t# a".toList).drop 2) = .ok (some ⟨1, 5, none⟩))

end Verif.Props.LeafPos
