import Verif.Props.ScanRules
import Verif.Lemmas.ScanRules.MD022Closed
import Verif.Lemmas.ScanRules.Reads2
/-!
  ScanRules1b — statements the ScanRules block left open (NOTES-ScanRules.md, "Unfinished").

  1. `md042_faithful_eq_spec_stream`, `md045_faithful_eq_spec_stream`, `md041_faithful_eq_spec_stream`: the `faithful = RuleSpec condition`
     theorems at STREAM level — for every token stream, the report list of the faithful scan equals the report list the
     `Model/RuleSpec` condition gives on the element list extracted from the stream by an explicit function (`elems042`, `elems045`,
     `elems041`), outside the proved witness classes (`md042_stream_differs` U+00A0, `md045_stream_differs` U+000B,
     `md041_h1_differs` `<H1>`; new for MD041: `md041_empty_differs`, `md041_front_matter_differs`, `md041_h1_trailing_differs`).
  2. MD026: `md026_faithful_eq_spec_exact` (an IFF: what exactly has to be excluded), `md026_faithful_eq_spec` (weakened hypothesis),
     `md026_differs` (the witness).
  3. MD022: `md022_above_closed_form` (stream level, the counts in closed form), `md022_verdict_closed_form` (one heading, no recursive
     notion at all), `md022_closed_form_excluded` (why "no container" is needed).
  4. `md041_scan_reads_exact`, `md036_scan_reads_exact`: C12 without the over-approximation of `PosEq`.
-/
namespace Verif.Props.ScanRules
open Verif.Model.ScanRules
open Verif.Model

/-- reports of a filter over a stream = reports of a condition over the extracted elements, when extraction and condition agree
    token by token -/
theorem filter_eq_elems {ε : Type} (p : Tok → Bool) (f : Tok → Option ε) (q : ε → Bool) (r : ε → Report) (ts : List Tok)
    (h : ∀ t ∈ ts, match f t with
      | none => p t = false
      | some e => p t = q e ∧ reportAt t = r e) :
    (ts.filter p).map (reportAt ·) = (ts.filterMap f).flatMap (fun e => if q e then [r e] else []) := by
  induction ts with
  | nil => rfl
  | cons t ts ih =>
    have ih' := ih (fun u hu => h u (List.mem_cons_of_mem _ hu))
    have ht := h t (List.mem_cons_self ..)
    simp only [List.filter_cons, List.filterMap_cons]
    cases hf : f t with
    | none => rw [hf] at ht; simp only [ht]; simpa using ih'
    | some e =>
      rw [hf] at ht
      obtain ⟨h1, h2⟩ := ht
      simp only [List.flatMap_cons, h1]
      cases q e
      · simpa using ih'
      · simp [ih', h2]

/-! ## MD042 at stream level -/

/-- an element of a stream as the reference conditions of MD042 / MD045 see it: a string (destination / alternate text) and where
    the element starts -/
structure Elem where
  str : Str
  line : Int
  col : Int
  deriving DecidableEq, Repr

/-- the links and images of a stream, in order, with their destination -/
def elems042 (ts : List Tok) : List Elem :=
  ts.filterMap (fun t => if t.kind == .link || t.kind == .image then some ⟨t.uri, t.line, t.col⟩ else none)

/-- the reference condition of MD042 (`RuleSpec.emptyDest`, the predicate `RuleSpec.md042` applies to every link / image opener)
    on an element list: one report per element whose destination is empty, at the element's start -/
def spec042 (es : List Elem) : List Report :=
  es.flatMap (fun e => if RuleSpec.emptyDest e.str then [⟨e.line, e.col, none, 0⟩] else [])

/-- MD042, stream level: when every character the reference counts as white space in a destination is ASCII white space, the report
    list of the faithful scan IS the reference condition on the stream's links and images.  (Outside: `md042_differs`, U+00A0.) -/
theorem md042_faithful_eq_spec_stream (ts : List Tok)
    (h : ∀ t ∈ ts, t.kind = .link ∨ t.kind = .image → ∀ ch ∈ t.uri, LeanMark.isUniWs ch = isAsciiWs ch) :
    scan md042 () ts = .ok (spec042 (elems042 ts)) := by
  rw [md042_scan_iff]
  congr 1
  refine filter_eq_elems trig042 _ (fun e : Elem => RuleSpec.emptyDest e.str) (fun e : Elem => ⟨e.line, e.col, none, 0⟩) ts (fun t ht => ?_)
  by_cases hk : (t.kind == .link || t.kind == .image) = true
  · have hk' : t.kind = .link ∨ t.kind = .image := by simpa using hk
    have hp := md042_pred t.uri (h t ht hk')
    simp only [if_pos hk]
    refine ⟨?_, rfl⟩
    unfold trig042; rw [hk]; simpa using hp
  · simp only [if_neg hk]
    unfold trig042; simp only [Bool.not_eq_true] at hk; rw [hk]; rfl

/-- the hypothesis holds of a concrete non-trivial stream, and the conclusion computes: `[a]( # )` reported, `[b](/u)` not -/
example : let ts : List Tok := [{ kind := .para, line := 1, col := 1 }, { kind := .link, uri := " # ".toList, line := 1, col := 1 },
      { kind := .link, uri := "/u".toList, line := 1, col := 9 }, { kind := .image, line := 2, col := 3 }]
    (∀ t ∈ ts, t.kind = .link ∨ t.kind = .image → ∀ ch ∈ t.uri, LeanMark.isUniWs ch = isAsciiWs ch) ∧
    spec042 (elems042 ts) = [⟨1, 1, none, 0⟩, ⟨2, 3, none, 0⟩] := by
  refine ⟨by decide, by decide⟩

/-- the excluded class at stream level: on `[a](#<U+00A0>)` the faithful scan reports nothing, the reference condition reports the link -/
theorem md042_stream_differs :
    scan md042 () [{ kind := .link, uri := ['#', '\u00a0'], line := 1, col := 1 }] = .ok [] ∧
    spec042 (elems042 [{ kind := .link, uri := ['#', '\u00a0'], line := 1, col := 1 }]) = [⟨1, 1, none, 0⟩] := by
  refine ⟨by decide, by decide⟩

/-! ## MD045 at stream level -/

/-- the images of a stream, in order, with their alternate text -/
def elems045 (ts : List Tok) : List Elem :=
  ts.filterMap (fun t => if t.kind == .image then some ⟨t.alt, t.line, t.col⟩ else none)

/-- the reference condition of MD045 (`alt.all isUniWs`, what `RuleSpec.md045Go` tests at every image opener) on an element list -/
def spec045 (es : List Elem) : List Report :=
  es.flatMap (fun e => if e.str.all LeanMark.isUniWs then [⟨e.line, e.col, none, 0⟩] else [])

/-- MD045, stream level: when no alternate text contains a vertical tab, the report list of the faithful scan IS the reference
    condition on the stream's images.  (Outside: `md045_differs`, U+000B.) -/
theorem md045_faithful_eq_spec_stream (ts : List Tok)
    (h : ∀ t ∈ ts, t.kind = .image → ∀ ch ∈ t.alt, ch ≠ '\x0b') :
    scan md045 () ts = .ok (spec045 (elems045 ts)) := by
  rw [md045_scan_iff]
  congr 1
  refine filter_eq_elems trig045 _ (fun e : Elem => e.str.all LeanMark.isUniWs) (fun e : Elem => ⟨e.line, e.col, none, 0⟩) ts (fun t ht => ?_)
  by_cases hk : (t.kind == .image) = true
  · have hk' : t.kind = .image := by simpa using hk
    have hp := md045_pred t.alt (h t ht hk')
    simp only [if_pos hk]
    refine ⟨?_, rfl⟩
    unfold trig045; rw [hk]; simpa using hp
  · simp only [if_neg hk]
    unfold trig045; simp only [Bool.not_eq_true] at hk; rw [hk]; rfl

example : let ts : List Tok := [{ kind := .image, alt := " \u00a0".toList, line := 1, col := 1 }, { kind := .link, line := 1, col := 5 },
      { kind := .image, alt := "x".toList, line := 2, col := 3 }]
    (∀ t ∈ ts, t.kind = .image → ∀ ch ∈ t.alt, ch ≠ '\x0b') ∧ spec045 (elems045 ts) = [⟨1, 1, none, 0⟩] := by
  refine ⟨by decide, by decide⟩

/-- the excluded class at stream level: `![\x0b](/u)` -/
theorem md045_stream_differs :
    scan md045 () [{ kind := .image, alt := ['\x0b'], line := 1, col := 1 }] = .ok [] ∧
    spec045 (elems045 [{ kind := .image, alt := ['\x0b'], line := 1, col := 1 }]) = [⟨1, 1, none, 0⟩] := by
  refine ⟨by decide, by decide⟩

/-! ## MD041 at stream level -/

/-- the first element of a stream (the argument starts at the first token that is no blank line), as the event `RuleSpec.md041` judges:
    a heading with its level (SetExt: start = original position, end line = the token's line, where the marker is), an HTML block with
    the text of the token that follows it as first payload line, anything else as a leaf without payload -/
def firstEv041 : List Tok → List LeanMark.Ev
  | [] => []
  | d :: rest =>
    if d.isHeading then
      [.leaf (.heading d.hashCount.toNat (d.kind == .setext))
        (if d.kind == .setext then ⟨d.oline.toNat, d.ocol.toNat⟩ else ⟨d.line.toNat, d.col.toNat⟩) d.line.toNat []]
    else if d.kind == .html then
      [.leaf .html ⟨d.line.toNat, d.col.toNat⟩ d.line.toNat
        (match rest with
         | x :: _ => [⟨x.line.toNat, 0, x.text⟩]
         | [] => [])]
    else [.leaf .para ⟨d.line.toNat, d.col.toNat⟩ d.line.toNat []]

/-- the element list MD041's reference condition is applied to -/
def elems041 (ts : List Tok) : List LeanMark.Ev := firstEv041 (ts.dropWhile (fun t => t.kind == .blank))

theorem dropWhile_congr_mem {α : Type} (p q : α → Bool) : ∀ (l : List α), (∀ x ∈ l, p x = q x) → l.dropWhile p = l.dropWhile q := by
  intro l
  induction l with
  | nil => intro _; rfl
  | cons a as ih =>
    intro h
    have ha := h a (List.mem_cons_self ..)
    simp only [List.dropWhile_cons, ha]
    cases q a
    · rfl
    · simpa using ih (fun x hx => h x (List.mem_cons_of_mem _ hx))

theorem dropWhile_nil_all {α : Type} (p : α → Bool) : ∀ (l : List α), l.dropWhile p = [] → ∀ x ∈ l, p x = true := by
  intro l
  induction l with
  | nil => intro _ x hx; cases hx
  | cons a as ih =>
    intro h x hx
    by_cases ha : p a = true
    · rw [List.dropWhile_cons_of_pos ha] at h
      rcases List.mem_cons.mp hx with e | e
      · rw [e]; exact ha
      · exact ih h x e
    · rw [List.dropWhile_cons_of_neg ha] at h; cases h

/-- MD041, stream level.  For every stream without front matter whose HTML block starts are followed by their text token (true of
    every parsed stream), that has an element at all, whose positions and levels are natural numbers, and where the rule's and the
    reference's `h1` predicates agree on the text of an HTML block (they differ on `<H1>`: `md041_h1_differs`, and on `<h1 ` before the
    end of the text: `md041_h1_trailing_differs`): the lines the faithful scan reports are the lines `RuleSpec.md041` reports on the
    extracted element list.  Outside: `md041_empty_differs` (no element: the reference reports the last line, the rule nothing —
    on a parsed stream the end-of-stream token is the "first element", F-BLANKDOC), `md041_front_matter_differs`. -/
theorem md041_faithful_eq_spec_stream (c : C041) (cr : RuleSpec.C041) (hc : c.level = (cr.level : Int)) (ts : List Tok)
    (ls : List LeanMark.Line)
    (hfm : ∀ t ∈ ts, t.kind ≠ .frontMatter)
    (hG : ∀ (a : List Tok) (h : Tok) (b : List Tok), ts = a ++ h :: b → h.kind = .html → ∃ x b', b = x :: b' ∧ x.kind = .text)
    (hne : ∃ t ∈ ts, t.kind ≠ .blank)
    (hnat : ∀ t ∈ ts, 0 ≤ t.line ∧ 0 ≤ t.hashCount)
    (hH : ∀ (a : List Tok) (h x : Tok) (b : List Tok), ts = a ++ h :: x :: b → h.kind = .html →
      startsH1 x.text = RuleSpec.startsWithH1 (LeanMark.lstripWs x.text)) :
    ∃ rs, scan md041 c ts = .ok rs ∧
      rs.map (·.line) = (RuleSpec.md041 cr ls (elems041 ts)).map (fun x => (x.1 : Int)) := by
  refine ⟨_, md041_scan_iff c ts (fun a h x b e hk => ?_), ?_⟩
  · obtain ⟨x', b', e', hx⟩ := hG a h (x :: b) e hk
    cases e'; exact hx
  have hdw : ts.dropWhile (skip041 c) = ts.dropWhile (fun t => t.kind == .blank) :=
    dropWhile_congr_mem _ _ ts (fun t ht => by
      have := hfm t ht
      unfold skip041; simp [this])
  unfold elems041
  rw [hdw]
  have hsplit := List.takeWhile_append_dropWhile (p := fun t : Tok => t.kind == .blank) (l := ts)
  generalize ts.takeWhile (fun t => t.kind == .blank) = pre at hsplit
  cases hd : ts.dropWhile (fun t => t.kind == .blank) with
  | nil =>
    exfalso
    obtain ⟨t, ht, hb⟩ := hne
    have := dropWhile_nil_all _ ts hd t ht
    simp at this; exact hb this
  | cons d rest =>
    rw [hd] at hsplit
    have hmem : d ∈ ts := by rw [← hsplit]; simp
    obtain ⟨hl, hh⟩ := hnat d hmem
    have hfd := hfm d hmem
    have el : ((d.line.toNat : Nat) : Int) = d.line := Int.toNat_of_nonneg hl
    have eh : ((d.hashCount.toNat : Nat) : Int) = d.hashCount := Int.toNat_of_nonneg hh
    unfold firstEv041 verdict041
    by_cases h1 : d.isHeading = true
    · simp only [h1, if_true, RuleSpec.md041]
      have e2 : (if (d.kind == Kind.setext) = true then d.line.toNat
          else (if (d.kind == Kind.setext) = true then (⟨d.oline.toNat, d.ocol.toNat⟩ : LeanMark.Pos)
            else ⟨d.line.toNat, d.col.toNat⟩).line) = d.line.toNat := by
        cases (d.kind == Kind.setext) <;> rfl
      rw [e2]
      by_cases h2 : d.hashCount = c.level
      · have : d.hashCount.toNat = cr.level := by omega
        rw [this]; simp [h2]
      · have : ¬ d.hashCount.toNat = cr.level := by omega
        simp [h2, this, reportAt, el]
    · have h1' : d.isHeading = false := by simpa using h1
      by_cases h2 : d.kind = .html
      · obtain ⟨x, b', eb, hx⟩ := hG pre d rest hsplit.symm h2
        subst eb
        have hp := hH pre d x b' hsplit.symm h2
        simp only [h1', h2, hfd, RuleSpec.md041]
        simp only [beq_self_eq_true, if_true]
        rw [hp]
        cases hb : RuleSpec.startsWithH1 (LeanMark.lstripWs x.text) <;> simp [hb, reportAt, el]
      · simp [h1', h2, hfd, RuleSpec.md041, reportAt, el]

/-- all hypotheses hold of a concrete stream (blank line, HTML block `<h1>x</h1>`, paragraph), and the two sides compute (no report) -/
example : let ts : List Tok := [{ kind := .blank, line := 1, col := 1 }, { kind := .html, line := 2, col := 1 },
      { kind := .text, text := "<h1>x</h1>".toList, line := 2, col := 1 }, { kind := .leafEnd }, { kind := .para, line := 4, col := 1 }]
    (∃ t ∈ ts, t.kind ≠ .blank) ∧ (∀ t ∈ ts, t.kind ≠ .frontMatter) ∧ (∀ t ∈ ts, 0 ≤ t.line ∧ 0 ≤ t.hashCount) ∧
    startsH1 "<h1>x</h1>".toList = RuleSpec.startsWithH1 (LeanMark.lstripWs "<h1>x</h1>".toList) ∧
    scan md041 {} ts = .ok [] ∧ RuleSpec.md041 {} [] (elems041 ts) = [] := by
  refine ⟨by decide, by decide, by decide, by decide, by decide, by decide⟩

/-- a level-2 SetExt heading first: both sides report the line of the token (the marker line) -/
example : let ts : List Tok := [{ kind := .setext, hashCount := 2, line := 2, col := 1, oline := 1, ocol := 1 }, { kind := .text }, { kind := .setextEnd }]
    scan md041 {} ts = .ok [⟨2, 1, none, 0⟩] ∧ RuleSpec.md041 {} [] (elems041 ts) = [(2, none)] := by
  refine ⟨by decide, by decide⟩

/-- excluded class 1: a stream without any element (only blank lines): the rule reports nothing, the reference the last line.
    (A parsed stream ends with the end-of-stream token, which the rule takes for the first element: F-BLANKDOC.) -/
theorem md041_empty_differs (ls : List LeanMark.Line) :
    scan md041 {} [{ kind := .blank, line := 1, col := 1 }] = .ok [] ∧
    RuleSpec.md041 {} ls (elems041 [{ kind := .blank, line := 1, col := 1 }]) = [(ls.length, none)] := by
  refine ⟨by decide, rfl⟩

/-- excluded class 2: front matter with the title key counts as the title for the rule; the reference has no front matter and
    judges the element the extraction gives (any leaf that is no heading: reported) -/
theorem md041_front_matter_differs :
    scan md041 {} [{ kind := .frontMatter, keys := ["title".toList], line := 1, col := 1 }, { kind := .para, line := 5, col := 1 }] = .ok [] ∧
    RuleSpec.md041 {} [] (elems041 [{ kind := .frontMatter, keys := ["title".toList], line := 1, col := 1 }, { kind := .para, line := 5, col := 1 }])
      = [(1, none)] := by
  refine ⟨by decide, by decide⟩

/-- excluded class 3 (new): `<h1 ` at the very end of the block's text — the rule strips the trailing space first and then looks for
    `<h1 ` / `<h1>`, so it reports; the reference accepts `<h1` followed by a space -/
theorem md041_h1_trailing_differs : startsH1 "<h1 ".toList = false ∧
    RuleSpec.startsWithH1 (LeanMark.lstripWs "<h1 ".toList) = true := by
  refine ⟨by decide, by decide⟩

/-! ## MD026: what the hypothesis of `md026_faithful_eq_spec_partial` really has to exclude -/

/-- the rule's verdict on the text run `txt` before a heading's end (`cond026`: last character in `punctuation`) -/
def verdict026 (c : C026) (txt : Str) : Bool :=
  match txt.getLast? with
  | some ch => c.punctuation.contains ch
  | none => false

/-- MD026, exact: when the text run the rule looks at is the reference's heading text without trailing white space, the two verdicts
    are the same EXACTLY when it is not the case that the text ends in `;`, `;` is a configured punctuation character and that `;`
    closes a character reference.  (`md026_faithful_eq_spec_partial` assumed "does not end in a character reference" outright; the
    hypothesis is needed only for a final `;` that is configured.) -/
theorem md026_faithful_eq_spec_exact (c : C026) (cr : RuleSpec.C026) (hp : c.punctuation = cr.punctuation) (txt raw : Str)
    (h1 : txt = LeanMark.rstripBy LeanMark.isWsChar raw) :
    (verdict026 c txt = RuleSpec.md026Text cr raw) ↔
      ¬ (txt.getLast? = some ';' ∧ c.punctuation.contains ';' = true ∧ RuleSpec.endsWithEntity txt = true) := by
  unfold RuleSpec.md026Text verdict026
  rw [← h1, ← hp]
  simp only []
  cases hl : txt.getLast? with
  | none => simp
  | some ch =>
    by_cases hch : ch = ';'
    · subst hch
      cases hP : c.punctuation.contains ';' <;> cases hE : RuleSpec.endsWithEntity txt <;>
        (have hP' := hP; simp at hP'; simp [hP'])
    · have : (ch == ';') = false := by simpa using hch
      simp [this, hch]

/-- the weakened hypothesis, as a theorem of the same shape as the `_partial` one: nothing is asked of a text that does not end in
    `;`, nor when `;` is not configured -/
theorem md026_faithful_eq_spec (c : C026) (cr : RuleSpec.C026) (hp : c.punctuation = cr.punctuation) (txt raw : Str)
    (h1 : txt = LeanMark.rstripBy LeanMark.isWsChar raw)
    (h2 : txt.getLast? = some ';' → c.punctuation.contains ';' = true → RuleSpec.endsWithEntity txt = false) :
    verdict026 c txt = RuleSpec.md026Text cr raw :=
  (md026_faithful_eq_spec_exact c cr hp txt raw h1).mpr (fun ⟨a, b, e⟩ => by rw [h2 a b] at e; cases e)

/-- the hypotheses on a concrete heading text: `Heading.  ` (reported by both) -/
example : let raw := "Heading.  ".toList; let txt := "Heading.".toList
    txt = LeanMark.rstripBy LeanMark.isWsChar raw ∧
    (txt.getLast? = some ';' → ({} : C026).punctuation.contains ';' = true → RuleSpec.endsWithEntity txt = false) ∧
    verdict026 {} txt = true := by
  refine ⟨by decide, fun h => by revert h; decide, by decide⟩

/-- the witness the block's author did not find: on the text `a&#33;` (the same string on both sides, no trailing white space) the
    rule's last-character test fires, the reference's does not (the `;` closes a character reference).  This is a difference of the
    two CONDITIONS on equal strings; on a parsed stream the text token of a resolved reference ends in the parser's replacement
    marker, not in `;` (see `md026_marker_silent`). -/
theorem md026_differs :
    "a&#33;".toList = LeanMark.rstripBy LeanMark.isWsChar "a&#33;".toList ∧
    verdict026 {} "a&#33;".toList = true ∧ RuleSpec.md026Text {} "a&#33;".toList = false := by
  refine ⟨by decide, by decide, by decide⟩

/-- a text run that ends in a character outside `punctuation` (such as the marker `\a` the parser puts after a resolved character
    reference) is never reported by the rule -/
theorem md026_marker_silent (c : C026) (txt : Str) (m : Char) (hm : c.punctuation.contains m = false) :
    verdict026 c (txt ++ [m]) = false := by
  unfold verdict026; have hm' := hm; simp at hm'; simp [hm']

/-- `verdict026` is the condition `cond026` uses (so the theorems above speak about the scan through `md026_scan_iff`) -/
theorem cond026_eq_verdict026 (c : C026) (seen : List Tok) (t : Tok) (h : Tok) (inner : List Tok) (ht : t.isHeadingEnd = true)
    (ho : openHeading seen = some (h, inner)) (hv : verdict026 c (trailingText inner) = false) : cond026 c seen t = [] := by
  unfold cond026; unfold verdict026 at hv
  simp only [ht, if_true, ho]
  cases hl : (trailingText inner).getLast? with
  | none => rfl
  | some ch => rw [hl] at hv; simp only [] at hv; have hv' := hv; simp at hv'; simp [hv']

/-! ## MD022 without containers: the counts in closed form -/

/-- the position MD022 reports a heading at -/
def pos022 (h : Tok) : Int × Int := if h.kind = .setext then (h.oline, h.ocol) else (h.line, h.col)

/-- `cond022` with the two counts in closed form: `blanksBack` = the number of blank line tokens back to the latest token that sets
    the count, `known022` = that token is the end of a leaf block, a thematic break or a link reference definition.
    "Above" is reported iff the count before the heading is known and differs from `lines_above`; "Below" iff the number of blank
    lines since the heading's end differs from `lines_below`. -/
def closed022 (c : C022) (seen : List Tok) (t : Tok) : List Report :=
  match pend022 seen.reverse with
  | some (h, beforeH) =>
    if ended022 seen.reverse && !transparent022 t seen.reverse then
      (if known022 beforeH && decide ((blanksBack beforeH : Int) ≠ c.above) then
        [⟨(pos022 h).1, (pos022 h).2, some (extra022 c.above (blanksBack beforeH) "Above"), 0⟩] else []) ++
      (if decide ((blanksBack seen.reverse : Int) ≠ c.below) then
        [⟨(pos022 h).1, (pos022 h).2, some (extra022 c.below (blanksBack seen.reverse) "Below"), 0⟩] else [])
    else []
  | none => []

theorem cond022_eq_closed (c : C022) (seen : List Tok) (t : Tok) (hf : flat022 seen.reverse = true) :
    cond022 c seen t = closed022 c seen t := by
  unfold cond022 closed022
  cases hp : pend022 seen.reverse with
  | none => rfl
  | some q =>
    obtain ⟨h, beforeH⟩ := q
    simp only []
    by_cases hv : (ended022 seen.reverse && !transparent022 t seen.reverse) = true
    · rw [if_pos hv, if_pos hv]
      have he : ended022 seen.reverse = true := by
        simp only [Bool.and_eq_true] at hv; exact hv.1
      have hge := pend022_ended_cnt seen.reverse _ hp he
      obtain ⟨a, ea⟩ := pend022_suffix seen.reverse h beforeH hp
      have hfb : flat022 beforeH = true := by
        have := flat022_suffix (a ++ [h]) beforeH (by rw [List.append_assoc]; simpa [← ea] using hf)
        exact this
      have e1 := cnt022_closed seen.reverse hf
      have e2 := cnt022_closed beforeH hfb
      have hk : known022 seen.reverse = true := by
        cases hk : known022 seen.reverse
        · rw [hk] at e1; simp only [Bool.false_eq_true, if_false] at e1; omega
        · rfl
      rw [hk] at e1; simp only [if_true] at e1
      rw [e1, e2]
      unfold reports022 pos022
      have hb : (blanksBack beforeH : Int) ≥ 0 := Int.natCast_nonneg _
      cases hkb : known022 beforeH
      · simp
      · by_cases hab : (blanksBack beforeH : Int) = c.above
        · simp [hab]
        · have : ¬ ((blanksBack beforeH : Int) = -1 ∨ (blanksBack beforeH : Int) = c.above) := by
            intro h; rcases h with h | h
            · omega
            · exact hab h
          simp [hab, this]
    · rw [if_neg hv, if_neg hv]

theorem flatMap_congr_mem {α β : Type} (f g : α → List β) : ∀ (l : List α), (∀ a ∈ l, f a = g a) → l.flatMap f = l.flatMap g := by
  intro l
  induction l with
  | nil => intro _; rfl
  | cons a as ih =>
    intro h
    simp only [List.flatMap_cons, h a (List.mem_cons_self ..), ih (fun x hx => h x (List.mem_cons_of_mem _ hx))]

/-- MD022, closed form for streams without container tokens (`flat022`: no end of a list or block quote, and blank line tokens that
    follow each other are on consecutive lines).  The rule reports, at the first token after a heading's end that is not a blank line:
    "Above" iff the last count-setting token before the heading start is the end of a leaf block / a thematic break / a definition
    AND the number of blank line tokens between it and the heading differs from `lines_above`; "Below" iff the number of blank line
    tokens since the heading's end differs from `lines_below`.  (`pend022` / `ended022` only say WHICH heading waits; the counts are
    the closed `blanksBack`.) -/
theorem md022_above_closed_form (c : C022) (toks : List Tok) (hflat : flat022 toks.reverse = true) :
    scan md022 c toks = .ok (byPrefix (closed022 c) [] toks) := by
  rw [md022_scan_iff]
  congr 1
  unfold byPrefix
  apply flatMap_congr_mem
  intro p hpm
  obtain ⟨pre, t⟩ := p
  obtain ⟨a, b, e, hpre⟩ := (mem_splits toks [] pre t).mp hpm
  rw [List.nil_append] at hpre
  rw [hpre]
  apply cond022_eq_closed
  apply flat022_suffix (b.reverse ++ [t]) a.reverse
  rw [e] at hflat
  simpa using hflat

/-- non-vacuity + test: `para`, end, ONE blank line, `# h` with `lines_above = 2`, end, no blank line, `para`: the stream is flat,
    and the heading is reported twice at the paragraph start that follows it (Above: 1 instead of 2; Below: 0 instead of 1) -/
example : let toks : List Tok := [{ kind := .para, line := 1, col := 1 }, { kind := .text }, { kind := .paraEnd }, { kind := .blank, line := 2 },
      { kind := .atx, hashCount := 1, line := 3, col := 1 }, { kind := .text }, { kind := .atxEnd }, { kind := .para, line := 4, col := 1 }]
    flat022 toks.reverse = true ∧
    byPrefix (closed022 { above := 2 }) [] toks =
      [⟨3, 1, some "Expected: 2; Actual: 1; Above".toList, 0⟩, ⟨3, 1, some "Expected: 1; Actual: 0; Below".toList, 0⟩] := by
  refine ⟨by decide, by decide⟩

/-- the hypothesis is needed: with a block quote's `>`-only line between (blank line tokens on lines 2 and 4) the count restarts at
    the second one — the rule counts 1 where the closed form counts 2 -/
theorem md022_closed_form_excluded :
    let rev : List Tok := [{ kind := .blank, line := 4 }, { kind := .blank, line := 2 }, { kind := .paraEnd }]
    flat022 rev = false ∧ cnt022 rev = 1 ∧ known022 rev = true ∧ blanksBack rev = 2 := by
  refine ⟨by decide, by decide, by decide, by decide⟩

/-! ## C12 with the exact fields for the two rules whose remembered token is read for line and column only -/

/-- C12, exact: MD041 reads the kind, line and column of every token, the level of headings, the keys of front matter and the text of
    text tokens — and NOT the original position (which `md041_scan_reads` still carried through `PosEq`). -/
theorem md041_scan_reads_exact (c : C041) (toks toks' : List Tok)
    (h : All₂ (fun t t' => t'.kind = t.kind ∧ (t'.line = t.line ∧ t'.col = t.col) ∧ (t.isHeading = true → t'.hashCount = t.hashCount) ∧
      (t.kind = .frontMatter → t'.keys = t.keys) ∧ (t.kind = .text → t'.text = t.text)) toks toks') :
    scan md041 c toks' = scan md041 c toks :=
  scanFrom_congr_rel md041 c S041x Rs041x (fun s s' t t' hR hS => md041_rel_step_x c s s' t t' hR hS) toks toks' h _ _
    ⟨rfl, trivial⟩

/-- C12, exact: MD036 reads the kind of every token, the line and column of paragraph starts and the text of text tokens. -/
theorem md036_scan_reads_exact (c : C036) (toks toks' : List Tok)
    (h : All₂ (fun t t' => t'.kind = t.kind ∧ (t.kind = .para → t'.line = t.line ∧ t'.col = t.col) ∧
      (t.kind = .text → t'.text = t.text)) toks toks') :
    scan md036 c toks' = scan md036 c toks :=
  scanFrom_congr_rel md036 c S036x Rs036x (fun s s' t t' hR hS => md036_rel_step_x c s s' t t' hR hS) toks toks' h _ _
    ⟨rfl, trivial⟩

/-- the hypothesis on two concrete streams that differ in the original position, the debug string and (MD036) the position of a
    token that is no paragraph start — which the `PosEq` versions did not allow -/
example : All₂ (fun (t t' : Tok) => t'.kind = t.kind ∧ (t'.line = t.line ∧ t'.col = t.col) ∧ (t.isHeading = true → t'.hashCount = t.hashCount) ∧
      (t.kind = .frontMatter → t'.keys = t.keys) ∧ (t.kind = .text → t'.text = t.text))
    [{ kind := .setext, hashCount := 2, line := 2, col := 1, oline := 1, ocol := 1 }]
    [{ kind := .setext, hashCount := 2, line := 2, col := 1, oline := 7, ocol := 9, dbg := "x".toList }] :=
  .cons (by decide) .nil

example : All₂ (fun (t t' : Tok) => t'.kind = t.kind ∧ (t.kind = .para → t'.line = t.line ∧ t'.col = t.col) ∧
      (t.kind = .text → t'.text = t.text))
    [{ kind := .para, line := 1, col := 1 }, { kind := .emphasis, line := 1, col := 1 }]
    [{ kind := .para, line := 1, col := 1, oline := 5 }, { kind := .emphasis, line := 8, col := 8 }] :=
  .cons (by decide) (.cons (by decide) .nil)

/-- and the named fields ARE read: moving the remembered HTML block start changes MD041's report, moving the remembered paragraph start
    changes MD036's -/
theorem md041_md036_position_read :
    scan md041 {} [{ kind := .html, line := 1, col := 1 }, { kind := .text, text := "<p>".toList }] ≠
      scan md041 {} [{ kind := .html, line := 2, col := 1 }, { kind := .text, text := "<p>".toList }] ∧
    scan md036 {} [{ kind := .para, line := 1, col := 1 }, { kind := .emphasis }, { kind := .text, text := "a".toList }, { kind := .emphasisEnd }, { kind := .paraEnd }] ≠
      scan md036 {} [{ kind := .para, line := 1, col := 3 }, { kind := .emphasis }, { kind := .text, text := "a".toList }, { kind := .emphasisEnd }, { kind := .paraEnd }] := by
  refine ⟨by decide, by decide⟩

/-- MD022, the verdict on one heading without any recursive notion (no containers).  The tokens seen are
    `pre ++ h :: inner ++ e :: blanks` — a heading start `h`, its inline tokens, its end `e`, then only blank line tokens — and `t` is
    the first token that is not a blank line.  Then the reports made at `t` are exactly:
    "Above" iff the latest count-setting token of `pre` is a leaf end / thematic break / definition (`known022`) and the number of
    blank line tokens between it and `h` (`blanksBack`) differs from `lines_above`;
    "Below" iff the number of blank line tokens after `e` differs from `lines_below`. -/
theorem md022_verdict_closed_form (c : C022) (pre inner blanks : List Tok) (h e t : Tok)
    (hh : h.isHeading = true) (hin : ∀ x ∈ inner, x.isHeading = false ∧ x.isHeadingEnd = false) (he : e.isHeadingEnd = true)
    (hbl : ∀ x ∈ blanks, x.kind = .blank) (ht : t.kind ≠ .blank ∧ t.kind ≠ .bquoteEnd)
    (hf : flat022 (pre ++ h :: (inner ++ e :: blanks)).reverse = true) :
    cond022 c (pre ++ h :: (inner ++ e :: blanks)) t =
      (if known022 pre.reverse && decide ((blanksBack pre.reverse : Int) ≠ c.above) then
        [⟨(pos022 h).1, (pos022 h).2, some (extra022 c.above (blanksBack pre.reverse) "Above"), 0⟩] else []) ++
      (if decide ((blanks.length : Int) ≠ c.below) then
        [⟨(pos022 h).1, (pos022 h).2, some (extra022 c.below blanks.length "Below"), 0⟩] else []) := by
  rw [cond022_eq_closed c _ t hf]
  have erev : (pre ++ h :: (inner ++ e :: blanks)).reverse = blanks.reverse ++ e :: (inner.reverse ++ h :: pre.reverse) := by simp
  rw [erev] at hf
  unfold closed022
  rw [erev]
  have hin' : ∀ x ∈ inner.reverse, x.isHeading = false ∧ x.isHeadingEnd = false := fun x hx => hin x (List.mem_reverse.mp hx)
  have hbl' : ∀ x ∈ blanks.reverse, x.kind = .blank := fun x hx => hbl x (List.mem_reverse.mp hx)
  obtain ⟨p1, p2⟩ := pend022_blanks h pre.reverse _ (pend022_end h e pre.reverse inner.reverse hh he hin') blanks.reverse hbl' hf
  have hs : sets022 e = true := by
    unfold sets022 Tok.isEnd; unfold Tok.isHeadingEnd at he
    cases hk : e.kind <;> simp_all
  have hbb : blanksBack (blanks.reverse ++ e :: (inner.reverse ++ h :: pre.reverse)) = blanks.length := by
    rw [blanksBack_blanks _ blanks.reverse hbl', blanksBack_cons_sets e _ hs]; simp
  have htr : transparent022 t (blanks.reverse ++ e :: (inner.reverse ++ h :: pre.reverse)) = false := by
    unfold transparent022; simp [ht.1, ht.2]
  rw [p1]
  simp only [p2, htr, hbb, Bool.not_false, Bool.and_self, if_true]

/-- all hypotheses on a concrete stream: paragraph, blank line, `# h`, two blank lines, then a paragraph start; `lines_above = 1`
    holds, `lines_below = 1` does not: exactly the "Below" report -/
example : let pre : List Tok := [{ kind := .para, line := 1, col := 1 }, { kind := .text }, { kind := .paraEnd }, { kind := .blank, line := 2 }]
    let h : Tok := { kind := .atx, hashCount := 1, line := 3, col := 1 }
    let inner : List Tok := [{ kind := .text }]
    let e : Tok := { kind := .atxEnd }
    let blanks : List Tok := [{ kind := .blank, line := 4 }, { kind := .blank, line := 5 }]
    flat022 (pre ++ h :: (inner ++ e :: blanks)).reverse = true ∧ (∀ x ∈ inner, x.isHeading = false ∧ x.isHeadingEnd = false) ∧
    (∀ x ∈ blanks, x.kind = .blank) ∧ known022 pre.reverse = true ∧ blanksBack pre.reverse = 1 ∧
    cond022 {} (pre ++ h :: (inner ++ e :: blanks)) { kind := .para, line := 6, col := 1 } =
      [⟨3, 1, some "Expected: 1; Actual: 2; Below".toList, 0⟩] := by
  refine ⟨by decide, by decide, by decide, by decide, by decide, by decide⟩

end Verif.Props.ScanRules
