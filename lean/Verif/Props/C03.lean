/-
  C03 — Parse conforms to CommonMark/GFM: rendered HTML matches a compliant parser.

  The compliant parser of the statement is the reference model LeanMark (Verif/Model/LeanMark, written from the
  specification, not from pymarkdown).  The theorems below are about the reference, for ALL documents and for all four
  readings of the two points on which the specification's prose and its appendix differ (`Reading`); the
  implementation is tied to the reference by the refinement check of tools/props/c03.py on enumerated document spaces
  (abs(tokens) = events, normalised HTML equal).  There is no theorem about pymarkdown's own container / inline code.
-/
import Verif.Lemmas.LeanMarkBalanced
import Verif.Lemmas.LeanMarkInline
import Verif.Lemmas.LeanMarkEscape
import Verif.Lemmas.LeanMarkAttr
import Verif.Lemmas.LeanMarkLoose
namespace Verif.Props.C03
open Verif.Model.LeanMark

/-- the reference is total: every document has an event stream and an HTML rendering (no `partial` in the model). -/
theorem L_total (rd : Reading) (doc : List Char) : ∃ (es : List Ev) (h : List Char), eventsR rd (docLines doc) = es ∧ htmlR rd doc = h :=
  ⟨_, _, rfl, rfl⟩

example : html "- a\n- b\n".toList = "<ul>\n<li>a</li>\n<li>b</li>\n</ul>\n".toList := by decide

/-- every block stream of the reference is well nested: each `close` matches the innermost open container. -/
theorem L_balanced (rd : Reading) (lines : List Line) : WellNested (eventsR rd lines) := (L_wellFormedR rd lines).wellNested

example : WellNested (events ["> - a".toList, "> - b".toList, "c".toList]) := L_balanced {} _
example : events ["> - a".toList, "> - b".toList, "c".toList] ≠ [] := by decide

/-- … and class-correct: an item is opened exactly inside a list, nothing else is opened directly inside a list. -/
theorem L_wellFormed (rd : Reading) (lines : List Line) : WellFormed (eventsR rd lines) := L_wellFormedR rd lines

example : replay (events ["1. a".toList, "   > b".toList]) = some [] := L_wellFormed {} _

/-- the inline stream of every leaf is well bracketed (emphasis / strong / link / image). -/
theorem L_inline_wellNested (refs : RefMap) (lines : List PLine) : IWellNested (parseInlines refs lines) :=
  Verif.Model.LeanMark.L_inline_wellNested refs lines

example : parseInlines [] [⟨1, 0, "*a [b](/u) **c***".toList⟩] ≠ [] := by decide

/-- escaping leaves no raw `<`, `>`, `"`. -/
theorem L_escape (s : List Char) : ∀ x ∈ escHtml s, x ≠ '<' ∧ x ≠ '>' ∧ x ≠ '"' := Verif.Model.LeanMark.L_escape s

example : escHtml "a<b>&\"".toList = "a&lt;b&gt;&amp;&quot;".toList := by decide

/-- **L_attr_safe** (1): every attribute written through `attr` — href, src, title, class (info string), start — has the
    shape ` name="v"` with `v = escHtml value`, free of raw `<`, `>`, `"`. -/
theorem L_attr_safe (name : String) (value : List Char) :
    attr name value = (' ' :: name.toList ++ ['=', '"']) ++ escHtml value ++ ['"'] ∧ Safe (escHtml value) :=
  attr_safe name value

/-- **L_attr_safe** (2), the `alt` attribute: while an image description is rendered (`img > 0`) one inline event
    appends only safe characters, except the `closeImage` that leaves the description, which appends exactly the closing
    quote, the title attribute and ` />`. -/
theorem L_attr_safe_alt (o : ROut) (e : IEv) (h : o.img > 0) :
    ∃ s, (renderInline o e).rev = s.reverse ++ o.rev ∧
      ((renderInline o e).img > 0 → Safe s) ∧
      ((renderInline o e).img = 0 → s = '"' :: (titleAttr o.imgTitle ++ " />".toList)) :=
  alt_step_safe o e h

/-- … and any run of events inside the description appends only safe characters. -/
theorem L_attr_safe_alt_run (es : List IEv) (o : ROut) (h : o.img > 0)
    (hk : ∀ k, k ≤ es.length → (renderInlines o (es.take k)).img > 0) :
    ∃ s, (renderInlines o es).rev = s.reverse ++ o.rev ∧ Safe s :=
  alt_run_safe es o h hk

-- the implementation-side counterparts (findings F-INFO, F-ALTRAW) on the reference:
example : html "```a\"b<c>\n".toList = "<pre><code class=\"language-a&quot;b&lt;c&gt;\"></code></pre>\n".toList := by decide
example : html "![a<b c=\"d\">](/u)".toList = "<p><img src=\"/u\" alt=\"a&lt;b c=&quot;d&quot;&gt;\" /></p>\n".toList := by decide

/-- **tight_loose_spec**: the renderer's tight/loose table (the single-pass stack machine `looseness`, read by
    `renderBlocks` through `lookup`) equals the specification's §5.3 definition computed by plain structural recursion
    on the block tree (`spec`, `looseSpec`: a list is loose iff two consecutive children — its items — are separated
    by a blank line, i.e. a line gap `start > previous end + 1`, or some item directly contains two consecutive blocks
    so separated; link reference definitions are not blocks) — for EVERY forest. -/
theorem tight_loose_spec (t : Blks) : looseness t.flatten [] 0 = spec t := Verif.Model.LeanMark.tight_loose_spec t

/-- … in the form the renderer uses it. -/
theorem tight_loose_spec_lookup (t : Blks) (id : Nat) :
    (looseness t.flatten [] 0).lookup id = (spec t).lookup id := Verif.Model.LeanMark.tight_loose_spec_lookup t id

/-- … and for the stream of every document under every reading (every stream is the flattening of its tree). -/
theorem tight_loose_spec_events (rd : Reading) (lines : List Line) :
    looseness (eventsR rd lines) [] 0 = spec (treeOf (eventsR rd lines)) :=
  Verif.Model.LeanMark.tight_loose_spec_eventsR rd lines

/-- without link reference definitions the specification is the sentence of §5.3 verbatim: some two consecutive
    items have a line gap, or some item has two consecutive children with a line gap. -/
theorem tight_loose_spec_plain (t : Blks) (h : t.noLrd = true) : looseness t.flatten [] 0 = specS t :=
  Verif.Model.LeanMark.tight_loose_spec_partial t h

theorem looseSpec_plain_iff (items : Blks) : looseSpecS items = true ↔
    AdjGap items.toList ∨
    ∃ k pos e kids, Blk.node k pos e kids ∈ items.toList ∧ isItemK k = true ∧ AdjGap kids.toList :=
  Verif.Model.LeanMark.looseSpecS_iff items

/-- the items of `looseSpec items` are the list's constituent items: in the tree of every stream a list has only
    item children and items occur only there. -/
theorem tree_classes (rd : Reading) (lines : List Line) : (treeOf (eventsR rd lines)).classOK false = true :=
  treeOf_classOK (L_wellFormedR rd lines)

example : looseness (events ["- a".toList, "- b".toList]) [] 0 = [(0, false)] := by decide
example : looseness (events ["- a".toList, [], "- b".toList]) [] 0 = [(0, true)] := by decide
example : looseness (events ["- a".toList, [], "  b".toList]) [] 0 = [(0, true)] := by decide
example : looseness (events ["- a".toList, "  - b".toList, [], "    c".toList]) [] 0 = [(1, true), (0, false)] := by decide
example : spec (treeOf (events ["- a".toList, "- b".toList])) = [(0, false)] := by decide

/-- **html_deterministic_in_events**: the HTML is a function of the event stream alone (the reference map is computed
    from the stream's own link-reference-definition events): equal streams render equally, whatever the documents. -/
theorem html_deterministic_in_events (rd1 rd2 : Reading) (d1 d2 : List Char)
    (h : eventsR rd1 (docLines d1) = eventsR rd2 (docLines d2)) : htmlR rd1 d1 = htmlR rd2 d2 :=
  Verif.Model.LeanMark.html_deterministic_in_events rd1 rd2 d1 d2 h

example : html "a\n".toList = html "a".toList :=
  html_deterministic_in_events {} {} _ _ (by rw [show docLines "a\n".toList = docLines "a".toList from by decide])

end Verif.Props.C03
